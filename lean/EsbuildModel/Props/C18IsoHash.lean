import EsbuildModel.Lemmas.IsoHashTail
import EsbuildModel.Lemmas.IsoHashName
import EsbuildModel.Lemmas.IsoHashOutput
/-! # C18 — the ISOLATED hash of one chunk and the hashed name: property theorems

Model: `Impl/IsoHash.lean` (`generateIsolatedHash`, the streaming xxhash digest, `HashForFileName`).
`Tuple` (Lemmas/IsoHash.lean) is what the routine mixes in: file entries (namespace, path, part range) of a
JS chunk, the `Data` of the template parts, the public path, the pieces' data spans, the three
source-map pieces, how the map is attached (`c.options.SourceMap`, only when the map has content), the
external legal comments and how they are attached (`c.options.LegalComments`, only when there are any).
-/
namespace EsbuildModel.C18IsoHash
open EsbuildModel.IsoHash
open EsbuildModel.Pieces (Piece Kind substitute)

/-! ## 0. The hash is a function of the pre-image, the pre-image is the encoding of the tuple -/

/-- The digest `generateIsolatedHash` sends depends only on the CONCATENATION of the bytes it writes
(`Digest.Write` buffers 32-byte blocks; the boundaries of the Write calls do not matter): it is the
digest of one `Write` of the pre-image. -/
theorem isolated_hash_function_of_preimage (ctx : Ctx) (c : Chunk) :
    isoHash ctx c = (preimage ctx c).map fun p => (Digest.new.write p).sum := by
  unfold isoHash preimage
  cases writes ctx c with
  | none => rfl
  | some ws => simp [digestOfWrites_flatten]

/-- The bytes fed to the hash are the encoding `encode` of the chunk's tuple: the file entries
(`lenPrefixed ns ++ lenPrefixed path ++ le32 begin ++ le32 end`) followed by the length-prefixed items
template parts, public path (if not empty), piece data, source-map prefix / mappings / suffix, then the raw
uint32 source-map mode (if the map has content) and the legal comments followed by their raw uint32 mode
(if not empty).  The routine panics exactly when a part range names a file outside `c.graph.Files`. -/
theorem preimage_is_tuple_encoding (ctx : Ctx) (c : Chunk) :
    preimage ctx c = (tupleOf ctx c).map encode := preimage_eq_encode ctx c

/-! ## 1. Injectivity of the pre-image

-- OPEN `isolated_preimage_injective` (full statement):
--   ∀ a b : Tuple, a.WF → b.WF → Fits a → Fits b → encode a = encode b → a = b
-- is FALSE of the code: the number of file entries, of template parts and of pieces, and whether the
-- public path / the source-map mode / the legal comments were written, are not written to the hash, so
-- different tuples can have the same pre-image (the six `example`s after the theorem; every family is
-- replayed on the real routine by the kernel, stat `collision-pair-*`; the second one was also run end to
-- end: same hash for `--entry-names=[name]-[hash] --public-path=.js` and `--entry-names=[name]-[hash].js[hash]`).
-- What holds is the statement under the shape hypotheses below.
-/

/-- Two chunks (of any two builds) with the same pre-image have the same tuple, provided
* every written length fits its uint32 prefix (`Fits`),
* both source maps are absent or start with `{` while their mappings do not (`SMShape`: true of every map
  `generateSourceMapForChunk` writes),
* a written source-map mode is 1–4 (`ModeShape`: under SourceMapNone = 0 no map is generated),
* external legal comments, when present, have at least four bytes, no NUL among the first four, and are
  shorter than 16 MiB − 8 (`LegalShape`),
* both templates have the same, non-zero number of parts (same `--entry-names` / `--chunk-names` shape),
* the public path is empty in both or in neither,
* no file's namespace is equal to the first template part of either chunk.
The numbers of part ranges and of pieces, the presence of a source map and of the legal comments, and both
modes need NOT be assumed equal: they are recovered. -/
theorem isolated_preimage_injective_partial (ctx ctx' : Ctx) (c c' : Chunk) (a b : Tuple)
    (ha : tupleOf ctx c = some a) (hb : tupleOf ctx' c' = some b)
    (fa : Fits a) (fb : Fits b) (sa : SMShape a.sm) (sb : SMShape b.sm)
    (ma : ModeShape a.smMode) (mb : ModeShape b.smMode)
    (la : LegalShape a.legal) (lb : LegalShape b.legal)
    (hT : a.tmpl.length = b.tmpl.length) (hTne : a.tmpl ≠ [])
    (hP : a.pub = [] ↔ b.pub = [])
    (hns : ∀ f ∈ a.files ++ b.files, a.tmpl.head? ≠ some f.ns ∧ b.tmpl.head? ≠ some f.ns)
    (h : preimage ctx c = preimage ctx' c') : a = b := by
  rw [preimage_is_tuple_encoding, preimage_is_tuple_encoding, ha, hb] at h
  simp only [Option.map_some, Option.some.injEq, encode] at h
  have hTne' : b.tmpl ≠ [] := by
    intro h0; rw [h0] at hT; exact hTne (List.eq_nil_of_length_eq_zero hT)
  obtain ⟨hF, hI⟩ := files_inj a.files b.files (items a) (items b) _ _ fa.files fb.files fa.items fb.items
    (items_ne_nil a) (items_ne_nil b)
    (fun f hf => by rw [items_head a hTne]; exact (hns f (by simp [hf])).1)
    (fun f hf => by rw [items_head b hTne']; exact (hns f (by simp [hf])).2) h
  obtain ⟨h1, h2, h3, h4, h5, h6, h7⟩ := items_tail_inj a b fa fb
    ⟨tupleOf_wf ctx c a ha, sa, ma, la⟩ ⟨tupleOf_wf ctx' c' b hb, sb, mb, lb⟩ hT hP hI
  cases a; cases b; simp_all

/-- non-vacuity: a JS chunk with the SAME path in two namespaces, two pieces, a linked source map and linked
legal comments meets every hypothesis (against itself), and a chunk that differs only in the namespace of
the second file, or only in the way the source map is attached (linked / external), has a different
pre-image. -/
example :
    let files : List FileInfo := [⟨nsFile, [47, 97], [97]⟩, ⟨[104], [97], [97]⟩, ⟨nsFile, [97], [98]⟩]
    let ctx (smMode : Nat) : Ctx := ⟨files, [], smMode, 3⟩
    let sm : SMPieces := ⟨[123, 34], [65, 65, 65, 65], [34, 125]⟩
    let mk (second : Nat) : Chunk :=
      ⟨.js [⟨0, 0, 3⟩, ⟨second, 1, 2⟩], [[46, 47, 97, 45], [46, 106, 115]],
       .pieces [⟨[97, 98], 1, .chunk, []⟩, ⟨[99], 0, .none, []⟩], sm, [47, 42, 33, 120, 42, 47, 10]⟩
    ∃ a b, tupleOf (ctx 2) (mk 1) = some a ∧ tupleOf (ctx 2) (mk 2) = some b ∧
      Fits a ∧ Fits b ∧ SMShape a.sm ∧ ModeShape a.smMode ∧ LegalShape a.legal ∧
      a.tmpl.length = b.tmpl.length ∧ a.tmpl ≠ [] ∧ (a.pub = [] ↔ b.pub = []) ∧
      (∀ f ∈ a.files ++ b.files, a.tmpl.head? ≠ some f.ns ∧ b.tmpl.head? ≠ some f.ns) ∧
      a ≠ b ∧ preimage (ctx 2) (mk 1) ≠ preimage (ctx 2) (mk 2) ∧
      preimage (ctx 2) (mk 1) ≠ preimage (ctx 3) (mk 1) := by
  refine ⟨_, _, rfl, rfl, ⟨by decide, by decide, by decide, by decide, by decide⟩,
    ⟨by decide, by decide, by decide, by decide, by decide⟩, Or.inr ⟨by decide, by decide⟩, ?_, ?_,
    by decide, by decide, by decide, by decide, by decide, by decide, by decide⟩
  · intro v hv; cases hv; decide
  · exact Or.inr ⟨_, _, _, _, _, rfl, by decide, by decide, by decide, by decide, by decide⟩

/-- FALSE without the hypotheses (1/6): a file entry with `partIndexBegin = 4` reads like three template
parts — the number of entries is not written. -/
example :
    let a : Tuple := ⟨[⟨nsFile, [112], 4, 7⟩], [], [], [[120]], ⟨[], [], []⟩, none, [], none⟩
    let b : Tuple := ⟨[], [nsFile, [112], [7, 0, 0, 0]], [], [[120]], ⟨[], [], []⟩, none, [], none⟩
    a ≠ b ∧ encode a = encode b := by
  decide

/-- FALSE without the hypotheses (2/6): template `a-[hash].js` with public path `.js` against template
`a-[hash].js[hash].js` without public path (run on the real binary: both builds get the same hash). -/
example :
    let a : Tuple := ⟨[], [[97, 45], [46, 106, 115]], [46, 106, 115], [[120]], ⟨[], [], []⟩, none, [], none⟩
    let b : Tuple := ⟨[], [[97, 45], [46, 106, 115], [46, 106, 115]], [], [[120]], ⟨[], [], []⟩, none, [], none⟩
    a ≠ b ∧ encode a = encode b := by
  decide

/-- FALSE without the hypotheses (3/6): a public path reads like a first piece. -/
example :
    let a : Tuple := ⟨[], [[97]], [120], [[121]], ⟨[], [], []⟩, none, [], none⟩
    let b : Tuple := ⟨[], [[97]], [], [[120], [121]], ⟨[], [], []⟩, none, [], none⟩
    a ≠ b ∧ encode a = encode b := by
  decide

/-- FALSE without `SMShape` (4/6): legal comments and their mode 3 read like a source-map suffix and ITS mode 3
(ExternalWithoutComment) after one more (empty) piece; the right-hand map (empty prefix, non-empty suffix)
is one esbuild never produces. -/
example :
    let a : Tuple := ⟨[], [[97]], [], [[120]], ⟨[], [], []⟩, none, [122], some 3⟩
    let b : Tuple := ⟨[], [[97]], [], [[120], []], ⟨[], [], [122]⟩, some 3, [], none⟩
    a.WF ∧ b.WF ∧ SMShape a.sm ∧ ¬ SMShape b.sm ∧ a ≠ b ∧ encode a = encode b := by
  refine ⟨⟨by decide, by decide⟩, ⟨by decide, by decide⟩, Or.inl (by decide), ?_, by decide, by decide⟩
  rintro (h | h) <;> revert h <;> decide

/-- FALSE without `ModeShape` (5/6): a map with content under SourceMapNone — the mode 0 reads like an empty
item, so the map's pieces read like one more piece in front of an empty map. -/
example :
    let a : Tuple := ⟨[], [[97]], [], [[120]], ⟨[123], [], []⟩, some 0, [], none⟩
    let b : Tuple := ⟨[], [[97]], [], [[120], [123]], ⟨[], [], []⟩, none, [], none⟩
    a.WF ∧ b.WF ∧ SMShape a.sm ∧ SMShape b.sm ∧ a ≠ b ∧ encode a = encode b := by
  exact ⟨⟨by decide, by decide⟩, ⟨by decide, by decide⟩, Or.inr ⟨by decide, by decide⟩, Or.inl (by decide),
    by decide, by decide⟩

/-- FALSE without `LegalShape` (6/6): mode 4 followed by legal comments that begin with twelve NUL bytes and
a length prefix read like four more pieces, an empty map and shorter legal comments. -/
example :
    let a : Tuple := ⟨[], [[97]], [], [[120]], ⟨[123], [65], [125]⟩, some 4,
                      [0, 0, 0, 0, 0, 0, 0, 0, 0, 0, 0, 0, 4, 0, 0, 0, 47, 47, 33, 10], some 3⟩
    let b : Tuple := ⟨[], [[97]], [], [[120], [123], [65], [125], [20, 0, 0, 0]], ⟨[], [], []⟩, none,
                      [47, 47, 33, 10], some 3⟩
    a.WF ∧ b.WF ∧ SMShape a.sm ∧ SMShape b.sm ∧ ModeShape a.smMode ∧ ¬ LegalShape a.legal ∧ a ≠ b ∧
      encode a = encode b := by
  refine ⟨⟨by decide, by decide⟩, ⟨by decide, by decide⟩, Or.inr ⟨by decide, by decide⟩, Or.inl (by decide),
    ?_, ?_, by decide, by decide⟩
  · intro v hv; cases hv; decide
  · rintro (h | ⟨c0, c1, c2, c3, r, h, h0, _⟩)
    · revert h; decide
    · simp only [List.cons.injEq] at h
      exact h0 h.1.symm

/-! ## 2. The hashed tuple covers the chunk file, trailer included

`finalFile ctx c pathOf own` is `outputContents` of `generateChunksInParallel`: the substituted contents
(`substituteFinalPaths`: the joiner itself when there are no pieces, otherwise every piece's data followed by
the final path of the asset / chunk the piece refers to), then the link to the legal-comments file under
LegalCommentsLinkedWithComment, then the source-map comment (URL under SourceMapLinkedWithComment, the whole
map as a data URL under SourceMapInline / SourceMapInlineAndExternal).  `refsOf pathOf out` are the
substituted paths, one per piece; `own` are the strings derived from the chunk's OWN final path (the path of
the .LEGAL.txt file, the escaped path of the .map file, the base64 text of the finished map).
-/

/-- If two chunks (of any two builds) have the same tuple — which holds when their isolated pre-images
are equal under the hypotheses of `isolated_preimage_injective_partial` — are both JS or both CSS, and the
paths substituted for their references to OTHER files and the strings derived from their OWN final path are
the same, then the FINAL chunk files, trailer included, have the same bytes; the source-map pieces and the
legal-comments file are the same too. -/
theorem isolated_covers_output (ctx ctx' : Ctx) (c c' : Chunk) (t : Tuple)
    (pathOf pathOf' : Kind → Nat → List Nat) (own : OwnPaths)
    (h : tupleOf ctx c = some t) (h' : tupleOf ctx' c' = some t)
    (hkind : isCSS c.repr = isCSS c'.repr)
    (hrefs : refsOf pathOf c.out = refsOf pathOf' c'.out) :
    finalFile ctx c pathOf own = finalFile ctx' c' pathOf' own ∧
    c.outputSourceMap = c'.outputSourceMap ∧
    c.externalLegalComments = c'.externalLegalComments := by
  obtain ⟨hp, hs⟩ := comment_style c.repr c'.repr hkind
  refine ⟨by rw [finalFile_eq ctx c t pathOf own h, finalFile_eq ctx' c' t pathOf' own h', hp, hs, hrefs], ?_⟩
  unfold tupleOf at h h'
  cases he : fileEntries ctx c <;> rw [he] at h <;> simp only [reduceCtorEq, Option.some.injEq] at h
  cases he' : fileEntries ctx' c' <;> rw [he'] at h' <;> simp only [reduceCtorEq, Option.some.injEq] at h'
  subst h
  simp only [Tuple.mk.injEq] at h'
  exact ⟨h'.2.2.2.2.1.symm, h'.2.2.2.2.2.2.1.symm⟩

/-- the contrapositive a user relies on: if the bytes of the final chunk file (or the map pieces, or the
legal-comments file) differ although every reference and every own-path string is the same, then the
hashed tuples differ. -/
theorem output_change_changes_tuple (ctx ctx' : Ctx) (c c' : Chunk) (t t' : Tuple)
    (pathOf pathOf' : Kind → Nat → List Nat) (own : OwnPaths)
    (h : tupleOf ctx c = some t) (h' : tupleOf ctx' c' = some t')
    (hkind : isCSS c.repr = isCSS c'.repr)
    (hrefs : refsOf pathOf c.out = refsOf pathOf' c'.out)
    (hdiff : finalFile ctx c pathOf own ≠ finalFile ctx' c' pathOf' own ∨
             c.outputSourceMap ≠ c'.outputSourceMap ∨
             c.externalLegalComments ≠ c'.externalLegalComments) : t ≠ t' := by
  intro htt
  subst htt
  obtain ⟨h1, h2, h3⟩ := isolated_covers_output ctx ctx' c c' t pathOf pathOf' own h h' hkind hrefs
  rcases hdiff with hd | hd | hd
  · exact hd h1
  · exact hd h2
  · exact hd h3

/-- The modes that are NOT written do not matter for the file: when the map has no content the source-map
option changes neither the tuple nor the chunk file, and without external legal comments neither does the
legal-comments option (so nothing that changes the file was left out of the hash). -/
theorem unwritten_modes_do_not_matter (files : List FileInfo) (pub : List Nat) (m m' l l' : Nat) (c : Chunk)
    (pathOf : Kind → Nat → List Nat) (own : OwnPaths)
    (hm : c.outputSourceMap.hasContent = true → m = m')
    (hl : c.externalLegalComments ≠ [] → l = l') :
    tupleOf ⟨files, pub, m, l⟩ c = tupleOf ⟨files, pub, m', l'⟩ c ∧
    finalFile ⟨files, pub, m, l⟩ c pathOf own = finalFile ⟨files, pub, m', l'⟩ c pathOf own := by
  have ht : tupleOf ⟨files, pub, m, l⟩ c = tupleOf ⟨files, pub, m', l'⟩ c := by
    unfold tupleOf fileEntries
    by_cases hc : c.outputSourceMap.hasContent = true <;> by_cases hL : c.externalLegalComments = [] <;>
      simp_all
  refine ⟨ht, ?_⟩
  cases h : tupleOf ⟨files, pub, m, l⟩ c with
  | some t =>
    rw [finalFile_eq _ c t pathOf own h, finalFile_eq _ c t pathOf own (ht ▸ h)]
  | none =>
    unfold finalFile
    rw [addSourceMapComment_eq, addSourceMapComment_eq, addLegalLink_eq, addLegalLink_eq]
    by_cases hc : c.outputSourceMap.hasContent = true <;> by_cases hL : c.externalLegalComments = [] <;>
      simp_all

/-- non-vacuity: (1) joiner / one final piece: same tuple, same file `abc`; (2) pieces `ab`·C1·`c` and
`ab`·C2·`c`: same tuple, same file when both references get the same path, different files when not (the
tuple does not say WHICH chunk a piece refers to: known finding c18-hash-ignores-reference-order);
(3) the trailer: linked map + linked legal comments append two comment lines, and switching the source map
to "external" changes both the file and the tuple (the defect fixed by 4068036). -/
example :
    let ctx : Ctx := ⟨[], [], 2, 3⟩
    let sm0 : SMPieces := ⟨[], [], []⟩
    let c1 : Chunk := ⟨.css, [[97]], .joiner [97, 98, 99], sm0, []⟩
    let c2 : Chunk := ⟨.css, [[97]], .pieces [⟨[97, 98, 99], 0, .none, []⟩], sm0, []⟩
    let c3 : Chunk := ⟨.css, [[97]], .pieces [⟨[97, 98], 1, .chunk, []⟩, ⟨[99], 0, .none, []⟩], sm0, []⟩
    let c4 : Chunk := ⟨.css, [[97]], .pieces [⟨[97, 98], 2, .chunk, []⟩, ⟨[99], 0, .none, []⟩], sm0, []⟩
    let c5 : Chunk := ⟨.js [], [[97]], .joiner [120, 59], ⟨[123], [], [125]⟩, [47, 47, 33, 10]⟩
    let same : Kind → Nat → List Nat := fun _ _ => [47]
    let byIndex : Kind → Nat → List Nat := fun _ i => [48 + i]
    let own : OwnPaths := ⟨[76], [77], [66]⟩
    tupleOf ctx c1 = tupleOf ctx c2 ∧ refsOf same c1.out = refsOf same c2.out ∧
    finalFile ctx c1 same own = [97, 98, 99] ∧
    tupleOf ctx c3 = tupleOf ctx c4 ∧ refsOf same c3.out = refsOf same c4.out ∧
    finalFile ctx c3 same own = [97, 98, 47, 99] ∧
    refsOf byIndex c3.out ≠ refsOf byIndex c4.out ∧
    finalFile ctx c3 byIndex own ≠ finalFile ctx c4 byIndex own ∧
    finalFile ctx c5 same own
      = [120, 59, 10] ++ ascii "/*! For license information please see L */\n"
          ++ ascii "//# sourceMappingURL=M\n" ∧
    finalFile ⟨[], [], 3, 3⟩ c5 same own ≠ finalFile ctx c5 same own ∧
    tupleOf ⟨[], [], 3, 3⟩ c5 ≠ tupleOf ctx c5 := by
  decide

/-! ## 3. The hashed name -/

/-- For EVERY sequence of writes the name `HashForFileName(hash.Sum(nil))` exists (no panic), has exactly
8 characters, all from `A`–`Z` `2`–`7` (no padding character, nothing that needs escaping in a path or
URL), and is a function of the first 5 of the 8 digest bytes only. -/
theorem name_is_function_of_hash (ws : List (List Nat)) :
    ∃ n, hashForFileName (digestOfWrites ws).sum = some n ∧ n.length = 8 ∧ (∀ ch ∈ n, IsB32 ch) ∧
      hashForFileName ((digestOfWrites ws).sum.take 5) = some n := by
  have hl : 5 ≤ (digestOfWrites ws).sum.length := by rw [sum_length]; decide
  obtain ⟨n, h1, h2, h3⟩ := hashForFileName_shape _ hl
  exact ⟨n, h1, h2, h3, by rw [← hashForFileName_take5 _ hl]; exact h1⟩

/-- the same for any byte string of at least 5 bytes (the final hash is another xxhash digest) -/
theorem name_shape (d : List Nat) (h : 5 ≤ d.length) :
    ∃ n, hashForFileName d = some n ∧ n.length = 8 ∧ (∀ ch ∈ n, IsB32 ch) ∧
      hashForFileName (d.take 5) = some n := by
  obtain ⟨n, h1, h2, h3⟩ := hashForFileName_shape d h
  exact ⟨n, h1, h2, h3, by rw [← hashForFileName_take5 d h]; exact h1⟩

/-- … and of nothing less: two digests whose names are equal agree on their first 5 bytes (40 bits of the
64-bit hash end up in the name, none of them is lost in the base32 step). -/
theorem name_determines_first_five_bytes (d d' : List Nat) (h : 5 ≤ d.length) (h' : 5 ≤ d'.length)
    (hb : ∀ x ∈ d, x < 256) (hb' : ∀ x ∈ d', x < 256)
    (hn : hashForFileName d = hashForFileName d') : d.take 5 = d'.take 5 := by
  obtain ⟨a0, a1, a2, a3, a4, r, rfl⟩ := exists_cons5 d h
  obtain ⟨b0, b1, b2, b3, b4, r', rfl⟩ := exists_cons5 d' h'
  rw [hashForFileName_cons5, hashForFileName_cons5, Option.some.injEq] at hn
  have ha : a0 < 256 ∧ a1 < 256 ∧ a2 < 256 ∧ a3 < 256 ∧ a4 < 256 :=
    ⟨hb _ (by simp), hb _ (by simp), hb _ (by simp), hb _ (by simp), hb _ (by simp)⟩
  have hb2 : b0 < 256 ∧ b1 < 256 ∧ b2 < 256 ∧ b3 < 256 ∧ b4 < 256 :=
    ⟨hb' _ (by simp), hb' _ (by simp), hb' _ (by simp), hb' _ (by simp), hb' _ (by simp)⟩
  obtain ⟨e0, e1, e2, e3, e4⟩ := b32group5_inj _ _ _ _ _ _ _ _ _ _ ha hb2 hn
  simp [e0, e1, e2, e3, e4]

/-- `HashForFileName` panics (slice bounds out of range) exactly on the empty byte string -/
theorem name_panics_iff_empty (d : List Nat) : hashForFileName d = none ↔ d = [] :=
  hashForFileName_none_iff d

/-- non-vacuity: the digest bytes 00 44 32 14 c7 … give "ABCDEFGH"; changing byte 5 or later changes
nothing, changing byte 4 changes the name; 1–4 bytes give a padded name; no bytes panic. -/
example :
    hashForFileName [0, 68, 50, 20, 199, 1, 2, 3] = some [65, 66, 67, 68, 69, 70, 71, 72] ∧
    hashForFileName [0, 68, 50, 20, 199, 9, 9, 9] = some [65, 66, 67, 68, 69, 70, 71, 72] ∧
    hashForFileName [0, 68, 50, 20, 198, 1, 2, 3] = some [65, 66, 67, 68, 69, 70, 71, 71] ∧
    hashForFileName [255] = some [55, 52, 61, 61, 61, 61, 61, 61] ∧
    hashForFileName [] = none := by
  decide

end EsbuildModel.C18IsoHash
