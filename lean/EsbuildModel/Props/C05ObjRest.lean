import EsbuildModel.Lemmas.Lower3Stmt
import EsbuildModel.Lemmas.Lower3Guard
import EsbuildModel.Lemmas.Lower3Hazards
/-!
C05 — syntax lowering preserves behaviour: object spread in object literals and object rest in destructuring
(declarations and assignments; computed keys, defaults, nested patterns).  Model: Impl/Lower3.lean (lowering:
lowerObjectSpread, lowerObjectRestInDecls, lowerAssign, lowerObjectRestHelper, captureKeyForObjectRest; runtime
helpers __spreadValues, __spreadProps, __objRest, __restKey), Spec/ObjectOps.lean (ECMA-262 operations).  The
lowering function of the model is compared with the real parser's lowered AST by the kernel `objrest`; the
evaluator (`execStmt … false …`: the language as it is, and the helper calls as their JavaScript text says) is
compared with Node 20 running the source text and the text esbuild emits by the kernel `objrestsem`.

Theorems (for EVERY statement / expression of the fragment, no bound on size or nesting, every world satisfying
`Quiet`, every initial trace / variables / temporaries):

* `object_rest_lowering_preserves_behaviour` (statements: declaration lists and expression statements, with
  patterns nested anyhow and spreads inside): the lowered statement completes the same way (normally, or with the
  same exception), with the same trace (the same probe calls, property reads, getter calls and ToPrimitive
  conversions with the same arguments in the same order — so every sub-expression is evaluated the same number of
  times in the same order), and the same final variables — the objects stored in them are equal as values: same
  keys in the same order, same values / accessors, same prototype.
* `object_spread_lowering_preserves_behaviour` (expressions without object patterns): the same, and only the two
  situations about spread have to be excluded.
* `expression_lowering_preserves_behaviour`: every expression of the fragment.

HYPOTHESES.  `Quiet w`: property reads do not add, remove or reconfigure properties of the objects being copied
(the helpers look at the keys at other moments than the language does).  And the guarded run of the SOURCE does
not stop at one of six situations (`Hz`); each of them is a difference between esbuild's output and the source
that was reproduced on esbuild + Node 20 (see the examples at the end; the first and the fourth are the recorded
findings c05-spread-proto-literal and c05-rest-key-reread):
  protoAfterSpread  `{...a, __proto__: p}`: the prototype is set on a temporary object and lost
  accessorSplit     `{get x() {…}, ...a, set x(v) {…}}`: the setter is defined with `get: undefined`, the getter is lost
  objectKey         `({[k]: a, ...r} = o)` with k an object: k is converted twice, the second time with hint "default"
  keyReread         `({[k]: k, ...r} = o)`: `__restKey(k)` reads k after it was reassigned
  protoKey          `({...r} = o)` where o has an own enumerable "__proto__": `target[key] = value` sets the prototype
  nullRest          `({...r} = null)`: no TypeError
`execStmt_guard` shows that a guarded run that does not stop IS the run of the language as it is, so the
theorems are about `guard = false` on both sides.

ASSUMPTIONS of the model (checked against Node 20 by `objrestsem` where observable): objects the program makes
are referenced by nobody else while they are built; objects of the world are ordinary objects (no Proxy: looking
at keys and attributes is not observable); keys defined by object literals are not array indices and not names of
properties of Object.prototype; identifiers are declared variables and temporaries are fresh; the runtime helpers
see the built-ins they captured when the file started (Object.defineProperty, hasOwnProperty, …).
Not covered: array patterns (`[a, {...b}] = c`; splitArrayPattern turns the tail into a rest element, which drains
the iterator: `let [a, {...b}, c] = gen()` runs `gen` to its end, natively it is closed after three steps),
member expressions as targets, for-in/of heads, catch bindings, function parameters.
-/
namespace EsbuildModel.Lower3

theorem not_outside {α : Type} {r : R α} (h : ∀ z, r ≠ .err (.outside z)) : ¬ Outside r := by
  intro ho
  cases r with
  | ok a => exact ho
  | err x =>
    cases x with
    | outside z => exact h z rfl
    | typeError => exact ho
    | host v => exact ho
    | illFormed => exact ho

/-- C05, object rest.  For every source statement, in every quiet world, from every state: if the guarded source
run does not stop at one of the recorded situations, the lowered statement (run as the language and the helpers'
JavaScript say) completes like the source statement, with the same trace and the same final variables. -/
theorem object_rest_lowering_preserves_behaviour (w : World) (hq : Quiet w) (st : Stmt) (hs : st.src = true)
    (h : H) (tm tm' : Nat → Val) (hin : ∀ z, (execStmt w true st ⟨h, tm'⟩).1 ≠ .err (.outside z)) :
    (execStmt w false (lowerS st) ⟨h, tm⟩).1 = (execStmt w false st ⟨h, tm'⟩).1 ∧
    (execStmt w false (lowerS st) ⟨h, tm⟩).2.h.tr = (execStmt w false st ⟨h, tm'⟩).2.h.tr ∧
    (execStmt w false (lowerS st) ⟨h, tm⟩).2.h.env = (execStmt w false st ⟨h, tm'⟩).2.h.env := by
  have hno := not_outside hin
  have hS : execStmt w false st ⟨h, tm'⟩ = execStmt w true st ⟨h, tm'⟩ := by
    cases execStmt_guard w st ⟨h, tm'⟩ with
    | inl ho => exact absurd ho hno
    | inr he => exact he
  have hR : (execStmt w true (lowerS st) ⟨h, tm⟩).1 = (execStmt w true st ⟨h, tm'⟩).1 ∧
      (execStmt w true (lowerS st) ⟨h, tm⟩).2.h = (execStmt w true st ⟨h, tm'⟩).2.h := by
    cases lowerStmt_ok w hq st hs ⟨h, tm⟩ ⟨h, tm'⟩ rfl with
    | inl ho => exact absurd ho hno
    | inr he => exact he
  have hL : execStmt w false (lowerS st) ⟨h, tm⟩ = execStmt w true (lowerS st) ⟨h, tm⟩ := by
    cases execStmt_guard w (lowerS st) ⟨h, tm⟩ with
    | inl ho => exact absurd (hR.1 ▸ ho) hno
    | inr he => exact he
  rw [hS, hL]
  exact ⟨hR.1, by rw [hR.2], by rw [hR.2]⟩

/-- every expression of the fragment (object literals with spreads, destructuring assignments whose value is
used, nested anyhow) -/
theorem expression_lowering_preserves_behaviour (w : World) (hq : Quiet w) (e : E) (hs : e.src = true)
    (h : H) (tm tm' : Nat → Val) (hin : ∀ z, (evalE w true e ⟨h, tm'⟩).1 ≠ .err (.outside z)) :
    (evalE w false (lower e) ⟨h, tm⟩).1 = (evalE w false e ⟨h, tm'⟩).1 ∧
    (evalE w false (lower e) ⟨h, tm⟩).2.h.tr = (evalE w false e ⟨h, tm'⟩).2.h.tr ∧
    (evalE w false (lower e) ⟨h, tm⟩).2.h.env = (evalE w false e ⟨h, tm'⟩).2.h.env := by
  have hno := not_outside hin
  have hS : evalE w false e ⟨h, tm'⟩ = evalE w true e ⟨h, tm'⟩ := by
    cases evalE_guard w e ⟨h, tm'⟩ with
    | inl ho => exact absurd ho hno
    | inr he => exact he
  have hR : (evalE w true (lower e) ⟨h, tm⟩).1 = (evalE w true e ⟨h, tm'⟩).1 ∧
      (evalE w true (lower e) ⟨h, tm⟩).2.h = (evalE w true e ⟨h, tm'⟩).2.h := by
    cases (thmE w hq e hs 0).1 ⟨h, tm⟩ ⟨h, tm'⟩ rfl with
    | inl ho => exact absurd ho hno
    | inr he => exact he
  have hL : evalE w false (lower e) ⟨h, tm⟩ = evalE w true (lower e) ⟨h, tm⟩ := by
    cases evalE_guard w (lower e) ⟨h, tm⟩ with
    | inl ho => exact absurd (hR.1 ▸ ho) hno
    | inr he => exact he
  rw [hS, hL]
  exact ⟨hR.1, by rw [hR.2], by rw [hR.2]⟩

/-- C05, object spread.  For every expression without object patterns (object literals with any number of
spreads, getters, setters, `__proto__: v`, computed keys, nested in each other, in calls and in plain
assignments), in every quiet world: if the guarded source run stops neither at a `__proto__: v` after a spread nor
at half of an accessor pair after a spread, the lowered expression has the same value (the same object: keys in
the same order, same values and accessors, same prototype), the same trace and the same final variables. -/
theorem object_spread_lowering_preserves_behaviour (w : World) (hq : Quiet w) (e : E) (hs : e.src = true)
    (hnp : e.noPat = true) (h : H) (tm tm' : Nat → Val)
    (h1 : (evalE w true e ⟨h, tm'⟩).1 ≠ .err (.outside .protoAfterSpread))
    (h2 : (evalE w true e ⟨h, tm'⟩).1 ≠ .err (.outside .accessorSplit)) :
    (evalE w false (lower e) ⟨h, tm⟩).1 = (evalE w false e ⟨h, tm'⟩).1 ∧
    (evalE w false (lower e) ⟨h, tm⟩).2.h.tr = (evalE w false e ⟨h, tm'⟩).2.h.tr ∧
    (evalE w false (lower e) ⟨h, tm⟩).2.h.env = (evalE w false e ⟨h, tm'⟩).2.h.env := by
  refine expression_lowering_preserves_behaviour w hq e hs h tm tm' (fun z hz => ?_)
  have := evalE_hz w true e ⟨h, tm'⟩ hnp z hz
  cases z with
  | protoAfterSpread => exact h1 hz
  | accessorSplit => exact h2 hz
  | objectKey => exact this
  | protoKey => exact this
  | nullRest => exact this
  | keyReread => exact this

-- ---------------------------------------------------------------- non-vacuity

/-- a quiet world: f2 returns "c", the other functions objects; object 1 has the keys a, b (not enumerable), c and the
symbol 7; object 3 has an own "__proto__"; every property read gives a number that depends on how much has
happened before; getters of literals give 100 + their number; toString / valueOf of an object give "k" -/
def exW : World :=
  { host := fun ev tr env =>
      match ev with
      | .call f _ => (if f = 2 then .ret (.str "c") else .ret (.obj (20 + f)), env)
      | .get o _ => (.ret (.num (Int.ofNat (o + tr.length))), env)
      | .getter g _ => (.ret (.num (Int.ofNat (100 + g))), env)
      | .toPrim _ _ => (.ret (.str "k"), env),
    strKeys := fun o _ => if o = 1 then ["a", "b", "c"] else if o = 3 then ["__proto__", "a"] else ["x"],
    symKeys := fun o _ => if o = 1 then [7] else [],
    enumerable := fun o k _ => !(o = 1 && k == .str "b") }

theorem exW_quiet : Quiet exW := fun _ _ _ _ => ⟨rfl, rfl, fun _ => rfl⟩

/-- v0 undefined, v1 … v3 the objects 1 … 3 of the world -/
def exS : TState := ⟨⟨[], fun x => if x = 0 then .undef else .obj x⟩, fun _ => .undef⟩
def u : E := .lit .undef

/-- `v0 = {p: f0(v2), ...v1, get g() {…}, q: v2}` -/
def exSpread : E :=
  .asg (.var 0) (.obj (.data (.str "p") u (.call 0 (.id 2)) (.spread (.id 1) (.getter (.str "g") u 3 (.data (.str "q") u (.id 2) .nil)))))

example : exSpread.src = true ∧ exSpread.noPat = true := by decide
example : lower exSpread = .asg (.var 0) (.spreadProps (.spreadValues (.obj (.data (.str "p") u (.call 0 (.id 2)) .nil)) (.id 1))
    (.obj (.getter (.str "g") u 3 (.data (.str "q") u (.id 2) .nil)))) := rfl
/-- the hypotheses of `object_spread_lowering_preserves_behaviour` hold, and something happens: b is not copied
(not enumerable), the symbol key comes after the string keys, the getter g is defined, not called -/
example : (evalE exW true exSpread exS).1 = .ok (.rcd .undef
      [("p", .data (.obj 20)), ("a", .data (.num 2)), ("c", .data (.num 3)), ("g", .acc (some 3) none), ("q", .data (.obj 2))]
      [(7, .data (.num 4))]) ∧
    (evalE exW true exSpread exS).2.h.tr = [.call 0 (.obj 2), .get 1 (.str "a"), .get 1 (.str "c"), .get 1 (.sym 7)] := by decide
example : (evalE exW false (lower exSpread) exS).1 = (evalE exW false exSpread exS).1 ∧
    (evalE exW false (lower exSpread) exS).2.h.tr = (evalE exW false exSpread exS).2.h.tr := by decide

/-- `var {a: v0, ["c"]: v2, ...v3} = v1` -/
def exRest : Stmt :=
  .decl [(.obj (.prop (.str "a") u (.var 0) false u (.prop .comp (.lit (.str "c")) (.var 2) false u .nil)) (some 3), .id 1)]

example : exRest.src = true := by decide
example : lowerS exRest = .decl [(.tmp 0, .id 1),
    (.obj (.prop (.str "a") u (.var 0) false u (.prop .comp (.lit (.str "c")) (.var 2) false u .nil)) none, .tmp 0),
    (.var 3, .objRest (.tmp 0) [.str "a", .str "c"])] := rfl
/-- the hypothesis of `object_rest_lowering_preserves_behaviour` holds; the rest object gets the symbol key only
(a and c are excluded, b is not enumerable) -/
example : (execStmt exW true exRest exS).1 = .ok .undef ∧
    (execStmt exW true exRest exS).2.h.tr = [.get 1 (.str "a"), .get 1 (.str "c"), .get 1 (.sym 7)] ∧
    (execStmt exW true exRest exS).2.h.env 3 = .rcd .undef [] [(7, .data (.num 3))] := by decide
example : (execStmt exW false (lowerS exRest) exS).2.h.env 3 = .rcd .undef [] [(7, .data (.num 3))] := by decide

/-- `v0 = ({a: {x: v2 = f1(5), ...v3}, [f2(v2)]: v2, ...v1} = {a: v2, ...v1})`: a nested pattern with rest
(splitObjectPattern), a default, a computed key captured in a temporary, the value of the assignment used, a
spread in the initialiser -/
def exNested : Stmt :=
  .expr (.asg (.var 0) (.asg
    (.obj (.prop (.str "a") u (.obj (.prop (.str "x") u (.var 2) true (.call 1 (.lit (.num 5))) .nil) (some 3)) false u
      (.prop .comp (.call 2 (.id 2)) (.var 2) false u .nil)) (some 1))
    (.obj (.data (.str "a") u (.id 2) (.spread (.id 1) .nil)))))

example : exNested.src = true := by decide
example : (execStmt exW true exNested exS).1 = .ok .undef ∧
    (execStmt exW true exNested exS).2.h.tr =
      [.get 1 (.str "a"), .get 1 (.str "c"), .get 1 (.sym 7), .call 1 (.num 5), .call 2 (.obj 21)] ∧
    (execStmt exW true exNested exS).2.h.env 1 = .rcd .undef [] [(7, .data (.num 3))] ∧
    (execStmt exW true exNested exS).2.h.env 2 = .num 2 := by decide
example : (execStmt exW false (lowerS exNested) exS).1 = (execStmt exW false exNested exS).1 ∧
    (execStmt exW false (lowerS exNested) exS).2.h.tr = (execStmt exW false exNested exS).2.h.tr ∧
    (List.range 4).map (execStmt exW false (lowerS exNested) exS).2.h.env =
      (List.range 4).map (execStmt exW false exNested exS).2.h.env := by decide +kernel

-- ---------------------------------------------------------------- every hypothesis is needed

/-- c05-spread-proto-literal: `{...v1, __proto__: v2}`.  The source object has the prototype v2; the lowered
`__spreadProps(__spreadValues({}, v1), {__proto__: v2})` sets the prototype of the temporary literal, and the
result keeps %Object.prototype%.  The guarded run stops exactly there.
esbuild + Node 20: `var pr = {inherited: 1}, q = {own: 2}; var x = {...q, __proto__: pr}; x.inherited` is 1
natively and undefined with --target=es2017. -/
def exProto : E := .obj (.spread (.id 1) (.proto (.id 2) .nil))
theorem proto_after_spread_differs :
    (evalE exW false exProto exS).1 = .ok (.rcd (.obj 2) [("a", .data (.num 1)), ("c", .data (.num 2))] [(7, .data (.num 3))]) ∧
    (evalE exW false (lower exProto) exS).1 = .ok (.rcd .undef [("a", .data (.num 1)), ("c", .data (.num 2))] [(7, .data (.num 3))]) ∧
    (evalE exW true exProto exS).1 = .err (.outside .protoAfterSpread) := by decide

/-- `{get a() {…}, ...v2, set a(x) {…}}`.  The source object has an accessor a with getter and setter; the lowered
`__spreadProps(…, {set a(x) {…}})` defines a with the descriptor {get: undefined, set}, and the getter is lost.
esbuild + Node 20: `var x = {get a() { return 1 }, ...{}, set a(v) {}}; x.a` is 1 natively and undefined with
--target=es2017 (and the other way round for `{set a(v) {}, ...b, get a() {…}}`). -/
def exAcc : E := .obj (.getter (.str "a") u 1 (.spread (.id 2) (.setter (.str "a") u 2 .nil)))
theorem accessor_split_differs :
    (evalE exW false exAcc exS).1 = .ok (.rcd .undef [("a", .acc (some 1) (some 2)), ("x", .data (.num 2))] []) ∧
    (evalE exW false (lower exAcc) exS).1 = .ok (.rcd .undef [("a", .acc none (some 2)), ("x", .data (.num 2))] []) ∧
    (evalE exW true exAcc exS).1 = .err (.outside .accessorSplit) := by decide

/-- `var {[v1]: v0, ...v3} = v2` with v1 an object: natively the key is converted once (hint string); the lowered
`var _a = v2, {[v1]: v0} = _a, v3 = __objRest(_a, [__restKey(v1)])` converts it a second time, with `v1 + ""` (hint
default), so there is one more event and the key to exclude may be another one.
esbuild + Node 20: `let k = {toString() { n++; return 'a' }, valueOf() { n += 10; return 'b' }}; let {[k]: x, ...r}
= {a: 1, b: 2}`: natively r is {b: 2} and n is 1; with --target=es2017 r is {a: 1} and n is 11. -/
def exObjKey : Stmt := .decl [(.obj (.prop .comp (.id 1) (.var 0) false u .nil) (some 3), .id 2)]
theorem object_key_differs :
    (execStmt exW false exObjKey exS).2.h.tr = [.toPrim .string (.obj 1), .get 2 (.str "k"), .get 2 (.str "x")] ∧
    (execStmt exW false (lowerS exObjKey) exS).2.h.tr =
      [.toPrim .string (.obj 1), .get 2 (.str "k"), .toPrim .default (.obj 1), .get 2 (.str "x")] ∧
    (execStmt exW true exObjKey exS).1 = .err (.outside .objectKey) := by decide

/-- `var {...v0} = v3` where v3 has an own enumerable "__proto__": natively the copy has an own property
"__proto__"; `__objRest` does `target["__proto__"] = value`, which runs the setter of Object.prototype (here the
value is a number: nothing happens; an object would become the prototype).
esbuild + Node 20: `let {y, ...r} = JSON.parse('{"__proto__": {"x": 1}, "y": 2}')`: natively Object.keys(r) is
["__proto__"] and r.x is undefined; with --target=es2017 r has no own keys and r.x is 1. -/
def exProtoKey : Stmt := .decl [(.obj .nil (some 0), .id 3)]
theorem proto_key_differs :
    (execStmt exW false exProtoKey exS).2.h.env 0 = .rcd .undef [("__proto__", .data (.num 3)), ("a", .data (.num 4))] [] ∧
    (execStmt exW false (lowerS exProtoKey) exS).2.h.env 0 = .rcd .undef [("a", .data (.num 4))] [] ∧
    (execStmt exW true exProtoKey exS).1 = .err (.outside .protoKey) := by decide

/-- `var {...v0} = null`: natively a TypeError; `v0 = __objRest(null, [])` is `{}`.
esbuild + Node 20: `let {...r} = null` throws natively and gives {} with --target=es2017. -/
def exNull : Stmt := .decl [(.obj .nil (some 0), .lit .null)]
theorem null_rest_differs :
    (execStmt exW false exNull exS).1 = .err .typeError ∧
    (execStmt exW false (lowerS exNull) exS).1 = .ok .undef ∧
    (execStmt exW false (lowerS exNull) exS).2.h.env 0 = .rcd .undef [] [] ∧
    (execStmt exW true exNull exS).1 = .err (.outside .nullRest) := by decide

/-- c05-rest-key-reread: `({[v0]: v0, ...v3} = v1)` with v0 = "a": natively the excluded name is "a" (the key when
it was evaluated); the lowered `_a = v1, {[v0]: v0} = _a, v3 = __objRest(_a, [__restKey(v0)])` reads v0 again
after the pattern assigned it.
esbuild + Node 20: `var k = "a", obj = {a: undefined, b: 2, c: 3}, a, rest; ({[k]: a = (k = "b"), ...rest} = obj)`:
natively rest is {b: 2, c: 3}, with --target=es2017 it is {a: undefined, c: 3}. -/
def exS2 : TState := ⟨⟨[], fun x => if x = 0 then .str "a" else .obj x⟩, fun _ => .undef⟩
def exReread : Stmt := .expr (.asg (.obj (.prop .comp (.id 0) (.var 0) false u .nil) (some 3)) (.id 1))
theorem key_reread_differs :
    (execStmt exW false exReread exS2).2.h.env 3 = .rcd .undef [("c", .data (.num 2))] [(7, .data (.num 3))] ∧
    (execStmt exW false (lowerS exReread) exS2).2.h.env 3 =
      .rcd .undef [("a", .data (.num 2)), ("c", .data (.num 3))] [(7, .data (.num 4))] ∧
    (execStmt exW true exReread exS2).1 = .err (.outside .keyReread) := by decide

/-- `Quiet` is needed: in a world where reading a property of object 1 gives it the symbol key 8, `{...v1}` natively
copies the symbol 7 only (the keys are listed before the first read); `__spreadValues` lists the symbol keys after
the string-keyed properties have been read, and copies 8 as well.  No situation of `Hz` is involved.
esbuild + Node 20: `const S = Symbol(); let b = {get a() { this[S] = 5; return 1 }, c: 2}; let x = {...b}; x[S]` is
undefined natively and 5 with --target=es2017 (likewise for a getter that makes a later key non-enumerable). -/
def exW2 : World :=
  { exW with symKeys := fun o tr =>
      if o = 1 then (if tr.any (fun ev => match ev with | .get _ _ => true | _ => false) then [7, 8] else [7]) else [] }
def exQ : E := .obj (.spread (.id 1) .nil)
theorem not_quiet_differs :
    (evalE exW2 false exQ exS).1 = .ok (.rcd .undef [("a", .data (.num 1)), ("c", .data (.num 2))] [(7, .data (.num 3))]) ∧
    (evalE exW2 false (lower exQ) exS).1 =
      .ok (.rcd .undef [("a", .data (.num 1)), ("c", .data (.num 2))] [(7, .data (.num 3)), (8, .data (.num 4))]) ∧
    (evalE exW2 true exQ exS).1 = (evalE exW2 false exQ exS).1 := by decide

end EsbuildModel.Lower3
