import EsbuildModel.Lemmas.StdioRoundtrip
import EsbuildModel.Lemmas.StdioFuel
import EsbuildModel.Lemmas.StdioTrunc
import EsbuildModel.Lemmas.StdioCanon
import EsbuildModel.Lemmas.StdioService
/-!
# C20 (service part) — the stdio protocol: property theorems

Model: `Impl/Stdio.lean` (encodePacket, decodePacket, readUint32, writeUint32, readLengthPrefixedSlice of
cmd/esbuild/stdio_protocol.go; the read loop of runService and the synchronous part of handleIncomingPacket of
cmd/esbuild/service.go). Tied to the code by kernel `stdio` (the real functions run inside `go test -tags verif`,
whole `runService` sessions over pipes with exact read chunks).

All theorems are for every value tree / byte string / chunking (no bound on size or depth); helper lemmas live in
`Lemmas/Stdio*.lean`.
-/
namespace EsbuildModel.C20Stdio
open EsbuildModel.Stdio

/-! ## 1. a packet is decoded to exactly the value that was encoded -/

/-- **Round trip, general form.** For every packet whose maps are in Go's sorted key order (`MapsSorted`: what
`sort.Strings` over the keys of a Go map gives — strictly increasing, hence distinct) and whose body is shorter than
4 GiB: `readLengthPrefixedSlice` cuts exactly the body off the stream, and `decodePacket` of the body returns the
packet *as the wire can carry it*: every int reduced mod 2^32 (`wireV`), the id reduced mod 2^31, everything else
(strings, byte arrays, nesting, keys, request flag) untouched, nothing left over. -/
theorem codec_roundtrip_wire (p : Packet) (rest : Bytes)
    (hsorted : MapsSorted p.value) (hlen : (encBody p).length < 4294967296) :
    readLPS (encodePacket p ++ rest) = some (encBody p, rest) ∧
    decodePacket (encBody p) = .ok ⟨wireV p.value, p.id % 2147483648, p.isRequest⟩ [] := by
  refine ⟨readLPS_encodePacket p rest hlen, decodePacket_encBody p hsorted ?_⟩
  rw [encBody_length] at hlen; omega

/-- **Round trip, exact.** If moreover every int of the value is a uint32 and the id is below 2^31, the decoded
packet IS the encoded packet. -/
theorem codec_roundtrip (p : Packet) (rest : Bytes)
    (hsorted : MapsSorted p.value) (hints : IntsInRange p.value) (hid : p.id < 2147483648)
    (hlen : (encBody p).length < 4294967296) :
    readLPS (encodePacket p ++ rest) = some (encBody p, rest) ∧ decodePacket (encBody p) = .ok p [] := by
  have h := codec_roundtrip_wire p rest hsorted hlen
  rw [wireV_of_inRange _ hints, Nat.mod_eq_of_lt hid] at h
  exact h

/-- the hypotheses of `codec_roundtrip` are met by a nested packet with a sorted three-key map -/
def samplePacket : Packet :=
  ⟨.map [(ascii "command", .str (ascii "resolve")), (ascii "flags", .arr [.bool true, .nil, .bytes [0, 255]]),
         (ascii "key", .int 4294967295)], 2147483647, true⟩

example : MapsSorted samplePacket.value ∧ IntsInRange samplePacket.value ∧ samplePacket.id < 2147483648 ∧
    (encBody samplePacket).length < 4294967296 := by
  refine ⟨?_, ?_, by decide, by decide⟩
  · simp [samplePacket, MapsSorted, KeysSorted, AllSortedKV, AllSorted, ascii, bytesLt]
  · simp [samplePacket, IntsInRange, AllInRangeKV, AllInRange]
example : decodePacket (encBody samplePacket) = .ok samplePacket [] := by rfl

/-- outside the hypotheses the round trip FAILS, exactly as `codec_roundtrip_wire` says: a negative int comes back
as a large positive one, an id ≥ 2^31 loses its top bit (`id<<1` on a uint32). -/
example : decodePacket (encBody ⟨.int (-1), 7, false⟩) = .ok ⟨.int 4294967295, 7, false⟩ [] := by rfl
example : decodePacket (encBody ⟨.nil, 2147483648 + 5, true⟩) = .ok ⟨.nil, 5, true⟩ [] := by rfl
/-- … and a map given in non-sorted order is re-ordered (same Go map, other list): the hypothesis is about the
representation, not about Go -/
example : decodePacket (encBody ⟨.map [([98], .nil), ([97], .bool true)], 1, true⟩)
    = .ok ⟨.map [([97], .bool true), ([98], .nil)], 1, true⟩ [] := by rfl

/-- whatever `decodePacket` returns is in canonical form (sorted distinct keys at every map), i.e. equality of
model values is equality of the Go values, also for duplicated / unsorted keys on the wire -/
theorem decoded_value_canonical (bs rest : Bytes) (p : Packet) (h : decodePacket bs = .ok p rest) :
    MapsSorted p.value := by
  unfold decodePacket at h
  split at h
  · cases h
  · split at h
    · rename_i v rest' heq
      split at h
      · cases h
      · simp only [Res.ok.injEq] at h
        rw [← h.1]
        exact (visit_canon_all _).1 _ _ _ heq
    · cases h
    · cases h
    · cases h

example : decodePacket ([2, 0, 0, 0] ++ [6, 2, 0, 0, 0] ++ [1, 0, 0, 0, 98, 0] ++ [1, 0, 0, 0, 98, 1, 1])
    = .ok ⟨.map [([98], .bool true)], 1, true⟩ [] := by rfl

/-! ## 2. the decoder on arbitrary bytes -/

/-- **Totality of the model.** For EVERY byte string the decoder model ends with one of the three outcomes the Go
function has — a packet, `ok == false`, or a run-time panic; the fuel of the model never runs out. -/
theorem decodePacket_total (bs : Bytes) : decodePacket bs ≠ .outOfFuel := by
  unfold decodePacket
  split
  · simp
  · rename_i id bs' _
    have hg := (visit_good bs' (2 * bs'.length + 1) (Nat.le_refl _)).1
    split
    · split <;> simp
    · simp
    · simp
    · rename_i heq; exact absurd heq hg

/-- … and the amount of fuel is irrelevant once it is `2·len+1`: the model's answer is the answer of the unbounded
recursion in the Go code. -/
theorem decoder_fuel_irrelevant (bs : Bytes) (fuel : Nat) (h : 2 * bs.length + 1 ≤ fuel) :
    visit fuel bs = visit (2 * bs.length + 1) bs := visit_fuel_irrelevant bs fuel h

/-- a successful `visit` consumes at least the kind byte and never reads beyond the slice it was given -/
theorem visit_consumes (bs rest : Bytes) (v : Val) (h : visit (2 * bs.length + 1) bs = .ok v rest) :
    rest.length < bs.length := (visit_good bs _ (Nat.le_refl _)).2 v rest h

-- OPEN (FALSE of the code): `theorem decodePacket_never_panics (bs : Bytes) : decodePacket bs ≠ .panic`.
-- `visit` reads `bytes[0]` for the kind byte and for the bool byte without a length check, and has an explicit
-- `panic("Invalid packet")`. Counterexamples (run on the real `decodePacket`, all panic there too):
/-- a packet that ends right after the id: `kind := bytes[0]` on an empty slice — for EVERY id word -/
theorem decodePacket_panics_on_bare_id (w : Nat) : decodePacket (u32le w) = .panic := by
  simp [decodePacket, u32le, readUint32, visit]
/-- bool without its byte; unknown kind 7; array that announces 3 items and has none -/
example : decodePacket [10, 0, 0, 0, 1] = .panic := by rfl
example : decodePacket [10, 0, 0, 0, 7] = .panic := by rfl
example : decodePacket [10, 0, 0, 0, 5, 3, 0, 0, 0] = .panic := by rfl
/-- other truncations are reported as `ok == false` -/
example : decodePacket [10, 0, 0, 0, 2, 1, 0] = .fail := by rfl
example : decodePacket [10, 0] = .fail := by rfl

/-- **Partial safety (what does hold).** Everything `encodePacket` can produce (sorted maps, body < 4 GiB) is decoded
without panic, with any ints and any id. -/
theorem decodePacket_no_panic_partial (p : Packet) (hsorted : MapsSorted p.value)
    (hlen : (encBody p).length < 4294967296) : decodePacket (encBody p) ≠ .panic := by
  rw [(codec_roundtrip_wire p [] hsorted hlen).2]; simp

/-- **A truncated packet is never accepted.** Every proper prefix of a packet body is rejected (`ok == false` or a
panic — never decoded to some value, and never out of fuel). -/
theorem truncated_packet_never_accepted (p : Packet) (t u : Bytes)
    (hsorted : MapsSorted p.value) (hlen : (encBody p).length < 4294967296)
    (hcut : t ++ u = encBody p) (hu : u ≠ []) :
    decodePacket t = .fail ∨ decodePacket t = .panic := by
  have hnot : ∀ q rest, decodePacket t ≠ .ok q rest := by
    intro q rest h
    rw [encBody_length] at hlen
    unfold decodePacket at h
    split at h
    · cases h
    · rename_i w t' hr
      unfold encBody at hcut
      rcases readUint32_prefix hcut with hn | ⟨t'', rfl, htu⟩
      · rw [hn] at hr; cases hr
      · rw [readUint32_u32le_mod] at hr
        simp only [Option.some.injEq, Prod.mk.injEq] at hr
        obtain ⟨_, rfl⟩ := hr
        have hlt : t''.length ≤ (encV p.value).length := by
          have := congrArg List.length htu; simp only [List.length_append] at this; omega
        have hbig := visit_trunc p.value (2 * (encV p.value).length + 1) t'' u hsorted (by omega) (by omega) htu hu
        rw [visit_fuel_irrelevant t'' _ (by omega)] at hbig
        split at h
        · rename_i heq; exact hbig _ _ heq
        · cases h
        · cases h
        · cases h
  have htot := decodePacket_total t
  cases hd : decodePacket t with
  | ok q rest => exact absurd hd (hnot q rest)
  | fail => exact Or.inl rfl
  | panic => exact Or.inr rfl
  | outOfFuel => exact absurd hd htot

/-- non-vacuity: a cut in the middle of `samplePacket` -/
example : ∃ t u, t ++ u = encBody samplePacket ∧ u ≠ [] ∧ t.length = 30 :=
  ⟨(encBody samplePacket).take 30, (encBody samplePacket).drop 30, List.take_append_drop _ _, by decide, by decide⟩

/-! ## 3. framing: the packets handed to the handler do not depend on the read chunks -/

/-- the inner loop of `runService` always terminates with a result (the fuel of the model never runs out) -/
theorem framing_total (bs : Bytes) : frames bs ≠ none := frames_total bs

/-- **Specification of the loop.** If stdin carries the length-prefixed packets `ps` (each shorter than 4 GiB)
followed by a partial packet `tail` (one `readLengthPrefixedSlice` cannot complete), the loop hands exactly `ps`,
in order, to the handler and keeps exactly `tail`. -/
theorem framing_spec (ps : List Bytes) (tail : Bytes) (hp : ∀ p ∈ ps, p.length < 4294967296)
    (ht : readLPS tail = none) : frames (wire ps ++ tail) = some (ps, tail) := frames_wire ps tail hp ht

/-- **Chunk independence.** For every way `os.Stdin.Read` may cut the stream into non-empty chunks, the outer loop
(append chunk, split, keep the rest) hands over the same packets and ends with the same left-over as one pass over
the whole stream. -/
theorem framing_chunk_independent (chunks : List Bytes) (hne : ∀ c ∈ chunks, c ≠ []) :
    runFraming [] chunks = frames chunks.flatten := by
  simpa using runFraming_eq_frames chunks [] (by rfl) hne

/-- two arrivals of the same bytes are indistinguishable -/
theorem framing_same_stream (cs cs' : List Bytes) (h : cs.flatten = cs'.flatten)
    (hne : ∀ c ∈ cs, c ≠ []) (hne' : ∀ c ∈ cs', c ≠ []) : runFraming [] cs = runFraming [] cs' := by
  rw [framing_chunk_independent cs hne, framing_chunk_independent cs' hne', h]

/-- both together: any chunking of `wire ps ++ tail` delivers `ps` and leaves `tail` -/
theorem framing_delivers (ps : List Bytes) (tail : Bytes) (chunks : List Bytes)
    (hp : ∀ p ∈ ps, p.length < 4294967296) (ht : readLPS tail = none)
    (hne : ∀ c ∈ chunks, c ≠ []) (hflat : chunks.flatten = wire ps ++ tail) :
    runFraming [] chunks = some (ps, tail) := by
  rw [framing_chunk_independent chunks hne, hflat, framing_spec ps tail hp ht]

/-- non-vacuity: two packets and a partial third, cut inside a length prefix and inside a body -/
example : runFraming [] [[2, 0], [0, 0, 7], [8, 1, 0, 0, 0, 9, 5, 0], [0, 0, 1]]
    = some ([[7, 8], [9]], [5, 0, 0, 0, 1]) := by rfl
example : wire [[7, 8], [9]] ++ [5, 0, 0, 0, 1] = [[2, 0], [0, 0, 7], [8, 1, 0, 0, 0, 9, 5, 0], [0, 0, 1]].flatten ∧
    readLPS [5, 0, 0, 0, 1] = none := by decide
/-- an EMPTY read (`n == 0`) ends the loop: the hypothesis `c ≠ []` is needed -/
example : runFraming [] [[1, 0, 0], [], [0, 7]] = some ([], [1, 0, 0]) := by rfl

/-- **The whole service loop.** What `runService` writes (and whether it dies) is a function of the stream only:
it is `handleAll` of the packets of the stream, whatever the read chunks are. -/
theorem service_chunk_independent (chunks : List Bytes) (ps : List Bytes) (tail : Bytes)
    (hp : ∀ p ∈ ps, p.length < 4294967296) (ht : readLPS tail = none)
    (hne : ∀ c ∈ chunks, c ≠ []) (hflat : chunks.flatten = wire ps ++ tail) :
    serve [] chunks = some (handleAll ps) := by
  rw [serve_eq, framing_delivers ps tail chunks hp ht hne hflat]

/-! ## 4. every request gets exactly one response matched by id (synchronous commands, no active build) -/

/-- **One response, same id.** Whenever the handler answers a packet synchronously, the packet was a request, and
the answer is one well-formed length-prefixed packet that `decodePacket` reads as a RESPONSE carrying exactly the
id of the request (hypotheses: the request consists of bytes; the answer is shorter than 4 GiB). -/
theorem sync_response_matches_request (body f : Bytes) (hb : ∀ b ∈ body, b < 256) (hf : f.length < 4294967296)
    (h : handle body = .respond f) :
    ∃ p rest v fb, decodePacket body = .ok p rest ∧ p.isRequest = true ∧
      readLPS f = some (fb, []) ∧ decodePacket fb = .ok ⟨v, p.id, false⟩ [] :=
  handle_respond_id hb hf h

/-- how a session that ends by EOF treated its packets: each one either did not decode (`ok == false`, dropped) or
was answered by exactly one response; the responses are in the order of the requests -/
inductive Answers : List Bytes → List Bytes → Prop where
  | nil : Answers [] []
  | dropped {b bs out} : decodePacket b = .fail → Answers bs out → Answers (b :: bs) out
  | answered {b bs f out} : handle b = .respond f → Answers bs out → Answers (b :: bs) (f :: out)

theorem handle_ignore {b : Bytes} (h : handle b = .ignore) : decodePacket b = .fail := by
  unfold handle at h
  split at h
  · assumption
  · cases h
  · cases h
  · repeat' split at h
    all_goals first
      | (cases h; done)
      | (unfold withKey at h; repeat' split at h
         all_goals cases h)

/-- **Exactly one response per request.** If the service loop got through the packets `ps` without panic, then
`Answers ps out`: one response per decodable packet, none for the others, in order. -/
theorem session_answers : ∀ (ps out : List Bytes), handleAll ps = (out, .eof) → Answers ps out
  | [], out, h => by
    simp only [handleAll, Prod.mk.injEq] at h
    rw [← h.1]; exact .nil
  | b :: bs, out, h => by
    simp only [handleAll] at h
    split at h
    · rename_i hb
      exact .dropped (handle_ignore hb) (session_answers bs out h)
    · rename_i f hb
      rcases hrec : handleAll bs with ⟨out', e⟩
      rw [hrec] at h
      simp only [Prod.mk.injEq] at h
      obtain ⟨rfl, rfl⟩ := h
      exact .answered hb (session_answers bs out' hrec)
    · simp at h
    · simp at h
    · simp at h

/-- non-vacuity: a `resolve` request with id 3 (answered), an undecodable packet (dropped), a `ping` with id 4
(answered with "Invalid command"), cut into three read chunks -/
def sampleRequest (id : Nat) (cmd : String) : Bytes :=
  encBody ⟨.map [(ascii "command", .str (ascii cmd)), (ascii "key", .int 0)], id, true⟩

example : ∃ f g, handleAll [sampleRequest 3 "resolve", [1, 2], sampleRequest 4 "ping"] = ([f, g], .eof) ∧
    handle (sampleRequest 3 "resolve") = .respond f ∧
    f = encodePacket ⟨.map [(ascii "error", .str (ascii "Cannot call \"resolve\" on an inactive build"))], 3, false⟩ :=
  ⟨_, _, by rfl, by rfl, by rfl⟩

/-- a response packet nobody waits for, a request that is not a map, a request without "command": the service
goroutine panics (nothing recovers it) -/
example : handle (encBody ⟨.nil, 1, false⟩) = .panic := by rfl
example : handle (encBody ⟨.arr [], 1, true⟩) = .panic := by rfl
example : handle (encBody ⟨.map [(ascii "key", .int 0)], 1, true⟩) = .panic := by rfl

end EsbuildModel.C20Stdio
