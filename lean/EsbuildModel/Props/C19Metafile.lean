import EsbuildModel.Lemmas.Metafile
/-!
# C19 — the metafile is an exact account of the build: the bytes of one output file

Model: `Impl/Metafile.lean` (how `generateChunkJS` / `generateChunkCSS` join the compile results, what they
record for the metafile, the piece scanner on the whole chunk and on every slice, what is appended after the
paths are put in, the JSON of the output). All theorems hold for ALL lists of compile results, ALL head / tail
texts and ALL path functions `f : Kind → Nat → Bytes` (asset and chunk placeholders are told apart by `Kind`).

`WellKeyed c parts` is the assumption esbuild itself makes when it scans text for unique keys: the key prefix
(a random string) occurs only as the head of a complete valid key, and such a key lies inside one joined part.
It is needed exactly where the code counts the bytes of an input on the SLICES of that input while the output
is substituted on the JOINED text; the statements about a single input do not need it.
-/
namespace EsbuildModel.C19Meta
open EsbuildModel.Pieces EsbuildModel.Metafile

/-- The output file is the concatenation, in order, of what every segment of the chunk becomes when the final
paths are put in, followed by the appended comments. So "the bytes that a segment contributes to the output"
is well defined: `sliceFinal c f seg.text`. -/
theorem output_is_concatenation_of_contributions (c : Cfg) (f : Kind → Nat → Bytes) (p : Post) (segs : List Seg)
    (hpre : c.pre ≠ []) (hw : WellKeyed c (segs.map (·.text))) :
    outputContents c f p segs = finish p ((segs.map fun g => sliceFinal c f g.text).flatten) := by
  unfold outputContents
  simp only
  rw [substJoiner_eq c f hpre _ hw, sliceFinal_flatten c f hpre _ hw, List.map_map]
  rfl

theorem chunk_length (c : Cfg) (f : Kind → Nat → Bytes) (segs : List Seg)
    (hpre : c.pre ≠ []) (hw : WellKeyed c (segs.map (·.text))) :
    (substJoiner f (segs.map (·.text)) (breakJoiner c (segs.map (·.text)))).length
      = ownedSum (sliceCount c f) segs + ((unowned segs).map (sliceCount c f)).sum := by
  rw [substJoiner_eq c f hpre _ hw, sliceFinal_flatten c f hpre _ hw, List.length_flatten, List.map_map,
    ← sum_split]
  congr 1
  simp only [List.map_map]
  apply List.map_congr_left
  intro g _
  simp [sliceCount_eq_length]

/-- **1 (JavaScript).** The `bytesInOutput` of all inputs plus the bytes of the text nobody owns (banner,
wrappers, `// path` comments, separators, runtime, entry-point tail, footer …) is exactly the length of the
chunk after the final paths are put in; the output file is that chunk plus appended comments; in particular
the sum of `bytesInOutput` never exceeds the size of the file. -/
theorem attribution_sums_below_size (c : Cfg) (f : Kind → Nat → Bytes) (p : Post) (o : JSOpts)
    (head tail : Bytes) (crs : List CR) (hpre : c.pre ≠ [])
    (hw : WellKeyed c ((jsSegs o head tail crs).map (·.text))) :
    let segs := jsSegs o head tail crs
    let chunk := substJoiner f (segs.map (·.text)) (breakJoiner c (segs.map (·.text)))
    ((entriesJS c f (jsMeta o crs)).map (·.2)).sum + ((unowned segs).map (sliceCount c f)).sum = chunk.length
      ∧ chunk <+: outputContents c f p segs
      ∧ ((entriesJS c f (jsMeta o crs)).map (·.2)).sum ≤ (outputContents c f p segs).length := by
  intro segs chunk
  have hsum : ((entriesJS c f (jsMeta o crs)).map (·.2)).sum = ownedSum (sliceCount c f) segs := by
    have h1 : ((entriesJS c f (jsMeta o crs)).map (·.2)).sum = metaSum (sliceCount c f) (jsMeta o crs) := by
      simp [entriesJS, metaSum, inputCount, Function.comp_def]
    have h2 := jsLoop_sum (sliceCount c f) o crs false 0 []
    have h3 : ownedSum (sliceCount c f) segs = ownedSum (sliceCount c f) (jsLoop o false 0 [] crs).1 := by
      show ownedSum _ (⟨none, head⟩ :: (jsLoop o false 0 [] crs).1 ++ [⟨none, tail⟩]) = _
      rw [ownedSum_append]
      simp [ownedSum]
    rw [h1, h3]
    simpa [jsMeta, metaSum] using h2
  have hlen := chunk_length c f segs hpre hw
  have hpref : chunk <+: outputContents c f p segs := finish_prefix p chunk
  refine ⟨by rw [hsum]; exact hlen.symm, hpref, ?_⟩
  have := hpref.length_le
  have hl : chunk.length = ownedSum (sliceCount c f) segs + ((unowned segs).map (sliceCount c f)).sum := hlen
  omega

theorem sum_lengths_eq_zero (l : List Bytes) (g : Bytes → Bytes) :
    (l.map fun t => (g t).length).sum = 0 ↔ ∀ t ∈ l, g t = [] := by
  induction l with
  | nil => simp
  | cons x xs ih =>
    simp only [List.map_cons, List.sum_cons, List.mem_cons, forall_eq_or_imp]
    rw [← ih]
    constructor
    · intro h; exact ⟨List.length_eq_zero_iff.1 (by omega), by omega⟩
    · rintro ⟨h1, h2⟩; rw [h1, h2]; rfl

/-- **2 (JavaScript).** What a reader of the `"inputs"` object finds for input `s`: an entry exists exactly if
some compile result of `s` (other than the runtime) is in the chunk, and its `bytesInOutput` is the total
length, after the final paths are put in, of exactly the segments that came from `s` — so it is 0 exactly if
every such segment is empty in the output. No assumption on the text is needed. -/
theorem attribution_is_contribution (c : Cfg) (f : Kind → Nat → Bytes) (o : JSOpts) (head tail : Bytes)
    (crs : List CR) (s : Nat) :
    jsonRead (entriesJS c f (jsMeta o crs)) s =
      if crs.any (fun cr => !cr.omitted && cr.src == s) then
        some (((owned (jsSegs o head tail crs) s).map fun t => (sliceFinal c f t).length).sum)
      else none := by
  have hnd : ((jsMeta o crs).map (·.1)).Nodup := jsLoop_nodup o crs false 0 [] (by simp)
  rw [jsonRead_js c f _ s hnd]
  have hkeys := jsLoop_keys o crs s false 0 []
  have hlook := jsLoop_lookup o crs s false 0 []
  have hown : owned (jsSegs o head tail crs) s = owned (jsLoop o false 0 [] crs).1 s := by
    show owned (⟨none, head⟩ :: (jsLoop o false 0 [] crs).1 ++ [⟨none, tail⟩]) s = _
    rw [owned_append]
    simp [owned]
  simp only [List.map_nil, List.not_mem_nil, false_or, lookupD, metaLookup, Option.getD_none,
    List.nil_append] at hkeys hlook
  by_cases hany : crs.any (fun cr => !cr.omitted && cr.src == s) = true
  · rw [if_pos hany]
    have hex : ∃ cr ∈ crs, cr.omitted = false ∧ cr.src = s := by
      obtain ⟨cr, h1, h2⟩ := List.any_eq_true.1 hany
      simp at h2
      exact ⟨cr, h1, h2.1, h2.2⟩
    have hsome := (metaLookup_isSome _ s).2 (hkeys.2 hex)
    obtain ⟨v, hv⟩ := Option.isSome_iff_exists.1 hsome
    show Option.map (inputCount c f) (metaLookup (jsLoop o false 0 [] crs).2 s) = _
    rw [hv] at hlook ⊢
    simp only [Option.getD_some] at hlook
    rw [hown, ← hlook]
    simp only [Option.map_some, inputCount]
    congr 2
    exact List.map_congr_left fun t _ => sliceCount_eq_length c f t
  · rw [if_neg hany]
    have hnone : metaLookup (jsLoop o false 0 [] crs).2 s = none := by
      cases hl : metaLookup (jsLoop o false 0 [] crs).2 s with
      | none => rfl
      | some v =>
        exfalso
        have hmem := (metaLookup_isSome _ s).1 (by rw [hl]; rfl)
        obtain ⟨cr, h1, h2, h3⟩ := hkeys.1 hmem
        exact hany (List.any_eq_true.2 ⟨cr, h1, by simp [h2, h3]⟩)
    show Option.map (inputCount c f) (metaLookup (jsLoop o false 0 [] crs).2 s) = _
    rw [hnone]
    rfl

/-- … and the count is 0 exactly if nothing of the input is left in the output -/
theorem zero_iff_no_bytes (c : Cfg) (f : Kind → Nat → Bytes) (o : JSOpts) (head tail : Bytes) (crs : List CR) (s : Nat) :
    jsonRead (entriesJS c f (jsMeta o crs)) s = some 0 ↔
      crs.any (fun cr => !cr.omitted && cr.src == s) = true ∧
        ∀ t ∈ owned (jsSegs o head tail crs) s, sliceFinal c f t = [] := by
  rw [attribution_is_contribution c f o head tail crs s]
  split
  · rename_i h
    simp only [Option.some.injEq, h, true_and]
    exact sum_lengths_eq_zero _ _
  · rename_i h
    simp [h]

/-- The hypothesis `WellKeyed` is decided by `wellKeyedB`, which the correspondence driver evaluates on the joined
parts of every real chunk (answer field `wk=`): the assumption is monitored, not only assumed. -/
theorem wellKeyed_is_checked (c : Cfg) (parts : List Bytes) : wellKeyedB c parts = true ↔ WellKeyed c parts :=
  wellKeyedB_iff c parts

-- ---------------------------------------------------------------- CSS

/-- **1 (CSS).** The same accounting identity for a CSS output: the numbers printed in `"inputs"` (one per
source index, summed over its compile results) plus the bytes nobody owns add up to the substituted chunk. -/
theorem css_attribution_sums_below_size (c : Cfg) (f : Kind → Nat → Bytes) (p : Post) (cm nbc0 : Bool)
    (head tail : Bytes) (crs : List CRC) (hpre : c.pre ≠ [])
    (hw : WellKeyed c ((cssSegs cm nbc0 head tail crs).map (·.text))) :
    let segs := cssSegs cm nbc0 head tail crs
    let chunk := substJoiner f (segs.map (·.text)) (breakJoiner c (segs.map (·.text)))
    ((entriesCSS c f crs).map (·.2)).sum + ((unowned segs).map (sliceCount c f)).sum = chunk.length
      ∧ chunk <+: outputContents c f p segs
      ∧ ((entriesCSS c f crs).map (·.2)).sum ≤ (outputContents c f p segs).length := by
  intro segs chunk
  have hsum : ((entriesCSS c f crs).map (·.2)).sum = ownedSum (sliceCount c f) segs := by
    have h0 := cssCounts_sum c f cm crs [] nbc0
    simp only [List.map_nil, List.sum_nil, Nat.zero_add] at h0
    show ((cssCounts c f [] crs).map (·.2)).sum = _
    rw [h0]
    show _ = ownedSum _ (⟨none, head⟩ :: cssLoop cm nbc0 crs ++ [⟨none, tail⟩])
    rw [ownedSum_append]
    simp [ownedSum]
  have hlen := chunk_length c f segs hpre hw
  have hpref : chunk <+: outputContents c f p segs := finish_prefix p chunk
  refine ⟨by rw [hsum]; exact hlen.symm, hpref, ?_⟩
  have := hpref.length_le
  have hl : chunk.length = ownedSum (sliceCount c f) segs + ((unowned segs).map (sliceCount c f)).sum := hlen
  omega

/-- A CSS output lists every input once, although a file that is imported under several conditions is in the
chunk several times (since the fix 4d9963d; before it there was one entry per compile result). -/
theorem css_keys_distinct (c : Cfg) (f : Kind → Nat → Bytes) (crs : List CRC) :
    ((entriesCSS c f crs).map (·.1)).Nodup :=
  cssCounts_nodup c f crs [] (by simp)

/-- **2 (CSS).** What a reader of the `"inputs"` object of a CSS output finds for input `s`, for EVERY list of
compile results: an entry exists exactly if some compile result of the chunk has source `s`, and its
`bytesInOutput` is the total length, after the final paths are put in, of exactly the segments that came from
`s` — all copies of the file together. No assumption on the text is needed. -/
theorem css_attribution_is_contribution (c : Cfg) (f : Kind → Nat → Bytes) (cm nbc0 : Bool)
    (head tail : Bytes) (crs : List CRC) (s : Nat) :
    jsonRead (entriesCSS c f crs) s =
      if s ∈ crs.filterMap (·.src) then
        some (((owned (cssSegs cm nbc0 head tail crs) s).map fun t => (sliceFinal c f t).length).sum)
      else none := by
  rw [jsonRead_nodup _ s (css_keys_distinct c f crs)]
  have hown : owned (cssSegs cm nbc0 head tail crs) s = (crs.filter (fun cr => cr.src == some s)).map (·.code) := by
    show owned (⟨none, head⟩ :: cssLoop cm nbc0 crs ++ [⟨none, tail⟩]) s = _
    rw [owned_append, ← cssLoop_owned cm crs s nbc0]
    simp [owned]
  have hkeys := cssCounts_keys c f crs s []
  have hlook := cssCounts_lookup c f crs s []
  simp only [List.map_nil, List.not_mem_nil, false_or, lookupN, countLookup, Option.getD_none, Nat.zero_add]
    at hkeys hlook
  show countLookup (cssCounts c f [] crs) s = _
  by_cases hm : s ∈ crs.filterMap (·.src)
  · rw [if_pos hm]
    obtain ⟨v, hv⟩ := Option.isSome_iff_exists.1 ((countLookup_isSome _ s).2 (hkeys.2 hm))
    rw [hv] at hlook ⊢
    simp only [Option.getD_some] at hlook
    rw [hlook, hown, List.map_map]
    congr 2
    exact List.map_congr_left fun cr _ => sliceCount_eq_length c f cr.code
  · rw [if_neg hm]
    cases hl : countLookup (cssCounts c f [] crs) s with
    | none => rfl
    | some v => exact absurd (hkeys.1 ((countLookup_isSome _ s).1 (by rw [hl]; rfl))) hm

/-- … and the count is 0 exactly if nothing of the input is left in the output -/
theorem css_zero_iff_no_bytes (c : Cfg) (f : Kind → Nat → Bytes) (cm nbc0 : Bool) (head tail : Bytes)
    (crs : List CRC) (s : Nat) :
    jsonRead (entriesCSS c f crs) s = some 0 ↔
      s ∈ crs.filterMap (·.src) ∧ ∀ t ∈ owned (cssSegs cm nbc0 head tail crs) s, sliceFinal c f t = [] := by
  rw [css_attribution_is_contribution c f cm nbc0 head tail crs s]
  split
  · rename_i h
    simp only [Option.some.injEq, h, true_and]
    exact sum_lengths_eq_zero _ _
  · rename_i h
    simp [h]

/-- the layout that failed before the fix: the same file bundled twice (5 + 6 bytes of input 3). The metafile
now has one entry for input 3 and the reader is told 11. -/
example :
    let c : Cfg := { pre := str "zz", nFiles := 4, nChunks := 1 }
    let f : Kind → Nat → Bytes := fun _ _ => []
    let crs : List CRC := [⟨some 3, str "a{b}\n", str "a.css"⟩, ⟨some 3, str "a{b:c}", str "a.css"⟩]
    entriesCSS c f crs = [(3, 11)] ∧ jsonRead (entriesCSS c f crs) 3 = some 11 ∧
      ((owned (cssSegs true false [] [] crs) 3).map fun t => (sliceFinal c f t).length).sum = 11 := by
  decide

-- ---------------------------------------------------------------- "bytes"

theorem dec_value (n : Nat) : decValue (dec n) = n := by
  have h : dec n = (Nat.toDigits 10 n).map (·.toNat) := by
    show ((Nat.repr n).toList.map _) = _
    simp [Nat.repr]
  rw [h, decValue, List.foldl_map]
  exact @Nat.ofDigitChars_ten_toDigits n

/-- **3 (JavaScript).** The metadata ends with `"bytes": D` where the numeral `D` denotes the length of the
bytes written to the output file — the substituted chunk with the link to the legal comments file and the
source map comment appended (each after `EnsureNewlineAtEnd`). -/
theorem reported_bytes_is_length (min : Bool) (c : Cfg) (f : Kind → Nat → Bytes) (nameOf : Nat → Bytes) (p : Post)
    (o : JSOpts) (head tail : Bytes) (crs : List CR) :
    let e := emitJS min c f nameOf p o head tail crs
    (∃ front D, e.2 = front ++ mrw min "},\n      \"bytes\": " ++ D ++ mrw min "\n    }" ∧ decValue D = e.1.length)
      ∧ e.1 = outputContents c f p (jsSegs o head tail crs) := by
  intro e
  refine ⟨⟨commaJoin ((jsMeta o crs).map fun kv => jsonEntry min (nameOf kv.1, inputCount c f kv.2))
      ++ (if (jsMeta o crs).isEmpty then [] else mrw min "\n      "), dec e.1.length, ?_, dec_value _⟩, rfl⟩
  show jsonTailJS min c f nameOf (jsMeta o crs) e.1.length = _
  simp only [jsonTailJS, jsonBytes, List.append_assoc]

/-- **3 (CSS).** -/
theorem css_reported_bytes_is_length (min : Bool) (c : Cfg) (f : Kind → Nat → Bytes) (nameOf : Nat → Bytes) (p : Post)
    (cm nbc0 : Bool) (head tail : Bytes) (crs : List CRC) :
    let e := emitCSS min c f nameOf p cm nbc0 head tail crs
    (∃ front D, e.2 = front ++ mrw min "},\n      \"bytes\": " ++ D ++ mrw min "\n    }" ∧ decValue D = e.1.length)
      ∧ e.1 = outputContents c f p (cssSegs cm nbc0 head tail crs) := by
  intro e
  refine ⟨⟨commaJoin ((entriesCSS c f crs).map fun e => jsonEntry min (nameOf e.1, e.2))
      ++ (if crs.isEmpty then [] else mrw min "\n      "), dec e.1.length, ?_, dec_value _⟩, rfl⟩
  show jsonTailCSS min c f nameOf crs e.1.length = _
  simp only [jsonTailCSS, jsonBytes, List.append_assoc]

/-- the `bytesInOutput` numeral of an entry denotes the count -/
theorem entry_numeral (min : Bool) (name : Bytes) (n : Nat) :
    ∃ D, jsonEntry min (name, n) = mrw min "\n        " ++ name ++ mrw min ": {\n          \"bytesInOutput\": " ++ D
        ++ mrw min "\n        " ++ mrw min "}" ∧ decValue D = n :=
  ⟨dec n, rfl, dec_value n⟩

/-- the JSON text of a JavaScript output lists exactly the pairs `entriesJS` (which theorems 1 and 2 talk about),
in that order, each as `"<path>": { "bytesInOutput": <count> }` -/
theorem json_text_lists_entries (min : Bool) (c : Cfg) (f : Kind → Nat → Bytes) (nameOf : Nat → Bytes) (m : MetaMap)
    (size : Nat) :
    jsonTailJS min c f nameOf m size =
      commaJoin ((entriesJS c f m).map fun e => jsonEntry min (nameOf e.1, e.2))
        ++ (if m.isEmpty then [] else mrw min "\n      ") ++ jsonBytes min size := by
  simp [jsonTailJS, entriesJS, List.map_map, Function.comp_def]

/-- the same for a CSS output -/
theorem css_json_text_lists_entries (min : Bool) (c : Cfg) (f : Kind → Nat → Bytes) (nameOf : Nat → Bytes)
    (crs : List CRC) (size : Nat) :
    jsonTailCSS min c f nameOf crs size =
      commaJoin ((entriesCSS c f crs).map fun e => jsonEntry min (nameOf e.1, e.2))
        ++ (if crs.isEmpty then [] else mrw min "\n      ") ++ jsonBytes min size := rfl

/-- the `"bytes"` numeral of an input entry of the metafile denotes the size handed to `inputChunk`
(`len(Source.Contents)` in `ScanBundle`; the correspondence kernel passes the size of the generated file) -/
theorem input_bytes_numeral (min : Bool) (e : InputEntry) :
    ∃ D rest, inputChunk min e = e.name ++ mrw min ": {\n      \"bytes\": " ++ D ++ rest ∧ decValue D = e.bytes :=
  ⟨dec e.bytes, _, by simp only [inputChunk, List.append_assoc]; rfl, dec_value _⟩

-- ---------------------------------------------------------------- non-vacuity
-- (the examples below are closed terms evaluated by `decide`; their byte strings need a deeper recursion limit)
set_option maxRecDepth 100000

/-- a chunk that meets the hypotheses of `attribution_sums_below_size`: head, the runtime (omitted), input 1 in
two slices around input 2, an asset placeholder with index 1 in input 1 and a chunk placeholder with the
same index 1 in input 2, whose final paths have different lengths -/
def demoCfg : Cfg := { pre := str "zz", nFiles := 3, nChunks := 2 }
def demoPaths : Kind → Nat → Bytes
  | .asset, _ => str "./img-ABCD.png"
  | .chunk, _ => str "./c.js"
  | .none, _ => []
def demoCRs : List CR :=
  [⟨0, true, str "var rt;\n", str "<runtime>"⟩,
   ⟨1, false, str "var a = \"zzA00000001\";\n", str "a.js"⟩,
   ⟨2, false, str "import(\"zzC00000001\");\n", str "b\nb.js"⟩,
   ⟨1, false, str "f();\n", str "a.js"⟩,
   ⟨3, false, [], str "empty.js"⟩]
def demoOpts : JSOpts := { comments := true, indent := [] }
def demoPost : Post := { isCSS := false, legalLink := some (str "out.js.LEGAL.txt"), smURL := some (str "out.js.map") }

example : demoCfg.pre ≠ [] := by decide
example : WellKeyed demoCfg ((jsSegs demoOpts (str "/* banner */\n") (str "export {};\n") demoCRs).map (·.text)) := by
  decide
/-- the metafile of the demo: input 1 = both slices with the asset path put in, input 2 with the chunk path,
input 3 is listed with 0, the runtime is not listed -/
example : entriesJS demoCfg demoPaths (jsMeta demoOpts demoCRs) = [(1, 31), (2, 18), (3, 0)] := by decide
example : (outputContents demoCfg demoPaths demoPost
    (jsSegs demoOpts (str "/* banner */\n") (str "export {};\n") demoCRs)).length = 202 := by decide
example : demoCRs.any (fun cr => !cr.omitted && cr.src == 1) = true := by decide

/-- the layout of the seeded change that memoised substituted path lengths by placeholder INDEX only: an asset
placeholder and a chunk placeholder with the same index and paths of different lengths in one slice. The model
keeps the kinds apart: 1 + 14 + 1 + 6 + 1 bytes. -/
example :
    sliceCount demoCfg demoPaths (str "xzzA00000001yzzC00000001z") = 23 ∧
    (sliceFinal demoCfg demoPaths (str "xzzA00000001yzzC00000001z")) = str "x./img-ABCD.pngy./c.jsz" ∧
    byteCount demoPaths [⟨str "x", 1, .asset, []⟩, ⟨str "y", 1, .chunk, []⟩, ⟨str "z", 0, .none, []⟩] = 23 := by
  decide

/-- a CSS chunk that meets the hypotheses of `css_attribution_sums_below_size`; the file `a.css` is in it twice -/
def demoCSS : List CRC :=
  [⟨none, str "@import \"https://x/y.css\";\n", []⟩,
   ⟨some 1, str ".a {\n  background: url(\"zzA00000002\");\n}\n", str "a.css"⟩,
   ⟨some 2, [], str "empty.css"⟩,
   ⟨some 1, str "@media print {\n  .a {\n  }\n}\n", str "a.css"⟩]
example : ¬ (demoCSS.filterMap (·.src)).Nodup := by decide
example : WellKeyed demoCfg ((cssSegs true true (str "@charset \"UTF-8\";\n") [] demoCSS).map (·.text)) := by decide
example : entriesCSS demoCfg demoPaths demoCSS = [(1, 72), (2, 0)] := by decide

end EsbuildModel.C19Meta
