import EsbuildModel.Lemmas.StmtMangleIf
import EsbuildModel.Lemmas.StmtMangleDead
/-!
C03, statement level — `--minify-syntax` statement rewrites preserve behaviour.

Model: Impl/StmtMangle.lean transcribes mangleStmts, mangleIf, mangleFor, stmtsToSingleStmt,
shouldKeepStmtInDeadControlFlow, appendIfOrLabelBodyPreservingScope and the statement cases of visitAndAppendStmt
(/repo/internal/js_parser/js_parser.go); kernel `stmtmangle` compares `visitFnBody` with the real parser on generated
function bodies (source text → js_parser.Parse with MinifySyntax → the function's statement list).
Spec: Spec/MiniJSStmt.lean — completion records, `var` hoisting, block scope, labels, loops with fuel, on top of
the expression semantics of Spec/MiniJS.

All theorems hold for EVERY statement / expression (no bound on size or nesting), every world, every start state
(environment + trace) and EVERY continuation of loops (`again` is arbitrary, hence every fuel).
`execL w again ss st` runs a statement list; a result STACK `acc` (most recent statement first) stands for
`acc.reverse`; `seqOut r k` continues with `k` when `r` completed normally.

Hypotheses that appear:
* `BoundOK w cfg.ub`, `wf` — as in Props/C03MiniJS (esbuild's documented assumptions; the typeof-flag invariant).
* `condWf` — the if/else → conditional rule feeds MangleIfExpr's result to SimplifyUnusedExpr; the proof needs the
  typeof-flag invariant of that result.  It holds for every input we know (the kernel never produced a violation) but
  "MangleIfExpr preserves wf" is not proved, so the theorem asks for it on its input (decidable, see the example).
* `stmtCaresAboutScope yes = false` (and the same for `no`): the branch of an `if` is not a `let` / `const` /
  function declaration — a syntax error in JavaScript; the Go code wraps such a statement in a block.
-/
namespace EsbuildModel.MiniJS

/-- 3a. mangleIf_equiv: whatever mangleIf appends to the statements before it (constant test folded and the dead
branch dropped or trimmed, `if` turned into `a && b` / `a || b` / `a ? b : c`, `!` flipped, nested `if`s joined,
empty branches removed) completes like `if (test) yes else no`: same completion record, same trace, same final
environment, same "out of fuel". -/
theorem mangleIf_equiv (w : World) (again : List Nat → Stmt → St → Out) (cfg : Cfg) (H : BoundOK w cfg.ub)
    (acc : List Stmt) (test : Expr) (yes : Stmt) (no : Option Stmt)
    (hwf : (Stmt.ifS test yes no).wf = true) (hc : condWf cfg test yes no = true)
    (hy : stmtCaresAboutScope yes = false) (hn : optCares no = false) (st : St) :
    execL w again (mangleIf cfg acc test yes no).reverse st =
      seqOut (execL w again acc.reverse st) (execS w again [] (.ifS test yes no)) :=
  mangleIf_sound w again cfg H acc test yes no hwf hc hy hn st

/-- 3a'. the same for the part of mangleIf after the constant folding -/
theorem mangleIfShape_equiv (w : World) (again : List Nat → Stmt → St → Out) (cfg : Cfg) (H : BoundOK w cfg.ub)
    (acc : List Stmt) (test : Expr) (yes : Stmt) (no : Option Stmt)
    (hwf : (Stmt.ifS test yes no).wf = true) (hc : condWf cfg test yes no = true) (st : St) :
    execL w again (mangleIfShape cfg acc test yes no).reverse st =
      seqOut (execL w again acc.reverse st) (execS w again [] (.ifS test yes no)) :=
  mangleIfShape_sound w again cfg H acc test yes no hwf hc st

/-- 2. dead_code_keeps_hoisted_declarations (shouldKeepStmtInDeadControlFlow): a statement that is dropped from dead
code declares no `var` name and no function; a statement that is kept declares exactly the `var` names and the
functions it declared before; and a kept `var` statement has lost its initialisers. -/
theorem dead_code_keeps_hoisted_declarations (s : Stmt) :
    ((keepDead s).1 = false → s.varNames = [] ∧ s.fnsDeep = []) ∧
    (keepDead s).2.varNames = s.varNames ∧ (keepDead s).2.fnsDeep = s.fnsDeep :=
  ⟨keepDead_false s, keepDead_names s⟩

theorem dead_var_loses_initialisers (ds : List Decl) (h : ds ≠ []) :
    keepDead (.decl .var ds) = (true, .decl .var (stripInits ds)) ∧ noInits (stripInits ds) = true ∧
      declNames (stripInits ds) = declNames ds := by
  refine ⟨?_, noInits_stripInits ds, declNames_stripInits ds⟩
  cases ds with
  | nil => exact absurd rfl h
  | cons d ds => simp [keepDead, keepDeadDecl]

/-- the same for a whole statement list (shouldKeepStmtsInDeadControlFlow) -/
theorem dead_list_keeps_hoisted_declarations (ss : List Stmt) :
    ((keepDeadList ss).1 = false → listVarNames ss = [] ∧ listFnsDeep ss = []) ∧
    listVarNames (keepDeadList ss).2 = listVarNames ss ∧ listFnsDeep (keepDeadList ss).2 = listFnsDeep ss :=
  ⟨keepDeadList_false ss, keepDeadList_names ss⟩

/-- statement merging, "a(); b();" => "a(), b();" -/
theorem expr_stmts_merge_equiv (w : World) (again : List Nat → Stmt → St → Out) (a b : Expr) (st : St) :
    execL w again [.expr (.binary .comma a b)] st = execL w again [.expr a, .expr b] st := by
  have h2 : execL w again [.expr b] = execS w again [] (.expr b) := funext (execL_single w again _)
  rw [execL_single, execL_cons, h2, expr_expr_merge]

/-- "a(); return b;" => "return a(), b;" -/
theorem expr_return_merge_equiv (w : World) (again : List Nat → Stmt → St → Out) (a b : Expr) (st : St) :
    execL w again [.ret (some (.binary .comma a b))] st = execL w again [.expr a, .ret (some b)] st := by
  have h2 : execL w again [.ret (some b)] = execS w again [] (.ret (some b)) := funext (execL_single w again _)
  rw [execL_single, execL_cons, h2, expr_ret_merge]

/-- "a(); throw b;" => "throw a(), b;" -/
theorem expr_throw_merge_equiv (w : World) (again : List Nat → Stmt → St → Out) (a b : Expr) (st : St) :
    execL w again [.throw (.binary .comma a b)] st = execL w again [.expr a, .throw b] st := by
  have h2 : execL w again [.throw b] = execS w again [] (.throw b) := funext (execL_single w again _)
  rw [execL_single, execL_cons, h2, expr_throw_merge]

/-- "a(); if (b) c; else d;" => "if (a(), b) c; else d;" -/
theorem expr_if_absorb_equiv (w : World) (again : List Nat → Stmt → St → Out) (a c : Expr) (y : Stmt)
    (n : Option Stmt) (st : St) :
    execL w again [.ifS (.binary .comma a c) y n] st = execL w again [.expr a, .ifS c y n] st := by
  have h2 : execL w again [.ifS c y n] = execS w again [] (.ifS c y n) := funext (execL_single w again _)
  rw [execL_single, execL_cons, h2, expr_if_merge]

/-- an expression statement after SimplifyUnusedExpr (`pushExpr`): dropped only when it has no effect, otherwise
replaced by a statement with the same completion and trace -/
theorem unused_expr_stmt_equiv (w : World) (again : List Nat → Stmt → St → Out) (cfg : Cfg) (H : BoundOK w cfg.ub)
    (acc : List Stmt) (e : Expr) (hwf : e.wf = true) (st : St) :
    execL w again (pushExpr cfg acc e).reverse st =
      seqOut (execL w again acc.reverse st) (execS w again [] (.expr e)) :=
  pushExpr_sound w again cfg H acc e hwf st

/-- appendIfOrLabelBodyPreservingScope: a block without `let` / `const` / function declarations is spliced into
the surrounding list, anything else is appended -/
theorem appendBody_equiv (w : World) (again : List Nat → Stmt → St → Out) (acc : List Stmt) (body : Stmt)
    (hb : stmtCaresAboutScope body = false) (st : St) :
    execL w again (appendBody acc body).reverse st = seqOut (execL w again acc.reverse st) (execS w again [] body) :=
  appendBody_sound w again acc body hb st

-- OPEN mangleStmts_preserves_completion: `execBody w n (visitFnBody cfg ss) st = execBody w n ss st` for every fuel
--   (the main loop of mangleStmts with its result stack and dead flag, the implicit-jump rule, the if/else chain
--   flattening, `finalize`, the block / loop / label cases of the visitor).  Proved here: every single rewrite the
--   loop makes on expression statements, returns, throws and ifs (theorems above), mangleIf as a whole, the
--   dead-code filter's effect on the hoisted names.  Not proved: the loop invariant that strings them together, the
--   reverse merges "if (a) return b; return c;" => "return a ? b : c;", trailing jump removal, label removal.
-- OPEN mangleFor_equiv: "for (;;) if (x) break; else y();" => "for (; !x;) y();" needs an induction over the fuel
--   (`again`) together with dropFirstStatement's block cases; modelled and covered by the kernel, not proved.
-- OPEN idempotent: FALSE.  `mangleStmts` is not a fixed point on its own output (a missed optimisation, not a
--   behaviour change): "!u4; throw v5(); return u4();" => "throw u4, v5(); return u4();" => "throw u4, v5();"
--   (the merge of the expression statement into the `throw` skips `isControlFlowDead = true`), and
--   "L0: { return a.p; break L0; }" => "L0: return a.p;" => "return a.p;" (the label's use count is taken before
--   the dead `break` is removed).  Both run on the real esbuild and on the compiled model.

-- ---------------------------------------------------------------- non-vacuity

/-- identifiers 0..2 are bound, 3.. unbound; calls return fresh objects -/
def stmtDemoWorld : World where
  step := fun tr ev =>
    match ev with
    | .call _ _ => .ret (.obj tr.length)
    | .get _ _ => .ret .undef
    | .toPrim k _ => .ret (.num (.int k))
  read := fun tr x => if x < 3 then some (.num (.int (x + tr.length))) else none
  callable := fun _ => false
  strToNum := fun _ => .nan
  strToBigInt := fun _ => none
  numToStr := fun _ => sNumber
  bigToStr := fun _ => sBigint

def stmtDemoCfg : Cfg := ⟨fun x => decide (3 ≤ x), true⟩

theorem stmtDemo_boundOK : BoundOK stmtDemoWorld stmtDemoCfg.ub := by
  intro tr x hx
  simp only [stmtDemoCfg, decide_eq_false_iff_not, Nat.not_le] at hx
  simp [stmtDemoWorld, hx]

/-- the hypotheses of mangleIf_equiv hold on "if (!v0) throw u4; else { var x7 = 1; }" (a `var` in the else branch,
a flagged typeof nowhere, no lexical declaration as a branch) -/
example :
    (Stmt.ifS (.unary .not (.ident 0)) (.throw (.ident 4))
      (some (.block [.decl .var [⟨7, some (.num (.int 1))⟩]]))).wf = true ∧
    condWf stmtDemoCfg (.unary .not (.ident 0)) (.throw (.ident 4))
      (some (.block [.decl .var [⟨7, some (.num (.int 1))⟩]])) = true ∧
    stmtCaresAboutScope (.throw (.ident 4)) = false ∧
    optCares (some (.block [.decl .var [⟨7, some (.num (.int 1))⟩]])) = false := by decide

/-- … and mangleIf really rewrites it: the `!` is flipped -/
example : mangleIf stmtDemoCfg [] (.unary .not (.ident 0)) (.throw (.ident 4))
      (some (.block [.decl .var [⟨7, some (.num (.int 1))⟩]])) =
    [.ifS (.ident 0) (.block [.decl .var [⟨7, some (.num (.int 1))⟩]])
      (some (.throw (.ident 4)))] := by
  simp [mangleIf, toBooleanWithSideEffects, mangleIfShape, notOperand?]

/-- a constant test with a `var` in the dead branch: the branch stays, trimmed, and the test becomes `0` -/
example : mangleIf stmtDemoCfg [] (.bool false) (.decl .var [⟨7, some (.call (.ident 1) .nil)⟩]) none =
    [.ifS (.num (.int 0)) (.decl .var [⟨7, none⟩]) none] := by
  simp [mangleIf, toBooleanWithSideEffects, keepDead, keepDeadDecl, stripInits, mangleIfShape, numOfBool]

/-- dead code: the `var` keeps its name and loses its initialiser, the call is dropped, the function stays -/
example : (keepDead (.decl .var [⟨7, some (.call (.ident 1) .nil)⟩])).1 = true ∧
    (keepDead (.expr (.call (.ident 1) .nil))).1 = false ∧ (keepDead (.func 12 12)).1 = true ∧
    (keepDead (.decl .letK [⟨20, some (.call (.ident 1) .nil)⟩])).1 = false := by decide

/-- the order in which the Go code trims: in "if (x) { var a = 1 } else { var b = 2 }" only the first branch is
trimmed (shouldKeepStmtInDeadControlFlow stops at the first `true`) -/
example : keepDead (.ifS (.ident 0) (.decl .var [⟨6, some (.num (.int 1))⟩]) (some (.decl .var [⟨7, some (.num (.int 2))⟩]))) =
    (true, .ifS (.ident 0) (.decl .var [⟨6, none⟩]) (some (.decl .var [⟨7, some (.num (.int 2))⟩]))) := by
  simp [keepDead, keepDeadDecl, stripInits]

/-- the semantics really runs: "var x7 = v1(); if (x7) return x7; throw 1" with hoisting, a call event and a return -/
example : (execBody stmtDemoWorld 3
      [.decl .var [⟨7, some (.call (.ident 1) .nil)⟩], .ifS (.ident 7) (.ret (some (.ident 7))) none, .throw (.num (.int 1))]
      ⟨fun _ => none, []⟩).map (fun r => (r.1, r.2.tr, r.2.env 7)) =
    some (.ret (.obj 0), [.call (.num (.int 1)) []], some (.obj 0)) := by decide

/-- loops consume fuel: "while (v0) {}" never ends in this world -/
example : execBody stmtDemoWorld 5 [.whileS (.ident 1) (.block [])] ⟨fun _ => none, []⟩ = none := by decide

end EsbuildModel.MiniJS
