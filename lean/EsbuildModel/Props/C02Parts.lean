import EsbuildModel.Lemmas.OrderPartsRun
/-! # C02 / C04 / C10 — order and uniqueness of the PARTS a chunk emits (findImportedPartsInJSOrder)

`Order.run files roots = some (js, ranges)`: `js` is the file order (theorems in Props/C02.lean), `ranges` is
`jsPartsPrefix ++ jsParts`, the list of part ranges handed to the printer.  `Order.expand ranges` is the list of
(file, part index) pairs the ranges denote, in emission order.  All theorems are for EVERY well-formed graph
(any size, cycles included). -/
namespace EsbuildModel.C02Parts
open EsbuildModel.Order EsbuildModel.Dfs

/-- The model's exact condition for "part `i` of file `f` belongs to the chunk's code":
a file that can be split contributes its live parts — the namespace-export part 0 whenever it is live, any other
part only if `shouldIncludePart` holds; a wrapped file contributes ALL its parts. -/
def Emits (files : List File) (f i : Nat) : Prop :=
  ∃ file, files[f]? = some file ∧ file.isJS = true ∧ file.inChunk = true ∧
    ((file.canSplit = true ∧ ∃ p, file.parts[i]? = some p ∧ p.live = true ∧ (i = 0 ∨ p.incl = true)) ∨
     (file.canSplit = false ∧ i < file.parts.length))

/-- 1. Every part is emitted AT MOST ONCE. -/
theorem parts_emitted_once (files : List File) (roots : List (Nat × Nat × Nat)) (hwf : WFOrder files)
    (h0 : 0 < files.length) (hroots : ∀ r ∈ roots, r.1 < files.length) :
    ∃ js ranges, run files roots = some (js, ranges) ∧ (expand ranges).Nodup := by
  obtain ⟨st, hrun, _, hE, hP, _, _⟩ := run_parts files roots hwf h0 hroots
  refine ⟨_, _, hrun, nodup_of_onFile ?_⟩
  intro x
  rw [expand_append, onFile_append, hE x, hP x]
  split
  · rw [List.nodup_append]
    exact ⟨sorted_nodup (emitP_sorted files x), sorted_nodup (emitE_sorted files x), emitP_emitE_disjoint files x⟩
  · simp

/-- 2. Part `i` of file `f` is emitted IFF a root reaches `f` over followed imports and the model's emission
condition holds. -/
theorem parts_emitted_exactly (files : List File) (roots : List (Nat × Nat × Nat)) (hwf : WFOrder files)
    (h0 : 0 < files.length) (hroots : ∀ r ∈ roots, r.1 < files.length) :
    ∃ js ranges, run files roots = some (js, ranges) ∧
      ∀ f i, (f, i) ∈ expand ranges ↔ (Reached files roots f ∧ Emits files f i) := by
  obtain ⟨st, hrun, hvis, hE, hP, _, _⟩ := run_parts files roots hwf h0 hroots
  refine ⟨_, _, hrun, ?_⟩
  intro f i
  rw [expand_append, List.mem_append, mem_of_onFile hP, mem_of_onFile hE, hvis, mem_emitE, mem_emitP]
  unfold Emits
  constructor
  · rintro (⟨hr, _, file, hf, hjs, hin, h⟩ | ⟨hr, _, file, p, hf, hjs, hin, hcs, hp, hl, h⟩)
    · refine ⟨hr, file, hf, hjs, hin, ?_⟩
      rcases h with ⟨hcs, _, _, p, hp, hl, hi⟩ | h
      · exact Or.inl ⟨hcs, p, hp, hl, Or.inr hi⟩
      · exact Or.inr h
    · refine ⟨hr, file, hf, hjs, hin, Or.inl ⟨hcs, p, hp, hl, ?_⟩⟩
      rcases h with h | h
      · exact Or.inl h
      · exact Or.inr h.1
  · rintro ⟨hr, file, hf, hjs, hin, h⟩
    rcases h with ⟨hcs, p, hp, hl, h⟩ | h
    · by_cases hi : i = 0
      · exact Or.inr ⟨hr, rfl, file, p, hf, hjs, hin, hcs, hp, hl, Or.inl hi⟩
      · have hinc : p.incl = true := by rcases h with h | h; exact absurd h hi; exact h
        by_cases hf0 : f = 0
        · exact Or.inl ⟨hr, rfl, file, hf, hjs, hin, Or.inl ⟨hcs, hf0, hi, p, hp, hl, hinc⟩⟩
        · exact Or.inr ⟨hr, rfl, file, p, hf, hjs, hin, hcs, hp, hl, Or.inr ⟨hinc, hf0⟩⟩
    · exact Or.inl ⟨hr, rfl, file, hf, hjs, hin, Or.inr h⟩

/-- 3. The emitted parts of one file appear in strictly increasing part-index order (part 0, the
namespace-export part, first).  For the runtime (file 0) this holds for its parts with index ≥ 1 (see
`runtime_part0_is_last` below for why part 0 is excluded there). -/
theorem parts_of_a_file_in_source_order (files : List File) (roots : List (Nat × Nat × Nat)) (hwf : WFOrder files)
    (h0 : 0 < files.length) (hroots : ∀ r ∈ roots, r.1 < files.length) :
    ∃ js ranges, run files roots = some (js, ranges) ∧
      (∀ f, f ≠ 0 → (onFile f (expand ranges)).Pairwise (fun a b => a.2 < b.2)) ∧
      ((onFile 0 (expand ranges)).filter (fun q => q.2 != 0)).Pairwise (fun a b => a.2 < b.2) := by
  obtain ⟨st, hrun, _, hE, hP, _, _⟩ := run_parts files roots hwf h0 hroots
  refine ⟨_, _, hrun, ?_, ?_⟩
  · intro f hf
    rw [expand_append, onFile_append, hE f, hP f]
    split
    · rw [List.pairwise_append]
      refine ⟨emitP_sorted files f, emitE_sorted files f, ?_⟩
      intro a ha b hb
      -- a file other than the runtime contributes to the prefix only when wrapped, to `jsParts` only when not
      obtain ⟨_, file, hfile, _, _, h⟩ := (mem_emitP files f a).1 ha
      obtain ⟨_, file', p, hfile', _, _, hcs, _⟩ := (mem_emitE files f b).1 hb
      rw [hfile] at hfile'; cases hfile'
      rcases h with ⟨_, h, _⟩ | ⟨h, _⟩
      · exact absurd h hf
      · rw [hcs] at h; cases h
    · simp
  · rw [expand_append, onFile_append, hE 0, hP 0]
    split
    · rw [List.filter_append, List.pairwise_append]
      refine ⟨(emitP_sorted files 0).filter _, (emitE_sorted files 0).filter _, ?_⟩
      intro a ha b hb
      rw [List.mem_filter] at ha hb
      obtain ⟨_, file', p, _, _, _, _, _, _, h⟩ := (mem_emitE files 0 b).1 hb.1
      rcases h with h | h
      · simp [h] at hb
      · exact absurd rfl h.2
    · simp

/-- 4. Imports of a part come first: if part `i ≥ 1` of a splittable file `a` (not the runtime) is emitted, and
that part or an EARLIER part `k ≤ i` of `a` carries an import record to `b` that the traversal follows, and `b`
does not import its way back to `a`, then EVERY emitted part of `b` (and the whole block of `b` when `b` is
wrapped) precedes `(a, i)` in the output.  Since the parser puts the import statements of a module into its
first parts, this is "a module's code runs after the code of everything it imports". -/
theorem imports_of_a_part_come_first (files : List File) (roots : List (Nat × Nat × Nat)) (hwf : WFOrder files)
    (h0 : 0 < files.length) (hroots : ∀ r ∈ roots, r.1 < files.length) :
    ∃ js ranges, run files roots = some (js, ranges) ∧
      ∀ a i k b fa, files[a]? = some fa → fa.canSplit = true → a ≠ 0 → i ≠ 0 → (a, i) ∈ expand ranges →
        k ≤ i → FollowedRec files a k b → ¬ Reach (succ files) b a →
        ∀ j, (b, j) ∈ expand ranges → PBefore (expand ranges) (b, j) (a, i) := by
  obtain ⟨st, hrun, _, hE, hP, htopo, _⟩ := run_parts files roots hwf h0 hroots
  refine ⟨_, _, hrun, ?_⟩
  intro a i k b fa hfa hcs ha hi hmem hki hfol hnr j hbj
  rw [expand_append] at hmem hbj ⊢
  -- (a, i) is in `jsParts`
  have hmemE : (a, i) ∈ expand st.parts := by
    rcases List.mem_append.1 hmem with hm | hm
    · obtain ⟨_, hm⟩ := (mem_of_onFile hP (a, i)).1 hm
      obtain ⟨_, file, hfile, _, _, h⟩ := (mem_emitP files a (a, i)).1 hm
      rw [hfa] at hfile; cases hfile
      rcases h with ⟨_, h, _⟩ | ⟨h, _⟩
      · exact absurd h ha
      · rw [hcs] at h; cases h
    · exact hm
  obtain ⟨l1, l2, el, hd⟩ := htopo a i k b hmemE hi hki hfol hnr
  refine ⟨expand st.pre ++ l1, l2, by rw [el]; simp, ?_⟩
  rcases List.mem_append.1 hbj with hm | hm
  · exact List.mem_append_left _ hm
  · apply List.mem_append_right
    have hv := ((mem_of_onFile hE (b, j)).1 hm).1
    have hall := hE b
    rw [if_pos hv, el, onFile_append] at hall
    unfold Done at hd
    rw [hd] at hall
    have hnil := List.append_right_eq_self.1 hall
    rw [el] at hm
    rcases List.mem_append.1 hm with hm | hm
    · exact hm
    · have : (b, j) ∈ onFile b ((a, i) :: l2) := mem_onFile.2 ⟨hm, rfl⟩
      rw [hnil] at this
      simp at this

/-- 5. Wrapped (non-splittable) files: each is emitted as ONE range covering all its parts; these ranges appear
in the order of the file list `js` (the post-order of `chunk_file_order`); and every pair of a wrapped file
precedes every pair of a splittable file, except the runtime's parts ≥ 1 (which share the prefix). -/
theorem wrapped_blocks_first (files : List File) (roots : List (Nat × Nat × Nat)) (hwf : WFOrder files)
    (h0 : 0 < files.length) (hroots : ∀ r ∈ roots, r.1 < files.length) :
    ∃ js ranges, run files roots = some (js, ranges) ∧
      ranges.filter (fun r => wrapped files r.src) = (js.filter (wrapped files)).map (blockRange files) ∧
      ∀ q q', q ∈ expand ranges → q' ∈ expand ranges → wrapped files q.1 = true → wrapped files q'.1 = false →
        ¬ (q'.1 = 0 ∧ q'.2 ≠ 0) → PBefore (expand ranges) q q' := by
  obtain ⟨st, hrun, _, hE, hP, _, hi5⟩ := run_parts files roots hwf h0 hroots
  refine ⟨_, _, hrun, ?_, ?_⟩
  · rw [List.filter_append, hi5.1]
    have : st.parts.filter (fun r => wrapped files r.src) = [] := by
      rw [List.filter_eq_nil_iff]
      intro r hr; simp [hi5.2 r hr]
    rw [this, List.append_nil]
  · intro q q' hq hq' hw hw' hrt
    rw [expand_append] at hq hq' ⊢
    have hqP : q ∈ expand st.pre := by
      rcases List.mem_append.1 hq with hm | hm
      · exact hm
      · obtain ⟨_, hm⟩ := (mem_of_onFile hE q).1 hm
        obtain ⟨_, file, p, hfile, _, _, hcs, _⟩ := (mem_emitE files q.1 q).1 hm
        simp [wrapped, hfile, hcs] at hw
    have hq'E : q' ∈ expand st.parts := by
      rcases List.mem_append.1 hq' with hm | hm
      · obtain ⟨_, hm⟩ := (mem_of_onFile hP q').1 hm
        obtain ⟨_, file, hfile, hjs, hin, h⟩ := (mem_emitP files q'.1 q').1 hm
        rcases h with ⟨_, h1, h2, _⟩ | ⟨h, _⟩
        · exact absurd ⟨h1, h2⟩ hrt
        · simp [wrapped, hfile, hjs, hin, h] at hw'
      · exact hm
    obtain ⟨l1, l2, el⟩ := List.append_of_mem hq'E
    exact ⟨expand st.pre ++ l1, l2, by rw [el]; simp, List.mem_append_left _ hqP⟩

/-! ## Non-vacuity: a concrete graph with a cycle, a wrapped file and dead parts

`imp t` is a part holding only `import "./t"` (live, but `shouldIncludePart` = false).  File 0 is the runtime;
1 is the entry (a live namespace-export part, imports 2 and 3, two code parts and a dead part); 2 imports 3 and
has an included part that carries an import of 5; 3 imports 1 (CYCLE 1 → 2 → 3 → 1) and `require`s 4; 4 is a WRAPPED
CommonJS file; 5 is a leaf. -/
def imp (t : Nat) : Part := ⟨true, false, [⟨t, true, false⟩]⟩
def body : Part := ⟨true, true, []⟩
def dead : Part := ⟨false, true, []⟩
def nsLive : Part := ⟨true, true, []⟩

def G : List File := [
  ⟨true, true, true, [dead, body]⟩,
  ⟨true, true, true, [nsLive, imp 2, imp 3, body, dead, body]⟩,
  ⟨true, true, true, [dead, imp 3, ⟨true, true, [⟨5, true, false⟩]⟩, body]⟩,
  ⟨true, true, true, [dead, imp 1, ⟨true, true, [⟨4, false, false⟩]⟩]⟩,
  ⟨true, true, false, [dead, body]⟩,
  ⟨true, true, true, [nsLive, body]⟩]

def Groots : List (Nat × Nat × Nat) := [(3, 1, 3), (1, 0, 1), (4, 2, 4), (2, 1, 2), (5, 2, 5)]

/-- the common hypotheses of all five theorems hold for `G` -/
example : WFOrder G ∧ 0 < G.length ∧ ∀ r ∈ Groots, r.1 < G.length := by
  refine ⟨?_, by decide, by decide⟩
  intro file hf
  simp only [G, List.mem_cons, List.not_mem_nil, or_false] at hf
  rcases hf with rfl | rfl | rfl | rfl | rfl | rfl <;> refine ⟨by simp, ?_⟩ <;> simp [imp, body, dead, nsLive, G]

/-- … and this is what the traversal emits for it: prefix = runtime part 1, block of the wrapped file 4;
then (1,0) first, the cycle member 3 before 5, 2 and 1; the dead parts (1,4), (k,0) and the bare import parts
never appear. -/
example : run G Groots = some ([0, 4, 3, 5, 2, 1],
      [⟨0, 1, 2⟩, ⟨4, 0, 2⟩, ⟨1, 0, 1⟩, ⟨3, 2, 3⟩, ⟨5, 0, 2⟩, ⟨2, 2, 4⟩, ⟨1, 3, 4⟩, ⟨1, 5, 6⟩]) ∧
    expand [⟨0, 1, 2⟩, ⟨4, 0, 2⟩, ⟨1, 0, 1⟩, ⟨3, 2, 3⟩, ⟨5, 0, 2⟩, ⟨2, 2, 4⟩, ⟨1, 3, 4⟩, ⟨1, 5, 6⟩] =
      [(0, 1), (4, 0), (4, 1), (1, 0), (3, 2), (5, 0), (5, 1), (2, 2), (2, 3), (1, 3), (1, 5)] := by
  decide

/-- the inner hypotheses of theorem 4 are met in `G`: part 3 of file 2 is emitted, the earlier part 2 carries a
followed import of 5, and 5 does not reach 2 (so (5,0), (5,1) must precede (2,3) — they do). -/
example : (∃ fa, G[2]? = some fa ∧ fa.canSplit = true) ∧ FollowedRec G 2 2 5 ∧ ¬ Reach (succ G) 5 2 := by
  refine ⟨⟨_, rfl, rfl⟩, ⟨_, _, ⟨5, true, false⟩, rfl, rfl, rfl, by simp, rfl, rfl⟩, ?_⟩
  have hleaf : ∀ x, Reach (succ G) 5 x → x = 5 := by
    intro x h
    induction h with
    | refl => rfl
    | step _ e ih =>
      subst ih
      obtain ⟨js, hs, hm⟩ := e
      have : succ G 5 = some [] := by decide
      rw [this] at hs; cases hs; simp at hm
  intro h
  exact absurd (hleaf 2 h) (by decide)

/-- the inner hypotheses of theorem 5 are met in `G`: 4 is wrapped, 1 is not. -/
example : wrapped G 4 = true ∧ wrapped G 1 = false := by decide

/-! ## Limits of the statements (each is a fact about the model, i.e. about what the linker does with such an input) -/

/-- The order guarantee is per PART, not per FILE.  Graph: runtime; file 1 = [ns, code, `import "./2"`, code];
file 2 = [ns, code].  The first code part (1,1) is emitted BEFORE file 2's code (2,1), although 1 imports 2 and
2 does not import 1.  (The parser never produces this shape when bundling: it moves import statements into the
first parts — that is exactly what theorem 4 needs.) -/
theorem file_level_order_is_false :
    let files : List File := [⟨true, true, true, [dead]⟩, ⟨true, true, true, [dead, body, imp 2, body]⟩,
      ⟨true, true, true, [dead, body]⟩]
    ∃ js ranges, run files [(1, 0, 1), (2, 1, 2)] = some (js, ranges) ∧
      expand ranges = [(1, 1), (2, 1), (1, 3)] ∧
      Edge (succ files) 1 2 ∧ ¬ PBefore (expand ranges) (2, 1) (1, 1) := by
  refine ⟨[0, 2, 1], [⟨1, 1, 2⟩, ⟨2, 1, 2⟩, ⟨1, 3, 4⟩], by decide, by decide, ⟨[2], by decide, by simp⟩, ?_⟩
  intro h
  have := h.beforeB
  revert this
  decide

/-- With tree shaking off a file is ONE code part, so all its import records sit in that part (known finding
c02-order-no-tree-shaking).  Graph: file 1 = [ns, one part importing 2 then 3]; 2 is WRAPPED; 3 is plain.  The
block of 2 (its wrapper definition) is in the prefix, but the body of 2 only runs when part (1,1) calls the
wrapper — and (3,1) is emitted before (1,1): file 3 runs before file 2 although 2 is imported first.  All five
theorems hold here; none of them speaks about WHERE a wrapped file's body is invoked. -/
theorem single_part_file_hoists_plain_sibling :
    let files : List File := [⟨true, true, true, [dead]⟩,
      ⟨true, true, true, [dead, ⟨true, true, [⟨2, true, false⟩, ⟨3, true, false⟩]⟩]⟩,
      ⟨true, true, false, [dead, body]⟩, ⟨true, true, true, [dead, body]⟩]
    ∃ js ranges, run files [(1, 0, 1), (2, 1, 2), (3, 1, 3)] = some (js, ranges) ∧
      expand ranges = [(2, 0), (2, 1), (3, 1), (1, 1)] := by
  exact ⟨[0, 2, 3, 1], [⟨2, 0, 2⟩, ⟨3, 1, 2⟩, ⟨1, 1, 2⟩], by decide, by decide⟩

/-- Why theorem 3 treats the runtime separately: its parts ≥ 1 go to the prefix but its namespace-export part 0
goes to `jsParts`; if that part were live it would come LAST among the runtime's parts. -/
theorem runtime_part0_is_last :
    ∃ js ranges, run [⟨true, true, true, [nsLive, body]⟩] [] = some (js, ranges) ∧
      expand ranges = [(0, 1), (0, 0)] := by
  exact ⟨[0], [⟨0, 1, 2⟩, ⟨0, 0, 1⟩], by decide, by decide⟩

/-- Why theorem 4 needs `i ≠ 0`: the namespace-export part is appended on ENTRY, before any import is followed. -/
theorem part0_precedes_its_imports :
    let files : List File := [⟨true, true, true, [dead]⟩,
      ⟨true, true, true, [⟨true, true, [⟨2, true, false⟩]⟩]⟩, ⟨true, true, true, [dead, body]⟩]
    ∃ js ranges, run files [(1, 0, 1), (2, 1, 2)] = some (js, ranges) ∧ expand ranges = [(1, 0), (2, 1)] := by
  exact ⟨[0, 2, 1], [⟨1, 0, 1⟩, ⟨2, 1, 2⟩], by decide, by decide⟩

end EsbuildModel.C02Parts
