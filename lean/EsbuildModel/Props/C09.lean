import EsbuildModel.Impl.CacheKey
/-! # C09 — incremental rebuilds equal clean builds: property theorems -/
namespace EsbuildModel.C09
open EsbuildModel.CacheKey

/-- `CacheKey.covers` (JS): over the field lists regenerated from the source on this run, every option
field the JavaScript parser reads is distinguished by `Options.Equal` (or is the documented-ignored
`defines`). This is hypothesis (H-equal) of `cache_transparent`, discharged structurally. -/
theorem js_cache_key_covers :
    uncovered Gen.jsOptionsFields Gen.jsStructuralFields Gen.jsEqualPaths ["defines"] Gen.jsReadPaths = [] := by
  decide +kernel

/-- `CacheKey.covers` (CSS) -/
theorem css_cache_key_covers :
    uncovered Gen.cssOptionsFields Gen.cssStructuralFields Gen.cssEqualPaths [] Gen.cssReadPaths = [] := by
  decide +kernel

/-- the obligation is not vacuous: the parser does read option fields, among them JSX ones -/
example : ("jsx", "jsx.Preserve") ∈ relevant Gen.jsOptionsFields Gen.jsStructuralFields Gen.jsReadPaths := by decide +kernel

/-- `Cache.transparent`: for EVERY history of (source, options) requests — whatever edits happened in
between — the AST handed out by the cache equals a fresh parse of the current source with the current
options, provided `Equal a b → parse s a = parse s b` (the cache key distinguishes everything the
parser looks at). Invariant: the stored entry is a fresh parse of its own key. -/
theorem cache_transparent {Src Opt Ast : Type} [DecidableEq Src] (equal : Opt → Opt → Bool) (parse : Src → Opt → Ast)
    (hequal : ∀ s a b, equal a b = true → parse s a = parse s b)
    (reqs : List (Src × Opt)) :
    ∀ (entry : Option (Entry Src Opt Ast)), (∀ e, entry = some e → e.ast = parse e.src e.opt) →
      ∀ r ∈ (reqs.foldl (fun (acc : List (Ast × Src × Opt) × Option (Entry Src Opt Ast)) (r : Src × Opt) =>
                let (a, e') := parseCached equal parse acc.2 r.1 r.2
                (acc.1 ++ [(a, r.1, r.2)], e')) ([], entry)).1,
        r.1 = parse r.2.1 r.2.2 := by
  -- generalise over the accumulated answers
  suffices H : ∀ (reqs : List (Src × Opt)) (done : List (Ast × Src × Opt)) (entry : Option (Entry Src Opt Ast)),
      (∀ r ∈ done, r.1 = parse r.2.1 r.2.2) → (∀ e, entry = some e → e.ast = parse e.src e.opt) →
      ∀ r ∈ (reqs.foldl (fun (acc : List (Ast × Src × Opt) × Option (Entry Src Opt Ast)) (r : Src × Opt) =>
                let (a, e') := parseCached equal parse acc.2 r.1 r.2
                (acc.1 ++ [(a, r.1, r.2)], e')) (done, entry)).1,
        r.1 = parse r.2.1 r.2.2 by
    intro entry hinv
    exact H reqs [] entry (by simp) hinv
  intro reqs
  induction reqs with
  | nil => intro done entry hd _ r hr; exact hd r hr
  | cons q qs ih =>
    intro done entry hd hinv
    simp only [List.foldl_cons]
    apply ih
    · intro r hr
      simp only [List.mem_append, List.mem_singleton] at hr
      rcases hr with hr | hr
      · exact hd r hr
      · subst hr
        simp only [parseCached]
        cases entry with
        | none => rfl
        | some e =>
          simp only
          split
          · rename_i hhit
            have := hinv e rfl
            simp only
            rw [this, ← hhit.1]
            exact hequal _ _ _ hhit.2
          · rfl
    · intro e' he'
      simp only [parseCached] at he'
      cases entry with
      | none => simp at he'; subst he'; rfl
      | some e =>
        simp only at he'
        split at he'
        · simp at he'; subst he'; exact hinv e rfl
        · simp at he'; subst he'; rfl

end EsbuildModel.C09
