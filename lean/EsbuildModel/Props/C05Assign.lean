import EsbuildModel.Impl.Lower2
import EsbuildModel.Lemmas.Lower2
/-!
C05 — syntax lowering preserves behaviour: logical assignment (`||=`, `&&=`, `??=`), exponentiation assignment
(`**=`) and untagged template literals, nested in each other and in the optional property chains and `??` of
Props/C05.lean.  Model: Impl/Lower2.lean (it contains the whole fragment of Impl/Lower.lean again, now with
mutable variables, property reads/writes, conversions and exceptions as events).  The lowering function of the
model is compared with the real parser's lowered AST by the kernel `lower2`; the two evaluators of the model are
compared with Node 20 (source text, and the text esbuild emits) by the kernel `lower2sem`.

Theorems (all for EVERY expression of the fragment, no bound on size or nesting, every world, every initial
trace / variables / temporaries):

* `lowering2_preserves_behaviour` (general): under `Safe w e`, the lowered expression gives the same value or the
  same exception, the same trace and the same final user variables.
* `logical_assign_lowering_preserves_behaviour`: the same for parsed expressions without `**=`, plus: the
  evaluation never leaves the model.
* `exponent_assign_lowering_preserves_behaviour`: the same for expressions with `**=` provided no operand of `**`
  is a BigInt (hypothesis `(evalS w e h).1 ≠ .err .bigint`; known finding c05-bigint-pow otherwise).
* `template_lowering_preserves_behaviour`: for expressions without assignments: no hypothesis about the world.

Same trace = the same calls, property reads, property writes and ToPrimitive conversions with the same arguments
in the same order; so every operand is evaluated the same number of times.  The final property state is what the
world makes of the `set` events, so it is covered by the trace.  Temporaries are excluded from "same state" by
construction: they live in `TState.tm`, which only the emitted language has.

The hypothesis `Safe` is FORCED by the code: esbuild writes an identifier that is the object or the key of an
assignment target twice instead of capturing it, and the second occurrence is read after the key expression, the
key's toString and the getter have run.  `reassigned_base_example_differs` / `key_assigns_base_example_differs`
show the difference inside the model; on the real esbuild + Node 20: `var o1={},o2={},o=o1; function kk(){o=o2;
return 'p'} o[kk()] ||= 1` sets o1.p natively and o2.p when lowered (also with `**=`, `&&=`, `??=`, and with a getter
for `o.p ||= 1`).

Assumptions of the model (not proved, checked by `lower2sem` against Node 20 where they are observable):
identifiers are declared variables; temporaries are fresh symbols nobody else reads or writes;
`String.prototype.concat` and `Math.pow` are the built-ins when the file starts; property keys are converted at
every read and at every write, as V8 does natively and for the lowered form alike (the ES2023 text converts the
key once, when the reference is evaluated; under that reading the lowered form would convert once more than the
source); numbers are integers or NaN
(fractions, infinities and -0 are not distinguished; arithmetic is a parameter of the world); no symbols are
produced by literals (the world may produce them).  Tagged templates, `o?.[k]`, calls as chain links, compound
assignments other than the four, destructuring targets are not in the fragment.
-/
namespace EsbuildModel.Lower2

def Rel (r : Res × TState) (c : CRes × H) : Prop := r.1 = c.1.top ∧ r.2.h = c.2

/-- what `lowerC` guarantees about its three results -/
def Good (w : World) (e : S) (acc : T) (pend : Option T) : Prop :=
  match pend with
  | none => ∀ s : TState, Rel (evalT w acc s) (evalC w e s.h) ∧ (evalC w e s.h).1 ≠ .short
  | some t => ∀ s : TState,
      (∀ x, (evalT w t s).1 = .err x → evalC w e s.h = (.err x, (evalT w t s).2.h)) ∧
      (∀ v, (evalT w t s).1 = .val v → v.nullish = true → evalC w e s.h = (.short, (evalT w t s).2.h)) ∧
      (∀ v, (evalT w t s).1 = .val v → v.nullish = false →
        Rel (evalT w acc (evalT w t s).2) (evalC w e s.h) ∧ (evalC w e s.h).1 ≠ .short)

/-- closing the pending test gives an expression that behaves like the source in an ordinary context -/
theorem fin_ok (w : World) (e : S) (acc : T) (pend : Option T) (h : Good w e acc pend) :
    Sim w (fin acc pend) (evalS w e) := by
  intro s
  cases pend with
  | none => exact (h s).1
  | some t =>
    have hs := h s
    simp only [fin, evalT, evalS]
    rcases ht : evalT w t s with ⟨r, s1⟩
    rw [ht] at hs
    cases r with
    | err x =>
      have := hs.1 x rfl
      simp [this, CRes.top]
    | val v =>
      cases hv : v.nullish with
      | true =>
        have := hs.2.1 v rfl hv
        simp [this, hv, CRes.top]
      | false =>
        have := hs.2.2 v rfl hv
        simp only [bindR_val, hv]
        exact this.1

theorem good_of_sim (w : World) (e : S) (acc : T) (f : H → Res × H)
    (hf : ∀ h, evalC w e h = toCP (f h)) (hs : Sim w acc f) : Good w e acc none := by
  intro s
  rw [hf]
  refine ⟨⟨?_, ?_⟩, toC_ne_short _⟩
  · simpa using (hs s).1
  · simpa using (hs s).2

theorem sim_bind (r : Res × TState) (q : Res × H) (G : Val → TState → Res × TState) (g : Val → H → Res × H)
    (h1 : r.1 = q.1) (h2 : r.2.h = q.2)
    (hG : ∀ v s1, (G v s1).1 = (g v s1.h).1 ∧ (G v s1).2.h = (g v s1.h).2) :
    (bindR r G).1 = (bindR q g).1 ∧ (bindR r G).2.h = (bindR q g).2 := by
  obtain ⟨a, s⟩ := r
  obtain ⟨b, h⟩ := q
  simp only at h1 h2
  subst h1; subst h2
  cases a with
  | err x => simp
  | val v => simpa using hG v s

/-- one more property link `.p` / `[k]` on a chain -/
theorem good_link (w : World) (o e' : S) (acc acc' : T) (pend : Option T)
    (L : Val → TState → Res × TState) (l : Val → H → Res × H)
    (hg : Good w o acc pend)
    (hT : ∀ s, evalT w acc' s = bindR (evalT w acc s) L)
    (hC : ∀ h, evalC w e' h = match evalC w o h with
      | (.err x, h1) => (.err x, h1)
      | (.short, h1) => (.short, h1)
      | (.val v, h1) => toCP (l v h1))
    (hL : ∀ v s1, (L v s1).1 = (l v s1.h).1 ∧ (L v s1).2.h = (l v s1.h).2) :
    Good w e' acc' pend := by
  have core : ∀ (s0 : TState) (h0 : H), Rel (evalT w acc s0) (evalC w o h0) → (evalC w o h0).1 ≠ .short →
      Rel (evalT w acc' s0) (evalC w e' h0) ∧ (evalC w e' h0).1 ≠ .short := by
    intro s0 h0 hrel hns
    rw [hT, hC]
    rcases ho : evalC w o h0 with ⟨cr, h1⟩
    rw [ho] at hrel hns
    rcases hto : evalT w acc s0 with ⟨r, s1⟩
    rw [hto] at hrel
    obtain ⟨r1, r2⟩ := hrel
    simp only at r1 r2 hns
    cases cr with
    | short => exact absurd rfl hns
    | err x =>
      simp only [CRes.top] at r1
      subst r1
      simp [Rel, CRes.top, r2]
    | val v =>
      simp only [CRes.top] at r1
      subst r1
      simp only [bindR_val]
      refine ⟨⟨?_, ?_⟩, toC_ne_short _⟩
      · simpa [r2] using (hL v s1).1
      · simpa [r2] using (hL v s1).2
  cases pend with
  | none =>
    intro s
    exact core s s.h (hg s).1 (hg s).2
  | some t =>
    intro s
    have := hg s
    refine ⟨?_, ?_, ?_⟩
    · intro x herr
      rw [hC, this.1 x herr]
    · intro v hv hn
      rw [hC, this.2.1 v hv hn]
    · intro v hv hn
      exact core _ _ (this.2.2 v hv hn).1 (this.2.2 v hv hn).2

theorem good_optDot (w : World) (o : S) (p : Nat) (acc : T) (pend : Option T) (n : Nat) (hg : Good w o acc pend) :
    Good w (.optDot o p) (.dot (capture (fin acc pend) n).2.1 p) (some (capture (fin acc pend) n).1) := by
  intro s
  have hf := fin_ok w o acc pend hg s
  obtain ⟨hc1, hc2, hc3⟩ := capture_spec w (fin acc pend) n s
  simp only [evalS, topP_fst, topP_snd] at hf
  obtain ⟨hf1, hf2⟩ := hf
  rw [hf1] at hc1; rw [hf2] at hc2
  rcases ho : evalC w o s.h with ⟨cr, h1⟩
  rw [ho] at hc1 hc2 hf1
  simp only at hc1 hc2 hf1
  refine ⟨?_, ?_, ?_⟩
  · intro x herr
    rw [hc1] at herr
    cases cr <;> simp only [CRes.top, reduceCtorEq, Res.err.injEq] at herr
    subst herr
    simp [evalC, ho, hc2]
  · intro v hv hn
    rw [hc1] at hv
    cases cr with
    | err x => simp [CRes.top] at hv
    | short => simp [evalC, ho, hc2]
    | val u =>
      simp only [CRes.top, Res.val.injEq] at hv
      subst hv
      simp [evalC, ho, hn, hc2]
  · intro v hv hn
    rw [hc1] at hv
    have hread := hc3 v (by rw [hf1]; exact hv) _ ⟨fun _ _ _ => rfl, fun _ _ => rfl⟩
    cases cr with
    | err x => simp [CRes.top] at hv
    | short =>
      simp only [CRes.top, Res.val.injEq] at hv
      subst hv
      simp [Val.nullish] at hn
    | val u =>
      simp only [CRes.top, Res.val.injEq] at hv
      subst hv
      simp only [evalT, hread, bindR_val, evalC, ho, hn]
      refine ⟨⟨?_, ?_⟩, toC_ne_short _⟩
      · simp [hc2]
      · simp [hc2]

theorem sim_call (w : World) (f : Nat) (A : T) (fa : H → Res × H) (hA : Sim w A fa) :
    Sim w (.call f A) (fun h => bindR (fa h) fun v h1 => doEv w (.call f v) h1) := by
  intro s
  simp only [evalT]
  exact sim_bind _ _ _ _ (hA s).1 (hA s).2 (fun v s1 => ⟨rfl, rfl⟩)

theorem sim_nullish (w : World) (A B : T) (fa fb : H → Res × H) (hA : Sim w A fa) (hB : Sim w B fb) (m : Nat) :
    Sim w (.ifNeNull (capture A m).1 (capture A m).2.1 B)
      (fun h => bindR (fa h) fun v h1 => if v.nullish then fb h1 else (.val v, h1)) := by
  intro s
  obtain ⟨c1, c2, c3⟩ := capture_spec w A m s
  rw [(hA s).1] at c1 c3; rw [(hA s).2] at c2
  simp only [evalT]
  rcases hfa : fa s.h with ⟨a, h1⟩
  rw [hfa] at c1 c2 c3
  rcases hc : evalT w (capture A m).1 s with ⟨rc, sc⟩
  rw [hc] at c1 c2 c3
  simp only at c1 c2 c3
  subst c1
  cases rc with
  | err x => simp [c2]
  | val v =>
    simp only [bindR_val]
    split
    · have := hB sc
      rw [c2] at this
      exact this
    · rw [c3 v rfl sc ⟨fun _ _ _ => rfl, fun _ _ => rfl⟩]
      exact ⟨rfl, c2⟩

theorem sim_tcat (w : World) (P Sb : T) (fp fs : H → Res × H) (hP : Sim w P fp) (hS : Sim w Sb fs) (tail : String) :
    Sim w (.concat P Sb (if tail.isEmpty then none else some tail))
      (fun h => bindR (fp h) fun pv h1 =>
        match pv with
        | .str s =>
          bindR (fs h1) fun v h2 =>
            bindR (toStr w v h2) fun t h3 =>
              match t with
              | .str ts => (.val (.str (s ++ ts ++ tail)), h3)
              | _ => (.err .illFormed, h3)
        | _ => (.err .illFormed, h1)) := by
  intro s
  simp only [evalT]
  refine sim_bind _ _ _ _ (hP s).1 (hP s).2 (fun pv s1 => ?_)
  cases pv with
  | str bs =>
    simp only
    refine sim_bind _ _ _ _ (hS s1).1 (hS s1).2 (fun v s2 => ?_)
    refine sim_bind _ _ _ _ rfl rfl (fun t s3 => ?_)
    cases t with
    | str ts =>
      by_cases he : tail.isEmpty
      · have : tail = "" := by simpa [String.isEmpty_iff] using he
        subst this
        simp
      · simp [he]
    | _ => split <;> simp_all
  | _ => simp

/-- the identifier an expression is, parentheses ignored: that is what esbuild writes twice instead of capturing -/
def S.asId : S → Option Nat
  | .id x => some x
  | .paren a => a.asId
  | _ => none

theorem lowerE_id : ∀ (o : S) (n x : Nat), fin (lowerC o n).1 (lowerC o n).2.1 = .id x → o.asId = some x := by
  intro o
  induction o with
  | id y => intro n x h; simpa [lowerC, fin, S.asId] using h
  | paren a ih => intro n x h; simp only [lowerC, fin] at h; simpa [S.asId] using ih n x h
  | lit v => intro n x h; simp [lowerC, fin] at h
  | tstr s => intro n x h; simp [lowerC, fin] at h
  | call f a _ => intro n x h; simp [lowerC, fin] at h
  | dot o p _ => intro n x h; simp only [lowerC] at h; cases hp : (lowerC o n).2.1 <;> simp [hp, fin] at h
  | optDot o p _ => intro n x h; simp [lowerC, fin] at h
  | idx o k _ _ => intro n x h; simp only [lowerC] at h; cases hp : (lowerC o n).2.1 <;> simp [hp, fin] at h
  | nullish a b _ _ => intro n x h; simp [lowerC, fin] at h
  | tcat p s t _ _ => intro n x h; simp [lowerC, fin] at h
  | asgVar y op r _ => intro n x h; cases op <;> simp [lowerC, fin, opCallback, TT.read, TT.write] at h
  | asgDot o p op r _ _ => intro n x h; cases op <;> simp [lowerC, fin, opCallback, TT.read, TT.write] at h
  | asgIdx o k op r _ _ _ => intro n x h; cases op <;> simp [lowerC, fin, opCallback, TT.read, TT.write] at h

/-- The hypothesis under which the lowering of assignments is right.  esbuild writes an identifier that is the
object (or the key) of an assignment target twice instead of capturing its value
(captureValueWithPossibleSideEffects with valueDefinitelyNotMutated), so the second occurrence is read AFTER the
key expression, the key's toString, and the getter have run:
* the world (functions, getters, toString …) must not reassign such an identifier, and
* the key expression of `x[k] op= v` must not contain an assignment to `x`.
Without this the lowered code writes to a different object: see `reassigned_base_example_differs` below and the
reproduction in the work package report (`o[kk()] ||= 1` where `kk` reassigns `o`). -/
def Safe (w : World) : S → Prop
  | .id _ => True
  | .lit _ => True
  | .tstr _ => True
  | .call _ a => Safe w a
  | .dot o _ => Safe w o
  | .optDot o _ => Safe w o
  | .paren a => Safe w a
  | .idx o k => Safe w o ∧ Safe w k
  | .nullish a b => Safe w a ∧ Safe w b
  | .tcat p s _ => Safe w p ∧ Safe w s
  | .asgVar _ _ r => Safe w r
  | .asgDot o _ _ r => Safe w o ∧ Safe w r ∧ (∀ x, o.asId = some x → Keeps w x)
  | .asgIdx o k _ r => Safe w o ∧ Safe w k ∧ Safe w r ∧
      (∀ x, o.asId = some x → Keeps w x ∧ k.assigns x = false) ∧ (∀ y, k.asId = some y → Keeps w y)

theorem lowerC_good (w : World) : ∀ (e : S) (n : Nat), Safe w e → Good w e (lowerC e n).1 (lowerC e n).2.1 := by
  intro e
  induction e with
  | id x => intro n _ s; simp [lowerC, evalT, evalC, CRes.top, Rel]
  | lit v => intro n _ s; simp [lowerC, evalT, evalC, CRes.top, Rel]
  | tstr t => intro n _ s; simp [lowerC, evalT, evalC, CRes.top, Rel]
  | call f a ih =>
    intro n hs
    simp only [Safe] at hs
    exact good_of_sim w _ _ _ (fun h => rfl) (sim_call w f _ _ (fin_ok w a _ _ (ih n hs)))
  | paren a ih =>
    intro n hs
    simp only [Safe] at hs
    exact good_of_sim w _ _ _ (fun h => rfl) (fin_ok w a _ _ (ih n hs))
  | dot o p ih =>
    intro n hs
    simp only [Safe] at hs
    exact good_link w o (.dot o p) (lowerC o n).1 (.dot (lowerC o n).1 p) (lowerC o n).2.1
      (fun v s1 => liftH (getProp w v (pkey p)) s1) (fun v h1 => getProp w v (pkey p) h1)
      (ih n hs) (fun s => rfl) (fun h => by simp only [evalC]; rfl) (fun v s1 => ⟨rfl, rfl⟩)
  | optDot o p ih =>
    intro n hs
    simp only [Safe] at hs
    exact good_optDot w o p _ _ _ (ih n hs)
  | idx o k iho ihk =>
    intro n hs
    simp only [Safe] at hs
    have hK := fin_ok w k _ _ (ihk (lowerC o n).2.2 hs.2)
    exact good_link w o (.idx o k) (lowerC o n).1 _ (lowerC o n).2.1
      (fun v s1 => bindR (evalT w (fin (lowerC k (lowerC o n).2.2).1 (lowerC k (lowerC o n).2.2).2.1) s1)
        fun kv s2 => liftH (getProp w v kv) s2)
      (fun v h1 => bindR (evalS w k h1) fun kv h2 => getProp w v kv h2)
      (iho n hs.1) (fun s => rfl) (fun h => by simp only [evalC]; rfl)
      (fun v s1 => sim_bind _ _ _ _ (hK s1).1 (hK s1).2 (fun kv s2 => ⟨rfl, rfl⟩))
  | nullish a b iha ihb =>
    intro n hs
    simp only [Safe] at hs
    exact good_of_sim w _ _ _ (fun h => rfl)
      (sim_nullish w _ _ _ _ (fin_ok w a _ _ (iha n hs.1)) (fin_ok w b _ _ (ihb _ hs.2)) _)
  | tcat p sb tail ihp ihs =>
    intro n hs
    simp only [Safe] at hs
    exact good_of_sim w _ _ _ (fun h => rfl)
      (sim_tcat w _ _ _ _ (fin_ok w p _ _ (ihp n hs.1)) (fin_ok w sb _ _ (ihs _ hs.2)) tail)
  | asgVar x op r ih =>
    intro n hs
    simp only [Safe] at hs
    refine good_of_sim w _ _ _ (evalC_asgVar w x op r) ?_
    exact opCallback_sim w op _ _ _ 0 0 _ (refpair_var w x) (fun _ h => h.elim) _ _ (fin_ok w r _ _ (ih n hs)) _
      (Nat.zero_le _)
  | asgDot o p op r iho ihr =>
    intro n hs
    simp only [Safe] at hs
    obtain ⟨hso, hsr, hid⟩ := hs
    refine good_of_sim w _ _ _ (evalC_asgDot w o p op r) ?_
    have hO := fin_ok w o _ _ (iho n hso)
    have hR := fin_ok w r _ _ (ihr (lowerC o n).2.2 hsr)
    exact opCallback_sim w op _ _ _ _ _ _ (refpair_dot w _ _ hO _ p)
      (fun x hx => hid x (lowerE_id o n x hx)) _ _ hR _ (Nat.le_refl _)
  | asgIdx o k op r iho ihk ihr =>
    intro n hs
    simp only [Safe] at hs
    obtain ⟨hso, hsk, hsr, hid, hkid⟩ := hs
    refine good_of_sim w _ _ _ (evalC_asgIdx w o k op r) ?_
    have hO := fin_ok w o _ _ (iho n hso)
    have hK := fin_ok w k _ _ (ihk (lowerC o n).2.2 hsk)
    have hR := fin_ok w r _ _ (ihr (lowerC k (lowerC o n).2.2).2.2 hsr)
    have bk := lowerC_bound k (lowerC o n).2.2
    have br := lowerC_bound r (lowerC k (lowerC o n).2.2).2.2
    have hbK : bound (fin (lowerC k (lowerC o n).2.2).1 (lowerC k (lowerC o n).2.2).2.1) ≤
        (lowerC r (lowerC k (lowerC o n).2.2).2.2).2.2 :=
      Nat.le_trans (bound_fin_le _ _ _ bk.2.1 bk.2.2) br.1
    refine opCallback_sim w op _ _ _ _ _ _ (refpair_idx w _ _ _ _ hO hK _ hbK ?_) ?_ _ _ hR _ (Nat.le_refl _)
    · intro x hx h
      have := hid x (lowerE_id o n x hx)
      exact evalC_keeps w x this.1 k this.2 h
    · intro x hx
      cases hx with
      | inl hx => exact (hid x (lowerE_id o n x hx)).1
      | inr hx => exact hkid x (lowerE_id k _ x hx)

/-- Everything at once.  For every expression of the fragment, every world and every initial state (trace,
user variables, temporaries), under `Safe`: the lowered expression yields the same value or the same exception,
the same trace (the same calls, property reads and writes, toString/valueOf conversions with the same arguments
in the same order, so every operand is evaluated the same number of times) and the same final values of all
user variables.  Temporaries are excluded by construction: they are the separate component `tm` of the state of
the emitted language, which the source semantics does not have and the world cannot see. -/
theorem lowering2_preserves_behaviour (w : World) (e : S) (h : H) (tm : Nat → Val) (hs : Safe w e) :
    (evalT w (lower e) ⟨h, tm⟩).1 = (evalS w e h).1 ∧
    (evalT w (lower e) ⟨h, tm⟩).2.h.tr = (evalS w e h).2.tr ∧
    (evalT w (lower e) ⟨h, tm⟩).2.h.env = (evalS w e h).2.env := by
  have := fin_ok w e _ _ (lowerC_good w e 0 hs) ⟨h, tm⟩
  simp only [lower]
  exact ⟨this.1, by rw [this.2], by rw [this.2]⟩

/-- no assignment at all -/
def S.noAsg : S → Bool
  | .id _ => true
  | .lit _ => true
  | .tstr _ => true
  | .call _ a => a.noAsg
  | .dot o _ => o.noAsg
  | .optDot o _ => o.noAsg
  | .paren a => a.noAsg
  | .idx o k => o.noAsg && k.noAsg
  | .nullish a b => a.noAsg && b.noAsg
  | .tcat p s _ => p.noAsg && s.noAsg
  | .asgVar _ _ _ => false
  | .asgDot _ _ _ _ => false
  | .asgIdx _ _ _ _ => false

theorem safe_of_noAsg (w : World) : ∀ e : S, e.noAsg = true → Safe w e ∧ e.noPow = true := by
  intro e
  induction e with
  | id x => intro _; simp [Safe, S.noPow]
  | lit v => intro _; simp [Safe, S.noPow]
  | tstr s => intro _; simp [Safe, S.noPow]
  | call f a ih => intro h; simpa [Safe, S.noPow] using ih (by simpa [S.noAsg] using h)
  | dot o p ih => intro h; simpa [Safe, S.noPow] using ih (by simpa [S.noAsg] using h)
  | optDot o p ih => intro h; simpa [Safe, S.noPow] using ih (by simpa [S.noAsg] using h)
  | paren a ih => intro h; simpa [Safe, S.noPow] using ih (by simpa [S.noAsg] using h)
  | idx o k iho ihk =>
    intro h
    simp only [S.noAsg, Bool.and_eq_true] at h
    simp only [Safe, S.noPow, Bool.and_eq_true]
    exact ⟨⟨(iho h.1).1, (ihk h.2).1⟩, (iho h.1).2, (ihk h.2).2⟩
  | nullish a b iha ihb =>
    intro h
    simp only [S.noAsg, Bool.and_eq_true] at h
    simp only [Safe, S.noPow, Bool.and_eq_true]
    exact ⟨⟨(iha h.1).1, (ihb h.2).1⟩, (iha h.1).2, (ihb h.2).2⟩
  | tcat p s t ihp ihs =>
    intro h
    simp only [S.noAsg, Bool.and_eq_true] at h
    simp only [Safe, S.noPow, Bool.and_eq_true]
    exact ⟨⟨(ihp h.1).1, (ihs h.2).1⟩, (ihp h.1).2, (ihs h.2).2⟩
  | asgVar x op r _ => intro h; simp [S.noAsg] at h
  | asgDot o p op r _ _ => intro h; simp [S.noAsg] at h
  | asgIdx o k op r _ _ _ => intro h; simp [S.noAsg] at h

theorem evalS_nm (w : World) (x : Exc) (hx : x.marker = true) (e : S) (hw : e.wf = true)
    (hp : x = .bigint → e.noPow = true) (h : H) : (evalS w e h).1 ≠ .err x := by
  simp only [evalS, topP_fst, ne_eq, top_err]
  exact evalC_nm w x hx e hw hp h

/-- C05, logical assignment: for every parsed expression without `**=` (it may contain `||=`, `&&=`, `??=` on
identifiers, `o.p`, `o[k]`, templates, optional chains, `??`, calls, nested anyhow), every world satisfying
`Safe`, and every state: same result, same trace, same user variables; and the evaluation stays inside the model
(neither marker is reported), so this is a statement about what the two programs really do. -/
theorem logical_assign_lowering_preserves_behaviour (w : World) (e : S) (h : H) (tm : Nat → Val)
    (hwf : e.wf = true) (hnp : e.noPow = true) (hs : Safe w e) :
    (evalT w (lower e) ⟨h, tm⟩).1 = (evalS w e h).1 ∧
    (evalT w (lower e) ⟨h, tm⟩).2.h.tr = (evalS w e h).2.tr ∧
    (evalT w (lower e) ⟨h, tm⟩).2.h.env = (evalS w e h).2.env ∧
    (∀ x, (evalS w e h).1 = .err x → x.marker = false) := by
  obtain ⟨h1, h2, h3⟩ := lowering2_preserves_behaviour w e h tm hs
  refine ⟨h1, h2, h3, fun x hx => ?_⟩
  cases hm : x.marker with
  | false => rfl
  | true => exact absurd hx (evalS_nm w x hm e hwf (fun _ => hnp) h)

/-- C05, exponentiation assignment: as above for expressions that may also contain `**=`, for evaluations in
which no operand of `**` is a BigInt (the source evaluation does not report `Exc.bigint`; with a BigInt the
lowered code calls Math.pow and throws: recorded finding c05-bigint-pow, see `bigint_pow_differs`). -/
theorem exponent_assign_lowering_preserves_behaviour (w : World) (e : S) (h : H) (tm : Nat → Val)
    (hwf : e.wf = true) (hs : Safe w e) (hbig : (evalS w e h).1 ≠ .err .bigint) :
    (evalT w (lower e) ⟨h, tm⟩).1 = (evalS w e h).1 ∧
    (evalT w (lower e) ⟨h, tm⟩).2.h.tr = (evalS w e h).2.tr ∧
    (evalT w (lower e) ⟨h, tm⟩).2.h.env = (evalS w e h).2.env ∧
    (∀ x, (evalS w e h).1 = .err x → x.marker = false) := by
  obtain ⟨h1, h2, h3⟩ := lowering2_preserves_behaviour w e h tm hs
  refine ⟨h1, h2, h3, fun x hx => ?_⟩
  cases hm : x.marker with
  | false => rfl
  | true =>
    cases x with
    | bigint => exact absurd hx hbig
    | illFormed => exact absurd hx (evalS_nm w .illFormed rfl e hwf (fun hb => by cases hb) h)
    | typeError => simp [Exc.marker] at hm
    | host v => simp [Exc.marker] at hm

/-- C05, template literals: for every parsed expression without assignments (templates with any number of
substitutions, nested, inside calls, property reads, optional chains and `??`), EVERY world and every state:
same result, same trace (each substitution is evaluated and converted with ToString exactly once, in order,
interleaved as in the source), same user variables; no hypothesis. -/
theorem template_lowering_preserves_behaviour (w : World) (e : S) (h : H) (tm : Nat → Val)
    (hwf : e.wf = true) (hna : e.noAsg = true) :
    (evalT w (lower e) ⟨h, tm⟩).1 = (evalS w e h).1 ∧
    (evalT w (lower e) ⟨h, tm⟩).2.h.tr = (evalS w e h).2.tr ∧
    (evalT w (lower e) ⟨h, tm⟩).2.h.env = (evalS w e h).2.env ∧
    (∀ x, (evalS w e h).1 = .err x → x.marker = false) :=
  logical_assign_lowering_preserves_behaviour w e h tm hwf (safe_of_noAsg w e hna).2 (safe_of_noAsg w e hna).1

/-- where the model stops is exactly where `**` and Math.pow stop agreeing: as long as `powOp` does not report
a BigInt it is both the real `**` and the real Math.pow -/
theorem powOp_faithful (w : World) (bigPow : Int → Int → Int) (l r : Val) (h : H)
    (hb : (powOp w l r h).1 ≠ .err .bigint) :
    powOp w l r h = expoFull w bigPow l r h ∧ powOp w l r h = mathPowFull w l r h := by
  unfold powOp at hb
  unfold powOp expoFull mathPowFull
  rcases hl : toNumeric w l h with ⟨a, h1⟩
  rw [hl] at hb
  cases a with
  | err x => simp
  | val ln =>
    simp only [bindR_val] at hb ⊢
    cases hla : ln.asNum with
    | none => rw [hla] at hb; simp at hb
    | some a =>
      rw [hla] at hb
      simp only at hb ⊢
      rcases hr : toNumeric w r h1 with ⟨b, h2⟩
      rw [hr] at hb
      cases b with
      | err x => simp
      | val rn =>
        simp only [bindR_val] at hb ⊢
        cases hrb : rn.asNum with
        | none => rw [hrb] at hb; simp at hb
        | some b => simp

-- ---------------------------------------------------------------- non-vacuity and the two excluded situations

/-- a world that never reassigns a variable: functions return objects, objects other than obj 1 have numeric
properties whose value depends on how much has happened before, toString of an object gives "k", valueOf gives 2, setters accept everything -/
def exW : World :=
  { host := fun ev tr env =>
      match ev with
      | .call f _ => (.ret (.obj (7 + f)), env)
      | .get (.obj i) _ => (if i = 1 then .ret .undef else .ret (.num (Int.ofNat (i + tr.length))), env)
      | .get _ _ => (.ret .undef, env)
      | .set _ _ _ => (.ret .undef, env)
      | .toPrimS _ => (.ret (.str "k"), env)
      | .toPrimN _ => (.ret (.num 2), env),
    primNum := fun _ => some 0,
    numPow := fun a b => match a, b with | some a, some b => some (a * b) | _, _ => none }

theorem exW_keeps (x : Nat) : Keeps exW x := by
  intro ev tr env
  cases ev <;> simp only [exW]
  · rename_i o k; cases o <;> rfl

def exH : H := ⟨[], fun x => if x = 0 then .null else .obj x⟩

/-- `v1[v2] ??= f0(v3)`: object and key are identifiers (written twice by esbuild), the key is an object whose
toString runs twice, the getter answers undefined, so f0 is called and the setter runs -/
def exNul : S := .asgIdx (.id 1) (.id 2) .nul (.call 0 (.id 3))
example : Safe exW exNul ∧ exNul.wf = true ∧ exNul.noPow = true :=
  ⟨⟨trivial, trivial, trivial, fun x _ => ⟨exW_keeps x, rfl⟩, fun y _ => exW_keeps y⟩, rfl, rfl⟩
example : (evalS exW exNul exH).1 = .val (.obj 7) ∧
    (evalS exW exNul exH).2.tr = [.toPrimS (.obj 2), .get (.obj 1) (.str "k"), .call 0 (.obj 3),
      .toPrimS (.obj 2), .set (.obj 1) (.str "k") (.obj 7)] := by decide
example : (evalT exW (lower exNul) ⟨exH, fun _ => .undef⟩).2.h.tr = (evalS exW exNul exH).2.tr := by decide

/-- `f1(v1).p2 **= f0(v3)` with an object as right operand (a valueOf event): temporaries in use, no BigInt -/
def exPow : S := .asgDot (.call 1 (.id 1)) 2 .pow (.call 0 (.id 3))
example : Safe exW exPow ∧ exPow.wf = true ∧ (evalS exW exPow exH).1 ≠ .err .bigint :=
  ⟨⟨trivial, trivial, fun x hx => by simp [S.asId] at hx⟩, rfl, by decide⟩
example : (evalS exW exPow exH).1 = .val (.num 18) ∧
    (evalS exW exPow exH).2.tr = [.call 1 (.obj 1), .get (.obj 8) (pkey 2), .call 0 (.obj 3), .toPrimN (.obj 7),
      .set (.obj 8) (pkey 2) (.num 18)] := by decide

/-- `a${v1}${v0?.p1 ?? "z"}b`: an object substitution (toString event) and a chain inside a template -/
def exTpl : S := .tcat (.tcat (.tstr "a") (.id 1) "") (.nullish (.optDot (.id 0) 1) (.lit (.str "z"))) "b"
example : exTpl.wf = true ∧ exTpl.noAsg = true := ⟨rfl, rfl⟩
example : (evalS exW exTpl exH).1 = .val (.str "akzb") ∧ (evalS exW exTpl exH).2.tr = [.toPrimS (.obj 1)] := by decide

/-- a world in which the function f0 reassigns the user variable v1 (as `function kk() { o = o2; return 'p' }`
does) -/
def badW : World :=
  { exW with host := fun ev tr env =>
      match ev with
      | .call 0 _ => (.ret (.str "p"), upd env 1 (.obj 9))
      | ev => exW.host ev tr env }

/-- `v1[f0()] ||= 5` is NOT preserved in that world: the source writes property p of the object v1 held when the
target was evaluated (obj 1), the lowered code `v1[_a = f0()] || (v1[_a] = 5)` reads v1 again and writes to obj 9.
`Safe` excludes this (it demands `Keeps badW 1`); run on the real esbuild + Node: see the report. -/
def exHazard : S := .asgIdx (.id 1) (.call 0 (.lit .undef)) .or (.lit (.num 5))
theorem reassigned_base_example_differs :
    (evalS badW exHazard exH).2.tr = [.call 0 .undef, .get (.obj 1) (.str "p"), .set (.obj 1) (.str "p") (.num 5)] ∧
    (evalT badW (lower exHazard) ⟨exH, fun _ => .undef⟩).2.h.tr =
      [.call 0 .undef, .get (.obj 1) (.str "p"), .set (.obj 9) (.str "p") (.num 5)] := by decide

/-- the same through the key expression alone, in a world that never reassigns anything: `v3[v3 &&= v2] &&= 5`
(the key assigns the object variable: the source writes to obj 3, the lowered code to obj 2) -/
def exHazard2 : S := .asgIdx (.id 3) (.asgVar 3 .and (.id 2)) .and (.lit (.num 5))
theorem key_assigns_base_example_differs :
    (evalS exW exHazard2 exH).2.tr ≠ (evalT exW (lower exHazard2) ⟨exH, fun _ => .undef⟩).2.h.tr := by decide

/-- the known finding c05-bigint-pow inside the model: `2n ** 3n` is 8n, `Math.pow(2n, 3n)` throws -/
theorem bigint_pow_differs :
    (expoFull exW (fun a b => a ^ b.toNat) (.big 2) (.big 3) exH).1 = .val (.big 8) ∧
    (mathPowFull exW (.big 2) (.big 3) exH).1 = .err .typeError ∧
    (powOp exW (.big 2) (.big 3) exH).1 = .err .bigint := by decide

end EsbuildModel.Lower2
