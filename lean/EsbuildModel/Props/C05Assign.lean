import EsbuildModel.Impl.Lower2
import EsbuildModel.Lemmas.Lower2
/-!
C05 — syntax lowering preserves behaviour: logical assignment (`||=`, `&&=`, `??=`), exponentiation assignment
(`**=`) and untagged template literals, nested in each other and in the optional property chains and `??` of
Props/C05.lean.  Model: Impl/Lower2.lean (it contains the whole fragment of Impl/Lower.lean again, now with
mutable variables, property reads/writes, conversions and exceptions as events).  The lowering function of the
model is compared with the real parser's lowered AST by the kernel `lower2`; the two evaluators of the model are
compared with Node 20 (source text, and the text esbuild emits) by the kernel `lower2sem`.

Theorems (all for EVERY expression of the fragment, no bound on size or nesting, every world, every initial
trace / variables / temporaries):

* `lowering2_preserves_behaviour` (general): under `Safe w e`, the lowered expression gives the same value or the
  same exception, the same trace and the same final user variables.
* `logical_assign_lowering_preserves_behaviour`: the same for parsed expressions without `**=`, plus: the
  evaluation never leaves the model.
* `exponent_assign_lowering_preserves_behaviour`: the same for expressions with `**=` provided no operand of `**`
  is a BigInt (hypothesis `(evalS w e h).1 ≠ .err .bigint`; known finding c05-bigint-pow otherwise).
* `template_lowering_preserves_behaviour`: for expressions without assignments: no hypothesis about the world.

Same trace = the same calls, property reads, property writes and ToPrimitive conversions with the same arguments
in the same order; so every operand is evaluated the same number of times.  The final property state is what the
world makes of the `set` events, so it is covered by the trace.  Temporaries are excluded from "same state" by
construction: they live in `TState.tm`, which only the emitted language has.

The hypothesis `Safe` is FORCED by the code: esbuild writes an identifier that is the object or the key of an
assignment target twice instead of capturing it, and the second occurrence is read after the key expression, the
key's toString and the getter have run.  `reassigned_base_example_differs` / `key_assigns_base_example_differs`
show the difference inside the model; on the real esbuild + Node 20: `var o1={},o2={},o=o1; function kk(){o=o2;
return 'p'} o[kk()] ||= 1` sets o1.p natively and o2.p when lowered (also with `**=`, `&&=`, `??=`, and with a getter
for `o.p ||= 1`).

Assumptions of the model (not proved, checked by `lower2sem` against Node 20 where they are observable):
identifiers are declared variables; temporaries are fresh symbols nobody else reads or writes;
`String.prototype.concat` and `Math.pow` are the built-ins when the file starts; property keys are converted at
every read and at every write, as V8 does natively and for the lowered form alike (the ES2023 text converts the
key once, when the reference is evaluated; under that reading the lowered form would convert once more than the
source); numbers are integers or NaN
(fractions, infinities and -0 are not distinguished; arithmetic is a parameter of the world); no symbols are
produced by literals (the world may produce them).  Compound assignments other than the four and destructuring
targets are not in the fragment.  Optional calls, method calls through chains, parenthesised chains, tagged
templates, `delete` and `o?.[k]` are in the fragment since the work package taggedlower: `lowerC_good` and the
theorems below cover them; the theorems named after them are in Props/C05Calls.lean.
-/
namespace EsbuildModel.Lower2

def Rel (r : Res × TState) (c : CRes × H) : Prop := r.1 = c.1.top ∧ r.2.h = c.2

/-- what `lowerC` guarantees about its three results -/
def Good (w : World) (e : S) (acc : T) (pend : Option T) : Prop :=
  match pend with
  | none => ∀ s : TState, Rel (evalT w acc s) (evalC w e s.h) ∧ (evalC w e s.h).1 ≠ .short
  | some t => ∀ s : TState,
      (∀ x, (evalT w t s).1 = .err x → evalC w e s.h = (.err x, (evalT w t s).2.h)) ∧
      (∀ v, (evalT w t s).1 = .val v → v.nullish = true → evalC w e s.h = (.short, (evalT w t s).2.h)) ∧
      (∀ v, (evalT w t s).1 = .val v → v.nullish = false →
        Rel (evalT w acc (evalT w t s).2) (evalC w e s.h) ∧ (evalC w e s.h).1 ≠ .short)

/-- closing the pending test gives an expression that behaves like the source in an ordinary context -/
theorem fin_ok (w : World) (e : S) (acc : T) (pend : Option T) (h : Good w e acc pend) :
    Sim w (fin acc pend) (evalS w e) := by
  intro s
  cases pend with
  | none => exact (h s).1
  | some t =>
    have hs := h s
    simp only [fin, evalT, evalS]
    rcases ht : evalT w t s with ⟨r, s1⟩
    rw [ht] at hs
    cases r with
    | err x =>
      have := hs.1 x rfl
      simp [this, CRes.top]
    | val v =>
      cases hv : v.nullish with
      | true =>
        have := hs.2.1 v rfl hv
        simp [this, hv, CRes.top]
      | false =>
        have := hs.2.2 v rfl hv
        simp only [bindR_val, hv]
        exact this.1

theorem good_of_sim (w : World) (e : S) (acc : T) (f : H → Res × H)
    (hf : ∀ h, evalC w e h = toCP (f h)) (hs : Sim w acc f) : Good w e acc none := by
  intro s
  rw [hf]
  refine ⟨⟨?_, ?_⟩, toC_ne_short _⟩
  · simpa using (hs s).1
  · simpa using (hs s).2

theorem sim_bind (r : Res × TState) (q : Res × H) (G : Val → TState → Res × TState) (g : Val → H → Res × H)
    (h1 : r.1 = q.1) (h2 : r.2.h = q.2)
    (hG : ∀ v s1, (G v s1).1 = (g v s1.h).1 ∧ (G v s1).2.h = (g v s1.h).2) :
    (bindR r G).1 = (bindR q g).1 ∧ (bindR r G).2.h = (bindR q g).2 := by
  obtain ⟨a, s⟩ := r
  obtain ⟨b, h⟩ := q
  simp only at h1 h2
  subst h1; subst h2
  cases a with
  | err x => simp
  | val v => simpa using hG v s

/-- one more property link `.p` / `[k]` on a chain -/
theorem good_link (w : World) (o e' : S) (acc acc' : T) (pend : Option T)
    (L : Val → TState → Res × TState) (l : Val → H → Res × H)
    (hg : Good w o acc pend)
    (hT : ∀ s, evalT w acc' s = bindR (evalT w acc s) L)
    (hC : ∀ h, evalC w e' h = match evalC w o h with
      | (.err x, h1) => (.err x, h1)
      | (.short, h1) => (.short, h1)
      | (.val v, h1) => toCP (l v h1))
    (hL : ∀ v s1, (L v s1).1 = (l v s1.h).1 ∧ (L v s1).2.h = (l v s1.h).2) :
    Good w e' acc' pend := by
  have core : ∀ (s0 : TState) (h0 : H), Rel (evalT w acc s0) (evalC w o h0) → (evalC w o h0).1 ≠ .short →
      Rel (evalT w acc' s0) (evalC w e' h0) ∧ (evalC w e' h0).1 ≠ .short := by
    intro s0 h0 hrel hns
    rw [hT, hC]
    rcases ho : evalC w o h0 with ⟨cr, h1⟩
    rw [ho] at hrel hns
    rcases hto : evalT w acc s0 with ⟨r, s1⟩
    rw [hto] at hrel
    obtain ⟨r1, r2⟩ := hrel
    simp only at r1 r2 hns
    cases cr with
    | short => exact absurd rfl hns
    | err x =>
      simp only [CRes.top] at r1
      subst r1
      simp [Rel, CRes.top, r2]
    | val v =>
      simp only [CRes.top] at r1
      subst r1
      simp only [bindR_val]
      refine ⟨⟨?_, ?_⟩, toC_ne_short _⟩
      · simpa [r2] using (hL v s1).1
      · simpa [r2] using (hL v s1).2
  cases pend with
  | none =>
    intro s
    exact core s s.h (hg s).1 (hg s).2
  | some t =>
    intro s
    have := hg s
    refine ⟨?_, ?_, ?_⟩
    · intro x herr
      rw [hC, this.1 x herr]
    · intro v hv hn
      rw [hC, this.2.1 v hv hn]
    · intro v hv hn
      exact core _ _ (this.2.2 v hv hn).1 (this.2.2 v hv hn).2

theorem good_optDot (w : World) (o : S) (p : Nat) (acc : T) (pend : Option T) (n : Nat) (hg : Good w o acc pend) :
    Good w (.optDot o p) (.dot (capture (fin acc pend) n).2.1 p) (some (capture (fin acc pend) n).1) := by
  intro s
  have hf := fin_ok w o acc pend hg s
  obtain ⟨hc1, hc2, hc3⟩ := capture_spec w (fin acc pend) n s
  simp only [evalS, topP_fst, topP_snd] at hf
  obtain ⟨hf1, hf2⟩ := hf
  rw [hf1] at hc1; rw [hf2] at hc2
  rcases ho : evalC w o s.h with ⟨cr, h1⟩
  rw [ho] at hc1 hc2 hf1
  simp only at hc1 hc2 hf1
  refine ⟨?_, ?_, ?_⟩
  · intro x herr
    rw [hc1] at herr
    cases cr <;> simp only [CRes.top, reduceCtorEq, Res.err.injEq] at herr
    subst herr
    simp [evalC, ho, hc2]
  · intro v hv hn
    rw [hc1] at hv
    cases cr with
    | err x => simp [CRes.top] at hv
    | short => simp [evalC, ho, hc2]
    | val u =>
      simp only [CRes.top, Res.val.injEq] at hv
      subst hv
      simp [evalC, ho, hn, hc2]
  · intro v hv hn
    rw [hc1] at hv
    have hread := hc3 v (by rw [hf1]; exact hv) _ ⟨fun _ _ _ => rfl, fun _ _ => rfl⟩
    cases cr with
    | err x => simp [CRes.top] at hv
    | short =>
      simp only [CRes.top, Res.val.injEq] at hv
      subst hv
      simp [Val.nullish] at hn
    | val u =>
      simp only [CRes.top, Res.val.injEq] at hv
      subst hv
      simp only [evalT, hread, bindR_val, evalC, ho, hn]
      refine ⟨⟨?_, ?_⟩, toC_ne_short _⟩
      · simp [hc2]
      · simp [hc2]

theorem sim_call (w : World) (f : Nat) (A : T) (fa : H → Res × H) (hA : Sim w A fa) :
    Sim w (.call f A) (fun h => bindR (fa h) fun v h1 => doEv w (.call f v) h1) := by
  intro s
  simp only [evalT]
  exact sim_bind _ _ _ _ (hA s).1 (hA s).2 (fun v s1 => ⟨rfl, rfl⟩)

theorem sim_nullish (w : World) (A B : T) (fa fb : H → Res × H) (hA : Sim w A fa) (hB : Sim w B fb) (m : Nat) :
    Sim w (.ifNeNull (capture A m).1 (capture A m).2.1 B)
      (fun h => bindR (fa h) fun v h1 => if v.nullish then fb h1 else (.val v, h1)) := by
  intro s
  obtain ⟨c1, c2, c3⟩ := capture_spec w A m s
  rw [(hA s).1] at c1 c3; rw [(hA s).2] at c2
  simp only [evalT]
  rcases hfa : fa s.h with ⟨a, h1⟩
  rw [hfa] at c1 c2 c3
  rcases hc : evalT w (capture A m).1 s with ⟨rc, sc⟩
  rw [hc] at c1 c2 c3
  simp only at c1 c2 c3
  subst c1
  cases rc with
  | err x => simp [c2]
  | val v =>
    simp only [bindR_val]
    split
    · have := hB sc
      rw [c2] at this
      exact this
    · rw [c3 v rfl sc ⟨fun _ _ _ => rfl, fun _ _ => rfl⟩]
      exact ⟨rfl, c2⟩

theorem sim_tcat (w : World) (P Sb : T) (fp fs : H → Res × H) (hP : Sim w P fp) (hS : Sim w Sb fs) (tail : String) :
    Sim w (.concat P Sb (if tail.isEmpty then none else some tail))
      (fun h => bindR (fp h) fun pv h1 =>
        match pv with
        | .str s =>
          bindR (fs h1) fun v h2 =>
            bindR (toStr w v h2) fun t h3 =>
              match t with
              | .str ts => (.val (.str (s ++ ts ++ tail)), h3)
              | _ => (.err .illFormed, h3)
        | _ => (.err .illFormed, h1)) := by
  intro s
  simp only [evalT]
  refine sim_bind _ _ _ _ (hP s).1 (hP s).2 (fun pv s1 => ?_)
  cases pv with
  | str bs =>
    simp only
    refine sim_bind _ _ _ _ (hS s1).1 (hS s1).2 (fun v s2 => ?_)
    refine sim_bind _ _ _ _ rfl rfl (fun t s3 => ?_)
    cases t with
    | str ts =>
      by_cases he : tail.isEmpty
      · have : tail = "" := by simpa [String.isEmpty_iff] using he
        subst this
        simp
      · simp [he]
    | _ => split <;> simp_all
  | _ => simp

-- ---------------------------------------------------------------- calls, tagged templates, delete

/-- `Good` with an arbitrary source-side function instead of `evalC w e` -/
def GoodF (w : World) (f : H → CRes × H) (acc : T) (pend : Option T) : Prop :=
  match pend with
  | none => ∀ s : TState, Rel (evalT w acc s) (f s.h) ∧ (f s.h).1 ≠ .short
  | some t => ∀ s : TState,
      (∀ x, (evalT w t s).1 = .err x → f s.h = (.err x, (evalT w t s).2.h)) ∧
      (∀ v, (evalT w t s).1 = .val v → v.nullish = true → f s.h = (.short, (evalT w t s).2.h)) ∧
      (∀ v, (evalT w t s).1 = .val v → v.nullish = false →
        Rel (evalT w acc (evalT w t s).2) (f s.h) ∧ (f s.h).1 ≠ .short)

theorem good_iff (w : World) (e : S) (acc : T) (pend : Option T) : Good w e acc pend ↔ GoodF w (evalC w e) acc pend := by
  cases pend <;> exact Iff.rfl

theorem goodF_congr (w : World) (f g : H → CRes × H) (acc : T) (pend : Option T) (h : ∀ x, f x = g x)
    (hg : GoodF w g acc pend) : GoodF w f acc pend := by
  have : f = g := funext h
  rw [this]; exact hg

/-- closing a pending test with an arbitrary value for "cut short" -/
def finG (d : Val) (acc : T) : Option T → T
  | none => acc
  | some t => .ifEqNull t (.lit d) acc

theorem fin_eq_finG (acc : T) (pend : Option T) : fin acc pend = finG .undef acc pend := by cases pend <;> rfl
theorem finD_eq_finG (acc : T) (pend : Option T) : finD acc pend = finG (.bool true) acc pend := by cases pend <;> rfl

/-- What a chain that has been lowered so far does when it is closed around ANY continuation `acc'`: either the
pending test stops the evaluation (the source chain failed or was cut short there), or the continuation runs in a
state `s0` in which `acc` evaluates to what the source chain evaluates to. -/
theorem good_cont (w : World) (f : H → CRes × H) (acc : T) (pend : Option T) (hg : GoodF w f acc pend) (s : TState) :
    (∃ s0, (∀ d acc', evalT w (finG d acc' pend) s = evalT w acc' s0) ∧ Rel (evalT w acc s0) (f s.h) ∧ (f s.h).1 ≠ .short) ∨
    (∃ s0, s0.h = (f s.h).2 ∧
      (((f s.h).1 = .short ∧ ∀ d acc', evalT w (finG d acc' pend) s = (.val d, s0)) ∨
       (∃ x, (f s.h).1 = .err x ∧ ∀ d acc', evalT w (finG d acc' pend) s = (.err x, s0)))) := by
  cases pend with
  | none => exact Or.inl ⟨s, fun _ _ => rfl, (hg s).1, (hg s).2⟩
  | some t =>
    have hs := hg s
    rcases ht : evalT w t s with ⟨r, s1⟩
    rw [ht] at hs
    cases r with
    | err x =>
      have := hs.1 x rfl
      refine Or.inr ⟨s1, by rw [this], Or.inr ⟨x, by rw [this], fun d acc' => ?_⟩⟩
      simp [finG, evalT, ht]
    | val v =>
      cases hv : v.nullish with
      | true =>
        have := hs.2.1 v rfl hv
        refine Or.inr ⟨s1, by rw [this], Or.inl ⟨by rw [this], fun d acc' => ?_⟩⟩
        simp [finG, evalT, ht, hv]
      | false =>
        have := hs.2.2 v rfl hv
        refine Or.inl ⟨s1, fun d acc' => ?_, this.1, this.2⟩
        simp [finG, evalT, ht, hv]

/-- a chain closed around a continuation that first evaluates `acc` and then does `L` -/
theorem sim_cont (w : World) (f : H → CRes × H) (acc : T) (pend : Option T) (hg : GoodF w f acc pend)
    (d : Val) (acc' : T) (L : Val → TState → Res × TState) (l : Val → H → Res × H)
    (hT : ∀ s, evalT w acc' s = bindR (evalT w acc s) L)
    (hL : ∀ v s1, (L v s1).1 = (l v s1.h).1 ∧ (L v s1).2.h = (l v s1.h).2) :
    Sim w (finG d acc' pend) (fun h => match f h with
      | (.err x, h1) => (.err x, h1)
      | (.short, h1) => (.val d, h1)
      | (.val v, h1) => l v h1) := by
  intro s
  dsimp only
  rcases good_cont w f acc pend hg s with ⟨s0, hgo, hrel, hns⟩ | ⟨s0, hh, hstop⟩
  · rw [hgo d acc', hT]
    rcases hf : f s.h with ⟨cr, h1⟩
    rcases hto : evalT w acc s0 with ⟨r, s1⟩
    rw [hf, hto] at hrel
    rw [hf] at hns
    obtain ⟨r1, r2⟩ := hrel
    simp only at r1 r2 hns
    cases cr with
    | short => exact absurd rfl hns
    | err x =>
      simp only [CRes.top] at r1
      subst r1
      simp [r2]
    | val v =>
      simp only [CRes.top] at r1
      subst r1
      simp only [bindR_val]
      rw [← r2]
      exact hL v s1
  · rcases hf : f s.h with ⟨cr, h1⟩
    rw [hf] at hh hstop
    simp only at hh hstop
    rcases hstop with ⟨hsh, hev⟩ | ⟨x, hx, hev⟩
    · subst hsh
      rw [hev d acc']
      exact ⟨rfl, hh⟩
    · subst hx
      rw [hev d acc']
      exact ⟨rfl, hh⟩

/-- one more OPTIONAL link on a chain: the chain so far is closed and captured, the captured value is tested,
the link `mk` continues from the captured value -/
theorem good_optLink (w : World) (o : S) (acc : T) (pend : Option T) (n : Nat) (mk : T → T)
    (L : Val → TState → Res × TState) (l : Val → H → Res × H) (hg : Good w o acc pend)
    (hT : ∀ base s, evalT w (mk base) s = bindR (evalT w base s) L)
    (hL : ∀ v s1, (L v s1).1 = (l v s1.h).1 ∧ (L v s1).2.h = (l v s1.h).2) :
    GoodF w (fun h => match evalC w o h with
        | (.err x, h1) => (.err x, h1)
        | (.short, h1) => (.short, h1)
        | (.val v, h1) => if v.nullish then (.short, h1) else toCP (l v h1))
      (mk (capture (fin acc pend) n).2.1) (some (capture (fin acc pend) n).1) := by
  intro s
  dsimp only
  have hf := fin_ok w o acc pend hg s
  obtain ⟨hc1, hc2, hc3⟩ := capture_spec w (fin acc pend) n s
  simp only [evalS, topP_fst, topP_snd] at hf
  obtain ⟨hf1, hf2⟩ := hf
  rw [hf1] at hc1; rw [hf2] at hc2
  rcases ho : evalC w o s.h with ⟨cr, h1⟩
  rw [ho] at hc1 hc2 hf1
  simp only at hc1 hc2 hf1
  refine ⟨?_, ?_, ?_⟩
  · intro x herr
    rw [hc1] at herr
    cases cr <;> simp only [CRes.top, reduceCtorEq, Res.err.injEq] at herr
    subst herr
    simp [hc2]
  · intro v hv hn
    rw [hc1] at hv
    cases cr with
    | err x => simp [CRes.top] at hv
    | short => simp [hc2]
    | val u =>
      simp only [CRes.top, Res.val.injEq] at hv
      subst hv
      simp [hn, hc2]
  · intro v hv hn
    rw [hc1] at hv
    have hread := hc3 v (by rw [hf1]; exact hv) _ ⟨fun _ _ _ => rfl, fun _ _ => rfl⟩
    cases cr with
    | err x => simp [CRes.top] at hv
    | short =>
      simp only [CRes.top, Res.val.injEq] at hv
      subst hv
      simp [Val.nullish] at hn
    | val u =>
      simp only [CRes.top, Res.val.injEq] at hv
      subst hv
      simp only [hT, hread, bindR_val, hn]
      have hl := hL u (evalT w (capture (fin acc pend) n).1 s).2
      rw [hc2] at hl
      refine ⟨⟨?_, ?_⟩, toC_ne_short _⟩
      · simpa using hl.1
      · simpa using hl.2

/-- one step of an argument list -/
theorem sim_step (w : World) (A : T) (fa : H → Res × H) (hA : Sim w A fa) (s : TState) :
    (∃ x s1, evalT w A s = (.err x, s1) ∧ fa s.h = (.err x, s1.h)) ∨
    (∃ v s1, evalT w A s = (.val v, s1) ∧ fa s.h = (.val v, s1.h)) := by
  obtain ⟨h1, h2⟩ := hA s
  rcases hta : evalT w A s with ⟨r, s1⟩
  rcases hfa : fa s.h with ⟨q, h'⟩
  rw [hta, hfa] at h1 h2
  simp only at h1 h2
  subst h1; subst h2
  cases r with
  | err x => exact Or.inl ⟨x, s1, rfl, rfl⟩
  | val v => exact Or.inr ⟨v, s1, rfl, rfl⟩

theorem sim_args3 (w : World) (n : Nat) (A B C : T) (fa fb fc : H → Res × H)
    (hA : Sim w A fa) (hB : Sim w B fb) (hC : Sim w C fc) (s : TState) :
    (args3 n (evalT w A) (evalT w B) (evalT w C) s).1 = (args3 n fa fb fc s.h).1 ∧
    (args3 n (evalT w A) (evalT w B) (evalT w C) s).2.h = (args3 n fa fb fc s.h).2 := by
  cases n with
  | zero => exact ⟨rfl, rfl⟩
  | succ n =>
    rcases sim_step w A fa hA s with ⟨x, s1, e1, e2⟩ | ⟨a, s1, e1, e2⟩
    · simp [args3, e1, e2]
    · cases n with
      | zero => simp [args3, e1, e2]
      | succ n =>
        rcases sim_step w B fb hB s1 with ⟨x, s2, f1, f2⟩ | ⟨b, s2, f1, f2⟩
        · simp [args3, e1, e2, f1, f2]
        · cases n with
          | zero => simp [args3, e1, e2, f1, f2]
          | succ n =>
            rcases sim_step w C fc hC s2 with ⟨x, s3, g1, g2⟩ | ⟨c, s3, g1, g2⟩
            · simp [args3, e1, e2, f1, f2, g1, g2]
            · simp [args3, e1, e2, f1, f2, g1, g2]

/-- `_t || (_t = __template([…]))` is GetTemplateObject: the array created for the site the first time is the one
passed every time -/
theorem sim_tplExpr (w : World) (t : TplSite) : Sim w (tplExpr t) (getTpl t.site) := by
  intro s
  simp only [tplExpr, evalT, getTpl]
  cases hc : s.h.tcell t.site with
  | some g => simp [Val.truthy]
  | none => simp [Val.truthy, liftH, mkTplObj, hc]

theorem sim_targs (w : World) (tpl : Option TplSite) (n : Nat) (A B : T) (fa fb : H → Res × H)
    (hA : Sim w A fa) (hB : Sim w B fb) (s : TState) :
    (args3 (targs tpl n A B).1 (evalT w (targs tpl n A B).2.1) (evalT w (targs tpl n A B).2.2.1)
        (evalT w (targs tpl n A B).2.2.2) s).1 = (argsS tpl n fa fb s.h).1 ∧
    (args3 (targs tpl n A B).1 (evalT w (targs tpl n A B).2.1) (evalT w (targs tpl n A B).2.2.1)
        (evalT w (targs tpl n A B).2.2.2) s).2.h = (argsS tpl n fa fb s.h).2 := by
  cases tpl with
  | none => exact sim_args3 w _ A B B fa fb fb hA hB hB s
  | some t => exact sim_args3 w _ (tplExpr t) A B (getTpl t.site) fa fb (sim_tplExpr w t) hA hB s

theorem sim_callWith (w : World) (fv tv : Val) (FA : TState → ARes × TState) (fa : H → ARes × H)
    (hA : ∀ s, (FA s).1 = (fa s.h).1 ∧ (FA s).2.h = (fa s.h).2) (s : TState) :
    (callWithT w fv tv FA s).1 = (callWith w fv tv fa s.h).1 ∧
    (callWithT w fv tv FA s).2.h = (callWith w fv tv fa s.h).2 := by
  obtain ⟨h1, h2⟩ := hA s
  unfold callWithT callWith
  rcases hF : FA s with ⟨r, s1⟩
  rcases hf : fa s.h with ⟨q, h'⟩
  rw [hF, hf] at h1 h2
  simp only at h1 h2
  subst h1; subst h2
  cases r with
  | err x => exact ⟨rfl, rfl⟩
  | vals vs => exact ⟨rfl, rfl⟩

/-- the emitted property read of a link, once the base is a value -/
def linkGetT (w : World) (lk : Link) (K : T) (ov : Val) (s1 : TState) : Res × TState :=
  match lk with
  | .dot p => liftH (getProp w ov (pkey p)) s1
  | .idx => bindR (evalT w K s1) fun kv s2 => liftH (getProp w ov kv) s2

def linkDelT (w : World) (lk : Link) (K : T) (ov : Val) (s1 : TState) : Res × TState :=
  match lk with
  | .dot p => liftH (delProp w ov (pkey p)) s1
  | .idx => bindR (evalT w K s1) fun kv s2 => liftH (delProp w ov kv) s2

theorem evalT_linkT (w : World) (lk : Link) (B K : T) (s : TState) :
    evalT w (linkT lk B K) s = bindR (evalT w B s) (linkGetT w lk K) := by cases lk <;> rfl

theorem evalT_delT (w : World) (lk : Link) (B K : T) (s : TState) :
    evalT w (delT lk B K) s = bindR (evalT w B s) (linkDelT w lk K) := by cases lk <;> rfl

theorem evalT_callM (w : World) (lk : Link) (B K : T) (g : Nat × T × T × T) (s : TState) :
    evalT w (callM lk B K g) s = bindR (evalT w B s) fun ov s1 => bindR (linkGetT w lk K ov s1) fun fv s2 =>
      callWithT w fv ov (args3 g.1 (evalT w g.2.1) (evalT w g.2.2.1) (evalT w g.2.2.2)) s2 := by
  cases lk with
  | dot p => rfl
  | idx =>
    simp only [callM, evalT, linkGetT]
    rcases evalT w B s with ⟨r, s1⟩
    cases r with
    | err x => rfl
    | val ov =>
      simp only [bindR_val]
      rcases evalT w K s1 with ⟨r2, s2⟩
      cases r2 <;> rfl

theorem sim_linkGet (w : World) (lk : Link) (K : T) (fk : H → Res × H) (hK : Sim w K fk) (ov : Val) (s1 : TState) :
    (linkGetT w lk K ov s1).1 = (linkGet w lk fk ov s1.h).1 ∧ (linkGetT w lk K ov s1).2.h = (linkGet w lk fk ov s1.h).2 := by
  cases lk with
  | dot p => exact ⟨rfl, rfl⟩
  | idx => exact sim_bind _ _ _ _ (hK s1).1 (hK s1).2 (fun kv s2 => ⟨rfl, rfl⟩)

theorem sim_linkDel (w : World) (lk : Link) (K : T) (fk : H → Res × H) (hK : Sim w K fk) (ov : Val) (s1 : TState) :
    (linkDelT w lk K ov s1).1 = (linkDel w lk fk ov s1.h).1 ∧ (linkDelT w lk K ov s1).2.h = (linkDel w lk fk ov s1.h).2 := by
  cases lk with
  | dot p => exact ⟨rfl, rfl⟩
  | idx => exact sim_bind _ _ _ _ (hK s1).1 (hK s1).2 (fun kv s2 => ⟨rfl, rfl⟩)

/-- a method call through a link, source side -/
def linkCall (w : World) (lk : Link) (fk : H → Res × H) (fargs : H → ARes × H) (ov : Val) (h1 : H) : Res × H :=
  bindR (linkGet w lk fk ov h1) fun fv h2 => callWith w fv ov fargs h2

theorem topP_evalC_eq (w : World) (e : S) : (fun h1 => topP (evalC w e h1)) = evalS w e := rfl

theorem bindR_pure {σ : Type} (r : Res × σ) : bindR r (fun v s => (.val v, s)) = r := by
  obtain ⟨a, s⟩ := r
  cases a <;> rfl

theorem linkGetT_tm (w : World) (lk : Link) (K : T) (ov : Val) (s1 : TState) (m : Nat) (hbK : bound K ≤ m) :
    (linkGetT w lk K ov s1).2.tm m = s1.tm m := by
  cases lk with
  | dot p => rfl
  | idx =>
    simp only [linkGetT]
    exact bindR_tm _ _ s1 m (evalT_tm w K s1 m hbK) (fun kv s2 h2 => by simpa using h2)

/-- the emitted member expression `r` whose base has been stored for a later `.call(this, …)` behaves like the
source member expression `mm`, and afterwards `thisT` reads the base object -/
def MemOk (w : World) (m : Nat) (thisT : T) (r : Res × TState) (mm : MRes × H) : Prop :=
  r.2.h = mm.2 ∧ (∀ x, mm.1 = .err x → r.1 = .err x) ∧ (mm.1 = .short → r.1 = .val .undef) ∧
  (∀ fv ov, mm.1 = .val fv ov → r.1 = .val fv ∧
    ∀ s2 : TState, (thisT = .tmp m → s2.tm m = r.2.tm m) → (∀ x, thisT = .id x → s2.h.env x = r.2.h.env x) →
      evalT w thisT s2 = (.val ov, s2))

theorem mem_tail (w : World) (lk : Link) (K : T) (fk : H → Res × H) (hK : Sim w K fk) (m : Nat) (hbK : bound K ≤ m)
    (ov : Val) (s1 : TState) (thisT : T)
    (hlater : ∀ s2 : TState, (thisT = .tmp m → s2.tm m = s1.tm m) → (∀ x, thisT = .id x → s2.h.env x = s1.h.env x) →
      evalT w thisT s2 = (.val ov, s2))
    (hid : ∀ x, thisT = .id x → Keeps w x ∧ ∀ h, (fk h).2.env x = h.env x)
    (optLink : Bool) (hnn : (optLink && ov.nullish) = false) :
    MemOk w m thisT (linkGetT w lk K ov s1) (memSem optLink (.val ov, s1.h) (linkGet w lk fk)) := by
  obtain ⟨g1, g2⟩ := sim_linkGet w lk K fk hK ov s1
  have htm := linkGetT_tm w lk K ov s1 m hbK
  have henv : ∀ x, thisT = .id x → (linkGetT w lk K ov s1).2.h.env x = s1.h.env x := by
    intro x hx
    rw [g2]
    exact linkGet_keeps (hid x hx).1 lk fk (hid x hx).2 ov s1.h
  simp only [memSem, hnn, Bool.false_eq_true, ↓reduceIte]
  rcases hr : linkGetT w lk K ov s1 with ⟨r, s2⟩
  rcases hq : linkGet w lk fk ov s1.h with ⟨q, h2⟩
  rw [hr] at g1 g2 htm henv
  rw [hq] at g1 g2
  simp only at g1 g2 htm henv
  subst g1; subst g2
  cases r with
  | err x => exact ⟨rfl, fun y hy => (by cases hy; rfl), fun hc => (by cases hc), fun fv ov' hc => (by cases hc)⟩
  | val fv =>
    refine ⟨rfl, fun y hy => (by cases hy), fun hc => (by cases hc), fun fv' ov' hc => ?_⟩
    cases hc
    refine ⟨rfl, fun s3 h3 e3 => hlater s3 (fun ht => (h3 ht).trans htm) (fun x hx => (e3 x hx).trans (henv x hx))⟩

theorem capture_id_later (full : T) (n x : Nat) (h : full = .id x) : (capture full n).2.1 = .id x := by
  subst h; rfl

theorem capture_later_id (full : T) (n x : Nat) (h : (capture full n).2.1 = .id x) : full = .id x := by
  cases full <;> simp [capture] at h ⊢
  exact h

/-- either nothing was allocated, or the later uses are the new temporary -/
theorem capture_alloc (full : T) (n : Nat) :
    (capture full n).2.2 = n ∨ ((capture full n).2.2 = n + 1 ∧ (capture full n).2.1 = .tmp n) := by
  cases full <;> simp [capture]

theorem capture_later_tmp (full : T) (n j : Nat) (h : (capture full n).2.1 = .tmp j) :
    j = n ∧ (capture full n).2.2 = n + 1 := by
  cases full <;> simp [capture] at h ⊢ <;> omega

theorem memStore_spec (w : World) (optLink : Bool) (lk : Link) (o : S) (oacc : T) (opend : Option T)
    (hg : Good w o oacc opend) (K : T) (fk : H → Res × H) (hK : Sim w K fk) (m : Nat) (hbK : bound K ≤ m)
    (hid : ∀ x, (memStore optLink lk oacc opend K m).2.2.1 = .id x → Keeps w x ∧ ∀ h, (fk h).2.env x = h.env x)
    (s : TState) :
    MemOk w m (memStore optLink lk oacc opend K m).2.2.1
      (evalT w (fin (memStore optLink lk oacc opend K m).1 (memStore optLink lk oacc opend K m).2.1) s)
      (memSem optLink (evalC w o s.h) (linkGet w lk fk)) := by
  cases optLink with
  | false =>
    simp only [memStore] at hid ⊢
    have cn := capture_next oacc m
    rw [fin_eq_finG]
    rcases good_cont w _ _ _ ((good_iff w o _ _).1 hg) s with ⟨s0, hgo, hrel, hns⟩ | ⟨s0, hh, hstop⟩
    · rw [hgo, evalT_linkT]
      obtain ⟨c1, c2, c3⟩ := capture_spec w oacc m s0
      rcases ho : evalC w o s.h with ⟨cr, h1⟩
      rw [ho] at hrel hns
      obtain ⟨r1, r2⟩ := hrel
      simp only at r1 r2 hns
      rw [r1] at c1 c3
      rw [r2] at c2
      rcases hc : evalT w (capture oacc m).1 s0 with ⟨rc, s1⟩
      rw [hc] at c1 c2 c3
      simp only at c1 c2 c3
      subst c1; subst c2
      cases cr with
      | short => exact absurd rfl hns
      | err x =>
        simp only [CRes.top, bindR_err, memSem]
        exact ⟨rfl, fun y hy => (by cases hy; rfl), fun hc => (by cases hc), fun fv ov' hc => (by cases hc)⟩
      | val ov =>
        simp only [CRes.top, bindR_val]
        refine mem_tail w lk K fk hK m hbK ov s1 _ (fun s2 h2 e2 => ?_) hid false rfl
        refine c3 ov rfl s2 ⟨fun j hj1 hj2 => ?_, fun x hx => e2 x (capture_id_later oacc m x hx)⟩
        rcases capture_alloc oacc m with ha | ⟨ha, hb⟩
        · omega
        · have : j = m := by omega
          subst this
          exact h2 hb
    · rcases ho : evalC w o s.h with ⟨cr, h1⟩
      rw [ho] at hh hstop
      simp only at hh hstop
      rcases hstop with ⟨hsh, hev⟩ | ⟨x, hx, hev⟩
      · subst hsh
        rw [hev]
        exact ⟨hh, fun y hy => (by cases hy), fun _ => rfl, fun fv ov' hc => (by cases hc)⟩
      · subst hx
        rw [hev]
        exact ⟨hh, fun y hy => (by cases hy; rfl), fun hc => (by cases hc), fun fv ov' hc => (by cases hc)⟩
  | true =>
    simp only [memStore] at hid ⊢
    have cn := capture_next (fin oacc opend) m
    have hf := fin_ok w o oacc opend hg s
    obtain ⟨c1, c2, c3⟩ := capture_spec w (fin oacc opend) m s
    simp only [evalS, topP_fst, topP_snd] at hf
    obtain ⟨hf1, hf2⟩ := hf
    rw [hf1] at c1 c3; rw [hf2] at c2
    rcases ho : evalC w o s.h with ⟨cr, h1⟩
    rw [ho] at c1 c2 c3
    simp only at c1 c2 c3
    rw [show ∀ (a t : T), fin a (some t) = .ifEqNull t (.lit .undef) a from fun _ _ => rfl]
    simp only [evalT]
    rcases hc : evalT w (capture (fin oacc opend) m).1 s with ⟨rc, s1⟩
    rw [hc] at c1 c2 c3
    simp only at c1 c2 c3
    subst c1; subst c2
    cases cr with
    | err x =>
      simp only [CRes.top, bindR_err, memSem]
      exact ⟨rfl, fun y hy => (by cases hy; rfl), fun hc => (by cases hc), fun fv ov' hc => (by cases hc)⟩
    | short =>
      simp only [CRes.top, bindR_val, Val.nullish, ↓reduceIte, memSem]
      exact ⟨rfl, fun y hy => (by cases hy), fun _ => rfl, fun fv ov' hc => (by cases hc)⟩
    | val ov =>
      simp only [CRes.top, bindR_val]
      cases hn : ov.nullish with
      | true =>
        simp only [↓reduceIte, memSem, Bool.true_and, hn]
        exact ⟨rfl, fun y hy => (by cases hy), fun _ => rfl, fun fv ov' hc => (by cases hc)⟩
      | false =>
        simp only [Bool.false_eq_true, ↓reduceIte]
        have hlater : ∀ s2 : TState, ((capture (fin oacc opend) m).2.1 = .tmp m → s2.tm m = s1.tm m) →
            (∀ x, (capture (fin oacc opend) m).2.1 = .id x → s2.h.env x = s1.h.env x) →
            evalT w (capture (fin oacc opend) m).2.1 s2 = (.val ov, s2) := by
          intro s2 h2 e2
          refine c3 ov rfl s2 ⟨fun j hj1 hj2 => ?_, fun x hx => e2 x (capture_id_later _ m x hx)⟩
          rcases capture_alloc (fin oacc opend) m with ha | ⟨ha, hb⟩
          · omega
          · have : j = m := by omega
            subst this
            exact h2 hb
        rw [evalT_linkT, hlater s1 (fun _ => rfl) (fun _ _ => rfl)]
        simp only [bindR_val]
        exact mem_tail w lk K fk hK m hbK ov s1 _ hlater hid true (by simp [hn])

theorem memStore_this_tmp (optLink : Bool) (lk : Link) (oacc : T) (opend : Option T) (K : T) (m j : Nat)
    (h : (memStore optLink lk oacc opend K m).2.2.1 = .tmp j) :
    j = m ∧ (memStore optLink lk oacc opend K m).2.2.2 = m + 1 := by
  cases optLink <;> exact capture_later_tmp _ _ _ h

theorem memStore_next (optLink : Bool) (lk : Link) (oacc : T) (opend : Option T) (K : T) (m : Nat) :
    m ≤ (memStore optLink lk oacc opend K m).2.2.2 := by
  cases optLink <;> exact (capture_next _ _).1

/-- `o.p?.(…)`: `(_b = M) == null ? void 0 : _b.call(this, …)` where `M` is the member expression with its base
stored -/
theorem good_mcall_opt (w : World) (tpl : Option TplSite) (optLink : Bool) (lk : Link) (o k : S) (nn : Nat) (a b : S)
    (oacc : T) (opend : Option T) (K : T) (g : Nat × T × T × T) (m : Nat)
    (hg : Good w o oacc opend) (hK : Sim w K (evalS w k)) (hbK : bound K ≤ m)
    (hargs : ∀ s, (args3 g.1 (evalT w g.2.1) (evalT w g.2.2.1) (evalT w g.2.2.2) s).1 =
        (argsS tpl nn (evalS w a) (evalS w b) s.h).1 ∧
      (args3 g.1 (evalT w g.2.1) (evalT w g.2.2.1) (evalT w g.2.2.2) s).2.h = (argsS tpl nn (evalS w a) (evalS w b) s.h).2)
    (hid : ∀ x, (memStore optLink lk oacc opend K m).2.2.1 = .id x → Keeps w x ∧ ∀ h, (evalS w k h).2.env x = h.env x) :
    Good w (.mcall .opt tpl optLink lk o k nn a b) (mcallLower .opt optLink lk oacc opend K g m).1
      (mcallLower .opt optLink lk oacc opend K g m).2.1 := by
  simp only [mcallLower]
  intro s
  have hm := memStore_spec w optLink lk o oacc opend hg K (evalS w k) hK m hbK hid s
  have hthis := memStore_this_tmp optLink lk oacc opend K m
  have hnext := memStore_next optLink lk oacc opend K m
  generalize memStore optLink lk oacc opend K m = ms at hm hthis hnext ⊢
  obtain ⟨c1, c2, c3⟩ := capture_spec w (fin ms.1 ms.2.1) ms.2.2.2 s
  have ctm := capture_tm' w (fin ms.1 ms.2.1) ms.2.2.2 s
  obtain ⟨m1, m2, m3, m4⟩ := hm
  have hev : evalC w (.mcall .opt tpl optLink lk o k nn a b) s.h =
      mcallSem w .opt (memSem optLink (evalC w o s.h) (linkGet w lk (evalS w k)))
        (argsS tpl nn (evalS w a) (evalS w b)) := by
    simp only [evalC, topP_evalC_eq]
  rw [hev]
  rcases hmm : memSem optLink (evalC w o s.h) (linkGet w lk (evalS w k)) with ⟨mr, h2⟩
  rw [hmm] at m1 m2 m3 m4
  simp only at m1 m2 m3 m4
  refine ⟨?_, ?_, ?_⟩
  · intro x herr
    rw [c1] at herr
    cases mr with
    | err y => rw [m2 y rfl] at herr; cases herr; simp [mcallSem, c2, m1]
    | short => rw [m3 rfl] at herr; cases herr
    | val fv ov => rw [(m4 fv ov rfl).1] at herr; cases herr
  · intro v hv hn
    rw [c1] at hv
    cases mr with
    | err y => rw [m2 y rfl] at hv; cases hv
    | short => simp [mcallSem, c2, m1]
    | val fv ov =>
      rw [(m4 fv ov rfl).1] at hv
      cases hv
      simp [mcallSem, hn, c2, m1]
  · intro v hv hn
    have hread := c3 v (by rw [← c1]; exact hv) _ ⟨fun _ _ _ => rfl, fun _ _ => rfl⟩
    rw [c1] at hv
    cases mr with
    | err y => rw [m2 y rfl] at hv; cases hv
    | short => rw [m3 rfl] at hv; cases hv; simp [Val.nullish] at hn
    | val fv ov =>
      obtain ⟨e1, e2⟩ := m4 fv ov rfl
      rw [e1] at hv
      cases hv
      have hthisv := e2 (evalT w (capture (fin ms.1 ms.2.1) ms.2.2.2).1 s).2
        (fun ht => ctm m (by have := hthis m ht; omega))
        (fun x _ => by rw [c2])
      have hcw := sim_callWith w v ov _ _ hargs (evalT w (capture (fin ms.1 ms.2.1) ms.2.2.2).1 s).2
      rw [c2, m1] at hcw
      simp only [evalT, hread, bindR_val, hn, hthisv, mcallSem, Bool.false_eq_true, ↓reduceIte]
      refine ⟨⟨?_, ?_⟩, toC_ne_short _⟩
      · simpa using hcw.1
      · simpa using hcw.2

/-- an expression whose evaluation cannot have an effect or fail -/
def S.pure : S → Bool
  | .id _ => true
  | .lit _ => true
  | .this => true
  | .tstr _ => true
  | _ => false

/-- the callee of a parenthesised member call is never null / undefined (and the chain inside is never cut short) -/
def NeverNullish (w : World) (optLink : Bool) (lk : Link) (o k : S) : Prop :=
  ∀ h, match (memSem optLink (evalC w o h) (linkGet w lk (evalS w k))).1 with
    | .short => False
    | .val fv _ => fv.nullish = false
    | .err _ => True

theorem pure_eval (w : World) (a : S) (ha : a.pure = true) (h : H) : ∃ v, evalS w a h = (.val v, h) := by
  cases a <;> simp [S.pure] at ha
  · exact ⟨_, rfl⟩
  · exact ⟨_, rfl⟩
  · exact ⟨_, rfl⟩
  · exact ⟨_, rfl⟩

theorem args_pure (w : World) (n : Nat) (a b : S) (ha : a.pure = true) (hb : b.pure = true) (h : H) :
    ∃ vs, argsS none n (evalS w a) (evalS w b) h = (.vals vs, h) := by
  obtain ⟨va, ea⟩ := pure_eval w a ha h
  obtain ⟨vb, eb⟩ := pure_eval w b hb h
  simp only [argsS]
  generalize min n 2 = k
  match k with
  | 0 => exact ⟨_, rfl⟩
  | 1 => exact ⟨[va], by simp [args3, ea]⟩
  | 2 => exact ⟨[va, vb], by simp [args3, ea, eb]⟩
  | k + 3 => exact ⟨[va, vb, vb], by simp [args3, ea, eb]⟩

theorem invoke_nullish (w : World) (fv tv : Val) (vs : List Val) (h : H) (hn : fv.nullish = true) :
    invoke w fv tv vs h = (.err .typeError, h) := by
  cases fv <;> simp [Val.nullish] at hn <;> rfl

/-- `(o?.p)(…)` / `(o?.p)`…``: `M.call(this, …)` -/
theorem good_mcall_paren (w : World) (tpl : Option TplSite) (optLink : Bool) (lk : Link) (o k : S) (nn : Nat) (a b : S)
    (oacc : T) (opend : Option T) (K : T) (g : Nat × T × T × T) (m : Nat)
    (hg : Good w o oacc opend) (hK : Sim w K (evalS w k)) (hbK : bound K ≤ m)
    (hargs : ∀ s, (args3 g.1 (evalT w g.2.1) (evalT w g.2.2.1) (evalT w g.2.2.2) s).1 =
        (argsS tpl nn (evalS w a) (evalS w b) s.h).1 ∧
      (args3 g.1 (evalT w g.2.1) (evalT w g.2.2.1) (evalT w g.2.2.2) s).2.h = (argsS tpl nn (evalS w a) (evalS w b) s.h).2)
    (hid : ∀ x, (memStore optLink lk oacc opend K m).2.2.1 = .id x → Keeps w x ∧ ∀ h, (evalS w k h).2.env x = h.env x)
    (hparen : NeverNullish w optLink lk o k ∨ (tpl = none ∧ a.pure = true ∧ b.pure = true)) :
    Good w (.mcall .paren tpl optLink lk o k nn a b) (mcallLower .paren optLink lk oacc opend K g m).1
      (mcallLower .paren optLink lk oacc opend K g m).2.1 := by
  simp only [mcallLower]
  intro s
  have hm := memStore_spec w optLink lk o oacc opend hg K (evalS w k) hK m hbK hid s
  generalize memStore optLink lk oacc opend K m = ms at hm ⊢
  obtain ⟨m1, m2, m3, m4⟩ := hm
  have hev : evalC w (.mcall .paren tpl optLink lk o k nn a b) s.h =
      mcallSem w .paren (memSem optLink (evalC w o s.h) (linkGet w lk (evalS w k)))
        (argsS tpl nn (evalS w a) (evalS w b)) := by
    simp only [evalC, topP_evalC_eq]
  rw [hev]
  have hnn := fun hh : NeverNullish w optLink lk o k => hh s.h
  -- what both sides do when the callee is null / undefined and the arguments are pure
  have hpure : tpl = none ∧ a.pure = true ∧ b.pure = true → ∀ fv tv h', fv.nullish = true →
      callWith w fv tv (argsS tpl nn (evalS w a) (evalS w b)) h' = (.err .typeError, h') := by
    intro ⟨ht, ha, hb⟩ fv tv h' hn
    subst ht
    obtain ⟨vs, hvs⟩ := args_pure w nn a b ha hb h'
    simp [callWith, hvs, invoke_nullish w fv tv vs h' hn]
  rcases hmm : memSem optLink (evalC w o s.h) (linkGet w lk (evalS w k)) with ⟨mr, h2⟩
  rw [hmm] at m1 m2 m3 m4 hnn
  simp only at m1 m2 m3 m4 hnn
  simp only [evalT]
  rcases hr : evalT w (fin ms.1 ms.2.1) s with ⟨r, s1⟩
  rw [hr] at m1 m2 m3 m4
  simp only at m1 m2 m3 m4
  subst m1
  cases mr with
  | err y =>
    rw [m2 y rfl]
    simp [mcallSem, Rel, CRes.top]
  | short =>
    rw [m3 rfl]
    rcases hparen with hh | hp
    · exact absurd (hnn hh) (by simp)
    · simp only [bindR_val, Val.nullish, ↓reduceIte, mcallSem, hpure hp .undef .undef s1.h rfl]
      simp [Rel, toCP, Res.toC, CRes.top]
  | val fv ov =>
    obtain ⟨e1, e2⟩ := m4 fv ov rfl
    rw [e1]
    simp only [bindR_val, mcallSem]
    cases hn : fv.nullish with
    | true =>
      rcases hparen with hh | hp
      · have := hnn hh
        simp only at this
        rw [this] at hn
        cases hn
      · simp only [↓reduceIte, hpure hp fv ov s1.h hn]
        simp [Rel, toCP, Res.toC, CRes.top]
    | false =>
      have hcw := sim_callWith w fv ov _ _ hargs s1
      simp only [Bool.false_eq_true, ↓reduceIte, e2 s1 (fun _ => rfl) (fun _ _ => rfl), bindR_val]
      refine ⟨⟨?_, ?_⟩, toC_ne_short _⟩
      · simpa using hcw.1
      · simpa using hcw.2

/-- the identifier an expression is, parentheses ignored: that is what esbuild writes twice instead of capturing -/
def S.asId : S → Option Nat
  | .id x => some x
  | .paren a => a.asId
  | _ => none

theorem lowerE_id : ∀ (o : S) (n x : Nat), fin (lowerC o n).1 (lowerC o n).2.1 = .id x → o.asId = some x := by
  intro o
  induction o with
  | id y => intro n x h; simpa [lowerC, fin, S.asId] using h
  | paren a ih => intro n x h; simp only [lowerC, fin] at h; simpa [S.asId] using ih n x h
  | lit v => intro n x h; simp [lowerC, fin] at h
  | tstr s => intro n x h; simp [lowerC, fin] at h
  | call f a _ => intro n x h; simp [lowerC, fin] at h
  | dot o p _ => intro n x h; simp only [lowerC] at h; cases hp : (lowerC o n).2.1 <;> simp [hp, fin] at h
  | optDot o p _ => intro n x h; simp [lowerC, fin] at h
  | idx o k _ _ => intro n x h; simp only [lowerC] at h; cases hp : (lowerC o n).2.1 <;> simp [hp, fin] at h
  | nullish a b _ _ => intro n x h; simp [lowerC, fin] at h
  | tcat p s t _ _ => intro n x h; simp [lowerC, fin] at h
  | asgVar y op r _ => intro n x h; cases op <;> simp [lowerC, fin, opCallback, TT.read, TT.write] at h
  | asgDot o p op r _ _ => intro n x h; cases op <;> simp [lowerC, fin, opCallback, TT.read, TT.write] at h
  | asgIdx o k op r _ _ _ => intro n x h; cases op <;> simp [lowerC, fin, opCallback, TT.read, TT.write] at h
  | this => intro n x h; simp [lowerC, fin] at h
  | optIdx o k _ _ => intro n x h; simp [lowerC, fin] at h
  | vcall opt tpl f nn a b _ _ _ =>
    intro n x h
    cases opt
    · simp only [lowerC] at h; cases hp : (lowerC f n).2.1 <;> simp [hp, fin] at h
    · simp [lowerC, fin] at h
  | mcall mode tpl optLink lk o k nn a b _ _ _ _ =>
    intro n x h
    simp only [lowerC] at h
    cases mode <;> cases optLink <;> cases lk <;> simp only [mcallLower, callM, memStore] at h
    all_goals first
      | (simp [fin] at h; done)
      | (cases hp : (lowerC o n).2.1 <;> simp [hp, fin] at h)
  | del optLink lk o k _ _ =>
    intro n x h
    cases optLink <;> cases lk <;> simp only [lowerC, delT] at h
    all_goals first
      | (simp [fin] at h; done)
      | (cases hp : (lowerC o n).2.1 <;> simp [hp, fin, finD] at h)
  | delVal a _ =>
    intro n x h
    simp only [lowerC] at h
    cases hp : (lowerC a n).2.1 <;> simp [hp, fin, finD] at h

/-- the same for the chain so far (before the pending test is closed) -/
theorem lowerAcc_id (o : S) (n x : Nat) (h : (lowerC o n).1 = .id x) : o.asId = some x := by
  cases o with
  | id y => simpa [lowerC, S.asId] using h
  | paren a => simp only [lowerC] at h; simpa [S.asId] using lowerE_id a n x h
  | lit v => simp [lowerC] at h
  | tstr s => simp [lowerC] at h
  | call f a => simp [lowerC] at h
  | dot o p => simp [lowerC] at h
  | optDot o p => simp [lowerC] at h
  | idx o k => simp [lowerC] at h
  | nullish a b => simp [lowerC] at h
  | tcat p s t => simp [lowerC] at h
  | asgVar y op r => cases op <;> simp [lowerC, opCallback, TT.read, TT.write] at h
  | asgDot o p op r => cases op <;> simp [lowerC, opCallback, TT.read, TT.write] at h
  | asgIdx o k op r => cases op <;> simp [lowerC, opCallback, TT.read, TT.write] at h
  | this => simp [lowerC] at h
  | optIdx o k => simp [lowerC] at h
  | vcall opt tpl f nn a b => cases opt <;> simp [lowerC] at h
  | mcall mode tpl optLink lk o k nn a b =>
    cases mode <;> cases optLink <;> cases lk <;> simp [lowerC, mcallLower, callM, memStore] at h
  | del optLink lk o k =>
    cases optLink <;> cases lk <;> simp only [lowerC, delT] at h
    all_goals first
      | (simp at h; done)
      | (cases hp : (lowerC o n).2.1 <;> simp [hp, finD] at h)
  | delVal a =>
    simp only [lowerC] at h
    cases hp : (lowerC a n).2.1 <;> simp [hp, finD] at h

/-- The hypothesis under which the lowering of assignments is right.  esbuild writes an identifier that is the
object (or the key) of an assignment target twice instead of capturing its value
(captureValueWithPossibleSideEffects with valueDefinitelyNotMutated), so the second occurrence is read AFTER the
key expression, the key's toString, and the getter have run:
* the world (functions, getters, toString …) must not reassign such an identifier, and
* the key expression of `x[k] op= v` must not contain an assignment to `x`.
Without this the lowered code writes to a different object: see `reassigned_base_example_differs` below and the
reproduction in the work package report (`o[kk()] ||= 1` where `kk` reassigns `o`). -/
def Safe (w : World) : S → Prop
  | .id _ => True
  | .lit _ => True
  | .tstr _ => True
  | .call _ a => Safe w a
  | .dot o _ => Safe w o
  | .optDot o _ => Safe w o
  | .paren a => Safe w a
  | .idx o k => Safe w o ∧ Safe w k
  | .nullish a b => Safe w a ∧ Safe w b
  | .tcat p s _ => Safe w p ∧ Safe w s
  | .asgVar _ _ r => Safe w r
  | .asgDot o _ _ r => Safe w o ∧ Safe w r ∧ (∀ x, o.asId = some x → Keeps w x)
  | .asgIdx o k _ r => Safe w o ∧ Safe w k ∧ Safe w r ∧
      (∀ x, o.asId = some x → Keeps w x ∧ k.assigns x = false) ∧ (∀ y, k.asId = some y → Keeps w y)
  | .this => True
  | .optIdx o k => Safe w o ∧ Safe w k
  | .vcall _ _ f _ a b => Safe w f ∧ Safe w a ∧ Safe w b
  /- `o.p?.(…)`, `(o?.p)(…)`, `(o?.p)`…``: an identifier base is written again as the `this` argument of `.call`,
  after the key expression, the key's toString and the getter have run; and `(o?.p)(args)` becomes
  `(o == null ? void 0 : o.p).call(o, args)`, which throws BEFORE the arguments are evaluated when the callee is
  null / undefined (natively the arguments are evaluated first) -/
  | .mcall mode tpl optLink lk o k _ a b => Safe w o ∧ Safe w k ∧ Safe w a ∧ Safe w b ∧
      (mode ≠ .plain → ∀ x, o.asId = some x → Keeps w x ∧ k.assigns x = false) ∧
      (mode = .paren → NeverNullish w optLink lk o k ∨ (tpl = none ∧ a.pure = true ∧ b.pure = true))
  | .del _ _ o k => Safe w o ∧ Safe w k
  | .delVal a => Safe w a

theorem lowerC_good (w : World) : ∀ (e : S) (n : Nat), Safe w e → Good w e (lowerC e n).1 (lowerC e n).2.1 := by
  intro e
  induction e with
  | id x => intro n _ s; simp [lowerC, evalT, evalC, CRes.top, Rel]
  | lit v => intro n _ s; simp [lowerC, evalT, evalC, CRes.top, Rel]
  | tstr t => intro n _ s; simp [lowerC, evalT, evalC, CRes.top, Rel]
  | call f a ih =>
    intro n hs
    simp only [Safe] at hs
    exact good_of_sim w _ _ _ (fun h => rfl) (sim_call w f _ _ (fin_ok w a _ _ (ih n hs)))
  | paren a ih =>
    intro n hs
    simp only [Safe] at hs
    exact good_of_sim w _ _ _ (fun h => rfl) (fin_ok w a _ _ (ih n hs))
  | dot o p ih =>
    intro n hs
    simp only [Safe] at hs
    exact good_link w o (.dot o p) (lowerC o n).1 (.dot (lowerC o n).1 p) (lowerC o n).2.1
      (fun v s1 => liftH (getProp w v (pkey p)) s1) (fun v h1 => getProp w v (pkey p) h1)
      (ih n hs) (fun s => rfl) (fun h => by simp only [evalC]; rfl) (fun v s1 => ⟨rfl, rfl⟩)
  | optDot o p ih =>
    intro n hs
    simp only [Safe] at hs
    exact good_optDot w o p _ _ _ (ih n hs)
  | idx o k iho ihk =>
    intro n hs
    simp only [Safe] at hs
    have hK := fin_ok w k _ _ (ihk (lowerC o n).2.2 hs.2)
    exact good_link w o (.idx o k) (lowerC o n).1 _ (lowerC o n).2.1
      (fun v s1 => bindR (evalT w (fin (lowerC k (lowerC o n).2.2).1 (lowerC k (lowerC o n).2.2).2.1) s1)
        fun kv s2 => liftH (getProp w v kv) s2)
      (fun v h1 => bindR (evalS w k h1) fun kv h2 => getProp w v kv h2)
      (iho n hs.1) (fun s => rfl) (fun h => by simp only [evalC]; rfl)
      (fun v s1 => sim_bind _ _ _ _ (hK s1).1 (hK s1).2 (fun kv s2 => ⟨rfl, rfl⟩))
  | nullish a b iha ihb =>
    intro n hs
    simp only [Safe] at hs
    exact good_of_sim w _ _ _ (fun h => rfl)
      (sim_nullish w _ _ _ _ (fin_ok w a _ _ (iha n hs.1)) (fin_ok w b _ _ (ihb _ hs.2)) _)
  | tcat p sb tail ihp ihs =>
    intro n hs
    simp only [Safe] at hs
    exact good_of_sim w _ _ _ (fun h => rfl)
      (sim_tcat w _ _ _ _ (fin_ok w p _ _ (ihp n hs.1)) (fin_ok w sb _ _ (ihs _ hs.2)) tail)
  | asgVar x op r ih =>
    intro n hs
    simp only [Safe] at hs
    refine good_of_sim w _ _ _ (evalC_asgVar w x op r) ?_
    exact opCallback_sim w op _ _ _ 0 0 _ (refpair_var w x) (fun _ h => h.elim) _ _ (fin_ok w r _ _ (ih n hs)) _
      (Nat.zero_le _)
  | asgDot o p op r iho ihr =>
    intro n hs
    simp only [Safe] at hs
    obtain ⟨hso, hsr, hid⟩ := hs
    refine good_of_sim w _ _ _ (evalC_asgDot w o p op r) ?_
    have hO := fin_ok w o _ _ (iho n hso)
    have hR := fin_ok w r _ _ (ihr (lowerC o n).2.2 hsr)
    exact opCallback_sim w op _ _ _ _ _ _ (refpair_dot w _ _ hO _ p)
      (fun x hx => hid x (lowerE_id o n x hx)) _ _ hR _ (Nat.le_refl _)
  | asgIdx o k op r iho ihk ihr =>
    intro n hs
    simp only [Safe] at hs
    obtain ⟨hso, hsk, hsr, hid, hkid⟩ := hs
    refine good_of_sim w _ _ _ (evalC_asgIdx w o k op r) ?_
    have hO := fin_ok w o _ _ (iho n hso)
    have hK := fin_ok w k _ _ (ihk (lowerC o n).2.2 hsk)
    have hR := fin_ok w r _ _ (ihr (lowerC k (lowerC o n).2.2).2.2 hsr)
    have bk := lowerC_bound k (lowerC o n).2.2
    have br := lowerC_bound r (lowerC k (lowerC o n).2.2).2.2
    have hbK : bound (fin (lowerC k (lowerC o n).2.2).1 (lowerC k (lowerC o n).2.2).2.1) ≤
        (lowerC r (lowerC k (lowerC o n).2.2).2.2).2.2 :=
      Nat.le_trans (bound_fin_le _ _ _ bk.2.1 bk.2.2) br.1
    refine opCallback_sim w op _ _ _ _ _ _ (refpair_idx w _ _ _ _ hO hK _ hbK ?_) ?_ _ _ hR _ (Nat.le_refl _)
    · intro x hx h
      have := hid x (lowerE_id o n x hx)
      exact evalC_keeps w x this.1 k this.2 h
    · intro x hx
      cases hx with
      | inl hx => exact (hid x (lowerE_id o n x hx)).1
      | inr hx => exact hkid x (lowerE_id k _ x hx)
  | this => intro n _ s; simp [lowerC, evalT, evalC, CRes.top, Rel]
  | optIdx o k iho ihk =>
    intro n hs
    simp only [Safe] at hs
    have hK := fin_ok w k _ _ (ihk (lowerC o n).2.2 hs.2)
    rw [good_iff]
    refine goodF_congr w _ _ _ _ (fun h => ?_) (good_optLink w o _ _ (lowerC k (lowerC o n).2.2).2.2
      (fun base => .idx base (fin (lowerC k (lowerC o n).2.2).1 (lowerC k (lowerC o n).2.2).2.1))
      (fun v s1 => bindR (evalT w (fin (lowerC k (lowerC o n).2.2).1 (lowerC k (lowerC o n).2.2).2.1) s1)
        fun kv s2 => liftH (getProp w v kv) s2)
      (fun v h1 => bindR (evalS w k h1) fun kv h2 => getProp w v kv h2)
      (iho n hs.1) (fun base s => rfl)
      (fun v s1 => sim_bind _ _ _ _ (hK s1).1 (hK s1).2 (fun kv s2 => ⟨rfl, rfl⟩)))
    simp only [evalC]; rfl
  | vcall opt tpl f nn a b ihf iha ihb =>
    intro n hs
    simp only [Safe] at hs
    have hA := fin_ok w a _ _ (iha (lowerC f n).2.2 hs.2.1)
    have hB := fin_ok w b _ _ (ihb (lowerC a (lowerC f n).2.2).2.2 hs.2.2)
    have hargs := sim_targs w tpl nn _ _ _ _ hA hB
    cases opt with
    | false =>
      exact good_link w f _ (lowerC f n).1 _ (lowerC f n).2.1 _
        (fun fv h1 => callWith w fv .undef (argsS tpl nn (evalS w a) (evalS w b)) h1)
        (ihf n hs.1) (fun s => rfl)
        (fun h => by simp only [evalC, vcallSem, Bool.false_and, Bool.false_eq_true, ↓reduceIte]; rfl)
        (fun fv s1 => sim_callWith w fv .undef _ _ hargs s1)
    | true =>
      rw [good_iff]
      refine goodF_congr w _ _ _ _ (fun h => ?_) (good_optLink w f _ _ _
        (fun base => .callV base _ _ _ _) _
        (fun fv h1 => callWith w fv .undef (argsS tpl nn (evalS w a) (evalS w b)) h1)
        (ihf n hs.1) (fun base s => rfl) (fun fv s1 => sim_callWith w fv .undef _ _ hargs s1))
      simp only [evalC, vcallSem, Bool.true_and]; rfl
  | mcall mode tpl optLink lk o k nn a b iho ihk iha ihb =>
    intro n hs
    simp only [Safe] at hs
    obtain ⟨hso, hsk, hsa, hsb, hid, hparen⟩ := hs
    have hK := fin_ok w k _ _ (ihk (lowerC o n).2.2 hsk)
    have hA := fin_ok w a _ _ (iha (lowerC k (lowerC o n).2.2).2.2 hsa)
    have hB := fin_ok w b _ _ (ihb (lowerC a (lowerC k (lowerC o n).2.2).2.2).2.2 hsb)
    have hargs := sim_targs w tpl nn _ _ _ _ hA hB
    cases mode with
    | plain =>
      have hL : ∀ ov s1,
          (bindR (linkGetT w lk (fin (lowerC k (lowerC o n).2.2).1 (lowerC k (lowerC o n).2.2).2.1) ov s1) fun fv s2 =>
            callWithT w fv ov (args3 _ (evalT w _) (evalT w _) (evalT w _)) s2).1 =
          (linkCall w lk (evalS w k) (argsS tpl nn (evalS w a) (evalS w b)) ov s1.h).1 ∧
          (bindR (linkGetT w lk (fin (lowerC k (lowerC o n).2.2).1 (lowerC k (lowerC o n).2.2).2.1) ov s1) fun fv s2 =>
            callWithT w fv ov (args3 _ (evalT w _) (evalT w _) (evalT w _)) s2).2.h =
          (linkCall w lk (evalS w k) (argsS tpl nn (evalS w a) (evalS w b)) ov s1.h).2 :=
        fun ov s1 => sim_bind _ _ _ _ (sim_linkGet w lk _ _ hK ov s1).1 (sim_linkGet w lk _ _ hK ov s1).2
          (fun fv s2 => sim_callWith w fv ov _ _ hargs s2)
      cases optLink with
      | false =>
        refine good_link w o _ (lowerC o n).1 _ (lowerC o n).2.1 _
          (linkCall w lk (evalS w k) (argsS tpl nn (evalS w a) (evalS w b)))
          (iho n hso) (fun s => evalT_callM w lk _ _ _ s) (fun h => ?_) hL
        simp only [evalC, topP_evalC_eq]
        rcases evalC w o h with ⟨cr, h1⟩
        cases cr with
        | err x => rfl
        | short => rfl
        | val ov =>
          simp only [memSem, Bool.false_and, Bool.false_eq_true, ↓reduceIte, linkCall]
          rcases linkGet w lk (evalS w k) ov h1 with ⟨r, h2⟩
          cases r <;> rfl
      | true =>
        rw [good_iff]
        refine goodF_congr w _ _ _ _ (fun h => ?_) (good_optLink w o _ _ _
          (fun base => callM lk base _ _) _
          (linkCall w lk (evalS w k) (argsS tpl nn (evalS w a) (evalS w b)))
          (iho n hso) (fun base s => evalT_callM w lk _ _ _ s) hL)
        simp only [evalC, topP_evalC_eq]
        rcases evalC w o h with ⟨cr, h1⟩
        cases cr with
        | err x => rfl
        | short => rfl
        | val ov =>
          simp only [memSem, Bool.true_and]
          split
          · rfl
          · simp only [linkCall]
            rcases linkGet w lk (evalS w k) ov h1 with ⟨r, h2⟩
            cases r <;> rfl
    | opt =>
      have bk := lowerC_bound k (lowerC o n).2.2
      have ba := lowerC_bound a (lowerC k (lowerC o n).2.2).2.2
      have bb := lowerC_bound b (lowerC a (lowerC k (lowerC o n).2.2).2.2).2.2
      refine good_mcall_opt w tpl optLink lk o k nn a b _ _ _ _ _ (iho n hso) hK
        (Nat.le_trans (bound_fin_le _ _ _ bk.2.1 bk.2.2) (Nat.le_trans ba.1 bb.1)) hargs (fun x hx => ?_)
      have hx' : o.asId = some x := by
        cases optLink with
        | false => exact lowerAcc_id o n x (capture_later_id _ _ _ hx)
        | true => exact lowerE_id o n x (capture_later_id _ _ _ hx)
      have := hid (by simp) x hx'
      exact ⟨this.1, fun h => evalC_keeps w x this.1 k this.2 h⟩
    | paren =>
      have bk := lowerC_bound k (lowerC o n).2.2
      have ba := lowerC_bound a (lowerC k (lowerC o n).2.2).2.2
      have bb := lowerC_bound b (lowerC a (lowerC k (lowerC o n).2.2).2.2).2.2
      refine good_mcall_paren w tpl optLink lk o k nn a b _ _ _ _ _ (iho n hso) hK
        (Nat.le_trans (bound_fin_le _ _ _ bk.2.1 bk.2.2) (Nat.le_trans ba.1 bb.1)) hargs (fun x hx => ?_) (hparen rfl)
      have hx' : o.asId = some x := by
        cases optLink with
        | false => exact lowerAcc_id o n x (capture_later_id _ _ _ hx)
        | true => exact lowerE_id o n x (capture_later_id _ _ _ hx)
      have := hid (by simp) x hx'
      exact ⟨this.1, fun h => evalC_keeps w x this.1 k this.2 h⟩
  | del optLink lk o k iho ihk =>
    intro n hs
    simp only [Safe] at hs
    have hK := fin_ok w k _ _ (ihk (lowerC o n).2.2 hs.2)
    cases optLink with
    | false =>
      simp only [lowerC, finD_eq_finG]
      rw [good_iff]
      have := sim_cont w _ _ _ ((good_iff w o _ _).1 (iho n hs.1)) (.bool true)
        (delT lk (lowerC o n).1 (fin (lowerC k (lowerC o n).2.2).1 (lowerC k (lowerC o n).2.2).2.1))
        (linkDelT w lk _) (linkDel w lk (evalS w k)) (fun s => evalT_delT w lk _ _ s)
        (fun ov s1 => sim_linkDel w lk _ _ hK ov s1)
      refine (good_iff w _ _ none).1 (good_of_sim w _ _ _ (fun h => ?_) this)
      simp only [evalC, delSem, topP_evalC_eq]
      rcases evalC w o h with ⟨cr, h1⟩
      cases cr with
      | err x => rfl
      | short => rfl
      | val ov =>
        simp only [Bool.false_and, Bool.false_eq_true, ↓reduceIte]
    | true =>
      simp only [lowerC]
      rw [good_iff]
      have hgo := good_optLink w o _ _ (lowerC k (lowerC o n).2.2).2.2
        (fun base => delT lk base (fin (lowerC k (lowerC o n).2.2).1 (lowerC k (lowerC o n).2.2).2.1))
        (linkDelT w lk _) (linkDel w lk (evalS w k)) (iho n hs.1) (fun base s => evalT_delT w lk _ _ s)
        (fun ov s1 => sim_linkDel w lk _ _ hK ov s1)
      have := sim_cont w _ _ _ hgo (.bool true) _ (fun v s => (.val v, s)) (fun v h => (.val v, h))
        (fun s => (bindR_pure _).symm) (fun v s1 => ⟨rfl, rfl⟩)
      refine (good_iff w _ _ none).1 (good_of_sim w _ _ _ (fun h => ?_) this)
      simp only [evalC, delSem, topP_evalC_eq]
      rcases evalC w o h with ⟨cr, h1⟩
      cases cr with
      | err x => rfl
      | short => rfl
      | val ov =>
        simp only [Bool.true_and]
        split
        · rfl
        · rcases linkDel w lk (evalS w k) ov h1 with ⟨r, h2⟩
          cases r <;> rfl
  | delVal a ih =>
    intro n hs
    simp only [Safe] at hs
    simp only [lowerC, finD_eq_finG]
    rw [good_iff]
    have := sim_cont w _ _ _ ((good_iff w a _ _).1 (ih n hs)) (.bool true) (.delV (lowerC a n).1)
      (fun _ s1 => (.val (.bool true), s1)) (fun _ h1 => (.val (.bool true), h1)) (fun s => rfl)
      (fun v s1 => ⟨rfl, rfl⟩)
    refine (good_iff w _ _ none).1 (good_of_sim w _ _ _ (fun h => ?_) this)
    simp only [evalC, delValSem]
    rcases evalC w a h with ⟨cr, h1⟩
    cases cr <;> rfl

/-- Everything at once.  For every expression of the fragment, every world and every initial state (trace,
user variables, temporaries), under `Safe`: the lowered expression yields the same value or the same exception,
the same trace (the same calls, property reads and writes, toString/valueOf conversions with the same arguments
in the same order, so every operand is evaluated the same number of times) and the same final values of all
user variables.  Temporaries are excluded by construction: they are the separate component `tm` of the state of
the emitted language, which the source semantics does not have and the world cannot see. -/
theorem lowering2_preserves_behaviour (w : World) (e : S) (h : H) (tm : Nat → Val) (hs : Safe w e) :
    (evalT w (lower e) ⟨h, tm⟩).1 = (evalS w e h).1 ∧
    (evalT w (lower e) ⟨h, tm⟩).2.h.tr = (evalS w e h).2.tr ∧
    (evalT w (lower e) ⟨h, tm⟩).2.h.env = (evalS w e h).2.env := by
  have := fin_ok w e _ _ (lowerC_good w e 0 hs) ⟨h, tm⟩
  simp only [lower]
  exact ⟨this.1, by rw [this.2], by rw [this.2]⟩

/-- no assignment at all -/
def S.noAsg : S → Bool
  | .id _ => true
  | .lit _ => true
  | .tstr _ => true
  | .call _ a => a.noAsg
  | .dot o _ => o.noAsg
  | .optDot o _ => o.noAsg
  | .paren a => a.noAsg
  | .idx o k => o.noAsg && k.noAsg
  | .nullish a b => a.noAsg && b.noAsg
  | .tcat p s _ => p.noAsg && s.noAsg
  | .asgVar _ _ _ => false
  | .asgDot _ _ _ _ => false
  | .asgIdx _ _ _ _ => false
  | .this => true
  | .optIdx o k => o.noAsg && k.noAsg
  | .vcall _ _ _ _ _ _ => false
  | .mcall _ _ _ _ _ _ _ _ _ => false
  | .del _ _ _ _ => false
  | .delVal _ => false

theorem safe_of_noAsg (w : World) : ∀ e : S, e.noAsg = true → Safe w e ∧ e.noPow = true := by
  intro e
  induction e with
  | id x => intro _; simp [Safe, S.noPow]
  | lit v => intro _; simp [Safe, S.noPow]
  | tstr s => intro _; simp [Safe, S.noPow]
  | call f a ih => intro h; simpa [Safe, S.noPow] using ih (by simpa [S.noAsg] using h)
  | dot o p ih => intro h; simpa [Safe, S.noPow] using ih (by simpa [S.noAsg] using h)
  | optDot o p ih => intro h; simpa [Safe, S.noPow] using ih (by simpa [S.noAsg] using h)
  | paren a ih => intro h; simpa [Safe, S.noPow] using ih (by simpa [S.noAsg] using h)
  | idx o k iho ihk =>
    intro h
    simp only [S.noAsg, Bool.and_eq_true] at h
    simp only [Safe, S.noPow, Bool.and_eq_true]
    exact ⟨⟨(iho h.1).1, (ihk h.2).1⟩, (iho h.1).2, (ihk h.2).2⟩
  | nullish a b iha ihb =>
    intro h
    simp only [S.noAsg, Bool.and_eq_true] at h
    simp only [Safe, S.noPow, Bool.and_eq_true]
    exact ⟨⟨(iha h.1).1, (ihb h.2).1⟩, (iha h.1).2, (ihb h.2).2⟩
  | tcat p s t ihp ihs =>
    intro h
    simp only [S.noAsg, Bool.and_eq_true] at h
    simp only [Safe, S.noPow, Bool.and_eq_true]
    exact ⟨⟨(ihp h.1).1, (ihs h.2).1⟩, (ihp h.1).2, (ihs h.2).2⟩
  | asgVar x op r _ => intro h; simp [S.noAsg] at h
  | asgDot o p op r _ _ => intro h; simp [S.noAsg] at h
  | asgIdx o k op r _ _ _ => intro h; simp [S.noAsg] at h
  | this => intro _; simp [Safe, S.noPow]
  | optIdx o k iho ihk =>
    intro h
    simp only [S.noAsg, Bool.and_eq_true] at h
    simp only [Safe, S.noPow, Bool.and_eq_true]
    exact ⟨⟨(iho h.1).1, (ihk h.2).1⟩, (iho h.1).2, (ihk h.2).2⟩
  | vcall _ _ _ _ _ _ _ _ _ => intro h; simp [S.noAsg] at h
  | mcall _ _ _ _ _ _ _ _ _ _ _ _ _ => intro h; simp [S.noAsg] at h
  | del _ _ _ _ _ _ => intro h; simp [S.noAsg] at h
  | delVal _ _ => intro h; simp [S.noAsg] at h

theorem evalS_nm (w : World) (x : Exc) (hx : x.marker = true) (e : S) (hw : e.wf = true)
    (hp : x = .bigint → e.noPow = true) (h : H) : (evalS w e h).1 ≠ .err x := by
  simp only [evalS, topP_fst, ne_eq, top_err]
  exact evalC_nm w x hx e hw hp h

/-- C05, logical assignment: for every parsed expression without `**=` (it may contain `||=`, `&&=`, `??=` on
identifiers, `o.p`, `o[k]`, templates, optional chains, `??`, calls, nested anyhow), every world satisfying
`Safe`, and every state: same result, same trace, same user variables; and the evaluation stays inside the model
(neither marker is reported), so this is a statement about what the two programs really do. -/
theorem logical_assign_lowering_preserves_behaviour (w : World) (e : S) (h : H) (tm : Nat → Val)
    (hwf : e.wf = true) (hnp : e.noPow = true) (hs : Safe w e) :
    (evalT w (lower e) ⟨h, tm⟩).1 = (evalS w e h).1 ∧
    (evalT w (lower e) ⟨h, tm⟩).2.h.tr = (evalS w e h).2.tr ∧
    (evalT w (lower e) ⟨h, tm⟩).2.h.env = (evalS w e h).2.env ∧
    (∀ x, (evalS w e h).1 = .err x → x.marker = false) := by
  obtain ⟨h1, h2, h3⟩ := lowering2_preserves_behaviour w e h tm hs
  refine ⟨h1, h2, h3, fun x hx => ?_⟩
  cases hm : x.marker with
  | false => rfl
  | true => exact absurd hx (evalS_nm w x hm e hwf (fun _ => hnp) h)

/-- C05, exponentiation assignment: as above for expressions that may also contain `**=`, for evaluations in
which no operand of `**` is a BigInt (the source evaluation does not report `Exc.bigint`; with a BigInt the
lowered code calls Math.pow and throws: recorded finding c05-bigint-pow, see `bigint_pow_differs`). -/
theorem exponent_assign_lowering_preserves_behaviour (w : World) (e : S) (h : H) (tm : Nat → Val)
    (hwf : e.wf = true) (hs : Safe w e) (hbig : (evalS w e h).1 ≠ .err .bigint) :
    (evalT w (lower e) ⟨h, tm⟩).1 = (evalS w e h).1 ∧
    (evalT w (lower e) ⟨h, tm⟩).2.h.tr = (evalS w e h).2.tr ∧
    (evalT w (lower e) ⟨h, tm⟩).2.h.env = (evalS w e h).2.env ∧
    (∀ x, (evalS w e h).1 = .err x → x.marker = false) := by
  obtain ⟨h1, h2, h3⟩ := lowering2_preserves_behaviour w e h tm hs
  refine ⟨h1, h2, h3, fun x hx => ?_⟩
  cases hm : x.marker with
  | false => rfl
  | true =>
    cases x with
    | bigint => exact absurd hx hbig
    | illFormed => exact absurd hx (evalS_nm w .illFormed rfl e hwf (fun hb => by cases hb) h)
    | typeError => simp [Exc.marker] at hm
    | host v => simp [Exc.marker] at hm

/-- C05, template literals: for every parsed expression without assignments (templates with any number of
substitutions, nested, inside calls, property reads, optional chains and `??`), EVERY world and every state:
same result, same trace (each substitution is evaluated and converted with ToString exactly once, in order,
interleaved as in the source), same user variables; no hypothesis. -/
theorem template_lowering_preserves_behaviour (w : World) (e : S) (h : H) (tm : Nat → Val)
    (hwf : e.wf = true) (hna : e.noAsg = true) :
    (evalT w (lower e) ⟨h, tm⟩).1 = (evalS w e h).1 ∧
    (evalT w (lower e) ⟨h, tm⟩).2.h.tr = (evalS w e h).2.tr ∧
    (evalT w (lower e) ⟨h, tm⟩).2.h.env = (evalS w e h).2.env ∧
    (∀ x, (evalS w e h).1 = .err x → x.marker = false) :=
  logical_assign_lowering_preserves_behaviour w e h tm hwf (safe_of_noAsg w e hna).2 (safe_of_noAsg w e hna).1

/-- where the model stops is exactly where `**` and Math.pow stop agreeing: as long as `powOp` does not report
a BigInt it is both the real `**` and the real Math.pow -/
theorem powOp_faithful (w : World) (bigPow : Int → Int → Int) (l r : Val) (h : H)
    (hb : (powOp w l r h).1 ≠ .err .bigint) :
    powOp w l r h = expoFull w bigPow l r h ∧ powOp w l r h = mathPowFull w l r h := by
  unfold powOp at hb
  unfold powOp expoFull mathPowFull
  rcases hl : toNumeric w l h with ⟨a, h1⟩
  rw [hl] at hb
  cases a with
  | err x => simp
  | val ln =>
    simp only [bindR_val] at hb ⊢
    cases hla : ln.asNum with
    | none => rw [hla] at hb; simp at hb
    | some a =>
      rw [hla] at hb
      simp only at hb ⊢
      rcases hr : toNumeric w r h1 with ⟨b, h2⟩
      rw [hr] at hb
      cases b with
      | err x => simp
      | val rn =>
        simp only [bindR_val] at hb ⊢
        cases hrb : rn.asNum with
        | none => rw [hrb] at hb; simp at hb
        | some b => simp

-- ---------------------------------------------------------------- non-vacuity and the two excluded situations

/-- a world that never reassigns a variable: functions return objects, objects other than obj 1 have numeric
properties whose value depends on how much has happened before, toString of an object gives "k", valueOf gives 2, setters accept everything -/
def exW : World :=
  { host := fun ev tr env =>
      match ev with
      | .call f _ => (.ret (.obj (7 + f)), env)
      | .get (.obj i) k =>
        (if k = pkey 7 then .ret (.fn i) else if k = pkey 6 then .ret (.obj (i + 10))
         else if i = 1 then .ret .undef else .ret (.num (Int.ofNat (i + tr.length))), env)
      | .get _ _ => (.ret .undef, env)
      | .set _ _ _ => (.ret .undef, env)
      | .toPrimS _ => (.ret (.str "k"), env)
      | .toPrimN _ => (.ret (.num 2), env)
      | .callf f _ args => (.ret (.num (Int.ofNat (100 + f + args.length))), env)
      | .del _ _ => (.ret (.bool true), env),
    primNum := fun _ => some 0,
    numPow := fun a b => match a, b with | some a, some b => some (a * b) | _, _ => none,
    thisVal := .obj 5 }

theorem exW_keeps (x : Nat) : Keeps exW x := by
  intro ev tr env
  cases ev <;> simp only [exW]
  · rename_i o k; cases o <;> rfl

def exH : H := { tr := [], env := fun x => if x = 0 then .null else .obj x }

/-- `v1[v2] ??= f0(v3)`: object and key are identifiers (written twice by esbuild), the key is an object whose
toString runs twice, the getter answers undefined, so f0 is called and the setter runs -/
def exNul : S := .asgIdx (.id 1) (.id 2) .nul (.call 0 (.id 3))
example : Safe exW exNul ∧ exNul.wf = true ∧ exNul.noPow = true :=
  ⟨⟨trivial, trivial, trivial, fun x _ => ⟨exW_keeps x, rfl⟩, fun y _ => exW_keeps y⟩, rfl, rfl⟩
example : (evalS exW exNul exH).1 = .val (.obj 7) ∧
    (evalS exW exNul exH).2.tr = [.toPrimS (.obj 2), .get (.obj 1) (.str "k"), .call 0 (.obj 3),
      .toPrimS (.obj 2), .set (.obj 1) (.str "k") (.obj 7)] := by decide
example : (evalT exW (lower exNul) ⟨exH, fun _ => .undef⟩).2.h.tr = (evalS exW exNul exH).2.tr := by decide

/-- `f1(v1).p2 **= f0(v3)` with an object as right operand (a valueOf event): temporaries in use, no BigInt -/
def exPow : S := .asgDot (.call 1 (.id 1)) 2 .pow (.call 0 (.id 3))
example : Safe exW exPow ∧ exPow.wf = true ∧ (evalS exW exPow exH).1 ≠ .err .bigint :=
  ⟨⟨trivial, trivial, fun x hx => by simp [S.asId] at hx⟩, rfl, by decide⟩
example : (evalS exW exPow exH).1 = .val (.num 18) ∧
    (evalS exW exPow exH).2.tr = [.call 1 (.obj 1), .get (.obj 8) (pkey 2), .call 0 (.obj 3), .toPrimN (.obj 7),
      .set (.obj 8) (pkey 2) (.num 18)] := by decide

/-- `a${v1}${v0?.p1 ?? "z"}b`: an object substitution (toString event) and a chain inside a template -/
def exTpl : S := .tcat (.tcat (.tstr "a") (.id 1) "") (.nullish (.optDot (.id 0) 1) (.lit (.str "z"))) "b"
example : exTpl.wf = true ∧ exTpl.noAsg = true := ⟨rfl, rfl⟩
example : (evalS exW exTpl exH).1 = .val (.str "akzb") ∧ (evalS exW exTpl exH).2.tr = [.toPrimS (.obj 1)] := by decide

/-- a world in which the function f0 reassigns the user variable v1 (as `function kk() { o = o2; return 'p' }`
does) -/
def badW : World :=
  { exW with host := fun ev tr env =>
      match ev with
      | .call 0 _ => (.ret (.str "p"), upd env 1 (.obj 9))
      | ev => exW.host ev tr env }

/-- `v1[f0()] ||= 5` is NOT preserved in that world: the source writes property p of the object v1 held when the
target was evaluated (obj 1), the lowered code `v1[_a = f0()] || (v1[_a] = 5)` reads v1 again and writes to obj 9.
`Safe` excludes this (it demands `Keeps badW 1`); run on the real esbuild + Node: see the report. -/
def exHazard : S := .asgIdx (.id 1) (.call 0 (.lit .undef)) .or (.lit (.num 5))
theorem reassigned_base_example_differs :
    (evalS badW exHazard exH).2.tr = [.call 0 .undef, .get (.obj 1) (.str "p"), .set (.obj 1) (.str "p") (.num 5)] ∧
    (evalT badW (lower exHazard) ⟨exH, fun _ => .undef⟩).2.h.tr =
      [.call 0 .undef, .get (.obj 1) (.str "p"), .set (.obj 9) (.str "p") (.num 5)] := by decide

/-- the same through the key expression alone, in a world that never reassigns anything: `v3[v3 &&= v2] &&= 5`
(the key assigns the object variable: the source writes to obj 3, the lowered code to obj 2) -/
def exHazard2 : S := .asgIdx (.id 3) (.asgVar 3 .and (.id 2)) .and (.lit (.num 5))
theorem key_assigns_base_example_differs :
    (evalS exW exHazard2 exH).2.tr ≠ (evalT exW (lower exHazard2) ⟨exH, fun _ => .undef⟩).2.h.tr := by decide

/-- the known finding c05-bigint-pow inside the model: `2n ** 3n` is 8n, `Math.pow(2n, 3n)` throws -/
theorem bigint_pow_differs :
    (expoFull exW (fun a b => a ^ b.toNat) (.big 2) (.big 3) exH).1 = .val (.big 8) ∧
    (mathPowFull exW (.big 2) (.big 3) exH).1 = .err .typeError ∧
    (powOp exW (.big 2) (.big 3) exH).1 = .err .bigint := by decide

end EsbuildModel.Lower2
