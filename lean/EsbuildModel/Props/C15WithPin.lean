import EsbuildModel.Lemmas.ScopesChains
/-!
C15 — MustNotBeRenamed and the `with` statement (hoistSymbols, findSymbol) and the implicit `arguments` binding.

Model: `hoistUp` / `hoistMember` / `findSymbol` of Impl/Scopes.lean, i.e. the loop `for s := scope.Parent; …` of
hoistSymbols and the `if isInsideWithScope` step of findSymbol in internal/js_parser/js_parser.go, with the statements of
the fixes "a 'var' declared in a 'with' body or named 'arguments' in a nested block keeps its name when it is merged into
another declaration" and "a name that must be kept because of a 'with' statement is also kept for the declarations it has
been merged into" (`pinLinks` = `for target := ref; target != InvalidRef; target = symbols[target].Link`).  The kernel
`scope` compares the MustNotBeRenamed flag of every symbol with the real parser.
`isPinned syms r` = `symbols[r].Flags.Has(MustNotBeRenamed)`; `ChainPinned syms m` = every symbol reached from `m` by
following links has the flag (so has the symbol ast.FollowSymbols returns: `ChainPinned.followSym`);
`ChainsEnd syms` = the table has no link cycle (FollowSymbols terminates on every symbol; proved for the tables of flat
programs: `chainsEnd_of_linksInc`).  (Lemmas/ScopesWithPin.lean)

Proved, for the walk of ONE hoisted symbol / for ONE reference (every scope chain, every symbol table):

* `pinned_symbol_pins_merge_target` — one step: the symbol a flagged symbol is merged into is flagged; no flag is ever
  taken away.
* `with_pin_reaches_follow_partial` — a symbol whose walk passes a `with` scope: afterwards EVERY symbol on its link chain
  is flagged, in particular what ast.FollowSymbols returns (the only hypothesis on the table: no link cycle).
* `var_in_with_body_flags_chain` — the same for `with (o) var x;`.
* `flagged_symbol_flags_chain` — the same for a symbol that is flagged when its walk starts.
* `with_reference_flags_chain` — a reference inside a `with` statement: every symbol on the link chain of the symbol it
  resolves to is flagged.
* `hoisted_var_arguments_pins_variable` — a hoisted `var arguments` that reaches the function body: the implicit
  `arguments` symbol is linked to the variable, the variable is flagged and is the end of the chain.

-- OPEN (`with_pin_reaches_follow`, full strength): the chain theorems lifted from ONE walk / ONE reference to the symbol
-- table at the END of the parse.  (The former side condition `NoPassing` is gone: "every chain ends" is shown to survive the
-- link catch parameter -> variable, Lemmas/ScopesChains.lean, by the pigeonhole argument that a chain without a cycle is
-- not longer than the table.  `ChainsEnd` itself is the well-formedness ast.FollowSymbols needs to terminate at all.)
-- Not refuted: the kernel agrees on the flags of every generated program (770 000 cases since the first `with` fix), and
--   function b(o){ try { throw 1 } catch (e) { with(o){ var e = 5 } { var e } return e + "/" + o.e } }  b({e:0})
-- gives "1/5" in Node and in esbuild --minify (current /repo).  What blocks the lift:
-- flags are only added and links are only added on symbols that have none (one walk: proved, `PinKept`), but links ARE added
-- after a flag was set — by later walks of hoistSymbols (always from the symbol that is being hoisted, or from a catch
-- parameter / `arguments` symbol, never from the flagged end of a chain, which is a var / function of an enclosing scope
-- that was hoisted before) and by the visit pass (relinkFns: hoisted variable of a block function -> the function, which is
-- flagged in the same step since commit 984c8f5; lowerClass: inner class name -> class name, which copies the flag).
-- Carrying "every flagged symbol has a flagged chain" through the whole of hoistSymbols needs the invariant that a symbol is
-- hoisted at most once (the disjointness argument of Lemmas/ScopesHoist.lean for links), and it does not hold DURING the
-- visit pass (popScope flags the members of a scope with direct eval one scope at a time).
-/
namespace EsbuildModel.Scopes

/-- a symbol that must not be renamed when hoistSymbols starts to hoist it: whatever it is merged into must not be renamed
either, and no symbol loses the flag -/
theorem pinned_symbol_pins_merge_target (name : Name) (mref orig : Nat) (sl first : Bool) (anc anc' : List Frame)
    (st st' : HSt) (h : hoistUp name mref orig sl first anc st = some (anc', st'))
    (hp : isPinned st.syms mref = true) (hl : linkOf st.syms mref = none)
    (hfr : ∀ X, X ∈ anc → ∀ x, lookup name X.members = some x → x ≠ mref) :
    isPinned st'.syms (target st'.syms mref) = true ∧ PinKept st.syms st'.syms :=
  hoistUp_pinned name mref orig sl first anc st anc' st' h hp hl hfr

/-- a symbol hoisted past a `with` scope (the scopes `pre` below it neither stop the hoisting nor hold the name): every
symbol on its link chain must not be renamed afterwards, in particular the one ast.FollowSymbols returns -/
theorem with_pin_reaches_follow_partial (name : Name) (mref orig : Nat) (sl first : Bool) (pre : List Frame)
    (s : Frame) (post anc' : List Frame) (st st' : HSt)
    (h : hoistUp name mref orig sl first (pre ++ s :: post) st = some (anc', st')) (hw : s.kind = .with_)
    (hpre : LetsThrough name pre) (hm : mref < st.syms.length) (hl : linkOf st.syms mref = none)
    (hfr : ∀ X, X ∈ pre ++ s :: post → ∀ x, lookup name X.members = some x → x ≠ mref) (hce : ChainsEnd st.syms) :
    ChainPinned st'.syms mref ∧ ∀ t, followSym st'.syms mref = some t → isPinned st'.syms t = true := by
  have hc := hoistUp_past_with_chain' name mref orig sl pre first s post st anc' st' h hw hpre hm hl hfr hce
  exact ⟨hc, fun t ht => hc.followSym ht⟩

/-- `with (o) var x;` -/
theorem var_in_with_body_flags_chain (anc anc' : List Frame) (f f' : Frame) (st st' : HSt) (mref : Nat) (sym : Sym)
    (h : hoistMember anc f st mref = some (anc', f', st')) (hw : f.kind = .with_) (hs : st.syms[mref]? = some sym)
    (hk : sym.kind = .hoisted) (hl : linkOf st.syms mref = none)
    (hfr : ∀ X, X ∈ anc → ∀ x, lookup sym.name X.members = some x → x ≠ mref) (hce : ChainsEnd st.syms) :
    ChainPinned st'.syms mref ∧ ∀ t, followSym st'.syms mref = some t → isPinned st'.syms t = true := by
  have hc := hoistMember_with_body_chain' h hw hs hk hl hfr hce
  exact ⟨hc, fun t ht => hc.followSym ht⟩

/-- a symbol that must not be renamed when hoistSymbols starts to hoist it -/
theorem flagged_symbol_flags_chain (name : Name) (mref orig : Nat) (sl first : Bool) (anc anc' : List Frame)
    (st st' : HSt) (h : hoistUp name mref orig sl first anc st = some (anc', st'))
    (hp : isPinned st.syms mref = true) (hl : linkOf st.syms mref = none)
    (hfr : ∀ X, X ∈ anc → ∀ x, lookup name X.members = some x → x ≠ mref) (hce : ChainsEnd st.syms) :
    ChainPinned st'.syms mref ∧ ∀ t, followSym st'.syms mref = some t → isPinned st'.syms t = true := by
  have hc := hoistUp_pinned_chain' name mref orig sl first anc st anc' st' h hp hl hfr hce
  exact ⟨hc, fun t ht => hc.followSym ht⟩

/-- an identifier reference inside a `with` statement -/
theorem with_reference_flags_chain (chain : List Frame) (syms : Syms) (n : Name) (r : Nat)
    (hfound : findLoop n false chain = .member r true) (hce : ChainsEnd syms) (hr : r < syms.length) :
    (findSymbol chain syms n).2.2 = r ∧ ChainPinned (findSymbol chain syms n).2.1 r ∧
    ∀ t, followSym (findSymbol chain syms n).2.1 r = some t → isPinned (findSymbol chain syms n).2.1 t = true := by
  obtain ⟨h1, h2⟩ := findSymbol_with_chain chain syms n r hfound hce hr
  exact ⟨h1, h2, fun t ht => h2.followSym ht⟩

/-- `function f() { { var arguments } }` -/
theorem hoisted_var_arguments_pins_variable (name : Name) (mref orig : Nat) (first : Bool) (s : Frame) (rest anc' : List Frame)
    (st st' : HSt) (ex : Nat) (h : hoistUp name mref orig false first (s :: rest) st = some (anc', st'))
    (hex : lookup name s.members = some ex) (hk : kindOf? st.syms ex = some .arguments) (hne : ex ≠ mref)
    (hm : mref < st.syms.length) (hl : linkOf st.syms mref = none) (hstop : s.kind.stopsHoisting = true) :
    linkOf st'.syms ex = some mref ∧ isPinned st'.syms mref = true ∧ linkOf st'.syms mref = none :=
  hoistUp_arguments name mref orig first s rest st anc' st' ex h hex hk hne hm hl hstop

-- non-vacuity -------------------------------------------------------------------------------------------------------------

/-- `function f(o) { var x; { o; with (o) { var x } } }` (o = 9, x = 2): symbols 0 = o, 1 = arguments, 2 = x of the function,
3 = x of the block in the `with` body -/
def exWith : List Item :=
  [.scope .fnArgs false none [.decl .hoisted 9, .declArgs, .scope .fnBody false none
    [.decl .hoisted 2, .scope .block false none [.ref 9, .scope .with_ false none [.scope .block false none [.decl .hoisted 2]]]]]]

example : (run true false false exWith).map (fun r => (followSym r.syms 3, isPinned r.syms 2)) = some (some 2, true) := by
  decide +kernel

/-- `function f(o) { var x; { var x; o; with (o) { var x } } }`: the innermost x (4) is merged into the x of the block (3), which
was merged into the x of the function (2) before: all three are flagged (before the second fix 2 was not) -/
def exChain : List Item :=
  [.scope .fnArgs false none [.decl .hoisted 9, .declArgs, .scope .fnBody false none
    [.decl .hoisted 2, .scope .block false none
      [.decl .hoisted 2, .ref 9, .scope .with_ false none [.scope .block false none [.decl .hoisted 2]]]]]]

example : (run true false false exChain).map (fun r => (followSym r.syms 4, isPinned r.syms 3, isPinned r.syms 2)) =
    some (some 2, true, true) := by decide +kernel

/-- `function f(o) { var x; { var x; with (o) { x } } }`: the reference (symbol 3, the x of the block) is made inside `with`; the
x of the function (2), which 3 is linked to, is flagged too -/
def exRef : List Item :=
  [.scope .fnArgs false none [.decl .hoisted 9, .declArgs, .scope .fnBody false none
    [.decl .hoisted 2, .scope .block false none
      [.decl .hoisted 2, .ref 9, .scope .with_ false none [.scope .block false none [.ref 2]]]]]]

example : (run true false false exRef).map (fun r => (r.refs, followSym r.syms 3, isPinned r.syms 3, isPinned r.syms 2)) =
    some ([0, 3], some 2, true, true) := by decide +kernel

/-- `function f(o) { try {} catch (x) { o; with (o) { var x } } }` (x = 2): the variable (3) passes the catch parameter (2), which
is linked to it, and is installed in the function body; it is flagged -/
def exCatch : List Item :=
  [.scope .fnArgs false none [.decl .hoisted 9, .declArgs, .scope .fnBody false none
    [.scope .block false none [], .scope .catchBinding false none [.decl .catchIdentifier 2, .scope .block false none
      [.ref 9, .scope .with_ false none [.scope .block false none [.decl .hoisted 2]]]]]]]

example : (run true false false exCatch).map (fun r => (followSym r.syms 2, isPinned r.syms 3)) = some (some 3, true) := by
  decide +kernel

/-- `function a(o) { o; with (o) { { function g() {} } } }` (g = 3): the hoisted variable of the block function (4) went past the
`with`, so the rewrite of the block function is given up in the visit pass (commit 984c8f5): the function (3) is flagged
and the variable is linked to it -/
def exBlockFn : List Item :=
  [.scope .fnArgs false none [.decl .hoisted 9, .declArgs, .scope .fnBody false none
    [.ref 9, .scope .with_ false none [.scope .block false none [.scope .block false none
      [.scope .fnArgs false none [.declArgs, .scope .fnBody false none []], .decl .hoistedFunction 3]]]]]]

example : (run true false false exBlockFn).map (fun r => (r.hmap, followSym r.syms 4, isPinned r.syms 3, isPinned r.syms 4)) =
    some ([(3, 4)], some 3, true, true) := by decide +kernel

/-- `function f() { { var arguments } }`: the implicit symbol (0) is linked to the variable (1), which is flagged -/
def exArgs : List Item :=
  [.scope .fnArgs false none [.declArgs, .scope .fnBody false none [.scope .block false none [.decl .hoisted 0]]]]

example : (run true false false exArgs).map (fun r => (followSym r.syms 0, isPinned r.syms 1)) = some (some 1, true) := by
  decide +kernel

end EsbuildModel.Scopes
