/-
C12 (CSS minification preserves the cascade) for the RULE level: duplicate rule removal, merging of adjacent rules,
unwrapping of a nested identical `@media`, and the whole of `mangleRules` + the linker's cross-file pass.

Model: Impl/CssRules.lean (what css_parser.go `mangleRules`, `RemoveDeadRulesInPlace` and the linker do).
Specification: Spec/RuleCascade.lean (`winner`: the cascaded value for every sheet, environment, element, property).
Reading of a model tree as a sheet of the specification: Impl/CssRulesDenote.lean (`denoteSheet R`, for every reading `R`
of the opaque texts that satisfies `Reading.Sound`).

Every theorem is for ALL rule trees (any length, any nesting depth), all readings, environments, elements and
properties.  The ONLY hypothesis is `R.Sound`: the reading respects what the code treats as equal (`Equal`), safe
(`isSafeSelectors` ⇒ the user agent understands the selector) and dead (`:is()` matches nothing).  There is no side
condition on the style sheet any more.

History: an earlier version of these theorems needed a side condition (`tameRules`: no nested rules inside a style
rule that is merged or dropped as dead) and a `sel_eq` that identified `:x` with `:x()`; the proof obligations that
the code did not meet were three defects (merging parents of nested rules changes the specificity of `&`;
`SSPseudoClass.Equal` could not tell `:x` from `:x()`; a dead `:is(){@layer x{}}` was dropped with its layer
declaration).  They are repaired in esbuild (`containsNestedRules`, `Args == nil`), the model follows, and the old
counterexamples are kept below as examples on which input and output now agree.
-/
import EsbuildModel.Lemmas.CssRules
import EsbuildModel.Lemmas.CssRulesExample

namespace EsbuildModel.CssRules

open EsbuildModel.Spec.RuleCascade

variable {Elem Env Pr Val : Type}

/-! ## 1. removal of an earlier duplicate -/

/-- Removing a rule `r` in front of a LATER rule `r'` that the code calls `Equal` (`ruleEq r r'`: same selectors and
same body; never an `@layer` or `@import` rule) leaves every winner unchanged, whatever stands before, between and
after the two – no rule between them acts as a barrier. -/
theorem remove_earlier_duplicate_preserves_cascade (R : Reading Elem Env Pr Val) (hR : R.Sound)
    (pre mid post : List Rule) (r r' : Rule) (heq : ruleEq r r' = true) (env : Env) (e : Elem) (p : Pr) :
    winner (denoteSheet R [pre ++ mid ++ r' :: post]) env e p =
      winner (denoteSheet R [pre ++ r :: mid ++ r' :: post]) env e p := by
  apply EquivOn.winner_eq
  simp only [denoteSheet, List.flatten_cons, List.flatten_nil, List.append_nil, denoteRules_append, denoteRules,
    List.append_assoc]
  refine EquivOn.append (EquivOn.refl _ _) ?_
  have hhead : Absorbs R (fun _ => True) none (denoteRule R none r' ++ denoteRules R none post) r := by
    rw [← denoteRule_eq_of_ruleEq R hR r r' none heq]
    exact absorbs_head R _ none _ r (fun env ctx => declared_nil_of_ruleEq R r r' none env ctx heq)
  exact ((hhead.append_left (denoteRules R none mid)).equiv).symm

/-- `RemoveDeadRulesInPlace` as the linker runs it (one remover, last file first, over the top-level rules of all
files of a chunk) preserves every winner: both the removal of duplicates and the removal of rules all of whose
selectors are dead (which the code only does when the rule has no nested rules). -/
theorem removeDeadRules_preserves_cascade (R : Reading Elem Env Pr Val) (hR : R.Sound) (files : List (List Rule))
    (env : Env) (e : Elem) (p : Pr) :
    winner (denoteSheet R (linkFiles files)) env e p = winner (denoteSheet R files) env e p :=
  (linkFiles_equiv R hR (fun _ => True) files).winner_eq env e p

/-! ## 2. merging adjacent rules -/

/-- `a{B} b{B'}` → `a,b{B}` under EXACTLY the conditions of `mangleRules` (`RulesEqual(B', B)`, both lists
`isSafeSelectors`, `!containsNestedRules(B')`; selectors already present are not repeated) preserves every winner
PROVIDED the user agent understands every safe selector (`R.Sound.safe_sel`). -/
theorem merge_adjacent_preserves_cascade (R : Reading Elem Env Pr Val) (hR : R.Sound)
    (pre post : List Rule) (prevSels sels : List Complex) (prevBody body : List Rule)
    (heq : rulesEq body prevBody = true) (h1 : isSafeSelectors sels = true) (h2 : isSafeSelectors prevSels = true)
    (hnn : containsNestedRules body = false) (env : Env) (e : Elem) (p : Pr) :
    winner (denoteSheet R [pre ++ .sel (mergeSelectors prevSels sels) prevBody :: post]) env e p =
      winner (denoteSheet R [pre ++ .sel prevSels prevBody :: .sel sels body :: post]) env e p := by
  apply EquivOn.winner_eq
  simp only [denoteSheet, List.flatten_cons, List.flatten_nil, List.append_nil, denoteRules_append, denoteRules]
  refine EquivOn.append (EquivOn.refl _ _) ?_
  rw [← List.append_assoc]
  exact EquivOn.append
    (equiv_merge_rules R hR _ none prevSels sels prevBody body heq (plain_of_not_nested hnn) h1 h2).symm
    (EquivOn.refl _ _)

/-! ## 3. unwrapping a nested `@media` with the same queries -/

/-- `@media M { A  @media M { X }  B }` → `@media M { A X B }` -/
theorem unwrap_nested_same_media_preserves_cascade (R : Reading Elem Env Pr Val)
    (pre post a x b : List Rule) (q : String) (env : Env) (e : Elem) (p : Pr) :
    winner (denoteSheet R [pre ++ .media q (a ++ x ++ b) :: post]) env e p =
      winner (denoteSheet R [pre ++ .media q (a ++ .media q x :: b) :: post]) env e p := by
  apply EquivOn.winner_eq
  simp only [denoteSheet, List.flatten_cons, List.flatten_nil, List.append_nil, denoteRules_append, denoteRules,
    denoteRule, List.append_assoc]
  refine EquivOn.append (EquivOn.refl _ _) (EquivOn.append ?_ (EquivOn.refl _ _))
  apply EquivOn.group
  refine EquivOn.append (EquivOn.refl _ _) (EquivOn.append ?_ (EquivOn.refl _ _))
  exact (equiv_unwrap (R.media q) _ (fun env hp => hp.2)).symm

/-! ## the whole minifier -/

/-- what `css_parser.Parse` does to the rules of one file under `MinifySyntax` -/
theorem mangleFile_preserves_cascade (R : Reading Elem Env Pr Val) (hR : R.Sound) (rules : List Rule)
    (env : Env) (e : Elem) (p : Pr) :
    winner (denoteSheet R [mangleFile rules]) env e p = winner (denoteSheet R [rules]) env e p := by
  apply EquivOn.winner_eq
  have c2 := mangleChildren_spec R hR rules (fun _ => True) none [] (by simp)
  have m2 := mangleRules_spec R hR (fun _ => True) none [] (by simp) true (mangleChildren [] rules)
  simpa [denoteSheet, mangleFile] using EquivOn.trans m2 c2

/-- Every file parsed with `MinifySyntax` (`mangleRules` at every level of the tree, duplicate selectors dropped),
then the linker's duplicate removal across the files: the computed style of every element is the same as for the
unminified files concatenated – for every chunk, with no side condition. -/
theorem minifyChunk_preserves_cascade (R : Reading Elem Env Pr Val) (hR : R.Sound) (files : List (List Rule))
    (env : Env) (e : Elem) (p : Pr) :
    winner (denoteSheet R (minifyChunk files)) env e p = winner (denoteSheet R files) env e p := by
  apply EquivOn.winner_eq
  have hfiles : ∀ (fs : List (List Rule)),
      EquivOn (fun _ : Env => True) (denoteSheet R (fs.map mangleFile)) (denoteSheet R fs) := by
    intro fs
    induction fs with
    | nil => exact EquivOn.refl _ _
    | cons f fs ih =>
      simp only [denoteSheet, List.map_cons, List.flatten_cons, denoteRules_append]
      refine EquivOn.append ?_ ih
      have c2 := mangleChildren_spec R hR f (fun _ => True) none [] (by simp)
      have m2 := mangleRules_spec R hR (fun _ => True) none [] (by simp) true (mangleChildren [] f)
      exact EquivOn.trans m2 c2
  exact EquivOn.trans (linkFiles_equiv R hR _ _) (hfiles files)

/-! ## non-vacuity, the necessity of `safe_sel`, and the three repaired defects

The reading `Example.reading` (Lemmas/CssRulesExample.lean): an element is (its own class/id names, those of its
ancestors); `& child` is `:is(parent list) child`; the user agent does not know `:-x-foo` and rejects `:hover()`;
Env = truth of `@media m`. -/

namespace Examples

open Example

def cls (n : String) : Compound := ⟨0, 0, none, [.cls n]⟩
def idSel (n : String) : Compound := ⟨0, 0, none, [.hash n]⟩
def color (v : String) (imp : Bool := false) : Rule := .decl "color" v imp

/-- the hypothesis of the theorems can be met, by a reading that tells `:hover` from `:hover()` -/
example : reading.Sound := reading_sound

/-- a chunk of two files on which every modelled rewrite fires:
file 1: `.a{color:red} .b{color:red} @media m{ .a{color:blue} @media m{.b{color:blue}} .c{} }  #i.a{color:green}`
file 2: `@layer l{} @layer k{@layer l{.a{color:pink!important}}}  #i.a{color:green}  .a,.a{width:1}` -/
def file1 : List Rule :=
  [.sel [[cls "a"]] [color "red"], .sel [[cls "b"]] [color "red"],
   .media "m" [.sel [[cls "a"]] [color "blue"], .media "m" [.sel [[cls "b"]] [color "blue"]], .sel [[cls "c"]] []],
   .sel [[⟨0, 0, none, [.hash "i", .cls "a"]⟩]] [color "green"]]
def file2 : List Rule :=
  [.layerBlock [["l"]] 1 [], .layerBlock [["k"]] 2 [.layerBlock [["l"]] 3 [.sel [[cls "a"]] [color "pink" true]]],
   .sel [[⟨0, 0, none, [.hash "i", .cls "a"]⟩]] [color "green"], .sel [[cls "a"], [cls "a"]] [.decl "width" "1" false]]

set_option maxRecDepth 8192 in
/-- merged `.a,.b`, inner `@media m` unwrapped, empty `.c{}` gone, `#i.a{…}` of file 1 removed as a
duplicate of the one in file 2, `@layer l{}` → `@layer l;`, `@layer k{@layer l{…}}` → `@layer k.l{…}`, `.a,.a` → `.a` -/
example : (minifyChunk [file1, file2]).map showRules = List.map showRules
    [[.sel [[cls "a"], [cls "b"]] [color "red"],
      .media "m" [.sel [[cls "a"]] [color "blue"], .sel [[cls "b"]] [color "blue"]]],
     [.layerStmt [["l"]], .layerBlock [["k", "l"]] 2 [.sel [[cls "a"]] [color "pink" true]],
      .sel [[⟨0, 0, none, [.hash "i", .cls "a"]⟩]] [color "green"], .sel [[cls "a"]] [.decl "width" "1" false]]] := by
  decide

/-- the winners are not trivial (and equal, as `minifyChunk_preserves_cascade` says) -/
example : winner (denoteSheet reading [file1, file2]) true ⟨["a"], []⟩ "color" = some "pink" ∧
    winner (denoteSheet reading (minifyChunk [file1, file2])) true ⟨["a"], []⟩ "color" = some "pink" ∧
    winner (denoteSheet reading [file1, file2]) true ⟨["b"], []⟩ "color" = some "blue" ∧
    winner (denoteSheet reading (minifyChunk [file1, file2])) true ⟨["b"], []⟩ "color" = some "blue" ∧
    winner (denoteSheet reading [file1, file2]) false ⟨["b"], []⟩ "color" = some "red" ∧
    winner (denoteSheet reading (minifyChunk [file1, file2])) false ⟨["b"], []⟩ "color" = some "red" ∧
    winner (denoteSheet reading [file1, file2]) false ⟨["i", "a"], []⟩ "width" = some "1" := by decide

/-- hypotheses of `remove_earlier_duplicate_preserves_cascade` and `merge_adjacent_preserves_cascade` -/
example : ruleEq (.sel [[cls "a"]] [color "red"]) (.sel [[cls "a"]] [color "red"]) = true ∧
    rulesEq [color "red"] [color "red"] = true ∧ isSafeSelectors [[cls "a"]] = true ∧
    isSafeSelectors [[cls "b"]] = true ∧ containsNestedRules [color "red"] = false := by decide

/-- WITHOUT "the user agent understands both lists" (`safe_sel`; the reason why `isSafeSelectors` exists): merging
`.a{color:red}` with `.b:-x-foo{color:red}` – which the code refuses, `isSafeSelectors` is false – would kill the rule
for `.a`: the unknown pseudo-class invalidates the whole merged selector list. -/
def xfoo : Complex := [⟨0, 0, none, [.cls "b", .pseudo "-x-foo" false "" false]⟩]
example : isSafeSelectors [xfoo] = false ∧
    winner (denoteSheet reading [[.sel [[cls "a"]] [color "red"], .sel [xfoo] [color "red"]]]) true ⟨["a"], []⟩ "color"
      = some "red" ∧
    winner (denoteSheet reading [[.sel (mergeSelectors [[cls "a"]] [xfoo]) [color "red"]]]) true ⟨["a"], []⟩ "color"
      = none := by decide

/-- REPAIRED (was `merge_needs_tameness`): `.c.d.x{color:blue}  .a{.x{color:red}}  #b{.x{color:red}}` – the two parents
of equal nested rules are no longer merged (merged, `&` = `:is(.a,#b)` would lift the nested rule from (0,2,0) to
(1,1,0) and turn blue into red for `<* class=a><* class="x c d">`); input and output agree. -/
def nested : List Rule :=
  [.sel [[⟨0, 0, none, [.cls "c", .cls "d", .cls "x"]⟩]] [color "blue"],
   .sel [[cls "a"]] [.sel [[cls "x"]] [color "red"]], .sel [[idSel "b"]] [.sel [[cls "x"]] [color "red"]]]
set_option maxRecDepth 8192 in
theorem nested_rules_not_merged :
    showRules (mangleFile nested) = showRules nested ∧
    winner (denoteSheet reading [nested]) true ⟨["x", "c", "d"], ["a"]⟩ "color" = some "blue" ∧
    winner (denoteSheet reading [mangleFile nested]) true ⟨["x", "c", "d"], ["a"]⟩ "color" = some "blue" ∧
    -- what the merged rule would have given:
    winner (denoteSheet reading [[nested.head!, .sel [[cls "a"], [idSel "b"]] [.sel [[cls "x"]] [color "red"]]]]) true
      ⟨["x", "c", "d"], ["a"]⟩ "color" = some "red" := by decide

set_option maxRecDepth 8192 in
/-- nested rules inside a rule that is removed as a DUPLICATE need no condition
(`remove_earlier_duplicate_preserves_cascade` has none): `.a{.x{color:red}} .b{color:blue} .a{.x{color:red}}` -/
example :
    (linkFiles [[.sel [[cls "a"]] [.sel [[cls "x"]] [color "red"]], .sel [[cls "b"]] [color "blue"],
      .sel [[cls "a"]] [.sel [[cls "x"]] [color "red"]]]]).map showRules =
      [showRules [.sel [[cls "b"]] [color "blue"], .sel [[cls "a"]] [.sel [[cls "x"]] [color "red"]]]] ∧
    winner (denoteSheet reading [[.sel [[cls "a"]] [.sel [[cls "x"]] [color "red"]], .sel [[cls "b"]] [color "blue"],
      .sel [[cls "a"]] [.sel [[cls "x"]] [color "red"]]]]) true ⟨["x", "b"], ["a"]⟩ "color" = some "red" ∧
    winner (denoteSheet reading (linkFiles [[.sel [[cls "a"]] [.sel [[cls "x"]] [color "red"]],
      .sel [[cls "b"]] [color "blue"], .sel [[cls "a"]] [.sel [[cls "x"]] [color "red"]]]])) true ⟨["x", "b"], ["a"]⟩ "color"
      = some "red" := by decide

/-- REPAIRED: `:is(){@layer x{}}  @layer y{.a{color:red}}  @layer x{.a{color:blue}}` – the dead rule is kept because it
contains a nested rule (dropping it dropped the first declaration of layer `x` and flipped the layer order: red
became blue); a dead rule with declarations only is still dropped. -/
def deadLayer : List Rule :=
  [.sel [[⟨0, 0, none, [.pseudoList "is" "" true]⟩]] [.layerBlock [["x"]] 1 []],
   .layerBlock [["y"]] 2 [.sel [[cls "a"]] [color "red"]], .layerBlock [["x"]] 3 [.sel [[cls "a"]] [color "blue"]]]
set_option maxRecDepth 8192 in
example : (linkFiles [deadLayer]).map showRules = [showRules deadLayer] ∧
    winner (denoteSheet reading [deadLayer]) true ⟨["a"], []⟩ "color" = some "red" ∧
    winner (denoteSheet reading (linkFiles [deadLayer])) true ⟨["a"], []⟩ "color" = some "red" ∧
    winner (denoteSheet reading [deadLayer.tail]) true ⟨["a"], []⟩ "color" = some "blue" ∧
    (linkFiles [[.sel [[⟨0, 0, none, [.pseudoList "is" "" true]⟩]] [color "red"]]]).map showRules = [showRules []] := by
  decide

/-- REPAIRED: `a:hover{color:red}  a:hover(){color:red}` – `Equal` now tells "no arguments" from "empty argument
list", both rules are kept, and the user agent of `reading` (which rejects `:hover()`) still styles `a:hover`.
Removing the first copy would have lost the style. -/
def hover (hasArgs : Bool) : Complex := [⟨0, 0, none, [.cls "a", .pseudo "hover" hasArgs "" false]⟩]
set_option maxRecDepth 8192 in
example : complexEq (hover false) (hover true) = false ∧
    (reading.sel (hover false)).understood = true ∧ (reading.sel (hover true)).understood = false ∧
    (linkFiles [[.sel [hover false] [color "red"], .sel [hover true] [color "red"]]]).map showRules =
      [showRules [.sel [hover false] [color "red"], .sel [hover true] [color "red"]]] ∧
    winner (denoteSheet reading [[.sel [hover false] [color "red"], .sel [hover true] [color "red"]]]) true ⟨["a"], []⟩ "color"
      = some "red" ∧
    winner (denoteSheet reading (linkFiles [[.sel [hover false] [color "red"], .sel [hover true] [color "red"]]])) true
      ⟨["a"], []⟩ "color" = some "red" ∧
    winner (denoteSheet reading [[.sel [hover true] [color "red"]]]) true ⟨["a"], []⟩ "color" = none := by decide

end Examples

end EsbuildModel.CssRules
