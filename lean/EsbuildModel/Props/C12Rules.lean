/-
C12 (CSS minification preserves the cascade) for the RULE level: duplicate rule removal, merging of adjacent rules,
unwrapping of a nested identical `@media`, and the whole of `mangleRules` + the linker's cross-file pass.

Model: Impl/CssRules.lean (what css_parser.go `mangleRules`, `RemoveDeadRulesInPlace` and the linker do).
Specification: Spec/RuleCascade.lean (`winner`: the cascaded value for every sheet, environment, element, property).
Reading of a model tree as a sheet of the specification: Impl/CssRulesDenote.lean (`denoteSheet R`, for every reading `R`
of the opaque texts that satisfies `Reading.Sound`).

Every theorem is for ALL rule trees (any length, any nesting depth), all readings, environments, elements and
properties.  Each hypothesis is something the PROOF needs and the code does not establish by itself:
* `R.Sound`: the reading respects what the code treats as equal / safe / dead.  Real user agents violate `sel_eq` for
  `:hover` vs `:hover()` (SSPseudoClass.Equal cannot tell them apart; the second is invalid) – see the report.
* `tameRules`: a style rule that may be merged (some selector is IE7-"safe") or dropped as dead contains only
  declarations.  `merge_needs_tameness` below shows that `mangleFile` changes a winner without it (nested rules:
  `&` takes the specificity of the whole merged list) – a defect of the code, reproduced on the real binary.
-/
import EsbuildModel.Lemmas.CssRules
import EsbuildModel.Lemmas.CssRulesExample

namespace EsbuildModel.CssRules

open EsbuildModel.Spec.RuleCascade

variable {Elem Env Pr Val : Type}

/-! ## 1. removal of an earlier duplicate -/

/-- Removing a rule `r` in front of a LATER rule `r'` that the code calls `Equal` (`ruleEq r r'`: same selectors and
same body; never an `@layer` or `@import` rule) leaves every winner unchanged, whatever stands before, between and
after the two – no rule between them acts as a barrier. -/
theorem remove_earlier_duplicate_preserves_cascade (R : Reading Elem Env Pr Val) (hR : R.Sound)
    (pre mid post : List Rule) (r r' : Rule) (heq : ruleEq r r' = true) (env : Env) (e : Elem) (p : Pr) :
    winner (denoteSheet R [pre ++ mid ++ r' :: post]) env e p =
      winner (denoteSheet R [pre ++ r :: mid ++ r' :: post]) env e p := by
  apply EquivOn.winner_eq
  simp only [denoteSheet, List.flatten_cons, List.flatten_nil, List.append_nil, denoteRules_append, denoteRules,
    List.append_assoc]
  refine EquivOn.append (EquivOn.refl _ _) ?_
  have hhead : Absorbs R (fun _ => True) none (denoteRule R none r' ++ denoteRules R none post) r := by
    rw [← denoteRule_eq_of_ruleEq R hR r r' none heq]
    exact absorbs_head R _ none _ r (fun env ctx => declared_nil_of_ruleEq R r r' none env ctx heq)
  exact ((hhead.append_left (denoteRules R none mid)).equiv).symm

/-- `RemoveDeadRulesInPlace` as the linker runs it (one remover, last file first, over the top-level rules of all
files of a chunk) preserves every winner.  Hypothesis: a top-level rule that is dropped because all its selectors are
dead (`:is()`) contains only declarations. -/
theorem removeDeadRules_preserves_cascade (R : Reading Elem Env Pr Val) (hR : R.Sound) (files : List (List Rule))
    (hflat : ∀ f ∈ files, ∀ r ∈ f, r.deadFlat = true) (env : Env) (e : Elem) (p : Pr) :
    winner (denoteSheet R (linkFiles files)) env e p = winner (denoteSheet R files) env e p :=
  (linkFiles_equiv R hR (fun _ => True) files hflat).winner_eq env e p

/-! ## 2. merging adjacent rules -/

/-- `a{B} b{B'}` → `a,b{B}` (what `mangleRules` does when `RulesEqual(B', B)` and both lists are
`isSafeSelectors`; selectors already present are not repeated) preserves every winner PROVIDED the user agent
understands every safe selector (`R.Sound.safe_sel`) and the body consists of declarations only. -/
theorem merge_adjacent_preserves_cascade (R : Reading Elem Env Pr Val) (hR : R.Sound)
    (pre post : List Rule) (prevSels sels : List Complex) (prevBody body : List Rule)
    (heq : rulesEq body prevBody = true) (h1 : isSafeSelectors sels = true) (h2 : isSafeSelectors prevSels = true)
    (hflat : body.all Rule.isDeclOrComment = true) (env : Env) (e : Elem) (p : Pr) :
    winner (denoteSheet R [pre ++ .sel (mergeSelectors prevSels sels) prevBody :: post]) env e p =
      winner (denoteSheet R [pre ++ .sel prevSels prevBody :: .sel sels body :: post]) env e p := by
  apply EquivOn.winner_eq
  simp only [denoteSheet, List.flatten_cons, List.flatten_nil, List.append_nil, denoteRules_append, denoteRules]
  refine EquivOn.append (EquivOn.refl _ _) ?_
  rw [← List.append_assoc]
  exact EquivOn.append (equiv_merge_rules R hR _ none prevSels sels prevBody body heq hflat h1 h2).symm
    (EquivOn.refl _ _)

/-! ## 3. unwrapping a nested `@media` with the same queries -/

/-- `@media M { A  @media M { X }  B }` → `@media M { A X B }` -/
theorem unwrap_nested_same_media_preserves_cascade (R : Reading Elem Env Pr Val)
    (pre post a x b : List Rule) (q : String) (env : Env) (e : Elem) (p : Pr) :
    winner (denoteSheet R [pre ++ .media q (a ++ x ++ b) :: post]) env e p =
      winner (denoteSheet R [pre ++ .media q (a ++ .media q x :: b) :: post]) env e p := by
  apply EquivOn.winner_eq
  simp only [denoteSheet, List.flatten_cons, List.flatten_nil, List.append_nil, denoteRules_append, denoteRules,
    denoteRule, List.append_assoc]
  refine EquivOn.append (EquivOn.refl _ _) (EquivOn.append ?_ (EquivOn.refl _ _))
  apply EquivOn.group
  refine EquivOn.append (EquivOn.refl _ _) (EquivOn.append ?_ (EquivOn.refl _ _))
  exact (equiv_unwrap (R.media q) _ (fun env hp => hp.2)).symm

/-! ## the whole minifier -/

/-- what `css_parser.Parse` does to the rules of one file under `MinifySyntax` -/
theorem mangleFile_preserves_cascade (R : Reading Elem Env Pr Val) (hR : R.Sound) (rules : List Rule)
    (ht : tameRules rules = true) (env : Env) (e : Elem) (p : Pr) :
    winner (denoteSheet R [mangleFile rules]) env e p = winner (denoteSheet R [rules]) env e p := by
  apply EquivOn.winner_eq
  obtain ⟨c1, c2⟩ := mangleChildren_spec R hR rules (fun _ => True) none [] (by simp) ht
  obtain ⟨_, m2⟩ := mangleRules_spec R hR (fun _ => True) none [] (by simp) true _ c1
  simpa [denoteSheet, mangleFile] using EquivOn.trans m2 c2

theorem mangleFile_tame (rules : List Rule) (ht : tameRules rules = true) : tameRules (mangleFile rules) = true := by
  -- tameness does not depend on the reading: use the trivial one
  let R : Reading Unit Unit Unit Unit :=
    { sel := fun _ => ⟨fun _ => false, ⟨0, 0, 0⟩, true⟩, nest := fun S _ => ⟨fun _ => false, ⟨0, 0, 0⟩, S.all (·.understood)⟩,
      decl := fun _ _ _ => none, media := fun _ _ => true, group := fun _ _ => none }
  have hR : R.Sound :=
    { sel_eq := fun _ _ _ => rfl, nest_eq := fun _ _ _ _ => rfl
      nest_parent := by
        intro S S' c h
        show (⟨_, _, S.all (·.understood)⟩ : Selector Unit) = ⟨_, _, S'.all (·.understood)⟩
        have : S.all (·.understood) = S'.all (·.understood) := by
          rw [Bool.eq_iff_iff, List.all_eq_true, List.all_eq_true]
          exact ⟨fun hh x hx => hh x ((h x).mpr hx), fun hh x hx => hh x ((h x).mp hx)⟩
        rw [this]
      group_eq := fun _ _ _ _ => rfl, dead_sel := fun _ _ _ => rfl, dead_nest := fun _ _ _ _ => rfl
      safe_sel := fun _ _ => rfl, safe_nest := fun _ _ _ => rfl }
  obtain ⟨c1, _⟩ := mangleChildren_spec R hR rules (fun _ => True) none [] (by simp) ht
  exact (mangleRules_spec R hR (fun _ => True) none [] (by simp) true _ c1).1

/-- Every file parsed with `MinifySyntax` (`mangleRules` at every level of the tree, duplicate selectors dropped),
then the linker's duplicate removal across the files: the computed style of every element is the same as for the
unminified files concatenated. -/
theorem minifyChunk_preserves_cascade (R : Reading Elem Env Pr Val) (hR : R.Sound) (files : List (List Rule))
    (ht : ∀ f ∈ files, tameRules f = true) (env : Env) (e : Elem) (p : Pr) :
    winner (denoteSheet R (minifyChunk files)) env e p = winner (denoteSheet R files) env e p := by
  apply EquivOn.winner_eq
  have hfiles : ∀ (fs : List (List Rule)), (∀ f ∈ fs, tameRules f = true) →
      EquivOn (fun _ : Env => True) (denoteSheet R (fs.map mangleFile)) (denoteSheet R fs) := by
    intro fs
    induction fs with
    | nil => intro _; exact EquivOn.refl _ _
    | cons f fs ih =>
      intro h
      simp only [denoteSheet, List.map_cons, List.flatten_cons, denoteRules_append]
      refine EquivOn.append ?_ (ih (fun g hg => h g (by simp [hg])))
      obtain ⟨c1, c2⟩ := mangleChildren_spec R hR f (fun _ => True) none [] (by simp) (h f (by simp))
      obtain ⟨_, m2⟩ := mangleRules_spec R hR (fun _ => True) none [] (by simp) true _ c1
      exact EquivOn.trans m2 c2
  refine EquivOn.trans (linkFiles_equiv R hR _ _ ?_) (hfiles files ht)
  intro f hf r hr
  obtain ⟨g, hg, rfl⟩ := List.mem_map.mp hf
  have := mangleFile_tame g (ht g hg)
  rw [tameRules_iff] at this
  exact tameRule.deadFlat (this r hr)

/-! ## non-vacuity, and what happens without the hypotheses

The reading `Example.reading` (Lemmas/CssRulesExample.lean): an element is (its own class/id names, those of its
ancestors); `& child` is `:is(parent list) child`; the user agent does not know `:-x-foo`; Env = truth of `@media m`. -/

namespace Examples

open Example

def cls (n : String) : Compound := ⟨0, 0, none, [.cls n]⟩
def idSel (n : String) : Compound := ⟨0, 0, none, [.hash n]⟩
def color (v : String) (imp : Bool := false) : Rule := .decl "color" v imp

/-- the hypotheses of the theorems can be met: a sound reading … -/
example : reading.Sound := reading_sound

/-- … and a tame chunk of two files on which every modelled rewrite fires:
file 1: `.a{color:red} .b{color:red} @media m{ .a{color:blue} @media m{.b{color:blue}} .c{} }  #i.a{color:green}`
file 2: `@layer l{} @layer k{@layer l{.a{color:pink!important}}}  #i.a{color:green}  .a,.a{width:1}` -/
def file1 : List Rule :=
  [.sel [[cls "a"]] [color "red"], .sel [[cls "b"]] [color "red"],
   .media "m" [.sel [[cls "a"]] [color "blue"], .media "m" [.sel [[cls "b"]] [color "blue"]], .sel [[cls "c"]] []],
   .sel [[⟨0, 0, none, [.hash "i", .cls "a"]⟩]] [color "green"]]
def file2 : List Rule :=
  [.layerBlock [["l"]] 1 [], .layerBlock [["k"]] 2 [.layerBlock [["l"]] 3 [.sel [[cls "a"]] [color "pink" true]]],
   .sel [[⟨0, 0, none, [.hash "i", .cls "a"]⟩]] [color "green"], .sel [[cls "a"], [cls "a"]] [.decl "width" "1" false]]

example : tameRules file1 = true ∧ tameRules file2 = true := by decide

set_option maxRecDepth 8192 in
/-- merged `.a,.b`, inner `@media m` unwrapped, empty `.c{}` gone, `#i.a{…}` of file 1 removed as a
duplicate of the one in file 2, `@layer l{}` → `@layer l;`, `@layer k{@layer l{…}}` → `@layer k.l{…}`, `.a,.a` → `.a` -/
example : (minifyChunk [file1, file2]).map showRules = List.map showRules
    [[.sel [[cls "a"], [cls "b"]] [color "red"],
      .media "m" [.sel [[cls "a"]] [color "blue"], .sel [[cls "b"]] [color "blue"]]],
     [.layerStmt [["l"]], .layerBlock [["k", "l"]] 2 [.sel [[cls "a"]] [color "pink" true]],
      .sel [[⟨0, 0, none, [.hash "i", .cls "a"]⟩]] [color "green"], .sel [[cls "a"]] [.decl "width" "1" false]]] := by
  decide

/-- the winners are not trivial (and equal, as `minifyChunk_preserves_cascade` says) -/
example : winner (denoteSheet reading [file1, file2]) true ⟨["a"], []⟩ "color" = some "pink" ∧
    winner (denoteSheet reading (minifyChunk [file1, file2])) true ⟨["a"], []⟩ "color" = some "pink" ∧
    winner (denoteSheet reading [file1, file2]) true ⟨["b"], []⟩ "color" = some "blue" ∧
    winner (denoteSheet reading (minifyChunk [file1, file2])) true ⟨["b"], []⟩ "color" = some "blue" ∧
    winner (denoteSheet reading [file1, file2]) false ⟨["b"], []⟩ "color" = some "red" ∧
    winner (denoteSheet reading (minifyChunk [file1, file2])) false ⟨["b"], []⟩ "color" = some "red" ∧
    winner (denoteSheet reading [file1, file2]) false ⟨["i", "a"], []⟩ "width" = some "1" := by decide

/-- hypotheses of `remove_earlier_duplicate_preserves_cascade` and `merge_adjacent_preserves_cascade` -/
example : ruleEq (.sel [[cls "a"]] [color "red"]) (.sel [[cls "a"]] [color "red"]) = true ∧
    rulesEq [color "red"] [color "red"] = true ∧ isSafeSelectors [[cls "a"]] = true ∧
    isSafeSelectors [[cls "b"]] = true ∧ [color "red"].all Rule.isDeclOrComment = true := by decide

/-- WITHOUT "the user agent understands both lists": merging `.a{color:red}` with `.b:-x-foo{color:red}` (which the
code refuses, `isSafeSelectors` is false) would kill the rule for `.a` – the unknown pseudo-class invalidates the
whole merged selector list. -/
def xfoo : Complex := [⟨0, 0, none, [.cls "b", .pseudo "-x-foo" false "" false]⟩]
example : isSafeSelectors [xfoo] = false ∧
    winner (denoteSheet reading [[.sel [[cls "a"]] [color "red"], .sel [xfoo] [color "red"]]]) true ⟨["a"], []⟩ "color"
      = some "red" ∧
    winner (denoteSheet reading [[.sel (mergeSelectors [[cls "a"]] [xfoo]) [color "red"]]]) true ⟨["a"], []⟩ "color"
      = none := by decide

/-- WITHOUT tameness `mangleFile` changes a winner (DEFECT of the code, same result on the real binary):
`.c.d.x{color:blue}  .a{.x{color:red}}  #b{.x{color:red}}` becomes `… .a,#b{.x{color:red}}`; for `<* class=a><* class="x c d">`
the nested rule had specificity (0,2,0) < (0,3,0) and now has (1,1,0): blue becomes red. -/
def nested : List Rule :=
  [.sel [[⟨0, 0, none, [.cls "c", .cls "d", .cls "x"]⟩]] [color "blue"],
   .sel [[cls "a"]] [.sel [[cls "x"]] [color "red"]], .sel [[idSel "b"]] [.sel [[cls "x"]] [color "red"]]]
set_option maxRecDepth 8192 in
theorem merge_needs_tameness : tameRules nested = false ∧
    showRules (mangleFile nested) = showRules [.sel [[⟨0, 0, none, [.cls "c", .cls "d", .cls "x"]⟩]] [color "blue"],
      .sel [[cls "a"], [idSel "b"]] [.sel [[cls "x"]] [color "red"]]] ∧
    winner (denoteSheet reading [nested]) true ⟨["x", "c", "d"], ["a"]⟩ "color" = some "blue" ∧
    winner (denoteSheet reading [mangleFile nested]) true ⟨["x", "c", "d"], ["a"]⟩ "color" = some "red" := by decide

/-- WITHOUT `deadFlat`: `:is(){@layer x{}}  @layer y{.a{color:red}}  @layer x{.a{color:blue}}` – dropping the dead
rule drops the first declaration of layer `x`, the layer order flips (same output on the real binary). -/
def deadLayer : List Rule :=
  [.sel [[⟨0, 0, none, [.pseudoList "is" "" true]⟩]] [.layerBlock [["x"]] 1 []],
   .layerBlock [["y"]] 2 [.sel [[cls "a"]] [color "red"]], .layerBlock [["x"]] 3 [.sel [[cls "a"]] [color "blue"]]]
set_option maxRecDepth 8192 in
example : (linkFiles [deadLayer]).map showRules = [showRules deadLayer.tail] ∧
    winner (denoteSheet reading [deadLayer]) true ⟨["a"], []⟩ "color" = some "red" ∧
    winner (denoteSheet reading (linkFiles [deadLayer])) true ⟨["a"], []⟩ "color" = some "blue" := by decide

/-- WITHOUT `Sound.sel_eq`: the code's `Equal` identifies `a:hover` with `a:hover()` (no arguments vs. an empty
argument list); a user agent that rejects the second loses the rule when the FIRST copy is removed (same output on the
real binary). -/
def hover (hasArgs : Bool) : Complex := [⟨0, 0, none, [.cls "a", .pseudo "hover" hasArgs "" false]⟩]
def strict : Reading El Bool String String :=
  { reading with sel := fun c => { selOf c with understood := !c.any (fun cp => cp.subs.any (fun s =>
      match s with | .pseudo _ hasArgs _ _ => hasArgs | _ => false)) } }
example : complexEq (hover false) (hover true) = true ∧ strict.sel (hover false) ≠ strict.sel (hover true) ∧
    (linkFiles [[.sel [hover false] [color "red"], .sel [hover true] [color "red"]]]).map showRules =
      [showRules [.sel [hover true] [color "red"]]] ∧
    winner (denoteSheet strict [[.sel [hover false] [color "red"], .sel [hover true] [color "red"]]]) true ⟨["a"], []⟩ "color"
      = some "red" ∧
    winner (denoteSheet strict (linkFiles [[.sel [hover false] [color "red"], .sel [hover true] [color "red"]]])) true
      ⟨["a"], []⟩ "color" = none := by
  refine ⟨by decide, ?_, by decide, by decide, by decide⟩
  intro h
  have : (strict.sel (hover false)).understood = (strict.sel (hover true)).understood := by rw [h]
  revert this
  decide

end Examples

end EsbuildModel.CssRules
