import EsbuildModel.Lemmas.LexNumComplete5
import EsbuildModel.Lemmas.F64RoundNat
/-!
# C01 — the lexer reads every number and bigint literal with exactly its value (property theorems)

Model: `Impl/LexNum.lean` (`(*Lexer).parseNumericLiteralOrDot` of internal/js_lexer/js_lexer.go, NotJSON mode).
Specification: `Spec/JsNumericLiteral.lean` (ECMA-262 §12.9.3 with numeric separators, binary/octal/hex, BigInt
suffix, Annex B legacy octal and `08`/`0789` forms; the mathematical value MV as an exact rational) on top of
`Spec/JsNumber.lean`.

Parameters (`ParamsOK P R`, `Lemmas/LexNumLit.lean`): `R : Rat → F64` is IEEE-754 roundTiesToEven to binary64 (the `𝔽`
of ECMA-262), abstract.  `strconv.ParseFloat` is TRUSTED to return `R` of the decimal value of a separator-free text
`digits* [. digits*] [(e|E) [+-] digits+]` with a mantissa digit; float64 arithmetic on integers, `float64(uint32)` and
`big.Float.Float64` are `R` on integers, exact below 2^53 and ≥ 2^53 from there on (`RndOK`; PROVED for the
instance the correspondence runs with, `driver_rndOK` below).
-/
namespace EsbuildModel.C01Lex
open EsbuildModel.LexNum EsbuildModel.Spec.Num EsbuildModel.Spec.NumLit

/-- **lex_number_value.** Whenever the lexer produces a TNumericLiteral of `len` characters with value `v` and
legacy flag `lg`: the consumed text is a valid NumericLiteral (Number, not BigInt) of the specification, `v` is the
correctly rounded mathematical value of that text, and `lexer.IsLegacyOctalLiteral` is set exactly for the forms that
strict mode forbids. For ALL source texts, any length. -/
theorem lex_number_value {P : Params} {R : Rat → F64} (hP : ParamsOK P R) (src : List Char) (len : Nat) (v : F64)
    (lg : Bool) (h : lexNum P src = .num len v lg) :
    ∃ mv : Rat, IsNumber (src.take len) mv lg ∧ v = R mv := by
  obtain ⟨l, h1, h2, h3, h4, h5⟩ := lexNum_num_sound hP h
  exact ⟨l.mv, ⟨l, h1, h2, h3, rfl, h5.symm⟩, h4⟩

/-- the DecimalLiteral forms esbuild does not read as one token: a DecimalIntegerLiteral `0d…` whose second
character is an octal digit (necessarily a NonOctalDecimalIntegerLiteral such as `0789`), followed by a fraction or an
exponent -/
def legacyIntWithTail : Lit → Bool
  | .dec i f e => secondIsOctal i && (f.isSome || e.isSome)
  | _ => false

/-- **lex_number_complete_partial.** Every valid Number literal of the specification — separators, all radixes,
legacy octal, `08`/`089.5` forms — followed by a character that can follow a literal, is read as ONE
TNumericLiteral covering exactly the literal, with the correctly rounded value and the right legacy flag; EXCEPT
(hypothesis `hnd`) `0789.5` / `0789e1`, see `legacy_int_with_tail_split`. -/
theorem lex_number_complete_partial {P : Params} {R : Rat → F64} (hP : ParamsOK P R) (l : Lit) (rest : List Char)
    (hv : l.valid = true) (hb : l.isBig = false) (hfol : FollowOK P rest) (hnd : legacyIntWithTail l = false) :
    lexNum P (l.render ++ rest) = .num l.render.length (R l.mv) l.isLegacy := by
  cases l with
  | dec i f e =>
    cases hso : secondIsOctal i with
    | false => exact dec_complete_float hP hv hfol hso
    | true =>
      simp only [legacyIntWithTail, hso, Bool.true_and, Bool.or_eq_false_iff] at hnd
      have hf : f = none := by cases f <;> simp_all
      have he : e = none := by cases e <;> simp_all
      subst hf he
      exact decLegacyInt_complete hP hv hfol hso
  | legacyOctal ds => exact legacyOctal_complete hP hv hfol
  | nonDec r u ds => exact nonDec_complete hP r u hv hfol
  | bigDec ds => cases hb
  | bigNonDec r u ds => cases hb

-- OPEN (FALSE of the code): `lex_number_complete` = the statement above without `hnd`.
--   theorem lex_number_complete (hP : ParamsOK P R) (l : Lit) (rest) (hv : l.valid) (hb : l.isBig = false)
--       (hfol : FollowOK P rest) : lexNum P (l.render ++ rest) = .num l.render.length (R l.mv) l.isLegacy
-- Counterexample on the real code (run): `x = 0789.5` → esbuild: `Expected ";" but found ".5"`, `x = 0789e1` →
-- `Syntax error "e"`; Node 20 evaluates them to 789.5 and 7890 (sloppy mode).  Cause: a leading `0` followed by an
-- octal digit enters the integer loop, which knows no fraction/exponent; `089.5` (second digit 8/9) is fine.

/-- the hypothesis `hnd` is needed: on `0789.5` the model (like the code) stops after `0789`, whatever the parameters -/
theorem legacy_int_with_tail_split (P : Params) :
    lexNum P "0789.5".toList = .num 4 (P.pf "0789".toList) true ∧
    (Lit.dec "0789".toList (some ['5']) none).valid = true ∧
    (Lit.dec "0789".toList (some ['5']) none).render = "0789.5".toList := by
  refine ⟨rfl, by decide, by decide⟩

/-- the text recorded for a BigInt literal: the literal without the suffix and without separators -/
def bigText : Lit → List Char
  | .bigDec ds => strip ds
  | .bigNonDec r u ds => '0' :: r.letter u :: strip ds
  | _ => []

/-- **lex_bigint_value.** Whenever the lexer produces a TBigIntegerLiteral: the consumed text is a valid BigInt
literal of the specification, and the recorded text (`lexer.Identifier`, to which the printer appends `n`) is again a
valid BigInt literal, free of separators, with the SAME mathematical value; the legacy flag is off. -/
theorem lex_bigint_value {P : Params} (src : List Char) (len : Nat) (text : List Char) (lg : Bool)
    (h : lexNum P src = .big len text lg) :
    ∃ mv : Rat, IsBigInt (src.take len) mv ∧ IsBigInt (text ++ ['n']) mv ∧ (∀ c ∈ text, c ≠ '_') ∧ lg = false := by
  obtain ⟨l, h1, h2, h3, ⟨l', h4, h5, h6, h7⟩, h8, h9⟩ := lexNum_big_sound h
  exact ⟨l.mv, ⟨l, h1, h2, h3, rfl⟩, ⟨l', h4, h5, h6, h7⟩, h8, h9⟩

/-- **lex_bigint_complete.** Every valid BigInt literal (decimal without leading zero, `0b`/`0o`/`0x`, separators),
followed by a character that can follow a literal, is read as one TBigIntegerLiteral and its digits are recorded. -/
theorem lex_bigint_complete {P : Params} (l : Lit) (rest : List Char) (hv : l.valid = true) (hb : l.isBig = true)
    (hfol : FollowOK P rest) : lexNum P (l.render ++ rest) = .big l.render.length (bigText l) false := by
  cases l with
  | dec i f e => cases hb
  | legacyOctal ds => cases hb
  | nonDec r u ds => cases hb
  | bigDec ds => exact bigDec_complete hv hfol
  | bigNonDec r u ds => exact bigNonDec_complete r u hv hfol

/-- **lex_dots.** `.` not followed by a digit is TDotDotDot exactly when two more dots follow, else TDot. -/
theorem lex_dots (P : Params) (rest : List Char) (hd : headIsDig rest = false) :
    ((∃ r, rest = '.' :: '.' :: r) → lexNum P ('.' :: rest) = .dotDotDot) ∧
    ((¬ ∃ r, rest = '.' :: '.' :: r) → lexNum P ('.' :: rest) = .dot) := by
  simp only [lexNum, if_true, hd, Bool.not_false]
  constructor
  · rintro ⟨r, rfl⟩; simp
  · intro h
    cases rest with
    | nil => rfl
    | cons c1 r1 =>
      cases r1 with
      | nil => rfl
      | cons c2 r2 =>
        have : ¬ (c1 = '.' ∧ c2 = '.') := by
          rintro ⟨rfl, rfl⟩; exact h ⟨r2, rfl⟩
        simp [this]

/-! ## the hypotheses are satisfiable (non-vacuity) -/

/-- the rounding instance of the compiled driver satisfies `RndOK` (Lemmas/F64RoundNat.lean) -/
theorem driver_rndOK : RndOK driverParams.rnd :=
  ⟨fun n h => by obtain ⟨m, e, h1, h2⟩ := F64.roundNat_small n h; exact ⟨false, m, e, h1, h2⟩,
   fun n h => F64.roundNat_small_not_ge n h,
   fun n h => F64.roundNat_large_ge n h,
   fun n h => F64.roundNat_large_trunc n h⟩

/-- a rounding function and a ParseFloat that satisfy the whole contract exist -/
def toyR (q : Rat) : F64 := if q.den = 1 ∧ 0 ≤ q.num then F64.roundNat q.num.toNat else .nan

def toyParams : Params :=
  ⟨fun t => match parseDec t with | some p => toyR p.mv | none => .nan, F64.roundNat, fun _ => false⟩

example : ParamsOK toyParams toyR :=
  ⟨fun n => by simp [toyParams, toyR],
   driver_rndOK,
   fun p hwf _ => by simp only [toyParams]; rw [parseDec_render p hwf]⟩

/-- `FollowOK`: end of input, or e.g. a semicolon -/
example (P : Params) : FollowOK P [] := by intro c r h; cases h
example : FollowOK driverParams ";x".toList := by
  intro c r h; cases h; exact ⟨by decide, by decide, by decide⟩

/-- concrete runs of the model with the driver's parameters: separators and exponent; the literal of the repaired
defect (0x2000000000000180 = 2^61+384 rounds to 2^61+512, not to 2^61); a legacy octal; a BigInt with separators -/
example : (match lexNum driverParams "1_000.5e3".toList with
    | .num n v l => (n, F64.toBits v, l) | _ => (0, 0, false)) = (9, 0x412e886800000000, false) := by decide +kernel
example : (match lexNum driverParams "0x2000000000000180;".toList with
    | .num n v l => (n, F64.toBits v, l) | _ => (0, 0, false)) = (18, 0x43c0000000000001, false) := by decide +kernel
example : (match lexNum driverParams "017".toList with
    | .num n v l => (n, F64.toBits v, l) | _ => (0, 0, false)) = (3, 0x402e000000000000, true) := by decide +kernel
example : lexNum driverParams "0X1_Fn".toList = .big 6 "0X1F".toList false := by decide +kernel
example : lexNum driverParams "1__0".toList = .err 2 := by decide +kernel
example : lexNum driverParams "09n".toList = .err 2 := by decide +kernel

/-- derivations meeting the hypotheses of the completeness theorems -/
example : (Lit.dec "1_000".toList (some "5".toList) (some ⟨false, .none, "3".toList⟩)).valid = true ∧
    legacyIntWithTail (Lit.dec "1_000".toList (some "5".toList) (some ⟨false, .none, "3".toList⟩)) = false := by decide
example : (Lit.dec "089".toList (some "5".toList) none).valid = true ∧
    legacyIntWithTail (Lit.dec "089".toList (some "5".toList) none) = false ∧
    (Lit.dec "089".toList (some "5".toList) none).isLegacy = true := by decide
example : (Lit.bigNonDec .hex true "1_F".toList).valid = true ∧ (Lit.bigNonDec .hex true "1_F".toList).isBig = true := by
  decide

end EsbuildModel.C01Lex
