import EsbuildModel.Lemmas.CjsWrapScan
import EsbuildModel.Lemmas.CjsWrapCheck
/-!
C02 (bundling preserves module-graph semantics) — the wrapping decisions of the linker:
steps 1–2 of `scanImportsAndExports` (model `Impl/CjsWrap.lean`) against the independent statement of what has to
be wrapped and what has dynamic exports (`Spec/Wrap.lean`).  Every theorem is about ALL tables: any number of
files, cyclic import graphs, any order of `ReachableFiles`, any order of the import records.

Hypotheses that occur:
* `WF fs`        no import record / export-star index points outside the table (otherwise the Go code panics);
* `Fresh fs`     no wrapper, no `DidWrapDependencies` mark yet (what `CloneLinkerGraph` hands over);
* `Covers order fs`  `ReachableFiles` lists exactly the files of the table;
* `RuntimeESM fs`    the runtime file is an ES module (it is: `runtime.go` uses `export`).
-/
namespace EsbuildModel.C02Wrap
open EsbuildModel.CjsWrap EsbuildModel.Spec.Wrap

def RuntimeESM (fs : Files) : Prop := ∀ (i : Nat) (f : File), fs[i]? = some f → f.isRuntime = true → f.kind = .esm

/-- the files that have a wrapper in table `fs` -/
def wrappedSet (fs : Files) (i : Nat) : Prop := ∃ f : File, fs[i]? = some f ∧ f.wrap ≠ .none

/-! ## termination -/

/-- `recursivelyWrapDependencies` returns on every well-formed graph (cycles included; the visited marks are the
`DidWrapDependencies` flags), within `#files + 1` levels of recursion. -/
theorem recursivelyWrapDependencies_terminates {fs : Files} (hwf : WF fs) {i : Nat} (hi : i < fs.length) :
    ∃ fs', wrapDeps (fs.length + 1) fs i = some fs' := by
  obtain ⟨fs', e, _⟩ := wrapDeps_post hwf (fs.length + 1) i fs (St.refl fs) hi
    (Nat.lt_succ_of_le (undone_le_length fs))
  exact ⟨fs', e⟩

/-- `hasDynamicExportsDueToExportStar` returns on every well-formed graph, for every `visited` map. -/
theorem hasDynamicExports_terminates {o : Opts} {fs : Files} (hwf : WF fs) {i : Nat} (hi : i < fs.length)
    (vis : List Nat) (hv : vis.Nodup ∧ ∀ x ∈ vis, x < fs.length) :
    ∃ r, hasDyn o (fs.length + 1) fs vis i = some r := by
  obtain ⟨r, e, _⟩ := hasDyn_post (o := o) hwf (fs.length + 1) i fs vis (St.refl fs) hi hv (by omega)
  exact ⟨r, e⟩

/-- steps 1 and 2 never panic and always terminate -/
theorem scan_terminates {o : Opts} {fs0 : Files} {order : List Nat} (hwf : WF fs0) (hfr : Fresh fs0)
    (hcov : Covers order fs0) : ∃ fs2, scan o order fs0 = some fs2 := scan_total hwf hfr hcov

/-! ## (1) the wrapped set is the least admissible one -/

theorem runtime_not_commonJS {o : Opts} {fs0 : Files} (hrt : RuntimeESM fs0) {i : Nat}
    (h : (graphOf o fs0).runtime i) : ¬ IsCommonJS (graphOf o fs0) i := by
  obtain ⟨f, hf, hr⟩ := h
  apply not_isCommonJS_of_esm
  rw [kind0_eq hf, hrt i f hf hr]; rfl

theorem wrapped_iff_touched {o : Opts} {fs0 : Files} (hrt : RuntimeESM fs0) (i : Nat) :
    Wrapped (graphOf o fs0) i ↔
      Step1Wrap (graphOf o fs0) i ∨ (TouchedG (graphOf o fs0) i ∧ ¬ (graphOf o fs0).runtime i) := by
  constructor
  · intro h
    induction h with
    | root hm =>
      rcases hm with hl | ⟨hc, hni⟩ | ⟨hc, j, hj⟩
      · exact Or.inl (Or.inl hl)
      · exact Or.inl (Or.inr (Or.inr ⟨hc, hni⟩))
      · exact Or.inr ⟨.cjs hc hj, fun hr => runtime_not_commonJS hrt hr hc⟩
    | dep _ hrj he hri ih =>
      rcases ih with ih | ⟨ih, _⟩
      · exact Or.inr ⟨.step (.wrapped ih) hrj he, hri⟩
      · exact Or.inr ⟨.step ih hrj he, hri⟩
  · have h1 : ∀ x, Step1Wrap (graphOf o fs0) x → Wrapped (graphOf o fs0) x := by
      intro x hs
      rcases hs with hl | ⟨hk, hnl, j, hj⟩ | ⟨hc, hni⟩
      · exact .root (Or.inl hl)
      · exact .root (Or.inr (Or.inr ⟨Or.inr (Or.inr ⟨hk, hnl, j, hj⟩), j, imports_of_ns hj⟩))
      · exact .root (Or.inr (Or.inl ⟨hc, hni⟩))
    rintro (hs | ⟨ht, hr⟩)
    · exact h1 i hs
    · induction ht with
      | wrapped hs => exact h1 _ hs
      | cjs hc he => exact .root (Or.inr (Or.inr ⟨hc, _, he⟩))
      | step hy hry he ih => exact .dep (ih hry) hry he hr

theorem inrange_of_wrapped {o : Opts} {fs0 : Files} (hwf : WF fs0) {i : Nat} (h : Wrapped (graphOf o fs0) i) :
    i < fs0.length := by
  cases h with
  | root hm =>
    rcases hm with ⟨j, hl⟩ | ⟨hc, _⟩ | ⟨hc, _⟩
    · exact inrange_of_imports hwf (imports_of_lazy hl)
    · exact inrange_of_isCommonJS hwf hc
    · exact inrange_of_isCommonJS hwf hc
  | dep _ _ he _ => exact inrange_of_imports hwf he

/-- **The files the linker wraps are exactly the files that must be wrapped** (`Spec.Wrap.Wrapped`: the least set
containing the lazily evaluated files and the CommonJS files that need a closure, closed under the imports of
wrapped files). -/
theorem wrap_iff {o : Opts} {fs0 fs2 : Files} {order : List Nat} (hwf : WF fs0) (hfr : Fresh fs0)
    (hcov : Covers order fs0) (hrt : RuntimeESM fs0) (h : scan o order fs0 = some fs2) (i : Nat) :
    wrappedSet fs2 i ↔ Wrapped (graphOf o fs0) i := by
  obtain ⟨hlen, hp⟩ := scan_spec hwf hfr hcov h
  rw [wrapped_iff_touched hrt]
  constructor
  · rintro ⟨f2, h2, hw⟩
    obtain ⟨f0, h0⟩ := get_of_lt (fs := fs0) (i := i) (hlen ▸ lt_of_get h2)
    obtain ⟨_, _, _, _, _, _, hnone, _⟩ := hp i f0 f2 h0 h2
    apply Classical.byContradiction
    intro hn
    have hns : ¬ Step1Wrap (graphOf o fs0) i := fun h' => hn (Or.inl h')
    apply hw
    apply hnone hns
    apply Classical.byContradiction
    intro hn2
    apply hn
    right
    exact ⟨Classical.byContradiction (fun h' => hn2 (Or.inl h')), fun h' => hn2 (Or.inr h')⟩
  · intro hor
    have hi : i < fs0.length := inrange_of_wrapped hwf ((wrapped_iff_touched hrt i).2 hor)
    obtain ⟨f0, h0⟩ := get_of_lt hi
    obtain ⟨f2, h2⟩ := get_of_lt (fs := fs2) (i := i) (hlen.symm ▸ hi)
    obtain ⟨_, _, _, _, hw1, hw2, _, _⟩ := hp i f0 f2 h0 h2
    refine ⟨f2, h2, ?_⟩
    by_cases hs : Step1Wrap (graphOf o fs0) i
    · rw [hw1 hs]; exact wrap0_ne_none _
    · rcases hor with hs' | ⟨ht, hr⟩
      · exact absurd hs' hs
      · by_cases hc : IsCommonJS (graphOf o fs0) i
        · rw [(hw2 hs ht hr).1 hc]; simp
        · rw [(hw2 hs ht hr).2 hc]; simp

/-- (a) and (b) hold of what the linker computes … -/
theorem wrap_closed {o : Opts} {fs0 fs2 : Files} {order : List Nat} (hwf : WF fs0) (hfr : Fresh fs0)
    (hcov : Covers order fs0) (hrt : RuntimeESM fs0) (h : scan o order fs0 = some fs2) :
    Admissible (graphOf o fs0) (wrappedSet fs2) := by
  have hiff := wrap_iff hwf hfr hcov hrt h
  have ha := wrapped_admissible (graphOf o fs0)
  exact ⟨fun i hm => (hiff i).2 (ha.1 i hm),
    fun j i hj hrj he hri => (hiff i).2 (ha.2 j i ((hiff j).1 hj) hrj he hri)⟩

/-- … and (d) nothing is wrapped that (a) and (b) do not force. -/
theorem wrap_least {o : Opts} {fs0 fs2 : Files} {order : List Nat} (hwf : WF fs0) (hfr : Fresh fs0)
    (hcov : Covers order fs0) (hrt : RuntimeESM fs0) (h : scan o order fs0 = some fs2)
    (W : Nat → Prop) (hW : Admissible (graphOf o fs0) W) : ∀ i, wrappedSet fs2 i → W i :=
  fun i hi => wrapped_least (graphOf o fs0) hW i ((wrap_iff hwf hfr hcov hrt h i).1 hi)

/-- which of the two wrappers: CommonJS-style exactly for the CommonJS files -/
theorem wrap_kind {o : Opts} {fs0 fs2 : Files} {order : List Nat} (hwf : WF fs0) (hfr : Fresh fs0)
    (hcov : Covers order fs0) (hrt : RuntimeESM fs0) (h : scan o order fs0 = some fs2) {i : Nat} {f2 : File}
    (h2 : fs2[i]? = some f2) :
    (f2.wrap = .cjs ↔ Wrapped (graphOf o fs0) i ∧ IsCommonJS (graphOf o fs0) i) ∧
    (f2.wrap = .esm ↔ Wrapped (graphOf o fs0) i ∧ ¬ IsCommonJS (graphOf o fs0) i) := by
  obtain ⟨hlen, hp⟩ := scan_spec hwf hfr hcov h
  obtain ⟨f0, h0⟩ := get_of_lt (fs := fs0) (i := i) (hlen ▸ lt_of_get h2)
  obtain ⟨_, _, _, _, hw1, hw2, hw3, _⟩ := hp i f0 f2 h0 h2
  have hiff := wrap_iff hwf hfr hcov hrt h i
  have hwr : f2.wrap ≠ .none ↔ Wrapped (graphOf o fs0) i := by
    rw [← hiff]
    constructor
    · intro hw; exact ⟨f2, h2, hw⟩
    · rintro ⟨g, hg, hw⟩
      rw [h2] at hg; injection hg with hg; subst hg; exact hw
  -- the wrapper of a wrapped file
  have hval : Wrapped (graphOf o fs0) i →
      (IsCommonJS (graphOf o fs0) i → f2.wrap = .cjs) ∧ (¬ IsCommonJS (graphOf o fs0) i → f2.wrap = .esm) := by
    intro hwd
    by_cases hs : Step1Wrap (graphOf o fs0) i
    · rw [hw1 hs]
      constructor
      · intro hc
        have : f0.kind ≠ .esm := by
          intro he
          exact not_isCommonJS_of_esm (by rw [kind0_eq h0, he]; rfl) hc
        simp [wrap0, this]
      · intro hc
        have : f0.kind = .esm := by
          apply Classical.byContradiction
          intro hne
          apply hc
          rcases hs with hl | ⟨hk, hnl, hj⟩ | ⟨hc', _⟩
          · exact Or.inr (Or.inl ⟨by rw [kind0_eq h0]; intro h'; exact hne (toSpec_inj.1 h'), hl⟩)
          · exact Or.inr (Or.inr ⟨hk, hnl, hj⟩)
          · exact hc'
        simp [wrap0, this]
    · rcases (wrapped_iff_touched hrt i).1 hwd with hs' | ⟨ht, hr⟩
      · exact absurd hs' hs
      · exact hw2 hs ht hr
  constructor
  · constructor
    · intro hw
      have hwd := hwr.1 (by rw [hw]; simp)
      refine ⟨hwd, Classical.byContradiction (fun hc => ?_)⟩
      rw [(hval hwd).2 hc] at hw; cases hw
    · rintro ⟨hwd, hc⟩; exact (hval hwd).1 hc
  · constructor
    · intro hw
      have hwd := hwr.1 (by rw [hw]; simp)
      refine ⟨hwd, fun hc => ?_⟩
      rw [(hval hwd).1 hc] at hw; cases hw
    · rintro ⟨hwd, hc⟩; exact (hval hwd).2 hc

/-- a CommonJS file that ends up without a wrapper is an entry point of a CommonJS-like output that nobody imports -/
theorem unwrapped_commonjs_is_unimported_entry {o : Opts} {fs0 fs2 : Files} {order : List Nat} (hwf : WF fs0)
    (hfr : Fresh fs0) (hcov : Covers order fs0) (hrt : RuntimeESM fs0) (h : scan o order fs0 = some fs2) {i : Nat}
    {f2 : File} (h2 : fs2[i]? = some f2) (hc : IsCommonJS (graphOf o fs0) i) (hw : f2.wrap = .none) :
    (graphOf o fs0).implicitWrapper i ∧ ¬ ∃ j, (graphOf o fs0).imports j i := by
  have hnw : ¬ Wrapped (graphOf o fs0) i := by
    intro hwd
    obtain ⟨g, hg, hgw⟩ := (wrap_iff hwf hfr hcov hrt h i).2 hwd
    rw [h2] at hg; injection hg with hg; subst hg
    exact hgw hw
  constructor
  · apply Classical.byContradiction
    intro hni
    exact hnw (.root (Or.inr (Or.inl ⟨hc, hni⟩)))
  · intro hj
    exact hnw (.root (Or.inr (Or.inr ⟨hc, hj⟩)))

/-! ## (2) dynamic exports -/

/-- **A file ends up CommonJS or ESM-with-dynamic-fallback exactly when its export names are not statically
known** (`Spec.Wrap.Dynamic`: it is CommonJS, or a chain of `export *` leads from it to a CommonJS file or to a
module outside the bundle); and it ends up CommonJS exactly when `Spec.Wrap.IsCommonJS`. The `visited` map that is
shared between the siblings of one traversal does not spoil the final result. -/
theorem dynamic_exports_iff_reachable_commonjs_star {o : Opts} {fs0 fs2 : Files} {order : List Nat} (hwf : WF fs0)
    (hfr : Fresh fs0) (hcov : Covers order fs0) (h : scan o order fs0 = some fs2) {i : Nat} {f2 : File}
    (h2 : fs2[i]? = some f2) :
    ((f2.kind = .cjs ∨ f2.kind = .dyn) ↔ Dynamic (graphOf o fs0) i) ∧ (f2.kind = .cjs ↔ IsCommonJS (graphOf o fs0) i) := by
  obtain ⟨hlen, hp⟩ := scan_spec hwf hfr hcov h
  obtain ⟨f0, h0⟩ := get_of_lt (fs := fs0) (i := i) (hlen ▸ lt_of_get h2)
  obtain ⟨_, _, _, _, _, _, _, hk1, hk2, hk3⟩ := hp i f0 f2 h0 h2
  have hcjs : f2.kind = .cjs ↔ IsCommonJS (graphOf o fs0) i := by
    constructor
    · intro hk
      apply Classical.byContradiction
      intro hc
      by_cases hd : DynStar (graphOf o fs0) i
      · rw [hk2 hc hd] at hk; cases hk
      · apply hc
        left
        rw [kind0_eq h0, ← hk3 hc hd, hk]; rfl
    · exact hk1
  refine ⟨?_, hcjs⟩
  constructor
  · rintro (hk | hk)
    · exact Or.inl (Or.inl (hcjs.1 hk))
    · by_cases hc : IsCommonJS (graphOf o fs0) i
      · exact Or.inl (Or.inl hc)
      · by_cases hd : DynStar (graphOf o fs0) i
        · exact Or.inr hd
        · left; right
          rw [kind0_eq h0, ← hk3 hc hd, hk]; rfl
  · rintro ((hc | hk0) | hd)
    · exact Or.inl (hk1 hc)
    · by_cases hc : IsCommonJS (graphOf o fs0) i
      · exact Or.inl (hk1 hc)
      · right
        by_cases hd : DynStar (graphOf o fs0) i
        · exact hk2 hc hd
        · rw [hk3 hc hd]
          rw [kind0_eq h0] at hk0
          exact toSpec_inj.1 hk0
    · by_cases hc : IsCommonJS (graphOf o fs0) i
      · exact Or.inl (hk1 hc)
      · exact Or.inr (hk2 hc hd)

/-- the answer of one traversal that starts with an empty `visited` map is exact, in every table -/
theorem hasDynamicExports_fresh_visited_exact {o : Opts} {fs : Files} (hwf : WF fs) {i : Nat} (hi : i < fs.length) :
    ∃ r, hasDyn o (fs.length + 1) fs [] i = some r ∧ (r.res = true ↔ Dy fs i ∨ DS o fs fs i) := by
  obtain ⟨r, e, p⟩ := hasDyn_post (o := o) hwf (fs.length + 1) i fs [] (St.refl fs) hi
    ⟨List.nodup_nil, by simp⟩ (by simp)
  exact ⟨r, e, (hasDyn_root p).1⟩

/-! ## (3) the ExportsKind only moves up; nothing depends on the order of the files -/

/-- **`ExportsKind` is monotone**: none → ESM / CommonJS → dynamic fallback. (The parser never produces the
dynamic-fallback kind, which is what `hnd` says; see the example below for why it is needed.) -/
theorem exports_kind_monotone {o : Opts} {fs0 fs2 : Files} {order : List Nat} (hwf : WF fs0) (hfr : Fresh fs0)
    (hcov : Covers order fs0) (hnd : ∀ (i : Nat) (f : File), fs0[i]? = some f → f.kind ≠ .dyn)
    (h : scan o order fs0 = some fs2) {i : Nat} {f0 f2 : File} (h0 : fs0[i]? = some f0) (h2 : fs2[i]? = some f2) :
    ExportsKind.le f0.kind.toSpec f2.kind.toSpec := by
  obtain ⟨_, hp⟩ := scan_spec hwf hfr hcov h
  obtain ⟨_, _, _, _, _, _, _, hk1, hk2, hk3⟩ := hp i f0 f2 h0 h2
  have hnd0 := hnd i f0 h0
  by_cases hc : IsCommonJS (graphOf o fs0) i
  · rw [hk1 hc]
    cases hk : f0.kind with
    | none => trivial
    | cjs => trivial
    | esm => exact absurd hc (not_isCommonJS_of_esm (by rw [kind0_eq h0, hk]; rfl))
    | dyn => exact absurd hk hnd0
  · by_cases hd : DynStar (graphOf o fs0) i
    · rw [hk2 hc hd]
      cases hk : f0.kind <;> trivial
    · rw [hk3 hc hd]
      cases hk : f0.kind <;> trivial

theorem File.ext' {a c : File} (hs : a.static = c.static) (hk : a.kind = c.kind) (hw : a.wrap = c.wrap)
    (hd : a.didWrap = c.didWrap) (hf : a.force = c.force) (hn : a.needsExportsVar = c.needsExportsVar) : a = c := by
  cases a; cases c
  simp only [File.static, Static.mk.injEq] at hs
  simp only at hk hw hd hf hn
  obtain ⟨h1, h2, h3, h4, h5, h6⟩ := hs
  subst h1 h2 h3 h4 h5 h6 hk hw hd hf hn
  rfl

/-- **The result of steps 1–2 does not depend on the order in which the files are visited** (nor, by
`scan_spec`, on the order of the import records): two orders that both list every file give the same table —
ExportsKind, Wrap and even the `DidWrapDependencies` marks. -/
theorem scan_order_independent {o : Opts} {fs0 : Files} {order order' : List Nat} (hwf : WF fs0) (hfr : Fresh fs0)
    (hcov : Covers order fs0) (hcov' : Covers order' fs0) : scan o order fs0 = scan o order' fs0 := by
  obtain ⟨fs2, e⟩ := scan_total (o := o) hwf hfr hcov
  obtain ⟨fs2', e'⟩ := scan_total (o := o) hwf hfr hcov'
  rw [e, e']
  congr 1
  obtain ⟨hlen, hp⟩ := scan_spec hwf hfr hcov e
  obtain ⟨hlen', hp'⟩ := scan_spec hwf hfr hcov' e'
  apply List.ext_getElem?
  intro i
  rcases Nat.lt_or_ge i fs0.length with hi | hi
  · obtain ⟨f0, h0⟩ := get_of_lt hi
    obtain ⟨f2, h2⟩ := get_of_lt (fs := fs2) (i := i) (hlen.symm ▸ hi)
    obtain ⟨f2', h2'⟩ := get_of_lt (fs := fs2') (i := i) (hlen'.symm ▸ hi)
    rw [h2, h2']
    congr 1
    obtain ⟨hs, hf, hn, hd, hw1, hw2, hw3, hk1, hk2, hk3⟩ := hp i f0 f2 h0 h2
    obtain ⟨hs', hf', hn', hd', hw1', hw2', hw3', hk1', hk2', hk3'⟩ := hp' i f0 f2' h0 h2'
    apply File.ext' (hs.trans hs'.symm) ?_ ?_ ?_ (hf.trans hf'.symm) (hn.trans hn'.symm)
    · by_cases hc : IsCommonJS (graphOf o fs0) i
      · rw [hk1 hc, hk1' hc]
      · by_cases hds : DynStar (graphOf o fs0) i
        · rw [hk2 hc hds, hk2' hc hds]
        · rw [hk3 hc hds, hk3' hc hds]
    · by_cases hst : Step1Wrap (graphOf o fs0) i
      · rw [hw1 hst, hw1' hst]
      · by_cases ht : TouchedG (graphOf o fs0) i ∧ ¬ (graphOf o fs0).runtime i
        · by_cases hc : IsCommonJS (graphOf o fs0) i
          · rw [(hw2 hst ht.1 ht.2).1 hc, (hw2' hst ht.1 ht.2).1 hc]
          · rw [(hw2 hst ht.1 ht.2).2 hc, (hw2' hst ht.1 ht.2).2 hc]
        · have hor : ¬ TouchedG (graphOf o fs0) i ∨ (graphOf o fs0).runtime i := by
            by_cases h1 : TouchedG (graphOf o fs0) i
            · right
              apply Classical.byContradiction
              intro h2
              exact ht ⟨h1, h2⟩
            · exact Or.inl h1
          rw [hw3 hst hor, hw3' hst hor]
    · cases hb : f2.didWrap <;> cases hb' : f2'.didWrap
      · rfl
      · exact absurd (hd.2 (hd'.1 hb')) (by rw [hb]; simp)
      · exact absurd (hd'.2 (hd.1 hb)) (by rw [hb']; simp)
      · rfl
  · rw [List.getElem?_eq_none (hlen ▸ hi), List.getElem?_eq_none (hlen' ▸ hi)]

/-! ## the closure relation of the code against the intended one -/

/-- the graph in which an `import()` of a wrapped file under code splitting does NOT count as a dependency that
has to be wrapped (the target is loaded as a chunk of its own, whenever the `import()` runs) -/
def intendedGraph (o : Opts) (fs : Files) : Graph :=
  { graphOf o fs with
    imports := fun j i => ∃ (f : File) (r : Rec), fs[j]? = some f ∧ r ∈ f.recs ∧ r.target = some i ∧
      ¬ (r.kind = .dynamic ∧ o.splitting = true) }

/-- the linker wraps at least what is intended (it follows every import record, also `import()` under splitting) … -/
theorem wrapped_contains_intended {o : Opts} {fs : Files} (i : Nat) :
    Wrapped (intendedGraph o fs) i → Wrapped (graphOf o fs) i := by
  have himp : ∀ j i, (intendedGraph o fs).imports j i → (graphOf o fs).imports j i := by
    rintro j i ⟨f, r, hf, hr, ht, _⟩
    exact ⟨f, r, hf, hr, ht⟩
  intro h
  induction h with
  | root hm =>
    rcases hm with hl | ⟨hc, hni⟩ | ⟨hc, j, hj⟩
    · exact .root (Or.inl hl)
    · exact .root (Or.inr (Or.inl ⟨hc, hni⟩))
    · exact .root (Or.inr (Or.inr ⟨hc, j, himp j _ hj⟩))
  | dep _ hrj he hri ih => exact .dep ih hrj (himp _ _ he) hri

/-- … and exactly that when the bundle is not split -/
theorem wrapped_eq_intended_of_no_splitting {o : Opts} {fs : Files} (hs : o.splitting = false) (i : Nat) :
    Wrapped (graphOf o fs) i ↔ Wrapped (intendedGraph o fs) i := by
  have himp : ∀ j i, (graphOf o fs).imports j i → (intendedGraph o fs).imports j i := by
    rintro j i ⟨f, r, hf, hr, ht⟩
    exact ⟨f, r, hf, hr, ht, fun h' => by rw [hs] at h'; cases h'.2⟩
  constructor
  · intro h
    induction h with
    | root hm =>
      rcases hm with hl | ⟨hc, hni⟩ | ⟨hc, j, hj⟩
      · exact .root (Or.inl hl)
      · exact .root (Or.inr (Or.inl ⟨hc, hni⟩))
      · exact .root (Or.inr (Or.inr ⟨hc, j, himp j _ hj⟩))
    | dep _ hrj he hri ih => exact .dep ih hrj (himp _ _ he) hri
  · exact wrapped_contains_intended i

/-! ## non-vacuity: concrete tables that meet the hypotheses, and what happens without them -/

theorem runtimeESM_of_B {fs : Files} (h : runtimeEsmB fs = true) : RuntimeESM fs := by
  intro i f hf hr
  have := List.all_eq_true.1 h f (mem_of_get hf)
  simpa [hr] using this

private def mk (rt en : Bool) (k : Kind) (recs : List Rec) (stars : List Nat) : File :=
  { isRuntime := rt, entry := en, lazyExport := false, exportKw := k == .esm, recs := recs, stars := stars,
    kind := k, wrap := .none, didWrap := false, force := false, needsExportsVar := false }

private def exO : Opts := ⟨.esm, .bundle, false, false⟩

/-- 0 the runtime; 1 the entry: `import * as ns from 2`, `require(3)`, a runtime helper, `import 5`; 2 a file
without exports; 3 ESM: `export * from 4`, imports 4 and the runtime; 4 CommonJS, imports 3 (a cycle);
5 ESM: `export * from 3`, `export * from "external"` -/
private def exT : Files := [
  mk true false .esm [] [],
  mk false true .esm [⟨.stmt, some 2, true, false⟩, ⟨.require, some 3, false, false⟩, ⟨.stmt, some 0, false, false⟩,
    ⟨.stmt, some 5, false, false⟩] [],
  mk false false .none [] [],
  mk false false .esm [⟨.stmt, some 4, false, false⟩, ⟨.stmt, some 0, false, false⟩] [0],
  mk false false .cjs [⟨.stmt, some 3, false, false⟩] [],
  mk false false .esm [⟨.stmt, some 3, false, false⟩, ⟨.stmt, none, false, false⟩] [0, 1]]

private theorem exT_wf : WF exT := wf_of_wfB (by decide)
private theorem exT_fresh : Fresh exT := fresh_of_freshB (by decide)
private theorem exT_cov : Covers [0, 2, 4, 3, 5, 1] exT := covers_of_coversB (by decide)
private theorem exT_cov' : Covers [1, 5, 3, 4, 2, 0] exT := covers_of_coversB (by decide)
private theorem exT_rt : RuntimeESM exT := runtimeESM_of_B (by decide)

/-- the model on this table: the runtime is reached by the traversal but not wrapped, the entry and 5 stay
unwrapped, 2 became CommonJS, 3 and 5 became dynamic -/
example : (scan exO [0, 2, 4, 3, 5, 1] exT).map (·.map (fun f => (f.kind, f.wrap, f.didWrap))) =
    some [(.esm, .none, true), (.esm, .none, false), (.cjs, .cjs, true), (.dyn, .esm, true), (.cjs, .cjs, true),
      (.dyn, .none, false)] := by decide

/-- the hypotheses of `scan_terminates`, `wrap_iff`, `wrap_closed`, `wrap_least`, `wrap_kind`,
`dynamic_exports_iff_reachable_commonjs_star` are met by `exT`; used: file 3 must be wrapped, file 5 need not -/
example : ∃ fs2, scan exO [0, 2, 4, 3, 5, 1] exT = some fs2 ∧ Wrapped (graphOf exO exT) 3 ∧ ¬ Wrapped (graphOf exO exT) 5 ∧
    Dynamic (graphOf exO exT) 5 := by
  obtain ⟨fs2, e⟩ := scan_terminates (o := exO) exT_wf exT_fresh exT_cov
  have hv : (scan exO [0, 2, 4, 3, 5, 1] exT).map (·.map (fun f => (f.kind, f.wrap))) =
      some [(.esm, .none), (.esm, .none), (.cjs, .cjs), (.dyn, .esm), (.cjs, .cjs), (.dyn, .none)] := by decide
  rw [e] at hv
  simp only [Option.map_some, Option.some.injEq] at hv
  have h3 : ∃ f, fs2[3]? = some f ∧ (f.kind, f.wrap) = (.dyn, .esm) := by
    have := congrArg (fun l => l[3]?) hv
    simp only [List.getElem?_map] at this
    cases hf : fs2[3]? with
    | none => rw [hf] at this; simp at this
    | some f => rw [hf] at this; exact ⟨f, rfl, by simpa using this⟩
  have h5 : ∃ f, fs2[5]? = some f ∧ (f.kind, f.wrap) = (.dyn, .none) := by
    have := congrArg (fun l => l[5]?) hv
    simp only [List.getElem?_map] at this
    cases hf : fs2[5]? with
    | none => rw [hf] at this; simp at this
    | some f => rw [hf] at this; exact ⟨f, rfl, by simpa using this⟩
  obtain ⟨f3, hf3, hv3⟩ := h3
  obtain ⟨f5, hf5, hv5⟩ := h5
  simp only [Prod.mk.injEq] at hv3 hv5
  refine ⟨fs2, e, ?_, ?_, ?_⟩
  · exact (wrap_iff exT_wf exT_fresh exT_cov exT_rt e 3).1 ⟨f3, hf3, by rw [hv3.2]; simp⟩
  · intro hw
    obtain ⟨g, hg, hgw⟩ := (wrap_iff exT_wf exT_fresh exT_cov exT_rt e 5).2 hw
    rw [hf5] at hg; injection hg with hg; subst hg
    exact hgw hv5.2
  · exact (dynamic_exports_iff_reachable_commonjs_star exT_wf exT_fresh exT_cov e hf5).1.1 (Or.inr hv5.1)

/-- `scan_order_independent` applies to two genuinely different orders of `exT` -/
example : scan exO [0, 2, 4, 3, 5, 1] exT = scan exO [1, 5, 3, 4, 2, 0] exT :=
  scan_order_independent exT_wf exT_fresh exT_cov exT_cov'

/-- `exports_kind_monotone`: `exT` has no file that is dynamic from the start -/
example : ∀ (i : Nat) (f : File), exT[i]? = some f → f.kind ≠ .dyn := by
  intro i f hf
  have := List.all_eq_true.1 (show noInitialDynB exT = true by decide) f (mem_of_get hf)
  simpa using this

/-- … and the hypothesis is needed: a (hypothetical) file that starts as dynamic-fallback and is `require`d becomes
CommonJS, which is not above dynamic-fallback. The parser never produces that kind. -/
example : (scan exO [0, 1] [mk false true .esm [⟨.require, some 1, false, false⟩] [], mk false false .dyn [] []]).map
    (·.map (·.kind)) = some [.esm, .cjs] ∧ ¬ ExportsKind.le (Kind.dyn).toSpec (Kind.cjs).toSpec :=
  ⟨by decide, fun h => h⟩

/-- `recursivelyWrapDependencies_terminates`, `hasDynamicExports_terminates`, `hasDynamicExports_fresh_visited_exact`:
`exT` (with its cycle 3 ↔ 4) is well formed -/
example : (∃ fs', wrapDeps (exT.length + 1) exT 3 = some fs') ∧ (∃ r, hasDyn exO (exT.length + 1) exT [] 5 = some r) :=
  ⟨recursivelyWrapDependencies_terminates exT_wf (by decide), hasDynamicExports_terminates exT_wf (by decide) [] (by simp)⟩

/-! ### the shared `visited` map: an inner answer can be wrong, the final table is not -/

/-- 0: `export * from 1`; 1: `export * from 2; export * from 3`; 2: `export * from 1`; 3 CommonJS -/
private def exV : Files := [
  mk false true .esm [⟨.stmt, some 1, false, false⟩] [0],
  mk false false .esm [⟨.stmt, some 2, false, false⟩, ⟨.stmt, some 3, false, false⟩] [0, 1],
  mk false false .esm [⟨.stmt, some 1, false, false⟩] [0],
  mk false false .cjs [] []]

/-- The traversal started at file 0 answers `true` and marks 0 and 1 — but not 2: the call on 2 happened while 1 was
still undecided (`visited`), so it answered `false`, although 2 re-exports everything of 1, which re-exports a
CommonJS file. -/
example : (hasDyn exO 5 exV [] 0).map (fun r => (r.res, r.fs.map (·.kind))) = some (true, [.dyn, .dyn, .esm, .cjs]) ∧
    (hasDyn exO 5 exV [1, 0] 2).map (·.res) = some false ∧ DS exO exV exV 2 := by
  refine ⟨by decide, by decide, ?_⟩
  have h21 : StarE exV 2 1 := ⟨_, 0, _, rfl, by decide, rfl, rfl, by decide⟩
  have h13 : StarE exV 1 3 := ⟨_, 1, _, rfl, by decide, rfl, rfl, by decide⟩
  exact .step h21 (.base h13 ⟨_, rfl, Or.inl rfl⟩)

/-- The loop of step 2 starts a traversal with a fresh map at every file, so 2 is marked in the end
(`dynamic_exports_iff_reachable_commonjs_star` proves this for every table). -/
example : (scan exO [0, 1, 2, 3] exV).map (·.map (·.kind)) = some [.dyn, .dyn, .dyn, .cjs] := by decide

/-! ### the code follows `import()` records under code splitting too: more than the intended least set -/

private def exSO : Opts := ⟨.esm, .bundle, true, false⟩

/-- 0 the runtime; 1 a CommonJS entry point with `import(2)`; 2 an ES module (an entry point of its own chunk) -/
private def exS : Files := [mk true false .esm [] [], mk false true .cjs [⟨.dynamic, some 2, false, false⟩] [],
  mk false true .esm [] []]

/-- File 2 is wrapped by the linker (this was also run on the real code: `exports.x = 1; import('./b.js')` with
`--splitting --format=esm` wraps `b.js` and its static imports in `__esm`) although the intended closure does not
ask for it. Wrapping more is sound; it only costs the scope hoisting of that chunk. -/
example : (scan exSO [0, 2, 1] exS).map (·.map (·.wrap)) = some [.none, .cjs, .esm] ∧ ¬ Wrapped (intendedGraph exSO exS) 2 := by
  refine ⟨by decide, ?_⟩
  have key : ∀ (j : Nat) (f : File), exS[j]? = some f → ∀ r ∈ f.recs, r.target = some 2 → r.kind = .dynamic := by
    intro j f hf r hr _
    match j, hf with
    | 0, hf => simp [exS, mk] at hf; subst hf; simp at hr
    | 1, hf => simp [exS, mk] at hf; subst hf; simp at hr; subst hr; rfl
    | 2, hf => simp [exS, mk] at hf; subst hf; simp at hr
    | (n + 3), hf => simp [exS] at hf
  have hnc : ¬ IsCommonJS (intendedGraph exSO exS) 2 := not_isCommonJS_of_esm rfl
  have hni : ¬ ∃ j, (intendedGraph exSO exS).imports j 2 := by
    rintro ⟨j, f, r, hf, hr, ht, hnd⟩
    exact hnd ⟨key j f hf r hr ht, rfl⟩
  intro h
  cases h with
  | root hm =>
    rcases hm with ⟨j, f, r, hf, hr, ht, hl⟩ | ⟨hc, _⟩ | ⟨hc, _⟩
    · have := key j f hf r hr ht
      simp [lazyRec, this, exSO] at hl
    · exact hnc hc
    · exact hnc hc
  | dep _ _ he _ => exact hni ⟨_, he⟩

/-! ### an unwrapped CommonJS entry point -/

/-- with `--format=cjs` a CommonJS entry point that nobody imports keeps its body at the top level
(`unwrapped_commonjs_is_unimported_entry` is not vacuous) -/
example : (scan ⟨.cjs, .bundle, false, false⟩ [0, 1, 2]
    [mk true false .esm [] [], mk false true .cjs [⟨.stmt, some 2, false, false⟩] [], mk false false .esm [] []]).map
    (·.map (fun f => (f.kind, f.wrap))) = some [(.esm, .none), (.cjs, .none), (.esm, .none)] := by decide

end EsbuildModel.C02Wrap
