import EsbuildModel.Lemmas.CssNumber
/-!
# C12 — CSS minification preserves the value of numbers and dimensions (property theorems)

Model: `Impl/CssNumber.lean` (`mangleNumber`, `shiftDot`, `mangleDimension` of internal/css_parser/css_parser.go).
Specification: `Spec/JsNumber.lean`, section CSS (`cssValue`: CSS Syntax 3 §4.3.12/§4.3.13 — which texts are a
<number-token> and their value as an exact rational).

History: two of these statements were FALSE of the code when the model was first written (found by this work and
reproduced on the real esbuild), and were then repaired in /repo:
  * `mangleNumber` stripped trailing '0' bytes from the END of the text even when the text ended with an exponent
    (`1.5e10` became `1.5e1`); the loop is now guarded by `!strings.ContainsAny(t, "eE")`.
  * `shiftDot` returned a text without any digit when all digits were '0' and the shifted dot landed at 0 after the
    zeros were removed (`shiftDot("00", -2) = ""`: `scale(00%)` became `scale()`, `000ms` became `s`); it now
    returns `sign + "0"` there.
The theorems below are at full strength for the repaired code; the formerly failing inputs are `example`s at the end.

Remark (unchanged behaviour, not a value change): `mangleDimension` compares units with `strings.EqualFold`, whose
Unicode simple folding maps U+017F (ſ) to `s`; the unit `mſ` is therefore rewritten like `ms`. The model includes it.
-/
namespace EsbuildModel.C12Num
open EsbuildModel.CssNumber EsbuildModel.NumText EsbuildModel.Spec.Num

/-- `strings.ContainsAny(t, "eE")` -/
def hasExponent (t : List Char) : Bool := t.any (fun c => c = 'e' ∨ c = 'E')

theorem hasExponent_of_exp {s : Option Bool} {p : DecParts} {x : ExpPart} (h : p.exp = some x) :
    hasExponent (sgnText s ++ p.render) = true := by
  unfold hasExponent
  rw [List.any_eq_true]
  refine ⟨if x.upper then 'E' else 'e', ?_, by cases x.upper <;> simp⟩
  simp [DecParts.render, h, expText]

/-- **B1.** For EVERY well-formed CSS number text (any sign, any number of digits, with or without '.', with or
without exponent, whatever the exponent digits are): the text returned by `mangleNumber` is a well-formed CSS number
with exactly the same value. -/
theorem mangleNumber_preserves_value (t : List Char) (v : Rat) (h : cssValue t = some v) :
    cssValue (mangleNumber t).1 = some v := by
  obtain ⟨s, p, rfl, hw, hv, rfl⟩ := cssValue_sound h
  exact mangleNumber_value s p hw hv

/-- **B2.** For EVERY well-formed CSS number text without exponent (value zero included) and EVERY shift k:
`shiftDot` succeeds, its result is a well-formed CSS number, and its value is the original value × 10^k. -/
theorem shiftDot_scales_value (t : List Char) (v : Rat) (k : Int) (h : cssValue t = some v)
    (hexp : hasExponent t = false) :
    ∃ out, shiftDot t k = some out ∧ cssValue out = some (v * (10 : Rat) ^ k) := by
  obtain ⟨s, p, rfl, hw, hv, rfl⟩ := cssValue_sound h
  obtain ⟨I, fo, eo⟩ := p
  cases eo with
  | some x =>
    have := hasExponent_of_exp (s := s) (p := ⟨I, fo, some x⟩) rfl
    rw [hexp] at this; cases this
  | none => exact shiftDot_value s fo hw.int hw.frac hv k

/-- texts with an exponent are refused (`("", false)`) -/
theorem shiftDot_refuses_exponent (t : List Char) (k : Int) (hexp : hasExponent t = true) : shiftDot t k = none := by
  unfold shiftDot
  unfold hasExponent at hexp
  rw [if_pos hexp]

/-- **B2 (dimensions).** Whenever `mangleDimension` rewrites a well-formed time value (zero included), the unit was
`ms` (up to case folding) and becomes `s` with value ÷ 1000, or it was `s` and becomes `ms` with value × 1000; the new
value text is a well-formed CSS number. -/
theorem mangleDimension_preserves_time (value unit : List Char) (v : Rat) (h : cssValue value = some v)
    (value' unit' : List Char) (hm : mangleDimension value unit = some (value', unit')) :
    (equalFoldMs unit = true ∧ unit' = ['s'] ∧ cssValue value' = some (v * (10 : Rat) ^ (-3 : Int))) ∨
    (equalFoldS unit = true ∧ unit' = ['m', 's'] ∧ cssValue value' = some (v * (10 : Rat) ^ (3 : Int))) := by
  have hexp : hasExponent value = false := by
    cases he : hasExponent value with
    | false => rfl
    | true =>
      rcases mangleDimension_cases hm with ⟨_, _, h1, _⟩ | ⟨_, _, h1, _⟩ <;>
        rw [shiftDot_refuses_exponent value _ he] at h1 <;> cases h1
  rcases mangleDimension_cases hm with ⟨hu, hu', h1, _⟩ | ⟨hu, hu', h1, _⟩
  · obtain ⟨o, h2, hv⟩ := shiftDot_scales_value value v (-3) h hexp
    rw [h1] at h2; cases h2
    exact Or.inl ⟨hu, hu', hv⟩
  · obtain ⟨o, h2, hv⟩ := shiftDot_scales_value value v 3 h hexp
    rw [h1] at h2; cases h2
    exact Or.inr ⟨hu, hu', hv⟩

/-! ## non-vacuity, and the formerly failing inputs -/

example : isCssNumber "-0.500".toList = true := by decide
example : isCssNumber "+.5e-3".toList = true := by decide
example : isCssNumber "1.5e10".toList = true := by decide
example : isCssNumber "00".toList = true := by decide
example : isCssNumber "1.".toList = false := by decide
example : hasExponent "-0.500".toList = false := by decide
example : (mangleNumber "-0.500".toList).1 = "-.5".toList := by decide
example : (mangleNumber "1.0".toList).1 = "1".toList := by decide
example : (mangleNumber ".0".toList).1 = "0".toList := by decide
example : (mangleNumber "0.50e3".toList).1 = ".50e3".toList := by decide
/-- formerly `1.5e1` (a digit of the exponent was dropped); now unchanged -/
example : mangleNumber "1.5e10".toList = ("1.5e10".toList, false) := by decide
/-- an exponent ending in '0' still gets the leading-zero removal -/
example : (mangleNumber "-0.50E+20".toList).1 = "-.50E+20".toList := by decide
example := mangleNumber_preserves_value "1.5e10".toList _ (h := rfl)
example : shiftDot "1500".toList (-3) = some "1.5".toList := by decide
example : shiftDot "-0.25".toList 3 = some "-250".toList := by decide
example : shiftDot "50".toList (-2) = some ".5".toList := by decide
/-- formerly the empty text (`scale(00%)` → `scale()`, `000ms` → `s`); now "0" -/
example : shiftDot "00".toList (-2) = some "0".toList := by decide
example : shiftDot "000".toList (-3) = some "0".toList := by decide
example : shiftDot "+0.000".toList 3 = some "+0".toList := by decide
example : shiftDot "0.00".toList 1 = some "0".toList := by decide
example : hasExponent "00".toList = false := by decide
example : mangleDimension "1500".toList "ms".toList = some ("1.5".toList, "s".toList) := by decide
example : mangleDimension "0.001".toList "S".toList = some ("1".toList, "ms".toList) := by decide
example : mangleDimension "000".toList "ms".toList = some ("0".toList, "s".toList) := by decide

end EsbuildModel.C12Num
