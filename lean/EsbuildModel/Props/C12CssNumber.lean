import EsbuildModel.Lemmas.CssNumber
/-!
# C12 — CSS minification preserves the value of numbers and dimensions (property theorems)

Model: `Impl/CssNumber.lean` (`mangleNumber`, `shiftDot`, `mangleDimension` of internal/css_parser/css_parser.go).
Specification: `Spec/JsNumber.lean`, section CSS (`cssValue`: CSS Syntax 3 §4.3.12/§4.3.13 — which texts are a
<number-token> and their value as an exact rational).

Two statements are FALSE of the code at full strength (both reproduced on the real esbuild, see the `example`s at
the end), so the proved theorems carry an explicit hypothesis and are named `_partial`:
  * `mangleNumber` strips trailing '0' bytes from the END of the text even when the text ends with an exponent:
    `1.5e10` becomes `1.5e1`.
  * `shiftDot` returns a text without any digit when all digits are '0' and the shifted dot position falls inside
    or at the end of the digits: `shiftDot("00", -2) = ""`, so `scale(00%)` becomes `scale()` and `000ms` becomes `s`.
-/
namespace EsbuildModel.C12Num
open EsbuildModel.CssNumber EsbuildModel.NumText EsbuildModel.Spec.Num

def hasExponent (t : List Char) : Bool := t.any (fun c => c = 'e' ∨ c = 'E')

theorem hasExponent_of_exp {s : Option Bool} {p : DecParts} {x : ExpPart} (h : p.exp = some x) :
    hasExponent (sgnText s ++ p.render) = true := by
  unfold hasExponent
  rw [List.any_eq_true]
  refine ⟨if x.upper then 'E' else 'e', ?_, by cases x.upper <;> simp⟩
  simp [DecParts.render, h, expText]

theorem getLast_of_exp {s : Option Bool} {p : DecParts} {x : ExpPart} (h : p.exp = some x) (hne : x.digits ≠ []) :
    (sgnText s ++ p.render).getLast? = x.digits.getLast? := by
  have : (sgnText s ++ p.render).getLast? = (expText (some x)).getLast? := by
    simp only [DecParts.render, h, ← List.append_assoc]
    rw [List.getLast?_append]
    cases h' : (expText (some x)).getLast? with
    | none => simp [expText] at h'
    | some c => simp
  rw [this, expText_getLast hne]

-- OPEN (FALSE of the code, reproduced on real esbuild: `a{width:1.5e10px}` --minify → `a{width:1.5e1px}`):
--   theorem mangleNumber_preserves_value (t : List Char) (v : Rat) (h : cssValue t = some v) :
--       cssValue (mangleNumber t).1 = some v
-- What is missing: nothing in the proof — the code is wrong when the text has a '.', an exponent, and ends with '0'.

/-- **B1.** For EVERY well-formed CSS number text (any sign, any number of digits, with or without '.', with or
without exponent) whose exponent — if there is one — does not end with '0': the text returned by `mangleNumber`
is a well-formed CSS number with exactly the same value. -/
theorem mangleNumber_preserves_value_partial (t : List Char) (v : Rat) (h : cssValue t = some v)
    (hexp : hasExponent t = true → t.getLast? ≠ some '0') :
    cssValue (mangleNumber t).1 = some v := by
  obtain ⟨s, p, rfl, hw, hv, rfl⟩ := cssValue_sound h
  apply mangleNumber_value s p hw hv
  intro x hx
  rw [← getLast_of_exp (s := s) hx (hw.exp x hx).2]
  exact hexp (hasExponent_of_exp hx)

/-- … in particular for every number text without exponent. -/
theorem mangleNumber_preserves_value_noexp (t : List Char) (v : Rat) (h : cssValue t = some v)
    (hexp : hasExponent t = false) : cssValue (mangleNumber t).1 = some v :=
  mangleNumber_preserves_value_partial t v h (by rw [hexp]; intro h; cases h)

-- OPEN (FALSE of the code, reproduced on real esbuild: `a{transform:scale(00%,50%)}` --minify → `scale(,.5)`;
-- `a{transition:000ms}` → `a{transition:s}`):
--   theorem shiftDot_scales_value (t : List Char) (v : Rat) (k : Int) (h : cssValue t = some v)
--       (hexp : hasExponent t = false) : ∃ out, shiftDot t k = some out ∧ cssValue out = some (v * 10 ^ k)
-- What is missing: for v = 0 the result can be the bare sign (no digit at all), which is not a number.

/-- **B2.** For EVERY well-formed CSS number text without exponent and with a non-zero value, and EVERY shift k:
`shiftDot` succeeds, its result is a well-formed CSS number, and its value is the original value × 10^k. -/
theorem shiftDot_scales_value_partial (t : List Char) (v : Rat) (k : Int) (h : cssValue t = some v)
    (hexp : hasExponent t = false) (hnz : v ≠ 0) :
    ∃ out, shiftDot t k = some out ∧ cssValue out = some (v * (10 : Rat) ^ k) := by
  obtain ⟨s, p, rfl, hw, hv, rfl⟩ := cssValue_sound h
  obtain ⟨I, fo, eo⟩ := p
  cases eo with
  | some x =>
    have := hasExponent_of_exp (s := s) (p := ⟨I, fo, some x⟩) rfl
    rw [hexp] at this; cases this
  | none =>
    apply shiftDot_value s fo hw.int hw.frac hv k
    intro h0
    apply hnz
    rw [mv_eq_dec]
    simp only [h0]
    have : dec 0 (expVal none - ((fo.getD []).length : Int)) = 0 := dec_eq_zero.mpr rfl
    rw [this]
    unfold applySign; split <;> simp

/-- texts with an exponent are refused -/
theorem shiftDot_refuses_exponent (t : List Char) (k : Int) (hexp : hasExponent t = true) : shiftDot t k = none := by
  unfold shiftDot
  unfold hasExponent at hexp
  rw [if_pos hexp]

/-- **B2 (dimensions).** Whenever `mangleDimension` rewrites a non-zero time value, the unit was `ms` (up to case
folding) and becomes `s` with value ÷ 1000, or it was `s` and becomes `ms` with value × 1000; the new value text is a
well-formed CSS number. -/
theorem mangleDimension_preserves_time_partial (value unit : List Char) (v : Rat) (h : cssValue value = some v)
    (hnz : v ≠ 0) (value' unit' : List Char) (hm : mangleDimension value unit = some (value', unit')) :
    (equalFoldMs unit = true ∧ unit' = ['s'] ∧ cssValue value' = some (v * (10 : Rat) ^ (-3 : Int))) ∨
    (equalFoldS unit = true ∧ unit' = ['m', 's'] ∧ cssValue value' = some (v * (10 : Rat) ^ (3 : Int))) := by
  have hexp : hasExponent value = false := by
    cases he : hasExponent value with
    | false => rfl
    | true =>
      rcases mangleDimension_cases hm with ⟨_, _, h1, _⟩ | ⟨_, _, h1, _⟩ <;>
        rw [shiftDot_refuses_exponent value _ he] at h1 <;> cases h1
  rcases mangleDimension_cases hm with ⟨hu, hu', h1, _⟩ | ⟨hu, hu', h1, _⟩
  · obtain ⟨o, h2, hv⟩ := shiftDot_scales_value_partial value v (-3) h hexp hnz
    rw [h1] at h2; cases h2
    exact Or.inl ⟨hu, hu', hv⟩
  · obtain ⟨o, h2, hv⟩ := shiftDot_scales_value_partial value v 3 h hexp hnz
    rw [h1] at h2; cases h2
    exact Or.inr ⟨hu, hu', hv⟩

/-! ## non-vacuity and the two counterexamples (all run on the real esbuild as well) -/

example : isCssNumber "-0.500".toList = true := by decide
example : isCssNumber "+.5e-3".toList = true := by decide
example : isCssNumber "1.".toList = false := by decide
example : hasExponent "-0.500".toList = false := by decide
example : (mangleNumber "-0.500".toList).1 = "-.5".toList := by decide
example : (mangleNumber "1.0".toList).1 = "1".toList := by decide
example : (mangleNumber ".0".toList).1 = "0".toList := by decide
example : (mangleNumber "0.50e3".toList).1 = ".50e3".toList := by decide
/-- the hypothesis of `mangleNumber_preserves_value_partial` holds for "1.50e3" (exponent ends with '3') … -/
example : hasExponent "1.50e3".toList = true → "1.50e3".toList.getLast? ≠ some '0' := by decide
/-- … and fails for "1.5e10", where the model (like the code) drops a digit of the exponent: 1.5e10 → 1.5e1 -/
example : (mangleNumber "1.5e10".toList).1 = "1.5e1".toList := by decide
example : shiftDot "1500".toList (-3) = some "1.5".toList := by decide
example : shiftDot "-0.25".toList 3 = some "-250".toList := by decide
example : shiftDot "50".toList (-2) = some ".5".toList := by decide
example : mangleDimension "1500".toList "ms".toList = some ("1.5".toList, "s".toList) := by decide
example : mangleDimension "0.001".toList "S".toList = some ("1".toList, "ms".toList) := by decide
/-- the value-zero hole of `shiftDot`: no digit is left (`scale(00%)` → `scale()`, `000ms` → `s`) -/
example : shiftDot "00".toList (-2) = some [] := by decide
example : mangleDimension "000".toList "ms".toList = some ([], "s".toList) := by decide

end EsbuildModel.C12Num
