import EsbuildModel.Lemmas.WatchSound
/-! # C09 — watch mode: every edit that would change the result of a fresh build is detected

Model: `Impl/Watch.lean` (what `realFS` records, what `WatchData()` compares, `FSCache.ReadFile`).
`fs` is the file system the build read, `fsW` the file system when `WatchData()` ran, `fs'` a later file system.
-/
namespace EsbuildModel.C09Watch
open EsbuildModel.Watch

/-- the content cache that lives across builds is coherent with `fs`: an entry whose usable key equals the current
key of the path holds the current content (this is H1 between the build that filled the cache and `fs`) -/
def FCacheOK (fs : FS) (fc : List (Path × FCEntry)) : Prop :=
  ∀ p e, aget fc p = some e → e.usable = true → ∀ k, e.modKey = some k → fs.modKey p = .ok k →
    fs.readFile p = .ok e.contents

/-- the state a build starts from: nothing recorded, empty directory cache, the given content cache -/
def start (fc : List (Path × FCEntry)) : St := { fcache := fc }

theorem inv_start {fs : FS} {fc : List (Path × FCEntry)} (h : FCacheOK fs fc) : Inv fs (start fc) :=
  ⟨by simp [start], by simp [start], by simp [start], by simp [start], by simp [start], h⟩

/-- a content cache filled by reading through it on `fs` itself is coherent with `fs` -/
theorem warm_ok (fs : FS) (paths : List Path) : FCacheOK fs (warm fs paths) := by
  have key : ∀ (ps : List Path) (st : St), Inv fs st →
      Inv fs (ps.foldl (fun st p => (doCachedRead fs st p).1) st) := by
    intro ps
    induction ps with
    | nil => intro st h; exact h
    | cons p ps ih => intro st h; exact ih _ (doCachedRead_spec h p).1
  exact (key paths {} (inv_empty fs)).fcache

/-- **Within one build the caches are transparent.** Under H2 (one file system `fs` during the build) the answers
the code hands out — from the directory cache, the per-entry stat cache and the content cache — are exactly the
answers of a fresh look at `fs`. -/
theorem build_answers_are_fresh (fs : FS) (fc : List (Path × FCEntry)) (ops : List Op) (hfc : FCacheOK fs fc) :
    answersOf fs (start fc) ops = ops.map (answer fs) :=
  answersOf_eq ops (inv_start hfc)

/-- **Watch mode is complete.** Let a build perform the operations `ops` on `fs` (H2: `WatchData()` sees the same
mod keys, `fsW`), starting from a coherent content cache. Let `fs'` be any later file system on which NO predicate of
`WatchData().Paths` fires. If (H1) equal usable mod keys mean the same file with the same content, (H3) no
directory entry was replaced by one that differs only in case, and (H4) no two operations of the build conflict on
one `watchData` slot, then EVERY operation of the build has the same observable answer on `fs'` as on `fs`. -/
theorem watch_complete (fs fsW fs' : FS) (fc : List (Path × FCEntry)) (ops : List Op)
    (hfc : FCacheOK fs fc) (h1 : H1 fs fs') (h2 : H2 fs fsW) (h3 : H3 fs fs') (h4 : H4 fs ops)
    (hclean : dirty (finalize fsW (recordAll fs (start fc) ops)) fs' = []) :
    ∀ op ∈ ops, obs (answer fs' op) = obs (answer fs op) := by
  intro op hop
  have hinv0 := inv_start hfc
  have hcov := run_covers (fs := fs) ops (start fc) [] hinv0
    (by intro p hp; simp [HasCache, start] at hp) (by simp) (by simpa [H4] using h4) op (by simpa using hop)
  refine covers_sound (recordAll_inv ops hinv0) h1 h2 h3 ?_ hcov
  intro p hp
  unfold dirty at hclean
  have := List.filter_eq_nil_iff.mp hclean p hp
  simpa using this

/-- what a program does when every question it asks on `fs` has the same observable answer on `fs'` -/
theorem run_eq_of_answers {ρ : Type} (fs fs' : FS) : ∀ (prog : Prog ρ),
    (∀ op ∈ (prog.run fs).2, obs (answer fs' op) = obs (answer fs op)) → prog.run fs' = prog.run fs := by
  intro prog
  induction prog with
  | done r => intro _; rfl
  | ask op k ih =>
    intro h
    have hop : obs (answer fs' op) = obs (answer fs op) := h op (by simp [Prog.run])
    simp only [Prog.run, hop]
    have := ih (obs (answer fs op)) (by
      intro op' hop'
      apply h
      simp only [Prog.run]
      exact List.mem_cons_of_mem _ hop')
    rw [this]

/-- **An undetected edit cannot change a fresh build.** A deterministic build is a decision tree over the
observable answers. If the questions it asks on `fs` satisfy the hypotheses of `watch_complete` and no predicate
fires on `fs'`, then a fresh build on `fs'` asks the same questions and computes the same result. -/
theorem undetected_edit_keeps_build {ρ : Type} (fs fsW fs' : FS) (fc : List (Path × FCEntry)) (prog : Prog ρ)
    (hfc : FCacheOK fs fc) (h1 : H1 fs fs') (h2 : H2 fs fsW) (h3 : H3 fs fs') (h4 : H4 fs (prog.run fs).2)
    (hclean : dirty (finalize fsW (recordAll fs (start fc) (prog.run fs).2)) fs' = []) :
    prog.run fs' = prog.run fs :=
  run_eq_of_answers fs fs' prog (watch_complete fs fsW fs' fc _ hfc h1 h2 h3 h4 hclean)

/-! ## Non-vacuity and necessity of the hypotheses (all evaluated on the model by the kernel) -/

/-- a finite file system: the listed paths, everything else missing / kind ("",0) -/
def mk (nodes : List (Path × Node)) (kinds : List (Path × (String × Nat)) := []) : FS :=
  { node := fun p => match aget nodes p with | some n => n | none => .missing
    kind := fun p => match aget kinds p with | some k => k | none => ("", 0) }

def missed (fs fsW fs' : FS) (fc : List (Path × FCEntry)) (ops : List Op) (op : Op) : Bool :=
  dirty (finalize fsW (recordAll fs (start fc) ops)) fs' == [] && op ∈ ops && obs (answer fs' op) != obs (answer fs op)

/-- **H1 is needed**: the content changes, size/inode/mtime (the mod key 7) do not: no predicate fires. -/
example :
    let fs := mk [("R/a", .file "c1" (some 7))]
    let fs' := mk [("R/a", .file "c2" (some 7))]
    missed fs fs fs' [] [.readFile "R/a"] (.readFile "R/a") = true := by decide +kernel

/-- **H2 is needed**: the file is rewritten after the build read it and before `WatchData()` resolves
`stateFileNeedModKey`: the new key 8 is recorded for the old content. -/
example :
    let fs := mk [("R/a", .file "c1" (some 7))]
    let fs' := mk [("R/a", .file "c2" (some 8))]
    missed fs fs' fs' [] [.readFile "R/a"] (.readFile "R/a") = true := by decide +kernel

/-- **H3 is needed**: `Foo` is renamed to `foo`; `Get("foo")` recorded `wasPresent["foo"] = true` and answers
`Foo` before, `foo` after. -/
example :
    let fs := mk [("R", .dir ["Foo"] (some 1))]
    let fs' := mk [("R", .dir ["foo"] (some 2))]
    missed fs fs fs' [] [.get "R" "foo"] (.get "R" "foo") = true := by decide +kernel

/-- **H4 is needed (1)**: a missing path is probed as a directory, then read as a file (`stateFileMissing`
replaces `stateDirUnreadable`); the path becomes a directory. -/
example :
    let fs := mk [("R", .dir [] (some 1))]
    let fs' := mk [("R", .dir ["p"] (some 2)), ("R/p", .dir [] (some 3))]
    conflict fs (.readDir "R/p") (.readFile "R/p") = true ∧
    missed fs fs fs' [] [.readDir "R/p", .readFile "R/p"] (.readDir "R/p") = true := by decide +kernel

/-- **H4 is needed (2)**: the other order (`stateDirUnreadable` replaces `stateFileMissing`); the path becomes a file. -/
example :
    let fs := mk [("R", .dir [] (some 1))]
    let fs' := mk [("R", .dir ["p"] (some 2)), ("R/p", .file "c1" (some 3))]
    conflict fs (.readFile "R/p") (.readDir "R/p") = true ∧
    missed fs fs fs' [] [.readFile "R/p", .readDir "R/p"] (.readFile "R/p") = true := by decide +kernel

/-- **H4 is needed (3)**: a directory whose entry was looked up is then read as a file (EISDIR →
`stateFileMissing`): its entries are no longer watched. -/
example :
    let fs := mk [("R", .dir [] (some 1))]
    let fs' := mk [("R", .dir ["a"] (some 2))]
    conflict fs (.get "R" "a") (.readFile "R") = true ∧
    missed fs fs fs' [] [.get "R" "a", .readFile "R"] (.get "R" "a") = true := by decide +kernel

/-- **H4 is needed (4)**: a missing path is probed as a directory and `ModKey` is called on it afterwards
(`stateFileMissing` replaces `stateDirUnreadable`); the path becomes a directory. -/
example :
    let fs := mk [("R", .dir [] (some 1))]
    let fs' := mk [("R", .dir ["p"] (some 2)), ("R/p", .dir [] (some 3))]
    conflict fs (.readDir "R/p") (.modKey "R/p") = true ∧
    missed fs fs fs' [] [.readDir "R/p", .modKey "R/p"] (.readDir "R/p") = true := by decide +kernel

/-- **No longer lossy (repaired in `realFS.ModKey`)**: a file is probed as a directory (`stateDirUnreadable`) and
then served from the content cache, so that only `ModKey` runs: `ModKey` now turns `stateDirUnreadable` into
`stateFileHasModKey`, the pair does not conflict, and rewriting the file IS detected. -/
example :
    let fs := mk [("R/a", .file "c1" (some 7))]
    let fs' := mk [("R/a", .file "c2" (some 8))]
    conflict fs (.readDir "R/a") (.cachedRead "R/a") = false ∧
    (step fs (start (warm fs ["R/a"])) (.readDir "R/a")).1.watch.map (fun x => (x.1, x.2.state)) = [("R/a", .dirUnreadable)] ∧
    (recordAll fs (start (warm fs ["R/a"])) [.readDir "R/a", .cachedRead "R/a"]).watch.map (fun x => (x.1, x.2.state))
      = [("R/a", .hasModKey), ("R/a", .dirUnreadable)] ∧
    dirty (finalize fs (recordAll fs (start (warm fs ["R/a"])) [.readDir "R/a", .cachedRead "R/a"])) fs' = ["R/a", "R/a"] := by
  decide +kernel

/-- the other order was already fine (the earlier repair of `ReadDirectory` keeps the file state) -/
example :
    let fs := mk [("R/a", .file "c1" (some 7))]
    let fs' := mk [("R/a", .file "c2" (some 8))]
    conflict fs (.cachedRead "R/a") (.readDir "R/a") = false ∧
    dirty (finalize fs (recordAll fs (start (warm fs ["R/a"])) [.cachedRead "R/a", .readDir "R/a"])) fs' = ["R/a"] := by
  decide +kernel

/-- on a path that is a file, NO pair of operations conflicts -/
theorem no_conflict_on_files (fs : FS) (a b : Op)
    (hfile : ∀ p, dirOf a = some p ∨ readOf a = some p → fs.isFile p = true) : conflict fs a b = false := by
  unfold conflict
  have hmiss : ∀ p, fs.isFile p = true → fs.isMissing p = false := fun p h => isFile_not_isMissing h
  simp only [Bool.or_eq_false_iff]
  refine ⟨⟨?_, ?_⟩, ?_⟩
  · cases ha : dirOf a with
    | none => rfl
    | some d =>
      cases hb : readOf b with
      | none => rfl
      | some p =>
        simp only [Bool.and_eq_false_iff, Bool.not_eq_false', beq_eq_false_iff_ne]
        by_cases hdp : d = p
        · right; rw [← hdp]; exact hfile d (Or.inl ha)
        · left; exact hdp
  · cases ha : dirOf a with
    | none => rfl
    | some d =>
      cases b <;> try rfl
      rename_i p
      simp only [Bool.and_eq_false_iff, beq_eq_false_iff_ne]
      by_cases hdp : d = p
      · right; rw [← hdp]; exact hmiss d (hfile d (Or.inl ha))
      · left; exact hdp
  · cases ha : readOf a with
    | none => rfl
    | some p =>
      cases hb : dirOf b with
      | none => rfl
      | some d =>
        simp only [Bool.and_eq_false_iff, beq_eq_false_iff_ne]
        by_cases hdp : p = d
        · right; exact hmiss p (hfile p (Or.inr ha))
        · left; exact hdp

/-- **H5 (why `obs` forgets the error kind)**: a directory that was read as a file (EISDIR) is removed (ENOENT):
no predicate fires, the raw answers differ, the observable ones do not. -/
example :
    let fs := mk [("R/p", .dir [] (some 1))]
    let fs' := mk []
    dirty (finalize fs (recordAll fs (start []) [.readFile "R/p"])) fs' = [] ∧
    answer fs' (.readFile "R/p") ≠ answer fs (.readFile "R/p") ∧
    obs (answer fs' (.readFile "R/p")) = obs (answer fs (.readFile "R/p")) := by decide +kernel

/-- **why `obs` forgets mod keys**: a file that was too new for a usable key ages; nothing else changes. -/
example :
    let fs := mk [("R/a", .file "c1" none)]
    let fs' := mk [("R/a", .file "c1" (some 7))]
    dirty (finalize fs (recordAll fs (start []) [.cachedRead "R/a", .modKey "R/a"])) fs' = [] ∧
    answer fs' (.modKey "R/a") ≠ answer fs (.modKey "R/a") := by decide +kernel

/-! A non-trivial instance that meets every hypothesis of `watch_complete`: a build that looks up entries in two
cases, stats one through a symlink, lists a directory, reads a file through the warm content cache and probes it as
a directory afterwards; the edit adds an unrelated file, retouches nothing that was read. -/
def exFS : FS := mk
  [("R", .dir ["a.js", "Lib", "C.JS", "c.js"] (some 1)), ("R/a.js", .file "c1" (some 2)), ("R/Lib", .dir ["x"] none),
   ("R/C.JS", .file "c3" none), ("R/c.js", .file "c4" (some 5))]
  [("R/Lib", ("R/real", 1)), ("R/a.js", ("", 2))]

def exFS' : FS := { exFS with node := fun p => if p = "R/other/new" then .file "n" none else exFS.node p }

def exOps : List Op :=
  [.get "R" "A.JS", .kind "R" "lib", .sortedKeys "R/Lib", .cachedRead "R/a.js", .readDir "R/a.js",
   .get "R" "C.js", .readFile "R/C.JS", .modKey "R/c.js", .readDir "R/missing"]

example : H4 exFS exOps := by unfold H4; decide +kernel
example : FCacheOK exFS (warm exFS ["R/a.js"]) := warm_ok _ _
example : H2 exFS exFS := fun _ => rfl
example : H1 exFS exFS' := by
  intro p c k h hk
  by_cases hp : p = "R/other/new"
  · subst hp; revert h; simp [exFS, mk, aget]
  · simpa [exFS', hp] using h
example : H3 exFS exFS' := by
  intro d k n n' h h'
  have : exFS'.names d = exFS.names d := by
    unfold FS.names
    by_cases hp : d = "R/other/new"
    · subst hp; simp [exFS', exFS, mk, aget]
    · simp [exFS', hp]
  rw [this, h] at h'
  exact Option.some.inj h'
example : dirty (finalize exFS (recordAll exFS (start (warm exFS ["R/a.js"])) exOps)) exFS' = [] := by decide +kernel
example : exOps.map (answer exFS) =
    [.entry none (some "a.js"), .kind none (some ("Lib", "R/real", 1)), .keys none (some ["x"]), .file (.ok "c1"),
     .dir (some .notDir), .entry none (some "c.js"), .file (.ok "c3"), .key (.ok 5), .dir (some .notFound)] := by
  decide +kernel
/-- and the same build does notice the edits that matter: rewriting `R/a.js`, removing `R/Lib/x`, retargeting the link -/
example :
    let fs' := mk
      [("R", .dir ["a.js", "Lib", "C.JS", "c.js"] (some 1)), ("R/a.js", .file "c9" (some 9)), ("R/Lib", .dir [] none),
       ("R/C.JS", .file "c3" none), ("R/c.js", .file "c4" (some 5))]
      [("R/Lib", ("R/elsewhere", 1)), ("R/a.js", ("", 2))]
    (dirty (finalize exFS (recordAll exFS (start (warm exFS ["R/a.js"])) exOps)) fs').eraseDups =
      ["R/a.js", "R/Lib"] := by decide +kernel

end EsbuildModel.C09Watch
