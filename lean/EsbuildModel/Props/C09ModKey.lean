import EsbuildModel.Gen.ModKeyFacts
import EsbuildModel.Lemmas.FsCacheHonest
/-! # C09 — the safety gap of the modification key, over facts regenerated from the source

`Gen.ModKeyFacts` is rewritten from internal/fs/fs.go, modkey_unix.go, modkey_other.go on every run
(harness/cmd/extract/modkey.go). The theorems below give the extracted conditions their meaning in nanoseconds.
Dropping `* time.Second`, adding the gap to the nanosecond field, changing the constant below 2, turning `>` into
`>=` … makes one of them fail to compile. -/
namespace EsbuildModel.C09ModKey
open EsbuildModel.StatCache EsbuildModel.ModKeyExpr EsbuildModel.FsCache EsbuildModel.Gen.ModKeyFacts

/-- the gap the code uses, in nanoseconds -/
def codeGapNs : Int := safetyGap * nsPerSec

/-- both platform files make the same checks in the same order: stat error, zero-mtime rule, too-new rule, key -/
theorem check_order :
    unixOrder = ["stat:err := unix.Stat(path, &stat)", "error", "unusable#0", "now:unix.TimeToTimespec(time.Now())", "error", "unusable#1", "key"] ∧
    otherOrder = ["stat:os.Stat(path)", "error", "unusable#0", "unusable#1", "key"] := by
  decide

/-- the too-new test of modkey_unix.go (seconds and nanoseconds compared lexicographically, the gap added to the
SECONDS field) decides `now < mtime + gap` in nanoseconds, for every time stamp and clock reading; its zero rule
refuses exactly the time stamp 0 -/
theorem unix_too_new_is_gap_in_ns :
    ∃ z t, unixUnusable = [z, t] ∧ ∀ m now,
      (t.eval (env m now) ↔ tooNewNs codeGapNs m now) ∧ (z.eval (env m now) ↔ m = 0) := by
  refine ⟨_, _, rfl, fun m now => ⟨?_, ?_⟩⟩
  · simp only [C.eval, E.eval, env, codeGapNs, safetyGap]
    exact unix_tooNew_iff 3 now m
  · simp only [C.eval, E.eval, env, secOf, nsecOf, nsPerSec]
    omega

/-- the too-new test of modkey_other.go (`mtime.Add(modKeySafetyGap * time.Second).After(time.Now())`) decides the
same predicate — this is what fails when `* time.Second` is dropped; its zero rule refuses the whole first second
of 1970 and Go's zero Time -/
theorem other_too_new_is_gap_in_ns :
    ∃ z t, otherUnusable = [z, t] ∧ ∀ m now,
      (t.eval (env m now) ↔ tooNewNs codeGapNs m now) ∧
      (z.eval (env m now) ↔ (m = ModKeyExpr.zeroTimeNs ∨ (0 ≤ m ∧ m < nsPerSec))) := by
  refine ⟨_, _, rfl, fun m now => ⟨?_, ?_⟩⟩
  · simp only [C.eval, E.eval, env, codeGapNs, safetyGap, tooNewNs, nsPerSec]
    first | done | omega
  · simp only [C.eval, E.eval, env, secOf, nsPerSec]
    omega

/-- `gap_constant`: the gap is at least 2 s (the coarsest time-stamp resolution esbuild's comment names: FAT) in
the unit each comparison uses, the two platform files implement the same too-new predicate, and a 2 s resolution
FITS both platforms (the `other` key keeps whole seconds only, which eats up to 1 s − 1 ns of the gap) -/
theorem gap_constant :
    2 * nsPerSec ≤ codeGapNs ∧
    (∃ zu tu zo to, unixUnusable = [zu, tu] ∧ otherUnusable = [zo, to] ∧
      ∀ m now, tu.eval (env m now) ↔ to.eval (env m now)) ∧
    ResFits ⟨.unix, safetyGap, 2 * nsPerSec⟩ ∧ ResFits ⟨.other, safetyGap, 2 * nsPerSec⟩ := by
  refine ⟨by decide, ?_, ?_, ?_⟩
  · obtain ⟨zu, tu, hu, hu'⟩ := unix_too_new_is_gap_in_ns
    obtain ⟨zo, to, ho, ho'⟩ := other_too_new_is_gap_in_ns
    exact ⟨zu, tu, zo, to, hu, ho, fun m now => (hu' m now).1.trans (ho' m now).1.symm⟩
  · simp only [ResFits, slack, gapNs, safetyGap, nsPerSec]; omega
  · simp only [ResFits, slack, gapNs, safetyGap, nsPerSec]; omega

/-- the hand-written model (Impl/FsCache.lean `modKeyUnix`) answers `unusable` exactly when one of the extracted
conditions holds, with the extracted constant -/
theorem model_unix_matches_source (now : Int) (f : File) :
    (modKeyUnix safetyGap now (some f) = .unusable) ↔ ∃ c ∈ unixUnusable, c.eval (env f.mtime now) := by
  simp only [unixUnusable, List.mem_cons, List.not_mem_nil, or_false, exists_eq_or_imp, exists_eq_left,
    C.eval, E.eval, env, modKeyUnix, safetyGap]
  by_cases h1 : secOf f.mtime = 0 ∧ nsecOf f.mtime = 0
  · simp [h1]
  · by_cases h2 : secOf f.mtime + 3 > secOf now ∨ secOf f.mtime + 3 = secOf now ∧ nsecOf f.mtime > nsecOf now
    · simp [h1, h2]
    · simp [h1, h2]

theorem model_other_matches_source (now : Int) (f : File) :
    (modKeyOther safetyGap now (some f) = .unusable) ↔ ∃ c ∈ otherUnusable, c.eval (env f.mtime now) := by
  have hz : FsCache.zeroTimeNs = ModKeyExpr.zeroTimeNs := rfl
  simp only [otherUnusable, List.mem_cons, List.not_mem_nil, or_false, exists_eq_or_imp, exists_eq_left,
    C.eval, E.eval, env, modKeyOther, safetyGap, hz]
  have hn : (f.mtime + 3 * nsPerSec > now) ↔ (f.mtime + 3 * 1000000000 > now) := by simp only [nsPerSec]
  by_cases h1 : f.mtime = ModKeyExpr.zeroTimeNs ∨ secOf f.mtime = 0
  · simp [h1]
  · by_cases h2 : f.mtime + 3 * nsPerSec > now
    · simp [h1, h2]; simp only [nsPerSec] at h2; omega
    · have h3 : ¬ (f.mtime + 3 * 1000000000 > now) := fun h => h2 (hn.mpr h)
      simp [h1, h2]; omega

/-- the key fields each platform fills in are the ones the model fills in (unix: all six; other: size, whole
seconds, mode) -/
theorem key_fields :
    unixKeyFields = [("inode", "stat.Ino"), ("size", "stat.Size"), ("mtime_sec", "int64(stat.Mtim.Sec)"),
      ("mtime_nsec", "int64(stat.Mtim.Nsec)"), ("mode", "uint32(stat.Mode)"), ("uid", "stat.Uid")] ∧
    otherKeyFields = [("size", "info.Size()"), ("mtime_sec", "mtime.Unix()"), ("mode", "uint32(info.Mode())")] := by
  decide

end EsbuildModel.C09ModKey
