import EsbuildModel.Lemmas.WatchLoopMru
import EsbuildModel.Impl.Watch
/-
C09, the polling loop: watch mode notices every change that the watch data of the last build can see.

Props/C09Watch.lean proves that the watch DATA is complete (an edit no predicate reports cannot change a deterministic build).
This file is about the LOOP of pkg/api/watcher.go that evaluates those predicates (model: Impl/WatchLoop.lean), for every
size of the watch data, every order in which Go ranges over the map, every outcome of the shuffle, and every way the
predicate answers change between (and, where stated, during) polls:

 1. `dirty_path_found_within_bound`  a path that stays dirty is reported after at most `bound w p` polls; at a loop head of the
    goroutine that is at most 2·⌈n/itemsPerIteration⌉ − 1 ≤ 39 polls (`bound_le_39_at_loop_head`), and the bound is attained
    (`bound_is_attained`): NOT the 20 intervals the comment on `maxIntervalsBeforeUpdate` promises;
 2. `recent_items_asked_every_poll`, `recent_dirty_found_at_once`;
 3. `no_item_lost`, `every_key_asked_once_per_round`;
 4. `found_path_is_dirty`;
 5. `recent_items_bounded` (with `reachable_inv`), `recent_items_are_most_recent_hits`, `setWatchData_recent`;
 6. the goroutine: `loop_rebuilds_only_on_dirty`, `loop_detects_within_bound`, `loop_stops`, `setWatchData_idem`.
A transient edit can be missed by design: `transient_edit_window` and the example after it.
-/
namespace EsbuildModel.C09WatchLoop
open EsbuildModel.WatchLoop

set_option linter.unusedSectionVars false

variable {α : Type} [DecidableEq α]

/-! ## reachable states -/

/-- the states of a watcher: `&watcher{}`, then any sequence of `setWatchData` (key sets of Go maps) and
`tryToFindDirtyPath` (any refill order the real code can produce, any predicate answers) -/
inductive Reachable : W α → Prop
  | init : Reachable W.init
  | set {w : W α} (newKeys : List α) : Reachable w → newKeys.Nodup → Reachable (setWatchData w newKeys)
  | poll {w : W α} (order : List α) (ask : Ask α) (o : Out α) : Reachable w → ValidOrder w order →
      poll w order ask = some o → Reachable o.w

/-- every reachable state satisfies the invariant (keys without repetition, `itemsToScan` duplicate-free and inside the
keys, `recentItems` inside the keys and at most 16 long, `itemsPerIteration` positive while a round is in progress) -/
theorem reachable_inv {w : W α} (h : Reachable w) : Inv w := by
  induction h with
  | init => exact inv_init
  | set newKeys _ hk ih => exact inv_setWatchData ih.recentLen hk
  | poll order ask o _ hv ho ih => exact inv_poll ih hv ho

/-- the real code never calls a nil predicate: `tryToFindDirtyPath` does not panic in a reachable state -/
theorem poll_never_panics {w : W α} (h : Reachable w) {order : List α} (hv : ValidOrder w order) (ask : Ask α) :
    ∃ o, poll w order ask = some o := poll_isSome (reachable_inv h) hv ask

/-- and when the model does panic, the state held a path that is not a key of the watch data -/
theorem panic_only_outside_keys {w : W α} {order : List α} {ask : Ask α} (h : poll w order ask = none) :
    (∃ x ∈ w.recentItems, x ∉ w.keys) ∨ (∃ x ∈ (refill w order).itemsToScan, x ∉ w.keys) := by
  have := pollCore_none h
  rwa [refill_recentItems, refill_keys] at this

example : Reachable (setWatchData (W.init : W Nat) [1, 2, 3]) := .set _ .init (by decide)
example : poll { keys := [1], itemsToScan := [2], recentItems := [], perIter := 1 } [] (fun _ _ => "") = none := by decide

/-! ## 1. a path that stays dirty is found within the bound -/

/-- If the predicate of a key `p` answers "dirty" whenever it is asked, then for EVERY choice of refill orders one of the
first `bound w p` polls returns a path (the loop rebuilds then), where `bound w p` is
  1                                                  if `p` is a recent item,
  ⌈|itemsToScan| / itemsPerIteration⌉                if `p` is still waiting in this round,
  ⌈|itemsToScan| / itemsPerIteration⌉ + ⌈n / max(64, ⌈n/20⌉)⌉   otherwise (rest of this round, then a complete round). -/
theorem dirty_path_found_within_bound {w : W α} (hw : Inv w) {p : α} (hp : p ∈ w.keys) (polls : List (PollIn α))
    (hpolls : ∀ q ∈ polls, q.order.Perm w.keys ∧ ∀ c, q.ask c p ≠ "") (hlen : bound w p ≤ polls.length) :
    ∃ i d, firstHit w polls = some (i, d) ∧ i < bound w p ∧ d ≠ "" := by
  unfold bound at hlen ⊢
  by_cases hrec : p ∈ w.recentItems
  · rw [if_pos hrec] at hlen ⊢
    cases polls with
    | nil => simp at hlen
    | cons q qs =>
      have hv : ValidOrder w q.order := (hpolls q (by simp)).1
      obtain ⟨o, ho⟩ := poll_isSome hw hv q.ask
      have hne : o.ret ≠ "" :=
        pollCore_recent_dirty (inv_refill hw hv) ho (hpolls q (by simp)).2 (by rw [refill_recentItems]; exact hrec)
      exact ⟨0, o.ret, by simp [firstHit, ho, hne], by omega, hne⟩
  · rw [if_neg hrec] at hlen ⊢
    by_cases hit : p ∈ w.itemsToScan
    · rw [if_pos hit] at hlen ⊢
      exact firstHit_phase1 polls w hw hit (fun q hq => (hpolls q hq).2) hlen
    · rw [if_neg hit] at hlen ⊢
      exact firstHit_anywhere polls w hw hp hpolls hlen

/-- one complete round never takes more than `maxIntervalsBeforeUpdate` = 20 polls … -/
theorem round_at_most_20 (n : Nat) : roundLen n ≤ 20 := roundLen_le n

/-- … but at a loop head of the goroutine the bound is two rounds minus one poll: up to 39 polls -/
theorem bound_le_39_at_loop_head {w : W α} (hm : MidRound w) {p : α} (hp : p ∈ w.keys) :
    bound w p ≤ 2 * roundLen w.keys.length - 1 ∧ bound w p ≤ 39 := by
  have h := bound_le_of_midRound hm hp
  have := roundLen_le w.keys.length
  unfold maxIntervalsBeforeUpdate at this
  exact ⟨h, by omega⟩

/-- non-vacuity of `dirty_path_found_within_bound`: three keys, the second one dirty, found in the first poll -/
example : firstHit { keys := [1, 2, 3], itemsToScan := [], recentItems := [], perIter := 0 }
    [⟨[3, 1, 2], fun _ x => if x = 2 then "two" else ""⟩] = some (0, "two") := by decide

/-- The bound is attained at a loop head. 65 keys (so a round is 2 polls of up to 64): key 0 was looked at in the first poll
of the current round and became dirty just after; the round ends (poll 1), the next shuffle puts key 0 at the front so
that it is looked at last (poll 2 sees keys 1…64, poll 3 sees key 0): reported by the third poll = 2·2 − 1. -/
theorem bound_is_attained :
    ∃ (w : W Nat) (p : Nat) (polls : List (PollIn Nat)), Inv w ∧ MidRound w ∧ p ∈ w.keys ∧
      (∀ q ∈ polls, q.order.Perm w.keys ∧ ∀ c, q.ask c p ≠ "") ∧
      bound w p = 2 * roundLen w.keys.length - 1 ∧ firstHit w polls = some (bound w p - 1, "dirty") := by
  refine ⟨{ keys := List.range 65, itemsToScan := [1], recentItems := [], perIter := 64 }, 0,
    List.replicate 3 ⟨List.range 65, fun _ x => if x = 0 then "dirty" else ""⟩, ?_, ?_, ?_, ?_, ?_, ?_⟩
  · exact ⟨by decide, by decide, by decide, by decide, by decide, by decide⟩
  · right; decide
  · decide
  · intro q hq
    rw [List.eq_of_mem_replicate hq]
    exact ⟨List.Perm.refl _, fun _ => by simp⟩
  · decide
  · decide +kernel

/-! ## 2. the recent items are asked in every poll -/

/-- Every poll first calls the predicates of the recent items, in order: either all of them (each answered ""), or up to
the first one that answers dirty, and then the poll returns that answer. -/
theorem recent_items_asked_every_poll {w : W α} (hw : Inv w) {order : List α} (hv : ValidOrder w order) {ask : Ask α}
    {o : Out α} (h : poll w order ask = some o) :
    (w.recentItems <+: o.calls ∧ ∀ i x, w.recentItems[i]? = some x → ask i x = "") ∨
    (o.calls <+: w.recentItems ∧ o.ret ≠ "" ∧ ∃ p ∈ w.recentItems, o.hit = some p) := by
  have hw1 := inv_refill hw hv
  have hrec := refill_recentItems w order
  rcases pollCore_cases (refill w order) ask hw1.recentSub hw1.itemsSub with
    ⟨i, p, d, hs, ho⟩ | ⟨h1, i, p, d, hs, ho⟩ | ⟨h1, _, ho⟩
  · right
    rw [show pollCore (refill w order) ask = poll w order ask from rfl, h] at ho; cases ho
    obtain ⟨hip, _, _, hd, _⟩ := scan_hit _ _ _ _ _ hs
    rw [hrec] at hip ⊢
    exact ⟨List.take_prefix _ _, hd, p, List.mem_of_getElem? hip, rfl⟩
  · left
    rw [show pollCore (refill w order) ask = poll w order ask from rfl, h] at ho; cases ho
    rw [hrec] at h1 ⊢
    exact ⟨List.prefix_append _ _, fun i x hx => by simpa using (scan_clean _ _ h1).2 i x hx⟩
  · left
    rw [show pollCore (refill w order) ask = poll w order ask from rfl, h] at ho; cases ho
    rw [hrec] at h1 ⊢
    exact ⟨List.prefix_append _ _, fun i x hx => by simpa using (scan_clean _ _ h1).2 i x hx⟩

/-- A recent item that is dirty is reported by the very next poll ("further changes to recently changed files should be
noticed almost instantly"). -/
theorem recent_dirty_found_at_once {w : W α} (hw : Inv w) {order : List α} (hv : ValidOrder w order) {ask : Ask α}
    {r : α} (hr : r ∈ w.recentItems) (hd : ∀ c, ask c r ≠ "") : ∃ o, poll w order ask = some o ∧ o.ret ≠ "" := by
  obtain ⟨o, ho⟩ := poll_isSome hw hv ask
  exact ⟨o, ho, pollCore_recent_dirty (inv_refill hw hv) ho hd (by rw [refill_recentItems]; exact hr)⟩

example : (poll { keys := [1, 2, 3], itemsToScan := [1], recentItems := [3, 2], perIter := 64 } []
    (fun _ x => if x = 2 then "two" else "")).map (fun o => (o.ret, o.calls, o.w.recentItems)) =
    some ("two", [3, 2], [3, 2]) := by decide


/-! ## 3. `setWatchData` after a rebuild loses nothing -/

/-- After `setWatchData`: the state is consistent and at a loop head; the recent items are exactly the old recent items that
are still part of the build (same order); the next poll refills `itemsToScan` with EVERY path of the new data (also the
recent ones: they are asked twice per round, which is harmless); every path is reached within one complete round. -/
theorem no_item_lost {w : W α} (hw : Inv w) {newKeys : List α} (hk : newKeys.Nodup) :
    Inv (setWatchData w newKeys) ∧ MidRound (setWatchData w newKeys) ∧
    (setWatchData w newKeys).recentItems.Sublist w.recentItems ∧
    (∀ p, p ∈ (setWatchData w newKeys).recentItems ↔ p ∈ w.recentItems ∧ p ∈ newKeys) ∧
    (∀ order, ValidOrder (setWatchData w newKeys) order →
      ∀ p ∈ newKeys, p ∈ (refill (setWatchData w newKeys) order).itemsToScan) ∧
    (∀ p ∈ newKeys, bound (setWatchData w newKeys) p ≤ roundLen newKeys.length) := by
  refine ⟨inv_setWatchData hw.recentLen hk, setWatchData_midRound w newKeys, List.filter_sublist, ?_, ?_, ?_⟩
  · intro p; simp [setWatchData]
  · intro order hv p hp
    have : refill (setWatchData w newKeys) order =
        { setWatchData w newKeys with itemsToScan := order, perIter := perIterOf order.length } := by
      unfold refill; rw [if_pos (by simp [setWatchData])]
    rw [this]
    exact hv.mem_iff.mpr hp
  · intro p hp
    have hn : 0 < newKeys.length := List.length_pos_iff.mpr (List.ne_nil_of_mem hp)
    have hrpos : 0 < roundLen newKeys.length := cdiv_pos hn (perIterOf_pos _)
    unfold bound
    split
    · omega
    · have h0 : (setWatchData w newKeys).itemsToScan = [] := rfl
      rw [if_neg (by rw [h0]; simp), h0]
      simp only [List.length_nil]
      rw [cdiv_zero]
      show 0 + roundLen newKeys.length ≤ _
      omega

/-- Fairness of the refill-when-empty discipline, for EVERY map order and shuffle: starting with an empty `itemsToScan`
(as after `setWatchData`), if no poll reports anything then within `⌈n / itemsPerIteration⌉` polls the predicate of every
key has been called. (From a state in the middle of a round: within the rest of that round plus one round.) -/
theorem every_key_asked_once_per_round {w : W α} (hw : Inv w) {p : α} (hp : p ∈ w.keys) (polls : List (PollIn α))
    (hpolls : ∀ q ∈ polls, q.order.Perm w.keys) {wf : W α} {cs : List α}
    (hrun : runPolls w polls = some (wf, [], cs))
    (hlen : cdiv w.itemsToScan.length w.perIter + roundLen w.keys.length ≤ polls.length) : p ∈ cs :=
  runPolls_covers_anywhere polls w wf cs hw hp hpolls hrun hlen

/-- non-vacuity: 3 keys, quiet world, one poll = one round; all three predicates are called -/
example : runPolls (setWatchData (W.init : W Nat) [1, 2, 3]) [⟨[2, 3, 1], fun _ _ => ""⟩] =
    some ({ keys := [1, 2, 3], itemsToScan := [], recentItems := [], perIter := 64 }, [], [2, 3, 1]) := by decide

/-! ## 4. soundness: a rebuild is triggered only by a predicate that fired -/

/-- If `tryToFindDirtyPath` returns a path `d ≠ ""`, then `d` is the answer of the LAST predicate call `c` of this poll, that
predicate is the one stored for a key `p` of the current watch data, every earlier call of this poll answered "",
the calls made are a prefix of `recentItems ++ toCheck`, and `p` is now the last (most recent) recent item. -/
theorem found_path_is_dirty {w : W α} (hw : Inv w) {order : List α} (hv : ValidOrder w order) {ask : Ask α}
    {o : Out α} (h : poll w order ask = some o) (hr : o.ret ≠ "") :
    ∃ c p, o.hit = some p ∧ p ∈ w.keys ∧ o.calls[c]? = some p ∧ o.calls.length = c + 1 ∧ o.ret = ask c p ∧
      (∀ j x, j < c → o.calls[j]? = some x → ask j x = "") ∧ o.w.recentItems.getLast? = some p ∧
      o.calls <+: w.recentItems ++ toCheck (refill w order) := by
  have := pollCore_ret_ne (inv_refill hw hv) h hr
  rwa [refill_keys, refill_recentItems] at this

/-- and a poll that returns "" has asked `recentItems ++ toCheck` completely, and every answer was "" -/
theorem clean_poll_asked_all {w : W α} (hw : Inv w) {order : List α} (hv : ValidOrder w order) {ask : Ask α}
    {o : Out α} (h : poll w order ask = some o) (hr : o.ret = "") :
    o.calls = w.recentItems ++ toCheck (refill w order) ∧ o.hit = none ∧ o.w.recentItems = w.recentItems ∧
    (∀ i x, o.calls[i]? = some x → ask i x = "") := by
  have hw1 := inv_refill hw hv
  obtain ⟨heq, h1, h2⟩ := pollCore_ret_empty hw1 h hr
  rw [refill_recentItems] at h1 h2
  refine ⟨by rw [heq, refill_recentItems], by rw [heq], by rw [heq]; exact refill_recentItems w order, ?_⟩
  intro i x hx
  rw [heq] at hx
  have hx' : (w.recentItems ++ toCheck (refill w order))[i]? = some x := by
    rw [← refill_recentItems w order]; exact hx
  by_cases hi : i < w.recentItems.length
  · rw [List.getElem?_append_left hi] at hx'
    simpa using (scan_clean _ _ h1).2 i x hx'
  · rw [List.getElem?_append_right (by omega)] at hx'
    have := (scan_clean _ _ h2).2 _ x hx'
    have e : w.recentItems.length + (i - w.recentItems.length) = i := by omega
    rw [e] at this; exact this

example : (poll { keys := [1, 2, 3], itemsToScan := [], recentItems := [3], perIter := 0 } [1, 2, 3]
    (fun _ x => if x = 2 then "two/sub" else "")).map (fun o => (o.ret, o.hit, o.calls, o.w.recentItems)) =
    some ("two/sub", some 2, [3, 1, 2], [3, 2]) := by decide


/-! ## 5. `recentItems` is a ring buffer of the 16 most recently reported paths -/

/-- `recentItems` never holds more than `maxRecentItemCount` = 16 paths, and only keys of the current watch data -/
theorem recent_items_bounded {w : W α} (h : Reachable w) :
    w.recentItems.length ≤ 16 ∧ ∀ x ∈ w.recentItems, x ∈ w.keys :=
  ⟨(reachable_inv h).recentLen, (reachable_inv h).recentSub⟩

/-- Between two `setWatchData` calls, if the predicate answers do not change DURING a poll: after any number of polls,
`recentItems` is exactly the last 16 of the distinct paths of (old `recentItems` followed by the keys whose predicates
fired, in order), each at the position of its last occurrence; in particular it has no duplicates. -/
theorem recent_items_are_most_recent_hits {w : W α} (hw : Inv w) (hn : w.recentItems.Nodup) (polls : List (PollIn α))
    (hpolls : ∀ q ∈ polls, q.order.Perm w.keys ∧ Stable q.ask) {wf : W α} {hs cs : List α}
    (hrun : runPolls w polls = some (wf, hs, cs)) :
    wf.recentItems = lastN 16 (dedupKeepLast (w.recentItems ++ hs)) ∧ wf.recentItems.Nodup := by
  have h := runPolls_recent_window polls w w.recentItems wf hs cs hw hn (lastN_of_length_le hw.recentLen).symm hpolls hrun
  have e : hs.foldl touch w.recentItems = dedupKeepLast (w.recentItems ++ hs) := by
    rw [← foldl_touch_dedupKeepLast, dedupKeepLast_of_nodup hn]
  rw [e] at h
  exact ⟨h, by rw [h]; exact nodup_lastN (nodup_dedupKeepLast _)⟩

/-- non-vacuity, with eviction: 20 keys, 18 polls, poll `i` finds key `i` dirty: keys 0 and 1 have been evicted -/
example : (runPolls (setWatchData (W.init : W Nat) (List.range 20))
      ((List.range 18).map fun i => ⟨List.range 20, fun _ x => if x = i then "dirty" else ""⟩)).map
    (fun r => (r.1.recentItems, r.2.1)) = some (List.range' 2 16, List.range 18) := by decide +kernel

/-- without `Stable` a path can be in `recentItems` twice: its predicate said "clean" when the recent items were asked
and "dirty" a moment later when the scan reached it (harmless: it is then asked twice per poll) -/
example : (poll { keys := [1], itemsToScan := [], recentItems := [1], perIter := 0 } [1]
    (fun c _ => if c = 0 then "" else "dirty")).map (fun o => o.w.recentItems) = some [1, 1] := by decide

/-! ## 6. the goroutine of `start` -/

/-- the loop calls `rebuild` only when a predicate of the current watch data has just fired, and passes on its answer -/
theorem loop_rebuilds_only_on_dirty {delayMs : Int} {w : W α} (hw : Inv w) {it : Iter α} (hv : ValidOrder w it.order)
    {w' : W α} {evs : List Ev} {o : Out α} (h : iteration delayMs w it = some (w', evs, o)) {d : String}
    (hd : Ev.rebuild d ∈ evs) :
    d ≠ "" ∧ w' = afterRebuild o.w it.newKeys it.rebuildSets ∧
    ∃ c p, p ∈ w.keys ∧ o.calls[c]? = some p ∧ d = it.ask c p := by
  cases hp : poll w it.order it.ask with
  | none => rw [iteration_none hp] at h; cases h
  | some o' =>
    by_cases hr : o'.ret ≠ ""
    · rw [iteration_hit hp hr] at h
      simp only [Option.some.injEq, Prod.mk.injEq] at h
      obtain ⟨rfl, rfl, rfl⟩ := h
      have hd' : d = o'.ret := by
        by_cases hdel : delayMs > 0 <;> simpa [hdel] using hd
      subst hd'
      obtain ⟨c, p, _, hpk, hc, _, hret, _⟩ := found_path_is_dirty hw hv hp hr
      exact ⟨hr, rfl, c, p, hpk, hc, hret⟩
    · have hr' : o'.ret = "" := by simpa using hr
      rw [iteration_clean hp hr'] at h
      simp only [Option.some.injEq, Prod.mk.injEq] at h
      obtain ⟨_, rfl, _⟩ := h
      simp at hd

/-- If a key `p` stays dirty and the goroutine is not stopped, it starts a rebuild after at most `bound w p` polls (≤ 39 at a
loop head, `bound_le_39_at_loop_head`): before that rebuild it has slept `100 ms · polls + --watch-delay`, no more. -/
theorem loop_detects_within_bound {delayMs : Int} {w : W α} (hw : Inv w) {p : α} (hp : p ∈ w.keys)
    (its : List (Iter α))
    (hits : ∀ it ∈ its.take (bound w p), it.stop = false ∧ it.order.Perm w.keys ∧ ∀ c, it.ask c p ≠ "")
    (hlen : bound w p ≤ its.length) {out : LoopOut α} (hrun : runLoop delayMs w its = some out) :
    ∃ i d, i < bound w p ∧ d ≠ "" ∧
      sleptBefore out.log = some (watchIntervalSleepMs * (i + 1) + delayOf delayMs, d) := by
  obtain ⟨i, d, hf, hi, hd⟩ := dirty_path_found_within_bound hw hp
    ((its.take (bound w p)).map (fun it => ⟨it.order, it.ask⟩))
    (by
      intro q hq
      obtain ⟨it, hit, rfl⟩ := List.mem_map.mp hq
      exact (hits it hit).2)
    (by rw [List.length_map, List.length_take]; omega)
  exact ⟨i, d, hi, hd, runLoop_of_firstHit delayMs its (bound w p) w i d out hf (fun it hit => (hits it hit).1) hrun⟩

/-- once the goroutine has read `shouldStop = 1` at its loop head it does nothing more: no poll, no rebuild -/
theorem loop_stops (delayMs : Int) : ∀ (pre : List (Iter α)) (w : W α) (it : Iter α) (post : List (Iter α)),
    (∀ x ∈ pre, x.stop = false) → it.stop = true →
    runLoop delayMs w (pre ++ it :: post) = (runLoop delayMs w pre).map (fun out => { out with exited := true })
  | [], w, it, post, _, hs => by simp [runLoop, hs]
  | x :: pre, w, it, post, hpre, hs => by
    have hx : x.stop = false := hpre x (by simp)
    cases hi : iteration delayMs w x with
    | none => simp [runLoop, hx, hi]
    | some r =>
      obtain ⟨w', evs, o⟩ := r
      rw [List.cons_append, runLoop_cons hx hi, runLoop_cons hx hi,
        loop_stops delayMs pre w' it post (fun y hy => hpre y (by simp [hy])) hs]
      cases runLoop delayMs w' pre <;> rfl

/-- `internalContext.rebuild` calls `setWatchData` itself and the loop calls it again with the same data: the second call
changes nothing -/
theorem setWatchData_idem (w : W α) (newKeys : List α) :
    setWatchData (setWatchData w newKeys) newKeys = setWatchData w newKeys := by
  simp [setWatchData, List.filter_filter]

theorem afterRebuild_eq (w : W α) (newKeys : List α) (b : Bool) : afterRebuild w newKeys b = setWatchData w newKeys := by
  cases b <;> simp [afterRebuild, setWatchData_idem]


/-- non-vacuity of the loop theorems: 3 keys, key 2 dirty, `--watch-delay=250`: the first iteration sleeps 100 ms, finds it,
sleeps 250 ms and rebuilds; the new data has lost key 3; the second iteration reads `shouldStop = 1` and exits -/
example : (runLoop 250 (setWatchData (W.init : W Nat) [1, 2, 3])
      [⟨false, [3, 1, 2], fun _ x => if x = 2 then "two" else "", [1, 2], true⟩,
       ⟨true, [], fun _ _ => "", [], false⟩]).map (fun out => (out.w, out.log, out.exited)) =
    some ({ keys := [1, 2], itemsToScan := [], recentItems := [2], perIter := 64 },
          [.sleep 100, .sleep 250, .rebuild "two"], true) := by decide

example : sleptBefore [.sleep 100, .sleep 100, .sleep 250, .rebuild "two"] = some (100 * (1 + 1) + delayOf 250, "two") := by
  decide

/-! ## Remark: a transient edit can be missed, by design

The outcome of a poll depends only on the predicates of `recentItems ++ toCheck`: a path that is neither a recent item nor
among the (at most `itemsPerIteration`) paths this poll takes from the end of `itemsToScan` is not looked at.  So an edit of
`p` that is undone again is missed exactly when no poll in which `p` is dirty has `p` in `recentItems ++ toCheck`; a path
that is not recent is in `toCheck` once per round, so the window between two looks at `p` is up to
2·⌈n/itemsPerIteration⌉ − 1 polls (`bound_is_attained`), i.e. up to 39 sleeps of 100 ms plus the time the polls take. -/
theorem transient_edit_window {w : W α} {order : List α} {ask ask' : Ask α} {p : α}
    (hrec : p ∉ w.recentItems) (hchk : p ∉ toCheck (refill w order)) (hsame : ∀ x, x ≠ p → ∀ c, ask' c x = ask c x) :
    poll w order ask' = poll w order ask := by
  apply pollCore_congr
  intro x hx c
  apply hsame
  rintro rfl
  rw [refill_recentItems] at hx
  rcases List.mem_append.mp hx with h | h
  · exact hrec h
  · exact hchk h

/-- 65 keys, a round of two polls.  Key 0 is looked at in the first poll of each round; it is dirty only while the second
poll of each round runs (edited after its look, restored before the next): never reported. -/
example : firstHit (setWatchData (W.init : W Nat) (List.range 65))
    ((List.range 6).map fun i => ⟨(List.range 65).reverse, fun _ x => if x = 0 ∧ i % 2 = 1 then "dirty" else ""⟩) = none := by
  decide +kernel


/-! ## the loop on top of the watch data of Props/C09Watch.lean -/

/-- the predicates `WatchData()` returns (Impl/Watch.lean: `verdict`), evaluated on the file system `fs'`, as an oracle:
the closure of `p` returns a path (here `p` itself; a directory predicate may name an entry instead) or "" -/
def askOfWD (wd : Watch.WD) (fs' : Watch.FS) : Ask String :=
  fun _ p => if Watch.verdict wd fs' p = .clean then "" else p

/-- `watch_complete` (C09Watch) says: if an edit changes an answer of the build, `Watch.dirty wd fs'` is not empty. This says:
while the file system stays as edited, the loop reports a path within `bound` polls, whatever the scan order. -/
theorem change_seen_by_watch_data_is_reported {wd : Watch.WD} {fs' : Watch.FS} {w : W String} (hw : Inv w)
    (hkeys : ∀ p, p ∈ w.keys ↔ p ∈ wd.keys) {p : String} (hp : p ∈ Watch.dirty wd fs') (hne : p ≠ "")
    (orders : List (List String)) (ho : ∀ o ∈ orders, o.Perm w.keys) (hlen : bound w p ≤ orders.length) :
    ∃ i d, firstHit w (orders.map fun o => ⟨o, askOfWD wd fs'⟩) = some (i, d) ∧ i < bound w p ∧ d ≠ "" := by
  have hp' : p ∈ wd.keys ∧ Watch.verdict wd fs' p ≠ .clean := by
    simpa [Watch.dirty, List.mem_filter] using hp
  apply dirty_path_found_within_bound hw ((hkeys p).mpr hp'.1)
  · intro q hq
    obtain ⟨o, hom, rfl⟩ := List.mem_map.mp hq
    refine ⟨ho o hom, fun c => ?_⟩
    simp [askOfWD, hp'.2, hne]
  · simpa using hlen

/-- non-vacuity: the build saw that "/x.js" was missing; now it is a file -/
example :
    let wd : Watch.WD := { keys := ["/x.js"], kind := fun _ => none,
                           item := fun _ => some { state := .missing, contents := "", modKey := none, acc := none } }
    let fs' : Watch.FS := { node := fun _ => .file "x" (some 1), kind := fun _ => ("", 2) }
    Watch.dirty wd fs' = ["/x.js"] ∧
    firstHit (setWatchData W.init ["/x.js"]) [⟨["/x.js"], askOfWD wd fs'⟩] = some (0, "/x.js") := by
  decide +kernel

end EsbuildModel.C09WatchLoop
