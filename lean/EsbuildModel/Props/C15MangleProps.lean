import EsbuildModel.Lemmas.MangleProps
/-!
C15 — renaming never changes what a name refers to: PROPERTY mangling (linker.mangleProps).

The theorems are about `run` (Impl/MangleProps.lean, tied to the real routine by the kernel `mangleprops`) and
about `printerName`, the text js_printer prints for a property symbol. Hypothesis `WF` (Spec/MangleProps.lean) is
what the parser, the bundler and pkg/api establish: one unlinked, flag-free symbol per (file, candidate name), named
like the table key; every file listed once; stable indices for all files; cache values strings or `false`.
`Occurs I n r`: property `n` occurs in a JavaScript file of the link and is represented there by symbol `r`.

Remarks (not theorems):
* SEPARATE LINKS. Without `--splitting`, several entry points are linked one after the other and every link calls
  mangleProps on its own files. When a mangle cache is given, the links share it (in entry-point order) and
  `cache_honoured` + `cacheInj_preserved` carry the consistency over; when none is given (`cache = none`) every link
  starts from nothing and one property gets different names in different output files. That is the CALLER's
  behaviour (known finding c15-mangle-props-differ-between-entry-points) and is not hidden by these theorems: they
  speak about ONE call.
* QUOTED NAMES. Without `--mangle-quoted` a quoted property (`o['a']`, `{'a': 1}`) is neither a candidate nor
  recorded in `ReservedProps`, so nothing below keeps a generated name away from it: `o['a']=1; o.foo_=2` with
  `--mangle-props=_$` becomes `o["a"]=1; o.a=2` (run on the real binary). `fresh_name_is_new` is exact about what
  IS avoided: keywords, ReservedProps, cache targets, kept names, other candidates.
-/
namespace EsbuildModel.MangleProps

/-- C15 (5) `mangle_total`: on every well-formed link mangleProps terminates without a panic; in particular the loop
that skips reserved names ends (pigeonhole over the reserved set, `nextFree_isSome`). -/
theorem mangle_total (I : Input) (wf : WF I) : ∃ o, run I = some o := by
  obtain ⟨o, _, _, _, h, _⟩ := run_facts wf
  exact ⟨o, h⟩

/-- C15 (2) `mangle_consistent`: all symbols that stand for one property name, in whatever files of the link, are
printed with one and the same name. -/
theorem mangle_consistent (I : Input) (wf : WF I) (o : Output) (h : run I = some o) {n : Name} {r₁ r₂ : Ref}
    (h₁ : Occurs I n r₁) (h₂ : Occurs I n r₂) :
    printerName o r₁ = printerName o r₂ ∧ (printerName o r₁).isSome = true := by
  obtain ⟨o', mg, news, R, h', F⟩ := run_facts wf
  have : o' = o := Option.some.inj (h'.symm.trans h)
  subst this
  rw [F.printerName_occurs h₁, F.printerName_occurs h₂]
  exact ⟨rfl, rfl⟩

/-- C15 (1) `mangle_injective`: two different property names never end up with the same name, provided the cache
the user passed in does not itself map two keys to one name (`CacheInj`; necessary: `cacheInj_needed`). -/
theorem mangle_injective (I : Input) (wf : WF I) (hc : CacheInj (cacheList I)) (o : Output) (h : run I = some o)
    {n₁ n₂ : Name} {r₁ r₂ : Ref} (h₁ : Occurs I n₁ r₁) (h₂ : Occurs I n₂ r₂) (hne : n₁ ≠ n₂) :
    printerName o r₁ ≠ printerName o r₂ := by
  obtain ⟨o', mg, news, R, h', F⟩ := run_facts wf
  have : o' = o := Option.some.inj (h'.symm.trans h)
  subst this
  rw [F.printerName_occurs h₁, F.printerName_occurs h₂]
  intro e
  exact F.finalName_ne hc (F.mem_mg_iff.mpr ⟨_, h₁⟩) (F.mem_mg_iff.mpr ⟨_, h₂⟩) hne (Option.some.inj e)

/-- C15 (1, second half) `fresh_name_is_new`: a property that is not in the cache gets a name that is not a JS
keyword, not a reserved (non-mangled) property of any file, not the target of any cache entry, not a name kept by
a `false` entry, and not the new name of any other property of the link — whatever the cache contains. -/
theorem fresh_name_is_new (I : Input) (wf : WF I) (o : Output) (h : run I = some o) {n : Name} {r : Ref}
    (h₁ : Occurs I n r) (hun : lookupC I.cache n = none) :
    ∃ x, printerName o r = some x ∧ x ∉ keywords ∧ (∀ f ∈ activeFiles I, x ∉ f.reserved) ∧
      (∀ p ∈ cacheList I, target p ≠ x) ∧
      ∀ n' r', Occurs I n' r' → n' ≠ n → printerName o r' ≠ some x := by
  obtain ⟨o', mg, news, R, h', F⟩ := run_facts wf
  have : o' = o := Option.some.inj (h'.symm.trans h)
  subst this
  have hn := F.mem_mg_iff.mpr ⟨_, h₁⟩
  rcases F.finalName_cases hn with ⟨v, hv, _, _⟩ | ⟨_, k, hk, he⟩
  · rw [hun] at hv; cases hv
  · have hfree := F.newsFree k (List.mem_map_of_mem (f := (·.2)) hk)
    refine ⟨nmOf I k, by rw [F.printerName_occurs h₁, he], ?_, ?_, ?_, ?_⟩
    · exact fun hx => hfree ((F.hR _).mpr (Or.inl hx))
    · intro f hf hx
      apply hfree
      refine (F.hR _).mpr (Or.inr (Or.inr ?_))
      exact List.mem_flatMap.mpr ⟨f, hf, hx⟩
    · exact fun p hp e => hfree ((F.hR _).mpr (Or.inr (Or.inl ⟨p, hp, e⟩)))
    · intro n' r' ho hne
      rw [F.printerName_occurs ho]
      intro e
      exact F.fresh_ne hk (F.mem_mg_iff.mpr ⟨_, ho⟩) hne (Option.some.inj e)

/-- C15 (3a) `cache_honoured`: a cached mapping is used verbatim — a string entry gives exactly that string, a
`false` entry leaves the property name unchanged. -/
theorem cache_honoured (I : Input) (wf : WF I) (o : Output) (h : run I = some o) {n : Name} {r : Ref}
    (h₁ : Occurs I n r) :
    (∀ s, lookupC I.cache n = some (.str s) → printerName o r = some s) ∧
    (lookupC I.cache n = some .keep → printerName o r = some n) := by
  obtain ⟨o', mg, news, R, h', F⟩ := run_facts wf
  have : o' = o := Option.some.inj (h'.symm.trans h)
  subst this
  rw [F.printerName_occurs h₁]
  constructor
  · intro s hs; simp [finalName, hs]
  · intro hs; simp [finalName, hs]

/-- C15 (3b) `cache_completed`: a nil cache stays nil; otherwise the cache after the call is the old cache followed by
exactly one new entry for every property of the link that had none (nothing dropped, nothing overwritten, no key
twice), and each new entry records the name the printer uses for that property. -/
theorem cache_completed (I : Input) (wf : WF I) (o : Output) (h : run I = some o) :
    (I.cache = none → o.cache = none) ∧
    ∀ c, I.cache = some c → ∃ added : Cache, o.cache = some (c ++ added) ∧
      ((c ++ added).map (·.1)).Nodup ∧
      (∀ k, k ∈ added.map (·.1) ↔ (∃ r, Occurs I k r) ∧ c.lookup k = none) ∧
      (∀ k v, (k, v) ∈ added → ∀ r, Occurs I k r → ∃ x, v = .str x ∧ printerName o r = some x) ∧
      (∀ k v, c.lookup k = some v → (c ++ added).lookup k = some v) := by
  obtain ⟨o', mg, news, R, h', F⟩ := run_facts wf
  have : o' = o := Option.some.inj (h'.symm.trans h)
  subst this
  constructor
  · intro hc; rw [F.cache, hc]; rfl
  · intro c hc
    have hkeys : (newEntries (nmOf I) news).map (·.1) = news.map (·.1) := by
      simp [newEntries, List.map_map, Function.comp_def]
    have hmem : ∀ k, k ∈ (newEntries (nmOf I) news).map (·.1) ↔ (∃ r, Occurs I k r) ∧ c.lookup k = none := by
      intro k
      rw [hkeys, F.newsMem k, F.mem_mg_iff, hc]
      rfl
    refine ⟨newEntries (nmOf I) news, by rw [F.cache, hc]; rfl, ?_, hmem, ?_, ?_⟩
    · rw [List.map_append, List.nodup_append]
      refine ⟨wf.cacheKeys c hc, hkeys ▸ F.newsNodup, ?_⟩
      intro a ha b hb hab
      subst hab
      exact (lookup_none_iff.mp ((hmem a).mp hb).2) ha
    · intro k v hkv r hr
      obtain ⟨p, hp, hpe⟩ := List.mem_map.mp hkv
      cases hpe
      refine ⟨nmOf I p.2, rfl, ?_⟩
      rw [F.printerName_occurs hr]
      have hun : lookupC I.cache p.1 = none := by
        have := ((hmem p.1).mp (List.mem_map_of_mem (f := (·.1)) hkv)).2
        rw [hc]; exact this
      have hl : news.lookup p.1 = some p.2 := mem_lookup_of_nodup F.newsNodup hp
      simp [finalName, hun, hl]
    · intro k v hl
      rw [List.lookup_append, hl]; rfl

/-- C15 (3c) `cacheInj_preserved`: if the cache passed in maps different keys to different names, so does the cache
handed back — so a cache that only esbuild ever wrote always satisfies the hypothesis of `mangle_injective`, also in
the next link or the next build. -/
theorem cacheInj_preserved (I : Input) (wf : WF I) (hc : CacheInj (cacheList I)) (o : Output) (h : run I = some o)
    (c' : Cache) (hc' : o.cache = some c') : CacheInj c' := by
  obtain ⟨o', mg, news, R, h', F⟩ := run_facts wf
  have : o' = o := Option.some.inj (h'.symm.trans h)
  subst this
  have hcache := F.cache
  rw [hc'] at hcache
  cases hi : I.cache with
  | none => rw [hi] at hcache; cases hcache
  | some c =>
    rw [hi] at hcache
    simp only [Option.map_some, Option.some.injEq] at hcache
    subst hcache
    have hcl : cacheList I = c := by simp [cacheList, hi]
    rw [hcl] at hc
    have hold : ∀ p ∈ c, target p ∈ R := fun p hp => (F.hR _).mpr (Or.inr (Or.inl ⟨p, hcl ▸ hp, rfl⟩))
    have hnew : ∀ q ∈ newEntries (nmOf I) news, ∃ k, (q.1, k) ∈ news ∧ target q = nmOf I k := by
      intro q hq
      obtain ⟨p, hp, rfl⟩ := List.mem_map.mp hq
      exact ⟨p.2, hp, rfl⟩
    intro p hp q hq hne
    rcases List.mem_append.mp hp with hp | hp <;> rcases List.mem_append.mp hq with hq | hq
    · exact hc p hp q hq hne
    · obtain ⟨k, hk, he⟩ := hnew q hq
      intro e
      exact F.newsFree k (List.mem_map_of_mem (f := (·.2)) hk) (he ▸ e ▸ hold p hp)
    · obtain ⟨k, hk, he⟩ := hnew p hp
      intro e
      exact F.newsFree k (List.mem_map_of_mem (f := (·.2)) hk) (he ▸ e.symm ▸ hold q hq)
    · obtain ⟨k1, hk1, he1⟩ := hnew p hp
      obtain ⟨k2, hk2, he2⟩ := hnew q hq
      rw [he1, he2]
      intro e
      have : k1 = k2 := nm_injective _ e
      subst this
      exact hne (name_eq_of_same_ref F.ks_nodup hk1 hk2)

/-- C15 (4a) `less_strict_total_order`: `StableSymbolCountArray.Less` is a strict total order on the sort keys
(count, stable source index, inner index): irreflexive, transitive, and any two entries with different keys are
ordered — so `sort.Sort`, although not stable, has exactly one possible result when the keys are distinct. -/
theorem less_strict_total_order :
    (∀ a : SC, less a a = false) ∧
    (∀ a b c : SC, less a b = true → less b c = true → less a c = true) ∧
    (∀ a b : SC, (a.count, a.stable, a.ref.inner) ≠ (b.count, b.stable, b.ref.inner) →
      less a b = true ∨ less b a = true) := by
  refine ⟨less_irrefl, fun a b c => less_trans, fun a b h => less_total ?_⟩
  simp only [ne_eq, Prod.mk.injEq, not_and] at h
  by_cases h1 : a.count = b.count
  · by_cases h2 : a.stable = b.stable
    · exact Or.inr (Or.inr (h h1 h2))
    · exact Or.inr (Or.inl h2)
  · exact Or.inl h1

/-- C15 (4b) `mangle_deterministic_partial`: the result does not depend on the order in which Go traverses its maps.
Two links that differ only in the iteration order of each file's MangledProps / ReservedProps tables and of the
mangle cache (same files in the same order, same symbols, same injective stable indices) produce the same table
`mangledProps` (as a list, hence the same assignment order), caches with the same entries, and the same printed name
for every occurrence of every property.

-- OPEN (FALSE of the code as worded in the work package): "the assignment is a function of the multiset of
-- (name, total count) and the cache, independent of file order". Ties on the count are NOT broken by name but by
-- the stable index of the first reachable file that mentions the property and then by the parser's symbol index
-- (`less`), so two links with the same multiset can differ: `tie_broken_by_file_order` below, and on the real
-- binary: a.js `export let x = o.foo_`, b.js `export let y = o.bar_`; `import './a'; import './b'` gives
-- foo_→a, bar_→b, `import './b'; import './a'` gives bar_→a, foo_→b. This is no nondeterminism (the file order is
-- itself a deterministic function of the input), only a weaker statement than the one asked for. -/
theorem mangle_deterministic_partial (I J : Input) (wf : WF I) (hinj : StableInj I) (e : MapOrderEquiv I J)
    (o o' : Output) (h : run I = some o) (h' : run J = some o') :
    o.mangled = o'.mangled ∧ o.cache.isSome = o'.cache.isSome ∧ (∀ k, lookupC o.cache k = lookupC o'.cache k) ∧
    ∀ n r, Occurs I n r → printerName o r = printerName o' r := by
  obtain ⟨h1, h2, h3⟩ := run_congr wf hinj e h h'
  refine ⟨h1, h2, h3, ?_⟩
  intro n r hocc
  have wfJ := wf.transfer e
  obtain ⟨o1, mg, news, R, hr, F⟩ := run_facts wf
  obtain ⟨o2, mg', news', R', hr', F'⟩ := run_facts wfJ
  have e1 : o1 = o := Option.some.inj (hr.symm.trans h)
  have e2 : o2 = o' := Option.some.inj (hr'.symm.trans h')
  subst e1; subst e2
  have hE := entries_congr e.files wf.keysNodup n
  have hoccJ : Occurs J n r := occurs_transfer e hocc
  obtain ⟨root, hl, hp⟩ := F.printerName_table hocc
  obtain ⟨root', hl', hp'⟩ := F'.printerName_table hoccJ
  rw [hE.1, hl'] at hl
  cases hl
  rw [hp, hp', h1]

/-- C15 (4c) `mangle_file_order_independent_partial`: the part of the statement marked OPEN above that is true. When no
two properties of the link have the same merged use count (`NoTies`: nothing is left to the tie-break), the order of
the files and the stable indices do not matter either: two links with the same files in any order give every
occurrence of every property the same name and return the same cache. (Use counts are added modulo 2^32 and the
character histograms modulo 2^32, both commutative, so the merged counts and the alphabet do not depend on the
order; `tie_broken_by_file_order` shows that `NoTies` cannot be dropped.) -/
theorem mangle_file_order_independent_partial (I J : Input) (wfI : WF I) (wfJ : WF J) (e : FileOrderEquiv I J)
    (nt : NoTies I) (o o' : Output) (h : run I = some o) (h' : run J = some o') :
    o.cache = o'.cache ∧ ∀ n r, Occurs I n r → printerName o r = printerName o' r :=
  run_congr_files wfI wfJ e nt h h'

-- ---------------------------------------------------------------- non-vacuity

def foo : Name := ['f', 'o', 'o', '_']
def bar : Name := ['b', 'a', 'r', '_']
def baz : Name := ['b', 'a', 'z', '_']

/-- Two JavaScript files and the runtime. `foo_` occurs in both files (total count 2, the same as `bar_`: a tie),
`a` is a property that is not mangled, the cache pins `baz_` to `b`. -/
def exI : Input :=
  { reachable := [⟨1, true, [['a']], [(foo, ⟨1, 0⟩), (bar, ⟨1, 1⟩)], none⟩,
                  ⟨2, true, [], [(foo, ⟨2, 0⟩), (baz, ⟨2, 1⟩)], none⟩,
                  ⟨0, true, [], [(bar, ⟨0, 0⟩)], none⟩],
    syms := [[⟨bar, none, 9, false⟩], [⟨foo, none, 1, false⟩, ⟨bar, none, 2, false⟩],
             [⟨foo, none, 1, false⟩, ⟨baz, none, 5, false⟩]],
    stable := [2, 0, 1],
    cache := some [(baz, .str ['b'])] }

example : WF exI := WF_of_wfB (by decide)
example : CacheInj (cacheList exI) := by
  intro p hp q hq hne
  simp only [cacheList, exI, List.mem_singleton] at hp hq
  subst hp; subst hq
  exact absurd rfl hne
example : Occurs exI foo ⟨1, 0⟩ ∧ Occurs exI foo ⟨2, 0⟩ ∧ Occurs exI bar ⟨1, 1⟩ ∧ lookupC exI.cache foo = none :=
  ⟨occurs_iff.mpr (by decide), occurs_iff.mpr (by decide), occurs_iff.mpr (by decide), by decide⟩
/-- what the model computes on it: `baz_` keeps its cached `b`; `foo_` (tie with `bar_`, earlier symbol) skips the
reserved `a` and the cache target `b` and gets `c` in both files; `bar_` gets `d`; the cache is completed; the
runtime's table is ignored. -/
example : (run exI).map (·.mangled) = some [(⟨2, 1⟩, ['b']), (⟨1, 0⟩, ['c']), (⟨1, 1⟩, ['d'])] := by decide +kernel
example : (run exI).map (·.cache) = some (some [(baz, .str ['b']), (foo, .str ['c']), (bar, .str ['d'])]) := by
  decide +kernel
example : (run exI).map (fun o => (printerName o ⟨1, 0⟩, printerName o ⟨2, 0⟩, printerName o ⟨0, 0⟩)) =
    some (some ['c'], some ['c'], some bar) := by decide +kernel

/-- `mangle_injective` needs `CacheInj`: a cache that sends two properties to one name is obeyed verbatim. -/
def exBad : Input := { exI with cache := some [(foo, .str ['x']), (bar, .str ['x'])] }
theorem cacheInj_needed : WF exBad ∧ ¬ CacheInj (cacheList exBad) ∧
    (run exBad).map (fun o => (printerName o ⟨1, 0⟩, printerName o ⟨1, 1⟩)) = some (some ['x'], some ['x']) := by
  refine ⟨WF_of_wfB (by decide), ?_, by decide +kernel⟩
  intro h
  exact h (foo, .str ['x']) (by decide) (bar, .str ['x']) (by decide) (by decide) rfl

/-- the hypotheses of `mangle_deterministic_partial`: the same link with every map traversed in another order -/
def exJ : Input :=
  { exI with reachable := [⟨1, true, [['a']], [(bar, ⟨1, 1⟩), (foo, ⟨1, 0⟩)], none⟩,
                           ⟨2, true, [], [(baz, ⟨2, 1⟩), (foo, ⟨2, 0⟩)], none⟩,
                           ⟨0, true, [], [(bar, ⟨0, 0⟩)], none⟩] }
example : MapOrderEquiv exI exJ :=
  ⟨.cons ⟨rfl, rfl, .refl _, .swap _ _ _, rfl⟩ (.cons ⟨rfl, rfl, .refl _, .swap _ _ _, rfl⟩
    (.cons ⟨rfl, rfl, .refl _, .refl _, rfl⟩ .nil)), rfl, rfl, List.Perm.refl _⟩
example : StableInj exI := by
  intro s t v hs ht
  rcases s with _ | _ | _ | s <;> rcases t with _ | _ | _ | t <;>
    first | rfl | (simp [exI] at hs ht <;> omega)
example : (run exJ).map (·.mangled) = (run exI).map (·.mangled) := by decide +kernel

/-- The assignment is NOT a function of the multiset of (name, total count) alone: two links with one use of
`foo_` in file 1 and one use of `bar_` in file 2, the files reachable in either order (stable index = position).
The first file's property gets `a`. (Same on the real binary, see `mangle_deterministic_partial`.) -/
def exAB : Input :=
  { reachable := [⟨1, true, [], [(foo, ⟨1, 0⟩)], none⟩, ⟨2, true, [], [(bar, ⟨2, 0⟩)], none⟩],
    syms := [[], [⟨foo, none, 1, false⟩], [⟨bar, none, 1, false⟩]], stable := [2, 0, 1], cache := none }
def exBA : Input :=
  { exAB with reachable := [⟨2, true, [], [(bar, ⟨2, 0⟩)], none⟩, ⟨1, true, [], [(foo, ⟨1, 0⟩)], none⟩],
              stable := [2, 1, 0] }
theorem tie_broken_by_file_order : WF exAB ∧ WF exBA ∧
    (run exAB).map (fun o => (printerName o ⟨1, 0⟩, printerName o ⟨2, 0⟩)) = some (some ['a'], some ['b']) ∧
    (run exBA).map (fun o => (printerName o ⟨1, 0⟩, printerName o ⟨2, 0⟩)) = some (some ['b'], some ['a']) :=
  ⟨WF_of_wfB (by decide), WF_of_wfB (by decide), by decide +kernel, by decide +kernel⟩

/-- the hypotheses of `mangle_file_order_independent_partial`: `exI` without the tie (`bar_` used three times), and
the same files in the opposite order with other stable indices -/
def exN : Input :=
  { exI with syms := [[⟨bar, none, 9, false⟩], [⟨foo, none, 1, false⟩, ⟨bar, none, 3, false⟩],
                      [⟨foo, none, 1, false⟩, ⟨baz, none, 5, false⟩]] }
def exN' : Input := { exN with reachable := exN.reachable.reverse, stable := [0, 2, 1] }
example : WF exN ∧ WF exN' := ⟨WF_of_wfB (by decide), WF_of_wfB (by decide)⟩
example : FileOrderEquiv exN exN' := ⟨(List.reverse_perm _).symm, rfl, rfl⟩
example : NoTies exN := by
  intro n₁ r₁ n₂ r₂ h₁ h₂ hne
  have h₁' := occurs_iff.mp h₁
  have h₂' := occurs_iff.mp h₂
  have e : entriesOf exN.reachable = [(foo, ⟨1, 0⟩), (bar, ⟨1, 1⟩), (foo, ⟨2, 0⟩), (baz, ⟨2, 1⟩)] := by decide
  rw [e] at h₁' h₂'
  simp only [List.mem_cons, Prod.mk.injEq, List.not_mem_nil, or_false] at h₁' h₂'
  have t1 : totalOf exN foo = 2 := by decide
  have t2 : totalOf exN bar = 3 := by decide
  have t3 : totalOf exN baz = 5 := by decide
  rcases h₁' with ⟨rfl, _⟩ | ⟨rfl, _⟩ | ⟨rfl, _⟩ | ⟨rfl, _⟩ <;> rcases h₂' with ⟨rfl, _⟩ | ⟨rfl, _⟩ | ⟨rfl, _⟩ | ⟨rfl, _⟩ <;>
    first | exact absurd rfl hne | (rw [t1, t2]; decide) | (rw [t2, t1]; decide) | (rw [t1, t3]; decide) |
      (rw [t3, t1]; decide) | (rw [t2, t3]; decide) | (rw [t3, t2]; decide)
example : (run exN).map (fun o => (o.cache, printerName o ⟨2, 0⟩)) =
    (run exN').map (fun o => (o.cache, printerName o ⟨2, 0⟩)) := by decide +kernel

end EsbuildModel.MangleProps
