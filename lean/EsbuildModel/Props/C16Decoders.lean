import EsbuildModel.Lemmas.SmParseTop
import EsbuildModel.Lemmas.SmFind
/-!
# C16 — decoders of untrusted input: input source maps (property theorems only)

Model: `Impl/SmParse.lean` (`js_parser.ParseSourceMap` from the point where the JSON has been taken apart: the
`mappings` loop over UTF-16 units with `sourcemap.DecodeVLQUTF16`, all range checks, `needSort`, the aggregated
`sources`/`sourcesContent`/`names` lengths over any number of sections, `sort.Stable(mappings)`;
`sourcemap.SourceMap.Find`) and `Impl/GoSort.lean` (Go's `sort.Stable`, which esbuild calls with a reflexive `Less`).
All statements are for mapping strings, section lists and arrays of ANY length.
-/
namespace EsbuildModel.C16Decoders
open SmParse

/-- **`ParseSourceMap` is total and safe.** For EVERY list of sections — any UTF-16 string as `mappings` (junk,
truncated or overlong VLQs, values that overflow int32, deltas that drive coordinates below zero, indices beyond
`sources`/`names`), any array lengths whose totals fit int32 — the model of `ParseSourceMap`
* never indexes `mappingsRaw` out of range, never slices beyond its end, never asks `make` for a negative length
  (`≠ panic`), and its loops end (`≠ hang`);
* and when it returns a source map, `len(sourcesContent) ≤ len(sources)` and EVERY accepted mapping has
  `0 ≤ SourceIndex < len(sources)`, non-negative generated column, original line and original column, and a name index
  `< len(names)` whenever `OriginalName` is valid — so `sm.Sources[m.SourceIndex]`, `sm.Names[m.OriginalName.GetIndex()]`
  and `QuotedContents[i]` in the linker cannot go out of range. This also holds after the conditional `sort.Stable`. -/
theorem parseMappings_total_and_safe (xs : List SectionIn)
    (hs : totalSources xs < 2147483648) (hn : totalNames xs < 2147483648) :
    parse xs ≠ .panic ∧ parse xs ≠ .hang ∧
    ∀ s c n ms, parse xs = .map s c n ms →
      c ≤ s ∧ ∀ m ∈ ms, 0 ≤ m.srcIdx ∧ m.srcIdx < s ∧ 0 ≤ m.genCol ∧ 0 ≤ m.origLine ∧ 0 ≤ m.origCol ∧
        ∀ k, m.name = some k → k < n := by
  have h := parse_safe xs hs hn
  refine ⟨?_, ?_, ?_⟩
  · intro hp; rw [hp] at h; exact h
  · intro hp; rw [hp] at h; exact h
  · intro s c n ms hp; rw [hp] at h; exact h

/-- **The accepted list is sorted by generated position** (`mappingArray.Less` holds from every mapping to every later
one), whether `needSort` was raised (then by `sort.Stable`, see `goStable_sorts_any_total_preorder`) or not (then by
the loop's own order) — provided `generatedLine++` cannot overflow int32: every section's line offset plus the length
of its `mappings` stays below 2^31. Without that hypothesis the statement is FALSE of the code, see the `example`
below and the report. -/
theorem parseMappings_sorted (xs : List SectionIn) (hx : ∀ x ∈ xs, LinesFit x) :
    ∀ s c n ms, parse xs = .map s c n ms → ms.Pairwise (fun a b => less a b = true) :=
  parse_sorted xs hx

/-- **Go's `sort.Stable` sorts for every total preorder `Less`** — reflexive relations such as esbuild's
`<=` on generated positions included, which are outside the documented contract of `sort.Interface`: no index leaves
the array, every loop ends, the result is a permutation of the input and `Less` holds from every element to every later
one. (Only stability is lost: equal keys may change places.) -/
theorem goStable_sorts_any_total_preorder {α : Type} [Inhabited α] (lt : α → α → Bool) (hlt : GoSort.TotalPreorder lt)
    (d : Array α) :
    ∃ d', GoSort.stable lt d = some d' ∧ d'.toList.Perm d.toList ∧ d'.toList.Pairwise (fun a b => lt a b = true) := by
  obtain ⟨d', h1, h2⟩ := GoSort.stable_sorted lt hlt d
  obtain ⟨d'', h3, h4⟩ := GoSort.stable_ok lt d
  rw [h1] at h3
  cases h3
  exact ⟨d', h1, Array.perm_iff_toList_perm.mp h4, h2⟩

/-- … and for ANY `Less` whatsoever (inconsistent answers included) it neither panics nor hangs and returns a
permutation. -/
theorem goStable_total_for_any_less {α : Type} (lt : α → α → Bool) (d : Array α) :
    ∃ d', GoSort.stable lt d = some d' ∧ d'.toList.Perm d.toList := by
  obtain ⟨d', h1, h2⟩ := GoSort.stable_ok lt d
  exact ⟨d', h1, Array.perm_iff_toList_perm.mp h2⟩

/-- **`SourceMap.Find` is safe on every mapping list** (sorted or not, empty or not) and every position: the binary
search never indexes out of range and ends; a returned pointer is `&Mappings[k]` with `k` in range and
`Mappings[k].GeneratedLine == line`. -/
theorem find_total_and_safe (ms : Array Mapping) (line col : Int) :
    ∃ r, find ms line col = some r ∧ ∀ k, r = some k → ∃ h : k < ms.size, ms[k].genLine = line :=
  find_safe ms line col

/-! ### non-vacuity -/

def units (s : String) : List Nat := s.toList.map Char.toNat

/-- a two-section index map: `AAAA,EAAC;IAEEA` (a name) then a section whose second segment goes left (`DAAA`): the
sort runs (and, `Less` being `<=`, exchanges the two mappings at line 1 column 4); three sources, one name -/
def exampleSections : List SectionIn :=
  [⟨0, 0, true, units "AAAA,EAAC;IAEEA", 2, 1, 1⟩, ⟨1, 2, true, units "EACA,DAAA", 1, 0, 0⟩]

example : parse exampleSections =
    .map 3 1 1 [⟨0, 0, 0, 0, 0, none⟩, ⟨0, 2, 0, 0, 1, none⟩, ⟨1, 3, 2, 1, 0, none⟩, ⟨1, 4, 2, 1, 0, none⟩,
      ⟨1, 4, 0, 2, 3, some 0⟩] := by decide +kernel

example : totalSources exampleSections < 2147483648 ∧ totalNames exampleSections < 2147483648 ∧
    ∀ x ∈ exampleSections, LinesFit x := by
  refine ⟨by decide, by decide, ?_⟩
  intro x hx
  simp only [exampleSections, List.mem_cons, List.mem_nil_iff, or_false] at hx
  rcases hx with rfl | rfl <;> (unfold LinesFit InI32; decide)

/-- rejected inputs: a source index beyond `sources`, and a column driven below zero -/
example : parse [⟨0, 0, true, units "AEAA", 2, 0, 0⟩] = .err 1 (.invalidSrc 2) 1 := by decide
example : parse [⟨0, 0, true, units "CAAA,FAAA", 1, 0, 0⟩] = .err 5 (.invalidGenCol (-1)) 1 := by decide

/-- `parseMappings_sorted` needs `LinesFit`: with `"offset": {"line": 2147483647}` one `;` wraps `generatedLine` to
-2147483648, `needSort` stays false and the result is NOT sorted (the real `ParseSourceMap` returns the same list, see
the report). -/
example : parse [⟨2147483647, 0, true, units "AAAA;AAAA", 1, 0, 0⟩] =
    .map 1 0 0 [⟨2147483647, 0, 0, 0, 0, none⟩, ⟨-2147483648, 0, 0, 0, 0, none⟩] := by decide +kernel

example : find #[⟨0, 0, 0, 0, 0, none⟩, ⟨0, 5, 0, 0, 0, none⟩, ⟨2, 1, 0, 0, 0, none⟩] 0 7 = some (some 1) := by decide

end EsbuildModel.C16Decoders
