import EsbuildModel.Lemmas.CssLexTotal
/-!
# C16 — the CSS tokenizer is total and tiles its input (property theorems; lemmas live in `Lemmas/CssLex*.lean`)

`Tokenize` is modelled without fuel: every loop of `Impl/CssLex.lean` / `Impl/CssLexTok.lean` is a structural or
well-founded recursion on the remaining input that Lean accepted with its termination proof (`consumeEscape_length`,
`commentLoop_length`, `next_progress`, …), so `tokenize` is a total function and "terminates on every input" is part
of its definition being accepted.  What it computes is described by `Cover`.
-/
namespace EsbuildModel.C16CssLex
open EsbuildModel.CssLex

/-- length of the byte order mark that `Tokenize` skips -/
def bomLen (input : List Nat) : Nat := if [0xEF, 0xBB, 0xBF] <+: input then 3 else 0

theorem startState_raw (input : List Nat) : rawOf (startState input) = input.drop (bomLen input) := by
  unfold startState bomLen
  cases input with
  | nil => rfl
  | cons a t =>
    rw [decodeAll_cons]
    simp only [skipBOM]
    split
    · next hb =>
      simp only [beq_iff_eq] at hb
      obtain ⟨rfl, r, rfl⟩ := (goDecodeRune_bom a t).1 hb
      rw [goDecodeRune_bom_width, rawOf_decodeAll]
      simp
    · next hb =>
      have : ¬ [0xEF, 0xBB, 0xBF] <+: a :: t := by
        intro hp
        apply hb
        obtain ⟨r, hr⟩ := hp
        simp only [List.cons_append, List.nil_append, List.cons.injEq] at hr
        obtain ⟨rfl, rfl⟩ := hr
        simp [goDecodeRune_bom_width]
      simp only [this, if_false, List.drop_zero]
      rw [← decodeAll_cons, rawOf_decodeAll]

theorem startState_wf (input : List Nat) : WfS (startState input) := by
  unfold startState
  have := wfS_decodeAll input
  cases h : decodeAll input with
  | nil => exact WfS.nil
  | cons c t =>
    rw [h] at this
    simp only [skipBOM]; split
    · exact this.tail
    · exact this

/-- **lexer_total.**  For EVERY byte string, `Tokenize` returns (there is no fuel: see the header), and the input
after the optional byte order mark is exactly `gap₀ tok₀ gap₁ tok₁ … gapₙ`: every token is not empty and lies at
its recorded range, consecutive ranges are adjacent except for complete comments between them (`Gap`), and only
the last gap may end in an unterminated comment.  No byte is lost and none is read twice. -/
theorem lexer_total (recordAllComments : Bool) (input : List Nat) :
    Cover (bomLen input) (tokenize recordAllComments input).tokens (input.drop (bomLen input)) := by
  have hraw := startState_raw input
  have hw := startState_wf input
  have hlen : rawLen (startState input) = input.length - bomLen input := by
    unfold rawLen; rw [hraw]; simp
  have hb : bomLen input ≤ input.length := by
    unfold bomLen; split
    · next h => obtain ⟨r, hr⟩ := h; rw [← hr]; simp
    · omega
  have := lexAll_cover input.length input.length (startState input) hw (by omega)
  rw [hraw, hlen] at this
  have e : input.length - (input.length - bomLen input) = bomLen input := by omega
  rw [e] at this
  exact this

/-- every range lies inside the text that `Cover` describes -/
theorem cover_ranges {pos : Nat} {toks : List Tok} {text : List Nat} (h : Cover pos toks text) :
    ∀ t ∈ toks, pos ≤ t.start ∧ 0 < t.len ∧ t.start + t.len ≤ pos + text.length := by
  induction h with
  | done => intro t ht; simp at ht
  | tok pos g body rest t ts hg hb hs hl _ ih =>
    intro x hx
    have hbl : 0 < body.length := List.length_pos_iff.mpr hb
    simp only [List.mem_cons] at hx
    rcases hx with rfl | hx
    · simp only [List.length_append]; omega
    · have := ih x hx
      simp only [List.length_append]; omega

/-- consecutive ranges do not overlap and are in source order -/
theorem cover_ordered {pos : Nat} {toks : List Tok} {text : List Nat} (h : Cover pos toks text) :
    toks.Pairwise (fun a b => a.start + a.len ≤ b.start) := by
  induction h with
  | done => exact List.Pairwise.nil
  | tok pos g body rest t ts hg hb hs hl hc ih =>
    refine List.Pairwise.cons ?_ ih
    intro b hb'
    exact (cover_ranges hc b hb').1

/-- corollary: every token range is non-empty and inside the input -/
theorem token_ranges_inside (recordAllComments : Bool) (input : List Nat) :
    ∀ t ∈ (tokenize recordAllComments input).tokens, 0 < t.len ∧ t.start + t.len ≤ input.length := by
  intro t ht
  have := cover_ranges (lexer_total recordAllComments input) t ht
  have hb : bomLen input ≤ input.length := by
    unfold bomLen; split
    · next h => obtain ⟨r, hr⟩ := h; rw [← hr]; simp
    · omega
  simp only [List.length_drop] at this
  omega

/-- corollary: token ranges are disjoint and in source order -/
theorem token_ranges_ordered (recordAllComments : Bool) (input : List Nat) :
    (tokenize recordAllComments input).tokens.Pairwise (fun a b => a.start + a.len ≤ b.start) :=
  cover_ordered (lexer_total recordAllComments input)

/-- instance: `a/*x*/ b` is `tok gap tok tok` -/
example : (tokenize false [97, 47, 42, 120, 42, 47, 32, 98]).tokens.map (fun t => (t.kind, t.start, t.len))
    = [(.TIdent, 0, 1), (.TWhitespace, 6, 1), (.TIdent, 7, 1)] := by decide +kernel

end EsbuildModel.C16CssLex
