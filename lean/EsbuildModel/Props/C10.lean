import EsbuildModel.Lemmas.Split
/-!
C10 — code splitting shares modules correctly across chunks: theorems about the chunk-assignment model
(Impl/Split.lean), which the correspondence kernel `split` compares with the real linker (through the
metafile of real `--splitting` builds) on random module graphs.

All theorems hold for every graph `g` that passes the decidable well-formedness check `wf` (every edge end
and every user entry point is a file index) — the only graphs the bundler can build: no bound on the number
of files, edges or entry points.
-/
namespace EsbuildModel.Split

/-- one or more static cross-chunk imports in a row -/
inductive Path (g : G) : List Bool → List Bool → Prop
  | one {a b : List Bool} : (a, b) ∈ chunkEdges g → Path g a b
  | cons {a b c : List Bool} : (a, b) ∈ chunkEdges g → Path g b c → Path g a c

/-- The executable reachability of the model is graph reachability over static imports. -/
theorem reach_is_reachability (g : G) (h : wf g = true) (e : Nat) (he : e < g.n) (f : Nat) :
    reach g e f = true ↔ Reach (static g) e f := reach_iff h he f

theorem mem_chunkEdges {g : G} {a b : List Bool} (hab : (a, b) ∈ chunkEdges g) :
    (∃ e ∈ g.named, live g e.1 = true ∧ bits g e.1 ≠ bits g e.2 ∧ a = bits g e.1 ∧ b = bits g e.2) ∨
    (∃ i, i < (entries g).length ∧ b ∈ chunkKeys g ∧ b.getD i false = true ∧ b ≠ single g i ∧ a = single g i) := by
  simp only [chunkEdges] at hab
  rw [List.mem_eraseDups] at hab
  rcases List.mem_append.mp hab with h1 | h2
  · left
    obtain ⟨e, he, heq⟩ := List.mem_map.mp h1
    have hf := List.mem_filter.mp he
    simp only [Bool.and_eq_true, bne_iff_ne, ne_eq] at hf
    refine ⟨e, hf.1, hf.2.1, hf.2.2, ?_, ?_⟩
    · exact (congrArg Prod.fst heq).symm
    · exact (congrArg Prod.snd heq).symm
  · right
    obtain ⟨i, hi, hmem⟩ := List.mem_flatMap.mp h2
    obtain ⟨k, hk, heq⟩ := List.mem_map.mp hmem
    have hf := List.mem_filter.mp hk
    simp only [Bool.and_eq_true, bne_iff_ne, ne_eq] at hf
    have hb : b = k := (congrArg Prod.snd heq).symm
    have ha : a = single g i := (congrArg Prod.fst heq).symm
    subst hb
    exact ⟨i, List.mem_range.mp hi, hf.1, hf.2.1, hf.2.2, ha⟩

/-- Every static cross-chunk import goes to a chunk shared by strictly more entry points. -/
theorem chunk_edge_strict (g : G) (h : wf g = true) {a b : List Bool} (hab : (a, b) ∈ chunkEdges g) :
    pop a < pop b := by
  rcases mem_chunkEdges hab with ⟨e, he, _, hne, rfl, rfl⟩ | ⟨i, _, hk, hi, hne, rfl⟩
  · have : (e.1, e.2) ∈ static g := by simp only [static]; exact List.mem_append_left _ he
    exact pop_bits_lt h this hne
  · exact pop_single_lt i (length_chunkKey hk) hi hne

theorem path_strict (g : G) (h : wf g = true) {a b : List Bool} (p : Path g a b) : pop a < pop b := by
  induction p with
  | one hab => exact chunk_edge_strict g h hab
  | cons hab _ ih => exact Nat.lt_trans (chunk_edge_strict g h hab) ih

/-- C10: emitted chunks never form a static import cycle. -/
theorem no_static_cycle (g : G) (h : wf g = true) (k : List Bool) : ¬ Path g k k := by
  intro p
  exact Nat.lt_irrefl _ (path_strict g h p)

theorem named_lt {g : G} (h : wf g = true) {e : Nat × Nat} (he : e ∈ g.named) : e.1 < g.n ∧ e.2 < g.n :=
  wf_static h e (by simp only [static]; exact List.mem_append_left _ he)

/-- C10: static cross-chunk imports reference only chunks that exist. -/
theorem edges_between_existing_chunks (g : G) (h : wf g = true) {a b : List Bool}
    (hab : (a, b) ∈ chunkEdges g) : a ∈ chunkKeys g ∧ b ∈ chunkKeys g := by
  rcases mem_chunkEdges hab with ⟨e, he, hl, _, rfl, rfl⟩ | ⟨i, hi, hk, _, _, rfl⟩
  · have hst : (e.1, e.2) ∈ static g := by simp only [static]; exact List.mem_append_left _ he
    have hlt := named_lt h he
    exact ⟨bits_mem_chunkKeys hlt.1 hl, bits_mem_chunkKeys hlt.2 (live_mono h hst hl)⟩
  · exact ⟨single_mem_chunkKeys hi, hk⟩

/-- C10: every module body is emitted exactly once: a live file belongs to one and only one chunk. -/
theorem live_file_in_exactly_one_chunk (g : G) (f : Nat) (hf : f < g.n) (hl : live g f = true) :
    bits g f ∈ chunkKeys g ∧ f ∈ members g (bits g f) ∧ ∀ k, f ∈ members g k → k = bits g f := by
  refine ⟨bits_mem_chunkKeys hf hl, ?_, ?_⟩
  · simp only [members]
    exact List.mem_filter.mpr ⟨mem_files hf hl, by simp⟩
  · intro k hk
    simp only [members] at hk
    have := (List.mem_filter.mp hk).2
    have h2 : bits g f = k := by simpa using this
    exact h2.symm

/-- and a file no entry point reaches is in no chunk at all -/
theorem dead_file_in_no_chunk (g : G) (f : Nat) (hl : live g f = false) (k : List Bool) : f ∉ members g k := by
  intro hk
  simp only [members, files] at hk
  have := (List.mem_filter.mp (List.mem_filter.mp hk).1).2
  rw [hl] at this; exact absurd this (by simp)

/-- C10: every imported binding is initialised before the importing code reads it, at chunk level: when a
live file uses a binding of another file, either both are in the same chunk or the importer's chunk imports
the declaring chunk statically (so the ES module loader evaluates it first). -/
theorem named_import_covered (g : G) (e : Nat × Nat) (he : e ∈ g.named) (hl : live g e.1 = true) :
    bits g e.1 = bits g e.2 ∨ (bits g e.1, bits g e.2) ∈ chunkEdges g := by
  by_cases heq : bits g e.1 = bits g e.2
  · exact Or.inl heq
  · right
    simp only [chunkEdges]
    rw [List.mem_eraseDups]
    apply List.mem_append_left
    refine List.mem_map.mpr ⟨e, List.mem_filter.mpr ⟨he, ?_⟩, rfl⟩
    simp [hl, heq]

/-- C10: loading an entry point loads every module the entry point reaches: the module is in the entry
point's own chunk or in a chunk the entry chunk imports statically. -/
theorem entry_chunk_loads_reachable (g : G) (h : wf g = true) (i : Nat) (hi : i < (entries g).length)
    (f : Nat) (hr : reach g ((entries g)[i]) f = true) :
    bits g f = single g i ∨ (single g i, bits g f) ∈ chunkEdges g := by
  have hei : (entries g)[i]? = some ((entries g)[i]) := List.getElem?_eq_getElem hi
  have hbit : (bits g f).getD i false = true := by rw [bits_getD, hei]; exact hr
  have hlive : live g f = true := (live_iff g f).mpr ⟨i, hbit⟩
  have helt : (entries g)[i] < g.n := wf_entries h _ (List.getElem_mem hi)
  have hf : f < g.n := reach_lt (wf_static h) helt ((reach_iff h helt f).mp hr)
  by_cases heq : bits g f = single g i
  · exact Or.inl heq
  · right
    simp only [chunkEdges]
    rw [List.mem_eraseDups]
    apply List.mem_append_right
    refine List.mem_flatMap.mpr ⟨i, List.mem_range.mpr hi, ?_⟩
    refine List.mem_map.mpr ⟨bits g f, List.mem_filter.mpr ⟨bits_mem_chunkKeys hf hlive, ?_⟩, rfl⟩
    rw [List.getD_eq_getElem?_getD] at hbit
    simp [hbit, heq]

/-- all entry points observe the same module instance: the chunk of a file does not depend on which entry
point is loaded (it is a function of the file alone), and a file reached by two entry points is in a chunk
that both entry chunks load -/
theorem shared_file_single_instance (g : G) (h : wf g = true) (i j : Nat) (hi : i < (entries g).length)
    (hj : j < (entries g).length) (f : Nat) (hri : reach g ((entries g)[i]) f = true)
    (hrj : reach g ((entries g)[j]) f = true) :
    (bits g f = single g i ∨ (single g i, bits g f) ∈ chunkEdges g) ∧
    (bits g f = single g j ∨ (single g j, bits g f) ∈ chunkEdges g) :=
  ⟨entry_chunk_loads_reachable g h i hi f hri, entry_chunk_loads_reachable g h j hj f hrj⟩

-- ---------------------------------------------------------------- non-vacuity

/-- a diamond with two entry points: 0→2, 1→2, 2→3 (named) -/
def exG : G := { n := 4, named := [(0, 2), (1, 2), (2, 3)], bare := [], dyn := [], user := [0, 1] }
example : wf exG = true := by decide
example : chunkKeys exG = [[true, false], [false, true], [true, true]] := by decide
example : (chunkEdges exG).length = 2 := by decide
example : members exG [true, true] = [2, 3] := by decide

end EsbuildModel.Split
