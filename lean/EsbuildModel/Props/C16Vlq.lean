import EsbuildModel.Props.C07
import EsbuildModel.Props.C07Join
/-!
# C16 — the unchecked byte decoder `sourcemap.DecodeVLQ` (property theorems only)

`DecodeVLQ(encoded, start)` indexes `encoded[start]`, `encoded[start+1]`, … without a length test (model:
`Vlq.decodeBytes`, `Impl/VlqBytes.lean`; `none` = index-out-of-range panic).  Its only callers are
`AppendSourceMapChunk` and `SourceMapPieces.Finalize` (models in `Impl/SmJoin.lean`), whose inputs are written by
esbuild's own encoder.
-/
namespace EsbuildModel.C16Vlq
open Vlq SmJoin

/-- a byte that `DecodeVLQ` consumes and after which it goes on: a base64 digit with the continuation bit -/
def IsContinuation (alpha : List Nat) (b : Nat) : Prop := 32 ≤ toDigit alpha b ∧ toDigit alpha b < 64

theorem scan_none_iff (l : List Nat) : ∀ (shift vlq : Nat), scan shift vlq l = none ↔ ∀ d ∈ l, 32 ≤ d ∧ d < 64 := by
  induction l with
  | nil => intro shift vlq; simp [scan]
  | cons d ds ih =>
    intro shift vlq
    unfold scan
    by_cases h64 : d ≥ 64
    · simp only [h64, if_true]
      constructor
      · intro h; cases h
      · intro h; have := h d (by simp); omega
    · simp only [h64, if_false]
      have hd : d < 64 := by omega
      rw [and32 d hd]
      by_cases h32 : d < 32
      · simp only [h32, if_true]
        constructor
        · intro h; cases h
        · intro h; have := h d (by simp); omega
      · simp only [h32, if_false]
        have : ¬ (32 = 0) := by decide
        simp only [this, if_false, ih, List.mem_cons, forall_eq_or_imp]
        constructor
        · intro h; exact ⟨by omega, h⟩
        · intro h; exact h.2

/-- **Exactly when `DecodeVLQ` panics:** iff every byte from `start` to the end of the slice is a continuation digit
(in particular whenever `start ≥ len(encoded)`). A byte outside the alphabet, or a digit without the continuation bit,
anywhere from `start` on, makes the call safe. -/
theorem decodeVLQ_panics_iff (alpha encoded : List Nat) (start : Nat) :
    decodeBytes alpha encoded start = none ↔ ∀ b ∈ encoded.drop start, IsContinuation alpha b := by
  unfold decodeBytes
  by_cases hgt : start > encoded.length
  · simp only [hgt, if_true, true_iff]
    intro b hb
    rw [List.drop_eq_nil_of_le (by omega)] at hb
    cases hb
  · simp only [hgt, if_false]
    unfold decode
    have := scan_none_iff ((encoded.drop start).map (toDigit alpha)) 0 0
    cases hs : scan 0 0 ((encoded.drop start).map (toDigit alpha)) with
    | none =>
      simp only [true_iff]
      have h := this.mp hs
      intro b hb
      exact h _ (List.mem_map_of_mem hb)
    | some r =>
      simp only [false_iff, reduceCtorEq]
      intro h
      have : scan 0 0 ((encoded.drop start).map (toDigit alpha)) = none := by
        rw [this]
        intro d hd
        obtain ⟨b, hb, rfl⟩ := List.mem_map.mp hd
        exact h b hb
      rw [hs] at this
      cases this

/-- **Every call site passes data on which it does not panic.**
1. On what `encodeVLQ` wrote, at the position where it wrote it, `DecodeVLQ` returns the value and the end of the
   encoding — whatever precedes and follows (any integer, any surrounding bytes).
2. `AppendSourceMapChunk` on the buffer of ANY `ChunkBuilder` (any events, any previous end state, any start state with
   a non-negative line offset and no name of its own) — its up to five `DecodeVLQ` calls included — does not panic.
3. The linker's loop over ANY list of well-formed pieces (chunks and null entries) does not panic, and
   `SourceMapPieces.Finalize` on the bytes it produced, with ANY list of shifts that stay on their line, does not
   panic either (its `DecodeVLQ` calls run on sequential-encoder output). -/
theorem decodeVLQ_safe_on_encoder_output :
    (∀ (v : Int) (pre rest : List Nat),
      decodeBytes Gen.base64 (pre ++ encodeBytes Gen.base64 v ++ rest) pre.length
        = some (v, pre.length + (encodeBytes Gen.base64 v).length)) ∧
    (∀ (j : Joiner) (prevEnd start : State) (cover : Bool) (bevs : List BEv), 0 ≤ start.genLine → start.hasName = false →
      (buildChunk cover bevs).shouldIgnore = false →
      appendSourceMapChunk j prevEnd start (buildChunk cover bevs).buffer ≠ none) ∧
    (∀ (ps : List Piece) (shifts : List SMShift), (∀ p ∈ ps, p.ok) → (∀ sh ∈ shifts, sh.before.lines = sh.after.lines) →
      ∃ m out, linkJoin (ps.map Piece.toLinkIn) = some m ∧ finalize m shifts = some out) := by
  refine ⟨C07.vlq_roundtrip_bytes, ?_, ?_⟩
  · intro j prevEnd start cover bevs hl hn hok
    rw [C07Join.append_is_sequential_encoding j prevEnd start hl hn cover bevs hok]
    simp
  · intro ps shifts hok hsh
    exact ⟨_, _, C07Join.join_is_sequential_encoding ps hok,
      C07Join.finalize_is_sequential_encoding (joinedEvs {} 0 ps) shifts hsh⟩

/-! ### non-vacuity -/

/-- "gg" (two continuation digits) at offset 0 panics; "ggA" does not; an offset at the end panics -/
example : decodeBytes Gen.base64 [103, 103] 0 = none := by decide
example : decodeBytes Gen.base64 [103, 103, 65] 0 = some (0, 3) := by decide
example : decodeBytes Gen.base64 [65] 1 = none := by decide
example : ∀ b ∈ ([103, 103] : List Nat).drop 0, IsContinuation Gen.base64 b := by
  intro b hb
  simp only [List.drop_zero, List.mem_cons, List.mem_nil_iff, or_false, or_self] at hb
  subst hb
  unfold IsContinuation; decide

end EsbuildModel.C16Vlq
