import EsbuildModel.Impl.PrivLower
import EsbuildModel.Lemmas.PrivLower
/-!
C05 — syntax lowering preserves behaviour: private class members (`#x`) lowered to WeakMap / WeakSet helpers.

Source semantics: Spec/JsPrivate.lean (ECMA-262 PrivateFieldAdd / PrivateMethodOrAccessorAdd / PrivateGet /
PrivateSet / `#x in o`, the evaluation order of the assignment, update and call forms, InitializeInstanceElements,
ClassDefinitionEvaluation).  Emitted code and run-time helpers: Impl/PrivLower.lean.  The structure of the model's
lowering is compared with the real parser by the kernel `privlower` (which also compares the helper text), the two
evaluators with Node 20 (native private names against esbuild's output) by the kernel `privlowersem`.

What is proved here, for ALL states that satisfy `Inv` (what the specification guarantees about
[[PrivateElements]]) and ALL worlds: every lowered private-name OPERATION, once its operands are values, has the
outcome (value / TypeError, calls of getters and setters, state) the specification gives the source operation
(`private_get_same_outcome`, `private_in_same_outcome`, `private_set_same_outcome`, `private_add_same_outcome`), the
position of the brand check relative to the evaluation of the operands in the emitted code (`brand_check_order_*`),
and that a WeakMap / WeakSet operation touches only its own class and name (`weakmap_isolation_*`).

-- OPEN  `lowered_private_same_outcome` in full: for every expression e of Spec/JsPrivate.lean, every program, fuel
--   and Inv-state s: if the guarded run `runS … true` does not stop at a hazard then
--   `runT … (absT P s) = mapSt (absT P) (runS … s)` (same value, same exception, same event trace, same variables).
--   Missing: the induction over expressions (threading the temporaries of `capture`), preservation of `Inv` by
--   PrivateSet / PrivateFieldAdd / PrivateMethodOrAccessorAdd, and the induction over `fuel` for calls.  The
--   operation-level theorems below are the cases of that induction that talk about private names.
-- OPEN  `init_order` as a theorem (constructT ~ constructS): needs the same induction for the initializers.  The
--   ORDER itself (all private methods, then the fields in source order, then the constructor body; statics: static
--   methods, then static fields in source order) is what `lowerClass` emits and is compared with esbuild by the
--   kernel `privlower`; its behaviour is compared with Node by `privlowersem`.
-- OPEN  `guard_transparent`: a guarded run that does not stop at a hazard is the unguarded run.
-/
namespace EsbuildModel.PrivLower
open EsbuildModel.JsPrivate

/-- the call oracles of the two sides agree on the current state -/
def OrcAgree (P : Prog) (orcS : Orc SSt) (orcT : Orc TSt) (s : SSt) : Prop :=
  ∀ f tv av, orcT (.call f tv av) (absT P s) = mapSt (absT P) (orcS (.call f tv av) s)

/-- `o.#n` → `__privateGet(o, _n)` / `__privateGet(o, _C_instances, n_get)` / `__privateMethod(o, _C_instances, n_fn)`:
for every kind of member, every object and non-object, every state: the value, the TypeError (missing brand, no
getter) and the getter call of PrivateGet -/
theorem private_get_same_outcome (P : Prog) (s : SSt) (hI : Inv P s) (orcS : Orc SSt) (orcT : Orc TSt)
    (horc : OrcAgree P orcS orcT s) (k : Nat × Nat) (st : Bool) (kind : PKind)
    (hd : P.decl k.1 k.2 = some (st, kind)) (ov : Val) :
    getT orcT ov k st kind (absT P s) = mapSt (absT P) (privateGet orcS k ov s) := by
  obtain ⟨c, n⟩ := k
  simp only at hd
  cases ov with
  | obj o =>
    cases kind with
    | field v0 =>
      have hh := has_field P s hI c n o st v0 hd
      simp only [getT, hPrivateGet, hAccessCheck, memOf, privateGet, pfind]
      cases h : s.priv o c n with
      | none => simp [h] at hh; simp [hh, bindR, mapSt]
      | some kk =>
        obtain ⟨v, rfl⟩ := elem_of_field P s hI c n o st v0 kk hd h
        simp [h] at hh
        have hw : (absT P s).wm c n o = some v := by simp [absT, h]
        simp only [hh, if_true, bindR, memGet, mapSt, hw]
        rfl
    | method f =>
      have hh := has_method P s hI c n o st (.method f) hd rfl
      simp only [getT, hPrivateMethod, hAccessCheck, privateGet, pfind]
      cases h : s.priv o c n with
      | none => simp [h] at hh; simp [hh, bindR, mapSt]
      | some kk =>
        have := elem_of_method P s hI c n o st (.method f) kk hd rfl h
        subst this
        simp [h] at hh
        simp [hh, bindR, mapSt]
    | accessor g sx =>
      have hh := has_method P s hI c n o st (.accessor g sx) hd rfl
      cases g with
      | some gf =>
        simp only [getT, hPrivateGet, hAccessCheck, privateGet, pfind]
        cases h : s.priv o c n with
        | none => simp [h] at hh; simp [hh, bindR, mapSt]
        | some kk =>
          have := elem_of_method P s hI c n o st (.accessor (some gf) sx) kk hd rfl h
          subst this
          simp [h] at hh
          simp only [hh, bindR, if_true]
          exact horc gf (.obj o) .undef
      | none =>
        simp only [getT, hPrivateGet, hAccessCheck, memOf, privateGet, pfind]
        cases h : s.priv o c n with
        | none => simp [h] at hh; simp [hh, bindR, mapSt]
        | some kk =>
          have := elem_of_method P s hI c n o st (.accessor none sx) kk hd rfl h
          subst this
          simp [h] at hh
          simp [hh, bindR, mapSt, memGet]
  | undef => cases kind with
    | accessor g sx => cases g <;> simp [getT, hPrivateGet, hPrivateMethod, hAccessCheck, memHas, privateGet, bindR, mapSt]
    | _ => simp [getT, hPrivateGet, hPrivateMethod, hAccessCheck, memHas, privateGet, bindR, mapSt]
  | null => cases kind with
    | accessor g sx => cases g <;> simp [getT, hPrivateGet, hPrivateMethod, hAccessCheck, memHas, privateGet, bindR, mapSt]
    | _ => simp [getT, hPrivateGet, hPrivateMethod, hAccessCheck, memHas, privateGet, bindR, mapSt]
  | bool b => cases kind with
    | accessor g sx => cases g <;> simp [getT, hPrivateGet, hPrivateMethod, hAccessCheck, memHas, privateGet, bindR, mapSt]
    | _ => simp [getT, hPrivateGet, hPrivateMethod, hAccessCheck, memHas, privateGet, bindR, mapSt]
  | num x => cases kind with
    | accessor g sx => cases g <;> simp [getT, hPrivateGet, hPrivateMethod, hAccessCheck, memHas, privateGet, bindR, mapSt]
    | _ => simp [getT, hPrivateGet, hPrivateMethod, hAccessCheck, memHas, privateGet, bindR, mapSt]
  | nan => cases kind with
    | accessor g sx => cases g <;> simp [getT, hPrivateGet, hPrivateMethod, hAccessCheck, memHas, privateGet, bindR, mapSt]
    | _ => simp [getT, hPrivateGet, hPrivateMethod, hAccessCheck, memHas, privateGet, bindR, mapSt]
  | str x => cases kind with
    | accessor g sx => cases g <;> simp [getT, hPrivateGet, hPrivateMethod, hAccessCheck, memHas, privateGet, bindR, mapSt]
    | _ => simp [getT, hPrivateGet, hPrivateMethod, hAccessCheck, memHas, privateGet, bindR, mapSt]

/-- `#n in o` → `__privateIn(_n, o)` / `__privateIn(_C_instances, o)`: true / false for objects, TypeError otherwise -/
theorem private_in_same_outcome (P : Prog) (s : SSt) (hI : Inv P s) (k : Nat × Nat) (st : Bool) (kind : PKind)
    (hd : P.decl k.1 k.2 = some (st, kind)) (ov : Val) :
    hPrivateIn (memOf k st kind) ov (absT P s) = mapSt (absT P) (privateIn k ov s) := by
  obtain ⟨c, n⟩ := k
  simp only at hd
  cases ov with
  | obj o =>
    cases kind with
    | field v0 => simp [hPrivateIn, memOf, privateIn, pfind, mapSt, has_field P s hI c n o st v0 hd]
    | method f => simp [hPrivateIn, memOf, privateIn, pfind, mapSt, has_method P s hI c n o st (.method f) hd rfl]
    | accessor g sx => simp [hPrivateIn, memOf, privateIn, pfind, mapSt, has_method P s hI c n o st (.accessor g sx) hd rfl]
  | _ => simp [hPrivateIn, privateIn, mapSt]

/-- `o.#n = v` → `__privateSet(o, _n, v)` / `__privateSet(o, _C_instances, v, n_set)`: for every kind of member: the
stored value, the setter call, the TypeError for a missing brand, a method, a getter without setter; the value of
the expression is `v` -/
theorem private_set_same_outcome (P : Prog) (s : SSt) (hI : Inv P s) (orcS : Orc SSt) (orcT : Orc TSt)
    (horc : OrcAgree P orcS orcT s) (k : Nat × Nat) (st : Bool) (kind : PKind)
    (hd : P.decl k.1 k.2 = some (st, kind)) (ov v : Val) :
    setT orcT ov k st kind v (absT P s)
      = mapSt (absT P) (bindR (privateSet orcS k ov v s) fun _ s1 => (.val v, s1)) := by
  obtain ⟨c, n⟩ := k
  simp only at hd
  cases ov with
  | obj o =>
    cases kind with
    | field v0 =>
      have hh := has_field P s hI c n o st v0 hd
      simp only [setT, hPrivateSet, hAccessCheck, memOf, privateSet, pfind]
      cases h : s.priv o c n with
      | none => simp [h] at hh; simp [hh, bindR, mapSt]
      | some kk =>
        obtain ⟨v1, rfl⟩ := elem_of_field P s hI c n o st v0 kk hd h
        simp [h] at hh
        have hu := absT_setField P s o c n v (by intro k hk; rw [h] at hk; cases hk; rfl)
        simp only [hh, if_true, bindR, memSet, mapSt, hu]
    | method f =>
      have hh := has_method P s hI c n o st (.method f) hd rfl
      simp only [setT, hPrivateSet, hAccessCheck, memOf, privateSet, pfind]
      cases h : s.priv o c n with
      | none => simp [h] at hh; simp [hh, bindR, mapSt]
      | some kk =>
        have := elem_of_method P s hI c n o st (.method f) kk hd rfl h
        subst this
        simp [h] at hh
        simp [hh, bindR, mapSt, memSet]
    | accessor g sx =>
      have hh := has_method P s hI c n o st (.accessor g sx) hd rfl
      cases sx with
      | some sf =>
        simp only [setT, hPrivateSet, hAccessCheck, privateSet, pfind]
        cases h : s.priv o c n with
        | none => simp [h] at hh; simp [hh, bindR, mapSt]
        | some kk =>
          have := elem_of_method P s hI c n o st (.accessor g (some sf)) kk hd rfl h
          subst this
          simp [h] at hh
          simp only [hh, if_true, bindR]
          rw [horc sf (.obj o) v]
          cases hr : orcS (.call sf (.obj o) v) s with
          | mk r s1 => cases r <;> simp [mapSt, bindR]
      | none =>
        simp only [setT, hPrivateSet, hAccessCheck, memOf, privateSet, pfind]
        cases h : s.priv o c n with
        | none => simp [h] at hh; simp [hh, bindR, mapSt]
        | some kk =>
          have := elem_of_method P s hI c n o st (.accessor g none) kk hd rfl h
          subst this
          simp [h] at hh
          simp [hh, bindR, mapSt, memSet]
  | undef => cases kind with
    | accessor g sx => cases sx <;> simp [setT, hPrivateSet, hAccessCheck, memHas, privateSet, bindR, mapSt]
    | _ => simp [setT, hPrivateSet, hAccessCheck, memHas, privateSet, bindR, mapSt]
  | null => cases kind with
    | accessor g sx => cases sx <;> simp [setT, hPrivateSet, hAccessCheck, memHas, privateSet, bindR, mapSt]
    | _ => simp [setT, hPrivateSet, hAccessCheck, memHas, privateSet, bindR, mapSt]
  | bool b => cases kind with
    | accessor g sx => cases sx <;> simp [setT, hPrivateSet, hAccessCheck, memHas, privateSet, bindR, mapSt]
    | _ => simp [setT, hPrivateSet, hAccessCheck, memHas, privateSet, bindR, mapSt]
  | num x => cases kind with
    | accessor g sx => cases sx <;> simp [setT, hPrivateSet, hAccessCheck, memHas, privateSet, bindR, mapSt]
    | _ => simp [setT, hPrivateSet, hAccessCheck, memHas, privateSet, bindR, mapSt]
  | nan => cases kind with
    | accessor g sx => cases sx <;> simp [setT, hPrivateSet, hAccessCheck, memHas, privateSet, bindR, mapSt]
    | _ => simp [setT, hPrivateSet, hAccessCheck, memHas, privateSet, bindR, mapSt]
  | str x => cases kind with
    | accessor g sx => cases sx <;> simp [setT, hPrivateSet, hAccessCheck, memHas, privateSet, bindR, mapSt]
    | _ => simp [setT, hPrivateSet, hAccessCheck, memHas, privateSet, bindR, mapSt]

/-- a private field initializer `#n = v` → `__privateAdd(this, _n, v)`: PrivateFieldAdd, including the TypeError when
the object already has the field (an object initialized twice through a base class that returns it) -/
theorem private_add_same_outcome (P : Prog) (s : SSt) (hI : Inv P s) (c n o : Nat) (st : Bool) (v0 v : Val)
    (hd : P.decl c n = some (st, .field v0)) :
    hPrivateAdd (.obj o) (.wm c n) v (absT P s) = mapSt (absT P) (privateFieldAdd o (c, n) v s) := by
  have hh := has_field P s hI c n o st v0 hd
  simp only [hPrivateAdd, privateFieldAdd, pfind]
  cases h : s.priv o c n with
  | some kk => simp [h] at hh; simp [hh, mapSt]
  | none =>
    simp [h] at hh
    have hu := absT_setField P s o c n v (by intro k hk; rw [h] at hk; cases hk)
    simp [hh, memSet, mapSt, hu]

-- ---------------------------------------------------------------- brand_check_order

theorem getT_no_brand (orc : Orc TSt) (ov : Val) (k : Nat × Nat) (st : Bool) (kind : PKind) (t : TSt)
    (h : memHas t (memOf k st kind) ov = false) : getT orc ov k st kind t = (.err .typeError, t) := by
  cases kind with
  | field v => simp [getT, hPrivateGet, hAccessCheck, h, bindR]
  | method f => simp [memOf] at h; simp [getT, hPrivateMethod, hAccessCheck, h, bindR]
  | accessor g s => cases g <;> (simp [memOf] at h; simp [getT, hPrivateGet, hAccessCheck, memOf, h, bindR])

theorem setT_no_brand (orc : Orc TSt) (ov v : Val) (k : Nat × Nat) (st : Bool) (kind : PKind) (t : TSt)
    (h : memHas t (memOf k st kind) ov = false) : setT orc ov k st kind v t = (.err .typeError, t) := by
  cases kind with
  | field x => simp [setT, hPrivateSet, hAccessCheck, h, bindR]
  | method f => simp [setT, hPrivateSet, hAccessCheck, h, bindR]
  | accessor g s => cases s <;> (simp [memOf] at h; simp [setT, hPrivateSet, hAccessCheck, memOf, h, bindR])

/-- `o.#n = v` lowered: the object, THEN the right-hand side, THEN the brand check (13.15.2: PutValue comes last):
when the object lacks the member the TypeError is raised in the state after `v` has been evaluated -/
theorem brand_check_order_assign (P : Prog) (w : World) (orc : Orc TSt) (fr : TFrame) (o v : T) (k : Nat × Nat)
    (st : Bool) (kind : PKind) (l l1 l2 : TLoc) (ov vv : Val)
    (h1 : evalT P w orc fr o l = (.val ov, l1)) (h2 : evalT P w orc fr v l1 = (.val vv, l2))
    (hno : memHas l2.st (memOf k st kind) ov = false) :
    evalT P w orc fr (lowerSet o k st kind v) l = (.err .typeError, l2) := by
  rw [evalT_lowerSet, h1]
  simp only [bindR, h2, liftS, setT_no_brand orc ov vv k st kind l2.st hno]

/-- `o.#n op= v` lowered (`a`, `b`: the first and the second use of the captured object): the brand check of the
READ comes before the right-hand side (13.15.2: GetValue(lref) precedes the evaluation of the right operand): when
the object lacks the member, `v` is not evaluated at all -/
theorem brand_check_order_compound (P : Prog) (w : World) (orc : Orc TSt) (fr : TFrame) (a b v : T) (op : BinOp)
    (k : Nat × Nat) (st : Bool) (kind : PKind) (l l1 : TLoc) (ov : Val)
    (h1 : evalT P w orc fr a l = (.val ov, l1)) (h2 : evalT P w orc fr b l1 = (.val ov, l1))
    (hno : memHas l1.st (memOf k st kind) ov = false) :
    evalT P w orc fr (lowerSet a k st kind (.binop op (lowerGet b k st kind) v)) l = (.err .typeError, l1) := by
  rw [evalT_lowerSet, h1]
  simp only [bindR, evalT]
  rw [evalT_lowerGet, h2]
  simp only [bindR, liftS, getT_no_brand orc ov k st kind l1.st hno]

/-- the same for `o.#n ||= v`, `&&=`, `??=` -/
theorem brand_check_order_logical (P : Prog) (w : World) (orc : Orc TSt) (fr : TFrame) (a b v : T) (op : LogOp)
    (k : Nat × Nat) (st : Bool) (kind : PKind) (l l1 : TLoc) (ov : Val)
    (h1 : evalT P w orc fr a l = (.val ov, l1))
    (hno : memHas l1.st (memOf k st kind) ov = false) :
    evalT P w orc fr (.logic op (lowerGet a k st kind) (lowerSet b k st kind v)) l = (.err .typeError, l1) := by
  simp only [evalT]
  rw [evalT_lowerGet, h1]
  simp only [bindR, liftS, getT_no_brand orc ov k st kind l1.st hno]

/-- `o.#n(arg)` lowered: the brand check comes before the argument (13.3.6: GetValue(ref) precedes
ArgumentListEvaluation) -/
theorem brand_check_order_call (P : Prog) (w : World) (orc : Orc TSt) (fr : TFrame) (a b arg : T)
    (k : Nat × Nat) (st : Bool) (kind : PKind) (l l1 : TLoc) (ov : Val)
    (h1 : evalT P w orc fr a l = (.val ov, l1))
    (hno : memHas l1.st (memOf k st kind) ov = false) :
    evalT P w orc fr (.callCall (lowerGet a k st kind) b arg) l = (.err .typeError, l1) := by
  simp only [evalT]
  rw [evalT_lowerGet, h1]
  simp only [bindR, liftS, getT_no_brand orc ov k st kind l1.st hno]

/-- the specification, for comparison: `o.#n = v` evaluates `v` before PrivateSet fails … -/
theorem spec_brand_check_order_assign (P : Prog) (w : World) (g : Bool) (orc : Orc SSt) (fr : Frame) (o v : Expr)
    (n : Nat) (k : Nat × Nat) (s s1 s2 : SSt) (id : Nat) (vv : Val) (hr : P.resolve fr.scope n = some k)
    (h1 : evalE P w g orc fr o s = (.val (.obj id), s1)) (h2 : evalE P w g orc fr v s1 = (.val vv, s2))
    (hno : pfind s2 id k = none) :
    evalE P w g orc fr (.pset o n v) s = (.err .typeError, s2) := by
  simp [evalE, hr, h1, h2, bindR, privateSet, hno]

/-- … and `o.#n op= v` fails in PrivateGet, before `v` is evaluated -/
theorem spec_brand_check_order_compound (P : Prog) (w : World) (g : Bool) (orc : Orc SSt) (fr : Frame) (o v : Expr)
    (n : Nat) (op : BinOp) (k : Nat × Nat) (s s1 : SSt) (id : Nat) (hr : P.resolve fr.scope n = some k)
    (h1 : evalE P w g orc fr o s = (.val (.obj id), s1)) (hno : pfind s1 id k = none) :
    evalE P w g orc fr (.pbin o n op v) s = (.err .typeError, s1) := by
  simp [evalE, hr, h1, bindR, privateGet, hno]

-- ---------------------------------------------------------------- weakmap_isolation

/-- writing through one generated WeakMap leaves every other WeakMap and every WeakSet as it was: two classes with
a member of the same name (different `c`) never see each other's slots -/
theorem weakmap_isolation_set (t : TSt) (c n c' n' : Nat) (o v : Val) (h : ¬ (c' = c ∧ n' = n)) :
    (memSet t (.wm c n) o v).2.wm c' n' = t.wm c' n' ∧ (memSet t (.wm c n) o v).2.ws = t.ws := by
  cases o with
  | obj id =>
    constructor
    · by_cases hc : c' = c
      · subst hc
        have hn : ¬ n' = n := fun hn => h ⟨rfl, hn⟩
        simp [memSet, upd, hn]
      · simp [memSet, upd, hc]
    · simp [memSet]
  | _ => simp [memSet]

theorem weakmap_isolation_add (t : TSt) (c c' : Nat) (st st' : Bool) (o : Val) (h : ¬ (c' = c ∧ st' = st)) :
    (memAdd t (.ws c st) o).2.ws c' st' = t.ws c' st' ∧ (memAdd t (.ws c st) o).2.wm = t.wm := by
  cases o with
  | obj id =>
    constructor
    · by_cases hc : c' = c
      · subst hc
        have hn : ¬ st' = st := fun hn => h ⟨rfl, hn⟩
        simp [memAdd, upd, hn]
      · simp [memAdd, upd, hc]
    · simp [memAdd]
  | _ => simp [memAdd]

/-- shadowing: inside a class that declares `#n` the name means that class's member, whatever the enclosing
classes declare (ResolvePrivateIdentifier), and the lowering uses that class's WeakMap / WeakSet (`LCtx.sym`) -/
theorem weakmap_isolation_shadowing (P : Prog) (c n : Nat) (d : Bool × PKind) (hd : P.decl c n = some d) (tr : Option Nat) :
    P.resolve (some c) n = some (c, n) ∧ (LCtx.mk P (some c) tr).sym n = some ((c, n), d.1, d.2) := by
  have h1 : P.resolve (some c) n = some (c, n) := by simp [Prog.resolve, resolveFrom, hd]
  exact ⟨h1, by simp [LCtx.sym, h1, hd]⟩

-- ---------------------------------------------------------------- non-vacuity

/-- a class `K0 { #n0 = 1; #n1(a) { return a } get #n2() { return 7 } }` -/
def exProg : Prog := ⟨[⟨none, false, none,
  [.privField false 0 (some (.lit (.num 1))), .method false 1 .arg, .getter false 2 (.lit (.num 7))]⟩]⟩

/-- a state in which object 400 is an instance of it -/
def exState : SSt where
  c := initPub 1
  priv := fun o c n =>
    if o = 400 ∧ c = 0 then
      match n with
      | 0 => some (.field (.num 1))
      | 1 => some (.method (0, 1))
      | 2 => some (.accessor (some (0, 2)) none)
      | _ => none
    else none

/-- the invariant holds in the state before anything has been created -/
example (P : Prog) (c : Pub) : Inv P ⟨c, fun _ _ _ => none⟩ :=
  ⟨fun _ _ _ _ h => by simp at h, fun _ _ _ _ _ h => by simp at h⟩

example : exProg.decl 0 0 = some (false, .field .undef) := by decide
example : exProg.decl 0 1 = some (false, .method (0, 1)) := by decide
example : exProg.decl 0 2 = some (false, .accessor (some (0, 2)) none) := by decide
example : pfind exState 400 (0, 0) = some (.field (.num 1)) := by decide
example : pfind exState 401 (0, 0) = none := by decide

end EsbuildModel.PrivLower
