import EsbuildModel.Lemmas.CssSpecBridge
/-!
# C16 — the CSS tokenizer against CSS Syntax Module Level 3 §3.3 + §4 (property theorems)

`Spec/CssSyntax.lean` is the specification (with four marked alternative readings, `Quirks`); `esbuildQuirks` turns
all four on.  The theorem says: for every input that satisfies the three conditions of `TameInput`, tokenizing the
preprocessed code points by the specification (in the reading `esbuildQuirks`) gives, token for token, the kinds, the
values (`Token.DecodedText`, numbers as written, units, the id flag of hash tokens) that `Tokenize` returns — up to
runs of whitespace tokens (esbuild puts the comments that follow whitespace INTO the whitespace token) and except for
the value of URL tokens (which `DecodedText` computes from fixed byte offsets, see the report).

Deviations of esbuild from the specification are therefore exactly: the four readings (`numberTrailingDot`,
`badUrlSkipsAfterEscape`, `eofStringIsBad`, `stringHexEscapeKeepsNewline`), the three excluded input shapes
(`TameInput`), the URL values, and the decoding layer (Go replaces every ill-formed BYTE by U+FFFD, the Encoding
Standard replaces maximal ill-formed subsequences).
-/
namespace EsbuildModel.C16CssSyntax
open EsbuildModel.CssLex EsbuildModel.Spec

/-- the inputs covered by the theorem -/
structure TameInput (input : List Nat) : Prop where
  /-- no U+0000 (esbuild turns an unquoted URL with NUL into a bad-url token and keeps an escaped NUL as NUL) -/
  noNul : 0 ∉ input
  /-- no hexadecimal escape that is directly followed by CR LF (esbuild lets the escape take the CR only) -/
  noHexEscapeCRLF : ∀ t, t <:+ startState input → hexEscCRLF t = false
  /-- no `-` that is directly followed by an ill-formed byte (esbuild does not let that start an identifier) -/
  noDashIllFormed : ∀ t, t <:+ startState input → dashIll t = false

theorem startState_suffix (input : List Nat) : startState input <:+ decodeAll input := by
  unfold startState
  cases h : decodeAll input with
  | nil => exact List.suffix_refl _
  | cons c t => simp only [skipBOM]; split; exact List.suffix_cons c t; exact List.suffix_refl _

theorem tame_of_input (input : List Nat) (h : TameInput input) : Tame (startState input) := by
  have hdec : IsDec (startState input) := (IsDec.ofInput input).suffix (startState_suffix input)
  refine ⟨hdec, ?_, h.noHexEscapeCRLF, h.noDashIllFormed⟩
  intro c hc h0
  apply h.noNul
  have hmem : c ∈ decodeAll input := (startState_suffix input).subset hc
  have hraw : c.raw = [0] := by
    have := (wfS_decodeAll input c hmem).raw_of_ascii (by omega)
    rw [this, h0]
  have : (0 : Nat) ∈ rawOf (decodeAll input) := by
    unfold rawOf
    simp only [List.mem_flatMap]
    exact ⟨c, hmem, by rw [hraw]; simp⟩
  rwa [rawOf_decodeAll] at this

/-- **lexer_is_css_syntax_3 (partial: see the header for what is excluded).**
For every tame input there is a token list `toks` such that the specification's tokenizer, in the reading
`esbuildQuirks`, on the preprocessed code points of the input (after the byte order mark) produces `toks`, and the
views of `toks` are, after collapsing runs of whitespace tokens, the views of the tokens `Tokenize` returns (`AllMatch`:
same kind, same unit, same id flag, and — except for URL tokens — same value). -/
theorem lexer_is_css_syntax_3_partial (input : List Nat) (h : TameInput input) :
    ∃ toks : List CssSyntax.Token,
      CssSyntax.Tokenizes esbuildQuirks (CssSyntax.preprocess (cpsOf (startState input))) toks ∧
      ∃ specViews : List View,
        collapseWs (toks.map specView) = collapseWs specViews ∧ AllMatch (implViews input) specViews := by
  have ht := tame_of_input input h
  obtain ⟨toks, htk, hviews⟩ := lexAll_sim input.length (startState input) ht _ (Rel.refl _ ht)
  exact ⟨toks, htk, _, hviews, bridge_lexAll input.length (startState input) ht⟩

-- OPEN (full statement, FALSE of the code as it is): the same with `CssSyntax.Quirks.standard`, without `TameInput`,
-- and with the values of URL tokens compared.  Each of the four readings, each of the three excluded input shapes and
-- the two URL value defects is a run of the real tokenizer that differs from the specification (see the examples
-- below and the report).

/-! ### non-vacuity and the deviations, on concrete inputs -/

/-- `p` holds of every suffix -/
def allSuffixes (p : List Ch → Bool) : List Ch → Bool
  | [] => p []
  | c :: t => p (c :: t) && allSuffixes p t

theorem allSuffixes_spec (p : List Ch → Bool) (s : List Ch) (h : allSuffixes p s = true) : ∀ t, t <:+ s → p t = true := by
  induction s with
  | nil => intro t ht; simp only [List.suffix_nil] at ht; subst ht; exact h
  | cons c s ih =>
    simp only [allSuffixes, Bool.and_eq_true] at h
    intro t ht
    rcases List.suffix_cons_iff.1 ht with rfl | ht
    · exact h.1
    · exact ih h.2 t ht

/-- the two suffix conditions of `TameInput` in a form that can be evaluated -/
theorem tameInput_of_check (input : List Nat) (h0 : 0 ∉ input)
    (h1 : allSuffixes (fun t => !hexEscCRLF t && !dashIll t) (startState input) = true) : TameInput input := by
  have := allSuffixes_spec _ _ h1
  simp only [Bool.and_eq_true, Bool.not_eq_true'] at this
  exact ⟨h0, fun t ht => (this t ht).1, fun t ht => (this t ht).2⟩

/-- a tame input that exercises CR LF, FF, escapes, a url, a string with an escaped newline, numbers and comments:
`a\41 \r\n#b{c:url( x\) ) "s\\\n" 1.5e3px/**/ \f}` -/
def sample : List Nat :=
  [97, 92, 52, 49, 32, 13, 10, 35, 98, 123, 99, 58, 117, 114, 108, 40, 32, 120, 92, 41, 32, 41, 32, 34, 115, 92, 10, 34,
   32, 49, 46, 53, 101, 51, 112, 120, 47, 42, 42, 47, 32, 12, 125]

example : TameInput sample := tameInput_of_check sample (by decide) (by decide +kernel)

example : (implViews sample).map (fun v => (v.kind, v.value, v.unit)) =
    [(.TIdent, [97, 65], []), (.TWhitespace, [], []), (.THash, [98], []), (.TOpenBrace, [], []), (.TIdent, [99], []),
     (.TColon, [], []), (.TURL, [120, 41], []), (.TWhitespace, [], []), (.TString, [115], []), (.TWhitespace, [], []),
     (.TDimension, [49, 46, 53, 101, 51], [112, 120]), (.TWhitespace, [], []), (.TCloseBrace, [], [])] := by
  decide +kernel

-- deviation `numberTrailingDot`: the specification reads `1.` as the number `1` and a `.` delimiter,
-- esbuild as one number token `1.`
example : CssSyntax.Tokenizes .standard [49, 46] [.number [49] .integer, .delim 46] ∧
    (implViews [49, 46]).map (fun v => (v.kind, v.value)) = [(.TNumber, [49, 46])] := by
  refine ⟨?_, by decide +kernel⟩
  refine CssSyntax.Tokenizes.token 49 [46] _ [46] _ rfl (by decide +kernel) ?_
  exact CssSyntax.Tokenizes.token 46 [] _ [] _ rfl (by decide +kernel) CssSyntax.Tokenizes.eof

-- deviation `eofStringIsBad`: `"a` at the end of the file is a string token in the specification, a bad-string
-- token in esbuild
example : CssSyntax.Tokenizes .standard [34, 97] [.string [97]] ∧
    (implViews [34, 97]).map (fun v => v.kind) = [.TUnterminatedString] := by
  refine ⟨?_, by decide +kernel⟩
  exact CssSyntax.Tokenizes.token 34 [97] _ [] _ rfl (by decide +kernel) CssSyntax.Tokenizes.eof

-- deviation `stringHexEscapeKeepsNewline`: `"\41` LF `"` is the string `A` in the specification; esbuild ends the
-- string at the newline as a bad-string token (and then sees a second, unterminated string)
example : CssSyntax.Tokenizes .standard [34, 92, 52, 49, 10, 34] [.string [65]] ∧
    (implViews [34, 92, 52, 49, 10, 34]).map (fun v => v.kind) = [.TUnterminatedString, .TWhitespace, .TUnterminatedString] := by
  refine ⟨?_, by decide +kernel⟩
  exact CssSyntax.Tokenizes.token 34 _ _ [] _ rfl (by decide +kernel) CssSyntax.Tokenizes.eof

-- deviation `badUrlSkipsAfterEscape`: in `url(a"\41)b)` the specification ends the bad-url token at the first `)`,
-- esbuild at the second
example : CssSyntax.Tokenizes .standard [117, 114, 108, 40, 97, 34, 92, 52, 49, 41, 98, 41] [.badUrl, .ident [98], .rparen] ∧
    (implViews [117, 114, 108, 40, 97, 34, 92, 52, 49, 41, 98, 41]).map (fun v => v.kind) = [.TBadURL] := by
  refine ⟨?_, by decide +kernel⟩
  refine CssSyntax.Tokenizes.token 117 _ _ [98, 41] _ rfl (by decide +kernel) ?_
  refine CssSyntax.Tokenizes.token 98 _ _ [41] _ rfl (by decide +kernel) ?_
  exact CssSyntax.Tokenizes.token 41 _ _ [] _ rfl (by decide +kernel) CssSyntax.Tokenizes.eof

-- excluded shape `noHexEscapeCRLF`: `\41` CR LF `b` is the identifier `Ab` in the specification (CR LF is one
-- newline, which the escape swallows); esbuild lets the escape take the CR only: `A`, whitespace, `b`
example : ¬ TameInput [92, 52, 49, 13, 10, 98] ∧
    CssSyntax.Tokenizes .standard (CssSyntax.preprocess [92, 52, 49, 13, 10, 98]) [.ident [65, 98]] ∧
    (implViews [92, 52, 49, 13, 10, 98]).map (fun v => (v.kind, v.value)) =
      [(.TIdent, [65]), (.TWhitespace, []), (.TIdent, [98])] := by
  refine ⟨fun h => ?_, ?_, by decide +kernel⟩
  · have := h.noHexEscapeCRLF _ (List.suffix_refl _)
    revert this; decide +kernel
  · exact CssSyntax.Tokenizes.token 92 _ _ [] _ rfl (by decide +kernel) CssSyntax.Tokenizes.eof

-- excluded shape `noDashIllFormed`: `-` followed by the ill-formed byte FF is an identifier `-U+FFFD` after decoding;
-- esbuild returns a `-` delimiter and the identifier `U+FFFD`
example : ¬ TameInput [45, 255] ∧
    CssSyntax.Tokenizes .standard [45, 0xFFFD] [.ident [45, 0xFFFD]] ∧
    (implViews [45, 255]).map (fun v => (v.kind, v.value)) = [(.TDelimMinus, [45]), (.TIdent, [0xFFFD])] := by
  refine ⟨fun h => ?_, ?_, by decide +kernel⟩
  · have := h.noDashIllFormed _ (List.suffix_refl _)
    revert this; decide +kernel
  · exact CssSyntax.Tokenizes.token 45 _ _ [] _ rfl (by decide +kernel) CssSyntax.Tokenizes.eof

-- excluded shape `noNul`: `url(a` NUL `)` is the url `aU+FFFD` in the specification, a bad-url token in esbuild; and
-- `\` NUL is U+FFFD in the specification, U+0000 in esbuild's `DecodedText`
example : (implViews [117, 114, 108, 40, 97, 0, 41]).map (fun v => v.kind) = [.TBadURL] ∧
    CssSyntax.Tokenizes .standard (CssSyntax.preprocess [117, 114, 108, 40, 97, 0, 41]) [.url [97, 0xFFFD]] ∧
    (implViews [92, 0]).map (fun v => (v.kind, v.value)) = [(.TIdent, [0])] ∧
    CssSyntax.Tokenizes .standard (CssSyntax.preprocess [92, 0]) [.ident [0xFFFD]] := by
  refine ⟨by decide +kernel, ?_, by decide +kernel, ?_⟩
  · exact CssSyntax.Tokenizes.token 117 _ _ [] _ rfl (by decide +kernel) CssSyntax.Tokenizes.eof
  · exact CssSyntax.Tokenizes.token 92 _ _ [] _ rfl (by decide +kernel) CssSyntax.Tokenizes.eof

-- URL values (not compared by the theorem): `\75rl(x)` is the url `x`, `DecodedText` says `l(x`;
-- `url(a\ )` is the url `a␠`, `DecodedText` says `aU+FFFD`
example : (implViews [92, 55, 53, 114, 108, 40, 120, 41]).map (fun v => (v.kind, v.value)) = [(.TURL, [108, 40, 120])] ∧
    CssSyntax.Tokenizes .standard [92, 55, 53, 114, 108, 40, 120, 41] [.url [120]] ∧
    (implViews [117, 114, 108, 40, 97, 92, 32, 41]).map (fun v => (v.kind, v.value)) = [(.TURL, [97, 0xFFFD])] ∧
    CssSyntax.Tokenizes .standard [117, 114, 108, 40, 97, 92, 32, 41] [.url [97, 32]] := by
  refine ⟨by decide +kernel, ?_, by decide +kernel, ?_⟩
  · exact CssSyntax.Tokenizes.token 92 _ _ [] _ rfl (by decide +kernel) CssSyntax.Tokenizes.eof
  · exact CssSyntax.Tokenizes.token 117 _ _ [] _ rfl (by decide +kernel) CssSyntax.Tokenizes.eof

end EsbuildModel.C16CssSyntax
