import EsbuildModel.Lemmas.TsPaths
/-! # C11 — module resolution: tsconfig.json `paths` / `baseUrl` (matchTSConfigPaths): property theorems

Model: Impl/TsPaths.lean (transcribed from resolver.go / tsconfig_json.go).  Specification: Spec/TsPaths.lean
(TypeScript handbook).  `load` is the file system (`loadAsFileOrDirectory`), `absBase` the chosen base URL. -/
namespace EsbuildModel.C11TsPaths
open EsbuildModel.NodeExports (Str)
open EsbuildModel.TsPaths
open EsbuildModel.TsPathsSpec (Selection Selects IsStar StarMatches)

/-- **(1) paths_match_is_longest_prefix.**
For every table the parser can produce (`ValidTable`: distinct keys, at most one `*` per key), every
specifier and every file system: the result of `matchTSConfigPaths` is the result the TypeScript handbook
prescribes for SOME selection it allows — the exact key if there is one, otherwise a matching pattern whose
prefix is at least as long as that of every matching pattern, with the substitutions tried in order, `*`
replaced by the matched text, `.d.ts` locations skipped, first loadable location wins; no match ⇒ `notFound`
(the caller falls through).  A pattern whose prefix and suffix would overlap inside the specifier does not
match (P3), exactly as in TypeScript.  Which of several longest-prefix patterns is taken is
`paths_choice_is_unique_best`. -/
theorem paths_match_is_longest_prefix {α} (load : Str → Option α) (absBase : Str) (t : Table)
    (hv : ValidTable t) (spec : Str) :
    ∃ sel, Selects t spec sel ∧
      matchTable load absBase t spec = ofOpt (TsPathsSpec.resolve fsJoin load absBase sel) := by
  unfold matchTable
  cases hx : findExact t spec with
  | some fbs =>
    exact ⟨.exact fbs, Selects.exact fbs (findExact_some t spec fbs hx), tryExact_eq load absBase fbs⟩
  | none =>
    have hnx := (findExact_none t spec).mp hx
    simp only
    rcases scan_inv spec t with ⟨hinit, hnone⟩ | ⟨kv, hm, hc, hf, hp, hs, hmax⟩
    · refine ⟨.nomatch, Selects.nomatch hnx ?_, ?_⟩
      · intro pre' suf' m' subs' hmem hst hma
        exact hnone _ hmem _ _ (isCand_of_spec hst hma)
      · rw [hinit]; simp [Best.init, TsPathsSpec.resolve, TsPathsSpec.locations, TsPathsSpec.firstLoadable, ofOpt]
    · obtain ⟨hk, hstar, hpre, hsuf, hfit⟩ := cand_facts hc
      have hmem : ((scan spec t).pre ++ '*' :: (scan spec t).suf, (scan spec t).fbs) ∈ t := by
        rw [← hk, hf]; exact hm
      obtain ⟨m, hsl, hsplit⟩ := slice_fit spec _ _ hpre hsuf hfit
      have hne : (scan spec t).plen ≠ -1 := by omega
      refine ⟨.pattern (scan spec t).pre (scan spec t).suf m (scan spec t).fbs, ?_, ?_⟩
      · refine Selects.pattern _ _ m _ hnx hmem ⟨rfl, hstar, ?_⟩ hsplit ?_
        · obtain ⟨i, hi, _, h2, _, _, _⟩ := hc
          rw [h2]; exact valid_star kv.1 i (hv.2 kv hm) hi
        · intro pre' suf' m' subs' hmem' hst' hma'
          have := hmax _ hmem' _ _ (isCand_of_spec hst' hma')
          simp only [Better] at this
          omega
      · simp only [hne, ne_eq, not_false_eq_true, if_true]
        exact tryPattern_eq load absBase spec _ _ m _ hsl

/-- a table as the parser produces it: {"a*": ["./x/*"], "ab*c": ["./y/*", "./z/*.d.ts"]} -/
def exTable : Table :=
  [(['a', '*'], [['.', '/', 'x', '/', '*']]),
   (['a', 'b', '*', 'c'], [['.', '/', 'y', '/', '*'], ['.', '/', 'z', '/', '*', '.', 'd', '.', 't', 's']])]

example : parsePaths [] []
    [(['a', '*'], some [some ['.', '/', 'x', '/', '*'], none, some ['*', '*']]),
     (['a', '*', '*'], some [some ['q']]),
     (['a', 'b', '*', 'c'], some [some ['.', '/', 'y', '/', '*'], some ['.', '/', 'z', '/', '*', '.', 'd', '.', 't', 's']]),
     (['n'], none)] = exTable := by decide

/-- non-vacuity of (1): the hypothesis holds for `exTable` (the specifier "abzc" is matched by both patterns) -/
example : ValidTable exTable := ⟨by unfold KeysNodup; decide, by decide⟩

/-- … and there the longer prefix "ab" wins, "z" is substituted, the `.d.ts` location is skipped -/
example : matchTable (fun p => if p = "/base/y/z".toList then some 1 else none) "/base".toList exTable ['a', 'b', 'z', 'c']
    = .found 1 := by decide

/-- **(1b) the tie-break and uniqueness of the choice.**  Whenever the scan finds a pattern, that pattern
is an entry of the table and matches the specifier (prefix and suffix fit without overlapping), and every OTHER
matching entry has a strictly shorter prefix, or the same prefix length and a strictly shorter suffix.
(TypeScript keeps the first of several longest-prefix patterns in file order instead; esbuild's rule does not
depend on the order.) -/
theorem paths_choice_is_unique_best (t : Table) (hn : KeysNodup t) (spec : Str) (h : (scan spec t).plen ≠ -1) :
    ((scan spec t).pre ++ '*' :: (scan spec t).suf, (scan spec t).fbs) ∈ t ∧ '*' ∉ (scan spec t).pre ∧
    (scan spec t).pre <+: spec ∧ (scan spec t).suf <:+ spec ∧
    (scan spec t).pre.length + (scan spec t).suf.length ≤ spec.length ∧
    ∀ pre' suf' subs', (pre' ++ '*' :: suf', subs') ∈ t → '*' ∉ pre' → pre' <+: spec → suf' <:+ spec →
      pre'.length + suf'.length ≤ spec.length →
      (pre' = (scan spec t).pre ∧ suf' = (scan spec t).suf ∧ subs' = (scan spec t).fbs) ∨
      pre'.length < (scan spec t).pre.length ∨
      (pre'.length = (scan spec t).pre.length ∧ suf'.length < (scan spec t).suf.length) := by
  rcases scan_inv spec t with ⟨hinit, _⟩ | ⟨kv, hm, hc, hf, hp, hs, hmax⟩
  · rw [hinit] at h; simp [Best.init] at h
  · obtain ⟨hk, hstar, hpre, hsuf, hfit⟩ := cand_facts hc
    have hmem : ((scan spec t).pre ++ '*' :: (scan spec t).suf, (scan spec t).fbs) ∈ t := by
      rw [← hk, hf]; exact hm
    refine ⟨hmem, hstar, hpre, hsuf, hfit, ?_⟩
    intro pre' suf' subs' hmem' hst' h1 h2 h3
    have hc' : IsCand spec (pre' ++ '*' :: suf', subs') pre' suf' := cand_of_facts hst' h1 h2 h3
    have hb := hmax _ hmem' _ _ hc'
    simp only [Better] at hb
    by_cases hl1 : pre'.length = (scan spec t).pre.length
    · by_cases hl2 : suf'.length = (scan spec t).suf.length
      · left
        obtain ⟨e1, e2, ek⟩ := cand_key_eq hc' hc hl1 hl2
        refine ⟨e1, e2, ?_⟩
        have : (kv.1, subs') ∈ t := by rw [← ek]; exact hmem'
        rw [hf]; exact mem_unique t hn kv.1 subs' kv.2 this hm
      · right; right; omega
    · right; left; omega

/-- **(1c) no match ⇒ falls through unchanged.**  If no key equals the specifier and no pattern matches it
(prefix and suffix fit WITHOUT overlapping), the answer is `notFound` for every file system and every table. -/
theorem paths_no_match_falls_through {α} (load : Str → Option α) (absBase : Str) (t : Table) (spec : Str)
    (hx : ∀ subs, (spec, subs) ∉ t)
    (hp : ∀ pre suf subs, (pre ++ '*' :: suf, subs) ∈ t → '*' ∉ pre →
      ¬ (pre <+: spec ∧ suf <:+ spec ∧ pre.length + suf.length ≤ spec.length)) :
    matchTable load absBase t spec = .notFound := by
  unfold matchTable
  rw [(findExact_none t spec).mpr hx]
  simp only
  rcases scan_inv spec t with ⟨hinit, _⟩ | ⟨kv, hm, hc, hf, _, _, _⟩
  · rw [hinit]; simp [Best.init]
  · obtain ⟨hk, hstar, hpre, hsuf, hfit⟩ := cand_facts hc
    exfalso
    refine hp _ _ kv.2 ?_ hstar ⟨hpre, hsuf, hfit⟩
    rw [← hk]; exact hm

example : matchTable (fun _ => some 1) [] exTable ['b'] = .notFound := by decide

/-- **(2) paths_total**: `matchTSConfigPaths` never slices out of range (`path[len(prefix) : len(path)-len(suffix)]`)
— for ALL tables (valid or not), specifiers, base URLs and file systems. -/
theorem paths_total {α} (load : Str → Option α) (absBase : Str) (t : Table) (spec : Str) :
    matchTable load absBase t spec ≠ .panic := matchTable_no_panic load absBase t spec

/-- The input that made esbuild panic before the fix f92402c (paths {"ab*ba": ["./lib/*"]}, import "aba":
"slice bounds out of range [2:1]"): the overlapping pattern no longer matches, the step falls through … -/
example : matchTable (fun _ => some 1) ['/', 'p']
    [(['a', 'b', '*', 'b', 'a'], [['.', '/', 'l', 'i', 'b', '/', '*']])] ['a', 'b', 'a'] = .notFound := by decide

/-- … and when another pattern matches properly, that one is taken although the overlapping one has the longer
prefix — as in TypeScript ("ab*ba" and "a*" on "aba": "a*" with matched text "ba") -/
example : matchTable (fun p => if p = "/p/x/ba".toList then some 1 else none) ['/', 'p']
    [(['a', 'b', '*', 'b', 'a'], [['.', '/', 'l', 'i', 'b', '/', '*']]), (['a', '*'], [['.', '/', 'x', '/', '*']])]
    ['a', 'b', 'a'] = .found 1 := by decide

/-- **(4) determinism**: the Go code ranges twice over the map `tsConfigJSON.Paths.Map`; the result does not
depend on the iteration order.  For every two orders of the same entries (keys pairwise distinct, as in a Go
map), every specifier and every file system. -/
theorem paths_order_independent {α} (load : Str → Option α) (absBase : Str) (t1 t2 : Table)
    (hp : t1.Perm t2) (hn : KeysNodup t1) (spec : Str) :
    matchTable load absBase t1 spec = matchTable load absBase t2 spec := by
  unfold matchTable
  rw [findExact_perm hp hn spec, scan_perm hp hn spec]

example : KeysNodup exTable ∧ exTable.Perm exTable.reverse := ⟨by unfold KeysNodup; decide, (List.reverse_perm _).symm⟩

/-- the third map range (the no-baseUrl filter at the end of parseTSConfigFromSource) treats every entry on its
own: it commutes with every reordering of the map -/
theorem finish_order_independent (t1 t2 : Table) (hp : t1.Perm t2) (f : Str → Bool) :
    (t1.map fun kv => (kv.1, kv.2.filter f)).Perm (t2.map fun kv => (kv.1, kv.2.filter f)) := hp.map _

/-- **precedence inside loadNodeModules** (tsconfig `paths`, then `baseUrl`, then node_modules …):
a `paths` hit is the answer whatever `baseUrl` and the rest would find; -/
theorem paths_hit_wins {α} (load : Str → Option α) (c : Config) (t : Table) (imp : Str) (r : α)
    (rest : Unit → Outcome α) (hc : c.paths = some t) (h : matchTable load c.absBaseURL t imp = .found r) :
    tsconfigStage load (some c) imp rest = .found r := by
  simp [tsconfigStage, hc, h]

/-- when `paths` finds nothing, `baseUrl`/specifier is the answer if it can be loaded, whatever the rest would find; -/
theorem baseUrl_before_rest {α} (load : Str → Option α) (c : Config) (imp b : Str) (r : α)
    (rest : Unit → Outcome α) (hb : c.baseUrl = some b) (hl : load (fsJoin b imp) = some r)
    (h : ∀ t, c.paths = some t → matchTable load c.absBaseURL t imp = .notFound) :
    tsconfigStage load (some c) imp rest = .found r := by
  cases hc : c.paths with
  | none => simp [tsconfigStage, hc, hb, hl]
  | some t => simp [tsconfigStage, hc, h t hc, hb, hl]

/-- and only when both find nothing (or there is no tsconfig for the directory, e.g. inside node_modules) the
rest of the algorithm runs. -/
theorem rest_only_after_tsconfig {α} (load : Str → Option α) (c : Config) (imp : Str) (rest : Unit → Outcome α)
    (h : ∀ t, c.paths = some t → matchTable load c.absBaseURL t imp = .notFound)
    (hb : ∀ b, c.baseUrl = some b → load (fsJoin b imp) = none) :
    tsconfigStage load (some c) imp rest = rest () ∧ tsconfigStage load none imp rest = rest () := by
  refine ⟨?_, rfl⟩
  cases hc : c.paths with
  | none =>
    cases hbu : c.baseUrl with
    | none => simp [tsconfigStage, hc, hbu]
    | some b => simp [tsconfigStage, hc, hbu, hb b hbu]
  | some t =>
    cases hbu : c.baseUrl with
    | none => simp [tsconfigStage, hc, h t hc, hbu]
    | some b => simp [tsconfigStage, hc, h t hc, hbu, hb b hbu]

/-- base URL: an explicit `baseUrl` (possibly inherited) wins over the directory of the file that defines `paths` -/
theorem explicit_baseUrl_wins (c : Config) : c.absBaseURL = (c.baseUrl.getD c.baseUrlForPaths) := by
  cases h : c.baseUrl <;> simp [Config.absBaseURL, h]

end EsbuildModel.C11TsPaths
