import EsbuildModel.Lemmas.CommentIndentLines
import EsbuildModel.Lemmas.CommentIndentColumn
import EsbuildModel.Lemmas.CommentIndentSquash
/-!
C16 (no panic, termination on every input) and C13 (valid output) for `(*Source).CommentTextWithoutIndent`
(`internal/logger/logger.go`): property theorems only.  Model: `Impl/CommentIndent.lean`; specification
(bytes only): `Spec/CommentIndent.lean`.
-/
namespace EsbuildModel.C16CommentIndent
open EsbuildModel.CommentIndent
open EsbuildModel.Spec.CommentIndent

/-- the range `[s, s+n)` lies inside the contents and below 2^31 (where `int32` arithmetic is exact) -/
def InRange (c : List Nat) (s n : Int) : Prop := 0 ≤ s ∧ 0 ≤ n ∧ s + n ≤ c.length ∧ s + n < 2147483648

theorem inRange_wrap {c : List Nat} {s n : Int} (h : InRange c s n) : wrap32 (s + n) = s + n :=
  wrap32_id _ (by have := h.1; have := h.2.1; omega) h.2.2.2

theorem run_inRange {c : List Nat} {s n : Int} (h : InRange c s n) :
    commentTextWithoutIndent c s n = .ok (specResult c s (s + n)) := by
  rw [run_eq, inRange_wrap h]
  have : 0 ≤ s ∧ s ≤ s + n ∧ s + n ≤ (c.length : Int) := ⟨h.1, by have := h.2.1; omega, h.2.2.1⟩
  simp [this]

/-- 1. For EVERY byte string and every range inside it the routine returns a string: no slice or index expression is
out of range (the model's `panic`) and no loop spins (`hang`). -/
theorem never_panics (c : List Nat) (s n : Int) (h : InRange c s n) : ∃ r, commentTextWithoutIndent c s n = .ok r :=
  ⟨_, run_inRange h⟩

/-- 1'. It panics exactly when the range is not inside the contents (the caller's obligation; `int32` wrap included) … -/
theorem panics_iff_out_of_range (c : List Nat) (s n : Int) :
    commentTextWithoutIndent c s n = .panic ↔ ¬ (0 ≤ s ∧ s ≤ wrap32 (s + n) ∧ wrap32 (s + n) ≤ c.length) := by
  rw [run_eq]
  by_cases h : 0 ≤ s ∧ s ≤ wrap32 (s + n) ∧ wrap32 (s + n) ≤ (c.length : Int)
  · simp [h]
  · simp [h]

/-- 1''. … and it never spins, whatever the arguments. -/
theorem never_hangs (c : List Nat) (s n : Int) : commentTextWithoutIndent c s n ≠ .hang := by
  rw [run_eq]; split <;> simp

/-- 1'''. The invariant that makes `line[indent:]` safe: the indent that is finally cut off is at most the column, at
most the space/tab prefix (counted in BYTES, which here equals Go's count in runes) of EVERY later line — hence at most
the length of every later line — and it is the greatest such number. -/
theorem final_indent_invariant (col : Nat) (later : List (List Nat)) :
    minIndent col later ≤ col ∧ (∀ l ∈ later, minIndent col later ≤ lineIndent l ∧ lineIndent l = wsLen l ∧
      minIndent col later ≤ l.length) ∧
    (∀ k, k ≤ col → (∀ l ∈ later, k ≤ wsLen l) → k ≤ minIndent col later) := by
  rw [minIndent_eq]
  refine ⟨commonIndent_le_col later col, fun l hl => ?_, fun k hk hl => commonIndent_greatest later col k hk hl⟩
  rw [lineIndent_eq]
  exact ⟨commonIndent_le_wsLen later col l hl, rfl,
    Nat.le_trans (commonIndent_le_wsLen later col l hl) (wsLen_le_length l)⟩

/-- 2a. A range that does not start with `/*` (or is shorter than two bytes) is returned unchanged. -/
theorem not_a_comment_unchanged (c : List Nat) (s n : Int) (h : InRange c s n)
    (hc : ¬ StartsComment (textOf c s (s + n))) : commentTextWithoutIndent c s n = .ok (textOf c s (s + n)) := by
  rw [run_inRange h]; simp [specResult, hc]

/-- 2b. For a range that starts with `/*`: with `first :: later` the lines of the text between the terminator BYTE
patterns LF, CR, CR LF, E2 80 A8, E2 80 A9 (the loop over decoded runes finds exactly these, also in ill-formed UTF-8),
the result is `first`, unchanged, and every later line without its first `k` bytes, joined by LF; `k` is the same for
all later lines, the removed bytes are spaces / tabs only (never "the whole line when shorter": a shorter white-space
line lowers `k` for everybody, a blank line makes it 0); splitting the result gives exactly these lines again. -/
theorem lines_preserved (c : List Nat) (s n : Int) (h : InRange c s n) (hc : StartsComment (textOf c s (s + n))) :
    ∃ first later k,
      Spec.CommentIndent.splitLines (textOf c s (s + n)) = first :: later ∧
      k = commonIndent (column (c.take s.toNat)) later ∧
      (∀ l ∈ later, k ≤ wsLen l ∧ ∀ x ∈ l.take k, isWs x = true) ∧
      commentTextWithoutIndent c s n = .ok (joinLF (first :: later.map (List.drop k))) ∧
      Spec.CommentIndent.splitLines (joinLF (first :: later.map (List.drop k))) = first :: later.map (List.drop k) := by
  cases hsp : Spec.CommentIndent.splitLines (textOf c s (s + n)) with
  | nil => exact absurd hsp (splitSkip_ne_nil _ 0)
  | cons first later =>
    refine ⟨first, later, _, rfl, rfl, fun l hl => ⟨commonIndent_le_wsLen later _ l hl, ?_⟩, ?_, ?_⟩
    · exact take_le_wsLen_ws l _ (commonIndent_le_wsLen later _ l hl)
    · rw [run_inRange h]; simp [specResult, hc, dedent_eq_of_split _ _ _ _ hsp]
    · apply split_join _ (by simp)
      have htf := split_lines_termFree (textOf c s (s + n))
      rw [hsp] at htf
      intro l hl
      rcases List.mem_cons.mp hl with rfl | hl'
      · exact htf _ (by simp)
      · obtain ⟨l0, hl0, rfl⟩ := List.mem_map.mp hl'
        exact termFree_drop l0 _ (htf l0 (List.mem_cons_of_mem _ hl0))


/-- `contents[|A| : |A|+|M|]` of `A ++ M ++ P` is `M` -/
theorem textOf_mid (A M P : List Nat) : textOf (A ++ M ++ P) (A.length : Int) ((A.length : Int) + (M.length : Int)) = M := by
  have h1 : ((A.length : Int) + (M.length : Int)).toNat = (A ++ M).length := by simp; omega
  have h2 : (A.length : Int).toNat = A.length := by simp
  unfold textOf
  rw [h1, h2, List.take_left', List.drop_left']
  · rfl
  · rfl

/-- 3. What `js_printer.printIndentedComment` prints for a stored comment text — the first line after the indentation
`ind`, every later line after LF and the same indentation — is read back as the stored text: for ANY lines without
terminators whose first one starts with `/*`, any indentation of spaces / tabs, anything before (nothing, or text that
ends in LF or CR) and anything after the comment.  So parse → print → parse → print is a fixed point for these comments
at every nesting depth. -/
theorem reindent_roundtrip (first : List Nat) (later : List (List Nat)) (pre ind post : List Nat)
    (hfirst : ∃ m, first = 47 :: 42 :: m) (htf : ∀ l ∈ first :: later, termFree l = true)
    (hpre : pre = [] ∨ ∃ p t, pre = p ++ [t] ∧ (t = 10 ∨ t = 13))
    (hind : ∀ x ∈ ind, isWs x = true)
    (hsize : (pre ++ ind ++ joinLF (first :: later.map (ind ++ ·)) ++ post).length < 2147483648) :
    commentTextWithoutIndent (pre ++ ind ++ joinLF (first :: later.map (ind ++ ·)) ++ post)
        ((pre ++ ind).length : Int) ((joinLF (first :: later.map (ind ++ ·))).length : Int)
      = .ok (joinLF (first :: later)) := by
  generalize hM : joinLF (first :: later.map (ind ++ ·)) = M at *
  have hr : InRange (pre ++ ind ++ M ++ post) ((pre ++ ind).length : Int) (M.length : Int) := by
    refine ⟨by omega, by omega, ?_, ?_⟩
    · simp only [List.length_append] at *; omega
    · simp only [List.length_append] at *; omega
  rw [run_inRange hr]
  have htext : textOf (pre ++ ind ++ M ++ post) ((pre ++ ind).length : Int) (((pre ++ ind).length : Int) + (M.length : Int)) = M :=
    textOf_mid (pre ++ ind) M post
  have hpfx : (pre ++ ind ++ M ++ post).take ((pre ++ ind).length : Int).toNat = pre ++ ind := by
    have : ((pre ++ ind).length : Int).toNat = (pre ++ ind).length := by omega
    rw [this, List.append_assoc (pre ++ ind), List.take_left']
    rfl
  have hascii : ∀ x ∈ ind, x < 128 ∧ x ≠ 10 ∧ x ≠ 13 := by
    intro x hx
    have := hind x hx
    simp [isWs] at this
    omega
  have hcol : column (pre ++ ind) = ind.length := by
    rcases hpre with rfl | ⟨p, t, rfl, ht⟩
    · simpa using column_start ind hascii
    · exact column_after_line p ind t ht hascii
  obtain ⟨m, rfl⟩ := hfirst
  have hstart : StartsComment M := by
    rw [startsComment_iff, ← hM]
    exact ⟨m ++ (later.map (ind ++ ·)).flatMap (fun m => 10 :: m), by simp [joinLF]⟩
  unfold specResult
  rw [htext, hpfx, hcol]
  simp only [hstart, if_true]
  have hsplit : Spec.CommentIndent.splitLines M = (47 :: 42 :: m) :: later.map (ind ++ ·) := by
    rw [← hM]
    apply split_join _ (by simp)
    intro l hl
    rcases List.mem_cons.mp hl with rfl | hl'
    · exact htf _ (by simp)
    · obtain ⟨l0, hl0, rfl⟩ := List.mem_map.mp hl'
      exact termFree_ws_append ind l0 hind (htf l0 (List.mem_cons_of_mem _ hl0))
  rw [dedent_eq_of_split _ _ _ _ hsplit]
  have hk : commonIndent ind.length (later.map (ind ++ ·)) = ind.length := by
    apply Nat.le_antisymm (commonIndent_le_col _ _)
    apply commonIndent_greatest _ _ _ (Nat.le_refl _)
    intro l hl
    obtain ⟨l0, _, rfl⟩ := List.mem_map.mp hl
    rw [wsLen_ws_append ind l0 hind]; omega
  have hmap : List.map (List.drop ind.length) (List.map (fun x => ind ++ x) later) = later := by
    rw [List.map_map]
    have : (List.drop ind.length ∘ fun x => ind ++ x) = id := by funext x; simp
    rw [this, List.map_id]
  rw [hk, hmap]

/-- 3'. Applying the routine to its own output, placed at column 0, changes nothing. -/
theorem idempotent_at_column_zero (c : List Nat) (s n : Int) (h : InRange c s n) (r : List Nat)
    (hr : commentTextWithoutIndent c s n = .ok r) : commentTextWithoutIndent r 0 (r.length : Int) = .ok r := by
  have hlen : (textOf c s (s + n)).length ≤ n.toNat := by
    unfold textOf
    rw [List.length_drop, List.length_take]
    have := h.1; have := h.2.1; omega
  by_cases hc : StartsComment (textOf c s (s + n))
  · obtain ⟨first, later, k, hsp, _, _, hrun, hsplit⟩ := lines_preserved c s n h hc
    rw [hrun] at hr
    have hr := Res.ok.inj hr
    have hrl : r.length ≤ (textOf c s (s + n)).length := by
      rw [← hr]
      have := joinLF_split_length (textOf c s (s + n))
      rw [hsp] at this
      exact Nat.le_trans (joinLF_drop_length first later k) this
    have hR : InRange r 0 (r.length : Int) := by
      refine ⟨by omega, by omega, by omega, ?_⟩
      have := h.2.2.2; have := h.1; have := h.2.1; omega
    rw [run_inRange hR]
    have ht : textOf r 0 (0 + (r.length : Int)) = r := by
      have := textOf_mid [] r []
      simpa using this
    obtain ⟨rest, hrest⟩ := (startsComment_iff _).mp hc
    obtain ⟨m, ms, hhead⟩ := split_comment_head rest
    rw [hrest] at hsp
    rw [hsp] at hhead
    injection hhead with hf _
    have hstart : StartsComment r := by
      rw [startsComment_iff, ← hr, hf]
      exact ⟨m ++ (later.map (List.drop k)).flatMap (fun m => 10 :: m), by simp [joinLF]⟩
    unfold specResult
    rw [ht]
    simp only [hstart, if_true]
    have hcol : column (r.take (0 : Int).toNat) = 0 := by simp [column, seekBack]
    rw [hcol, ← hr, dedent_eq_of_split _ _ _ _ hsplit]
    have hk : commonIndent 0 (later.map (List.drop k)) = 0 := Nat.le_zero.mp (commonIndent_le_col _ _)
    have hmap : List.map (List.drop 0) (later.map (List.drop k)) = later.map (List.drop k) := by
      have : (List.drop 0 : List Nat → List Nat) = id := by funext x; simp
      rw [this, List.map_id]
    rw [hk, hmap]
  · rw [not_a_comment_unchanged c s n h hc] at hr
    have hr := Res.ok.inj hr
    have hR : InRange r 0 (r.length : Int) := by
      refine ⟨by omega, by omega, by omega, ?_⟩
      have := h.2.2.2; have := h.1; have := h.2.1; rw [← hr]; omega
    have ht : textOf r 0 (0 + (r.length : Int)) = r := by
      have := textOf_mid [] r []
      simpa using this
    rw [not_a_comment_unchanged r 0 _ hR (by rw [ht, ← hr]; exact hc), ht]


/-- 4. If the range holds a complete comment token (starts with `/*`, ends with `*/`, no `*/` earlier) then so does the
result: the emitted comment can neither end early nor stay open. -/
theorem result_is_comment (c : List Nat) (s n : Int) (h : InRange c s n) (hc : IsComment (textOf c s (s + n))) :
    ∃ r, commentTextWithoutIndent c s n = .ok r ∧ IsComment r := by
  have hstart : StartsComment (textOf c s (s + n)) := by
    obtain ⟨body, hb, _⟩ := hc
    rw [startsComment_iff, hb]; exact ⟨body ++ [42, 47], by simp⟩
  obtain ⟨first, later, k, hsp, _, hk, hrun, _⟩ := lines_preserved c s n h hstart
  exact ⟨_, hrun, isComment_of_squash _ _ hc (squash_dedent _ first later k hsp (fun l hl => (hk l hl).1))⟩

/-! ### non-vacuity: concrete inputs that meet the hypotheses, and the exact counterexamples -/

/-- `··/*!↵····a↵↵···b·*/;` (↵ = CR LF, LF, LF) with the comment at [2, 21) -/
def sample : List Nat :=
  [32, 32, 47, 42, 33, 13, 10, 32, 32, 32, 32, 97, 10, 32, 32, 32, 98, 32, 42, 47, 59]

example : InRange sample 2 18 := by unfold InRange; decide
example : StartsComment (textOf sample 2 (2 + 18)) := by decide
example : IsComment (textOf sample 2 (2 + 18)) :=
  ⟨[33, 13, 10, 32, 32, 32, 32, 97, 10, 32, 32, 32, 98, 32], by decide, by decide⟩
-- column 2, later lines indented by 4 and 3: two bytes are removed from each
example : commentTextWithoutIndent sample 2 18 = .ok [47, 42, 33, 10, 32, 32, 97, 10, 32, 98, 32, 42, 47] := by decide
-- a range that is not a comment
example : ¬ StartsComment (textOf sample 0 (0 + 18)) := by decide
example : commentTextWithoutIndent sample 0 18 = .ok (sample.take 18) := by decide
-- outside the contents, and an `int32` sum that wraps: the first slice expression panics
example : commentTextWithoutIndent sample 2 20 = .panic := by decide
example : commentTextWithoutIndent sample 2147483647 1 = .panic := by decide
-- a white-space-only line shorter than the common indent (the shape of the seeded bug): `k` drops to its length
example : commentTextWithoutIndent [32, 32, 32, 32, 47, 42, 10, 32, 32, 10, 32, 32, 32, 32, 97, 42, 47] 4 13
    = .ok [47, 42, 10, 10, 32, 32, 97, 42, 47] := by decide
-- a multi-byte prefix on the comment's line: `π·/*↵··a*/` — column 2 in runes (3 bytes), both spaces are removed
example : commentTextWithoutIndent [0xCF, 0x80, 32, 47, 42, 10, 32, 32, 97, 42, 47] 3 8
    = .ok [47, 42, 10, 97, 42, 47] := by decide
-- ill-formed UTF-8: a truncated U+2028 (E2 80) before LF is no terminator; FF in the prefix counts one column
example : commentTextWithoutIndent [0xFF, 47, 42, 0xE2, 0x80, 10, 32, 97, 42, 47] 1 9
    = .ok [47, 42, 0xE2, 0x80, 10, 97, 42, 47] := by decide
-- reindent_roundtrip: the lines `/*!`, `·a`, `` and `*/` printed at indentation `··` after `x;↵`, followed by `↵y`
example : commentTextWithoutIndent
    ([120, 59, 10] ++ [32, 32] ++ joinLF ([47, 42, 33] :: [[32, 97], [], [42, 47]].map ([32, 32] ++ ·)) ++ [10, 121])
    5 16 = .ok (joinLF [[47, 42, 33], [32, 97], [], [42, 47]]) := by decide
/-- idempotence holds at column 0 only: `/*↵··a*/` is a result (of itself at column 0), but placed at column 1 without
re-indenting its later lines it loses one more byte. -/
example : commentTextWithoutIndent [47, 42, 10, 32, 32, 97, 42, 47] 0 8 = .ok [47, 42, 10, 32, 32, 97, 42, 47] ∧
    commentTextWithoutIndent ([32] ++ [47, 42, 10, 32, 32, 97, 42, 47]) 1 8 = .ok [47, 42, 10, 32, 97, 42, 47] := by
  decide


-- the theorems applied to the concrete inputs above (their hypotheses can be met)
example := never_panics sample 2 18 (by unfold InRange; decide)
example := lines_preserved sample 2 18 (by unfold InRange; decide) (by decide)
example := result_is_comment sample 2 18 (by unfold InRange; decide)
  ⟨[33, 13, 10, 32, 32, 32, 32, 97, 10, 32, 32, 32, 98, 32], by decide, by decide⟩
example := idempotent_at_column_zero sample 2 18 (by unfold InRange; decide) _ (by decide :
  commentTextWithoutIndent sample 2 18 = .ok [47, 42, 33, 10, 32, 32, 97, 10, 32, 98, 32, 42, 47])
example := reindent_roundtrip [47, 42, 33] [[32, 97], [], [42, 47]] [120, 59, 10] [32, 32] [10, 121] ⟨[33], rfl⟩
  (by decide) (Or.inr ⟨[120, 59], 10, rfl, Or.inl rfl⟩) (by decide) (by decide)

end EsbuildModel.C16CommentIndent
