import EsbuildModel.Lemmas.Wtf8Equals
import EsbuildModel.Lemmas.Wtf8Scan
/-!
# C16 — `internal/helpers/utf.go`: WTF-8 / UTF-16 conversions on arbitrary input (property theorems only)

Model: `Impl/Wtf8.lean` (`encodeWTF8Rune`, `DecodeWTF8Rune`, `UTF16ToString`, `UTF16EqualsString`, `StringToUTF16`
with Go's own UTF-8 decoding of `range`).  Specification: `Spec/Unicode.lean` (UTF-8 and UTF-16 encoding forms of
The Unicode Standard).  Units are `< 65536` (they are `uint16` in Go), bytes and strings are arbitrary, of any length.
-/
namespace EsbuildModel.C16Wtf8
open Wtf8 Spec.Unicode

/-- **`DecodeWTF8Rune` is total on arbitrary bytes and always makes progress:** it never indexes out of range; the
width is at most 4 and at most the length of the input; it is 0 EXACTLY when the input is empty (then with U+FFFD) and
therefore at least 1 on every non-empty input; an input that ends inside the sequence announced by its first byte
decodes as `(U+FFFD, 1)`. (Before commit f880361 that last case returned width 0, which made `helpers.internalQuote`
spin forever.) -/
theorem wtf8_total (s : List Nat) :
    ∃ r w, decodeWTF8Rune s = some (r, w) ∧ w ≤ s.length ∧ w ≤ 4 ∧ (w = 0 ↔ s = []) ∧ (s ≠ [] → 1 ≤ w) ∧
      (w = 0 → r = runeError) ∧
      (∀ s0 rest, s = s0 :: rest → s.length < seqLen s0 → r = runeError ∧ w = 1) :=
  decodeWTF8Rune_total s

/-- **Scanning loops over `DecodeWTF8Rune` cannot hang.** The loop
`for i < n { c, width := DecodeWTF8Rune(text[i:]); …; i += width }` (`decodeAll`; the shape of both loops of
`helpers.internalQuote`, i.e. of QuoteForJSON / QuoteSingle) run on ANY byte string with fuel `n = len(text)`
reaches the end of the input (`.runes`, never `.stuck`, never `.panic`, never out of fuel) after at most `n` rounds
(one decoded rune per round). -/
theorem wtf8_scan_terminates (s : List Nat) :
    ∃ cps, decodeAll s.length s = .runes cps ∧ cps.length ≤ s.length :=
  decodeAll_total s.length s (Nat.le_refl _)

/-- **`UTF16ToString` is total and writes the generalized UTF-8 (WTF-8) of the code points** of ANY UTF-16 string:
surrogate pairs become one 4-byte sequence, unpaired surrogates a 3-byte sequence; no panic inside `encodeWTF8Rune`. -/
theorem utf16ToString_total (u : List Nat) (hu : ∀ x ∈ u, x < 65536) :
    utf16ToString u = some ((pairs u).flatMap utf8) :=
  utf16ToString_eq u hu

/-- **WTF-8 ↔ UTF-16 round trip, lone surrogates included:** decoding `UTF16ToString(u)` rune by rune with
`DecodeWTF8Rune` (the loop is never stuck on it, never panics) and re-encoding each code point as `StringToUTF16` does
gives back `u`, for EVERY UTF-16 string `u`. -/
theorem utf16_wtf8_roundtrip (u : List Nat) (hu : ∀ x ∈ u, x < 65536) :
    ∃ bytes, utf16ToString u = some bytes ∧ decodeAll bytes.length bytes = .runes (pairs u) ∧
      wtf8ToUTF16 bytes = some u := by
  have hb := utf16ToString_eq u hu
  have hd := decodeAll_enc (pairs u) (pairs_le u hu) ((pairs u).flatMap encA).length (Nat.le_refl _)
  refine ⟨_, hb, hd, ?_⟩
  unfold wtf8ToUTF16
  rw [hd]
  simp only [unpairs u hu]

/-- **`StringToUTF16 ∘ UTF16ToString = id` on well-formed UTF-16** (no unpaired surrogate). On an unpaired surrogate
it is not: Go's `range` yields U+FFFD for each of the three bytes, see the `example` below. -/
theorem stringToUTF16_utf16ToString (u : List Nat) (hu : ∀ x ∈ u, x < 65536) (hw : ∀ cp ∈ pairs u, IsScalar cp) :
    ∃ bytes, utf16ToString u = some bytes ∧ stringToUTF16 bytes = u := by
  refine ⟨_, utf16ToString_eq u hu, ?_⟩
  rw [stringToUTF16_enc (pairs u) hw, unpairs u hu]

/-- **Both conversions implement the Unicode encoding forms:** for EVERY list of Unicode scalar values,
`StringToUTF16` maps its UTF-8 to its UTF-16 and `UTF16ToString` maps its UTF-16 back to its UTF-8
(so `UTF16ToString ∘ StringToUTF16 = id` on valid UTF-8). -/
theorem conversions_meet_unicode (cps : List Nat) (h : ∀ cp ∈ cps, IsScalar cp) :
    stringToUTF16 (cps.flatMap utf8) = cps.flatMap utf16 ∧
    utf16ToString (cps.flatMap utf16) = some (cps.flatMap utf8) := by
  have e16 : ∀ (l : List Nat), (∀ cp ∈ l, IsScalar cp) → l.flatMap pushUTF16 = l.flatMap utf16 := by
    intro l
    induction l with
    | nil => intro _; simp only [List.flatMap_nil]
    | cons c cs ih =>
      intro hl
      simp only [List.flatMap_cons]
      rw [pushUTF16_eq_utf16 c (hl c (by simp)).1, ih (fun x hx => hl x (List.mem_cons_of_mem _ hx))]
  have e16 := e16 cps h
  have hlt : ∀ x ∈ cps.flatMap pushUTF16, x < 65536 := by
    intro x hx
    obtain ⟨cp, hcp, hx⟩ := List.mem_flatMap.mp hx
    have hs := (h cp hcp).1
    by_cases hsm : cp ≤ 0xFFFF
    · rw [pushUTF16_small cp hsm] at hx
      simp only [List.mem_singleton] at hx
      omega
    · rw [pushUTF16_big cp (by omega) hs] at hx
      simp only [List.mem_cons, List.mem_nil_iff, or_false] at hx
      omega
  constructor
  · rw [← e16]; exact stringToUTF16_enc cps h
  · rw [← e16, utf16ToString_eq _ hlt, pairs_push cps h]
    rfl

/-- **`UTF16EqualsString(text, str)` = (`UTF16ToString(text) == str`)** for every UTF-16 string and every byte string,
and it never indexes `str` out of range. -/
theorem utf16EqualsString_correct (text str : List Nat) (hu : ∀ x ∈ text, x < 65536) :
    utf16EqualsString text str = some (decide (utf16ToString text = some str)) := by
  unfold utf16EqualsString
  rw [utf16ToString_eq text hu]
  by_cases hlen : text.length > str.length
  · simp only [hlen, if_true]
    congr 1
    symm
    rw [decide_eq_false_iff_not]
    intro h
    simp only [Option.some.injEq] at h
    have := bytes_length_ge text hu
    rw [h] at this
    omega
  · simp only [hlen, if_false]
    rw [equalsLoop_spec str text hu 0 (Nat.zero_le _)]
    simp only [List.drop_zero, Option.some.injEq]
    congr 1
    exact propext ⟨fun h => h.symm, fun h => h.symm⟩

/-! ### non-vacuity -/

/-- units with an unpaired high surrogate, a pair, an unpaired low surrogate and BMP text: `a D800 D83D DE00 DC00 é` -/
example : utf16ToString [97, 0xD800, 0xD83D, 0xDE00, 0xDC00, 0xE9] =
    some [97, 0xED, 0xA0, 0x80, 0xF0, 0x9F, 0x98, 0x80, 0xED, 0xB0, 0x80, 0xC3, 0xA9] := by decide +kernel
example : wtf8ToUTF16 [97, 0xED, 0xA0, 0x80, 0xF0, 0x9F, 0x98, 0x80, 0xED, 0xB0, 0x80, 0xC3, 0xA9] =
    some [97, 0xD800, 0xD83D, 0xDE00, 0xDC00, 0xE9] := by decide +kernel
/-- … on which `StringToUTF16` does NOT give the units back (three U+FFFD per unpaired surrogate) -/
example : stringToUTF16 [0xED, 0xA0, 0x80] = [0xFFFD, 0xFFFD, 0xFFFD] := by decide +kernel
/-- a string that ends inside a two-byte sequence (the input that used to hang QuoteForJSON): width 1, the loop ends -/
example : decodeWTF8Rune [0xC3] = some (runeError, 1) := by decide +kernel
example : decodeAll 5 [104, 116, 116, 112, 0xC3] = .runes [104, 116, 116, 112, 0xFFFD] := by decide +kernel
example : decodeAll 3 [0xF0, 0x9F, 0x98] = .runes [0xFFFD, 0xFFFD, 0xFFFD] := by decide +kernel
example : decodeWTF8Rune [] = some (runeError, 0) := by decide +kernel
example : ∀ cp ∈ [0x24, 0xA2, 0x20AC, 0x10348], IsScalar cp := by decide
example : utf16EqualsString [0x73, 0xD83D, 0xDE00] [0x73, 0xF0, 0x9F, 0x98, 0x80] = some true := by decide +kernel

end EsbuildModel.C16Wtf8
