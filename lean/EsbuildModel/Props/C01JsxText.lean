import EsbuildModel.Lemmas.JsxTextTokens
/-!
# C01 — JSX text children and JSX attribute strings keep their meaning

Model: `Impl/JsxText.lean` (esbuild's `fixWhitespaceAndDecodeJSXEntities`, `decodeJSXEntities`, the text token of
`NextJSXElementChild`, the string token of `NextInsideJSXElement`, the empty-child test of `parseJSXElement`).
Specification: `Spec/JsxText.lean` (split into lines / trim / drop empty / join with one space / decode character
references afterwards; the behaviour of Babel and TypeScript that React documents).

Texts are lists of code points (`s "…"` below spells one). The only hypothesis on a text is
* `Runes text` — every element is a code point ≤ U+10FFFF (always true of what Go's UTF-8 decoder returns; the
  specification writes a code point in UTF-16, the code an int32, and the two differ above U+10FFFF).

History: before esbuild commit "a JSX numeric character reference has no sign and cannot exceed U+10FFFF" the numeric
branch used `strconv.ParseInt(…, 32)`; the theorems then needed a hypothesis `Tame` (no signed numeral, no value in
(U+10FFFF, 2^31)) and `&#+65;`, `&#-5;`, `&#x110000;` were witnesses of the difference. They are examples of
agreement now.
-/
namespace EsbuildModel.C01JsxText
open EsbuildModel.JsxText EsbuildModel.Spec.JsxText
open EsbuildModel.Spec.Unicode (utf16)

/-- spell a text -/
def s (x : String) : List Nat := x.toList.map Char.toNat

/-! ## (1) text children -/

/-- `jsx_text_structure` — for EVERY list of numbers: the model never panics, and its result is the specification's
line structure (split at LF/CR/LS/PS, trim ECMAScript white space next to the line breaks, drop empty lines, join with
one space) applied with the model's own entity decoder on each trimmed line — so an entity-encoded space is never
trimmed. -/
theorem jsx_text_structure (text : List Nat) :
    fixWhitespaceAndDecodeJSXEntities jsxEntity text
      = some (jsxTextValueWith isEcmaWhiteSpace (modelDec jsxEntity) text) := by
  rw [fix_structure, isWhitespace_funext]

example : fixWhitespaceAndDecodeJSXEntities jsxEntity (s "  a &#32;\n\t&#65; b\r\n \n c  ")
    = some (s "  a   A b c  ") := by decide +kernel

/-- `jsx_text_is_ecma_spec` — the result IS the specification's value (white space = ECMA-262 WhiteSpace, the
TypeScript-style reading) for every text. -/
theorem jsx_text_is_ecma_spec (text : List Nat) (hr : Runes text) :
    fixWhitespaceAndDecodeJSXEntities jsxEntity text = some (jsxTextValue isEcmaWhiteSpace jsxEntity text) := by
  rw [fix_eq_spec jsxEntity jsxEntity_ok text hr, isWhitespace_funext]

/-- non-vacuity: a text with indentation, CR LF, a named, a decimal and a hexadecimal reference, an unknown name, a
lonely `&`, a numeral beyond uint32 (left alone) -/
example : Runes (s "  Hello, &amp;\r\n\t &#169; &#x1F600; &foo; & &#4294967361;\n  ") := by decide +kernel
example : fixWhitespaceAndDecodeJSXEntities jsxEntity (s "  Hello, &amp;\r\n\t &#169; &#x1F600; &foo; & &#4294967361;\n  ")
    = some ((s "  Hello, & © ") ++ [0xD83D, 0xDE00] ++ s " &foo; & &#4294967361;") := by decide +kernel

/-- the former witnesses of a difference: signed numerals and numerals above U+10FFFF are not character references;
model and specification both leave them as text -/
example :
    fixWhitespaceAndDecodeJSXEntities jsxEntity (s "&#+65;") = some (s "&#+65;") ∧
    jsxTextValue isEcmaWhiteSpace jsxEntity (s "&#+65;") = s "&#+65;" ∧
    fixWhitespaceAndDecodeJSXEntities jsxEntity (s "&#-5;") = some (s "&#-5;") ∧
    jsxTextValue isEcmaWhiteSpace jsxEntity (s "&#-5;") = s "&#-5;" ∧
    fixWhitespaceAndDecodeJSXEntities jsxEntity (s "&#x-41;") = some (s "&#x-41;") := by decide +kernel
example :
    fixWhitespaceAndDecodeJSXEntities jsxEntity (s "&#x110000;") = some (s "&#x110000;") ∧
    jsxTextValue isEcmaWhiteSpace jsxEntity (s "&#x110000;") = s "&#x110000;" ∧
    fixWhitespaceAndDecodeJSXEntities jsxEntity (s "&#2147483647;") = some (s "&#2147483647;") ∧
    fixWhitespaceAndDecodeJSXEntities jsxEntity (s "&#x10FFFF;") = some [0xDBFF, 0xDFFF] := by decide +kernel

/-- surrogate code points: `&#xD800;` is a well-formed reference to the code point U+D800; the specification (as
TypeScript's `String.fromCharCode` and Babel's `String.fromCodePoint`) writes it as the one code unit 0xD800, and so does
the code — the resulting JavaScript string holds a lone surrogate, exactly as `"\uD800"` would -/
example :
    fixWhitespaceAndDecodeJSXEntities jsxEntity (s "a&#xD800;b&#57343;") = some [97, 0xD800, 98, 0xDFFF] ∧
    jsxTextValue isEcmaWhiteSpace jsxEntity (s "a&#xD800;b&#57343;") = [97, 0xD800, 98, 0xDFFF] ∧
    fixWhitespaceAndDecodeJSXEntities jsxEntity (s "&#xD83D;&#xDE00;") = some [0xD83D, 0xDE00] := by decide +kernel

/-- `jsx_text_is_spec_partial` — the statement of the work package (Babel's class: only space and tab are trimmed)
holds for texts in which no OTHER ECMAScript white space occurs. -/
theorem jsx_text_is_spec_partial (text : List Nat) (hr : Runes text)
    (hw : ∀ c ∈ text, isEcmaWhiteSpace c = isSpaceTab c) :
    fixWhitespaceAndDecodeJSXEntities jsxEntity text = some (jsxTextValue isSpaceTab jsxEntity text) := by
  rw [jsx_text_is_ecma_spec text hr, jsxTextValue_congr isEcmaWhiteSpace isSpaceTab jsxEntity text hw]

example : ∀ c ∈ s " a\t\n \tb&nbsp;\n", isEcmaWhiteSpace c = isSpaceTab c := by decide +kernel
example : Runes (s " a\t\n \tb&nbsp;\n") := by decide +kernel
example : fixWhitespaceAndDecodeJSXEntities jsxEntity (s " a\t\n \tb&nbsp;\n") = some (s " a b" ++ [0xA0]) := by decide +kernel

-- OPEN  jsx_text_is_spec : ∀ text, fixWhitespaceAndDecodeJSXEntities jsxEntity text
--                                    = some (jsxTextValue isSpaceTab jsxEntity text)
-- is FALSE of the code because of the white-space class: esbuild trims every ECMA-262 WhiteSpace character next to a
-- line break (TypeScript's reading, minus U+0085 and U+200B), Babel only space and tab. An observation, not a defect:

/-- witness: a literal NO-BREAK SPACE after a line break is trimmed (a line feed, U+00A0, `x` gives "x"; Babel keeps
the U+00A0) -/
theorem exotic_whitespace_trimmed :
    fixWhitespaceAndDecodeJSXEntities jsxEntity [10, 0xA0, 120] = some [120] ∧
    jsxTextValue isSpaceTab jsxEntity [10, 0xA0, 120] = [0xA0, 120] := by decide +kernel

/-! ### corollaries -/

/-- text without a line terminator is kept verbatim apart from entities — for EVERY such list -/
theorem no_newline_only_entities (text : List Nat) (hnl : ∀ c ∈ text, isLineTerminator c = false) :
    fixWhitespaceAndDecodeJSXEntities jsxEntity text = some (decodeJSXEntities jsxEntity [] text) := by
  rw [jsx_text_structure, jsxTextValueWith_single_line _ _ text hnl (by rfl)]
  simp [decodeJSXEntities, modelDec]

example : fixWhitespaceAndDecodeJSXEntities jsxEntity (s "  a  &lt;\t b  ") = some (s "  a  <\t b  ") := by decide +kernel
example := no_newline_only_entities (s "  a  &lt;\t b  ") (by decide +kernel)

/-- … and that is the specification's decoding -/
theorem no_newline_is_decode (text : List Nat) (hnl : ∀ c ∈ text, isLineTerminator c = false) (hr : Runes text) :
    fixWhitespaceAndDecodeJSXEntities jsxEntity text = some (decodeEntities jsxEntity text) := by
  rw [jsx_text_is_ecma_spec text hr, jsxTextValue_single_line _ _ text hnl]

example : (∀ c ∈ s " x &copy; ", isLineTerminator c = false) ∧ Runes (s " x &copy; ") := by decide +kernel

/-- idempotence: an already normalised one-line text (no line terminator, no `&`, BMP only, so that code points and
UTF-16 units coincide) is a fixed point -/
theorem normalised_text_fixed_point (text : List Nat) (hnl : ∀ c ∈ text, isLineTerminator c = false)
    (hamp : 38 ∉ text) (hbmp : ∀ c ∈ text, c ≤ 0xFFFF) :
    fixWhitespaceAndDecodeJSXEntities jsxEntity text = some text := by
  have hr : Runes text := fun c hc => by have := hbmp c hc; omega
  rw [jsx_text_is_ecma_spec text hr]
  rw [jsxTextValue_plain _ _ text (fun c hc => ⟨fun e => hamp (e ▸ hc), hnl c hc, hbmp c hc⟩)]

example : (∀ c ∈ s " a  b\t", isLineTerminator c = false) ∧ 38 ∉ s " a  b\t" ∧ ∀ c ∈ s " a  b\t", c ≤ 0xFFFF := by
  decide +kernel

/-- … hence normalising twice is normalising once on such texts -/
theorem normalised_twice (text : List Nat) (hnl : ∀ c ∈ text, isLineTerminator c = false)
    (hamp : 38 ∉ text) (hbmp : ∀ c ∈ text, c ≤ 0xFFFF) :
    (fixWhitespaceAndDecodeJSXEntities jsxEntity text).bind (fixWhitespaceAndDecodeJSXEntities jsxEntity)
      = fixWhitespaceAndDecodeJSXEntities jsxEntity text := by
  simp [normalised_text_fixed_point text hnl hamp hbmp]

/-- white space only, with a line terminator: the empty string — for EVERY such list -/
theorem whitespace_with_newline_is_empty (text : List Nat)
    (hall : ∀ c ∈ text, isEcmaWhiteSpace c = true ∨ isLineTerminator c = true)
    (hnl : ∃ c ∈ text, isLineTerminator c = true) :
    fixWhitespaceAndDecodeJSXEntities jsxEntity text = some [] := by
  rw [jsx_text_structure, jsxTextValueWith_ws_newline _ _ text hall hnl]

example : (∀ c ∈ s "  \t\n   \r\n ", isEcmaWhiteSpace c = true ∨ isLineTerminator c = true) ∧
    (∃ c ∈ s "  \t\n   \r\n ", isLineTerminator c = true) := by decide +kernel

/-- white space only, WITHOUT a line terminator: kept as it is -/
theorem whitespace_without_newline_is_kept (text : List Nat) (hall : ∀ c ∈ text, isEcmaWhiteSpace c = true) :
    fixWhitespaceAndDecodeJSXEntities jsxEntity text = some text :=
  normalised_text_fixed_point text (fun c hc => (ecma_ws_facts c (hall c hc)).2.1)
    (fun h => (ecma_ws_facts 38 (hall 38 h)).1 rfl) (fun c hc => (ecma_ws_facts c (hall c hc)).2.2)

example : ∀ c ∈ s " \t 　", isEcmaWhiteSpace c = true := by decide +kernel

/-! ## (2) entities -/

/-- `entity_decode_spec` — `decodeJSXEntities` appends exactly the specification's decoding: named references by the
table, decimal `&#NN;` and hexadecimal `&#xHH;` references as the UTF-16 form of their code point, everything else
(unknown names, `&` without `;`, signed / malformed / out-of-range numerals) left as text. -/
theorem entity_decode_spec (decoded text : List Nat) (hr : Runes text) :
    decodeJSXEntities jsxEntity decoded text = decoded ++ decodeEntities jsxEntity text :=
  decodeJSXEntities_eq jsxEntity jsxEntity_ok decoded text hr

example : Runes (s "&lt;&#60;&#x3C;&#x3c;&LT;&#;&#x;&#X3C;&lt &#+60;&#1114112;") := by decide +kernel
example : decodeJSXEntities jsxEntity [7] (s "&lt;&#60;&#x3C;&#x3c;&LT;&#;&#x;&#X3C;&lt &#+60;&#1114112;")
    = 7 :: s "<<<<&LT;&#;&#x;&#X3C;&lt &#+60;&#1114112;" := by decide +kernel

/-- on ONE entity body (the text between `&` and the next `;`) the model reads exactly what the specification reads -/
theorem entity_value_is_spec (body : List Nat) (hne : body ≠ []) :
    entityValue jsxEntity body = (charRef jsxEntity body).map Int.ofNat :=
  entityValue_eq_charRef jsxEntity body hne

example : entityValue jsxEntity (s "#+65") = none ∧ entityValue jsxEntity (s "#x-41") = none ∧
    entityValue jsxEntity (s "#1114112") = none ∧ entityValue jsxEntity (s "#4294967361") = none ∧
    entityValue jsxEntity (s "#1114111") = some 0x10FFFF ∧ entityValue jsxEntity (s "#xd800") = some 0xD800 ∧
    entityValue jsxEntity (s "amp") = some 38 ∧ entityValue jsxEntity (s "Amp") = none := by decide +kernel

/-- a decimal reference denotes its code point, written in UTF-16 by the model's `emit` -/
theorem decimal_entity_is_code_point (ds : List Nat) (hne : ds ≠ []) (hd : ds.all isDecDigit = true)
    (hle : numeral 10 ds ≤ 0x10FFFF) :
    entityValue jsxEntity (35 :: ds) = some (numeral 10 ds : Int) ∧
    emit (numeral 10 ds : Int) = utf16 (numeral 10 ds) := by
  refine ⟨?_, emit_eq_utf16 _ hle⟩
  cases ds with
  | nil => exact absurd rfl hne
  | cons d ds' =>
    have hd0 : isDecDigit d = true := by simp at hd; exact hd.1
    have h120 : (d :: ds').head? ≠ some 120 := by
      intro e; simp at e; subst e; simp [isDecDigit] at hd0
    rw [entity_value_is_spec _ (by simp), charRef_dec _ _ h120]
    simp [numericRef, hd, hle]

example : entityValue jsxEntity (s "#128512") = some 128512 ∧ emit 128512 = [0xD83D, 0xDE00] := by decide +kernel
example := decimal_entity_is_code_point (s "128512") (by decide +kernel) (by decide +kernel) (by decide +kernel)

/-- a hexadecimal reference (lower-case `x`, digits of either case) denotes its code point -/
theorem hex_entity_is_code_point (ds : List Nat) (hne : ds ≠ []) (hd : ds.all isHexDigit = true)
    (hle : numeral 16 ds ≤ 0x10FFFF) :
    entityValue jsxEntity (35 :: 120 :: ds) = some (numeral 16 ds : Int) ∧
    emit (numeral 16 ds : Int) = utf16 (numeral 16 ds) := by
  refine ⟨?_, emit_eq_utf16 _ hle⟩
  rw [entity_value_is_spec _ (by simp), charRef_hex]
  simp [numericRef, hd, hle, hne]

example : entityValue jsxEntity (s "#x1f600") = some 0x1F600 ∧ entityValue jsxEntity (s "#x1F600") = some 0x1F600 := by
  decide +kernel
example := hex_entity_is_code_point (s "1f60A") (by decide +kernel) (by decide +kernel) (by decide +kernel)

/-- above U+FFFF the UTF-16 form is a well-formed surrogate pair that encodes the code point -/
theorem utf16_surrogate_pair (cp : Nat) (h1 : 0xFFFF < cp) (h2 : cp ≤ 0x10FFFF) :
    ∃ hi lo, utf16 cp = [hi, lo] ∧ 0xD800 ≤ hi ∧ hi ≤ 0xDBFF ∧ 0xDC00 ≤ lo ∧ lo ≤ 0xDFFF ∧
      0x10000 + (hi - 0xD800) * 1024 + (lo - 0xDC00) = cp := by
  refine ⟨0xD800 + (cp - 0x10000) / 1024, 0xDC00 + (cp - 0x10000) % 1024, ?_, ?_⟩
  · have : ¬ cp ≤ 0xFFFF := by omega
    simp [utf16, this]
  · omega

example := utf16_surrogate_pair 0x1F600 (by decide) (by decide)

/-- a reference to a surrogate CODE POINT (`&#xD800;` … `&#xDFFF;`) is well formed and yields that one code unit — a
lone surrogate in the JavaScript string, as in TypeScript and Babel -/
theorem surrogate_reference_is_one_unit (ds : List Nat) (hne : ds ≠ []) (hd : ds.all isHexDigit = true)
    (h1 : 0xD800 ≤ numeral 16 ds) (h2 : numeral 16 ds ≤ 0xDFFF) :
    entityValue jsxEntity (35 :: 120 :: ds) = some (numeral 16 ds : Int) ∧
    emit (numeral 16 ds : Int) = [numeral 16 ds] := by
  obtain ⟨h, he⟩ := hex_entity_is_code_point ds hne hd (by omega)
  refine ⟨h, ?_⟩
  rw [he]
  have : numeral 16 ds ≤ 0xFFFF := by omega
  simp [utf16, this]

example := surrogate_reference_is_one_unit (s "dC00") (by decide +kernel) (by decide +kernel) (by decide +kernel)
  (by decide +kernel)

/-! ## (3) attribute strings -/

/-- `attr_value` — a JSX attribute string `Q text Q` (Q one of the two quotes, not occurring in `text`) denotes the
entity decoding of `text` and nothing else; the scanner stops exactly at the closing quote. -/
theorem attr_value (quote : Nat) (hq : quote = 34 ∨ quote = 39) (text rest : List Nat)
    (hnot : quote ∉ text) (hr : Runes text) :
    attrString jsxEntity quote (text ++ quote :: rest) = some (jsxAttrValue jsxEntity text, rest) := by
  obtain ⟨needs, hs, hn⟩ := scanAttr_spec quote (by omega) (by omega) text rest hnot
  unfold attrString jsxAttrValue
  rw [hs]
  cases needs with
  | true => simp [decodeJSXEntities_eq jsxEntity jsxEntity_ok [] text hr]
  | false =>
    have h := hn rfl
    rw [decodeEntities_no_amp jsxEntity text (fun hm => (h 38 hm).1 rfl),
      flatMap_utf16_bmp text (fun c hc => by have := (h c hc).2; omega)]
    simp

example : 34 ∉ s "a\\n\\u0041 \n &quot;b&#39;&#+39;\\" ∧ Runes (s "a\\n\\u0041 \n &quot;b&#39;&#+39;\\") := by decide +kernel
example : attrString jsxEntity 34 (s "a\\n\\u0041 \n &quot;b&#39;&#+39;\\\">rest")
    = some (s "a\\n\\u0041 \n \"b'&#+39;\\", s ">rest") := by decide +kernel

/-- … in particular NOTHING is interpreted when there is no `&`: backslashes, raw line breaks, tabs, quotes of the other
kind and non-ASCII characters are the value, code point by code point -/
theorem attr_value_verbatim (quote : Nat) (hq : quote = 34 ∨ quote = 39) (text rest : List Nat)
    (hnot : quote ∉ text) (hr : Runes text) (hamp : 38 ∉ text) :
    attrString jsxEntity quote (text ++ quote :: rest) = some (text.flatMap utf16, rest) := by
  rw [attr_value quote hq text rest hnot hr]
  simp [jsxAttrValue, decodeEntities_no_amp jsxEntity text hamp]

example : attrString jsxEntity 39 (s "x\\'y") = some (s "x\\", s "y") := by decide +kernel
example := attr_value_verbatim 39 (Or.inr rfl) (s "x\\ \n \"é") (s "y") (by decide +kernel) (by decide +kernel) (by decide +kernel)

/-- an unterminated attribute string is a syntax error -/
theorem attr_unterminated (quote : Nat) (src : List Nat) (hnot : quote ∉ src) :
    attrString jsxEntity quote src = none := by
  simp [attrString, scanAttr_eof quote src hnot]

example := attr_unterminated 34 (s "abc'>x</a>") (by decide +kernel)

/-! ## (4) the text token and the dropped child -/

/-- `NextJSXElementChild` never reaches the panic of an out-of-range slice — for EVERY source -/
theorem child_token_never_panics (src : List Nat) : nextJSXElementChild jsxEntity src ≠ .panic := by
  unfold nextJSXElementChild
  split
  · simp
  · split
    · simp
    · split
      · simp
      · dsimp only
        split
        · rw [jsx_text_structure]; simp
        · simp

/-- the text token is the longest prefix without `{` and `<` (`}` and `>` are kept), and its value is the
specification's value of that prefix — whichever of the fast and the slow path is taken -/
theorem child_token_spec (c : Nat) (src : List Nat) (h123 : c ≠ 123) (h60 : c ≠ 60)
    (hr : Runes ((c :: src).takeWhile (fun c => !isTextEnd c))) :
    nextJSXElementChild jsxEntity (c :: src) =
      .stringLiteral (jsxTextValue isEcmaWhiteSpace jsxEntity ((c :: src).takeWhile (fun c => !isTextEnd c))) := by
  unfold nextJSXElementChild
  simp only [h123, h60, if_false]
  rw [← scanChildText_fst] at hr ⊢
  cases hn : (scanChildText (c :: src)).2 with
  | true => simp [jsx_text_is_ecma_spec _ hr]
  | false => simp [fast_path_sound isEcmaWhiteSpace jsxEntity (c :: src) hn]

example : nextJSXElementChild jsxEntity (s "a } > b{c}") = .stringLiteral (s "a } > b") := by decide +kernel
example : nextJSXElementChild jsxEntity (s "\n  x &gt; y\n</a>") = .stringLiteral (s "x > y") := by decide +kernel
example := child_token_spec 10 (s "  x &gt; y\n</a>") (by decide +kernel) (by decide +kernel) (by decide +kernel)

/-- the parser drops the child exactly when the value is the empty string -/
theorem child_dropped_iff (d : List Nat) : childOfToken (.stringLiteral d) = none ↔ d = [] := by
  unfold childOfToken
  cases d <;> simp

/-- … so an indentation-only text between two elements produces no child at all -/
theorem indentation_child_dropped (c : Nat) (src : List Nat) (h123 : c ≠ 123) (h60 : c ≠ 60)
    (hall : ∀ x ∈ (c :: src).takeWhile (fun c => !isTextEnd c), isEcmaWhiteSpace x = true ∨ isLineTerminator x = true)
    (hnl : ∃ x ∈ (c :: src).takeWhile (fun c => !isTextEnd c), isLineTerminator x = true) :
    childOfToken (nextJSXElementChild jsxEntity (c :: src)) = none := by
  have hr : Runes ((c :: src).takeWhile (fun c => !isTextEnd c)) := by
    intro x hx
    rcases hall x hx with h | h
    · have := (ecma_ws_facts x h).2.2; omega
    · simp only [isLineTerminator, Bool.or_eq_true, beq_iff_eq] at h; omega
  rw [child_token_spec c src h123 h60 hr]
  rw [child_dropped_iff]
  exact jsxTextValueWith_ws_newline _ _ _ hall hnl

example : childOfToken (nextJSXElementChild jsxEntity (s "\n    <b/>\n")) = none := by decide +kernel
example : childOfToken (nextJSXElementChild jsxEntity (s "  <b/>")) = some (s "  ") := by decide +kernel
example := indentation_child_dropped 10 (s "    <b/>\n") (by decide +kernel) (by decide +kernel) (by decide +kernel) (by decide +kernel)

/-! ## the specification's `trimEnd` is what one expects (sanity of the structural definition) -/

theorem spec_trimEnd_is_reverse_dropWhile (ws : Nat → Bool) : ∀ (l : List Nat),
    trimEnd ws l = (l.reverse.dropWhile ws).reverse := by
  intro l
  induction l with
  | nil => rfl
  | cons c l ih =>
    rw [List.reverse_cons, List.dropWhile_append]
    by_cases h : trimEnd ws l = []
    · rw [trimEnd_cons_of_nil ws c l h]
      have : (l.reverse.dropWhile ws) = [] := by
        have := ih.symm.trans h
        simpa using this
      simp [this, List.dropWhile_cons]
      cases ws c <;> simp
    · rw [trimEnd_cons_of_ne ws c l h]
      have : (l.reverse.dropWhile ws) ≠ [] := by
        intro e; rw [e] at ih; exact h (by simpa using ih)
      have hemp : (l.reverse.dropWhile ws).isEmpty = false := by
        cases hh : l.reverse.dropWhile ws <;> simp_all
      simp [hemp, ih]

end EsbuildModel.C01JsxText
