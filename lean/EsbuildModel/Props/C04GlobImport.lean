import EsbuildModel.Lemmas.GlobEntry
/-!
# C04 — glob imports (`import("./dir/" + x + ".js")`, `require(`…${x}…`)`, entry-point globs): property theorems

Model: `Impl/Glob.lean` (the parts loop of handleGlobPattern, the regexp loop of ResolveGlob, regexp.QuoteMeta).
Specifications: `Spec/GlobImport.lean` (what a path expression can evaluate to; the documented glob of an expression),
`Spec/MiniRegex.lean`.  Code-point level; `import_glob_bytes_ascii` is the byte-level statement for ASCII patterns.
-/
namespace EsbuildModel.C04GlobImport
open EsbuildModel.Glob EsbuildModel.Spec.MiniRegex
open EsbuildModel.Spec.GlobImport (canEvaluateTo documentedGlob holesAfterSlash Frag)
open EsbuildModel.Spec.Glob (globMatch tokens Tok)

/-- escaping in ResolveGlob (regexp.QuoteMeta on every prefix): for ANY list of parts — prefixes with any content —
the text is inside the regexp fragment and parses to `reOf (partsToks false parts)`, in which every code point of a
prefix is a literal leaf -/
theorem import_glob_escape_complete (parts : List Part) :
    parse (globRegexText parts).1 = some (reOf (partsToks false parts)) := by
  rw [globRegexText_eq]
  exact parse_tokens _

/-- what the regexp of ResolveGlob matches, for ANY parts and paths: the implemented dialect on `partsToks`
(a prefix literally, `*` = no slash, `**` = `(?:[^/]*(?:/|$))*` with the slash after it dropped);
sub-directories are visited iff some part is a globstar -/
theorem import_glob_regex_exact (parts : List Part) :
    ∃ R, parse (globRegexText parts).1 = some R ∧
      (∀ path, matchString R path = codeMatch (partsToks false parts) path) ∧
      (globRegexText parts).2 = parts.any (fun p => p.wild == .withSlash) := by
  refine ⟨_, import_glob_escape_complete parts, fun path => ?_, by rw [globRegexText_eq]⟩
  rw [Bool.eq_iff_iff, matchString_iff, matches_tokens]

/-- byte level, ASCII patterns: `regexp.MustCompile` accepts the text and `MatchString` on ANY byte string answers
what the implemented dialect says about the code points Go decodes from it -/
theorem import_glob_bytes_ascii (parts : List Part) (h : ∀ p ∈ parts, ∀ c ∈ p.pre, c < 128) :
    compile (globRegexText parts).1 = .ok (reOf (partsToks false parts)) ∧
      ∀ path, goMatch (reOf (partsToks false parts)) path = codeMatch (partsToks false parts) (runesOf path) := by
  constructor
  · have hascii : ∀ x ∈ (globRegexText parts).1, x < 128 := by
      intro x hx
      rw [globRegexText_eq] at hx
      simp only [List.mem_append, List.mem_singleton] at hx
      rcases hx with (rfl | hx) | rfl
      · omega
      · exact partsToks_text_ascii parts h false x hx
      · omega
    have hu := utf8s_ascii _ hascii
    have hsc : ∀ x ∈ (globRegexText parts).1, Spec.Unicode.IsScalar x := fun x hx => scalar_ascii x (hascii x hx)
    unfold compile
    rw [← hu, validUTF8_utf8s _ hsc, runesOf_utf8s _ hsc]
    simp only [if_true]
    rw [import_glob_escape_complete]
  · intro path
    unfold goMatch
    rw [Bool.eq_iff_iff, matchString_iff, matches_tokens]

/-- (4) what a template is turned into: if handleGlobPattern accepts the expression `fs` (text and holes) and hands
`parts` to ResolveGlob, then the regexp matches a path iff the path is obtained by filling every hole with a string
that contains `/` only if the literal text right before the hole ends with `/` (adjacent holes = one hole) -/
theorem template_glob_is_documented_glob (fs : List Piece) (parts : List Part) (h : templateParts fs = some parts) :
    ∃ R, parse (globRegexText parts).1 = some R ∧
      ∀ path, matchString R path = documentedGlob (fs.map toFrag) path := by
  obtain ⟨R, hR, hm, _⟩ := import_glob_regex_exact parts
  refine ⟨R, hR, fun path => ?_⟩
  rw [hm, templateParts_toks fs parts h, (tplToks_sem fs).1 [] path]
  simp [documentedGlob]

/-- non-vacuity: `"./dir/" + x + ".js"` is accepted and becomes `./dir/**` `/*` `.js` -/
example : templateParts [.text [46, 47, 100, 47], .hole, .text [46, 106, 115]]
    = some [⟨[46, 47, 100, 47], .withSlash⟩, ⟨[47], .noSlash⟩, ⟨[46, 106, 115], .none⟩] := by decide

/-- the bundle never contains a file the expression cannot name -/
theorem template_glob_subset_runtime (fs : List Piece) (path : List Nat)
    (h : documentedGlob (fs.map toFrag) path = true) : canEvaluateTo (fs.map toFrag) path = true :=
  fillMatch_mono _ _ _ _ _ _ h

-- OPEN `template_glob_sound`: for ALL templates, every path the expression can evaluate to matches the regexp (so
-- that every file the expression can name at run time is in the bundle). FALSE of the code (and documented as a
-- limitation): `"./a" + x + ".js"` with x = "b/c" evaluates to `./ab/c.js`, which is not matched; run on the real
-- code: the bundle throws "Module not found in bundle: ./ab/c.js" while the unbundled program imports the file.
example : canEvaluateTo [.text [46, 47, 97], .hole, .text [46, 106, 115]] [46, 47, 97, 98, 47, 99, 46, 106, 115] = true ∧
    documentedGlob [.text [46, 47, 97], .hole, .text [46, 106, 115]] [46, 47, 97, 98, 47, 99, 46, 106, 115] = false := by
  decide

/-- `template_glob_sound_partial`: when every hole comes right after literal text ending with `/` (as in
`"./dir/" + x + ".js"`), EVERY path the expression can evaluate to matches the regexp -/
theorem template_glob_sound_partial (fs : List Piece) (parts : List Part) (h : templateParts fs = some parts)
    (hs : holesAfterSlash [] none (fs.map toFrag) = true) :
    ∃ R, parse (globRegexText parts).1 = some R ∧
      ∀ path, canEvaluateTo (fs.map toFrag) path = true → matchString R path = true := by
  obtain ⟨R, hR, hm⟩ := template_glob_is_documented_glob fs parts h
  refine ⟨R, hR, fun path hp => ?_⟩
  rw [hm]
  unfold documentedGlob
  rw [fillMatch_after_slash _ _ _ hs]
  exact hp

example : holesAfterSlash [] none ([Piece.text [46, 47, 100, 47], .hole, .text [46, 106, 115]].map toFrag) = true := by
  decide

/-! ## all byte strings: no panic, no result for text that is not valid UTF-8 -/

/-- `resolve_glob_no_panic`: ResolveGlob never panics (and its loops terminate), whatever bytes the parts, the source
directory and the file names contain -/
theorem resolve_glob_no_panic (files : List (List Nat)) (sourceDir : List Nat) (parts : List Part) (isEntryPoint : Bool) :
    ∃ r, resolveGlob files sourceDir parts isEntryPoint = .ok r :=
  resolveGlob_total files sourceDir parts isEntryPoint

/-- what `regexp.Compile` answers for the text of ANY parts: invalid UTF-8, or a regexp of the fragment — whose
items are, for ASCII parts, exactly `partsToks` (`import_glob_bytes_ascii`) -/
theorem import_glob_compile_any (parts : List Part) :
    (validUTF8 (globRegexText parts).1 = false ∧ compile (globRegexText parts).1 = .invalidUTF8) ∨
    (validUTF8 (globRegexText parts).1 = true ∧ ∃ ts, compile (globRegexText parts).1 = .ok (reOf ts)) := by
  rw [compile_parts_any]
  cases validUTF8 (globRegexText parts).1 with
  | false => exact Or.inl ⟨rfl, rfl⟩
  | true => exact Or.inr ⟨rfl, _, rfl⟩

/-- `resolve_glob_invalid_utf8_no_result`: for a pattern starting with `./` whose regexp text is not valid UTF-8,
ResolveGlob answers nil ("not a glob pattern"), on every file system -/
theorem resolve_glob_invalid_utf8_no_result (files : List (List Nat)) (sourceDir : List Nat) (p0 : Part) (ps : List Part)
    (isEntryPoint : Bool) (hrel : hasPrefix p0.pre [46, 47] = true)
    (hinv : validUTF8 (globRegexText (p0 :: ps)).1 = false) :
    resolveGlob files sourceDir (p0 :: ps) isEntryPoint = .ok none := by
  unfold resolveGlob
  simp only [hrel, Bool.true_or, if_true]
  obtain ⟨dp, hdp, _⟩ := dirPrefixLoop_total p0.pre (p0.pre.length + 1) 0 (by omega) (by omega)
  rw [hdp]
  have hp : ({ p0 with pre := p0.pre } : Part) = p0 := rfl
  simp only [hp]
  have hc : compile (globRegexText (p0 :: ps)).1 = .invalidUTF8 := by
    unfold compile; rw [hinv]; rfl
  rw [hc]
  split <;> split <;> rfl

/-- a text that is not valid UTF-8 gives no result ("not a glob pattern"), e.g. `import("./d/\ud800" + x)`:
ResolveGlob answers nil (before the fix ad9d60a: a panic) -/
example : resolveGlob [[47, 112, 47, 100, 47, 97, 46, 106, 115]] [47, 112]
    [⟨[46, 47, 100, 47, 0xED, 0xA0, 0x80], .noSlash⟩, ⟨[], .none⟩] false = .ok none := by decide

/-- … while the same glob without the surrogate finds the file -/
example : resolveGlob [[47, 112, 47, 100, 47, 97, 46, 106, 115]] [47, 112]
    [⟨[46, 47, 100, 47], .noSlash⟩, ⟨[], .none⟩] false = .ok (some [[46, 47, 100, 47, 97, 46, 106, 115]]) := by decide

/-! ## entry-point globs (`esbuild "src/**/*.ts"`): ParseGlobPattern + ResolveGlob -/

/-- for a pattern text without backslash, the regexp ResolveGlob builds from `ParseGlobPattern(text)` matches the
implemented dialect on the tokens of the SPECIFIED dialect, `?` being an ordinary character -/
theorem entry_glob_regex_exact (text : List Nat) (h92 : 92 ∉ text) :
    ∃ R, parse (globRegexText (parseGlobPattern text)).1 = some R ∧
      ∀ path, matchString R path = codeMatch ((tokens text).map ofSpecTokQ) path := by
  obtain ⟨R, hR, hm, _⟩ := import_glob_regex_exact (parseGlobPattern text)
  refine ⟨R, hR, fun path => ?_⟩
  rw [hm, entry_toks text.length text (Nat.le_refl _) h92 true (Or.inr rfl)]
  rfl

/-- `entry_glob_is_glob_partial`: without `\` and `?`, and when the pattern does not end with a `**/` globstar, a path
matches the regexp iff it matches the glob per Spec/Glob -/
theorem entry_glob_is_glob_partial (text : List Nat) (h92 : 92 ∉ text) (h63 : 63 ∉ text)
    (hl : (tokens text).getLast? ≠ some .dirs) :
    ∃ R, parse (globRegexText (parseGlobPattern text)).1 = some R ∧
      ∀ path, matchString R path = globMatch text path := by
  obtain ⟨R, hR, hm⟩ := entry_glob_regex_exact text h92
  refine ⟨R, hR, fun path => ?_⟩
  rw [hm]
  have hone := one_not_mem_lex text h63 true 0
  have hmap : (tokens text).map ofSpecTokQ = (tokens text).map ofSpecTok := by
    apply List.map_congr_left
    intro t ht
    cases t with
    | one => exact absurd ht hone
    | _ => rfl
  rw [hmap]
  exact codeMatch_eq_spec (tokens text) hone ((lastNotDirs_iff _).mpr hl) (deepLast_lex text true 0) path

/-- non-vacuity: `./src/**/*.ts` -/
example : 92 ∉ [46, 47, 115, 114, 99, 47, 42, 42, 47, 42, 46, 116, 115] ∧ 63 ∉ [46, 47, 115, 114, 99, 47, 42, 42, 47, 42, 46, 116, 115] ∧
    (tokens [46, 47, 115, 114, 99, 47, 42, 42, 47, 42, 46, 116, 115]).getLast? ≠ some .dirs := by decide

end EsbuildModel.C04GlobImport
