import EsbuildModel.Lemmas.LineOffsetTop
/-!
# C07 — the original position written into a source map is the true position of the byte offset

`GenerateLineOffsetTables` + the lookup of `ChunkBuilder.AddSourceMapping` (model: `LineOffset.tablesOf`,
`LineOffset.lookup`) against `Spec/TextPosition.lean` (UTF-8 decoding with one U+FFFD per ill-formed byte,
ECMA-262 line terminator sequences, UTF-16 columns), and the generated position kept by
`LineColumnOffset.AdvanceString/AdvanceBytes` and `updateGeneratedLineAndColumn` (`LineOffset.advance`, `update`).
All statements are for every byte string and every offset; nothing is bounded.
-/
namespace EsbuildModel.C07LineOffset
open EsbuildModel.LineOffset EsbuildModel.Spec.TextPosition

/-- Go's `for i, c := range contents` (as the model's loops consume it) yields exactly the characters of the
specified decoding: scalar values whose Table 3-6 encoding was read, U+FFFD of width 1 for every other byte. -/
theorem range_decoding_is_specified (bs : List Nat) :
    (goRange bs).map (fun it => (⟨it.c, it.w⟩ : Ch)) = decode bs := by
  have := congrArg (List.map Prod.fst) (goRange_eq_decode bs)
  rw [List.map_map] at this
  have h2 : ∀ chs : List Ch, (crlfs chs).map Prod.fst = chs := by
    intro chs; induction chs with
    | nil => rfl
    | cons c r ih => rw [crlfs_cons, List.map_cons, ih]
  rw [h2] at this
  exact this

/-- (1) `lookup_is_true_position`: at every character boundary `i` of the text (including `i = len`) the line and
column `AddSourceMapping` computes from the tables are the specified line and UTF-16 column of byte offset `i`.
The lookup does not panic there. -/
theorem lookup_is_true_position (bs : List Nat) (i : Nat) (p : Pos) (h : position bs i = some p) :
    lookup (tablesOf bs) (i : Int) = some (p.line, (p.col : Int)) := by
  obtain ⟨k, hk, rfl, rfl⟩ := position_some bs i p h
  rw [lookup_nat, lookupN_boundary bs k hk]
  rfl

/-- non-vacuity: "é😀\r\n x" + an ill-formed byte: offset 8 (between CR and LF) is line 0 column 5,
offset 12 (behind LS) is line 2 column 0, offset 14 = len is line 2 column 2 -/
example : position [0xC3, 0xA9, 0xF0, 0x9F, 0x98, 0x80, 0x61, 0x0D, 0x0A, 0xE2, 0x80, 0xA8, 0x78, 0xFF] 8 = some ⟨0, 5⟩
    ∧ position [0xC3, 0xA9, 0xF0, 0x9F, 0x98, 0x80, 0x61, 0x0D, 0x0A, 0xE2, 0x80, 0xA8, 0x78, 0xFF] 12 = some ⟨2, 0⟩
    ∧ position [0xC3, 0xA9, 0xF0, 0x9F, 0x98, 0x80, 0x61, 0x0D, 0x0A, 0xE2, 0x80, 0xA8, 0x78, 0xFF] 14 = some ⟨2, 2⟩ := by
  decide
example := lookup_is_true_position [0xC3, 0xA9, 0xF0, 0x9F, 0x98, 0x80, 0x61, 0x0D, 0x0A, 0xE2, 0x80, 0xA8, 0x78, 0xFF] 8
  ⟨0, 5⟩ (by decide)

/-- (1, continued) strictly inside character number `k` (a multi-byte character: offsets between its first byte
and its end) the lookup yields the specified position of the END of that character — except inside the
line terminators U+2028 / U+2029, where `columnsForNonASCII[...]` is indexed out of range (Go panic).
(esbuild only passes locations of token starts, which are boundaries.) -/
theorem lookup_inside_character (bs : List Nat) (k : Nat) (hk : k < (decode bs).length) (i : Nat)
    (h1 : offsetOfIndex (decode bs) k < i) (h2 : i < offsetOfIndex (decode bs) (k + 1)) :
    lookup (tablesOf bs) (i : Int) =
      if (decode bs)[k].cp = 0x2028 ∨ (decode bs)[k].cp = 0x2029 then none
      else (position bs (offsetOfIndex (decode bs) (k + 1))).map (fun p => (p.line, (p.col : Int))) := by
  rw [offsetOfIndex_eq] at h1
  rw [offsetOfIndex_eq, bytes_take_succ _ k hk] at h2
  obtain ⟨d, rfl⟩ : ∃ d, i = bytes ((decode bs).take k) + d := ⟨i - bytes ((decode bs).take k), by omega⟩
  rw [lookup_nat, lookupN_interior bs k hk d (by omega) (by omega), offsetOfIndex_eq, position_boundary bs (k + 1) hk]
  split <;> rfl

/-- non-vacuity: offset 3 is inside 😀 (character 1 of "é😀"), offset 1 inside LS (character 1 of "a LS") -/
example : offsetOfIndex (decode [0xC3, 0xA9, 0xF0, 0x9F, 0x98, 0x80]) 1 < 3 ∧
    3 < offsetOfIndex (decode [0xC3, 0xA9, 0xF0, 0x9F, 0x98, 0x80]) 2 := by decide
example : offsetOfIndex (decode [0x61, 0xE2, 0x80, 0xA8]) 1 < 2 ∧ 2 < offsetOfIndex (decode [0x61, 0xE2, 0x80, 0xA8]) 2
    ∧ (decode [0x61, 0xE2, 0x80, 0xA8])[1]?.map (·.cp) = some 0x2028 := by decide

/-- the two cases are exhaustive: every offset `0 ≤ i ≤ len` is a character boundary or strictly inside exactly
one character -/
theorem offset_boundary_or_inside (bs : List Nat) (i : Nat) (hi : i ≤ bs.length) :
    (position bs i).isSome ∨
    ∃ k, k < (decode bs).length ∧ offsetOfIndex (decode bs) k < i ∧ i < offsetOfIndex (decode bs) (k + 1) := by
  rcases offset_cases (decode bs) (decode_valid bs) i (by rw [decode_bytes]; exact hi)
    with ⟨k, hk, e⟩ | ⟨k, hk, d, hd, hdw, e⟩
  · left; rw [← e, position_boundary bs k hk]; rfl
  · right
    refine ⟨k, hk, ?_, ?_⟩
    · rw [offsetOfIndex_eq]; omega
    · rw [offsetOfIndex_eq, bytes_take_succ _ k hk]; omega

example := offset_boundary_or_inside [0xC3, 0xA9, 0x0A] 1 (by decide)

/-- (2) `tables_wellformed`: the tables start with offset 0, are strictly sorted by start offset, start inside
the text, there is one per line (number of line terminator sequences + 1), and for every location `loc ≥ 0` the
binary search ends on `originalLine = r + 1` with `r` a valid index: the last table that starts at or before
`loc`.  No index of the search or of `lineOffsetTables[originalLine]` is out of range. -/
theorem tables_wellformed (bs : List Nat) :
    (tablesOf bs)[0]?.map (·.start) = some 0 ∧
    Sorted (tablesOf bs) ∧
    (∀ t ∈ tablesOf bs, t.start ≤ bs.length) ∧
    (tablesOf bs).length = (endPosition bs).line + 1 ∧
    ∀ loc : Int, 0 ≤ loc → ∃ r, ∃ hr : r < (tablesOf bs).length,
      search (tablesOf bs) loc 0 (tablesOf bs).length = some (r + 1) ∧
      ((tablesOf bs)[r].start : Int) ≤ loc ∧
      ∀ j (hj : j < (tablesOf bs).length), r < j → loc < ((tablesOf bs)[j].start : Int) := by
  obtain ⟨hl, hs⟩ := tables_lines bs
  obtain ⟨T, ts', e, hT⟩ := hl.head_start
  refine ⟨by rw [e]; simp [hT], hs, ?_, ?_, ?_⟩
  · intro t ht
    have := hl.all_le t ht
    rw [decode_bytes] at this; omega
  · rw [hl.length, lineEnds_eq]; rfl
  · intro loc hloc
    obtain ⟨r, hr, hlen, h1, h2⟩ := search_spec _ hs loc (tablesOf bs).length 0 (by omega)
      (fun j _ hj => absurd hj (by omega)) (fun j h hj => absurd hj (by omega))
    have hpos : 0 < (tablesOf bs).length := by rw [e]; simp
    have h0 : ((tablesOf bs)[0].start : Int) ≤ loc := by
      have : (tablesOf bs)[0].start = 0 := by simp [e, hT]
      omega
    cases r with
    | zero => have := h2 0 hpos (Nat.le_refl _); omega
    | succ r =>
      refine ⟨r, by omega, hr, h1 r (by omega) (by omega), ?_⟩
      intro j hj hrj
      exact h2 j hj (by omega)

/-- a negative location (never produced by esbuild) makes `lineOffsetTables[-1]` panic; a negative
`approximateLineCount` makes `make` panic; otherwise `GenerateLineOffsetTables` returns `tablesOf` -/
theorem panics_only_on_negative_inputs (bs : List Nat) (loc approx : Int) :
    (loc < 0 → lookup (tablesOf bs) loc = none) ∧
    (generate bs approx = if approx < 0 then none else some (tablesOf bs)) := by
  refine ⟨fun h => ?_, rfl⟩
  unfold lookup
  rw [search_negative _ (tables_lines bs).2 loc h]

/-- (4) monotonicity: for offsets `i ≤ j ≤ len` whose lookups succeed, the later offset never maps to an earlier
(line, column) (lexicographic order). -/
theorem lookup_monotone (bs : List Nat) (i j : Nat) (hij : i ≤ j) (hj : j ≤ bs.length) (a b : Nat × Int)
    (ha : lookup (tablesOf bs) (i : Int) = some a) (hb : lookup (tablesOf bs) (j : Int) = some b) :
    a.1 < b.1 ∨ (a.1 = b.1 ∧ a.2 ≤ b.2) := by
  rw [lookup_nat] at ha hb
  cases hla : lookupN (tablesOf bs) i with
  | none => rw [hla] at ha; simp at ha
  | some a' =>
    cases hlb : lookupN (tablesOf bs) j with
    | none => rw [hlb] at hb; simp at hb
    | some b' =>
      rw [hla] at ha; rw [hlb] at hb
      simp only [Option.map_some, Option.some.injEq] at ha hb
      subst ha; subst hb
      obtain ⟨m, hm, rfl, hm1, hm2⟩ := lookupN_some_index bs i (by omega) a' hla
      obtain ⟨n, hn, rfl, hn1, hn2⟩ := lookupN_some_index bs j hj b' hlb
      have hmn : m ≤ n := by
        apply Classical.byContradiction
        intro hlt
        have h1 := bytes_take_mono (decode bs) n (m - 1) (by omega)
        rcases hm2 with h0 | h0 <;> omega
      have := pos_mono (decode bs) m n hmn
      unfold Pos.le at this
      simp only
      omega

example := lookup_monotone [0xC3, 0xA9, 0x0A, 0x78] 1 3 (by decide) (by decide)

/-! ### (3) the generated position -/

/-- (3) `generated_position`: `offset.AdvanceString(text)` / `offset.AdvanceBytes(text)` move `offset` to the
specified position of the end of `text` when `text` is placed at `offset`: lines add; the column adds on the
first line only (this is also what `LineColumnOffset.Add` does with a relative offset). -/
theorem generated_position (o : LC) (text : List Nat) :
    (advance o text).toPos = Pos.offsetBy o.toPos (endPosition text) := advance_spec o text

/-- `updateGeneratedLineAndColumn(output)` does not panic iff the output did not shrink below the part already
scanned; then `prevState.GeneratedLine` / `generatedColumn` move to the specified end position of the new part
`output[lastGeneratedUpdate:]` placed at the old position, and `lastGeneratedUpdate = len(output)`. -/
theorem update_generated_position (b : Builder) (output : List Nat) :
    (update b output = none ↔ output.length < b.lastGeneratedUpdate) ∧
    ∀ b', update b output = some b' →
      b'.gen.toPos = Pos.offsetBy b.gen.toPos (endPosition (output.drop b.lastGeneratedUpdate)) ∧
      b'.gen = advance b.gen (output.drop b.lastGeneratedUpdate) ∧
      b'.lastGeneratedUpdate = output.length := by
  by_cases h : b.lastGeneratedUpdate > output.length
  · have e : update b output = none := by unfold update; rw [if_pos h]
    rw [e]
    exact ⟨⟨fun _ => h, fun _ => rfl⟩, fun _ hb => by simp at hb⟩
  · have e : update b output = some { b with
        gen := advance b.gen (output.drop b.lastGeneratedUpdate), lastGeneratedUpdate := output.length,
        mapGenCol := if (advance b.gen (output.drop b.lastGeneratedUpdate)).lines ≠ b.gen.lines then 0
                     else b.mapGenCol } := by
      unfold update; rw [if_neg h]; simp only [updFold_eq_advance]
    rw [e]
    refine ⟨⟨fun hh => by simp at hh, fun hh => absurd hh (by omega)⟩, ?_⟩
    intro b' hb
    have := Option.some.inj hb
    subst this
    exact ⟨advance_spec _ _, rfl, rfl⟩

example : update {} [0x61, 0x0A, 0xF0, 0x9F, 0x98, 0x80] ≠ none := by decide

/-- the position after TWO calls (`AdvanceString(s1); AdvanceString(s2)`, or two mappings added while the printer's
output grew from `… s1` to `… s1 s2`) is the position after one call on `s1 s2`, PROVIDED the cut is a character
boundary of `s1 s2` and does not separate a CR (last character of `s1`) from an LF (first byte of `s2`). -/
theorem generated_position_two_calls (o : LC) (s1 s2 : List Nat)
    (hb : ∃ k, k ≤ (decode (s1 ++ s2)).length ∧ offsetOfIndex (decode (s1 ++ s2)) k = s1.length)
    (hcr : ¬ ((decode s1).getLast?.map (·.cp) = some 13 ∧ s2.head? = some 10)) :
    advance (advance o s1) s2 = advance o (s1 ++ s2) := advance_append o s1 s2 hb hcr

/-- non-vacuity: "é\r" | "x" -/
example : (∃ k, k ≤ (decode ([0xC3, 0xA9, 0x0D] ++ [0x78])).length ∧
      offsetOfIndex (decode ([0xC3, 0xA9, 0x0D] ++ [0x78])) k = [0xC3, 0xA9, 0x0D].length) ∧
    ¬ ((decode [0xC3, 0xA9, 0x0D]).getLast?.map (·.cp) = some 13 ∧ [0x78].head? = some 10) :=
  ⟨⟨2, by decide⟩, by decide⟩

/-- both hypotheses are needed — the code does NOT handle a CR LF pair split across two calls (the CR is counted
as a line break because nothing follows it yet, then the LF is counted again), nor a multi-byte character split
across two calls (each fragment byte counts as one U+FFFD column): -/
example : advance (advance ⟨0, 0⟩ [0x61, 0x0D]) [0x0A, 0x62] = ⟨2, 1⟩ ∧
    advance ⟨0, 0⟩ [0x61, 0x0D, 0x0A, 0x62] = ⟨1, 1⟩ := by decide
example : advance (advance ⟨0, 0⟩ [0xF0, 0x9F]) [0x98, 0x80] = ⟨0, 4⟩ ∧
    advance ⟨0, 0⟩ [0xF0, 0x9F, 0x98, 0x80] = ⟨0, 2⟩ := by decide

/-- the same for the chunk builder: scanning the output in two steps (`out1`, then `out1 ++ more`) leaves the same
generated line and column as scanning `out1 ++ more` at once, under the same two provisos on the cut. -/
theorem update_two_calls (b b1 b2 b' : Builder) (out1 more : List Nat)
    (h1 : update b out1 = some b1) (h2 : update b1 (out1 ++ more) = some b2) (h : update b (out1 ++ more) = some b')
    (hb : ∃ k, k ≤ (decode (out1.drop b.lastGeneratedUpdate ++ more)).length ∧
      offsetOfIndex (decode (out1.drop b.lastGeneratedUpdate ++ more)) k = (out1.drop b.lastGeneratedUpdate).length)
    (hcr : ¬ ((decode (out1.drop b.lastGeneratedUpdate)).getLast?.map (·.cp) = some 13 ∧ more.head? = some 10)) :
    b2.gen = b'.gen ∧ b2.lastGeneratedUpdate = b'.lastGeneratedUpdate := by
  have hle : b.lastGeneratedUpdate ≤ out1.length := by
    have := (update_generated_position b out1).1
    apply Classical.byContradiction
    intro hn
    rw [this.mpr (by omega)] at h1
    simp at h1
  obtain ⟨_, g1, l1⟩ := (update_generated_position b out1).2 b1 h1
  obtain ⟨_, g2, l2⟩ := (update_generated_position b1 (out1 ++ more)).2 b2 h2
  obtain ⟨_, g', l'⟩ := (update_generated_position b (out1 ++ more)).2 b' h
  refine ⟨?_, by rw [l2, l']⟩
  rw [g2, g', l1, g1, List.drop_left, List.drop_append_of_le_length hle]
  exact advance_append _ _ _ hb hcr

/-! ### both together, and a check of the specification's decoder -/

/-- what `AddSourceMapping(loc, name, output)` records when the call is not skipped as a duplicate, `loc` is a
character boundary of the source and the output did not shrink: the mapping pairs the TRUE original position of
`loc` with the TRUE generated position of the end of `output`. -/
theorem addSourceMapping_records_true_positions (bs : List Nat) (b : Builder) (i : Nat) (p : Pos) (name : Nat)
    (output : List Nat)
    (hnd : ¬ ((i : Int) = b.prevLoc ∧ (b.prevGeneratedLen = output.length ∨ b.prevName = name)))
    (hpos : position bs i = some p) (hlen : b.lastGeneratedUpdate ≤ output.length) :
    ∃ b', addSourceMapping (tablesOf bs) b (i : Int) name output = some b' ∧
      b'.mapLine = (p.line : Int) ∧ b'.mapCol = (p.col : Int) ∧ b'.mapGenCol = b'.gen.cols ∧
      b'.gen.toPos = Pos.offsetBy b.gen.toPos (endPosition (output.drop b.lastGeneratedUpdate)) := by
  unfold addSourceMapping
  rw [if_neg hnd]
  simp only [lookup_is_true_position bs i p hpos]
  cases hu : update { b with prevLoc := (i : Int), prevGeneratedLen := output.length, prevName := name } output with
  | none =>
    have := (update_generated_position _ output).1.mp hu
    simp only at this
    omega
  | some b1 =>
    obtain ⟨h1, _, _⟩ := (update_generated_position _ output).2 b1 hu
    exact ⟨_, rfl, rfl, rfl, rfl, h1⟩

example : ¬ (((3 : Nat) : Int) = ({} : Builder).prevLoc ∧
    (({} : Builder).prevGeneratedLen = [0x61].length ∨ ({} : Builder).prevName = 0)) := by decide

/-- the executable decoder of `Spec/TextPosition.lean` does what its description says: when the encoding of a
scalar value is a prefix of the input, that value with the length of its encoding is the first character;
when no scalar value's encoding is a prefix, the first character is U+FFFD for one byte. -/
theorem spec_decoder_characterised (b : Nat) (rest : List Nat) :
    (∀ cp tail, Spec.Unicode.IsScalar cp → b :: rest = Spec.Unicode.utf8 cp ++ tail →
      firstChar (b :: rest) = ⟨cp, (Spec.Unicode.utf8 cp).length⟩) ∧
    ((¬ ∃ cp tail, Spec.Unicode.IsScalar cp ∧ b :: rest = Spec.Unicode.utf8 cp ++ tail) →
      firstChar (b :: rest) = ⟨0xFFFD, 1⟩) := by
  constructor
  · intro cp tail hs e
    rw [e]; exact firstChar_utf8 cp hs tail
  · intro hno
    rcases firstChar_cases (b :: rest) with ⟨h, _⟩ | ⟨k, _, _, _, hw, _⟩
    · exact h
    · exfalso
      apply hno
      refine ⟨_, (b :: rest).drop k, hw.1, ?_⟩
      rw [hw.2, List.take_append_drop]

end EsbuildModel.C07LineOffset
