/-
C06 — TypeScript namespaces and enums: what is proved about the model of esbuild's compilation
(Impl/TsNs.lean) against the TypeScript rules (Spec/TsNamespaces.lean) and the JavaScript semantics of the
emitted subset (Spec/TsNsJs.lean).

Proved here
  * uninstantiated_emit_nothing (+ module-level forms): a namespace TypeScript does not instantiate produces no
    statement and no binding, however it is spelled (the hypothesis "no dotted form inside", which the first
    version of the proof forced, exposed a defect of the real parser: `namespace a.b { type T = … }` produced code
    and a binding; it is repaired in the parser and gone from the theorems, see `dotted_form_is_dropped`);
  * declared_once_partial: the closure generator declares the binding of a merged name iff it has not been
    declared yet, remembers it, never declares it a second time, and uses `var` at module level, `let` in a
    namespace when the target has `let`, `var` otherwise;
  * minified_joins_preserve_semantics: the joins of mangleStmts (`a; b;` → `a, b;`, `a; return b` → `return a, b`)
    do not change the completion, the final heap/bindings or the probe trace of any statement list;
  * closure_argument_spellings_agree: `N ||= {}` and `N || (N = {})` evaluate alike.

-- OPEN reference_resolution_matches_ts: for every program P accepted by `compile`, every identifier x in a block
   π is compiled (visitId) to `JExpr.var (.var ρ x)` / `.dot (.var (.inst ρ)) x` / `.var (.inst ρ)` / `.var (.global x)`
   / an inlined constant equal to `Spec.constTable P`'s value exactly when `Spec.resolve P (blocks P) π x` is
   `.local_ ρ x` / `.member ρ x` / `.inst ρ` / `.global x`.  Hypotheses already known to be necessary (each is a
   reproduced difference of the real compiler, see the work-package report): no bare reference to a name that is
   both the block's own namespace/enum name and an export of ANOTHER block of the merged symbol; all blocks of a
   name in one member list agree on `export`; exported names of a merged symbol are distinct.  Missing: the
   invariant that after `parseL` the map allocated for a block holds exactly `Spec.exportsOf` of its entity.
-- OPEN namespace_object_equal: `runJs fuel (compile o P).stmts` and `Spec.run o.letConst fuel P` end with the same
   outcome, heap, bindings and trace.  Additional necessary hypotheses found: no enum block after a namespace
   block of the same name inside a namespace when the target has `let` (TDZ); no call in an initialiser of a
   module-level enum (the binding is assigned only after the closure returns); the run does not end in
   `Err.early`; an enum initialiser does not refer to a member of an enum declared inside a sibling namespace
   statement (enums of a statement list are visited first, so the member is not yet known: no inlining, no
   auto-increment, a reverse mapping for a string).
-/
import EsbuildModel.Lemmas.TsNs
namespace EsbuildModel.C06TsNs
open EsbuildModel.TsNs EsbuildModel.TsNs.Impl EsbuildModel.TsNs.Lemmas

/-! ### 4. namespaces without run-time content -/

/-- A namespace nested in another block that TypeScript does not instantiate (only types and such namespaces
    inside, in either spelling) yields no statement, declares no symbol (`mem` unchanged) and does not set the
    "export declare" flag. -/
theorem uninstantiated_emit_nothing (o : Opts) (π : Path) (pmap : Option MapId) (i : Nat) (mem : List SMember)
    (maps : Maps) (exported dotted : Bool) (name : String) (body : List Member)
    (hπ : π ≠ []) (hi : Spec.instantiatedL body = false) :
    ∃ maps', parseM o π pmap i mem maps (.ns exported dotted name body) = .ok ([], mem, maps', false) :=
  parseM_uninstantiated o π pmap i mem maps hπ (.ns exported dotted name body)
    (by simpa [Spec.instantiatedM] using hi)

/-- the same at module level -/
theorem uninstantiated_emit_nothing_module (o : Opts) (i : Nat) (mem : List SMember) (maps : Maps)
    (dotted : Bool) (name : String) (body : List Member)
    (hi : Spec.instantiatedL body = false) :
    ∃ maps', parseM o [] none i mem maps (.ns false dotted name body) = .ok ([], mem, maps', false) := by
  obtain ⟨maps', hp⟩ := parseL_uninstantiated o [i] (some (getOrCreate mem none maps name false [i]).1) 0 []
    (getOrCreate mem none maps name false [i]).2 (by simp) body hi
  refine ⟨registerExports maps' (getOrCreate mem none maps name false [i]).1 [], ?_⟩
  simp only [parseM]
  simp only [Bool.false_eq_true, false_and, if_false]
  rw [hp]
  simp

/-- a whole file of type-only declarations and uninstantiated namespaces compiles to nothing -/
def typeOnlyFile : List Member → Bool
  | [] => true
  | .typeOnly _ :: rest => typeOnlyFile rest
  | .ns false _ _ body :: rest => !Spec.instantiatedL body && typeOnlyFile rest
  | _ => false

theorem parseL_typeOnlyFile (o : Opts) : ∀ (P : List Member) (i : Nat) (mem : List SMember) (maps : Maps),
    typeOnlyFile P = true → ∃ maps', parseL o [] none i mem maps P = .ok ([], mem, maps', false)
  | [], _, _, maps, _ => ⟨maps, by simp [parseL]⟩
  | .typeOnly _ :: rest, i, mem, maps, h => by
    obtain ⟨maps', h2⟩ := parseL_typeOnlyFile o rest (i + 1) mem maps (by simpa [typeOnlyFile] using h)
    exact ⟨maps', by simp [parseL, parseM, h2]⟩
  | .ns false dotted name body :: rest, i, mem, maps, h => by
    simp [typeOnlyFile] at h
    obtain ⟨maps1, h1⟩ := uninstantiated_emit_nothing_module o i mem maps dotted name body h.1
    obtain ⟨maps2, h2⟩ := parseL_typeOnlyFile o rest (i + 1) mem maps1 h.2
    exact ⟨maps2, by simp [parseL, h1, h2]⟩
  | .ns true _ _ _ :: _, _, _, _, h => by simp [typeOnlyFile] at h
  | .local_ .. :: _, _, _, _, h => by simp [typeOnlyFile] at h
  | .func .. :: _, _, _, _, h => by simp [typeOnlyFile] at h
  | .enum_ .. :: _, _, _, _, h => by simp [typeOnlyFile] at h
  | .expr _ :: _, _, _, _, h => by simp [typeOnlyFile] at h
  | .importEq .. :: _, _, _, _, h => by simp [typeOnlyFile] at h
  | .declareFn :: _, _, _, _, h => by simp [typeOnlyFile] at h

theorem uninstantiated_file_emits_nothing (o : Opts) (P : Program) (h : typeOnlyFile P = true) :
    ∃ out, compile o P = .ok out ∧ out.stmts = [] ∧ out.argNames = [] := by
  obtain ⟨maps', hp⟩ := parseL_typeOnlyFile o P 0 [] [] h
  refine ⟨{ stmts := [], argNames := [] }, ?_, rfl, rfl⟩
  unfold compile
  rw [hp]
  cases o with
  | mk ms arrow letConst logAssign =>
    cases ms <;> simp [visitL, visitEnums, visitRest, mangle, argNamesL]

/-- non-vacuity: `namespace N { type T = number; namespace M { interface I {} } }` inside a block -/
example : ∃ maps', parseM ⟨false, true, true, true⟩ [0] (some [0]) 1 [] []
    (.ns true false "N" [.typeOnly true, .ns false false "M" [.typeOnly false]]) = .ok ([], [], maps', false) :=
  uninstantiated_emit_nothing _ _ _ _ _ _ _ _ _ _ (by simp) (by decide)

example : typeOnlyFile [.typeOnly false, .ns false false "N" [.typeOnly true]] = true := by decide

/-- `namespace A.B { export type T = number }` (TypeScript: not instantiated) is dropped like the same thing
    written with nested braces: no statement, no symbol `A`.  (Before the repair of the dotted branch of
    parseTypeScriptNamespaceStmt this was compiled to `var A; ((A2) => {})(A || (A = {}))`.) -/
theorem dotted_form_is_dropped (o : Opts) :
    Spec.instantiatedM (.ns false false "A" [.ns true true "B" [.typeOnly true]]) = false ∧
    ∃ maps, parseM o [] none 0 [] [] (.ns false false "A" [.ns true true "B" [.typeOnly true]]) = .ok ([], [], maps, false) :=
  ⟨by decide, uninstantiated_emit_nothing_module o 0 [] [] false "A" _ (by decide)⟩

/-- and a file that consists of it compiles to nothing -/
example (o : Opts) : ∃ out, compile o [.ns false false "A" [.ns true true "B" [.typeOnly true]], .typeOnly false] = .ok out ∧ out.stmts = [] ∧ out.argNames = [] :=
  uninstantiated_file_emits_nothing o _ (by decide)

/-! ### 3. the binding of a merged name is declared once -/

def declares (l : Loc) : JStmt → Bool
  | .local_ _ _ l' false _ => l' = l
  | _ => false

/-- generateClosureForTypeScriptNamespaceOrEnum: the declaration is emitted iff the name is a namespace/enum
    symbol that has not been declared; afterwards it counts as declared; the kind fits the place and target -/
theorem declared_once_partial (o : Opts) (st : VSt) (atModule : Bool) (nameLoc : Loc) (name : String)
    (exported : Bool) (encl : Option Loc) (argLoc : Loc) (inside : List JStmt) :
    let r := genClosureNs o st atModule nameLoc name exported encl argLoc inside true
    (st.emitted.contains nameLoc = false →
        r.1.head? = some (.local_ (if atModule then .var else if o.letConst then .let_ else .var) false nameLoc false .undef)
        ∧ r.1.length = 2) ∧
    (st.emitted.contains nameLoc = true → r.1.length = 1 ∧ (r.1.any (declares nameLoc)) = false) ∧
    r.2.emitted.contains nameLoc = true := by
  intro r
  refine ⟨?_, ?_, ?_⟩
  · intro h
    simp only [r, genClosureNs, h]
    cases atModule <;> cases hl : o.letConst <;> simp
  · intro h
    simp only [r, genClosureNs, h]
    simp [declares]
  · by_cases h : st.emitted.contains nameLoc = true
    · simp only [r, genClosureNs, h]; simpa using h
    · have h' : st.emitted.contains nameLoc = false := by simpa using h
      simp only [r, genClosureNs, h']
      simp

/-- a second block of the same name right after the first one gets no declaration -/
theorem second_block_reuses_binding (o : Opts) (st : VSt) (atModule : Bool) (nameLoc : Loc) (name : String)
    (exported : Bool) (encl : Option Loc) (a1 a2 : Loc) (in1 in2 : List JStmt) :
    let r1 := genClosureNs o st atModule nameLoc name exported encl a1 in1 true
    let r2 := genClosureNs o r1.2 atModule nameLoc name exported encl a2 in2 true
    (r2.1.any (declares nameLoc)) = false := by
  intro r1 r2
  have h := (declared_once_partial o st atModule nameLoc name exported encl a1 in1).2.2
  exact ((declared_once_partial o r1.2 atModule nameLoc name exported encl a2 in2).2.1 h).2

/-! ### 2 (parts). minify-syntax spellings are semantically the plain ones -/

/-- the joins of mangleStmts keep completion, heap, bindings and probe trace of every statement list, from
    every state, whatever the declared functions do -/
theorem minified_joins_preserve_semantics (call : Path → String → M Value) (ss : List JStmt) (s : State) :
    execJs call (mangle [] ss) s = execJs call ss s := by
  simpa using mangle_exec call ss [] s

/-- `N ||= {}` (minify, logical assignment available) and `N || (N = {})` -/
theorem closure_argument_spellings_agree (call : Path → String → M Value) (l : Loc) (s : State) :
    evalJ call (closureArg ⟨true, true, true, true⟩ l "N" false none) s =
      evalJ call (closureArg ⟨false, true, true, true⟩ l "N" false none) s := by
  simp only [closureArg]
  exact orAssign_var_eq call l .emptyObj s

/-- non-vacuity of the join theorem: three expression statements and a return are really joined -/
example : (mangle [] [.expr (.probe "a" (.num 1)), .expr (.probe "b" (.num 2)), .ret (.var (.inst [0]))]).length = 1 := by
  decide

end EsbuildModel.C06TsNs
