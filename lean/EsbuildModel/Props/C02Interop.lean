/-
C02 (bundling preserves module semantics) — the run-time interop helpers.  Model: Impl/Interop.lean (the JavaScript
text of the helpers in internal/runtime/runtime.go, tied to the text by kernel `interop` which runs it in Node).
Spec: Spec/ModuleInterop.lean.
-/
import EsbuildModel.Spec.ModuleInterop
import EsbuildModel.Lemmas.Interop
import EsbuildModel.Lemmas.InteropInit
namespace EsbuildModel.C02Interop
open EsbuildModel.Interop EsbuildModel.ModuleInterop
open EsbuildModel.Lower3 (Key alGet)

-- ---------------------------------------------------------------- (5) lazy initialisation

/-- `__esm(fn)` / `__esmMin(fn)`: for ANY sequence of calls from outside, each with ANY tree of re-entrant calls
from inside the body, the body is started at most once -/
theorem esm_init_once (min : Bool) (fn : Val) (bs : List (Body Empty)) (s : St) :
    callCount (esmCalls min bs ⟨fn, .undef, none⟩ s).2.2.tr ≤ callCount s.tr + 1 := by
  obtain ⟨rs, c, s', e, h, _⟩ := esmCalls_once min bs ⟨fn, .undef, none⟩ s
  rw [e]; exact h

/-- the evaluation-error cache (both variants): a call that ends with an exception leaves a wrapper that throws
the same exception on every later call, without running anything and without changing its state -/
theorem esm_error_cached (min : Bool) (b : Body Empty) (cell cell' : EsmCell) (s s' : St) (x : Exc)
    (h : esmCall min b cell s = (.err x, cell', s')) (hx : x ≠ .illFormed) :
    ∀ b2 s2, esmCall min b2 cell' s2 = (.err x, cell', s2) :=
  fun b2 s2 => esmCall_after_error min b2 cell' s2 x (esmCall_error_cached min b cell cell' s s' x h hx)

/-- a call that returns leaves a wrapper that returns the same value for ever, running nothing -/
theorem esm_result_cached (min : Bool) (b : Body Empty) (cell cell' : EsmCell) (s s' : St) (v : Val)
    (h : esmCall min b cell s = (.ok v, cell', s')) : ∀ b2 s2, esmCall min b2 cell' s2 = (.ok v, cell', s2) :=
  esmCall_result_cached min b cell cell' s s' v h

/-- `__commonJS(cb)` / `__commonJSMin(cb)` during a cycle: while the module object exists (`mod` is set), a call
does not run the body again; it returns the CURRENT `module.exports` of that same module object (partial exports) -/
theorem commonJS_reentry_returns_current_exports (min : Bool) (cb : Val)
    (rb : Val → Val → CjsCell → St → Res Unit × CjsCell × St) (m : Nat) (s : St) (v : Val)
    (h : readExports (.obj m) s = .ok v) :
    cjsEnter min cb rb ⟨.obj m⟩ s = (.ok v, ⟨.obj m⟩, s) := by
  unfold cjsEnter; simp [truthy, h]

/-- a body that throws resets the wrapper (`mod = 0`, so the next call runs the body again: unlike `__esm` nothing
is cached; Node deletes a failed module from `require.cache` in the same way) -/
theorem commonJS_throw_resets (min : Bool) (cb : Val) (f : Nat) (s : St) (v : Val)
    (hc : callee min s.heap cb = .ok (some f)) (mod0 : Val) (h0 : truthy mod0 = false) :
    (cjsCall min cb (.done (.throw v)) ⟨mod0⟩ s).1 = .err (.host v) ∧
    (cjsCall min cb (.done (.throw v)) ⟨mod0⟩ s).2.1 = ⟨.num 0⟩ ∧
    callCount (cjsCall min cb (.done (.throw v)) ⟨mod0⟩ s).2.2.tr = callCount s.tr + 1 := by
  have e1 : cjsCall min cb (.done (.throw v)) ⟨mod0⟩ s =
      (.err (.host v), ⟨.num 0⟩, ⟨s.heap ++ [plain (.obj 0),
        ⟨.obj 0, true, none, [(.str "exports", ⟨.data (.obj s.heap.length) true, true, true⟩)]⟩],
        s.tr ++ [.call f .undef [.obj s.heap.length, .obj (s.heap.length + 1)]]⟩) := by
    unfold cjsCall cjsEnter; simp [h0, hc, cjsRun]
  refine ⟨by rw [e1], by rw [e1], ?_⟩
  rw [e1, callCount_append]; simp [callCount]

-- ---------------------------------------------------------------- (4) __copyProps

/-- `__copyProps(to, from, except)` never overwrites: every own property that any object has before the call —
in particular every own property of `to` — is exactly the same afterwards, also when the call throws; and no
event happens -/
theorem copyProps_never_overwrites_existing (a : Nat) (from_ ex : Val) (s s' : St) (r : Res Val)
    (ha : a < s.heap.length) (h : copyProps (.obj a) from_ ex s = (r, s')) :
    s'.tr = s.tr ∧ ∀ b k p, own s.heap b k = some p → own s'.heap b k = some p := by
  unfold copyProps at h
  cases from_ with
  | obj f =>
    simp only [bind, getHeap] at h
    cases hf : s.heap[f]? with
    | none => simp only [hf] at h; cases h; exact ⟨rfl, fun _ _ _ e => e⟩
    | some fo =>
      simp only [hf] at h
      cases hl : copyLoop (.obj a) (.obj f) ex fo.strKeys s with
      | mk r0 s1 =>
        rw [hl] at h
        obtain ⟨hp, htr, _, _⟩ := copyLoop_spec fo.strKeys ha hl
        cases r0 with
        | ok u => cases h; exact ⟨htr, hp.2.1⟩
        | err x => cases h; exact ⟨htr, hp.2.1⟩
  | _ => cases h; exact ⟨rfl, fun _ _ _ e => e⟩

/-- … it adds to `to` nothing but own STRING keys of `from` (as listed when the call starts) other than `except`
(so `except` is skipped, symbol keys are not copied, keys added to `from` later do not appear), and touches no
other object that existed -/
theorem copyProps_adds_only_listed_keys (a f : Nat) (fo : Obj) (ex : Val) (s s' : St) (r : Res Val)
    (ha : a < s.heap.length) (hf : s.heap[f]? = some fo)
    (h : copyProps (.obj a) (.obj f) ex s = (r, s')) :
    ∀ b k p, own s'.heap b k = some p → b < s.heap.length →
      own s.heap b k = some p ∨ (b = a ∧ ∃ key, key ∈ fo.strKeys ∧ k = .str key ∧ Val.str key ≠ ex) := by
  unfold copyProps at h
  simp only [bind, getHeap, hf] at h
  cases hl : copyLoop (.obj a) (.obj f) ex fo.strKeys s with
  | mk r0 s1 =>
    rw [hl] at h
    obtain ⟨_, _, honly, _⟩ := copyLoop_spec fo.strKeys ha hl
    cases r0 with
    | ok u => cases h; exact honly
    | err x => cases h; exact honly

/-- … and when it returns, every listed key that `to` did not have (and that is not `except`) is on `to` as a
forwarding getter `() => from[key]`, without setter, not configurable, with the [[Enumerable]] of the source
property (enumerability is preserved) -/
theorem copyProps_forwards_preserving_enumerability (a f : Nat) (fo : Obj) (ex : Val) (s s' : St) (v : Val)
    (ha : a < s.heap.length) (hf : s.heap[f]? = some fo)
    (h : copyProps (.obj a) (.obj f) ex s = (.ok v, s')) :
    v = .obj a ∧ ∀ key, key ∈ fo.strKeys → Val.str key ≠ ex → own s.heap a (.str key) = none →
      ∀ p, own s.heap f (.str key) = some p →
      ∃ g, own s'.heap a (.str key) = some (fwdProp g p.en) ∧ codeOf s'.heap g = some (.fwd (.obj f) (.str key)) := by
  unfold copyProps at h
  simp only [bind, getHeap, hf] at h
  cases hl : copyLoop (.obj a) (.obj f) ex fo.strKeys s with
  | mk r0 s1 =>
    rw [hl] at h
    obtain ⟨_, _, _, hpos⟩ := copyLoop_spec fo.strKeys ha hl
    cases r0 with
    | ok u => cases h; exact ⟨rfl, hpos rfl⟩
    | err x => cases h

-- ---------------------------------------------------------------- live bindings

/-- reading a property that `__copyProps` made reads `from[key]` AT THAT MOMENT, in whatever state the heap is then
(live binding): one unit of fuel for the getter call -/
theorem forwarder_reads_live (w : World) (n t f : Nat) (recv g st : Val) (k key : Key) (en cf : Bool) (s : St)
    (hown : own s.heap t k = some ⟨.acc g st, en, cf⟩) (hcode : codeOf s.heap g = some (.fwd (.obj f) key)) :
    getProp w (n + 1) recv (.obj t) k s = getProp w n (.obj f) (.obj f) key s := by
  unfold own at hown
  cases ht : s.heap[t]? with
  | none => simp [ht] at hown
  | some o =>
    simp only [ht] at hown
    rw [getProp]
    simp only [ht, hown, hcode]
    cases g <;> first | rfl | (simp [codeOf] at hcode)

-- ---------------------------------------------------------------- (1) __toESM

/-- `__toESM(mod, isNodeMode)` is: make the target, decide (`toESMUseMod`), finish — in this order -/
theorem toESM_steps (w : World) (n : Nat) (mod nm : Val) :
    toESM w n mod nm = (toESMTarget mod >>= fun t => toESMUseMod w n mod nm >>= fun u => toESMFinish u t mod) := rfl

/-- the default rule, first half: in node mode (the importer is `.mjs` / `"type": "module"`: the linker passes 1),
or when `module.exports` is falsy, nothing is asked (no event, state unchanged) and `default` will be the whole
exports value: the `wholeExports` rows of the documented table -/
theorem toESM_default_rule_node_mode (w : World) (n : Nat) (mod nm : Val) (s : St)
    (h : truthy nm = true ∨ truthy mod = false) :
    toESMUseMod w n mod nm s = (.ok true, s) ∧
    ∀ flag, defaultSource (truthy nm) (truthy mod) flag = .wholeExports := by
  constructor
  · unfold toESMUseMod
    have : (truthy nm || !truthy mod) = true := by rcases h with h | h <;> simp [h]
    simp [this]
  · intro flag
    rcases h with h | h <;> simp [defaultSource, h]

/-- second half: otherwise `mod.__esModule` is read exactly once (a getter may run: the only possible event of
`__toESM`), and `default` will be the whole exports value exactly when the documented table says so -/
theorem toESM_default_rule_esModule (w : World) (n : Nat) (mod nm : Val) (s : St)
    (h1 : truthy nm = false) (h2 : truthy mod = true) :
    toESMUseMod w n mod nm s =
      match getV w n mod (.str "__esModule") s with
      | (.ok e, s') => (.ok (decide (defaultSource false true (truthy e) = .wholeExports)), s')
      | (.err x, s') => (.err x, s') := by
  unfold toESMUseMod
  simp only [h1, h2, Bool.not_true, Bool.or_self, Bool.false_eq_true, if_false]
  cases getV w n mod (Key.str "__esModule") s with
  | mk r2 s2 =>
    cases r2 with
    | err x => rfl
    | ok e =>
      have : (!truthy e) = decide (defaultSource false true (truthy e) = .wholeExports) := by
        cases truthy e <;> decide
      simp only [this]

/-- what the finished namespace object looks like (CommonJS exports = an object): `default` is a data property
holding `module.exports` itself — enumerable, not writable, not configurable — when the rule says so; every own
string key that `module.exports` has AT THAT MOMENT (other than a `default` that was just defined) is a live
forwarding getter with the same enumerability; the object has NO other own property: keys added to
`module.exports` later are not visible, symbol keys are not copied -/
theorem toESM_namespace_shape (useMod : Bool) (t m : Nat) (mo : Obj) (p : Val) (s s' : St) (v : Val)
    (ht : s.heap[t]? = some (plain p)) (hm : s.heap[m]? = some mo) (hne : t ≠ m)
    (h : toESMFinish useMod (.obj t) (.obj m) s = (.ok v, s')) :
    v = .obj t ∧ s'.tr = s.tr ∧
    (useMod = true → own s'.heap t (.str "default") = some ⟨.data (.obj m) false, true, false⟩) ∧
    (∀ key, key ∈ mo.strKeys → (useMod = true → key ≠ "default") → ∀ q, own s.heap m (.str key) = some q →
      ∃ g, own s'.heap t (.str key) = some (fwdProp g q.en) ∧ codeOf s'.heap g = some (.fwd (.obj m) (.str key))) ∧
    (∀ k q, own s'.heap t k = some q →
      (useMod = true ∧ k = .str "default") ∨ ∃ key, key ∈ mo.strKeys ∧ k = .str key) := by
  have hlt : t < s.heap.length := (List.getElem?_eq_some_iff.mp ht).1
  have hundef : ∀ key : String, Val.str key ≠ Val.undef := fun _ e => by cases e
  unfold toESMFinish at h
  cases useMod with
  | false =>
    simp only [Bool.false_eq_true, if_false] at h
    obtain ⟨hv, hpos⟩ := copyProps_forwards_preserving_enumerability t m mo .undef s s' v hlt hm h
    have honly := copyProps_adds_only_listed_keys t m mo .undef s s' (.ok v) hlt hm h
    have htr := (copyProps_never_overwrites_existing t (.obj m) .undef s s' (.ok v) hlt h).1
    refine ⟨hv, htr, fun e => absurd e (by decide), fun key hk _ q hq => hpos key hk (hundef key) (own_plain ht _) q hq,
      fun k q e => ?_⟩
    rcases honly t k q e hlt with e' | ⟨_, key, hk, hkk, _⟩
    · rw [own_plain ht] at e'; cases e'
    · exact Or.inr ⟨key, hk, hkk⟩
  | true =>
    simp only [if_true] at h
    cases hd : defPropV (.obj t) (.str "default") { value := some (.obj m), enumerable := some true } s with
    | mk r1 s1 =>
      rw [hd] at h
      cases r1 with
      | err x => cases h
      | ok u =>
        simp only at h
        obtain ⟨hp, htr1, hlen, honly1, hok1⟩ := defPropV_new (own_plain ht _) hd
        have hm1 : s1.heap[m]? = some mo := by rw [defPropV_frame hd m hne]; exact hm
        have hlt1 : t < s1.heap.length := by rw [hlen]; exact hlt
        obtain ⟨hv, hpos⟩ := copyProps_forwards_preserving_enumerability t m mo .undef s1 s' v hlt1 hm1 h
        have honly := copyProps_adds_only_listed_keys t m mo .undef s1 s' (.ok v) hlt1 hm1 h
        obtain ⟨htr, hkeep⟩ := copyProps_never_overwrites_existing t (.obj m) .undef s1 s' (.ok v) hlt1 h
        refine ⟨hv, htr.trans htr1, fun _ => hkeep _ _ _ (hok1 rfl), fun key hk hnd q hq => ?_, fun k q e => ?_⟩
        · have hnone : own s1.heap t (.str key) = none := by
            cases hq1 : own s1.heap t (.str key) with
            | none => rfl
            | some q1 =>
              rcases honly1 t _ q1 hq1 with e' | ⟨_, hk'⟩
              · rw [own_plain ht] at e'; cases e'
              · cases hk'; exact absurd rfl (hnd rfl)
          exact hpos key hk (hundef key) hnone q (hp.2.1 _ _ _ hq)
        · rcases honly t k q e hlt1 with e1 | ⟨_, key, hk, hkk, _⟩
          · rcases honly1 t k q e1 with e' | ⟨_, hk'⟩
            · rw [own_plain ht] at e'; cases e'
            · exact Or.inl ⟨rfl, hk'⟩
          · exact Or.inr ⟨key, hk, hkk⟩

-- ---------------------------------------------------------------- (2) __toCommonJS

theorem define_then_copy (K : String) (d : Desc) (t m : Nat) (mo : Obj) (p : Val) (s s1 s' : St) (v : Val)
    (ht : s.heap[t]? = some (plain p)) (hm : s.heap[m]? = some mo) (hne : t ≠ m)
    (hd : defPropV (.obj t) (.str K) d s = (.ok (), s1))
    (h : copyProps (.obj t) (.obj m) .undef s1 = (.ok v, s')) :
    v = .obj t ∧ s'.tr = s.tr ∧ own s'.heap t (.str K) = some d.newProp ∧
    (∀ key, key ∈ mo.strKeys → key ≠ K → ∀ q, own s.heap m (.str key) = some q →
      ∃ g, own s'.heap t (.str key) = some (fwdProp g q.en) ∧ codeOf s'.heap g = some (.fwd (.obj m) (.str key))) ∧
    (∀ k q, own s'.heap t k = some q → k = .str K ∨ ∃ key, key ∈ mo.strKeys ∧ k = .str key) := by
  have hlt : t < s.heap.length := (List.getElem?_eq_some_iff.mp ht).1
  have hundef : ∀ key : String, Val.str key ≠ Val.undef := fun _ e => by cases e
  obtain ⟨hp, htr1, hlen, honly1, hok1⟩ := defPropV_new (own_plain ht _) hd
  have hm1 : s1.heap[m]? = some mo := by rw [defPropV_frame hd m hne]; exact hm
  have hlt1 : t < s1.heap.length := by rw [hlen]; exact hlt
  obtain ⟨hv, hpos⟩ := copyProps_forwards_preserving_enumerability t m mo .undef s1 s' v hlt1 hm1 h
  have honly := copyProps_adds_only_listed_keys t m mo .undef s1 s' (.ok v) hlt1 hm1 h
  obtain ⟨htr, hkeep⟩ := copyProps_never_overwrites_existing t (.obj m) .undef s1 s' (.ok v) hlt1 h
  refine ⟨hv, htr.trans htr1, hkeep _ _ _ (hok1 rfl), fun key hk hnd q hq => ?_, fun k q e => ?_⟩
  · have hnone : own s1.heap t (.str key) = none := by
      cases hq1 : own s1.heap t (.str key) with
      | none => rfl
      | some q1 =>
        rcases honly1 t _ q1 hq1 with e' | ⟨_, hk'⟩
        · rw [own_plain ht] at e'; cases e'
        · cases hk'; exact absurd rfl hnd
    exact hpos key hk (hundef key) hnone q (hp.2.1 _ _ _ hq)
  · rcases honly t k q e hlt1 with e1 | ⟨_, key, hk, hkk, _⟩
    · rcases honly1 t k q e1 with e' | ⟨_, hk'⟩
      · rw [own_plain ht] at e'; cases e'
      · exact Or.inl hk'
    · exact Or.inr ⟨key, hk, hkk⟩

/-- `__toCommonJS(ns)` for an object `ns` (the export getters made by `__export`): a NEW object (prototype
%Object.prototype%) with the marker `__esModule: true` — not enumerable, not writable, not configurable, and it
wins over an export named `__esModule` — and a live forwarding getter for every own string key of `ns`, with its
enumerability; nothing else; no event happens.  Reading such a getter reads `ns[key]` at that moment
(`forwarder_reads_live`), which evaluates the export's thunk (`thunk_getter_reads_live`): `require()` sees live
bindings. -/
theorem toCommonJS_shape (m : Nat) (mo : Obj) (s s' : St) (v : Val) (hm : s.heap[m]? = some mo)
    (h : toCommonJS (.obj m) s = (.ok v, s')) :
    v = .obj s.heap.length ∧ s'.tr = s.tr ∧
    own s'.heap s.heap.length (.str "__esModule") = some ⟨.data (.bool true) false, false, false⟩ ∧
    (∀ key, key ∈ mo.strKeys → key ≠ "__esModule" → ∀ q, own s.heap m (.str key) = some q →
      ∃ g, own s'.heap s.heap.length (.str key) = some (fwdProp g q.en) ∧
        codeOf s'.heap g = some (.fwd (.obj m) (.str key))) ∧
    (∀ k q, own s'.heap s.heap.length k = some q → k = .str "__esModule" ∨ ∃ key, key ∈ mo.strKeys ∧ k = .str key) := by
  have hmlt : m < s.heap.length := (List.getElem?_eq_some_iff.mp hm).1
  unfold toCommonJS alloc at h
  simp only [bind] at h
  cases hd : defPropV (.obj s.heap.length) (.str "__esModule") { value := some (.bool true) }
      ⟨s.heap ++ [plain (.obj 0)], s.tr⟩ with
  | mk r1 s1 =>
    rw [hd] at h
    cases r1 with
    | err x => cases h
    | ok u =>
      simp only at h
      have ht0 : (⟨s.heap ++ [plain (.obj 0)], s.tr⟩ : St).heap[s.heap.length]? = some (plain (.obj 0)) := by simp
      have hm0 : (⟨s.heap ++ [plain (.obj 0)], s.tr⟩ : St).heap[m]? = some mo := by
        simp only; rw [List.getElem?_append_left hmlt]; exact hm
      obtain ⟨hv, htr, hk, hpos, honly⟩ := define_then_copy "__esModule" _ s.heap.length m mo (.obj 0) _ s1 s' v ht0 hm0
        (Nat.ne_of_gt hmlt) hd h
      refine ⟨hv, htr, hk, fun key hkey hne q hq => hpos key hkey hne q ?_, honly⟩
      simp only; rw [own_append _ _ hmlt]; exact hq

-- ---------------------------------------------------------------- (3) __export

/-- the property `__defProp(target, name, { get: thunk, enumerable: true })` creates when `target` does not have
`name` yet: an accessor with the thunk as getter, NO setter, enumerable, not configurable -/
theorem export_defines_getter (t : Nat) (name : String) (g : Val) (s s' : St)
    (hnew : own s.heap t (.str name) = none)
    (h : defPropV (.obj t) (.str name) { get := some g, enumerable := some true } s = (.ok (), s')) :
    own s'.heap t (.str name) = some ⟨.acc g .undef, true, false⟩ ∧ s'.tr = s.tr := by
  obtain ⟨_, htr, _, _, hok⟩ := defPropV_new hnew h
  exact ⟨hok rfl, htr⟩

/-- reading `target.name` afterwards calls the thunk AT READ TIME, in the state of that moment, with the receiver
as `this` (live binding): the read IS the world's answer then -/
theorem thunk_getter_reads_live (w : World) (n t fn : Nat) (recv g st : Val) (k : Key) (en cf : Bool) (s : St)
    (hown : own s.heap t k = some ⟨.acc g st, en, cf⟩) (hcode : codeOf s.heap g = some (.host fn)) :
    getProp w (n + 1) recv (.obj t) k s = callHost w fn recv [] s := by
  unfold own at hown
  cases ht : s.heap[t]? with
  | none => simp [ht] at hown
  | some o =>
    simp only [ht] at hown
    rw [getProp]
    simp only [ht, hown, hcode]
    cases g <;> first | rfl | (simp [codeOf] at hcode)

/-- an assignment `target.name = v` to such a property (no setter) is refused: [[Set]] answers false (sloppy code
goes on silently, strict code throws a TypeError), nothing is called, nothing changes — as the language
specification says for an accessor without setter -/
theorem export_assignment_refused (w : World) (n t : Nat) (g v : Val) (k : Key) (en cf : Bool) (s : St)
    (hown : own s.heap t k = some ⟨.acc g .undef, en, cf⟩) :
    setProp w (n + 1) (.obj t) (.obj t) k v s = (.ok false, s) ∧ assignmentRefused .accessorNoSetter = true := by
  unfold own at hown
  cases ht : s.heap[t]? with
  | none => simp [ht] at hown
  | some o =>
    simp only [ht] at hown
    refine ⟨?_, rfl⟩
    rw [setProp]
    simp only [ht, hown]

end EsbuildModel.C02Interop

-- ---------------------------------------------------------------- non-vacuity: concrete runs
namespace EsbuildModel.C02Interop
open EsbuildModel.Interop EsbuildModel.ModuleInterop
open EsbuildModel.Lower3 (Key alGet)

/-- the six built-in prototypes, then O6 = `{ a: <getter f0> }` (what `__export` leaves), O7 = the thunk f0 -/
def demoHeap : Heap :=
  [⟨.null, true, none, []⟩, ⟨.obj 0, true, none, []⟩, ⟨.obj 0, true, none, []⟩, ⟨.obj 0, true, none, []⟩,
   ⟨.obj 0, true, none, []⟩, ⟨.obj 0, true, none, []⟩,
   ⟨.obj 0, true, none, [(.str "a", ⟨.acc (.obj 7) .undef, true, false⟩)]⟩,
   ⟨.obj 1, true, some (.host 0), []⟩]

/-- the thunk `() => a` where `a` changes: it answers the number of events so far -/
def demoWorld : World := ⟨fun _ _ _ s => (.ret (.num s.tr.length), s.heap)⟩

/-- a live read through the export getter of O6: two reads of `.a`, two calls of the thunk, two values (0, then 1);
the hypotheses of `thunk_getter_reads_live` / `export_assignment_refused` hold in this heap -/
example :
    (match getProp demoWorld 2 (.obj 6) (.obj 6) (.str "a") ⟨demoHeap, []⟩ with
     | (r1, s1) => (r1, (getProp demoWorld 2 (.obj 6) (.obj 6) (.str "a") s1).1))
      = (.ok (.num 0), .ok (.num 1)) ∧
    own demoHeap 6 (.str "a") = some ⟨.acc (.obj 7) .undef, true, false⟩ ∧ codeOf demoHeap (.obj 7) = some (.host 0) ∧
    6 < demoHeap.length := by
  decide +kernel

/-- the error cache at work in the Min variant, with a re-entrant call from inside the body: the body (host
function 0 = O7) throws 5 once; the second call throws 5 again; the body ran once -/
example :
    (esmCalls true [.reenter (.done (.ret .null)) (.done (.throw (.num 5))), .done (.ret .undef)]
      ⟨.obj 7, .undef, none⟩ ⟨demoHeap, []⟩).1 = [.err (.host (.num 5)), .err (.host (.num 5))] ∧
    callCount (esmCalls true [.reenter (.done (.ret .null)) (.done (.throw (.num 5))), .done (.ret .undef)]
      ⟨.obj 7, .undef, none⟩ ⟨demoHeap, []⟩).2.2.tr = 1 := by
  decide +kernel

/-- the table: with `__esModule` set and not in node mode the default import is `exports.default` -/
example : defaultSource false true true = .defaultProperty ∧ defaultSource true true true = .wholeExports := by decide

end EsbuildModel.C02Interop
