import EsbuildModel.Lemmas.RegexLexFeat
/-! # C14 / C13 — which regular-expression features the unsupported-feature scanner sees

`scanFeatures` = the verdict of `isUnsupportedRegularExpression` (internal/js_parser/js_parser.go) on (pattern, flags);
`Reads pattern items` (Spec/JsRegExpLiteral.lean) is the reading of the pattern text as classes, escapes and characters.
`flagNeeds u c`: the flag `c` needs a feature that is unsupported (`s`: dotAll, `y u`: sticky/unicode, `d`: match indices,
`v`: set notation, `g i m`: nothing, any other character: never supported). -/
namespace EsbuildModel.C14RegexFeat
open EsbuildModel.RegexLex Spec.JsRegExpLiteral

/-- `feature_scan_sound` — the scanner reports only what is there:
 * "lookbehind" only if lookbehind is unsupported and `(?<=` or `(?<!` occurs outside every class and escape;
 * "named group" only if named groups are unsupported and `(?<` not followed by `=` / `!` occurs outside every class;
 * "property escape" only if property escapes are unsupported, the flags contain `u`, and `\p` / `\P` occurs (outside a class);
 * a flag only if it occurs, needs an unsupported feature, and no earlier flag does;
 * and when it reports nothing, no flag needs an unsupported feature. -/
theorem feature_scan_sound (u : Unsup) (pattern flags : List Nat) (items : List Item) (hr : Reads pattern items) :
    (scanFeatures u pattern flags = .lookbehind → u.lookbehind = true ∧ HasLookbehind items) ∧
    (scanFeatures u pattern flags = .named → u.named = true ∧ HasNamedGroup items) ∧
    (scanFeatures u pattern flags = .propEscape →
      u.propEsc = true ∧ 117 ∈ flags ∧ ∃ x, (x = 112 ∨ x = 80) ∧ Item.esc x ∈ items) ∧
    (∀ c, scanFeatures u pattern flags = .flag c →
      ∃ a b, flags = a ++ c :: b ∧ flagNeeds u c = true ∧ ∀ x ∈ a, flagNeeds u x = false) ∧
    (scanFeatures u pattern flags = .none → ∀ c ∈ flags, flagNeeds u c = false) := by
  obtain ⟨rfl, hwf⟩ := hr
  have key : ∀ f, scanFeatures u (items.flatMap Item.text) flags = f → f ≠ .none → (∀ c, f ≠ .flag c) →
      ∃ a it b d' i', items = a ++ it :: b ∧ Trigger u (flags.contains 117) it (b.flatMap Item.text) d' i' f := by
    intro f hf hne hnf
    rcases scanFeatures_cases u (items.flatMap Item.text) flags with ⟨hp, hs⟩ | ⟨_, hs⟩
    · rw [hs] at hf
      exact patScan_items_sound u _ items hwf 0 1 f hf hne
    · rw [hs] at hf
      rcases flagScan_cases u flags with h | ⟨c, h⟩
      · rw [h] at hf; exact absurd hf.symm hne
      · rw [h] at hf; exact absurd hf.symm (hnf c)
  have hwfb : ∀ (a : List Item) (it : Item) (b : List Item), items = a ++ it :: b → ∀ x ∈ b, x.WF := by
    intro a it b e x hx
    exact hwf x (by rw [e]; simp [hx])
  refine ⟨?_, ?_, ?_, ?_, ?_⟩
  · intro h
    obtain ⟨a, it, b, d', i', e, htr⟩ := key _ h (by simp) (by simp)
    cases htr with
    | lookbehind hit hpre hu =>
      subst hit
      refine ⟨hu, ?_⟩
      rcases hpre with hpre | hpre
      · obtain ⟨b', hb'⟩ := items_hasPrefix [63, 60, 61] (by decide) b (hwfb a _ b e) hpre
        exact ⟨a, b', 61, .inl rfl, by rw [e, hb']; simp⟩
      · obtain ⟨b', hb'⟩ := items_hasPrefix [63, 60, 33] (by decide) b (hwfb a _ b e) hpre
        exact ⟨a, b', 33, .inr rfl, by rw [e, hb']; simp⟩
  · intro h
    obtain ⟨a, it, b, d', i', e, htr⟩ := key _ h (by simp) (by simp)
    cases htr with
    | named hit h61 h33 hpre hu _ =>
      subst hit
      refine ⟨hu, ?_⟩
      obtain ⟨b', hb'⟩ := items_hasPrefix [63, 60] (by decide) b (hwfb a _ b e) hpre
      subst hb'
      refine ⟨a, b', by rw [e]; simp, ?_, ?_⟩
      · intro hh
        cases b' with
        | nil => simp at hh
        | cons y ys =>
          simp only [List.head?_cons, Option.some.injEq] at hh
          subst hh
          simp [hasPrefix, List.isPrefixOf, Item.text] at h61
      · intro hh
        cases b' with
        | nil => simp at hh
        | cons y ys =>
          simp only [List.head?_cons, Option.some.injEq] at hh
          subst hh
          simp [hasPrefix, List.isPrefixOf, Item.text] at h33
  · intro h
    obtain ⟨a, it, b, d', i', e, htr⟩ := key _ h (by simp) (by simp)
    cases htr with
    | prop x hit hx huni _ hu _ =>
      subst hit
      exact ⟨hu, by simpa using huni, x, hx, by rw [e]; simp⟩
  · intro c h
    rcases scanFeatures_cases u (items.flatMap Item.text) flags with ⟨hp, hs⟩ | ⟨_, hs⟩
    · rw [hs] at h
      obtain ⟨a, it, b, d', i', _, htr⟩ := patScan_items_sound u _ items hwf 0 1 _ h (by simp)
      cases htr
    · rw [hs] at h
      exact flagScan_flag u flags c h
  · intro h
    rcases scanFeatures_cases u (items.flatMap Item.text) flags with ⟨hp, hs⟩ | ⟨_, hs⟩
    · rw [hs] at h; exact absurd h hp
    · rw [hs] at h; exact (flagScan_none_iff u flags).1 h

/- OPEN (FALSE of the code, see `class_property_escape_missed`): full completeness,
     u.propEsc = true → (117 ∈ flags ∨ 118 ∈ flags) → HasPropertyEscape items → scanFeatures u pattern flags ≠ .none .
   The `class:` loop skips every escape, so `\p{…}` / `\P{…}` inside `[...]` is never seen; and only the `u` flag is
   looked at, not `v`. -/

/-- `feature_scan_complete_partial` — what the scanner is guaranteed to notice (it then reports SOMETHING: this feature, an
earlier one, or the `)` error): a lookbehind outside every class; a named group outside every class whose name is closed by
a `>` somewhere later; `\p{` / `\P{` OUTSIDE every class with a `}` somewhere later, under the `u` flag; a flag that
needs an unsupported feature. -/
theorem feature_scan_complete_partial (u : Unsup) (pattern flags : List Nat) (items : List Item) (hr : Reads pattern items)
    (h : (u.lookbehind = true ∧ HasLookbehind items) ∨
         (u.named = true ∧ ∃ a b, items = a ++ [.chr 40, .chr 63, .chr 60] ++ b ∧ b.head? ≠ some (.chr 61) ∧
            b.head? ≠ some (.chr 33) ∧ 62 ∈ b.flatMap Item.text) ∨
         (u.propEsc = true ∧ 117 ∈ flags ∧ ∃ a b x, (x = 112 ∨ x = 80) ∧ items = a ++ .esc x :: b ∧
            (b.flatMap Item.text).head? = some 123 ∧ 125 ∈ b.flatMap Item.text) ∨
         (∃ c ∈ flags, flagNeeds u c = true)) :
    scanFeatures u pattern flags ≠ .none := by
  obtain ⟨rfl, hwf⟩ := hr
  rcases scanFeatures_cases u (items.flatMap Item.text) flags with ⟨hp, hs⟩ | ⟨hp, hs⟩
  · rw [hs]; exact hp
  rw [hs]
  have hwfa : ∀ (a : List Item) (rest : List Item), items = a ++ rest → (∀ x ∈ a, x.WF) ∧ (∀ x ∈ rest, x.WF) := by
    intro a rest e
    exact ⟨fun x hx => hwf x (by rw [e]; simp [hx]), fun x hx => hwf x (by rw [e]; simp [hx])⟩
  rcases h with ⟨hu, a, b, x, hx, e⟩ | ⟨hu, a, b, e, h61, h33, hgt⟩ | ⟨hu, huni, a, b, x, hx, e, hbrace, hclose⟩ | ⟨c, hc, hn⟩
  · exfalso
    have e' : items = a ++ .chr 40 :: (.chr 63 :: .chr 60 :: .chr x :: b) := by rw [e]; simp
    refine patScan_items_complete u (flags.contains 117) (.chr 40) _ ?_ a (hwfa a _ e').1 0 1 (by rw [← e']; exact hp)
    intro d i
    rcases hx with rfl | rfl <;>
      simp [patScan_false_cons, hasPrefix, List.isPrefixOf, Item.text, hu]
  · exfalso
    have e' : items = a ++ .chr 40 :: (.chr 63 :: .chr 60 :: b) := by rw [e]; simp
    have hb : ∀ x ∈ b, x.WF := fun x hx => (hwfa a _ e').2 x (by simp [hx])
    refine patScan_items_complete u (flags.contains 117) (.chr 40) _ ?_ a (hwfa a _ e').1 0 1 (by rw [← e']; exact hp)
    intro d i
    have n61 := items_head_ne 61 (by decide) b hb h61
    have n33 := items_head_ne 33 (by decide) b hb h33
    have p61 : hasPrefix [63, 60, 61] (63 :: 60 :: b.flatMap Item.text) = false := by
      cases hT : b.flatMap Item.text with
      | nil => simp [hasPrefix, List.isPrefixOf]
      | cons t ts => rw [hT] at n61; simp at n61; simp [hasPrefix, List.isPrefixOf]; exact fun e => n61 e.symm
    have p33 : hasPrefix [63, 60, 33] (63 :: 60 :: b.flatMap Item.text) = false := by
      cases hT : b.flatMap Item.text with
      | nil => simp [hasPrefix, List.isPrefixOf]
      | cons t ts => rw [hT] at n33; simp at n33; simp [hasPrefix, List.isPrefixOf]; exact fun e => n33 e.symm
    have p : hasPrefix [63, 60] (63 :: 60 :: b.flatMap Item.text) = true := by simp [hasPrefix, List.isPrefixOf]
    have hmem : 62 ∈ 63 :: 60 :: b.flatMap Item.text := List.mem_cons_of_mem _ (List.mem_cons_of_mem _ hgt)
    have hc : (63 :: 60 :: b.flatMap Item.text).contains 62 = true := by simpa using hmem
    have ht' : Item.text (.chr 40) ++ (Item.chr 63 :: Item.chr 60 :: b).flatMap Item.text
        = 40 :: 63 :: 60 :: b.flatMap Item.text := by simp [Item.text]
    rw [ht', patScan_false_cons, if_neg (by decide), if_pos rfl, p61, p33]
    simp only [Bool.or_self, Bool.false_eq_true, if_false]
    rw [if_pos p, hu, hc]
    simp
  · exfalso
    refine patScan_items_complete u (flags.contains 117) (.esc x) b ?_ a (hwfa a _ e).1 0 1 (by rw [← e]; exact hp)
    intro d i
    have ht : Item.text (.esc x) ++ b.flatMap Item.text = 92 :: x :: b.flatMap Item.text := by simp [Item.text]
    rw [ht, patScan_false_cons]
    cases hT : b.flatMap Item.text with
    | nil => rw [hT] at hbrace; simp at hbrace
    | cons t ts =>
      rw [hT] at hbrace hclose
      simp only [List.head?_cons, Option.some.injEq] at hbrace
      subst hbrace
      have hts : 125 ∈ ts := by simpa using hclose
      rcases hx with rfl | rfl <;> simp [hasPrefix, List.isPrefixOf, hu, huni, hts]
  · intro hnone
    have := (flagScan_none_iff u flags).1 hnone c hc
    rw [hn] at this; cases this

/-- the reading of `[\p{L}]`: one class with the atoms `\p`, `{`, `L`, `}` -/
def classPropItems : List Item := [.cls [.esc 112, .chr 123, .chr 76, .chr 125]]

/-- THE MISS (recorded finding; run on the real parser and api.Transform with target es2017 by kernel `regexlex`, boundary
text `/[\p{L}]/u`): with `u` supported and property escapes unsupported (ES2015–ES2017) the literal `/[\p{L}]/u` — which
does contain a property escape by the grammar — is kept as it is, while `/\p{L}/u` is rewritten. -/
theorem class_property_escape_missed :
    Reads [91, 92, 112, 123, 76, 125, 93] classPropItems ∧ HasPropertyEscape classPropItems ∧
    visit ⟨true, true, true, true, false, true, true⟩ [47, 91, 92, 112, 123, 76, 125, 93, 47, 117] = .keep none ∧
    visit ⟨true, true, true, true, false, true, true⟩ [47, 92, 112, 123, 76, 125, 47, 117]
      = .lower [92, 112, 123, 76, 125] (some [117]) .propEscape := by
  refine ⟨⟨by decide, ?_⟩,
    .inr ⟨[.esc 112, .chr 123, .chr 76, .chr 125], 112, .inl rfl, by simp [classPropItems], by simp⟩, by decide, by decide⟩
  intro it hit
  simp only [classPropItems, List.mem_singleton] at hit
  subst hit
  intro a ha
  simp only [List.mem_cons, List.not_mem_nil, or_false] at ha
  rcases ha with rfl | rfl | rfl | rfl <;> simp [ClassAtom.WF]

/-- the second miss: under the `v` flag alone (`\p{…}` is valid there too) the scanner does not look for property
escapes; only reachable with `--supported:` overrides, since every ES target that has `v` has `\p` -/
example : visit ⟨false, false, true, false, false, false, false⟩ [47, 92, 112, 123, 76, 125, 47, 118] = .keep none := by decide

/-- non-vacuity of `feature_scan_sound` / `feature_scan_complete_partial`: `a(?<=b)` -/
example : Reads [97, 40, 63, 60, 61, 98, 41] [.chr 97, .chr 40, .chr 63, .chr 60, .chr 61, .chr 98, .chr 41] ∧
    HasLookbehind [.chr 97, .chr 40, .chr 63, .chr 60, .chr 61, .chr 98, .chr 41] ∧
    scanFeatures ⟨true, false, false, false, false, false, false⟩ [97, 40, 63, 60, 61, 98, 41] [] = .lookbehind := by
  refine ⟨⟨by decide, ?_⟩, ⟨[.chr 97], [.chr 98, .chr 41], 61, .inl rfl, by simp⟩, by decide⟩
  intro it hit
  simp only [List.mem_cons, List.not_mem_nil, or_false] at hit
  rcases hit with rfl | rfl | rfl | rfl | rfl | rfl | rfl <;> simp [Item.WF]

/-- `(?<=` inside a class is not a lookbehind and is not reported; an escaped `(` does not open a group -/
example : scanFeatures ⟨true, true, true, false, false, false, false⟩ [91, 40, 63, 60, 61, 93] [] = .none := by decide
example : scanFeatures ⟨true, true, true, false, false, false, false⟩ [92, 40, 63, 60, 61] [] = .none := by decide
/-- the first flag that needs an unsupported feature is reported -/
example : scanFeatures ⟨false, false, false, true, true, false, false⟩ [97] [103, 115, 117] = .flag 115 := by decide

/-- the two theorems above apply to every literal: the body of a lexically valid literal always has a reading -/
theorem body_has_reading {body : List Nat} (h : Body body) : ∃ items, Reads body items :=
  chars_reading (body_chars h)

end EsbuildModel.C14RegexFeat
