import EsbuildModel.Lemmas.Compat
/-! # C14 — output only uses syntax of the configured target: property theorems
All statements are over `Gen.CompatTable`, regenerated from internal/compat/js_table.go on every run. -/
namespace EsbuildModel.C14
open EsbuildModel.Compat

/-- `Compat.monotone`: over the table as it is in the source now, a feature that esbuild treats as
unsupported for ES target `m` is also unsupported for every older ES target `n ≤ m`. -/
theorem es_monotone (f : String) (n m : Nat) (h : n ≤ m)
    (hm : f ∈ unsupported Gen.compatTable Gen.compatFeatures [("ES", esv m)]) :
    f ∈ unsupported Gen.compatTable Gen.compatFeatures [("ES", esv n)] := Compat.es_monotone f n m h hm

/-- non-vacuity: optional chaining is unsupported at ES2019 (and hence, by the theorem, at ES2015) -/
example : "OptionalChain" ∈ unsupported Gen.compatTable Gen.compatFeatures [("ES", esv 2019)] := by decide +kernel

/-- `Compat.overrides_both_ways`: after `ApplyOverrides`, every feature bit inside the mask equals the
user's override (true OR false) and every bit outside the mask is unchanged. -/
theorem overrides_both_ways (features overrides mask : BitVec 64) (i : Nat) :
    (applyOverrides features overrides mask).getLsbD i =
      if mask.getLsbD i then overrides.getLsbD i else features.getLsbD i := overrides_bit features overrides mask i

/-- every syntax feature constant has a row in the table (otherwise `UnsupportedJSFeatures` could never
report it), except the purely user-specified InlineScript; and the bit set fits the 64-bit mask. -/
theorem every_feature_listed :
    Gen.compatFeatures.all (fun f => f == "InlineScript" || (Gen.compatTable.lookup f).isSome) = true :=
  Compat.every_feature_listed
theorem features_fit : Gen.compatFeatures.length ≤ 64 := Compat.features_fit

end EsbuildModel.C14
