/-
C06 — TypeScript classes: where esbuild puts the statements it generates for parameter properties and lowered fields,
and which `__super` every rewritten `super(...)` call refers to.

Model: Impl/TsClass.lean (visitClass / the ESuper case of the call visit / computeClassLoweringInfo / lowerClass →
processProperties, lowerField, lowerMethod, insertInitializersIntoConstructor, insertStmtsAfterSuperCall,
findFirstTopLevelSuperCall).  Language and run-time meaning: Spec/TsClass.lean (validated against Node 20 by the kernel
`tsclasssem`, for source programs and for what esbuild emits).

Proved here (all programs of the language, both settings of useDefineForClassFields, targets with and without class fields):
  * each_super_reaches_its_own_base   — scoping of the generated `__super` symbols (the seeded bug "p.superCtorRef not
    reset for a nested class" falsifies it);
  * shim_not_used_when_found_at_top_level, shim_used_when_called_twice, shim_used_when_not_at_top_level,
    no_shim_without_base_class — when the `__super` arrow is generated and where the statements go otherwise.

-- OPEN lowered_class_same_trace: for every source program e with srcE e (and outside the four recorded defects: no
--   super() in a parameter default of a class that gets a shim, no return/throw/if whose expression ENDS in the only
--   super() call, a derived constructor that gets generated statements contains a super() call),
--   run m e = run Mode.js (lowerProgram m e).  Not proved: the simulation over the mutual syntax was not finished in the
--   time of the work package.  It is TESTED by the kernel `tsclasssem` (Node runs what esbuild emits, the model prints
--   run m of the source: 0 disagreements).
-- OPEN shim_forms_same_trace: the arrow form `var __super = (...args) => { super(...args); ins; return this }` with the
--   single call `__super(a)` and the inline form `super(a); ins` have the same meaning (evalStmts).
-- OPEN typed_equals_untyped: construct m c = construct m (c with the parameter properties written as statements
--   after the root-level super() statement) for DERIVED classes, parameter defaults and classes with instance fields;
--   proved below for classes without heritage (typed_equals_untyped_partial).
-/
import EsbuildModel.Lemmas.TsClassScope3
import EsbuildModel.Lemmas.TsClassInsert
import EsbuildModel.Lemmas.TsClassUntype
namespace EsbuildModel.C06TsClass
open EsbuildModel.TsClass

/-- In what esbuild emits for a source program, every `__super_j(...)` call and every `var __super_j` of the level of a
class (its constructor with the parameter defaults, its field and static initialisers, what was moved behind the class)
is the one symbol of THAT class; the heritage expression of a class belongs to the level around it.  So a `super(...)`
call is never turned into a call of the shim of an enclosing or of a nested class.
Hypothesis `srcE`: the program has no emitted-only forms and no `super(...)` inside the heritage expression of a
class (recorded defect: such a call belongs to the constructor AROUND the class but is visited with the inner class's
p.superCtorRef). -/
theorem each_super_reaches_its_own_base (o : Mode) (e : Expr) (h : srcE e = true) : OkE none (lowerProgram o e) :=
  visitE_ok o e h none 0 none (Or.inr rfl)

/-- The same for a class visited anywhere (any counter value, any surrounding level). -/
theorem each_class_is_well_scoped (o : Mode) (c : Class) (h : srcC c = true) (n : Nat) (S : Option Nat) :
    OkC S (visitClass o c n).1 :=
  visitClass_ok o c h n S

/-- When `super(...)` was rewritten once (UseCountEstimate = 1) and the first top-level statement the loop stops at
accepts it (an expression statement whose comma chain contains the call, or a return / throw / if whose expression
continues after the call), no arrow is generated: what stood before the call becomes a statement, then `super(a)`, then
the generated statements, then the rest. -/
theorem shim_not_used_when_found_at_top_level (i : Nat) (ins pre post : Stmts) (st : Stmt)
    (b : Option Expr) (a : Expr) (af : Option Stmt) (hpre : AllSkip i pre) (hst : tryStmt i st = .accept b a af) :
    insertAfterSuper (pre.append (.cons st post)) ins (some i) 1
      = pre.append (optStmt (b.map .expr) (.cons (.expr (.superCall a)) (ins.append (optStmt af post)))) := by
  simp [insertAfterSuper, scan_append_skip i ins _ pre hpre, scan, hst]

/-- the common case: `super(a);` as a statement — the generated statements directly follow it -/
theorem inserted_statements_follow_super_statement (i : Nat) (ins pre post : Stmts) (a : Expr) (hpre : AllSkip i pre) :
    insertAfterSuper (pre.append (.cons (.expr (.shimCall i a)) post)) ins (some i) 1
      = pre.append (.cons (.expr (.superCall a)) (ins.append post)) := by
  have := shim_not_used_when_found_at_top_level i ins pre post (.expr (.shimCall i a)) none a none hpre
    (by simp [tryStmt, findFirst])
  simpa [optStmt] using this

/-- `super(...)` rewritten twice or more: the arrow form, all calls stay calls of the shim -/
theorem shim_used_when_called_twice (i uses : Nat) (body ins : Stmts) (h : 2 ≤ uses) :
    insertAfterSuper body ins (some i) uses = .cons (.shimDecl i ins) body := by
  have h0 : (uses == 0) = false := by simp; omega
  have h1 : (uses == 1) = false := by simp; omega
  simp [insertAfterSuper, h0, h1]

/-- the only call is not in a top-level statement head (it is in an arrow, a condition, an argument, a branch): the arrow form -/
theorem shim_used_when_not_at_top_level (i uses : Nat) (body ins : Stmts) (h : AllSkip i body) (hu : uses ≠ 0) :
    insertAfterSuper body ins (some i) uses = .cons (.shimDecl i ins) body := by
  have h0 : (uses == 0) = false := by simp; omega
  simp only [insertAfterSuper, h0, scan_all_skip i ins body h]
  split <;> simp_all

/-- a class without heritage: the generated statements come first -/
theorem no_shim_without_base_class (uses : Nat) (body ins : Stmts) :
    insertAfterSuper body ins none uses = ins.append body := rfl

/-- `__publicField(this, "x", v)` — the text of the helper is `key in obj ? Object.defineProperty(...) : obj[key] = value`
— leaves the object as a definition of `x` does, whatever setters the prototype chain has. -/
theorem publicField_is_define (setters : List Nat) (s : St) (id x : Nat) (v : Val) :
    (s.publicField setters id x v).2 = s.define id x v :=
  publicField_state setters s id x v

/-- The statements esbuild generates for the parameter properties of a constructor, run (as JavaScript) in front of any
`rest`, do exactly what TypeScript defines (Spec `ppInit`): in parameter order, `this.x = x` with assign semantics when
useDefineForClassFields is off or the fields stay native, a definition when it is on and the target has no class fields;
a parameter that has no value yet throws. -/
theorem parameter_property_statements_mean_what_typescript_defines (m o : Mode) (C : Ctx) (env : Env) (id : Nat)
    (ps : Params) (rest : Stmts) (s : St) :
    evalStmts m ((ppStmts o ps 0).append rest) C env (some id) s =
      (ppInit (o.useDefine && !o.native) C.setters env.params ps 0 id s).bind fun _ s' =>
        evalStmts m rest C env (some id) s' :=
  ppStmts_sem m o C env id rest ps 0 s

/-- A class WITHOUT heritage whose parameters have no defaults and which has no instance field: `constructor(public x,
…) { body }` under the TypeScript meaning of any mode is the same as the hand-written `constructor(x, …) { this.x = x; …;
body }` (with `x;` declared in front of the members when the fields are native) — the same events, the same instance,
the same result of `new`, for every argument and every state.  (Full statement: see OPEN typed_equals_untyped.) -/
theorem typed_equals_untyped_partial (m : Mode) (ss : List Nat) (ps : Params) (body : Stmts) (ms : Members) (after : Afters)
    (hps : ps.noDefaults = true) (hms : ms.noInstFields = true) (S : List Nat) (arg : Val) (s : St) :
    construct m (.mk .none ss (.some ps body) ms after) S arg s
      = construct m (.mk .none ss (.some ps.strip ((ppStmts m ps 0).append body)) (ppFields m ps 0 ms) after) S arg s :=
  root_typed_eq_untyped m ss ps body ms after hps hms S arg s

-- ---------------------------------------------------------------- non-vacuity

/-- constructor(public a0, a1, private a2) with a static field and a declare field -/
example : (Params.cons true false .undef (.cons false false .undef (.cons true false .undef .nil))).noDefaults = true := rfl
example : (Members.sfield 1 true (.probe 1) (.field 2 false .undef true .nil)).noInstFields = true := rfl
/-- the hand-written form of `constructor(public a0, a1, private a2) {}` with useDefineForClassFields = false -/
example : ppStmts ⟨false, false⟩ (.cons true false .undef (.cons false false .undef (.cons true false .undef .nil))) 0 =
    .cons (.expr (.assignThis 100 (.param 0))) (.cons (.expr (.assignThis 102 (.param 2))) .nil) := rfl
/-- with useDefineForClassFields = true below ES2022: definitions -/
example : ppStmts ⟨true, false⟩ (.cons true false .undef .nil) 0 = .cons (.expr (.defineThis 100 true (.param 0))) .nil := rfl

/-- class B extends A { y = P(1); constructor(public a0) { new (class extends A2 { constructor() { super(2) } })(3); super(a0) } } -/
def nested : Expr :=
  .newC (.mk (.some .undef (.mk .none [] .none .nil .nil)) []
    (.some (.cons true false .undef .nil)
      (.cons (.expr (.newC (.mk (.some .undef (.mk .none [] .none .nil .nil)) []
          (.some .nil (.cons (.expr (.superCall (.num 2))) .nil)) .nil .nil) (.num 3)))
        (.cons (.expr (.superCall (.param 0))) .nil)))
    (.field 1 true (.probe 1) false .nil) .nil) (.num 0)

example : srcE nested = true := by decide
/-- the outer `super(a0)` is found at top level (one use): inline form; the inner class needs no shim and keeps `super(2)` -/
example : lowerProgram ⟨false, false⟩ nested =
  .newC (.mk (.some .undef (.mk .none [] .none .nil .nil)) []
    (.some (.cons false false .undef .nil)
      (.cons (.expr (.newC (.mk (.some .undef (.mk .none [] .none .nil .nil)) []
          (.some .nil (.cons (.expr (.superCall (.num 2))) .nil)) .nil .nil) (.num 3)))
        (.cons (.expr (.superCall (.param 0)))
          (.cons (.expr (.assignThis 100 (.param 0))) (.cons (.expr (.assignThis 1 (.probe 1))) .nil)))))
    .nil .nil) (.num 0) := by rfl

example : AllSkip 0 (.cons (.expr (.probe 1)) .nil) := by simp [AllSkip, tryStmt, findFirst]
example : tryStmt 0 (.retVal (.seq (.shimCall 0 (.num 1)) (.probe 2))) = .accept none (.num 1) (some (.retVal (.probe 2))) := by
  rfl
/-- the recorded defect: `return super(1)` is refused by the loop but the call has already been reverted -/
example : tryStmt 0 (.retVal (.shimCall 0 (.num 1))) = .reject (.retVal (.superCall (.num 1))) := by rfl

end EsbuildModel.C06TsClass
