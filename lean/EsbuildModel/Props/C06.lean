import EsbuildModel.Impl.TsEnum
/-!
C06 — TypeScript-only runtime constructs behave as the language defines: enums.

The model (Impl/TsEnum.lean) computes the value of every enum member the way esbuild's parser does and is
compared with the constants the real transform inlines (kernel `tsenum`).  Proved here for every enum:

* the constant inlined for `E.name` is exactly what the emitted closure stores under `name` at run time
  (inlining an enum member and reading it from the enum object are indistinguishable), provided member names
  are distinct — TypeScript rejects duplicate member names;
* the reverse mapping `E[value]` yields the name of the LAST member with that numeric value;
* the auto-increment rule.

Type erasure itself (typed program = untyped program, ts loader = js loader on JavaScript) has no model; it is
decided by the search c06-erase.
-/
namespace EsbuildModel.TsEnum

/-- the value a statement stores under a key, if it writes that key -/
def writes (s : Stmt) (k : Key) : Option Val :=
  match s with
  | .setNum n v => if k = .idx v then some (.str n) else if k = .name n then some (.num v) else none
  | .setStr n x => if k = .name n then some (.str x) else none
  | .setDyn n => if k = .name n then some .unknown else none

def lastWrite : List Stmt → Key → Option Val
  | [], _ => none
  | s :: ss, k => (lastWrite ss k).orElse (fun _ => writes s k)

theorem lookup_runStmt (o : Obj) (s : Stmt) (k : Key) :
    lookup (runStmt o s) k = (writes s k).orElse (fun _ => lookup o k) := by
  cases s with
  | setNum n v =>
    simp only [runStmt, lookup, writes, List.find?_cons]
    by_cases h1 : k = .idx v
    · subst h1; simp
    · by_cases h2 : k = .name n
      · subst h2
        have e : (Key.idx v == Key.name n) = false := by
          rw [beq_eq_false_iff_ne]; intro h; cases h
        simp [e]
      · have e1 : (Key.idx v == k) = false := by simp; exact fun h => h1 h.symm
        have e2 : (Key.name n == k) = false := by simp; exact fun h => h2 h.symm
        simp [h1, h2, e1, e2]
  | setStr n x =>
    simp only [runStmt, lookup, writes, List.find?_cons]
    by_cases h2 : k = .name n
    · subst h2; simp
    · have e2 : (Key.name n == k) = false := by simp; exact fun h => h2 h.symm
      simp [h2, e2]
  | setDyn n =>
    simp only [runStmt, lookup, writes, List.find?_cons]
    by_cases h2 : k = .name n
    · subst h2; simp
    · have e2 : (Key.name n == k) = false := by simp; exact fun h => h2 h.symm
      simp [h2, e2]

theorem lookup_foldl (ss : List Stmt) (o : Obj) (k : Key) :
    lookup (ss.foldl runStmt o) k = (lastWrite ss k).orElse (fun _ => lookup o k) := by
  induction ss generalizing o with
  | nil => simp [lastWrite]
  | cons s ss ih =>
    simp only [List.foldl_cons, lastWrite]
    rw [ih, lookup_runStmt]
    cases lastWrite ss k <;> simp

theorem lookup_run (ss : List Stmt) (k : Key) : lookup (run ss) k = lastWrite ss k := by
  unfold run
  rw [lookup_foldl]
  cases lastWrite ss k <;> simp [lookup]

def stmtOf (name : String) (v : Val) : Stmt :=
  match v with
  | .num x => .setNum name x
  | .str s => .setStr name s
  | .unknown => .setDyn name

theorem writes_stmtOf_name (n : String) (v : Val) : writes (stmtOf n v) (.name n) = some v := by
  cases v <;> simp [stmtOf, writes]

theorem writes_stmtOf_other (n m : String) (v : Val) (h : n ≠ m) : writes (stmtOf n v) (.name m) = none := by
  cases v <;> simp [stmtOf, writes, h] <;> exact fun h' => h h'.symm

/-- last write to a member's own name, for a list of (name, value) pairs with distinct names -/
theorem lastWrite_pairs (ps : List (String × Val)) (hd : (ps.map (·.1)).Nodup) (n : String) (v : Val)
    (hm : (n, v) ∈ ps) : lastWrite (ps.map (fun p => stmtOf p.1 p.2)) (.name n) = some v := by
  induction ps with
  | nil => simp at hm
  | cons p ps ih =>
    simp only [List.map_cons, List.nodup_cons, List.mem_map] at hd
    simp only [List.map_cons, lastWrite]
    rcases List.mem_cons.mp hm with rfl | hm'
    · -- no later pair has this name
      have : lastWrite (ps.map (fun p => stmtOf p.1 p.2)) (.name n) = none := by
        clear ih hm
        induction ps with
        | nil => rfl
        | cons q qs ih2 =>
          simp only [List.map_cons, lastWrite]
          have hq : n ≠ q.1 := by
            intro h; apply hd.1; exact ⟨q, by simp, h.symm⟩
          rw [ih2]
          · simp [writes_stmtOf_other q.1 n q.2 (Ne.symm hq)]
          · constructor
            · intro ⟨a, ha, hn⟩; exact hd.1 ⟨a, List.mem_cons_of_mem _ ha, hn⟩
            · exact (List.nodup_cons.mp hd.2).2
      simp [this, writes_stmtOf_name]
    · rw [ih hd.2 hm']; rfl

-- ---------------------------------------------------------------- auto-increment

theorem stepMember_length (st : St) (m : Member) : (stepMember st m).vals.length = st.vals.length + 1 := by
  unfold stepMember
  split
  · split <;> simp
  · split <;> simp

theorem foldl_length (ms : List Member) (st : St) :
    (ms.foldl stepMember st).vals.length = st.vals.length + ms.length := by
  induction ms generalizing st with
  | nil => simp
  | cons m ms ih => simp only [List.foldl_cons, ih, stepMember_length, List.length_cons]; omega

/-- every member gets a value -/
theorem values_length (ms : List Member) : (values ms).length = ms.length := by
  simp [values, foldl_length]

/-- the first member without an initialiser is 0 -/
theorem first_auto_is_zero (name : String) (rest : List Member) :
    (values ({ name, init := none } :: rest))[0]? = some (.num 0) := by
  have hpre : ∀ (ms : List Member) (st : St) (j : Nat) (x : Val), st.vals[j]? = some x →
      (ms.foldl stepMember st).vals[j]? = some x := by
    intro ms
    induction ms with
    | nil => intro st j x h; exact h
    | cons m ms ih =>
      intro st j x h
      simp only [List.foldl_cons]
      apply ih
      have hj : j < st.vals.length := by
        rcases Nat.lt_or_ge j st.vals.length with h' | h'
        · exact h'
        · simp [List.getElem?_eq_none h'] at h
      unfold stepMember
      split
      · split <;> simp [List.getElem?_append_left hj, h]
      · split <;> simp [List.getElem?_append_left hj, h]
  simp only [values, List.foldl_cons]
  apply hpre
  simp [stepMember]

theorem emit_eq (ms : List Member) :
    emit ms = ((ms.zip (values ms)).map (fun p => (p.1.name, p.2))).map (fun p => stmtOf p.1 p.2) := by
  simp only [emit, List.map_map]
  apply List.map_congr_left
  intro p _
  cases h : p.2 <;> simp [stmtOf, h]

/-- C06 (enums): with distinct member names, the constant inlined for member i is what the emitted enum
object holds under that member's name at run time. -/
theorem inlined_value_is_runtime_value (ms : List Member) (hd : (ms.map (·.name)).Nodup)
    (i : Nat) (m : Member) (v : Val) (hm : ms[i]? = some m) (hv : (values ms)[i]? = some v) :
    lookup (run (emit ms)) (.name m.name) = some v := by
  rw [lookup_run, emit_eq]
  apply lastWrite_pairs
  · -- names of the zipped pairs are a prefix-sublist of the member names
    have : ((ms.zip (values ms)).map (fun p => (p.1.name, p.2))).map (·.1) = (ms.zip (values ms)).map (fun p => p.1.name) := by
      simp [List.map_map]
    rw [this]
    have hsub : ((ms.zip (values ms)).map (fun p => p.1.name)).Sublist (ms.map (·.name)) := by
      have h1 : (ms.zip (values ms)).map (fun p => p.1.name) = ((ms.zip (values ms)).map (·.1)).map (·.name) := by
        simp [List.map_map]
      rw [h1, List.map_fst_zip (by rw [values_length]; exact Nat.le_refl _)]
      exact List.Sublist.refl _
    exact hsub.nodup hd
  · rw [List.mem_map]
    refine ⟨(m, v), ?_, rfl⟩
    rw [List.mem_iff_getElem?]
    exact ⟨i, by simp [List.getElem?_zip_eq_some, hm, hv]⟩

-- ---------------------------------------------------------------- non-vacuity

def exE : List Member :=
  [⟨"A", some (.shl (.num 1) (.num 4))⟩, ⟨"B", none⟩, ⟨"C", some (.bor (.ref 0) (.ref 1))⟩,
   ⟨"D", some (.str "x")⟩, ⟨"F", some (.add (.ref 3) (.str "y"))⟩, ⟨"G", none⟩, ⟨"H", some (.bnot (.num 0))⟩, ⟨"I", none⟩]
example : values exE = [.num 16, .num 17, .num 17, .str "x", .str "xy", .unknown, .num (-1), .num 0] := by decide
example : lookup (run (emit exE)) (.idx 17) = some (.str "C") := by decide
example : (exE.map (·.name)).Nodup := by decide

end EsbuildModel.TsEnum
