import EsbuildModel.Impl.CssHex
/-! # C12 — CSS transformations preserve the cascade: property theorems (so far: hex colour rewriting) -/
namespace EsbuildModel.C12
open EsbuildModel.CssHex

def WF (x : Bytes) : Prop := x.r < 256 ∧ x.g < 256 ∧ x.b < 256 ∧ x.a < 256
def WFShort (c : Bytes) : Prop := c.r < 16 ∧ c.g < 16 ∧ c.b < 16 ∧ c.a < 16

/-- `Hex.roundtrip`: compacting the expansion of a short colour gives it back -/
theorem compact_expand (c : Bytes) (h : WFShort c) : compactHex (expandHex c) = c := by
  obtain ⟨r, g, b, a⟩ := c
  simp only [WFShort] at h
  simp only [compactHex, expandHex, Bytes.mk.injEq]
  omega

/-- the printer shortens `#rrggbbaa` to `#rgba` exactly when that is value-preserving: the test
`hex == expandHex(compactHex(hex))` holds iff every channel has two equal nibbles -/
theorem canCompact_iff (x : Bytes) (h : WF x) : canCompact x = true ↔ isDoubled x := by
  obtain ⟨r, g, b, a⟩ := x
  simp only [WF] at h
  simp only [canCompact, isDoubled, compactHex, expandHex, beq_iff_eq, Bytes.mk.injEq]
  omega

/-- and when it is shortened, expanding the short form (what a browser does) gives the same colour -/
theorem compact_preserves_value (x : Bytes) (hc : canCompact x = true) : expandHex (compactHex x) = x := by
  simp only [canCompact, beq_iff_eq] at hc
  exact hc.symm

example : canCompact (ofU32 0xAABBCCDD) = true ∧ shortToU16 (compactHex (ofU32 0xAABBCCDD)) = 0xABCD ∧ canCompact (ofU32 0xAABBCCDE) = false := by decide
end EsbuildModel.C12
