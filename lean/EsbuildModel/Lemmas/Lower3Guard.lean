import EsbuildModel.Lemmas.Lower3Copy
/-!
The guard only stops: an evaluation with `guard = true` that does not end in `Exc.outside` is, step for step, the
evaluation with `guard = false` (the language as it is, which the kernel `objrestsem` compares with Node).
-/
namespace EsbuildModel.Lower3

theorem copyDataProps_guard (w : World) (forRest : Bool) (src : Val) (excl : List Key) (t : Rec) (h : H) :
    RelH (copyDataProps w false forRest src excl t h) (copyDataProps w true forRest src excl t h) := by
  unfold copyDataProps
  simp only [Bool.false_and, Bool.false_eq_true, if_false]
  cases src with
  | obj o => exact copyWorld_rel w o _ _ _ _ (fun _ _ _ _ => rfl) _ t h
  | _ => exact copyEntries_rel w _ _ _ _ _ _ (fun _ => rfl) (fun _ _ _ _ => rfl) _ t h

theorem RelH.liftH' {α : Type} (f g : H → R α × H) (s : TState) (h : RelH (f s.h) (g s.h)) : RelH (liftH f s) (liftH g s) := by
  cases h with
  | inl h => exact Or.inl h
  | inr h => exact Or.inr (by unfold Lower3.liftH; rw [h])

theorem keyOf_guard (w : World) (b : Bool) (k : KK) (ev ev' : TState → Res × TState) (s : TState)
    (h : RelH (ev s) (ev' s)) : RelH (keyOf w false k ev s) (keyOf w b k ev' s) := by
  cases k with
  | str t => exact Or.inr rfl
  | num n => exact Or.inr rfl
  | comp =>
    simp only [keyOf, Bool.false_and, Bool.false_eq_true, if_false]
    refine RelH.bind h (fun raw s1 => ?_)
    split
    · exact Or.inl trivial
    · exact Or.inr rfl

theorem restStep_guard (w : World) (r : Nat) (v : Val) (ex : List Ex) (s : TState) :
    RelH (restStep w false r v ex s) (restStep w true r v ex s) := by
  simp only [restStep, Bool.false_and, Bool.false_eq_true, if_false, Bool.true_and]
  split
  · exact Or.inl trivial
  · exact RelH.bind (RelH.liftH' _ _ s (copyDataProps_guard w true v _ _ s.h)) (fun _ _ => Or.inr rfl)

mutual
theorem evalE_guard (w : World) : ∀ (e : E) (s : TState), RelH (evalE w false e s) (evalE w true e s)
  | .id _, _ => Or.inr rfl
  | .lit _, _ => Or.inr rfl
  | .tmp _, _ => Or.inr rfl
  | .call f a, s => by
    simp only [evalE]
    exact RelH.bind (evalE_guard w a s) (fun _ _ => Or.inr rfl)
  | .obj ps, s => by
    simp only [evalE]
    exact RelH.bind (evalPL_guard w ps _ _ _ s) (fun _ _ => Or.inr rfl)
  | .asg p rhs, s => by
    simp only [evalE]
    exact RelH.bind (evalE_guard w rhs s) (fun v s1 => RelH.bind (bindPat_guard w p v s1) (fun _ _ => Or.inr rfl))
  | .seq a b, s => by
    simp only [evalE]
    exact RelH.bind (evalE_guard w a s) (fun _ s1 => evalE_guard w b s1)
  | .spreadValues a b, s => by
    simp only [evalE]
    exact RelH.bind (evalE_guard w a s) (fun _ s1 => RelH.bind (evalE_guard w b s1) (fun _ _ => Or.inr rfl))
  | .spreadProps a b, s => by
    simp only [evalE]
    exact RelH.bind (evalE_guard w a s) (fun _ s1 => RelH.bind (evalE_guard w b s1) (fun _ _ => Or.inr rfl))
  | .objRest src keys, s => by
    simp only [evalE]
    exact RelH.bind (evalE_guard w src s) (fun _ _ => Or.inr rfl)
theorem evalPL_guard (w : World) : ∀ (ps : PL) (af : Bool) (seg : List Key) (t : Rec) (s : TState),
    RelH (evalPL w false ps af seg t s) (evalPL w true ps af seg t s)
  | .nil, _, _, _, _ => Or.inr rfl
  | .data k ke v rest, af, seg, t, s => by
    simp only [evalPL]
    refine RelH.bind (keyOf_guard w _ k _ _ s (evalE_guard w ke s)) (fun kv s1 => ?_)
    exact RelH.bind (evalE_guard w v s1) (fun _ s2 => evalPL_guard w rest _ _ _ s2)
  | .getter k ke g rest, af, seg, t, s => by
    simp only [evalPL, Bool.false_and, Bool.false_eq_true, if_false]
    refine RelH.bind (keyOf_guard w _ k _ _ s (evalE_guard w ke s)) (fun kv s1 => ?_)
    split
    · exact Or.inl trivial
    · exact evalPL_guard w rest _ _ _ s1
  | .setter k ke f rest, af, seg, t, s => by
    simp only [evalPL, Bool.false_and, Bool.false_eq_true, if_false]
    refine RelH.bind (keyOf_guard w _ k _ _ s (evalE_guard w ke s)) (fun kv s1 => ?_)
    split
    · exact Or.inl trivial
    · exact evalPL_guard w rest _ _ _ s1
  | .proto v rest, af, seg, t, s => by
    simp only [evalPL, Bool.false_and, Bool.false_eq_true, if_false]
    refine RelH.bind (evalE_guard w v s) (fun pv s1 => ?_)
    split
    · split
      · exact Or.inl trivial
      · exact evalPL_guard w rest _ _ _ s1
    · exact evalPL_guard w rest _ _ _ s1
  | .spread e rest, af, seg, t, s => by
    simp only [evalPL]
    refine RelH.bind (evalE_guard w e s) (fun sv s1 => ?_)
    exact RelH.bind (RelH.liftH' _ _ s1 (copyDataProps_guard w false sv [] t s1.h)) (fun _ s2 => evalPL_guard w rest _ _ _ s2)
theorem bindPat_guard (w : World) : ∀ (p : Pat) (v : Val) (s : TState), RelH (bindPat w false p v s) (bindPat w true p v s)
  | .var _, _, _ => Or.inr rfl
  | .tmp _, _, _ => Or.inr rfl
  | .obj ps rest, v, s => by
    simp only [bindPat, Bool.false_and, Bool.false_eq_true, if_false, Bool.true_and]
    split
    · split
      · exact Or.inl trivial
      · exact Or.inr rfl
    · refine RelH.bind (bindPPL_guard w ps _ v _ s) (fun ex s1 => ?_)
      cases rest with
      | none => exact Or.inr rfl
      | some r => exact restStep_guard w r v ex s1
theorem bindPPL_guard (w : World) : ∀ (ps : PPL) (hr : Bool) (v : Val) (ex : List Ex) (s : TState),
    RelH (bindPPL w false ps hr v ex s) (bindPPL w true ps hr v ex s)
  | .nil, _, _, _, _ => Or.inr rfl
  | .prop k ke t hd d tl, hr, v, ex, s => by
    simp only [bindPPL, Bool.false_and]
    refine RelH.bind (keyOf_guard w _ k _ _ s (evalE_guard w ke s)) (fun kv s1 => ?_)
    refine RelH.bind (Or.inr rfl) (fun pv s2 => ?_)
    have hdef : RelH (if (hd && pv == .undef) = true then evalE w false d s2 else (.ok pv, s2))
        (if (hd && pv == .undef) = true then evalE w true d s2 else (.ok pv, s2)) := by
      split
      · exact evalE_guard w d s2
      · exact Or.inr rfl
    refine RelH.bind hdef (fun pv' s3 => ?_)
    exact RelH.bind (bindPat_guard w t pv' s3) (fun _ s4 => bindPPL_guard w tl hr v _ s4)
end

theorem runAL_guard (w : World) : ∀ (al : List (Pat × E)) (s : TState), RelH (runAL w false al s) (runAL w true al s) := by
  intro al
  induction al with
  | nil => intro s; exact Or.inr rfl
  | cons pe r ih =>
    intro s
    obtain ⟨p, e⟩ := pe
    simp only [runAL]
    exact RelH.bind (evalE_guard w e s) (fun v s1 => RelH.bind (bindPat_guard w p v s1) (fun _ s2 => ih s2))

/-- unless the guarded run of the statement ends in `Exc.outside`, it is the run of the language as it is -/
theorem execStmt_guard (w : World) (st : Stmt) (s : TState) : RelH (execStmt w false st s) (execStmt w true st s) := by
  cases st with
  | expr e => exact RelH.bind (evalE_guard w e s) (fun _ _ => Or.inr rfl)
  | decl ds => exact runAL_guard w ds s

end EsbuildModel.Lower3
