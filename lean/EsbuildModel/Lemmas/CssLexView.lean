import EsbuildModel.Impl.CssLexTok
import EsbuildModel.Spec.CssSyntax
/-!
The common view of a token of the model and a token of the specification: kind, value (code points), unit, id flag.
-/
namespace EsbuildModel.CssLex
open EsbuildModel.Spec

structure View where
  kind : T
  value : List Nat
  unit : List Nat
  isID : Bool
deriving DecidableEq, Repr

def delimKind (c : Nat) : T :=
  if c = 38 then .TDelimAmpersand else if c = 42 then .TDelimAsterisk else if c = 124 then .TDelimBar
  else if c = 94 then .TDelimCaret else if c = 36 then .TDelimDollar else if c = 46 then .TDelimDot
  else if c = 61 then .TDelimEquals else if c = 33 then .TDelimExclamation else if c = 62 then .TDelimGreaterThan
  else if c = 60 then .TDelimLessThan else if c = 45 then .TDelimMinus else if c = 43 then .TDelimPlus
  else if c = 47 then .TDelimSlash else if c = 126 then .TDelimTilde else .TDelim

/-- a token of the specification in terms of esbuild's token kinds -/
def specView : CssSyntax.Token → View
  | .ident v => ⟨.TIdent, v, [], false⟩
  | .function v => ⟨.TFunction, v, [], false⟩
  | .atKeyword v => ⟨.TAtKeyword, v, [], false⟩
  | .hash v ty => ⟨.THash, v, [], ty == .id⟩
  | .string v => ⟨.TString, v, [], false⟩
  | .badString => ⟨.TUnterminatedString, [], [], false⟩
  | .url v => ⟨.TURL, v, [], false⟩
  | .badUrl => ⟨.TBadURL, [], [], false⟩
  | .delim c => ⟨delimKind c, [c], [], false⟩
  | .number r _ => ⟨.TNumber, r, [], false⟩
  | .percentage r => ⟨.TPercentage, r, [], false⟩
  | .dimension r _ u => ⟨.TDimension, r, u, false⟩
  | .whitespace => ⟨.TWhitespace, [], [], false⟩
  | .cdo => ⟨.TCDO, [], [], false⟩
  | .cdc => ⟨.TCDC, [], [], false⟩
  | .colon => ⟨.TColon, [], [], false⟩
  | .semicolon => ⟨.TSemicolon, [], [], false⟩
  | .comma => ⟨.TComma, [], [], false⟩
  | .lbracket => ⟨.TOpenBracket, [], [], false⟩
  | .rbracket => ⟨.TCloseBracket, [], [], false⟩
  | .lparen => ⟨.TOpenParen, [], [], false⟩
  | .rparen => ⟨.TCloseParen, [], [], false⟩
  | .lbrace => ⟨.TOpenBrace, [], [], false⟩
  | .rbrace => ⟨.TCloseBrace, [], [], false⟩

def isDelimKind (k : T) : Bool :=
  k matches .TDelim | .TDelimAmpersand | .TDelimAsterisk | .TDelimBar | .TDelimCaret | .TDelimDollar | .TDelimDot
    | .TDelimEquals | .TDelimExclamation | .TDelimGreaterThan | .TDelimLessThan | .TDelimMinus | .TDelimPlus
    | .TDelimSlash | .TDelimTilde

/-- code points of a decoded text (`none` if `DecodedText` panicked) -/
def textCps (b : Option (List Nat)) : List Nat :=
  match b with
  | some b => cpsOf (decodeAll b)
  | none => []

/-- a token of the model: the kind, the code points of `Token.DecodedText` (for numeric tokens: of the number part
and of the decoded unit; for delimiters: the code point), and `IsID` -/
def implView (o : NextOut) : View :=
  let raw := rawOf o.chars
  match o.kind with
  | .TIdent | .TFunction | .TAtKeyword | .THash | .TString | .TURL =>
    ⟨o.kind, textCps (decodedText o.kind raw), [], o.isID⟩
  | .TNumber => ⟨o.kind, cpsOf o.chars, [], false⟩
  | .TPercentage => ⟨o.kind, cpsOf (o.chars.take (o.chars.length - 1)), [], false⟩
  | .TDimension =>
    let num := o.startS.take (o.startS.length - o.unitS.length)
    let unit := o.unitS.take (o.unitS.length - o.rest.length)
    ⟨o.kind, cpsOf num, cpsOf (decodeAll (decodeEscapes (rawOf unit))), false⟩
  | k => if isDelimKind k then ⟨k, cpsOf o.chars, [], false⟩ else ⟨k, [], [], false⟩

/-- runs of whitespace tokens count as one (esbuild puts comments that follow whitespace into the whitespace
token; the specification ends the whitespace token at a comment) -/
def collapseWs : List View → List View
  | [] => []
  | v :: vs =>
    if v.kind = .TWhitespace then
      match collapseWs vs with
      | [] => [v]
      | w :: ws => if w.kind = .TWhitespace then w :: ws else v :: w :: ws
    else v :: collapseWs vs

/-- the views of the tokens `Tokenize` returns -/
def implViews (input : List Nat) : List View :=
  ((runs input).filter (·.kind ≠ .TEndOfFile)).map implView

end EsbuildModel.CssLex
