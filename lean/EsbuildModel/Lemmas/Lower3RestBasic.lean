import EsbuildModel.Lemmas.Lower3Helpers
import EsbuildModel.Lemmas.Lower3Frame
/-!
Tools for the proof that the lowering of object rest patterns is right: a relation between a run of lowered code
and a run of source code that forgets the values (the emitted assignments have other values than the pattern they
replace) but carries a fact about the lowered run's final state; cutting pattern lists and assignment lists; and
the evaluation of the array of excluded keys passed to `__objRest`.
-/
namespace EsbuildModel.Lower3

/-- forget the value -/
def R.void {α : Type} : R α → R Unit
  | .ok _ => .ok ()
  | .err x => .err x

@[simp] theorem R.void_ok {α : Type} (a : α) : (R.ok a).void = .ok () := rfl
@[simp] theorem R.void_err {α : Type} (x : Exc) : (R.err x : R α).void = .err x := rfl

/-- unless the source run `b` left the model: both runs end the same way (both with a value, or with the same
exception), in the same user-visible state, and `Q` holds of the source value and the final state of the lowered
run -/
def RelQ {α β : Type} (Q : β → TState → Prop) (a : R α × TState) (b : R β × TState) : Prop :=
  Outside b.1 ∨ (a.1.void = b.1.void ∧ a.2.h = b.2.h ∧ ∀ y, b.1 = .ok y → Q y a.2)

theorem RelQ.outside {α β : Type} {Q : β → TState → Prop} {a : R α × TState} {b : R β × TState} (h : Outside b.1) :
    RelQ Q a b := Or.inl h

theorem RelQ.mono {α β : Type} {Q Q' : β → TState → Prop} {a : R α × TState} {b : R β × TState}
    (h : RelQ Q a b) (hq : ∀ y, b.1 = .ok y → Q y a.2 → Q' y a.2) : RelQ Q' a b := by
  cases h with
  | inl h => exact Or.inl h
  | inr h => exact Or.inr ⟨h.1, h.2.1, fun y hy => hq y hy (h.2.2 y hy)⟩

theorem RelQ.bind {α β γ δ : Type} {Q : β → TState → Prop} {Q' : δ → TState → Prop}
    {a : R α × TState} {b : R β × TState} {F : α → TState → R γ × TState} {G : β → TState → R δ × TState}
    (h : RelQ Q a b)
    (hk : ∀ x y s s', a = (.ok x, s) → b = (.ok y, s') → s.h = s'.h → Q y s → RelQ Q' (F x s) (G y s')) :
    RelQ Q' (bindR a F) (bindR b G) := by
  cases h with
  | inl h => exact Or.inl (outside_bind _ _ h)
  | inr h =>
    obtain ⟨ra, sa⟩ := a
    obtain ⟨rb, sb⟩ := b
    obtain ⟨h1, h2, h3⟩ := h
    simp only at h1 h2 h3
    cases ra with
    | ok x =>
      cases rb with
      | ok y => exact hk x y sa sb rfl rfl h2 (h3 y rfl)
      | err e => simp at h1
    | err e =>
      cases rb with
      | ok y => simp at h1
      | err e' =>
        simp only [R.void_err, R.err.injEq] at h1
        subst h1
        exact Or.inr ⟨rfl, h2, fun y hy => by simp at hy⟩

/-- the same value on both sides -/
theorem RelR.bindQ {α γ δ : Type} {Q' : δ → TState → Prop}
    {a b : R α × TState} {F : α → TState → R γ × TState} {G : α → TState → R δ × TState}
    (h : RelR a b)
    (hk : ∀ v s s', a = (.ok v, s) → b = (.ok v, s') → s.h = s'.h → RelQ Q' (F v s) (G v s')) :
    RelQ Q' (bindR a F) (bindR b G) := by
  cases h with
  | inl h => exact Or.inl (outside_bind _ _ h)
  | inr h =>
    obtain ⟨ra, sa⟩ := a
    obtain ⟨rb, sb⟩ := b
    obtain ⟨h1, h2⟩ := h
    simp only at h1 h2
    subst h1
    cases ra with
    | ok x => exact hk x sa sb rfl rfl h2
    | err e => exact Or.inr ⟨rfl, h2, fun y hy => by simp at hy⟩

theorem RelR.toQ {α : Type} {a b : R α × TState} (h : RelR a b) : RelQ (fun _ _ => True) a b := by
  cases h with
  | inl h => exact Or.inl h
  | inr h => exact Or.inr ⟨by rw [h.1], h.2, fun _ _ => trivial⟩

/-- back to values, when both sides can only produce one value -/
theorem RelQ.toR {Q : Val → TState → Prop} {a b : Res × TState} (h : RelQ Q a b)
    (ha : ∀ v, a.1 = .ok v → v = .undef) (hb : ∀ v, b.1 = .ok v → v = .undef) : RelR a b := by
  cases h with
  | inl h => exact Or.inl h
  | inr h =>
    refine Or.inr ⟨?_, h.2.1⟩
    obtain ⟨ra, sa⟩ := a
    obtain ⟨rb, sb⟩ := b
    have h1 := h.1
    simp only at h1 ha hb ⊢
    cases ra with
    | ok x =>
      cases rb with
      | ok y => rw [ha x rfl, hb y rfl]
      | err e => simp at h1
    | err e =>
      cases rb with
      | ok y => simp at h1
      | err e' => simpa using h1

-- ---------------------------------------------------------------- cutting lists

theorem PPL.append_nil (p : PPL) : p.append .nil = p := by
  induction p using PPL.ind with
  | nil => rfl
  | prop k ke t hd d tl ih => simp only [PPL.append, ih]

theorem PPL.append_assoc (p q r : PPL) : (p.append q).append r = p.append (q.append r) := by
  induction p using PPL.ind with
  | nil => rfl
  | prop k ke t hd d tl ih => simp only [PPL.append, ih]

theorem PPL.isNil_eq (p : PPL) (h : p.isNil = true) : p = .nil := by
  cases p <;> simp [PPL.isNil] at h
  rfl

theorem PPL.isNil_append (p q : PPL) : (p.append q).isNil = (p.isNil && q.isNil) := by
  cases p <;> simp [PPL.append, PPL.isNil]

theorem bindPPL_append (w : World) (g : Bool) (p q : PPL) : ∀ (hr : Bool) (v : Val) (ex : List Ex) (s : TState),
    bindPPL w g (p.append q) hr v ex s = bindR (bindPPL w g p hr v ex s) fun ex1 s1 => bindPPL w g q hr v ex1 s1 := by
  induction p using PPL.ind with
  | nil => intro hr v ex s; simp only [PPL.append, bindPPL, bindR_ok]
  | prop k ke t hd d tl ih =>
    intro hr v ex s
    simp only [PPL.append, bindPPL, bindR_assoc, ih]

theorem runAL_append (w : World) (g : Bool) (a b : List (Pat × E)) (s : TState) :
    runAL w g (a ++ b) s = bindR (runAL w g a s) fun _ s1 => runAL w g b s1 := by
  induction a generalizing s with
  | nil => rfl
  | cons pe r ih =>
    obtain ⟨p, e⟩ := pe
    simp only [List.cons_append, runAL, bindR_assoc, ih]

theorem runAL_frame (w : World) (g : Bool) (P : Nat → Bool) (k : Nat) (hk : P k = false) :
    ∀ (al : List (Pat × E)) (s : TState), (al.all fun pe => pe.1.wr P && pe.2.wr P) = true → (runAL w g al s).2.tm k = s.tm k := by
  intro al
  induction al with
  | nil => intro s _; rfl
  | cons pe r ih =>
    intro s h
    obtain ⟨p, e⟩ := pe
    simp only [List.all_cons, Bool.and_eq_true] at h
    simp only [runAL]
    refine tm_bind k _ (evalE_frame w g P k hk e s h.1.2) (fun v s1 h1 => ?_)
    refine tm_bind k _ ((bindPat_frame w g P k hk p v s1 h.1.1).trans h1) (fun _ s2 h2 => ?_)
    exact (ih s2 h.2).trans h2

-- ---------------------------------------------------------------- the excluded keys

/-- the entry was made from a key that is not an object (so converting it again is no event and gives the same key) -/
def Ex.ok (e : Ex) : Prop := e.raw.isObject = false ∧ e.key = primKey e.raw

/-- what links an element of the array of captured keys to the excluded name it stands for -/
def CKRel (c : CK) (e : Ex) (tm : Nat → Val) : Prop :=
  match c with
  | .str t => e.raw = .str t
  | .num m => e.raw = .num m
  | .ident x => e.isId = some x
  | .temp j => tm j = e.raw

/-- the array of captured keys, element by element, against the excluded names -/
inductive CapT (tm : Nat → Val) : List CK → List Ex → Prop where
  | nil : CapT tm [] []
  | cons {c : CK} {e : Ex} {cs : List CK} {es : List Ex} : CKRel c e tm → e.ok → CapT tm cs es → CapT tm (c :: cs) (e :: es)

theorem restKeyH_prim (w : World) (raw : Val) (h : H) (hp : raw.isObject = false) :
    restKeyH w raw h = (.ok (primKey raw).toVal, h) := by
  cases raw <;> simp [Val.isObject] at hp <;> rfl

/-- no variable that served as a computed key has changed -/
def noReread (ex : List Ex) (env : Env) : Prop := ∀ e ∈ ex, ∀ x, e.isId = some x → env x = e.raw

theorem evalCKs_ok (w : World) (cap : List CK) (ex : List Ex) (s : TState) (hc : CapT s.tm cap ex)
    (hn : noReread ex s.h.env) : evalCKs w cap s = (.ok ((ex.map (·.key)).map Key.toVal), s) := by
  induction hc with
  | nil => rfl
  | @cons c e cs es hrel hok _ ih =>
    have ih' := ih (fun e' he' => hn e' (List.mem_cons_of_mem _ he'))
    obtain ⟨hraw, hkey⟩ := hok
    simp only [evalCKs, List.map_cons]
    cases c with
    | str t =>
      simp only [CKRel] at hrel
      simp only [bindR_ok, ih', hkey, hrel]; rfl
    | num m =>
      simp only [CKRel] at hrel
      simp only [bindR_ok, ih', hkey, hrel]; rfl
    | ident x =>
      simp only [CKRel] at hrel
      have := hn e (List.mem_cons_self ..) x hrel
      simp only [this, liftH, restKeyH_prim w e.raw s.h hraw, hkey, bindR_ok, ih']
    | temp j =>
      simp only [CKRel] at hrel
      simp only [hrel, liftH, restKeyH_prim w e.raw s.h hraw, hkey, bindR_ok, ih']

theorem CapT.append {c1 c2 : List CK} {e1 e2 : List Ex} {tm : Nat → Val} (h1 : CapT tm c1 e1) (h2 : CapT tm c2 e2) :
    CapT tm (c1 ++ c2) (e1 ++ e2) := by
  induction h1 with
  | nil => exact h2
  | cons h ho _ ih => exact CapT.cons h ho ih

/-- the captured keys only look at the temporaries they name -/
theorem CapT.frame {cap : List CK} {ex : List Ex} {tm tm' : Nat → Val} (h : CapT tm cap ex)
    (hf : ∀ j, CK.temp j ∈ cap → tm' j = tm j) : CapT tm' cap ex := by
  induction h with
  | nil => exact CapT.nil
  | @cons c e cs es hrel hok _ ih =>
    refine CapT.cons ?_ hok (ih (fun j hj => hf j (List.mem_cons_of_mem _ hj)))
    cases c with
    | temp j =>
      have := hf j (List.mem_cons_self ..)
      simpa only [CKRel, this] using hrel
    | _ => exact hrel

end EsbuildModel.Lower3
