import EsbuildModel.Lemmas.SmJoinLink
/-!
# Helper lemmas for `Props/C07Join.lean` — part 7: one round of the linker's loop keeps the invariant
-/
namespace EsbuildModel.SmJoin
open Vlq
open Spec.SourceMapV3 (Ev Orig Seg segsOf LineCol place)

/-- the events the joiner really encodes (shifted by the linker's start state) are the true ones moved by the
linker's column error, which the previous end state shares -/
theorem evs_err (K : Nat) (err : Int) (δ : Shift) (δs : Shift) (evs : List Ev)
    (ha : δs.a = δ.a) (hdl : δs.dl = δ.dl) (hdc : δs.dc = δ.dc) (hb : δs.b = δ.b)
    (hc : δs.c = δ.c + (if K = 0 then err else 0)) :
    List.replicate K Ev.nl ++ shiftEvs δs evs =
      shiftEvs ⟨err, 0, 0, 0, 0⟩ (List.replicate K Ev.nl ++ shiftEvs δ evs) := by
  rw [shiftEvs_nls]
  congr 1
  by_cases hK : K = 0
  · simp only [hK, ↓reduceIte] at hc ⊢
    rw [shiftEvs_col]
    congr 1
    cases δs; cases δ; simp_all
  · simp only [hK, ↓reduceIte] at hc ⊢
    have : (⟨err, 0, 0, 0, 0⟩ : Shift).noCol = {} := rfl
    rw [this, shiftEvs_zero]
    congr 1
    cases δs; cases δ; simp_all

theorem not_ignored_decomp (evs : List Ev) (h : (encEvs {} 0 evs).bytes.all (· == 59) = false) (hs : AllSrc evs) :
    ∃ s c o rest, evs = List.replicate s Ev.nl ++ Ev.seg c (some o) :: rest := by
  rcases evs_decomp evs with ⟨n, rfl⟩ | ⟨s, c, o, rest, rfl⟩
  · rw [encEvs_nls_bytes_all] at h; exact absurd h (by simp)
  · rw [allSrc_append] at hs
    obtain ⟨_, hs2⟩ := hs
    simp only [AllSrc] at hs2
    cases o with
    | none => simp at hs2
    | some o => exact ⟨s, c, o, rest, rfl⟩

/-- the bookkeeping of one round for a real chunk, with the chunk already written as the sequential encoding
of its events -/
theorem link_step_chunk_evs (P : List Ev) (E : LineCol) (names : Int) (s : LinkState) (hinv : LinkInv P E names s)
    (evs : List Ev) (off : Offset) (si : Int) (q : Nat) (fc : Int)
    (hig : (encEvs {} 0 evs).bytes.all (· == 59) = false) (hsrc : AllSrc evs) (hlines : 0 ≤ off.lines) :
    ∃ s', linkStep s ⟨false, off, si,
        ⟨⟨(encEvs {} 0 evs).bytes, (encEvs {} 0 evs).fno⟩, (encEvs {} 0 evs).st, fc,
          (encEvs {} 0 evs).bytes.all (· == 59)⟩, q⟩ = some s' ∧
      LinkInv (P ++ (List.replicate off.lines.toNat Ev.nl ++
          shiftEvs ⟨(E.add ⟨off.lines, off.columns⟩).columns, si, 0, 0, names⟩ evs))
        ((E.add ⟨off.lines, off.columns⟩).add ⟨nlCount evs, fc⟩) (names + q) s' := by
  obtain ⟨s0, c, o, rest, rfl⟩ := not_ignored_decomp evs hig hsrc
  generalize hevs : List.replicate s0 Ev.nl ++ Ev.seg c (some o) :: rest = evs at *
  rw [linkStep_chunk s _ hig rfl]
  simp only
  -- the start state
  generalize hst : startOf s ⟨false, off, si,
        ⟨⟨(encEvs {} 0 evs).bytes, (encEvs {} 0 evs).fno⟩, (encEvs {} 0 evs).st, fc,
          (encEvs {} 0 evs).bytes.all (· == 59)⟩, q⟩ = start
  have hst_gl : start.genLine = off.lines := by subst hst; rfl
  have hst_gc : start.genCol = off.columns + (if off.lines = 0 then s.prevColumnOffset else 0) := by subst hst; rfl
  have hst_a : start.srcIdx = si := by subst hst; rfl
  have hst_dl : start.origLine = 0 := by subst hst; rfl
  have hst_dc : start.origCol = 0 := by subst hst; rfl
  have hst_b : start.origName = s.totalQuotedNameLen := by subst hst; rfl
  have hst_hn : start.hasName = false := by subst hst; rfl
  clear hst
  obtain ⟨hj, hend⟩ := asmc_src s.j s.prevEndState start (by omega) hst_hn s0 c o rest
  rw [hevs] at hj hend
  have hK : start.genLine.toNat = off.lines.toNat := by rw [hst_gl]
  rw [hK] at hj hend
  rw [hj]
  refine ⟨_, rfl, ?_⟩
  -- the true shift, the linker's column error, and what the joiner holds
  generalize hKdef : off.lines.toNat = K at *
  have hK0 : K = 0 ↔ off.lines = 0 := by omega
  generalize hS : E.add ⟨off.lines, off.columns⟩ = S
  have hSc : S.columns = if off.lines = 0 then E.columns + off.columns else off.columns := by
    subst hS; unfold LineCol.add; split <;> rfl
  have hSl : S.lines = E.lines + off.lines := by
    subst hS; unfold LineCol.add; split <;> simp_all
  generalize herr : s.prevColumnOffset - E.columns = err
  have hrel : ShiftRel ⟨err, 0, 0, 0, 0⟩ (encEvs {} 34 P).st s.prevEndState := by
    constructor <;> simp only [Int.add_zero]
    · have := hinv.col; omega
    · exact hinv.a
    · exact hinv.dl
    · exact hinv.dc
    · exact hinv.b
  have hX := evs_err K err ⟨S.columns, si, 0, 0, names⟩ (shiftOfStart start) evs
    (by simp [shiftOfStart, hst_a]) (by simp [shiftOfStart, hst_dl]) (by simp [shiftOfStart, hst_dc])
    (by simp [shiftOfStart, hst_b, hinv.names])
    (by simp only [shiftOfStart, hst_gc, hSc]; by_cases h0 : off.lines = 0 <;> simp [h0, hK0] <;> omega)
  rw [hX] at hend
  obtain ⟨hb, _, hr⟩ := shift_all (List.replicate K Ev.nl ++ shiftEvs ⟨S.columns, si, 0, 0, names⟩ evs)
    ⟨err, 0, 0, 0, 0⟩ _ _ hrel s.j.lastByte
  generalize hXdef : List.replicate K Ev.nl ++ shiftEvs ⟨S.columns, si, 0, 0, names⟩ evs = X at *
  have hnlX : nlCount X = K + nlCount evs := by
    subst hXdef; rw [nlCount_append, nlCount_replicate, nlCount_shiftEvs]
  have hCgl : (encEvs {} 0 evs).st.genLine = nlCount evs := by
    rw [encEvs_genLine]; simp
  have hlast : (encEvs s.prevEndState s.j.lastByte (shiftEvs ⟨err, 0, 0, 0, 0⟩ X)).last =
      (encEvs (encEvs {} 34 P).st (encEvs {} 34 P).last X).last := by
    rw [encEvs_last, encEvs_last, hb, hinv.last]
  rw [hX]
  rw [hinv.last] at hr hend
  -- components of the two shifts
  have hfa : (if hasNl evs then (shiftOfStart start).noCol else shiftOfStart start).a = si := by
    split <;> simp [shiftOfStart, Shift.noCol, hst_a]
  have hfdl : (if hasNl evs then (shiftOfStart start).noCol else shiftOfStart start).dl = 0 := by
    split <;> simp [shiftOfStart, Shift.noCol, hst_dl]
  have hfdc : (if hasNl evs then (shiftOfStart start).noCol else shiftOfStart start).dc = 0 := by
    split <;> simp [shiftOfStart, Shift.noCol, hst_dc]
  have hfb : (if hasNl evs then (shiftOfStart start).noCol else shiftOfStart start).b = s.totalQuotedNameLen := by
    split <;> simp [shiftOfStart, Shift.noCol, hst_b]
  have hfc : (if hasNl evs then (shiftOfStart start).noCol else shiftOfStart start).c =
      if nlCount evs = 0 then start.genCol else 0 := by
    rw [hasNl_iff]; by_cases h0 : nlCount evs = 0 <;> simp [h0, shiftOfStart, Shift.noCol]
  have hea : (if hasNl X then (⟨err, 0, 0, 0, 0⟩ : Shift).noCol else ⟨err, 0, 0, 0, 0⟩).a = 0 := by split <;> rfl
  have hedl : (if hasNl X then (⟨err, 0, 0, 0, 0⟩ : Shift).noCol else ⟨err, 0, 0, 0, 0⟩).dl = 0 := by split <;> rfl
  have hedc : (if hasNl X then (⟨err, 0, 0, 0, 0⟩ : Shift).noCol else ⟨err, 0, 0, 0, 0⟩).dc = 0 := by split <;> rfl
  have heb : (if hasNl X then (⟨err, 0, 0, 0, 0⟩ : Shift).noCol else ⟨err, 0, 0, 0, 0⟩).b = 0 := by split <;> rfl
  have hec : (if hasNl X then (⟨err, 0, 0, 0, 0⟩ : Shift).noCol else ⟨err, 0, 0, 0, 0⟩).c =
      if K + nlCount evs = 0 then err else 0 := by
    rw [hasNl_iff, hnlX]
    by_cases hk : K = 0 <;> by_cases h0 : nlCount evs = 0 <;> simp [hk, h0, Shift.noCol]
  have h1a := hend.a; have h1dl := hend.dl; have h1dc := hend.dc; have h1b := hend.b; have h1c := hend.c
  have h2a := hr.a; have h2dl := hr.dl; have h2dc := hr.dc; have h2b := hr.b; have h2c := hr.c
  rw [hfa] at h1a; rw [hfdl] at h1dl; rw [hfdc] at h1dc; rw [hfb] at h1b; rw [hfc] at h1c
  rw [hea] at h2a; rw [hedl] at h2dl; rw [hedc] at h2dc; rw [heb] at h2b; rw [hec] at h2c
  constructor
  · rw [encEvs_append]; simp only; rw [hinv.data, hb, hinv.last]
  · rw [encEvs_append]; simp only; rw [hlast]
  · rw [encEvs_append]; simp only; omega
  · rw [encEvs_append]; simp only; omega
  · rw [encEvs_append]; simp only; omega
  · rw [encEvs_append]; simp only
    rw [h1b] at h2b
    rw [← Int.add_zero (encEvs (encEvs {} 34 P).st (encEvs {} 34 P).last X).st.origName, ← h2b]
  · rw [encEvs_append]; simp only [hCgl]
    have hcol : ((S.add ⟨nlCount evs, fc⟩).columns) = if nlCount evs = 0 then S.columns + fc else fc := by
      unfold LineCol.add; by_cases h0 : nlCount evs = 0 <;> simp [h0]
    rw [hcol]
    by_cases h0 : nlCount evs = 0 <;> by_cases hk : K = 0 <;> by_cases hl0 : off.lines = 0 <;>
      simp [h0, hk, hl0] at h1c h2c hSc hst_gc hK0 ⊢ <;> omega
  · rw [nlCount_append, hnlX]
    have hl : ((S.add ⟨nlCount evs, fc⟩).lines) = S.lines + nlCount evs := by
      unfold LineCol.add; by_cases h0 : nlCount evs = 0 <;> simp [h0]
    rw [hl, hSl, hinv.lines]; omega
  · simp only; rw [hinv.names]

/-- the bookkeeping of one round for a null entry -/
theorem link_step_null (P : List Ev) (E : LineCol) (names : Int) (s : LinkState) (hinv : LinkInv P E names s)
    (si : Int) :
    ∃ s', linkStep s (Piece.null si).toLinkIn = some s' ∧
      LinkInv (P ++ [Ev.seg E.columns none]) E names s' := by
  rw [Piece.toLinkIn, linkStep_null s _ rfl rfl]
  simp only
  generalize hst : startOf s ⟨true, {}, si, ⟨⟨[], none⟩, {}, 0, false⟩, 0⟩ = start
  have hst_gl : start.genLine = 0 := by subst hst; rfl
  have hst_gc : start.genCol = s.prevColumnOffset := by subst hst; simp [startOf]
  have hst_hn : start.hasName = false := by subst hst; rfl
  clear hst
  obtain ⟨hj, hE⟩ := asmc_null s.j s.prevEndState start (by omega) hst_hn
  rw [hj]
  refine ⟨_, rfl, ?_⟩
  simp only [hst_gl, Int.toNat_zero, List.replicate_zero, List.nil_append, ↓reduceIte] at hE ⊢
  generalize herr : s.prevColumnOffset - E.columns = err
  have hrel : ShiftRel ⟨err, 0, 0, 0, 0⟩ (encEvs {} 34 P).st s.prevEndState := by
    constructor <;> simp only [Int.add_zero]
    · have := hinv.col; omega
    · exact hinv.a
    · exact hinv.dl
    · exact hinv.dc
    · exact hinv.b
  obtain ⟨hb, _, hr⟩ := shift_all [Ev.seg E.columns none] ⟨err, 0, 0, 0, 0⟩ _ _ hrel s.j.lastByte
  have hX : shiftEvs ⟨err, 0, 0, 0, 0⟩ [Ev.seg E.columns none] = [Ev.seg start.genCol none] := by
    simp only [shiftEvs, Option.map_none]
    congr 2; omega
  rw [hX] at hb hr
  have hlast : (encEvs s.prevEndState s.j.lastByte [Ev.seg start.genCol none]).last =
      (encEvs (encEvs {} 34 P).st (encEvs {} 34 P).last [Ev.seg E.columns none]).last := by
    rw [encEvs_last, encEvs_last, hb, hinv.last]
  have hst' : (encEvs (encEvs {} 34 P).st (encEvs {} 34 P).last [Ev.seg E.columns none]).st =
      { (encEvs {} 34 P).st with genCol := E.columns, hasName := false } := by
    simp [encEvs, encOne, curOf, nextOf]
  constructor
  · rw [encEvs_append]; simp only; rw [hinv.data, hb, hinv.last]
  · rw [encEvs_append]; simp only; rw [hlast]
  · rw [encEvs_append]; simp only; rw [hst']; exact hinv.a
  · rw [encEvs_append]; simp only; rw [hst']; exact hinv.dl
  · rw [encEvs_append]; simp only; rw [hst']; exact hinv.dc
  · rw [encEvs_append]; simp only; rw [hst']; exact hinv.b
  · rw [encEvs_append]; simp only; rw [hst']; simp only; omega
  · rw [nlCount_append]; simp only [nlCount]; have := hinv.lines; omega
  · exact hinv.names

end EsbuildModel.SmJoin
