import EsbuildModel.Lemmas.ScopesLookupThm
/-!
The converse of Lemmas/ScopesErrThm.lean on flat programs: an early error makes the parser report a redeclaration error.
First part: hoistSymbols on a tree on which it hoists nothing reports every static error.
-/
namespace EsbuildModel.Scopes
open JsScopes

theorem mem_insertNat' {a s : Nat} : ∀ {l : List Nat}, (s = a ∨ s ∈ l) → s ∈ insertNat a l
  | [], h => by simpa [insertNat] using h
  | b :: bs, h => by
    simp only [insertNat]
    split
    · simpa using h
    · simp only [List.mem_cons] at h ⊢
      rcases h with h | h | h
      · exact Or.inr (mem_insertNat' (Or.inl h))
      · exact Or.inl h
      · exact Or.inr (mem_insertNat' (Or.inr h))

theorem mem_sortRefs' {s : Nat} : ∀ {l : List Nat}, s ∈ l → s ∈ sortRefs l
  | [], h => by simp at h
  | a :: l, h => by
    simp only [sortRefs, List.foldr_cons]
    simp only [List.mem_cons] at h
    rcases h with h | h
    · exact mem_insertNat' (Or.inl h)
    · exact mem_insertNat' (Or.inr (mem_sortRefs' (l := l) h))

/-- the member `m` makes hoistSymbols report "already declared" against the enclosing catch scope -/
def catchHit (syms : Syms) (anc : List Frame) (m : Nat) : Prop :=
  ∃ s p rest, syms[m]? = some s ∧ anc = p :: rest ∧ p.kind = .catchBinding ∧ s.kind ≠ .hoisted ∧
    (lookup s.name p.members).isSome = true

theorem hoistMember_flat_errs {anc anc' : List Frame} {f f' : Frame} {st st' : HSt} {mref : Nat} {s : Sym}
    (hs : st.syms[mref]? = some s) (hk : s.kind.isHoisted = false)
    (h : hoistMember anc f st mref = some (anc', f', st')) :
    ∃ es, st'.errs = st.errs ++ es ∧ (catchHit st.syms anc mref → es ≠ []) := by
  unfold hoistMember at h
  rw [hs] at h
  cases anc with
  | nil => simp at h
  | cons p rest =>
    simp only at h
    split at h
    · cases h; exact ⟨[s.name], rfl, fun _ => by simp⟩
    · next hc =>
      simp only [hk, Bool.not_false, if_true] at h
      cases h
      refine ⟨[], by simp, fun ⟨s', p', rest', hs', hanc, h1, h2, h3⟩ => ?_⟩
      rw [hs] at hs'; cases hs'
      cases hanc
      exact absurd ⟨h1, h2, h3⟩ hc

theorem hoistMembers_flat_errs : ∀ (ms : List Nat) {anc anc' : List Frame} {f f' : Frame} {st st' : HSt},
    (∀ m, m ∈ ms → ∃ s, st.syms[m]? = some s ∧ s.kind.isHoisted = false) →
    hoistMembers anc f st ms = some (anc', f', st') →
    ∃ es, st'.errs = st.errs ++ es ∧ ((∃ m, m ∈ ms ∧ catchHit st.syms anc m) → es ≠ [])
  | [], _, _, _, _, _, _, _, h => by
    simp only [hoistMembers] at h; cases h
    exact ⟨[], by simp, fun ⟨m, hm, _⟩ => by simp at hm⟩
  | m :: ms, anc, anc', f, f', st, st', hm, h => by
    simp only [hoistMembers] at h
    split at h
    · cases h
    · next a1 f1 s1 h1 =>
      obtain ⟨s, hs, hk⟩ := hm m (by simp)
      obtain ⟨e1, e2, e3, _⟩ := hoistMember_flat hs hk h1
      obtain ⟨es1, he1, hh1⟩ := hoistMember_flat_errs hs hk h1
      subst e1; subst e2
      obtain ⟨es2, he2, hh2⟩ := hoistMembers_flat_errs ms (fun m' hm' => by rw [e3]; exact hm m' (by simp [hm'])) h
      refine ⟨es1 ++ es2, by rw [he2, he1, List.append_assoc], fun ⟨m', hm', hit⟩ => ?_⟩
      simp only [List.mem_cons] at hm'
      rcases hm' with hm' | hm'
      · subst hm'; have := hh1 hit; simp [this]
      · have := hh2 ⟨m', hm', by rw [e3]; exact hit⟩; simp [this]

/-- the duplicate function check reports every duplicate -/
theorem dupFnErrs_conv {syms : Syms} {f : Frame} {af : AFrame} (hf : RelF syms f af) :
    ∀ (rs : List Nat) (ar : List (Name × SK)) (es : List Name), RelR syms rs ar → dupFnErrs f syms rs = some es →
    ar.any (fun p => p.2.isFunction && (match alookup p.1 af.mem with | some k => k.isFunction | none => false)) = true →
    es ≠ []
  | [], [], _, _, _, hany => by simp at hany
  | [], _ :: _, _, hr, _, _ => by simp [RelR] at hr
  | _ :: _, [], _, hr, _, _ => by simp [RelR] at hr
  | r :: rs, (n, k) :: ar, es, hr, h, hany => by
    simp only [RelR, List.map_cons, List.cons.injEq] at hr
    obtain ⟨hinfo, hrest⟩ := hr
    have hsym : ∃ sym, syms[r]? = some sym ∧ sym.kind = k ∧ sym.name = n := by
      unfold infoOf? at hinfo
      cases hs : syms[r]? with
      | none => rw [hs] at hinfo; cases hinfo
      | some sym =>
        rw [hs] at hinfo
        simp only [Option.map_some, Option.some.injEq, Prod.mk.injEq] at hinfo
        exact ⟨sym, rfl, hinfo.1, hinfo.2⟩
    obtain ⟨sym, hsym, hsk, hsn⟩ := hsym
    simp only [dupFnErrs, hsym] at h
    cases hrec : dupFnErrs f syms rs with
    | none => rw [hrec] at h; simp at h
    | some es0 =>
      rw [hrec] at h
      simp only at h
      simp only [List.any_cons, Bool.or_eq_true] at hany
      rcases hany with hany | hany
      · simp only [Bool.and_eq_true] at hany
        obtain ⟨hkf, hmem⟩ := hany
        rw [hsk, hkf] at h
        simp only [if_true, hsn] at h
        cases hal : alookup n af.mem with
        | none => rw [hal] at hmem; simp at hmem
        | some k' =>
          rw [hal] at hmem
          obtain ⟨mr, hl, hi⟩ := RelM.alookup_some hf.mem hal
          rw [hl] at h
          simp only [kindOf_of_info hi, hmem, if_true, Option.some.injEq] at h
          rw [← h]; simp
      · have ih := dupFnErrs_conv hf rs ar es0 hrest hrec hany
        split at h
        · split at h
          · cases h; exact ih
          · split at h
            · cases h
            · split at h <;> (cases h; first | exact ih | simp)
        · cases h; exact ih

theorem relM_entry {syms : Syms} {n : Name} {k : SK} : ∀ {m : Members} {am : AMembers}, RelM syms m am → (n, k) ∈ am →
    ∃ r, (n, r) ∈ m ∧ infoOf? syms r = some (k, n)
  | [], [], _, h => by simp at h
  | [], _ :: _, hr, _ => by simp [RelM] at hr
  | _ :: _, [], hr, _ => by simp [RelM] at hr
  | (n1, r1) :: m, (n2, k2) :: am, hr, h => by
    simp only [RelM, List.map_cons, List.cons.injEq, Prod.mk.injEq] at hr
    simp only [List.mem_cons, Prod.mk.injEq] at h
    rcases h with ⟨h1, h2⟩ | h
    · subst h1; subst h2
      exact ⟨r1, by simp [hr.1.1], hr.1.2⟩
    · obtain ⟨r, h3, h4⟩ := relM_entry (m := m) (am := am) hr.2 h
      exact ⟨r, by simp [h3], h4⟩

/-- the closest enclosing scope against what the parse pass left of it -/
def TopRel (syms : Syms) : List Frame → List AFrame → Prop
  | [], [] => True
  | p :: _, ap :: _ => RelF syms p ap
  | _, _ => False

mutual
theorem hoistSc_flat_conv (esm : Bool) : ∀ (sc : Sc) (at_ : AT) (anc : List Frame) (aanc : List AFrame) (st : HSt)
    (anc' : List Frame) (sc' : Sc) (st' : HSt),
    hoistSc esm anc sc st = some (anc', sc', st') → RelT st.syms sc at_ → noHoistSc st.syms sc → TopRel st.syms anc aanc →
    ∃ es, st'.errs = st.errs ++ es ∧ (at_.staticErr esm aanc = true → es ≠ [])
  | .node f kids, .node af akids, anc, aanc, st, anc', sc', st', h, hrt, hnh, htop => by
    simp only [RelT] at hrt
    obtain ⟨hf, hkids⟩ := hrt
    simp only [noHoistSc] at hnh
    simp only [hoistSc] at h
    have hroot : (anc = []) ↔ aanc.isEmpty = true := by
      cases anc <;> cases aanc <;> simp_all [TopRel]
    split at h
    · cases h
    · next es1 hes1 =>
      split at h
      · cases h
      · next anc1 f1 st2 hr =>
        -- the members: nothing is hoisted, the check against an enclosing catch scope is made
        have hmem : anc1 = anc ∧ f1 = f ∧ st2.syms = st.syms ∧
            ∃ es2, st2.errs = st.errs ++ es1 ++ es2 ∧
              ((!af.kind.stopsHoisting && (e3Top af aanc || e4 af aanc)) = true → es2 ≠ []) := by
          split at hr
          · next hstop =>
            cases hr
            refine ⟨rfl, rfl, rfl, [], by simp, fun hc => ?_⟩
            rw [← hf.kind, hstop] at hc; simp at hc
          · next hstop =>
            have h0 : ∀ m, m ∈ refsOf f.members → ∃ s, st.syms[m]? = some s ∧ s.kind.isHoisted = false := by
              rcases hnh.1 with h0 | h0
              · exact absurd h0 hstop
              · exact h0
            obtain ⟨e1, e2, e3, _⟩ := hoistMembers_flat _ (st := { st with errs := st.errs ++ es1 })
              (fun m hm => h0 m (mem_sortRefs hm)) hr
            obtain ⟨es2, he2, hh2⟩ := hoistMembers_flat_errs _ (st := { st with errs := st.errs ++ es1 })
              (fun m hm => h0 m (mem_sortRefs hm)) hr
            refine ⟨e1, e2, e3, es2, he2, fun hc => hh2 ?_⟩
            simp only [Bool.and_eq_true, Bool.or_eq_true] at hc
            rcases hc.2 with hc3 | hc4
            · -- e3
              cases aanc with
              | nil => simp [e3Top] at hc3
              | cons ap arest =>
                cases anc with
                | nil => simp [TopRel] at htop
                | cons p rest =>
                  simp only [TopRel] at htop
                  have hc3' := (Bool.and_eq_true _ _).mp (show (ap.kind == ScK.catchBinding &&
                    af.mem.any (fun p => p.2 != SK.hoisted && (alookup p.1 ap.mem).isSome)) = true from hc3)
                  obtain ⟨hpk0, hany⟩ := hc3'
                  have hpk : ap.kind = ScK.catchBinding := by simpa using hpk0
                  simp only [List.any_eq_true, Bool.and_eq_true, bne_iff_ne, ne_eq] at hany
                  obtain ⟨⟨n, k⟩, hmem, hkh, hal⟩ := hany
                  simp only at hkh hal
                  obtain ⟨r, hr1, hr2⟩ := relM_entry hf.mem hmem
                  have hrm : r ∈ refsOf f.members := by
                    simp only [refsOf, List.mem_map]; exact ⟨(n, r), hr1, rfl⟩
                  obtain ⟨s, hs, _⟩ := h0 r hrm
                  have hsk : s.kind = k ∧ s.name = n := by
                    simpa [infoOf?, hs] using hr2
                  refine ⟨r, mem_sortRefs' hrm, s, p, rest, hs, rfl, by rw [htop.kind]; exact hpk, by rw [hsk.1]; exact hkh, ?_⟩
                  rw [hsk.2]
                  cases hl : lookup n p.members with
                  | some _ => rfl
                  | none => rw [RelM.lookup_none htop.mem hl] at hal; simp at hal
            · -- e4: there is no `var` to hoist
              exfalso
              simp only [e4, List.any_eq_true, Bool.and_eq_true, beq_iff_eq] at hc4
              obtain ⟨⟨n, k⟩, hmem, hkh, _⟩ := hc4
              simp only at hkh
              obtain ⟨r, hr1, hr2⟩ := relM_entry hf.mem hmem
              have hrm : r ∈ refsOf f.members := by
                simp only [refsOf, List.mem_map]; exact ⟨(n, r), hr1, rfl⟩
              obtain ⟨s, hs, hsh⟩ := h0 r hrm
              have hsk : s.kind = k := by
                have : s.kind = k ∧ s.name = n := by simpa [infoOf?, hs] using hr2
                exact this.1
              rw [hsk, hkh] at hsh; simp [SK.isHoisted] at hsh
        obtain ⟨e1, e2, e3, es2, he2, hh2⟩ := hmem
        subst e1; subst e2
        split at h
        · next f2 anc2 kids' st3 hk =>
          cases h
          obtain ⟨es3, he3, hh3⟩ := hoistKids_flat_conv esm kids akids (f1 :: anc1) (af :: aanc) st2 _ _ _ hk
            (by rw [e3]; exact hkids) (by rw [e3]; exact hnh.2) (by simp only [TopRel]; rw [e3]; exact hf)
          refine ⟨es1 ++ es2 ++ es3, by rw [he3, he2]; simp [List.append_assoc], fun hse => ?_⟩
          simp only [AT.staticErr, Bool.or_eq_true] at hse
          rcases hse with (hse | hse) | hse
          · -- e2
            have : es1 ≠ [] := by
              simp only [e2, Bool.and_eq_true] at hse
              have hcond : (f1.strict ≠ 0 ∧ f1.kind = ScK.block) ∨ (anc1 = [] ∧ esm = true) := by
                rcases Bool.or_eq_true .. |>.mp hse.1 with hc | hc
                · left
                  simp only [Bool.and_eq_true, bne_iff_ne, ne_eq, beq_iff_eq] at hc
                  exact ⟨by rw [hf.strict]; exact hc.1, by rw [hf.kind]; exact hc.2⟩
                · right
                  simp only [Bool.and_eq_true] at hc
                  exact ⟨hroot.mpr hc.1, hc.2⟩
              simp only [hcond, if_true] at hes1
              exact dupFnErrs_conv hf _ _ _ hf.rep hes1 hse.2
            simp [this]
          · have := hh2 hse; simp [this]
          · have := hh3 hse; simp [this]
        · cases h
theorem hoistKids_flat_conv (esm : Bool) : ∀ (ks : List Sc) (aks : List AT) (anc : List Frame) (aanc : List AFrame) (st : HSt)
    (anc' : List Frame) (ks' : List Sc) (st' : HSt),
    hoistKids esm anc ks st = some (anc', ks', st') → RelTs st.syms ks aks → noHoistKids st.syms ks →
    TopRel st.syms anc aanc →
    ∃ es, st'.errs = st.errs ++ es ∧ (kidsStaticErr esm aanc aks = true → es ≠ [])
  | [], [], anc, aanc, st, anc', ks', st', h, _, _, _ => by
    simp only [hoistKids] at h; cases h
    exact ⟨[], by simp, fun hc => by simp [kidsStaticErr] at hc⟩
  | [], _ :: _, _, _, _, _, _, _, _, hr, _, _ => by simp [RelTs] at hr
  | _ :: _, [], _, _, _, _, _, _, _, hr, _, _ => by simp [RelTs] at hr
  | k :: ks, ak :: aks, anc, aanc, st, anc', ks', st', h, hr, hn, htop => by
    simp only [RelTs] at hr
    simp only [noHoistKids] at hn
    simp only [hoistKids] at h
    split at h
    · cases h
    · next a1 k1 s1 h1 =>
      obtain ⟨e1, e2, e3, _⟩ := hoistSc_flat esm k anc st _ _ _ h1 hn.1
      obtain ⟨es1, he1, hh1⟩ := hoistSc_flat_conv esm k ak anc aanc st _ _ _ h1 hr.1 hn.1 htop
      subst e1; subst e2
      split at h
      · cases h
      · next a2 ks2 s2 h2 =>
        cases h
        obtain ⟨es2, he2, hh2⟩ := hoistKids_flat_conv esm ks aks a1 aanc s1 _ _ _ h2 (by rw [e3]; exact hr.2)
          (by rw [e3]; exact hn.2) (by rw [e3]; exact htop)
        refine ⟨es1 ++ es2, by rw [he2, he1, List.append_assoc], fun hc => ?_⟩
        simp only [kidsStaticErr, Bool.or_eq_true] at hc
        rcases hc with hc | hc
        · have := hh1 hc; simp [this]
        · have := hh2 hc; simp [this]
end

-- second part: a conflict between declarations makes the parse pass report an error ----------------------------------------

/-- let / const / class -/
def isLexical (k : SK) : Bool := k == .other || k == .const_ || k == .class_

/-- a lexical declaration after anything but `arguments` is an error -/
theorem canMerge_new_lexical {sk : ScK} {ek k : SK} (hk : isLexical k = true ∨ k = .catchIdentifier) (hu : ek ≠ .unbound)
    (ha : ek ≠ .arguments) : canMergeSymbols sk ek k = .forbidden := by
  have hk' : k = .other ∨ k = .const_ ∨ k = .class_ ∨ k = .catchIdentifier := by
    rcases hk with hk | hk
    · simp only [isLexical, Bool.or_eq_true, beq_iff_eq] at hk
      rcases hk with (h | h) | h <;> simp [h]
    · simp [hk]
  rcases hk' with rfl | rfl | rfl | rfl <;>
    simp [canMergeSymbols, SK.isHoistedOrFunction, SK.isHoisted, hu, ha]

/-- anything after a lexical declaration is an error -/
theorem canMerge_old_lexical {sk : ScK} {ek k : SK} (he : isLexical ek = true) (hk : k.plain = true) :
    canMergeSymbols sk ek k = .forbidden := by
  have he' : ek = .other ∨ ek = .const_ ∨ ek = .class_ := by
    simp only [isLexical, Bool.or_eq_true, beq_iff_eq] at he
    rcases he with (h | h) | h <;> simp [h]
  rcases he' with rfl | rfl | rfl <;> cases k <;> simp [SK.plain] at hk <;>
    simp [canMergeSymbols, SK.isHoistedOrFunction, SK.isHoisted]

theorem aDeclare_has (f : AFrame) (k : SK) (n n' : Name) (h : (alookup n' f.mem).isSome = true ∨ n' = n) :
    (alookup n' (aDeclare f k n).1.mem).isSome = true := by
  unfold aDeclare
  split
  · simp only [alookup_ainsert]
    split
    · rfl
    · next hne => rcases h with h | h
                  · exact h
                  · exact absurd h hne
  · next ek hek =>
    have h' : (alookup n' f.mem).isSome = true := by
      rcases h with h | h
      · exact h
      · rw [h, hek]; rfl
    split <;> simp only [alookup_ainsert] <;> (first | exact h' | (split <;> first | rfl | exact h'))

theorem declFold_has : ∀ (ds : List (SK × Name)) (f : AFrame) (n : Name),
    ((alookup n f.mem).isSome = true ∨ ∃ k, (k, n) ∈ ds) → (alookup n (declFold f ds).1.mem).isSome = true
  | [], f, n, h => by
    rcases h with h | ⟨k, h⟩
    · exact h
    · simp at h
  | (k, m) :: ds, f, n, h => by
    simp only [declFold]
    apply declFold_has ds
    rcases h with h | ⟨k', h⟩
    · exact Or.inl (aDeclare_has f k m n (Or.inl h))
    · simp only [List.mem_cons, Prod.mk.injEq] at h
      rcases h with ⟨_, h2⟩ | h
      · exact Or.inl (aDeclare_has f k m n (Or.inr h2))
      · exact Or.inr ⟨k', h⟩

/-- a forbidden merge somewhere in the sequence is reported -/
theorem declFold_err_split (f : AFrame) (pre post : List (SK × Name)) (k ek : SK) (n : Name)
    (hek : alookup n (declFold f pre).1.mem = some ek) (hc : canMergeSymbols f.kind ek k = .forbidden) :
    (declFold f (pre ++ (k, n) :: post)).2 ≠ [] := by
  rw [declFold_append]
  simp only [declFold]
  have hk : (declFold f pre).1.kind = f.kind := (declFold_kind pre f).1
  have : (aDeclare (declFold f pre).1 k n).2 = true := by
    unfold aDeclare
    rw [hek]
    simp only [hk, hc]
  simp [this]

theorem exists_first {α : Type} (P : α → Prop) [DecidablePred P] : ∀ (l : List α), (∃ x, x ∈ l ∧ P x) →
    ∃ pre x post, l = pre ++ x :: post ∧ P x ∧ ∀ y, y ∈ pre → ¬ P y
  | [], h => by obtain ⟨x, hx, _⟩ := h; simp at hx
  | a :: l, h => by
    by_cases ha : P a
    · exact ⟨[], a, l, rfl, ha, fun y hy => by simp at hy⟩
    · have : ∃ x, x ∈ l ∧ P x := by
        obtain ⟨x, hx, hp⟩ := h
        simp only [List.mem_cons] at hx
        rcases hx with hx | hx
        · subst hx; exact absurd hp ha
        · exact ⟨x, hx, hp⟩
      obtain ⟨pre, x, post, e, hp, hpre⟩ := exists_first P l this
      refine ⟨a :: pre, x, post, by rw [e]; rfl, hp, fun y hy => ?_⟩
      simp only [List.mem_cons] at hy
      rcases hy with hy | hy
      · subst hy; exact ha
      · exact hpre y hy

theorem count_pos_mem {n : Name} : ∀ {ds : List (SK × Name)}, 1 ≤ (ds.map (·.2)).count n → ∃ k, (k, n) ∈ ds
  | [], h => by simp at h
  | (k, m) :: ds, h => by
    by_cases hm : m = n
    · subst hm; exact ⟨k, by simp⟩
    · simp only [List.map_cons, List.count_cons, beq_iff_eq, hm, if_false, Nat.add_zero] at h
      obtain ⟨k', hk'⟩ := count_pos_mem (ds := ds) h
      exact ⟨k', by simp [hk']⟩

theorem count_zero_of_none {n : Name} {ds : List (SK × Name)} (h : ∀ k, (k, n) ∉ ds) : (ds.map (·.2)).count n = 0 := by
  rcases Nat.eq_zero_or_pos ((ds.map (·.2)).count n) with h0 | h0
  · exact h0
  · obtain ⟨k, hk⟩ := count_pos_mem (ds := ds) h0
    exact absurd hk (h k)

/-- after a first declaration of `n` in a scope that did not have it, the next declaration of `n` meets the kind of the
first one -/
theorem second_decl_err (f : AFrame) (ds : List (SK × Name)) (n : Name) (hnp : noPairDecls ds)
    (hinit : alookup n f.mem = none) (hcount : 2 ≤ (ds.map (·.2)).count n)
    (hbad : ∀ k1 k2, (k1, n) ∈ ds → (k2, n) ∈ ds → canMergeSymbols f.kind k1 k2 = .forbidden) :
    (declFold f ds).2 ≠ [] := by
  obtain ⟨k0, hk0⟩ := count_pos_mem (ds := ds) (Nat.le_trans (by decide) hcount)
  obtain ⟨pre, ⟨k1, n1⟩, post, e, hp, hpre⟩ := exists_first (fun d : SK × Name => d.2 = n) ds ⟨(k0, n), hk0, rfl⟩
  simp only at hp
  subst hp
  have hpre0 : (pre.map (·.2)).count n1 = 0 := count_zero_of_none (fun k hk => hpre (k, n1) hk rfl)
  have hpost : 1 ≤ (post.map (·.2)).count n1 := by
    rw [e] at hcount
    simp only [List.map_append, List.map_cons, List.count_append, List.count_cons, beq_self_eq_true, if_true, hpre0] at hcount
    omega
  obtain ⟨kx, hkx⟩ := count_pos_mem (ds := post) hpost
  obtain ⟨p1, ⟨k2, n2⟩, p2, e2, hp2, hp1⟩ := exists_first (fun d : SK × Name => d.2 = n1) post ⟨(kx, n1), hkx, rfl⟩
  simp only at hp2
  subst hp2
  have hds : ds = (pre ++ (k1, n2) :: p1) ++ (k2, n2) :: p2 := by rw [e, e2]; simp
  have hnp1 : noPairDecls (pre ++ (k1, n2) :: p1) := fun d hd => hnp d (by rw [hds]; exact List.mem_append_left _ hd)
  have hhas := declFold_has (pre ++ (k1, n2) :: p1) f n2 (Or.inr ⟨k1, by simp⟩)
  cases hek : alookup n2 (declFold f (pre ++ (k1, n2) :: p1)).1.mem with
  | none => rw [hek] at hhas; cases hhas
  | some ek =>
    rcases declFold_lookup _ f n2 ek hnp1 hek with h1 | h1
    · rw [hinit] at h1; cases h1
    · have hek1 : ek = k1 := by
        simp only [List.mem_append, List.mem_cons, Prod.mk.injEq] at h1
        rcases h1 with h1 | ⟨h1, _⟩ | h1
        · exact absurd rfl (hpre (ek, n2) h1)
        · exact h1
        · exact absurd rfl (hp1 (ek, n2) h1)
      subst hek1
      rw [hds]
      exact declFold_err_split f _ p2 k2 ek n2 hek
        (hbad ek k2 (by rw [hds]; simp) (by rw [hds]; simp))

/-- a lexical declaration of a name that the scope also holds or declares otherwise is an error -/
theorem lex_conflict_err (f : AFrame) (ds : List (SK × Name)) (n : Name) (hnp : noPairDecls ds)
    (hplain : ∀ d, d ∈ ds → d.1.plain = true ∧ d.1 ≠ .catchIdentifier)
    (hinit : ∀ ek, alookup n f.mem = some ek → ek ≠ .unbound ∧ ek ≠ .arguments)
    (hlex : ∃ kl, (kl, n) ∈ ds ∧ isLexical kl = true)
    (hother : (alookup n f.mem).isSome = true ∨ 2 ≤ (ds.map (·.2)).count n) :
    (declFold f ds).2 ≠ [] := by
  obtain ⟨kl0, hkl0, hl0⟩ := hlex
  obtain ⟨pre, ⟨kl, n1⟩, post, e, hp, hpre⟩ :=
    exists_first (fun d : SK × Name => d.2 = n ∧ isLexical d.1 = true) ds ⟨(kl0, n), hkl0, rfl, hl0⟩
  simp only at hp
  obtain ⟨hn1, hlk⟩ := hp
  subst hn1
  have hnp1 : noPairDecls pre := fun d hd => hnp d (by rw [e]; exact List.mem_append_left _ hd)
  cases hek : alookup n1 (declFold f pre).1.mem with
  | some ek =>
    -- something is there already: it is not lexical
    rw [e]
    refine declFold_err_split f pre post kl ek n1 hek (canMerge_new_lexical (Or.inl hlk) ?_ ?_)
    · rcases declFold_lookup _ f n1 ek hnp1 hek with h1 | h1
      · exact (hinit ek h1).1
      · have := (hplain (ek, n1) (by rw [e]; exact List.mem_append_left _ h1)).1
        exact SK.plain_ne_unbound this
    · rcases declFold_lookup _ f n1 ek hnp1 hek with h1 | h1
      · exact (hinit ek h1).2
      · have := (hplain (ek, n1) (by rw [e]; exact List.mem_append_left _ h1)).1
        exact SK.plain_ne_arguments this
  | none =>
    -- this is the first declaration of the name: the next one collides with it
    have hinit0 : alookup n1 f.mem = none := by
      cases hi : alookup n1 f.mem with
      | none => rfl
      | some x =>
        have := declFold_has pre f n1 (Or.inl (by simp [hi]))
        rw [hek] at this; cases this
    have hpre0 : ∀ k, (k, n1) ∉ pre := by
      intro k hk
      have := declFold_has pre f n1 (Or.inr ⟨k, hk⟩)
      rw [hek] at this; cases this
    have hcount : 2 ≤ (ds.map (·.2)).count n1 := by
      rcases hother with h | h
      · rw [hinit0] at h; cases h
      · exact h
    have hpost : 1 ≤ (post.map (·.2)).count n1 := by
      rw [e] at hcount
      simp only [List.map_append, List.map_cons, List.count_append, List.count_cons, beq_self_eq_true, if_true,
        count_zero_of_none hpre0] at hcount
      omega
    obtain ⟨kx, hkx⟩ := count_pos_mem (ds := post) hpost
    obtain ⟨p1, ⟨k2, n2⟩, p2, e2, hp2, hp1⟩ := exists_first (fun d : SK × Name => d.2 = n1) post ⟨(kx, n1), hkx, rfl⟩
    simp only at hp2
    subst hp2
    have hds : ds = (pre ++ (kl, n2) :: p1) ++ (k2, n2) :: p2 := by rw [e, e2]; simp
    have hnp2 : noPairDecls (pre ++ (kl, n2) :: p1) := fun d hd => hnp d (by rw [hds]; exact List.mem_append_left _ hd)
    have hhas := declFold_has (pre ++ (kl, n2) :: p1) f n2 (Or.inr ⟨kl, by simp⟩)
    cases hek2 : alookup n2 (declFold f (pre ++ (kl, n2) :: p1)).1.mem with
    | none => rw [hek2] at hhas; cases hhas
    | some ek =>
      rcases declFold_lookup _ f n2 ek hnp2 hek2 with h1 | h1
      · rw [hinit0] at h1; cases h1
      · have hekl : ek = kl := by
          simp only [List.mem_append, List.mem_cons, Prod.mk.injEq] at h1
          rcases h1 with h1 | ⟨h1, _⟩ | h1
          · exact absurd h1 (hpre0 ek)
          · exact h1
          · exact absurd rfl (hp1 (ek, n2) h1)
        subst hekl
        rw [hds]
        exact declFold_err_split f _ p2 k2 ek n2 hek2
          (canMerge_old_lexical hlk (hplain (k2, n2) (by rw [hds]; simp)).1)

-- the scopes of a function ------------------------------------------------------------------------------------------------

theorem aDeclare_lookup_other (f : AFrame) (k : SK) (n n' : Name) (h : n' ≠ n) :
    alookup n' (aDeclare f k n).1.mem = alookup n' f.mem := by
  unfold aDeclare
  split
  · simp [alookup_ainsert, h]
  · split <;> simp [alookup_ainsert, h]

theorem declFold_params_kind (n : Name) : ∀ (ps : List Name) (f : AFrame), f.kind = .fnArgs →
    (∀ ek, alookup n f.mem = some ek → ek = .hoisted ∨ ek = .hoistedFunction) → n ∈ ps →
    alookup n (declFold f (ps.map (fun p => (SK.hoisted, p)))).1.mem = some .hoisted
  | [], _, _, _, h => by simp at h
  | p :: ps, f, hk, hinit, h => by
    simp only [List.map_cons, declFold]
    have hk' : (aDeclare f .hoisted p).1.kind = .fnArgs := by rw [(aDeclare_kind f .hoisted p).1]; exact hk
    by_cases hpn : p = n
    · subst hpn
      have hnow : alookup p (aDeclare f .hoisted p).1.mem = some .hoisted := by
        unfold aDeclare
        cases hl : alookup p f.mem with
        | none => simp [alookup_ainsert]
        | some ek =>
          rcases hinit ek hl with rfl | rfl <;> simp [hk, canMergeSymbols, SK.isHoistedOrFunction, SK.isHoisted, alookup_ainsert]
      by_cases hps : p ∈ ps
      · exact declFold_params_kind p ps _ hk' (fun ek hek => by rw [hnow] at hek; cases hek; exact Or.inl rfl) hps
      · -- no later parameter has this name
        have : ∀ (ps : List Name) (g : AFrame), p ∉ ps →
            alookup p (declFold g (ps.map (fun q => (SK.hoisted, q)))).1.mem = alookup p g.mem := by
          intro ps
          induction ps with
          | nil => intro g _; rfl
          | cons q qs ih =>
            intro g hq
            simp only [List.mem_cons, not_or] at hq
            simp only [List.map_cons, declFold]
            rw [ih _ hq.2, aDeclare_lookup_other _ _ _ _ hq.1]
        rw [this ps _ hps, hnow]
    · have hin : n ∈ ps := by
        simp only [List.mem_cons] at h
        rcases h with h | h
        · exact absurd h.symm hpn
        · exact h
      refine declFold_params_kind n ps _ hk' (fun ek hek => ?_) hin
      rw [aDeclare_lookup_other _ _ _ _ (fun e => hpn e.symm)] at hek
      exact hinit ek hek

theorem alookup_aCopyArgs {n : Name} {k : SK} : ∀ {m : AMembers}, alookup n m = some k → k ≠ .hoistedFunction →
    alookup n (aCopyArgs m) = some k
  | [], h, _ => by simp [alookup] at h
  | (n1, k1) :: rest, h, hk => by
    simp only [alookup] at h
    simp only [aCopyArgs]
    by_cases hn : n1 = n
    · simp only [hn, if_true, Option.some.injEq] at h
      subst h
      simp [hk, alookup, hn]
    · simp only [hn, if_false] at h
      split
      · exact alookup_aCopyArgs h hk
      · simp only [alookup, hn, if_false]; exact alookup_aCopyArgs h hk

/-- the body scope of a function holds every parameter, and what it holds for a name other than `arguments` is a
parameter -/
theorem fnBody_init (st : Strict) (name : Option Name) (ps : List Name) (ha us : Bool) (n : Name) :
    (n ∈ ps → n ≠ argumentsName → (alookup n (aFnFrames st name ps ha us).1.2.mem).isSome = true) ∧
    (n ≠ argumentsName → ∀ ek, alookup n (aFnFrames st name ps ha us).1.2.mem = some ek → ek ≠ .unbound ∧ ek ≠ .arguments) := by
  have hmem : (aFnFrames st name ps ha us).1.2.mem = aCopyArgs (aArgsFrame st name ps ha).1.mem := by
    unfold aFnFrames aApplyUseStrict; simp only; split <;> (try split) <;> rfl
  rw [hmem]
  have hnp : noPairDecls (nameDecl name ++ ps.map (fun p => (SK.hoisted, p))) := by
    intro d hd
    simp only [List.mem_append, List.mem_map] at hd
    rcases hd with hd | ⟨p, _, hd⟩
    · cases name <;> simp [nameDecl] at hd; subst hd; rfl
    · subst hd; rfl
  constructor
  · intro hn hna
    have h1 : alookup n (declFold ⟨.fnArgs, st, [], []⟩ (nameDecl name ++ ps.map (fun p => (SK.hoisted, p)))).1.mem
        = some .hoisted := by
      rw [declFold_append]
      simp only
      refine declFold_params_kind n ps _ (declFold_kind _ _).1 (fun ek hek => ?_) hn
      rcases declFold_lookup _ _ n ek (by intro d hd; cases name <;> simp [nameDecl] at hd; subst hd; rfl) hek with h | h
      · simp [alookup] at h
      · cases name <;> simp [nameDecl] at h; exact Or.inr h.1
    have h2 : alookup n (aArgsFrame st name ps ha).1.mem = some .hoisted := by
      unfold aArgsFrame
      simp only
      split
      · split
        · exact h1
        · simp only; rw [aDeclare_lookup_other _ _ _ _ hna]; exact h1
      · exact h1
    rw [alookup_aCopyArgs h2 (by decide)]; rfl
  · intro hna ek hek
    have hm := alookup_mem hek
    have hm2 := (aCopyArgs_mem _ _ hm).1
    have hkinds := argsFrame_mem st name ps ha (n, ek) hm2
    refine ⟨by rcases hkinds with h | h | h <;> simp_all, fun he => ?_⟩
    subst he
    -- a member of kind "arguments" is called `arguments`
    unfold aArgsFrame at hm2
    simp only at hm2
    split at hm2
    · split at hm2
      · rcases declFold_mem_sub _ _ _ hnp hm2 with h | h
        · simp at h
        · simp only [List.mem_append, List.mem_map] at h
          rcases h with h | ⟨p, _, h⟩
          · cases name <;> simp [nameDecl] at h
          · simp at h
      · simp only at hm2
        rcases aDeclare_mem_sub _ _ _ (by decide) _ hm2 with h | h
        · rcases declFold_mem_sub _ _ _ hnp h with h | h
          · simp at h
          · simp only [List.mem_append, List.mem_map] at h
            rcases h with h | ⟨p, _, h⟩
            · cases name <;> simp [nameDecl] at h
            · simp at h
        · simp only [Prod.mk.injEq] at h; exact hna h.1
    · rcases declFold_mem_sub _ _ _ hnp hm2 with h | h
      · simp at h
      · simp only [List.mem_append, List.mem_map] at h
        rcases h with h | ⟨p, _, h⟩
        · cases name <;> simp [nameDecl] at h
        · simp at h

-- the direct errors of a statement list are among its errors ---------------------------------------------------------------

theorem aStmt_frame (s : Stmt) (f : AFrame) : (aStmt s f).1 = (declFold f (stmtDeclKind s)).1 := by
  cases s <;> simp [aStmt, stmtDeclKind, declFold]

theorem aStmt_direct (s : Stmt) (f : AFrame) (h : (aStmt s f).2.2 = []) : (declFold f (stmtDeclKind s)).2 = [] := by
  cases s with
  | var_ n => simpa [aStmt, stmtDeclKind, declFold] using h
  | lex k n => simpa [aStmt, stmtDeclKind, declFold] using h
  | fn n gen ps us body =>
    simp only [aStmt, List.append_eq_nil_iff] at h
    simpa [stmtDeclKind, declFold] using h.2
  | _ => simp [stmtDeclKind, declFold]

theorem aList_direct : ∀ (ss : List Stmt) (f : AFrame),
    (aList ss f).1 = (declFold f (declKinds ss)).1 ∧ ((aList ss f).2.2 = [] → (declFold f (declKinds ss)).2 = [])
  | [], f => ⟨rfl, fun _ => rfl⟩
  | s :: ss, f => by
    obtain ⟨h1, h2⟩ := aList_direct ss (aStmt s f).1
    simp only [aList, declKinds, declFold_append]
    refine ⟨by rw [h1, aStmt_frame], fun h => ?_⟩
    simp only [List.append_eq_nil_iff] at h
    rw [aStmt_direct s f h.1, List.nil_append, ← aStmt_frame]
    exact h2 h.2

theorem hasDup_true : ∀ {l : List JsScopes.Name}, hasDup l = true → ∃ n, 2 ≤ l.count n
  | [], h => by simp [hasDup] at h
  | x :: xs, h => by
    simp only [hasDup, Bool.or_eq_true] at h
    rcases h with h | h
    · refine ⟨x, ?_⟩
      have : 1 ≤ xs.count x := List.count_pos_iff.mpr (by simpa using h)
      simp only [List.count_cons, beq_self_eq_true, if_true]; omega
    · obtain ⟨n, hn⟩ := hasDup_true h
      exact ⟨n, by simp only [List.count_cons]; omega⟩

theorem inter_true {a b : List JsScopes.Name} (h : inter a b = true) : ∃ n, n ∈ a ∧ n ∈ b := by
  simp only [inter, List.any_eq_true, List.contains_iff_mem] at h
  exact h

/-- the declarations of a flat block are `let` / `const` -/
theorem flat_block_kinds : ∀ (ss : List Stmt), flatL false ss = true → ∀ d, d ∈ declKinds ss → isLexical d.1 = true ∧ d.1.plain = true
  | [], _, d, hd => by simp [declKinds] at hd
  | s :: ss, h, d, hd => by
    simp only [flatL, Bool.and_eq_true] at h
    simp only [declKinds, List.mem_append] at hd
    rcases hd with hd | hd
    · cases s with
      | var_ n => simp [Stmt.flat] at h
      | fn n gen ps us body => simp [Stmt.flat] at h
      | lex k n =>
        simp only [stmtDeclKind, List.mem_singleton] at hd
        subst hd
        have : k ≠ .class_ := by have := h.1; simp [Stmt.flat] at this; exact this.1
        cases k <;> simp_all [lexSK, isLexical, SK.plain]
      | _ => simp [stmtDeclKind] at hd
    · exact flat_block_kinds ss h.2 d hd

/-- a duplicate lexical declaration in a flat block is reported -/
theorem block_dup_err (S : Bool) (b : List Stmt) (st : Strict) (hfl : flatL false b = true) (h : dupLex S b = true) :
    (declFold ⟨.block, st, [], []⟩ (declKinds b)).2 ≠ [] := by
  simp only [dupLex, List.any_eq_true, Bool.and_eq_true, decide_eq_true_eq] at h
  obtain ⟨n, _, hc, _⟩ := h
  refine second_decl_err _ _ n (declKinds_noPair b) rfl (by rw [flat_block_decls b hfl]; exact hc) (fun k1 k2 h1 h2 => ?_)
  exact canMerge_old_lexical (flat_block_kinds b hfl _ h1).1 (flat_block_kinds b hfl _ h2).2

/-- a duplicate name in a destructuring catch parameter is reported -/
theorem catch_dup_err (c : CatchParam) (st : Strict) (h : hasDup c.bound = true) :
    (declFold ⟨.catchBinding, st, [], []⟩ (catchDecls c)).2 ≠ [] := by
  obtain ⟨n, hn⟩ := hasDup_true h
  have hk : ∀ d, d ∈ catchDecls c → d.1 = .other := by
    intro d hd
    cases c with
    | none => simp [catchDecls] at hd
    | ident m => simp [CatchParam.bound, hasDup] at h
    | pattern ns => simp only [catchDecls, List.mem_map] at hd; obtain ⟨x, _, rfl⟩ := hd; rfl
  refine second_decl_err _ _ n (fun d hd => by rw [hk d hd]; rfl) rfl (by rw [catchDecls_names]; exact hn)
    (fun k1 k2 h1 h2 => ?_)
  have e1 : k1 = .other := hk _ h1
  have e2 : k2 = .other := hk _ h2
  subst e1; subst e2
  exact canMerge_old_lexical rfl rfl

/-- `catch (e) { let e }`: the check of hoistSymbols against the enclosing catch scope -/
theorem handler_e3 (c : CatchParam) (h : List Stmt) (st st' : Strict) (hfl : flatL false h = true)
    (hint : inter c.bound (lexNames h) = true) :
    e3 (declFold ⟨.block, st', [], []⟩ (declKinds h)).1 (declFold ⟨.catchBinding, st, [], []⟩ (catchDecls c)).1 = true := by
  obtain ⟨n, hn1, hn2⟩ := inter_true hint
  have hk : (declFold ⟨.catchBinding, st, [], []⟩ (catchDecls c)).1.kind = .catchBinding := (declFold_kind _ _).1
  simp only [e3, hk, beq_self_eq_true, Bool.true_and, List.any_eq_true, Bool.and_eq_true, bne_iff_ne, ne_eq]
  have hd : ∃ k, (k, n) ∈ declKinds h := by
    rw [← flat_block_decls h hfl, List.mem_map] at hn2
    obtain ⟨⟨k, m⟩, hm, rfl⟩ := hn2
    exact ⟨k, hm⟩
  have hhas := declFold_has (declKinds h) ⟨.block, st', [], []⟩ n (Or.inr hd)
  cases hek : alookup n (declFold ⟨.block, st', [], []⟩ (declKinds h)).1.mem with
  | none => rw [hek] at hhas; cases hhas
  | some ek =>
    refine ⟨(n, ek), alookup_mem hek, ?_, ?_⟩
    · rcases declFold_lookup _ _ n ek (declKinds_noPair h) hek with h1 | h1
      · simp [alookup] at h1
      · have := (flat_block_kinds h hfl _ h1).1
        intro e; simp only at e; subst e; simp [isLexical] at this
    · have hc : ∃ k, (k, n) ∈ catchDecls c := by
        rw [← catchDecls_names, List.mem_map] at hn1
        obtain ⟨⟨k, m⟩, hm, rfl⟩ := hn1
        exact ⟨k, hm⟩
      exact declFold_has (catchDecls c) _ n (Or.inr hc)

theorem count_le_names (p : SK → Bool) (n : Name) : ∀ (ds : List (SK × Name)),
    (namesWhere p ds).count n ≤ (ds.map (·.2)).count n
  | [] => by simp [namesWhere]
  | (k, m) :: ds => by
    have ih := count_le_names p n ds
    have e1 : namesWhere p ((k, m) :: ds) = (if p k then [m] else []) ++ namesWhere p ds := by
      simp only [namesWhere, List.filterMap_cons]
      cases p k <;> simp
    rw [e1, List.count_append, List.map_cons, List.count_cons]
    by_cases hm : m = n
    · subst hm; cases p k <;> simp <;> omega
    · have hb : (m == n) = false := by simpa using hm
      cases p k <;> simp [hb, List.count_cons] <;> omega

theorem count_two_of_distinct {n : Name} {k1 k2 : SK} : ∀ {ds : List (SK × Name)}, (k1, n) ∈ ds → (k2, n) ∈ ds → k1 ≠ k2 →
    2 ≤ (ds.map (·.2)).count n
  | [], h, _, _ => by simp at h
  | (k, m) :: ds, h1, h2, hne => by
    simp only [List.mem_cons, Prod.mk.injEq] at h1 h2
    simp only [List.map_cons, List.count_cons]
    rcases h1 with ⟨e1, e1'⟩ | h1
    · rcases h2 with ⟨e2, _⟩ | h2
      · exact absurd (e1.trans e2.symm) hne
      · subst e1'
        have : 1 ≤ (ds.map (·.2)).count n := List.count_pos_iff.mpr (List.mem_map.mpr ⟨(k2, n), h2, rfl⟩)
        simp only [beq_self_eq_true, if_true]; omega
    · rcases h2 with ⟨_, e2'⟩ | h2
      · subst e2'
        have : 1 ≤ (ds.map (·.2)).count n := List.count_pos_iff.mpr (List.mem_map.mpr ⟨(k1, n), h1, rfl⟩)
        simp only [beq_self_eq_true, if_true]; omega
      · have := count_two_of_distinct h1 h2 hne
        split <;> omega

/-- the early errors 15.2.1 of a function body / a script are reported by the parse pass -/
theorem stop_conflict_err (f0 : AFrame) (ps : List Name) (body : List Stmt) (hfl : flatL true body = true)
    (hps : ∀ n, n ∈ ps → (alookup n f0.mem).isSome = true)
    (hinit : ∀ n ek, (∃ k, (k, n) ∈ declKinds body) → alookup n f0.mem = some ek → ek ≠ .unbound ∧ ek ≠ .arguments)
    (h : (hasDup (topLexNames body) || inter (topLexNames body) (varNamesL body ++ topFnNames body)
      || inter ps (topLexNames body)) = true) :
    (declFold f0 (declKinds body)).2 ≠ [] := by
  have hplain : ∀ d, d ∈ declKinds body → d.1.plain = true ∧ d.1 ≠ .catchIdentifier := by
    intro d hd
    rcases declKinds_kinds body d.1 d.2 hd with h1 | h1 | h1
    · rw [h1]; exact ⟨rfl, by decide⟩
    · simp only [isTopLexKind, Bool.or_eq_true, beq_iff_eq] at h1
      rcases h1 with (h1 | h1) | h1 <;> rw [h1] <;> exact ⟨rfl, by decide⟩
    · simp only [isFnKind, Bool.or_eq_true, beq_iff_eq] at h1
      rcases h1 with h1 | h1 <;> rw [h1] <;> exact ⟨rfl, by decide⟩
  have hlexd : ∀ n, n ∈ topLexNames body → ∃ kl, (kl, n) ∈ declKinds body ∧ isLexical kl = true := by
    intro n hn
    rw [topLexNames_eq, mem_namesWhere] at hn
    obtain ⟨k, hk1, hk2⟩ := hn
    exact ⟨k, hk1, hk2⟩
  simp only [Bool.or_eq_true] at h
  rcases h with (h | h) | h
  · obtain ⟨n, hn⟩ := hasDup_true h
    have hmem : n ∈ topLexNames body := List.count_pos_iff.mp (by omega)
    obtain ⟨kl, hkl, hl⟩ := hlexd n hmem
    refine lex_conflict_err f0 _ n (declKinds_noPair body) hplain (hinit n · ⟨kl, hkl⟩) ⟨kl, hkl, hl⟩ (Or.inr ?_)
    have := count_le_names isTopLexKind n (declKinds body)
    rw [← topLexNames_eq] at this
    omega
  · obtain ⟨n, hn1, hn2⟩ := inter_true h
    obtain ⟨kl, hkl, hl⟩ := hlexd n hn1
    refine lex_conflict_err f0 _ n (declKinds_noPair body) hplain (hinit n · ⟨kl, hkl⟩) ⟨kl, hkl, hl⟩ (Or.inr ?_)
    rw [flat_varNames_top body hfl, List.mem_append] at hn2
    rcases hn2 with hn2 | hn2
    · rw [topVarNames_eq, mem_namesWhere] at hn2
      obtain ⟨k2, hk2, hk2'⟩ := hn2
      have : k2 = .hoisted := by simpa using hk2'
      subst this
      exact count_two_of_distinct hkl hk2 (by intro e; subst e; simp [isLexical] at hl)
    · rw [topFnNames_eq, mem_namesWhere] at hn2
      obtain ⟨k2, hk2, hk2'⟩ := hn2
      refine count_two_of_distinct hkl hk2 ?_
      intro e; subst e
      simp only [isFnKind, Bool.or_eq_true, beq_iff_eq] at hk2'
      rcases hk2' with e | e <;> (subst e; simp [isLexical] at hl)
  · obtain ⟨n, hn1, hn2⟩ := inter_true h
    obtain ⟨kl, hkl, hl⟩ := hlexd n hn2
    exact lex_conflict_err f0 _ n (declKinds_noPair body) hplain (hinit n · ⟨kl, hkl⟩) ⟨kl, hkl, hl⟩ (Or.inl (hps n hn1))

-- the induction over the statements -------------------------------------------------------------------------------------------

theorem flat_decl_names : ∀ (ss : List Stmt) (top : Bool), flatL top ss = true → ∀ d, d ∈ declKinds ss → d.2 ≠ argumentsName
  | [], _, _, d, hd => by simp [declKinds] at hd
  | s :: ss, top, h, d, hd => by
    simp only [flatL, Bool.and_eq_true] at h
    simp only [declKinds, List.mem_append] at hd
    rcases hd with hd | hd
    · cases s <;> simp [stmtDeclKind] at hd <;> subst hd <;>
        simp [Stmt.flat, JsScopes.argumentsName, Scopes.argumentsName] at h ⊢ <;> simp_all
    · exact flat_decl_names ss top h.2 d hd

theorem staticErr_kids (esm : Bool) (anc : List AFrame) (af : AFrame) (kids : List AT)
    (h : kidsStaticErr esm (af :: anc) kids = true) : (AT.node af kids).staticErr esm anc = true := by
  simp [AT.staticErr, h]

theorem kidsStaticErr_single (esm : Bool) (anc : List AFrame) (k : AT) : kidsStaticErr esm anc [k] = k.staticErr esm anc := by
  simp [kidsStaticErr]

theorem kidsStaticErr_append (esm : Bool) (anc : List AFrame) : ∀ (a b : List AT),
    kidsStaticErr esm anc (a ++ b) = (kidsStaticErr esm anc a || kidsStaticErr esm anc b)
  | [], b => by simp [kidsStaticErr]
  | k :: a, b => by simp [kidsStaticErr, kidsStaticErr_append esm anc a b, Bool.or_assoc]

theorem kidsStaticErr_pair (esm : Bool) (anc : List AFrame) (k1 k2 : AT) :
    kidsStaticErr esm anc [k1, k2] = (k1.staticErr esm anc || k2.staticErr esm anc) := by
  simp [kidsStaticErr]

theorem staticErr_e3 (esm : Bool) (anc : List AFrame) (af : AFrame) (kids : List AT) (hk : af.kind = .block)
    (h : e3Top af anc = true) : (AT.node af kids).staticErr esm anc = true := by
  simp [AT.staticErr, hk, ScK.stopsHoisting, h]

/-- a flat block with an early error (given the claim for its statement list) -/
theorem block_conv (esm : Bool) (S : Bool) (b : List Stmt) (st : Strict) (anc : List AFrame) (hfl : flatL false b = true)
    (herr : blockError S b = true)
    (ih : listError S b = true → ∀ (f : AFrame) (anc' : List AFrame),
      (aList b f).2.2 ≠ [] ∨ kidsStaticErr esm anc' (aList b f).2.1 = true) :
    (aList b ⟨.block, st, [], []⟩).2.2 ≠ [] ∨
      (AT.node (aList b ⟨.block, st, [], []⟩).1 (aList b ⟨.block, st, [], []⟩).2.1).staticErr esm anc = true := by
  simp only [blockError, Bool.or_eq_true] at herr
  rcases herr with (h | h) | h
  · left
    intro he
    exact block_dup_err S b st hfl h ((aList_direct b _).2 he)
  · rw [flat_varNamesL b hfl] at h
    simp [inter] at h
  · rcases ih h ⟨.block, st, [], []⟩ ((aList b ⟨.block, st, [], []⟩).1 :: anc) with h1 | h1
    · exact Or.inl h1
    · exact Or.inr (staticErr_kids esm anc _ _ h1)

/-- a flat function with an early error (given the claim for its body) -/
theorem fn_conv (esm : Bool) (S : Bool) (name : Option Name) (ps : List Name) (ha us : Bool) (body : List Stmt) (st : Strict)
    (anc : List AFrame) (hfl : flatL true body = true) (hps : ps.all (· != JsScopes.argumentsName) = true)
    (herr : fnError S ps body = true)
    (ih : listError S body = true → ∀ (f : AFrame) (anc' : List AFrame),
      (aList body f).2.2 ≠ [] ∨ kidsStaticErr esm anc' (aList body f).2.1 = true) :
    (aList body (aFnFrames st name ps ha us).1.2).2.2 ≠ [] ∨
      (AT.node (aFnFrames st name ps ha us).1.1 [.node (aList body (aFnFrames st name ps ha us).1.2).1
        (aList body (aFnFrames st name ps ha us).1.2).2.1]).staticErr esm anc = true := by
  simp only [fnError, Bool.or_eq_true] at herr
  have hpsn : ∀ n, n ∈ ps → n ≠ argumentsName := by
    intro n hn
    simp only [List.all_eq_true, bne_iff_ne, ne_eq] at hps
    exact hps n hn
  rcases herr with h | h
  · left
    intro he
    refine stop_conflict_err (aFnFrames st name ps ha us).1.2 ps body hfl
      (fun n hn => (fnBody_init st name ps ha us n).1 hn (hpsn n hn))
      (fun n ek ⟨k, hk⟩ hek => (fnBody_init st name ps ha us n).2 (flat_decl_names body true hfl _ hk) ek hek)
      (by simpa only [Bool.or_eq_true] using h) ((aList_direct body _).2 he)
  · rcases ih h (aFnFrames st name ps ha us).1.2
      ((aList body (aFnFrames st name ps ha us).1.2).1 :: (aFnFrames st name ps ha us).1.1 :: anc) with h1 | h1
    · exact Or.inl h1
    · right
      apply staticErr_kids
      rw [kidsStaticErr_single]
      exact staticErr_kids esm _ _ _ h1

mutual
/-- a flat statement with an early error: the parse pass reports an error, or the static error condition of hoistSymbols
holds for one of the scopes of the statement -/
theorem conv_stmt (esm : Bool) : ∀ (s : Stmt) (S top : Bool), s.flat top = true → s.earlyError S = true →
    ∀ (f : AFrame) (anc : List AFrame), (aStmt s f).2.2 ≠ [] ∨ kidsStaticErr esm anc (aStmt s f).2.1 = true
  | .var_ _, _, _, _, h => by simp [Stmt.earlyError] at h
  | .lex _ _, _, _, _, h => by simp [Stmt.earlyError] at h
  | .ref _, _, _, _, h => by simp [Stmt.earlyError] at h
  | .fn n gen ps us body, S, top, hfl, h => by
    intro f anc
    simp only [Stmt.flat, Bool.and_eq_true] at hfl
    simp only [Stmt.earlyError] at h
    rcases fn_conv esm (S || us) none ps true us body f.strict anc hfl.2 hfl.1.2 h
      (fun hl => conv_list esm body (S || us) true hfl.2 hl) with h1 | h1
    · left
      simp only [aStmt]
      intro he
      simp only [List.append_eq_nil_iff] at he
      exact h1 he.1.2
    · right
      simp only [aStmt, kidsStaticErr_single]
      exact h1
  | .fnExpr n ps us body, S, top, hfl, h => by
    intro f anc
    simp only [Stmt.flat, Bool.and_eq_true] at hfl
    simp only [Stmt.earlyError] at h
    rcases fn_conv esm (S || us) n ps true us body f.strict anc hfl.2 hfl.1.2 h
      (fun hl => conv_list esm body (S || us) true hfl.2 hl) with h1 | h1
    · left
      simp only [aStmt]
      intro he
      simp only [List.append_eq_nil_iff] at he
      exact h1 he.2
    · right
      simp only [aStmt, kidsStaticErr_single]
      exact h1
  | .arrow ps body, S, top, hfl, h => by
    intro f anc
    simp only [Stmt.flat, Bool.and_eq_true] at hfl
    simp only [Stmt.earlyError] at h
    rcases fn_conv esm S none ps false false body f.strict anc hfl.2 hfl.1 h
      (fun hl => conv_list esm body S true hfl.2 hl) with h1 | h1
    · left
      simp only [aStmt]
      intro he
      simp only [List.append_eq_nil_iff] at he
      exact h1 he.2
    · right
      simp only [aStmt, kidsStaticErr_single]
      exact h1
  | .block b, S, top, hfl, h => by
    intro f anc
    simp only [Stmt.flat] at hfl
    simp only [Stmt.earlyError] at h
    rcases block_conv esm S b f.strict anc hfl h (fun hl => conv_list esm b S false hfl hl) with h1 | h1
    · exact Or.inl (by simpa only [aStmt] using h1)
    · right
      simp only [aStmt, kidsStaticErr_single]
      exact h1
  | .try_ b c hd, S, top, hfl, h => by
    intro f anc
    simp only [Stmt.flat, Bool.and_eq_true] at hfl
    simp only [Stmt.earlyError, Bool.or_eq_true] at h
    simp only [aStmt]
    rcases h with (((h | h) | h) | h) | h
    · -- the try block
      rcases block_conv esm S b f.strict anc hfl.1.1 h (fun hl => conv_list esm b S false hfl.1.1 hl) with h1 | h1
      · left
        intro he
        simp only [List.append_eq_nil_iff] at he
        exact h1 he.1.1
      · right
        rw [kidsStaticErr_pair, h1]; rfl
    · -- a duplicate name in the catch parameter
      left
      intro he
      simp only [List.append_eq_nil_iff] at he
      exact catch_dup_err c f.strict h he.1.2
    · -- a lexical declaration of the handler block with the name of the catch parameter
      right
      have he3 := handler_e3 c hd f.strict (declFold ⟨.catchBinding, f.strict, [], []⟩ (catchDecls c)).1.strict hfl.2 h
      have hfr := (aList_direct hd ⟨.block, (declFold ⟨.catchBinding, f.strict, [], []⟩ (catchDecls c)).1.strict, [], []⟩).1
      have hk : (declFold ⟨.block, (declFold ⟨.catchBinding, f.strict, [], []⟩ (catchDecls c)).1.strict, [], []⟩
          (declKinds hd)).1.kind = .block := (declFold_kind _ _).1
      rw [kidsStaticErr_pair, Bool.or_eq_true]
      right
      apply staticErr_kids
      rw [kidsStaticErr_single]
      apply staticErr_e3 esm _ _ _ (by rw [hfr]; exact hk)
      rw [hfr]
      simpa [e3Top] using he3
    · -- a destructuring parameter against the `var`s of the handler: there is none
      simp only [Bool.and_eq_true] at h
      rw [flat_varNamesL hd hfl.2] at h
      simp [inter] at h
    · -- the handler block
      rcases block_conv esm S hd (declFold ⟨.catchBinding, f.strict, [], []⟩ (catchDecls c)).1.strict
        ((declFold ⟨.catchBinding, f.strict, [], []⟩ (catchDecls c)).1 :: anc) hfl.2 h
        (fun hl => conv_list esm hd S false hfl.2 hl) with h1 | h1
      · left
        intro he
        simp only [List.append_eq_nil_iff] at he
        exact h1 he.2
      · right
        rw [kidsStaticErr_pair, Bool.or_eq_true]
        right
        apply staticErr_kids
        rw [kidsStaticErr_single]
        exact h1
theorem conv_list (esm : Bool) : ∀ (ss : List Stmt) (S top : Bool), flatL top ss = true → listError S ss = true →
    ∀ (f : AFrame) (anc : List AFrame), (aList ss f).2.2 ≠ [] ∨ kidsStaticErr esm anc (aList ss f).2.1 = true
  | [], _, _, _, h => by simp [listError] at h
  | s :: ss, S, top, hfl, h => by
    intro f anc
    simp only [flatL, Bool.and_eq_true] at hfl
    rw [listError_cons, Bool.or_eq_true] at h
    simp only [aList]
    rcases h with h | h
    · rcases conv_stmt esm s S top hfl.1 h f anc with h1 | h1
      · exact Or.inl (by intro he; simp only [List.append_eq_nil_iff] at he; exact h1 he.1)
      · exact Or.inr (by rw [kidsStaticErr_append, h1]; rfl)
    · rcases conv_list esm ss S top hfl.2 h (aStmt s f).1 anc with h1 | h1
      · exact Or.inl (by intro he; simp only [List.append_eq_nil_iff] at he; exact h1 he.2)
      · exact Or.inr (by rw [kidsStaticErr_append, h1]; simp)
end

-- strict mode only adds static errors ----------------------------------------------------------------------------------------

theorem sameKs_isEmpty : ∀ {a b : List AFrame}, SameKs a b → a.isEmpty = b.isEmpty
  | [], [], _ => rfl
  | [], _ :: _, h => h.elim
  | _ :: _, [], h => h.elim
  | _ :: _, _ :: _, _ => rfl

mutual
theorem staticErr_sameK (esm : Bool) : ∀ (t : AT) (a b : List AFrame), SameKs a b → t.staticErr esm a = t.staticErr esm b
  | .node f kids, a, b, h => by
    have hf : SameK f f := ⟨rfl, rfl, rfl⟩
    simp only [AT.staticErr, e34_sameK hf h, sameKs_isEmpty h, kidsStaticErr_sameK esm kids _ _ (SameKs.cons hf h)]
theorem kidsStaticErr_sameK (esm : Bool) : ∀ (ks : List AT) (a b : List AFrame), SameKs a b →
    kidsStaticErr esm a ks = kidsStaticErr esm b ks
  | [], _, _, _ => rfl
  | k :: ks, a, b, h => by simp only [kidsStaticErr, staticErr_sameK esm k a b h, kidsStaticErr_sameK esm ks a b h]
end

mutual
theorem staticErr_setStrict (esm : Bool) (m : Strict) (hm : m ≠ 0) : ∀ (t : AT) (a b : List AFrame), SameKs a b →
    t.staticErr esm a = true → (aSetStrictRec m t).staticErr esm b = true
  | .node f kids, a, b, h, hs => by
    simp only [aSetStrictRec]
    split
    · next hst =>
      have hf : SameK f { f with strict := m } := ⟨rfl, rfl, rfl⟩
      simp only [AT.staticErr, Bool.or_eq_true] at hs ⊢
      rcases hs with (hs | hs) | hs
      · left; left
        simp only [e2, Bool.and_eq_true, Bool.or_eq_true, bne_iff_ne, ne_eq, beq_iff_eq] at hs ⊢
        refine ⟨?_, hs.2⟩
        rcases hs.1 with h1 | h1
        · exact absurd hst h1.1
        · right; rw [← sameKs_isEmpty h]; exact h1
      · left; right
        rw [← e34_sameK hf h]; exact hs
      · right
        exact kidsStaticErr_setStrict esm m hm kids _ _ (SameKs.cons hf h) hs
    · rw [← staticErr_sameK esm _ a b h]; exact hs
theorem kidsStaticErr_setStrict (esm : Bool) (m : Strict) (hm : m ≠ 0) : ∀ (ks : List AT) (a b : List AFrame), SameKs a b →
    kidsStaticErr esm a ks = true → kidsStaticErr esm b (aSetStrictRecList m ks) = true
  | [], _, _, _, hs => by simp [kidsStaticErr] at hs
  | k :: ks, a, b, h, hs => by
    simp only [kidsStaticErr, aSetStrictRecList, Bool.or_eq_true] at hs ⊢
    rcases hs with hs | hs
    · exact Or.inl (staticErr_setStrict esm m hm k a b h hs)
    · exact Or.inr (kidsStaticErr_setStrict esm m hm ks a b h hs)
end

-- the top level of a module: two function declarations of one name ----------------------------------------------------------

theorem aDeclare_replaced_mono (f : AFrame) (k : SK) (n : Name) (p : Name × SK) (h : p ∈ f.replaced) :
    p ∈ (aDeclare f k n).1.replaced := by
  unfold aDeclare
  split
  · exact h
  · split <;> first | exact h | exact List.mem_append_left _ h

theorem declFold_replaced_mono : ∀ (ds : List (SK × Name)) (f : AFrame) (p : Name × SK), p ∈ f.replaced →
    p ∈ (declFold f ds).1.replaced
  | [], _, _, h => h
  | (k, n) :: ds, f, p, h => by
    simp only [declFold]
    exact declFold_replaced_mono ds _ p (aDeclare_replaced_mono f k n p h)

theorem canMerge_entry_fns {ek k : SK} (he : isFnKind ek = true) (hk : isFnKind k = true) :
    canMergeSymbols .entry ek k = .replaceWithNew := by
  simp only [isFnKind, Bool.or_eq_true, beq_iff_eq] at he hk
  rcases he with rfl | rfl <;> rcases hk with rfl | rfl <;> decide

/-- two function declarations of `n` at the top level of a module and no other declaration of `n`: the duplicate
function check of hoistSymbols fires (when the parse pass reported nothing) -/
theorem module_dupfn (st : Strict) (body : List Stmt) (n : Name)
    (hall : ∀ k, (k, n) ∈ declKinds body → isFnKind k = true)
    (hcount : 2 ≤ ((declKinds body).map (·.2)).count n) :
    replacedAny (declFold ⟨.entry, st, [], []⟩ (declKinds body)).1 = true := by
  obtain ⟨k0, hk0⟩ := count_pos_mem (ds := declKinds body) (Nat.le_trans (by decide) hcount)
  obtain ⟨pre, ⟨k1, n1⟩, post, e, hp, hpre⟩ :=
    exists_first (fun d : SK × Name => d.2 = n) (declKinds body) ⟨(k0, n), hk0, rfl⟩
  simp only at hp
  subst hp
  have hpre0 : (pre.map (·.2)).count n1 = 0 := count_zero_of_none (fun k hk => hpre (k, n1) hk rfl)
  have hpost : 1 ≤ (post.map (·.2)).count n1 := by
    rw [e] at hcount
    simp only [List.map_append, List.map_cons, List.count_append, List.count_cons, beq_self_eq_true, if_true, hpre0] at hcount
    omega
  obtain ⟨kx, hkx⟩ := count_pos_mem (ds := post) hpost
  obtain ⟨p1, ⟨k2, n2⟩, p2, e2, hp2, hp1⟩ := exists_first (fun d : SK × Name => d.2 = n1) post ⟨(kx, n1), hkx, rfl⟩
  simp only at hp2
  subst hp2
  have hds : declKinds body = (pre ++ (k1, n2) :: p1) ++ (k2, n2) :: p2 := by rw [e, e2]; simp
  have hnp := declKinds_noPair body
  have hnp1 : noPairDecls (pre ++ (k1, n2) :: p1) := fun d hd => hnp d (by rw [hds]; exact List.mem_append_left _ hd)
  have hhas := declFold_has (pre ++ (k1, n2) :: p1) ⟨.entry, st, [], []⟩ n2 (Or.inr ⟨k1, by simp⟩)
  cases hek : alookup n2 (declFold ⟨.entry, st, [], []⟩ (pre ++ (k1, n2) :: p1)).1.mem with
  | none => rw [hek] at hhas; cases hhas
  | some ek =>
    have hekf : isFnKind ek = true := by
      rcases declFold_lookup _ _ n2 ek hnp1 hek with h1 | h1
      · simp [alookup] at h1
      · exact hall ek (by rw [hds]; exact List.mem_append_left _ h1)
    have hk2f : isFnKind k2 = true := hall k2 (by rw [hds]; simp)
    -- the second declaration replaces the first: the replaced symbol is recorded
    have hrep : (n2, ek) ∈ (declFold ⟨.entry, st, [], []⟩ (declKinds body)).1.replaced := by
      rw [hds, declFold_append]
      simp only [declFold]
      apply declFold_replaced_mono
      have hkind : (declFold ⟨.entry, st, [], []⟩ (pre ++ (k1, n2) :: p1)).1.kind = .entry := (declFold_kind _ _).1
      unfold aDeclare
      rw [hek]
      simp only [hkind, canMerge_entry_fns hekf hk2f]
      simp
    -- and the name still is a function at the end
    have hhas2 := declFold_has (declKinds body) ⟨.entry, st, [], []⟩ n2 (Or.inr ⟨k2, by rw [hds]; simp⟩)
    cases hfin : alookup n2 (declFold ⟨.entry, st, [], []⟩ (declKinds body)).1.mem with
    | none => rw [hfin] at hhas2; cases hhas2
    | some kf =>
      have hkff : isFnKind kf = true := by
        rcases declFold_lookup _ _ n2 kf hnp hfin with h1 | h1
        · simp [alookup] at h1
        · exact hall kf h1
      simp only [replacedAny, List.any_eq_true, Bool.and_eq_true]
      refine ⟨(n2, ek), hrep, ?_, ?_⟩
      · simp only [isFnKind, Bool.or_eq_true, beq_iff_eq] at hekf
        rcases hekf with e | e <;> simp [e, SK.isFunction]
      · simp only [hfin]
        simp only [isFnKind, Bool.or_eq_true, beq_iff_eq] at hkff
        rcases hkff with e | e <;> simp [e, SK.isFunction]

-- a whole program --------------------------------------------------------------------------------------------------------------

theorem declKinds_plain (body : List Stmt) : ∀ d, d ∈ declKinds body → d.1.plain = true ∧ d.1 ≠ .catchIdentifier := by
  intro d hd
  rcases declKinds_kinds body d.1 d.2 hd with h1 | h1 | h1
  · rw [h1]; exact ⟨rfl, by decide⟩
  · simp only [isTopLexKind, Bool.or_eq_true, beq_iff_eq] at h1
    rcases h1 with (h1 | h1) | h1 <;> rw [h1] <;> exact ⟨rfl, by decide⟩
  · simp only [isFnKind, Bool.or_eq_true, beq_iff_eq] at h1
    rcases h1 with h1 | h1 <;> rw [h1] <;> exact ⟨rfl, by decide⟩

/-- an early error of a flat program: the parse pass reports an error, or hoistSymbols has one to report -/
theorem prog_conv (p : Program) (hflat : p.flat = true) (h1 : p.moduleFnVarClash = false) (herr : p.earlyError = true) :
    (aList p.body ⟨.entry, if p.strict then 1 else 0, [], []⟩).2.2 ≠ [] ∨
    (if p.module then aSetStrictRec 3 (.node (aList p.body ⟨.entry, if p.strict then 1 else 0, [], []⟩).1
        (aList p.body ⟨.entry, if p.strict then 1 else 0, [], []⟩).2.1)
      else .node (aList p.body ⟨.entry, if p.strict then 1 else 0, [], []⟩).1
        (aList p.body ⟨.entry, if p.strict then 1 else 0, [], []⟩).2.1).staticErr p.module [] = true := by
  have hfl : flatL true p.body = true := hflat
  generalize hr0 : (⟨.entry, if p.strict then 1 else 0, [], []⟩ : AFrame) = root0
  have hmem0 : root0.mem = [] := by rw [← hr0]
  have hkind0 : root0.kind = .entry := by rw [← hr0]
  have hdirect : (declFold root0 (declKinds p.body)).2 ≠ [] → (aList p.body root0).2.2 ≠ [] :=
    fun h he => h ((aList_direct p.body root0).2 he)
  have hinit : ∀ n ek, alookup n root0.mem = some ek → ek ≠ .unbound ∧ ek ≠ .arguments := by
    intro n ek h; rw [hmem0] at h; simp [alookup] at h
  unfold Program.earlyError at herr
  cases hm : p.module with
  | false =>
    simp only [hm, Bool.false_eq_true, if_false] at herr ⊢
    simp only [fnError, Bool.or_eq_true] at herr
    rcases herr with h | h
    · left
      apply hdirect
      exact stop_conflict_err root0 [] p.body hfl (fun n hn => by simp at hn) (fun n ek _ hek => hinit n ek hek)
        (by simpa only [Bool.or_eq_true] using h)
    · rcases conv_list false p.body p.strict true hfl h root0 [(aList p.body root0).1] with h2 | h2
      · exact Or.inl h2
      · exact Or.inr (staticErr_kids false [] _ _ h2)
  | true =>
    simp only [hm, if_true] at herr ⊢
    have hmono : ∀ t : AT, t.staticErr true [] = true → (aSetStrictRec 3 t).staticErr true [] = true :=
      fun t ht => staticErr_setStrict true 3 (by decide) t [] [] trivial ht
    simp only [Bool.or_eq_true] at herr
    rcases herr with (h | h) | h
    · -- two lexical declarations (let / const / function) of one name
      obtain ⟨n, hn⟩ := hasDup_true h
      have hcount : 2 ≤ ((declKinds p.body).map (·.2)).count n := by
        have := count_le_names isLexKind n (declKinds p.body)
        rw [← lexNames_eq] at this
        omega
      by_cases hlex : ∃ kl, (kl, n) ∈ declKinds p.body ∧ isLexical kl = true
      · left
        apply hdirect
        exact lex_conflict_err root0 _ n (declKinds_noPair p.body) (declKinds_plain p.body) (hinit n) hlex (Or.inr hcount)
      · right
        apply hmono
        have hall : ∀ k, (k, n) ∈ declKinds p.body → isFnKind k = true := by
          intro k hk
          rcases declKinds_kinds p.body k n hk with e | e | e
          · -- a `var` next to a function declaration of the same name: excluded
            exfalso
            subst e
            have hmemn : n ∈ lexNames p.body := List.count_pos_iff.mp (by omega)
            rw [lexNames_eq, mem_namesWhere] at hmemn
            obtain ⟨k2, hk2, hk2'⟩ := hmemn
            have hk2fn : isFnKind k2 = true := by
              rcases declKinds_kinds p.body k2 n hk2 with e2 | e2 | e2
              · subst e2; simp [isLexKind] at hk2'
              · exact absurd ⟨k2, hk2, e2⟩ hlex
              · exact e2
            have hfn : n ∈ topFnNames p.body := by rw [topFnNames_eq, mem_namesWhere]; exact ⟨k2, hk2, hk2fn⟩
            have hvar : n ∈ varNamesL p.body := by
              rw [flat_varNames_top p.body hfl, topVarNames_eq, mem_namesWhere]; exact ⟨.hoisted, hk, rfl⟩
            simp only [Program.moduleFnVarClash, hm, Bool.true_and, inter, List.any_eq_false, List.contains_iff_mem] at h1
            exact h1 n hfn (by simpa using hvar)
          · exact absurd ⟨k, hk, e⟩ hlex
          · exact e
        have hra := module_dupfn (if p.strict then 1 else 0) p.body n hall hcount
        rw [hr0] at hra
        rw [← (aList_direct p.body root0).1] at hra
        simp only [AT.staticErr, Bool.or_eq_true]
        left; left
        unfold e2
        rw [Bool.and_eq_true]
        exact ⟨by simp, hra⟩
    · -- a lexical declaration and a `var` of one name
      obtain ⟨n, hn1, hn2⟩ := inter_true h
      rw [lexNames_eq, mem_namesWhere] at hn1
      obtain ⟨k, hk, hk'⟩ := hn1
      rw [flat_varNames_top p.body hfl, topVarNames_eq, mem_namesWhere] at hn2
      obtain ⟨kv, hkv, hkv'⟩ := hn2
      have : kv = .hoisted := by simpa using hkv'
      subst this
      rcases declKinds_kinds p.body k n hk with e | e | e
      · subst e; simp [isLexKind] at hk'
      · left
        apply hdirect
        exact lex_conflict_err root0 _ n (declKinds_noPair p.body) (declKinds_plain p.body) (hinit n) ⟨k, hk, e⟩
          (Or.inr (count_two_of_distinct hk hkv (by intro e'; subst e'; simp [isTopLexKind] at e)))
      · exfalso
        have hfn : n ∈ topFnNames p.body := by rw [topFnNames_eq, mem_namesWhere]; exact ⟨k, hk, e⟩
        have hvar : n ∈ varNamesL p.body := by
          rw [flat_varNames_top p.body hfl, topVarNames_eq, mem_namesWhere]; exact ⟨.hoisted, hkv, rfl⟩
        simp only [Program.moduleFnVarClash, hm, Bool.true_and, inter, List.any_eq_false, List.contains_iff_mem] at h1
        exact h1 n hfn (by simpa using hvar)
    · rcases conv_list true p.body true true hfl h root0 [(aList p.body root0).1] with h2 | h2
      · exact Or.inl h2
      · exact Or.inr (hmono _ (staticErr_kids true [] _ _ h2))

/-- **Theorem 3, the converse on flat programs.**  An early error of a flat program (that is not a module declaring a name
with a function declaration and with `var`) makes the parser report a redeclaration error -/
theorem run_errs_of_early (p : Program) (r : Result) (h : runProgram p = some r) (hflat : p.flat = true)
    (h1 : p.moduleFnVarClash = false) (herr : p.earlyError = true) : r.errs ≠ [] := by
  have hconv := prog_conv p hflat h1 herr
  unfold runProgram run at h
  simp only at h
  split at h
  · cases h
  next pc hp =>
  -- the parse pass against its kind-level version
  have hrel0 : RelC ⟨⟨.entry, if p.strict = true then 1 else 0, [], [], [], none, false⟩, [], ⟨[], [], []⟩⟩
      ⟨⟨.entry, if p.strict = true then 1 else 0, [], []⟩, [], []⟩ :=
    ⟨⟨rfl, rfl, rfl, rfl⟩, trivial, rfl⟩
  have habs := parseItems_abs (listItems p.body) _ _ (noPair_list p.body) hrel0
  rw [hp, aParse_list] at habs
  simp only [OptRelC, List.nil_append] at habs
  obtain ⟨hrc, _⟩ := habs
  have hrt : RelT pc.st.syms (Sc.node pc.cur pc.kids)
      (AT.node (aList p.body ⟨.entry, if p.strict = true then 1 else 0, [], []⟩).1
        (aList p.body ⟨.entry, if p.strict = true then 1 else 0, [], []⟩).2.1) := by
    simp only [RelT]; exact ⟨hrc.cur, hrc.kids⟩
  split at h
  · cases h
  next anc2 tree2 hst hh =>
  have hrt1 : RelT pc.st.syms (if p.module = true then setStrictRec 3 (Sc.node pc.cur pc.kids) else Sc.node pc.cur pc.kids)
      (if p.module = true then aSetStrictRec 3 (AT.node (aList p.body ⟨.entry, if p.strict = true then 1 else 0, [], []⟩).1
          (aList p.body ⟨.entry, if p.strict = true then 1 else 0, [], []⟩).2.1)
        else AT.node (aList p.body ⟨.entry, if p.strict = true then 1 else 0, [], []⟩).1
          (aList p.body ⟨.entry, if p.strict = true then 1 else 0, [], []⟩).2.1) := by
    split
    · exact setStrictRec_rel 3 hrt
    · exact hrt
  obtain ⟨_, _, es, hes, _⟩ := hoistSc_kinds p.module _ _ [] [] _ _ _ _ hh hrt1 trivial
  simp only at hes
  split at h
  · cases h
  · cases h
    simp only
    intro hnil
    rw [hes] at hnil
    have hpc : pc.st.errs = [] := (List.append_eq_nil_iff.mp hnil).1
    -- the parse pass reported nothing: hoistSymbols hoists nothing on this tree
    have hci0 : CInv ⟨⟨.entry, if p.strict = true then 1 else 0, [], [], [], none, false⟩, [], ⟨[], [], []⟩⟩ :=
      ⟨fun n r h => by simp [lookup] at h, by simp [keys], fun i s h => by simp at h, fun _ n m h => by simp [lookup] at h⟩
    obtain ⟨hfi, hok, _⟩ := list_flatItems p.body true hflat
    obtain ⟨_, hpe, _, _, ds, ks, _, hks, hfacts⟩ := parseItems_conn _ _ pc hp hci0 (by simpa [hasBody] using hok)
    have hfacts' := hfacts (by rw [hpc])
    simp only [List.nil_append] at hks
    have hnh0 : noHoistSc pc.st.syms (.node pc.cur pc.kids) := by
      simp only [noHoistSc]
      refine ⟨Or.inl ?_, ?_⟩
      · rw [hpe.kind]; rfl
      · rw [hks]; exact facts_noHoist_items _ _ _ _ true hfacts' hfi
    have hsm : SameM (.node pc.cur pc.kids)
        (if p.module = true then setStrictRec 3 (.node pc.cur pc.kids) else .node pc.cur pc.kids) := by
      split
      · exact setStrictRec_sameM _ _
      · exact sameM_refl _
    obtain ⟨es', hes', hstat⟩ := hoistSc_flat_conv p.module _ _ [] [] _ _ _ _ hh hrt1 (noHoist_sameM _ _ hsm hnh0) trivial
    simp only at hes'
    rcases hconv with hc | hc
    · rw [hrc.errs] at hpc; exact hc hpc
    · have := hstat hc
      rw [hes'] at hes
      have : es = es' := List.append_cancel_left hes.symm
      subst this
      exact this (List.append_eq_nil_iff.mp hnil).2

end EsbuildModel.Scopes
