import EsbuildModel.Lemmas.JsonMono
import EsbuildModel.Lemmas.JsonTotal5
/-
Errors never disappear from the log (continued): `lexAt`, `next`, the parser.
-/
namespace EsbuildModel.Json

theorem lexAt_log_le (fl : Flavor) (P : Params) (L : Lx) (sk : Sk) (l : List Cp) :
    ∀ L', lexAt fl P L sk l = .ok L' → sk.log.le L'.log := by
  intro L' h
  cases l with
  | nil => simp only [lexAt, R.ok.injEq] at h; subst h; exact Log.le_refl _
  | cons c r =>
    rw [lexAt_cons] at h
    have hone : ∀ t : Tok, (R.ok (L.at sk t r (sk.pos + c.w)) : R Lx) = .ok L' → sk.log.le L'.log := by
      intro t h; cases h; exact Log.le_refl _
    by_cases hc : c.c = '['
    · rw [if_pos hc] at h
      exact hone _ h
    rw [if_neg hc] at h
    clear hc
    by_cases hc : c.c = ']'
    · rw [if_pos hc] at h
      exact hone _ h
    rw [if_neg hc] at h
    clear hc
    by_cases hc : c.c = '{'
    · rw [if_pos hc] at h
      exact hone _ h
    rw [if_neg hc] at h
    clear hc
    by_cases hc : c.c = '}'
    · rw [if_pos hc] at h
      exact hone _ h
    rw [if_neg hc] at h
    clear hc
    by_cases hc : c.c = ','
    · rw [if_pos hc] at h
      exact hone _ h
    rw [if_neg hc] at h
    clear hc
    by_cases hc : c.c = ':'
    · rw [if_pos hc] at h
      exact hone _ h
    rw [if_neg hc] at h
    clear hc
    by_cases hc : c.c = '-'
    · rw [if_pos hc] at h
      by_cases h1 : headIs r (fun d => d == '=' || d == '-') = true
      · rw [if_pos h1] at h; exact hone _ h
      · rw [if_neg h1] at h
        by_cases h2 : fl = .json ∧ (!headIs r (fun d => d == '.' || isDigit d)) = true
        · rw [if_pos h2] at h; cases h
        · rw [if_neg h2] at h; exact hone _ h
    rw [if_neg hc] at h
    clear hc
    by_cases hc : c.c = '"' ∨ c.c = '\'' ∨ c.c = '`'
    · rw [if_pos hc] at h
      exact lexString_log_le _ _ _ _ _ L' h
    rw [if_neg hc] at h
    clear hc
    by_cases hc : c.c = '.' ∨ isDigit c.c = true
    · rw [if_pos hc] at h
      exact lexNumber_log_le _ _ _ _ _ L' h
    rw [if_neg hc] at h
    clear hc
    by_cases hhash : c.c = '#'
    · rw [if_pos hhash] at h
      by_cases h1 : sk.pos = 0 ∧ headIs r (· == '!') = true
      · rw [if_pos h1] at h; exact hone _ h
      · rw [if_neg h1] at h
        by_cases h2 : headIs r (· == '\\') = true
        · rw [if_pos h2] at h
          exact idEsc_log_le _ _ _ _ _ _ _ L' h
        · rw [if_neg h2] at h
          cases r with
          | nil => cases h
          | cons d r' =>
            simp only at h
            by_cases h3 : (!isIdStart P d.c) = true
            · rw [if_pos h3] at h; cases h
            · rw [if_neg h3] at h
              exact lexIdent_log_le _ _ _ _ _ _ _ L' h
    rw [if_neg hhash] at h
    by_cases hc : c.c = '\\'
    · rw [if_pos hc] at h
      exact idEsc_log_le _ _ _ _ _ _ _ L' h
    rw [if_neg hc] at h
    clear hc
    by_cases hc : isAsciiIdStart c.c = true
    · rw [if_pos hc] at h
      exact lexIdent_log_le _ _ _ _ _ _ _ L' h
    rw [if_neg hc] at h
    clear hc
    by_cases hc : c.c.toNat < 0x7F
    · rw [if_pos hc] at h
      exact hone _ h
    rw [if_neg hc] at h
    clear hc
    by_cases hc : isIdStart P c.c = true
    · rw [if_pos hc] at h
      exact lexIdent_log_le _ _ _ _ _ _ _ L' h
    · rw [if_neg hc] at h; exact hone _ h

theorem next_log_le (fl : Flavor) (P : Params) (L : Lx) : ∀ L', next fl P L = .ok L' → L.log.le L'.log := by
  intro L' h
  unfold next at h
  split at h
  · rename_i sk rest hs
    exact Log.le_trans (skipSep_log_le fl .top L.rest _ sk rest hs) (lexAt_log_le fl P L sk rest L' h)
  · cases h
  · cases h

/-- an operation only adds messages -/
def LogMono {α : Type} (r : R α) (l : Log) (logOf : α → Log) : Prop := ∀ a, r = .ok a → l.le (logOf a)

theorem LogMono.bind {α β : Type} {r : R α} {f : α → R β} {l : Log} {la : α → Log} {lb : β → Log}
    (h1 : LogMono r l la) (h2 : ∀ a, LogMono (f a) (la a) lb) : LogMono (r.bind f) l lb := by
  intro b hb
  obtain ⟨a, ha, hf⟩ := R.bind_eq_ok hb
  exact Log.le_trans (h1 a ha) (h2 a b hf)

theorem LogMono.ok {α : Type} {a : α} {l : Log} {la : α → Log} (h : l.le (la a)) : LogMono (R.ok a) l la := by
  intro b hb; cases hb; exact h

theorem LogMono.panic {α : Type} {l l' : Log} {la : α → Log} : LogMono (R.panic l' : R α) l la := by
  intro b hb; cases hb

theorem next_mono (fl : Flavor) (P : Params) (L : Lx) : LogMono (next fl P L) L.log Lx.log := next_log_le fl P L

theorem expect_mono (fl : Flavor) (P : Params) (L : Lx) (t : Tok) : LogMono (expect fl P L t) L.log Lx.log := by
  unfold expect
  split
  · exact LogMono.panic
  · exact next_mono fl P L

theorem stringLiteral_mono (fl : Flavor) (L : Lx) : LogMono (stringLiteral fl L) L.log (fun p => p.2.log) := by
  unfold stringLiteral
  split
  · exact LogMono.ok (Log.le_refl _)
  · split
    · exact LogMono.panic
    · exact LogMono.panic
    · exact LogMono.ok (Log.le_refl _)

theorem closeStep_mono (o : Opts) (P : Params) (L : Lx) (t : Tok) (s : Bool) :
    LogMono (closeStep o P L t s) L.log (fun p => p.2.log) := by
  unfold closeStep
  exact (expect_mono o.flavor P L t).bind (fun L1 => LogMono.ok (Log.le_refl _))

theorem sepStep_mono (o : Opts) (P : Params) (L : Lx) (close : Tok) (ne s : Bool) :
    LogMono (sepStep o P L close ne s) L.log (fun r => match r with | .go _ L1 => L1.log | .brk _ L1 => L1.log) := by
  unfold sepStep
  split
  · exact LogMono.ok (Log.le_refl _)
  · unfold maybeTrailingComma
    simp only [R.bind_assoc]
    refine (expect_mono o.flavor P L .comma).bind (fun L1 => ?_)
    split
    · split
      · exact LogMono.ok (Log.le_error _ _)
      · exact LogMono.ok (Log.le_refl _)
    · exact LogMono.ok (Log.le_refl _)

theorem keyStep_mono (o : Opts) (P : Params) (L : Lx) (seen : List (List Nat)) :
    LogMono (keyStep o P L seen) L.log (fun ks => ks.2.2.log) := by
  unfold keyStep
  refine (stringLiteral_mono o.flavor L).bind (fun p => ?_)
  refine (expect_mono o.flavor P p.2 .str).bind (fun L2 => ?_)
  simp only
  have hL3 : L2.log.le (if (!o.suppress && seen.contains p.1) = true then
      { L2 with log := L2.log.warn p.2.start } else L2).log := by
    split
    · exact Log.le_warn _ _
    · exact Log.le_refl _
  refine LogMono.bind (la := Lx.log) ?_ (fun L4 => LogMono.ok (Log.le_refl _))
  intro L4 h4
  exact Log.le_trans hL3 (expect_mono o.flavor P _ .colon L4 h4)

/-- the three statements at fuel `n` -/
def MonoAt (o : Opts) (P : Params) (n : Nat) : Prop :=
  (∀ L, LogMono (parseExpr o P n L) L.log (fun p => p.2.log)) ∧
  (∀ L items single, LogMono (arrLoop o P n L items single) L.log (fun p => p.2.log)) ∧
  (∀ L props seen single, LogMono (objLoop o P n L props seen single) L.log (fun p => p.2.log))

theorem mono_step (o : Opts) (P : Params) : ∀ n, MonoAt o P n := by
  intro n
  induction n with
  | zero =>
    refine ⟨fun L => ?_, fun L items single => ?_, fun L props seen single => ?_⟩
    · intro a h; rw [parseExpr] at h; cases h
    · intro a h; rw [arrLoop] at h; cases h
    · intro a h; rw [objLoop] at h; cases h
  | succ n ih =>
    obtain ⟨ih1, ih2, ih3⟩ := ih
    refine ⟨fun L => ?_, fun L items single => ?_, fun L props seen single => ?_⟩
    · rw [parseExpr_succ]
      cases L.tok <;> simp only
      case tTrue => exact (next_mono _ _ L).bind (fun L1 => LogMono.ok (Log.le_refl _))
      case tFalse => exact (next_mono _ _ L).bind (fun L1 => LogMono.ok (Log.le_refl _))
      case tNull => exact (next_mono _ _ L).bind (fun L1 => LogMono.ok (Log.le_refl _))
      case num => exact (next_mono _ _ L).bind (fun L1 => LogMono.ok (Log.le_refl _))
      case str =>
        refine (stringLiteral_mono o.flavor L).bind (fun p => ?_)
        exact (next_mono _ _ p.2).bind (fun L2 => LogMono.ok (Log.le_refl _))
      case minus =>
        refine (next_mono _ _ L).bind (fun L1 => ?_)
        exact (expect_mono _ _ L1 .num).bind (fun L2 => LogMono.ok (Log.le_refl _))
      case openBracket => exact (next_mono _ _ L).bind (fun L1 => ih2 L1 _ _)
      case openBrace => exact (next_mono _ _ L).bind (fun L1 => ih3 L1 _ _ _)
      all_goals exact LogMono.panic
    · rw [arrLoop_succ]
      split
      · exact (closeStep_mono o P L _ _).bind (fun p => LogMono.ok (Log.le_refl _))
      · refine (sepStep_mono o P L _ _ _).bind (fun r => ?_)
        cases r with
        | brk s L1 => exact (closeStep_mono o P L1 _ _).bind (fun p => LogMono.ok (Log.le_refl _))
        | go s L1 => exact (ih1 L1).bind (fun p => ih2 p.2 _ _)
    · rw [objLoop_succ]
      split
      · exact (closeStep_mono o P L _ _).bind (fun p => LogMono.ok (Log.le_refl _))
      · refine (sepStep_mono o P L _ _ _).bind (fun r => ?_)
        cases r with
        | brk s L1 => exact (closeStep_mono o P L1 _ _).bind (fun p => LogMono.ok (Log.le_refl _))
        | go s L1 =>
          refine (keyStep_mono o P L1 seen).bind (fun ks => ?_)
          exact (ih1 ks.2.2).bind (fun p => ih3 p.2 _ _ _)

end EsbuildModel.Json
