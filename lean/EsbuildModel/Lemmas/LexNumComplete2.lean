import EsbuildModel.Lemmas.LexNumComplete
/-
Completeness of the floating-point branch.
-/
namespace EsbuildModel.LexNum
open EsbuildModel.Spec.Num EsbuildModel.Spec.NumLit

theorem fracPart_dot (r1 : List Char) (s1 : St) : fracPart '.' r1 s1 = .ok (r1, s1, true) := by
  unfold fracPart
  cases r1 <;> simp

theorem stop_exp {P : Params} (e : Option ExpS) {rest : List Char} (hfol : FollowOK P rest) :
    StopAt isDig (expSText e ++ rest) := by
  cases e with
  | none => exact follow_stop hfol
  | some x =>
    intro c r hc
    simp only [expSText, List.cons_append, List.cons.injEq] at hc
    rw [← hc.1]
    cases x.upper <;> exact ⟨by decide, by decide⟩

theorem stop_frac {P : Params} (f : Option (List Char)) (e : Option ExpS) {rest : List Char} (hfol : FollowOK P rest) :
    StopAt isDig (fracText f ++ (expSText e ++ rest)) := by
  cases f with
  | none => exact stop_exp e hfol
  | some g =>
    intro c r hc
    simp only [fracText, List.cons_append, List.cons.injEq] at hc
    rw [← hc.1]
    exact ⟨by decide, by decide⟩

theorem exp_not_dot {P : Params} (e : Option ExpS) {rest : List Char} (hfol : FollowOK P rest) :
    ∀ c r', expSText e ++ rest = c :: r' → c ≠ '.' := by
  cases e with
  | none => intro c r' hc; exact (hfol c r' hc).2.2
  | some x =>
    intro c r hc
    simp only [expSText, List.cons_append, List.cons.injEq] at hc
    rw [← hc.1]
    cases x.upper <;> decide

theorem float_complete_gen {P : Params} {first : Char} (hfus : first ≠ '_') {run1 : List Char}
    (f' : Option (List Char)) (e : Option ExpS) {rest : List Char}
    (hrun1 : runOK isDig false run1 = some false)
    (hil : (first == '0' && headIs (run1 ++ (fracText f' ++ (expSText e ++ rest))) (fun c => c == '8' || c == '9')) = true →
      ∀ c ∈ run1, c ≠ '_')
    (hfr : first ≠ '.' → fracOk f' = true) (hfd : first = '.' → f' = none)
    (he : expSOk e = true) (hfol : FollowOK P rest) :
    ∃ s3 : St, floatPath P first (first :: (run1 ++ (fracText f' ++ (expSText e ++ rest)))) (run1 ++ (fracText f' ++ (expSText e ++ rest))) =
        .num s3.end_
          (if (!(((first == '.') || f'.isSome) || e.isSome) && decide (s3.end_ < 10)) = true
           then P.rnd (u32Loop (strip (first :: (run1 ++ (fracText f' ++ expSText e)))))
           else P.pf (strip (first :: (run1 ++ (fracText f' ++ expSText e)))))
          (first == '0' && headIs (run1 ++ (fracText f' ++ (expSText e ++ rest))) (fun c => c == '8' || c == '9')) ∧
      s3.end_ = (first :: (run1 ++ (fracText f' ++ expSText e))).length := by
  obtain ⟨s1, h1, hseg1, hp1⟩ := digLoop_complete (st := st1) inv_st1 (by rw [st1_prevUS]; exact hrun1)
    (stop_frac f' e hfol) hil
  -- fraction
  have hfrac : ∃ s2, fracPart first (fracText f' ++ (expSText e ++ rest)) s1 =
      .ok (expSText e ++ rest, s2, (first == '.') || f'.isSome) ∧
      Seg (fracText f' ++ (expSText e ++ rest)) s1 (fracText f') (expSText e ++ rest) s2 ∧ s2.prevUS = false := by
    by_cases hf : first = '.'
    · subst hf
      rw [hfd rfl]
      exact ⟨s1, by simp [fracText, fracPart_dot], seg_nil hseg1.inv, hp1⟩
    · obtain ⟨s2, h2, hseg2, hp2⟩ := frac_complete hf f' (hfr hf) hseg1.inv hp1 (stop_exp e hfol)
        (fun _ => exp_not_dot e hfol)
      have : (first == '.') = false := by simpa using hf
      exact ⟨s2, by rw [h2, this]; rfl, hseg2, hp2⟩
  obtain ⟨s2, h2, hseg2, hp2⟩ := hfrac
  obtain ⟨s3, h3, hseg3, hp3⟩ := exp_complete e he hseg2.inv hp2 (follow_stop hfol)
    (fun _ c r' hc => ⟨follow_not hfol 'e' (Or.inl (by decide)) c r' hc, follow_not hfol 'E' (Or.inr (Or.inl (by decide))) c r' hc⟩)
  have hcore := float_core_num (P := P) h1 h2 h3 hp3 (follow_not_n hfol) (follow_headIs hfol)
  obtain ⟨ht, hc, hl⟩ := ((hseg1.trans hseg2).trans hseg3).take (first := first) hfus
  refine ⟨s3, ?_, by rw [hl]; simp⟩
  rw [hcore, ht, stripUS_eq hc]
  simp only [List.append_assoc]

/-- the second character of the DecimalIntegerLiteral text is an octal digit after a leading `0` (`0789`): esbuild
scans such a literal in its legacy-octal loop -/
def secondIsOctal : List Char → Bool
  | c :: d :: _ => c == '0' && isOctDigit d
  | _ => false

/-- the character after a leading `0` does not send the lexer into its integer branch -/
def NoBaseTrigger (c : Char) : Prop :=
  ¬ (48 ≤ c.toNat ∧ c.toNat ≤ 55) ∧ c ≠ '_' ∧ c ≠ 'b' ∧ c ≠ 'B' ∧ c ≠ 'o' ∧ c ≠ 'O' ∧ c ≠ 'x' ∧ c ≠ 'X'

theorem lexNum_float_of {P : Params} {first : Char} {tail : List Char} (hdot : first ≠ '.') (hdig : isDig first = true)
    (hz : first = '0' → ∀ c r, tail = c :: r → NoBaseTrigger c) :
    lexNum P (first :: tail) = floatPath P first (first :: tail) tail := by
  by_cases h0 : first = '0'
  · subst h0
    cases tail with
    | nil => simp [lexNum, isDig]
    | cons c cs =>
      obtain ⟨h1, h2, h3, h4, h5, h6, h7, h8⟩ := hz rfl c cs rfl
      have hl : ¬ ((48 ≤ c.toNat ∧ c.toNat ≤ 55) ∨ c = '_') := by rintro (h | h); exact h1 h; exact h2 h
      simp only [lexNum, isDig]
      simp [h3, h4, h5, h6, h7, h8, hl]
  · simp [lexNum, hdot, hdig, h0]

theorem noBaseTrigger_follow {P : Params} {rest : List Char} (hfol : FollowOK P rest) :
    ∀ c r, rest = c :: r → NoBaseTrigger c := by
  intro c r hc
  obtain ⟨h1, h2, _⟩ := hfol c r hc
  have hl : ∀ x : Char, ((97 ≤ x.toNat ∧ x.toNat ≤ 122) ∨ (65 ≤ x.toNat ∧ x.toNat ≤ 90) ∨ x = '_') → c ≠ x :=
    fun x hx => follow_not hfol x hx c r hc
  refine ⟨?_, hl '_' (Or.inr (Or.inr rfl)), hl 'b' (Or.inl (by decide)), hl 'B' (Or.inr (Or.inl (by decide))),
    hl 'o' (Or.inl (by decide)), hl 'O' (Or.inr (Or.inl (by decide))), hl 'x' (Or.inl (by decide)),
    hl 'X' (Or.inr (Or.inl (by decide)))⟩
  intro h
  simp only [isDig, Bool.and_eq_false_iff, decide_eq_false_iff_not] at h2
  omega

theorem noBaseTrigger_tail {P : Params} (f : Option (List Char)) (e : Option ExpS) {rest : List Char}
    (hfol : FollowOK P rest) : ∀ c r, fracText f ++ (expSText e ++ rest) = c :: r → NoBaseTrigger c := by
  cases f with
  | some g =>
    intro c r hc
    simp only [fracText, List.cons_append, List.cons.injEq] at hc
    rw [← hc.1]; unfold NoBaseTrigger; decide
  | none =>
    cases e with
    | some x =>
      intro c r hc
      simp only [fracText, expSText, List.nil_append, List.cons_append, List.cons.injEq] at hc
      rw [← hc.1]; unfold NoBaseTrigger; cases x.upper <;> decide
    | none => exact noBaseTrigger_follow hfol

theorem noBaseTrigger_digit {d : Char} (hd : isDig d = true) (ho : isOctDigit d = false) : NoBaseTrigger d := by
  simp only [isDig, Bool.and_eq_true, decide_eq_true_eq] at hd
  simp only [isOctDigit, Bool.and_eq_false_iff, decide_eq_false_iff_not] at ho
  refine ⟨by omega, ?_, ?_, ?_, ?_, ?_, ?_, ?_⟩ <;> (rintro rfl; revert hd; decide)

theorem decIntOk_cons {c : Char} {run1 : List Char} (h : decIntOk (c :: run1) = true) :
    isDig c = true ∧ runOK isDig false run1 = some false ∧
    ((c = '0' ∧ run1 = []) ∨ (c ≠ '0' ∧ nonOctalDec (c :: run1) = false) ∨
      (c = '0' ∧ nonOctalDec (c :: run1) = true ∧ (∀ x ∈ run1, isDig x = true) ∧ run1 ≠ [])) := by
  simp only [decIntOk, Bool.or_eq_true] at h
  rcases h with h | h
  · simp only [plainDecInt] at h
    split at h
    · rename_i hc
      have : run1 = [] := by simpa using h
      subst this hc
      exact ⟨by decide, rfl, Or.inl ⟨rfl, rfl⟩⟩
    · rename_i hc
      simp only [sepDigits, Bool.and_eq_true] at h
      refine ⟨h.1, (runOK_sep Spec.Num.isDigit isDigit_us run1).1.2 h.2, Or.inr (Or.inl ⟨hc, ?_⟩)⟩
      simp [nonOctalDec, hc]
  · obtain ⟨hall, _⟩ := nonOctalDec_allDigits h
    have hc0 : c = '0' := by
      simp only [nonOctalDec, Bool.and_eq_true, beq_iff_eq] at h
      exact h.1.1.1
    have hne : run1 ≠ [] := by
      simp only [nonOctalDec, Bool.and_eq_true] at h
      intro h0; rw [h0] at h; simp at h
    have hall' : ∀ x ∈ run1, isDig x = true := fun x hx => hall x (List.mem_cons_of_mem _ hx)
    refine ⟨hall c List.mem_cons_self, ?_, Or.inr (Or.inr ⟨hc0, h, hall', hne⟩)⟩
    rw [runOK_digits isDig false hall']
    simp [hne]

end EsbuildModel.LexNum
