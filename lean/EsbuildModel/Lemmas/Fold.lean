import EsbuildModel.Lemmas.FoldNum
import EsbuildModel.Lemmas.FoldStr
import EsbuildModel.Lemmas.FoldRem
import EsbuildModel.Lemmas.FoldPow
/-! What a literal expression of the `fold` model denotes (`eval`), the invariants of parsed trees that the
theorems assume (`Wf`), and the lemmas that tie each modelled helper to the specification. -/
set_option linter.unusedSimpArgs false
namespace EsbuildModel.Fold
open EsbuildModel F64 EsbuildModel.Spec.JsArith

/-- the value an operand expression evaluates to; `env` gives the values of the opaque operands -/
def eval (env : Nat → Value) : Expr → Value
  | .null => .null
  | .undef => .undef
  | .bool b => .bool b
  | .num f => .num f
  | .str s => .str s
  | .bigint t => .bigint (((bigintLiteralValue t).getD 0 : Nat) : Int)
  | .regexp t => .obj (.regexp t)
  | .array0 => .obj .array0
  | .object0 => .obj .object0
  | .func => .obj .func
  | .ident i => env i
  | .inlinedEnum v => eval env v
  | .annot v _ => eval env v

/-- invariants of the trees the parser builds: numbers are float64 values (53-bit significand), the text of a
BigInt literal is what the lexer accepts (`0`, a decimal without leading zero, or `0x… 0o… 0b…`), the text of a
RegExp literal starts with `/`, and an
EAnnotation never wraps a primitive literal (it is only put around lowered class expressions) -/
def Wf : Expr → Prop
  | .num f => Mant53 f
  | .bigint t => (bigintLiteralValue t).isSome = true
  | .regexp t => t.head? = some 47
  | .inlinedEnum v => Wf v
  | .annot v _ => Wf v ∧ isPrimitiveLiteral v = false
  | _ => True

/-- equality of values up to the representation of a float64 -/
def ValueSame : Value → Value → Prop
  | .num a, .num b => same a b
  | x, y => x = y

theorem valueSame_refl (v : Value) : ValueSame v v := by
  cases v <;> simp [ValueSame, same_refl]

def specOp : Op → BinOp
  | .add => .add | .sub => .sub | .mul => .mul | .div => .div | .rem => .rem | .pow => .pow
  | .shl => .shl | .shr => .shr | .ushr => .ushr | .band => .band | .bor => .bor | .bxor => .bxor
  | .lt => .lt | .gt => .gt | .le => .le | .ge => .ge
  | .looseEq => .looseEq | .strictEq => .strictEq | .looseNe => .looseNe | .strictNe => .strictNe
  | .logicalAnd => .logicalAnd | .logicalOr => .logicalOr | .nullish => .nullish
  | .other => .other

def specUOp : UOp → UnOp
  | .pos => .pos | .neg => .neg | .cpl => .cpl | .not => .not | .typeof => .typeof | .void => .void

-- ---------------------------------------------------------------- extractNumericValue / extractStringValue

theorem extractNumeric_prim (e : Expr) (f : F64) (h : extractNumericValue e = some f) : isPrimitiveLiteral e = true := by
  induction e with
  | inlinedEnum v ih => simp only [extractNumericValue] at h; simpa [isPrimitiveLiteral] using ih h
  | annot v r ih => simp only [extractNumericValue] at h; simpa [isPrimitiveLiteral] using ih h
  | _ => simp_all [extractNumericValue, isPrimitiveLiteral]

theorem extractString_prim (e : Expr) (s : List Nat) (h : extractStringValue e = some s) : isPrimitiveLiteral e = true := by
  induction e with
  | inlinedEnum v ih => simp only [extractStringValue] at h; simpa [isPrimitiveLiteral] using ih h
  | annot v r ih => simp only [extractStringValue] at h; simpa [isPrimitiveLiteral] using ih h
  | _ => simp_all [extractStringValue, isPrimitiveLiteral]

theorem extractNumeric_eval (env : Nat → Value) (e : Expr) (f : F64) (hw : Wf e)
    (h : extractNumericValue e = some f) : eval env e = .num f ∧ Mant53 f := by
  induction e with
  | inlinedEnum v ih => simp only [extractNumericValue] at h; exact ih hw h
  | annot v r ih =>
    simp only [extractNumericValue] at h
    have := extractNumeric_prim v f h
    rw [hw.2] at this; cases this
  | num g => simp only [extractNumericValue, Option.some.injEq] at h; subst h; exact ⟨rfl, hw⟩
  | _ => simp [extractNumericValue] at h

theorem extractString_eval (env : Nat → Value) (e : Expr) (s : List Nat) (hw : Wf e)
    (h : extractStringValue e = some s) : eval env e = .str s := by
  induction e with
  | inlinedEnum v ih => simp only [extractStringValue] at h; exact ih hw h
  | annot v r ih =>
    simp only [extractStringValue] at h
    have := extractString_prim v s h
    rw [hw.2] at this; cases this
  | str g => simp only [extractStringValue, Option.some.injEq] at h; subst h; rfl
  | _ => simp [extractStringValue] at h

theorem extractNumerics_eval (env : Nat → Value) (l r : Expr) (a b : F64) (hl : Wf l) (hr : Wf r)
    (h : extractNumericValues l r = some (a, b)) :
    eval env l = .num a ∧ eval env r = .num b ∧ Mant53 a ∧ Mant53 b := by
  unfold extractNumericValues at h
  cases h1 : extractNumericValue l with
  | none => simp [h1] at h
  | some x =>
    cases h2 : extractNumericValue r with
    | none => simp [h1, h2] at h
    | some y =>
      simp only [h1, h2, Option.some.injEq, Prod.mk.injEq] at h
      obtain ⟨rfl, rfl⟩ := h
      have e1 := extractNumeric_eval env l x hl h1
      have e2 := extractNumeric_eval env r y hr h2
      exact ⟨e1.1, e2.1, e1.2, e2.2⟩

theorem extractStrings_eval (env : Nat → Value) (l r : Expr) (a b : List Nat) (hl : Wf l) (hr : Wf r)
    (h : extractStringValues l r = some (a, b)) : eval env l = .str a ∧ eval env r = .str b := by
  unfold extractStringValues at h
  cases h1 : extractStringValue l with
  | none => simp [h1] at h
  | some x =>
    cases h2 : extractStringValue r with
    | none => simp [h1, h2] at h
    | some y =>
      simp only [h1, h2, Option.some.injEq, Prod.mk.injEq] at h
      obtain ⟨rfl, rfl⟩ := h
      exact ⟨extractString_eval env l x hl h1, extractString_eval env r y hr h2⟩

/-- an operand cannot be both a number and a string -/
theorem extract_num_str (e : Expr) (f : F64) (s : List Nat) (h1 : extractNumericValue e = some f)
    (h2 : extractStringValue e = some s) : False := by
  induction e with
  | inlinedEnum v ih => exact ih (by simpa [extractNumericValue] using h1) (by simpa [extractStringValue] using h2)
  | annot v r ih => exact ih (by simpa [extractNumericValue] using h1) (by simpa [extractStringValue] using h2)
  | _ => simp_all [extractNumericValue, extractStringValue]

-- ---------------------------------------------------------------- BigInt literals

theorem bigint_text_inj (a b : List Nat) (ha : (bigintLiteralValue a).isSome = true)
    (hb : (bigintLiteralValue b).isSome = true) (na : noRadix a = true) (nb : noRadix b = true)
    (hv : (bigintLiteralValue a).getD 0 = (bigintLiteralValue b).getD 0) : a = b := by
  cases h1 : bigintLiteralValue a with
  | none => simp [h1] at ha
  | some v1 =>
    cases h2 : bigintLiteralValue b with
    | none => simp [h2] at hb
    | some v2 =>
      simp only [h1, h2, Option.getD_some] at hv
      rw [← bigint_canonical a v1 h1 na, ← bigint_canonical b v2 h2 nb, hv]

theorem checkEqualityBigInt_correct (a b : List Nat) (eq : Bool) (ha : (bigintLiteralValue a).isSome = true)
    (hb : (bigintLiteralValue b).isSome = true) (h : checkEqualityBigInt a b = (eq, true)) :
    decide ((bigintLiteralValue a).getD 0 = (bigintLiteralValue b).getD 0) = eq := by
  unfold checkEqualityBigInt at h
  split at h
  · rename_i hab
    have := eq_of_beq hab
    subst this
    cases h; simp
  · rename_i hab
    split at h
    · rename_i hr
      simp only [Bool.and_eq_true] at hr
      cases h
      simp only [decide_eq_false_iff_not]
      intro hv
      have := bigint_text_inj a b ha hb hr.1 hr.2 hv
      subst this
      simp at hab
    · cases h

-- ---------------------------------------------------------------- ToBoolean, ToNullOrUndefined, typeof

theorem num_truthy (f : F64) : (!(ieeeEq f zero) && !(isNaN f)) = !(isZero f || isNaN f) := by
  cases f with
  | nan => rfl
  | inf n => rfl
  | fin n m e => by_cases h : m = 0 <;> simp [ieeeEq_fin_zero, isZero, isNaN, h]

theorem toBoolean_correct (env : Nat → Value) (e : Expr) (b se : Bool) (hw : Wf e)
    (h : toBooleanWithSideEffects e = some (b, se)) : toBoolean (eval env e) = b := by
  induction e generalizing b se with
  | inlinedEnum v ih => simp only [toBooleanWithSideEffects] at h; exact ih b se hw h
  | annot v r ih =>
    simp only [toBooleanWithSideEffects] at h
    cases hv : toBooleanWithSideEffects v with
    | none => simp [hv] at h
    | some p =>
      obtain ⟨b', se'⟩ := p
      simp only [hv, Option.some.injEq, Prod.mk.injEq] at h
      obtain ⟨rfl, _⟩ := h
      exact ih b' se' hw.1 hv
  | num f =>
    simp only [toBooleanWithSideEffects, Option.some.injEq, Prod.mk.injEq] at h
    rw [← h.1]; simp only [eval, toBoolean]; exact (num_truthy f).symm
  | bigint t =>
    simp only [toBooleanWithSideEffects] at h
    cases hc : checkEqualityBigInt t [48] with
    | mk eq ok =>
      simp only [hc] at h
      cases ok with
      | false => simp at h
      | true =>
        simp only [if_true, Option.some.injEq, Prod.mk.injEq] at h
        have h48 : (bigintLiteralValue [48]).isSome = true := by decide
        have := checkEqualityBigInt_correct t [48] eq hw h48 hc
        have h0 : (bigintLiteralValue [48]).getD 0 = 0 := by decide
        rw [h0] at this
        rw [← h.1, ← this]
        simp only [eval, toBoolean]
        cases hv : (bigintLiteralValue t).getD 0 <;> simp <;> omega
  | str s =>
    simp only [toBooleanWithSideEffects, Option.some.injEq, Prod.mk.injEq] at h
    rw [← h.1]; cases s <;> simp [eval, toBoolean]
  | ident i => simp [toBooleanWithSideEffects] at h
  | _ => simp_all [toBooleanWithSideEffects, eval, toBoolean]

theorem toNullOrUndefined_correct (env : Nat → Value) (e : Expr) (b se : Bool)
    (h : toNullOrUndefinedWithSideEffects e = some (b, se)) :
    (eval env e = .undef ∨ eval env e = .null) ↔ b = true := by
  induction e generalizing b se with
  | inlinedEnum v ih => simp only [toNullOrUndefinedWithSideEffects] at h; exact ih b se h
  | annot v r ih =>
    simp only [toNullOrUndefinedWithSideEffects] at h
    cases hv : toNullOrUndefinedWithSideEffects v with
    | none => simp [hv] at h
    | some p =>
      obtain ⟨b', se'⟩ := p
      simp only [hv, Option.some.injEq, Prod.mk.injEq] at h
      obtain ⟨rfl, _⟩ := h
      exact ih b' se' hv
  | ident i => simp [toNullOrUndefinedWithSideEffects] at h
  | _ => simp_all [toNullOrUndefinedWithSideEffects, eval]

theorem typeof_correct (env : Nat → Value) (e : Expr) (s : List Nat)
    (h : typeofWithoutSideEffects e = some s) : typeof (eval env e) = s := by
  induction e with
  | inlinedEnum v ih => simp only [typeofWithoutSideEffects] at h; exact ih h
  | annot v r ih =>
    simp only [typeofWithoutSideEffects] at h
    split at h
    · exact ih h
    · cases h
  | _ => first
    | (simp only [typeofWithoutSideEffects, Option.some.injEq] at h; subst h; rfl)
    | simp [typeofWithoutSideEffects] at h

-- ---------------------------------------------------------------- equality

theorem ieeeEq_comm (a b : F64) : ieeeEq a b = ieeeEq b a := by
  cases a <;> cases b <;> simp [ieeeEq]
  · rename_i x y; cases x <;> cases y <;> rfl
  · rw [Bool.eq_iff_iff, finEq_iff, finEq_iff, Int.min_comm]
    exact eq_comm

theorem eval_stripEnum (env : Nat → Value) (e : Expr) : eval env (stripEnum e) = eval env e := by
  induction e <;> simp_all [stripEnum, eval]

theorem wf_stripEnum (e : Expr) (h : Wf e) : Wf (stripEnum e) := by
  induction e <;> simp_all [stripEnum, Wf]

theorem stripEnum_notEnum (e : Expr) : ∀ v, stripEnum e ≠ .inlinedEnum v := by
  induction e <;> simp_all [stripEnum]

/-- under `Wf`, a primitive literal that is not an EInlinedEnum node is one of the six literal nodes -/
theorem prim_cases (r : Expr) (hw : Wf r) (hne : ∀ v, r ≠ .inlinedEnum v) (hp : isPrimitiveLiteral r = true) :
    r = .null ∨ r = .undef ∨ (∃ b, r = .bool b) ∨ (∃ f, r = .num f) ∨ (∃ s, r = .str s) ∨ (∃ t, r = .bigint t) := by
  cases r with
  | inlinedEnum v => exact absurd rfl (hne v)
  | annot v rem => simp [isPrimitiveLiteral, hw.2] at hp
  | _ => simp_all [isPrimitiveLiteral]

theorem loose_num_bool (P : Params) (f : F64) (b : Bool) :
    looselyEqual P (.num f) (.bool b) = some (ieeeEq f (if b then one else zero)) := by
  simp [looselyEqual, boolToNumber, looselyEqualNoBool, strictlyEqual, eq_correct]

theorem loose_bool_num (P : Params) (f : F64) (b : Bool) :
    looselyEqual P (.bool b) (.num f) = some (ieeeEq f (if b then one else zero)) := by
  simp [looselyEqual, boolToNumber, looselyEqualNoBool, strictlyEqual, ← eq_correct, ieeeEq_comm f]

theorem int_beq_cast (a b : Nat) : ((a : Int) == (b : Int)) = decide (a = b) := by
  rw [Bool.eq_iff_iff]; simp; omega

theorem checkEqualityCore_correct (P : Params) (env : Nat → Value) (strict : Bool) (l r : Expr) (b : Bool)
    (hl : Wf l) (hr : Wf r) (hne : ∀ v, r ≠ .inlinedEnum v)
    (h : checkEqualityCore strict l r = some b) :
    (if strict then strictlyEqual (eval env l) (eval env r) else looselyEqual P (eval env l) (eval env r))
      = some b := by
  have hprim := prim_cases r hr hne
  cases l with
  | null =>
    simp only [checkEqualityCore] at h
    split at h
    · cases h; cases strict <;> rfl
    · cases h; cases strict <;> rfl
    · split at h
      · rename_i hp
        cases h
        rcases hprim hp with rfl | rfl | ⟨x, rfl⟩ | ⟨x, rfl⟩ | ⟨x, rfl⟩ | ⟨x, rfl⟩ <;>
          first | contradiction | (cases strict <;> rfl) | simp_all
      · cases h
  | undef =>
    simp only [checkEqualityCore] at h
    split at h
    · cases h; cases strict <;> rfl
    · cases h; cases strict <;> rfl
    · split at h
      · rename_i hp
        cases h
        rcases hprim hp with rfl | rfl | ⟨x, rfl⟩ | ⟨x, rfl⟩ | ⟨x, rfl⟩ | ⟨x, rfl⟩ <;>
          first | contradiction | (cases strict <;> rfl) | simp_all
      · cases h
  | bool lb =>
    simp only [checkEqualityCore] at h
    split at h
    · cases h; cases strict <;> rfl
    · rename_i rf
      cases strict
      · simp only [Bool.not_false, if_true] at h
        simp only [Bool.false_eq_true, if_false, eval, loose_bool_num]
        cases lb <;> simp_all
      · simp at h; subst h; rfl
    · cases h; cases strict <;> rfl
    · cases h; cases strict <;> rfl
    · split at h
      · rename_i hp
        simp only [Bool.and_eq_true] at hp
        cases h
        have hs : strict = true := hp.1
        subst hs
        rcases hprim hp.2 with rfl | rfl | ⟨x, rfl⟩ | ⟨x, rfl⟩ | ⟨x, rfl⟩ | ⟨x, rfl⟩ <;>
          first | rfl | simp_all
      · cases h
  | num lf =>
    simp only [checkEqualityCore] at h
    split at h
    · cases h
      cases strict
      · simp [eval, looselyEqual, boolToNumber, looselyEqualNoBool, strictlyEqual, eq_correct]
      · simp [eval, strictlyEqual, eq_correct]
    · rename_i rb
      cases strict
      · simp only [Bool.not_false, if_true] at h
        simp only [Bool.false_eq_true, if_false, eval, loose_num_bool]
        cases rb <;> simp_all
      · simp at h; subst h; rfl
    · cases h; cases strict <;> rfl
    · cases h; cases strict <;> rfl
    · split at h
      · rename_i hp
        simp only [Bool.and_eq_true] at hp
        cases h
        have hs : strict = true := hp.1
        subst hs
        rcases hprim hp.2 with rfl | rfl | ⟨x, rfl⟩ | ⟨x, rfl⟩ | ⟨x, rfl⟩ | ⟨x, rfl⟩ <;>
          first | rfl | simp_all
      · cases h
  | bigint lt =>
    simp only [checkEqualityCore] at h
    split at h
    · rename_i rt
      cases hc : checkEqualityBigInt lt rt with
      | mk eq ok =>
        simp only [hc] at h
        cases ok with
        | false => simp at h
        | true =>
          simp only [if_true, Option.some.injEq] at h
          subst h
          have := checkEqualityBigInt_correct lt rt eq hl hr hc
          cases strict <;>
            simp [eval, looselyEqual, boolToNumber, looselyEqualNoBool, strictlyEqual, ← this, int_beq_cast]
    · cases h; cases strict <;> rfl
    · cases h; cases strict <;> rfl
    · split at h
      · rename_i hp
        simp only [Bool.and_eq_true] at hp
        cases h
        have hs : strict = true := hp.1
        subst hs
        rcases hprim hp.2 with rfl | rfl | ⟨x, rfl⟩ | ⟨x, rfl⟩ | ⟨x, rfl⟩ | ⟨x, rfl⟩ <;>
          first | rfl | simp_all
      · cases h
  | str ls =>
    simp only [checkEqualityCore] at h
    split at h
    · cases h; cases strict <;> rfl
    · cases h; cases strict <;> rfl
    · cases h; cases strict <;> rfl
    · split at h
      · rename_i hp
        simp only [Bool.and_eq_true] at hp
        cases h
        have hs : strict = true := hp.1
        subst hs
        rcases hprim hp.2 with rfl | rfl | ⟨x, rfl⟩ | ⟨x, rfl⟩ | ⟨x, rfl⟩ | ⟨x, rfl⟩ <;>
          first | rfl | simp_all
      · cases h
  | _ => simp [checkEqualityCore] at h

theorem checkEquality_correct (P : Params) (env : Nat → Value) (strict : Bool) (l r : Expr) (b : Bool)
    (hl : Wf l) (hr : Wf r) (h : checkEqualityIfNoSideEffects strict l r = some b) :
    (if strict then strictlyEqual (eval env l) (eval env r) else looselyEqual P (eval env l) (eval env r))
      = some b := by
  have := checkEqualityCore_correct P env strict (stripEnum l) (stripEnum r) b (wf_stripEnum l hl)
    (wf_stripEnum r hr) (stripEnum_notEnum r) h
  simpa only [eval_stripEnum] using this

-- ---------------------------------------------------------------- ToNumber, ToString

theorem toNumber_correct (env : Nat → Value) (e : Expr) (n : F64) (hw : Wf e)
    (h : toNumberWithoutSideEffects e = some n) : toNumber (eval env e) = some n := by
  induction e with
  | inlinedEnum v ih => simp only [toNumberWithoutSideEffects] at h; exact ih hw h
  | annot v r ih => simp only [toNumberWithoutSideEffects] at h; exact ih hw.1 h
  | regexp t =>
    simp only [toNumberWithoutSideEffects, Option.some.injEq] at h
    subst h
    cases t with
    | nil => simp [Wf] at hw
    | cons c cs =>
      have : c = 47 := by simpa [Wf] using hw
      subst this
      simp [eval, toNumber, objToPrimitive, stringToNumber]
  | object0 =>
    simp only [toNumberWithoutSideEffects, Option.some.injEq] at h
    subst h; rfl
  | str s =>
    simp only [toNumberWithoutSideEffects] at h
    split at h
    · rename_i hlen
      have : s = [] := List.length_eq_zero_iff.mp hlen
      subst this
      simpa [eval, toNumber, stringToNumber] using h
    · obtain ⟨iv, h1, h2, rfl, rfl⟩ := stringToEquivalentNumberValue_spec s n h
      simp only [eval, toNumber]
      exact stringToNumber_formatInt iv (by omega)
  | bool b => simp only [toNumberWithoutSideEffects, Option.some.injEq] at h; subst h; cases b <;> rfl
  | _ => first
    | (simp only [toNumberWithoutSideEffects, Option.some.injEq] at h; subst h; rfl)
    | simp [toNumberWithoutSideEffects] at h

/-- a float64 that equals the integer k ≠ 0 (as a real number) -/
theorem int_value (k : Nat) (n1 neg : Bool) (m : Nat) (e : Int) (hk : k ≠ 0)
    (h : finEq n1 k 0 neg m e = true) :
    neg = n1 ∧ m ≠ 0 ∧ isIntegral m e = true ∧ truncAbs m e = k := by
  simp only [finEq_iff, scaled_eq] at h
  have hkpos : mag k 0 (min 0 e) ≠ 0 := by rw [Ne, mag_eq_zero]; exact hk
  have hneg : neg = n1 := by
    cases neg <;> cases n1 <;> simp at h ⊢ <;> omega
  subst hneg
  have hm : mag k 0 (min 0 e) = mag m e (min 0 e) := by
    cases neg <;> simp at h <;> omega
  have hm0 : m ≠ 0 := by
    intro h0; subst h0
    rw [mag_zero] at hm; omega
  refine ⟨rfl, hm0, ?_, ?_⟩
  · unfold isIntegral
    by_cases he : e ≥ 0
    · simp [he]
    · have hmin : min 0 e = e := by omega
      rw [hmin] at hm
      simp only [mag, Int.sub_self, Int.toNat_zero, Nat.pow_zero, Nat.mul_one] at hm
      have : (0 - e).toNat = (-e).toNat := by congr 1; omega
      rw [this] at hm
      simp [he, ← hm]
  · unfold truncAbs
    by_cases he : e ≥ 0
    · have hmin : min 0 e = 0 := by omega
      rw [hmin] at hm
      simp only [mag, Int.sub_zero, Int.sub_self, Int.toNat_zero, Nat.pow_zero, Nat.mul_one] at hm
      simp [he, hm]
    · have hmin : min 0 e = e := by omega
      rw [hmin] at hm
      simp only [mag, Int.sub_self, Int.toNat_zero, Nat.pow_zero, Nat.mul_one] at hm
      have : (0 - e).toNat = (-e).toNat := by congr 1; omega
      rw [this] at hm
      simp only [he, if_false, ← hm]
      exact Nat.mul_div_cancel _ (Nat.two_pow_pos _)

theorem convInt32_range (G : F64 → Int) (hG : ∀ f, -2147483648 ≤ G f ∧ G f < 2147483648) (n : F64) :
    (convInt32 G n).natAbs < 2 ^ 53 := by
  have := hG n
  cases n with
  | nan => simp only [convInt32]; omega
  | inf b => simp only [convInt32]; omega
  | fin neg m e =>
    simp only [convInt32]
    cases neg <;> simp <;> split <;> omega

theorem tryToString_correct (G : F64 → Int) (hG : ∀ f, -2147483648 ≤ G f ∧ G f < 2147483648) (n : F64)
    (s : List Nat) (h : tryToStringOnNumberSafely G n = some s) : numberToString n = some s := by
  unfold tryToStringOnNumberSafely at h
  simp only at h
  generalize hi : convInt32 G n = i at h
  have hr : i.natAbs < 2 ^ 53 := by rw [← hi]; exact convInt32_range G hG n
  by_cases heq : ieeeEq (ofInt i) n = true
  · simp only [heq, if_true, Option.some.injEq] at h
    subst h
    cases n with
    | nan => simp [ofInt, ieeeEq] at heq
    | inf b => simp [ofInt, ieeeEq] at heq
    | fin neg m e =>
      simp only [ofInt, ieeeEq] at heq
      by_cases hi0 : i.natAbs = 0
      · have : i = 0 := by omega
        subst this
        have hm : m = 0 := by
          have := (ieeeEq_fin_zero neg m e)
          rw [ieeeEq_comm] at this
          simp only [ieeeEq] at this
          simp at heq
          rw [heq] at this
          simpa using this.symm
        subst hm
        simp [numberToString, formatInt_eq, decimal_small 0 (by decide), ascii]
      · obtain ⟨h1, h2, h3, h4⟩ := int_value i.natAbs (decide (i < 0)) neg m e hi0 heq
        simp only [numberToString, h2, if_false, h3, h4, hr, decide_true, Bool.and_true, if_true, formatInt_eq, h1]
        by_cases hneg : i < 0 <;> simp [hneg]
  · simp only [heq, if_false] at h
    cases n with
    | nan => simpa [isNaN, numberToString, ascii] using h
    | inf b => cases b <;> simpa [isNaN, isInfSign, numberToString, ascii] using h
    | fin neg m e => simp [isNaN, isInfSign] at h

theorem toString_correct (G : F64 → Int) (hG : ∀ f, -2147483648 ≤ G f ∧ G f < 2147483648)
    (env : Nat → Value) (e : Expr) (s : List Nat) (hw : Wf e)
    (h : toStringWithoutSideEffects G e = some s) : Spec.JsArith.toString (eval env e) = some s := by
  cases e with
  | null => simp only [toStringWithoutSideEffects, Option.some.injEq] at h; subst h; rfl
  | undef => simp only [toStringWithoutSideEffects, Option.some.injEq] at h; subst h; rfl
  | bool b => simp only [toStringWithoutSideEffects, Option.some.injEq] at h; subst h; cases b <;> rfl
  | num f => exact tryToString_correct G hG f s h
  | regexp t => simp only [toStringWithoutSideEffects, Option.some.injEq] at h; subst h; rfl
  | bigint t =>
    simp only [toStringWithoutSideEffects] at h
    split at h
    · rename_i hn
      simp only [Option.some.injEq] at h
      subst h
      cases hv : bigintLiteralValue t with
      | none => simp [Wf, hv] at hw
      | some v =>
        have := bigint_canonical t v hv hn
        simp [eval, Spec.JsArith.toString, hv, this]
    · cases h
  | _ => simp [toStringWithoutSideEffects] at h

-- ---------------------------------------------------------------- FoldBinaryOperator

theorem cmpResult_eq (a b : List Nat) (test : Int → Bool) :
    cmpResult a b test = .folded (.bool (test (cmpList a b))) := by
  simp [cmpResult, stringCompareUCS2_eq]

theorem numeric_fold (env : Nat → Value) (l r res : Expr) (hl : Wf l) (hr : Wf r) (f : F64 → F64 → F64)
    (h : (match extractNumericValues l r with
          | some (a, b) => Res.folded (.num (f a b))
          | none => Res.notFolded) = .folded res) :
    ∃ a b, eval env l = .num a ∧ eval env r = .num b ∧ Mant53 b ∧ res = .num (f a b) := by
  cases hn : extractNumericValues l r with
  | none => simp [hn] at h
  | some p =>
    obtain ⟨a, b⟩ := p
    simp only [hn, Res.folded.injEq] at h
    obtain ⟨h1, h2, _, h4⟩ := extractNumerics_eval env l r a b hl hr hn
    exact ⟨a, b, h1, h2, h4, h.symm⟩

theorem compare_fold (env : Nat → Value) (l r res : Expr) (hl : Wf l) (hr : Wf r)
    (numTest : F64 → F64 → Bool) (strTest : Int → Bool)
    (h : (match extractNumericValues l r with
          | some (a, b) => Res.folded (.bool (numTest a b))
          | none =>
            match extractStringValues l r with
            | some (a, b) => cmpResult a b strTest
            | none => Res.notFolded) = .folded res) :
    (∃ a b, eval env l = .num a ∧ eval env r = .num b ∧ res = .bool (numTest a b)) ∨
    (∃ a b, eval env l = .str a ∧ eval env r = .str b ∧ res = .bool (strTest (cmpList a b))) := by
  cases hn : extractNumericValues l r with
  | some p =>
    obtain ⟨a, b⟩ := p
    simp only [hn, Res.folded.injEq] at h
    obtain ⟨h1, h2, _, _⟩ := extractNumerics_eval env l r a b hl hr hn
    exact Or.inl ⟨a, b, h1, h2, h.symm⟩
  | none =>
    simp only [hn] at h
    cases hs : extractStringValues l r with
    | none => simp [hs] at h
    | some p =>
      obtain ⟨a, b⟩ := p
      simp only [hs, cmpResult_eq, Res.folded.injEq] at h
      obtain ⟨h1, h2⟩ := extractStrings_eval env l r a b hl hr hs
      exact Or.inr ⟨a, b, h1, h2, h.symm⟩

theorem foldBinary_no_panic (A : Arith) (G : F64 → Int) (op : Op) (l r : Expr) :
    foldBinaryOperator A G op l r ≠ .panic := by
  cases op <;> simp only [foldBinaryOperator] <;> (repeat' split) <;> simp [cmpResult_eq]

theorem unaryMinus_eq (f : F64) : unaryMinus f = neg f := by cases f <;> rfl

theorem decide_cmp_lt (a b : List Nat) : decide (cmpList a b < 0) = stringLessThan a b := by
  rw [Bool.eq_iff_iff]; simp [cmpList_neg]
theorem decide_cmp_gt (a b : List Nat) : decide (cmpList a b > 0) = stringLessThan b a := by
  rw [Bool.eq_iff_iff]; simp only [decide_eq_true_eq]; exact cmpList_pos a b
theorem decide_cmp_le (a b : List Nat) : decide (cmpList a b ≤ 0) = !stringLessThan b a := by
  rw [← decide_cmp_gt, Bool.eq_iff_iff]; simp
theorem decide_cmp_ge (a b : List Nat) : decide (cmpList a b ≥ 0) = !stringLessThan a b := by
  rw [← decide_cmp_lt, Bool.eq_iff_iff]; simp
theorem decide_cmp_eq (a b : List Nat) : decide (cmpList a b = 0) = (a == b) := by
  rw [Bool.eq_iff_iff]; simp [cmpList_zero]
theorem decide_cmp_ne (a b : List Nat) : decide (cmpList a b ≠ 0) = !(a == b) := by
  rw [Bool.eq_iff_iff]; simp [cmpList_zero]

theorem foldBinary_correct (P : Params) (hP : PowLaws P) (G : F64 → Int) (env : Nat → Value)
    (op : Op) (l r res : Expr) (hl : Wf l) (hr : Wf r)
    (h : foldBinaryOperator P.toArith G op l r = .folded res) :
    ∃ v, binary P (specOp op) (eval env l) (eval env r) = some v ∧ ValueSame (eval env res) v := by
  cases op
  case add =>
    simp only [foldBinaryOperator] at h
    cases hn : extractNumericValues l r with
    | some p =>
      obtain ⟨a, b⟩ := p
      simp only [hn, Res.folded.injEq] at h
      obtain ⟨h1, h2, _, _⟩ := extractNumerics_eval env l r a b hl hr hn
      subst h
      exact ⟨_, by rw [h1, h2]; rfl, valueSame_refl _⟩
    | none =>
      simp only [hn] at h
      cases hs : extractStringValues l r with
      | none => simp [hs] at h
      | some p =>
        obtain ⟨a, b⟩ := p
        simp only [hs, Res.folded.injEq] at h
        obtain ⟨h1, h2⟩ := extractStrings_eval env l r a b hl hr hs
        subst h
        exact ⟨_, by rw [h1, h2]; rfl, valueSame_refl _⟩
  case sub =>
    obtain ⟨a, b, h1, h2, _, rfl⟩ := numeric_fold env l r res hl hr _ h
    exact ⟨_, by rw [h1, h2]; rfl, valueSame_refl _⟩
  case mul =>
    obtain ⟨a, b, h1, h2, _, rfl⟩ := numeric_fold env l r res hl hr _ h
    exact ⟨_, by rw [h1, h2]; rfl, valueSame_refl _⟩
  case div =>
    obtain ⟨a, b, h1, h2, _, rfl⟩ := numeric_fold env l r res hl hr _ h
    exact ⟨_, by rw [h1, h2]; rfl, valueSame_refl _⟩
  case rem =>
    obtain ⟨a, b, h1, h2, _, rfl⟩ := numeric_fold env l r res hl hr _ h
    exact ⟨.num (remainder a b), by rw [h1, h2]; rfl, rem_correct a b⟩
  case pow =>
    obtain ⟨a, b, h1, h2, hM, rfl⟩ := numeric_fold env l r res hl hr _ h
    exact ⟨.num (exponentiate P a b), by rw [h1, h2]; rfl, pow_correct P hP a b hM⟩
  case shl =>
    obtain ⟨a, b, h1, h2, _, rfl⟩ := numeric_fold env l r res hl hr _ h
    refine ⟨_, by rw [h1, h2]; rfl, ?_⟩
    simp only [eval, ValueSame, shl_correct]; exact same_refl _
  case shr =>
    obtain ⟨a, b, h1, h2, _, rfl⟩ := numeric_fold env l r res hl hr _ h
    refine ⟨_, by rw [h1, h2]; rfl, ?_⟩
    simp only [eval, ValueSame, shr_correct]; exact same_refl _
  case ushr =>
    obtain ⟨a, b, h1, h2, _, rfl⟩ := numeric_fold env l r res hl hr _ h
    refine ⟨_, by rw [h1, h2]; rfl, ?_⟩
    simp only [eval, ValueSame, ushr_correct]; exact same_refl _
  case band =>
    obtain ⟨a, b, h1, h2, _, rfl⟩ := numeric_fold env l r res hl hr _ h
    refine ⟨_, by rw [h1, h2]; rfl, ?_⟩
    simp only [eval, ValueSame, band_correct]; exact same_refl _
  case bor =>
    obtain ⟨a, b, h1, h2, _, rfl⟩ := numeric_fold env l r res hl hr _ h
    refine ⟨_, by rw [h1, h2]; rfl, ?_⟩
    simp only [eval, ValueSame, bor_correct]; exact same_refl _
  case bxor =>
    obtain ⟨a, b, h1, h2, _, rfl⟩ := numeric_fold env l r res hl hr _ h
    refine ⟨_, by rw [h1, h2]; rfl, ?_⟩
    simp only [eval, ValueSame, bxor_correct]; exact same_refl _
  case lt =>
    rcases compare_fold env l r res hl hr _ _ h with ⟨a, b, h1, h2, rfl⟩ | ⟨a, b, h1, h2, rfl⟩
    · exact ⟨_, by rw [h1, h2]; rfl, by simp [eval, ValueSame, lt_correct]⟩
    · exact ⟨_, by rw [h1, h2]; rfl, by simp [eval, ValueSame, decide_cmp_lt]⟩
  case gt =>
    rcases compare_fold env l r res hl hr _ _ h with ⟨a, b, h1, h2, rfl⟩ | ⟨a, b, h1, h2, rfl⟩
    · exact ⟨_, by rw [h1, h2]; rfl, by simp [eval, ValueSame, ieeeGt, lt_correct]⟩
    · exact ⟨_, by rw [h1, h2]; rfl, by simp [eval, ValueSame, decide_cmp_gt]⟩
  case le =>
    rcases compare_fold env l r res hl hr _ _ h with ⟨a, b, h1, h2, rfl⟩ | ⟨a, b, h1, h2, rfl⟩
    · exact ⟨_, by rw [h1, h2]; rfl, by simp [eval, ValueSame, le_correct]⟩
    · exact ⟨_, by rw [h1, h2]; rfl, by simp [eval, ValueSame, decide_cmp_le, falseResult_some]⟩
  case ge =>
    rcases compare_fold env l r res hl hr _ _ h with ⟨a, b, h1, h2, rfl⟩ | ⟨a, b, h1, h2, rfl⟩
    · exact ⟨_, by rw [h1, h2]; rfl, by simp [eval, ValueSame, ge_correct]⟩
    · exact ⟨_, by rw [h1, h2]; rfl, by simp [eval, ValueSame, decide_cmp_ge, falseResult_some]⟩
  case looseEq =>
    rcases compare_fold env l r res hl hr _ _ h with ⟨a, b, h1, h2, rfl⟩ | ⟨a, b, h1, h2, rfl⟩
    · refine ⟨.bool (numberEqual a b), ?_, by simp [eval, ValueSame, eq_correct]⟩
      rw [h1, h2]; simp [specOp, binary, looselyEqual, boolToNumber, looselyEqualNoBool, strictlyEqual]
    · refine ⟨.bool (a == b), ?_, by simp [eval, ValueSame, decide_cmp_eq]⟩
      rw [h1, h2]; simp [specOp, binary, looselyEqual, boolToNumber, looselyEqualNoBool, strictlyEqual]
  case strictEq =>
    rcases compare_fold env l r res hl hr _ _ h with ⟨a, b, h1, h2, rfl⟩ | ⟨a, b, h1, h2, rfl⟩
    · refine ⟨.bool (numberEqual a b), ?_, by simp [eval, ValueSame, eq_correct]⟩
      rw [h1, h2]; simp [specOp, binary, strictlyEqual]
    · refine ⟨.bool (a == b), ?_, by simp [eval, ValueSame, decide_cmp_eq]⟩
      rw [h1, h2]; simp [specOp, binary, strictlyEqual]
  case looseNe =>
    rcases compare_fold env l r res hl hr _ _ h with ⟨a, b, h1, h2, rfl⟩ | ⟨a, b, h1, h2, rfl⟩
    · refine ⟨.bool (!numberEqual a b), ?_, by simp [eval, ValueSame, ieeeNe, eq_correct]⟩
      rw [h1, h2]; simp [specOp, binary, looselyEqual, boolToNumber, looselyEqualNoBool, strictlyEqual]
    · refine ⟨.bool (!(a == b)), ?_, by simp [eval, ValueSame, decide_cmp_eq]⟩
      rw [h1, h2]; simp [specOp, binary, looselyEqual, boolToNumber, looselyEqualNoBool, strictlyEqual]
  case strictNe =>
    rcases compare_fold env l r res hl hr _ _ h with ⟨a, b, h1, h2, rfl⟩ | ⟨a, b, h1, h2, rfl⟩
    · refine ⟨.bool (!numberEqual a b), ?_, by simp [eval, ValueSame, ieeeNe, eq_correct]⟩
      rw [h1, h2]; simp [specOp, binary, strictlyEqual]
    · refine ⟨.bool (!(a == b)), ?_, by simp [eval, ValueSame, decide_cmp_eq]⟩
      rw [h1, h2]; simp [specOp, binary, strictlyEqual]
  case logicalAnd =>
    simp only [foldBinaryOperator] at h
    cases hb : toBooleanWithSideEffects l with
    | none => simp [hb] at h
    | some p =>
      obtain ⟨b, nse⟩ := p
      have hB := toBoolean_correct env l b nse hl hb
      simp only [hb] at h
      refine ⟨_, rfl, ?_⟩
      cases b
      · simp at h; subst h; simp [hB, valueSame_refl]
      · cases nse <;> simp at h
        subst h; simp [hB, valueSame_refl]
  case logicalOr =>
    simp only [foldBinaryOperator] at h
    cases hb : toBooleanWithSideEffects l with
    | none => simp [hb] at h
    | some p =>
      obtain ⟨b, nse⟩ := p
      have hB := toBoolean_correct env l b nse hl hb
      simp only [hb] at h
      refine ⟨_, rfl, ?_⟩
      cases b
      · cases nse <;> simp at h
        subst h; simp [hB, valueSame_refl]
      · simp at h; subst h; simp [hB, valueSame_refl]
  case nullish =>
    simp only [foldBinaryOperator] at h
    cases hb : toNullOrUndefinedWithSideEffects l with
    | none => simp [hb] at h
    | some p =>
      obtain ⟨b, nse⟩ := p
      have hB := toNullOrUndefined_correct env l b nse hb
      simp only [hb] at h
      refine ⟨_, rfl, ?_⟩
      cases b
      · simp at h; subst h
        have : ¬ (eval env l = .undef ∨ eval env l = .null) := by rw [hB]; simp
        simp [this, valueSame_refl]
      · cases nse <;> simp at h
        subst h
        have : (eval env l = .undef ∨ eval env l = .null) := by rw [hB]
        simp [this, valueSame_refl]
  case other => simp [foldBinaryOperator] at h

-- ---------------------------------------------------------------- unary operators

theorem simplifyBoolean_toBoolean (env : Nat → Value) (v : Expr) (b se : Bool) (hw : Wf v)
    (h : toBooleanWithSideEffects (simplifyBooleanExpr v) = some (b, se)) : toBoolean (eval env v) = b := by
  unfold simplifyBooleanExpr at h
  cases hv : toBooleanWithSideEffects v with
  | none => simp only [hv] at h; cases h
  | some p =>
    obtain ⟨b', nse⟩ := p
    have hB := toBoolean_correct env v b' nse hw hv
    simp only [hv] at h
    split at h
    · simp only [toBooleanWithSideEffects, Option.some.injEq, Prod.mk.injEq] at h
      rw [hB]; exact h.1
    · rw [hv] at h
      simp only [Option.some.injEq, Prod.mk.injEq] at h
      rw [hB]; exact h.1

theorem foldUnary_correct (G : F64 → Int) (env : Nat → Value) (minify fold : Bool) (op : UOp) (v res : Expr)
    (hw : Wf v) (h : foldUnary G minify fold op v = some res) :
    ∃ val, unary (specUOp op) (eval env v) = some val ∧ ValueSame (eval env res) val := by
  cases op
  case typeof =>
    simp only [foldUnary] at h
    cases ht : typeofWithoutSideEffects v with
    | none => simp [ht] at h
    | some s =>
      simp only [ht, Option.map_some, Option.some.injEq] at h
      subst h
      exact ⟨_, rfl, by simp [eval, ValueSame, typeof_correct env v s ht]⟩
  case not =>
    simp only [foldUnary] at h
    refine ⟨_, rfl, ?_⟩
    cases minify
    · simp only [Bool.false_eq_true, if_false] at h
      cases hb : toBooleanWithSideEffects v with
      | none => simp [hb] at h
      | some p =>
        obtain ⟨b, nse⟩ := p
        cases nse <;> simp [hb] at h
        subst h
        simp [eval, ValueSame, toBoolean_correct env v b true hw hb]
    · simp only [if_true] at h
      cases hb : toBooleanWithSideEffects (simplifyBooleanExpr v) with
      | none => simp [hb] at h
      | some p =>
        obtain ⟨b, nse⟩ := p
        cases nse <;> simp [hb] at h
        subst h
        simp [eval, ValueSame, simplifyBoolean_toBoolean env v b true hw hb]
  case void =>
    simp only [foldUnary] at h
    generalize (if minify = true then exprCanBeRemovedIfUnused v else isUnsightlyPrimitive v) = sr at h
    cases sr
    · simp at h
    · simp at h; subst h; exact ⟨_, rfl, rfl⟩
  case pos =>
    simp only [foldUnary] at h
    cases hn : toNumberWithoutSideEffects v with
    | none => simp [hn] at h
    | some n =>
      simp only [hn, Option.map_some, Option.some.injEq] at h
      subst h
      have := toNumber_correct env v n hw hn
      exact ⟨.num n, by simp [specUOp, unary, this], valueSame_refl _⟩
  case neg =>
    simp only [foldUnary] at h
    cases hn : toNumberWithoutSideEffects v with
    | none => simp [hn] at h
    | some n =>
      simp only [hn, Option.map_some, Option.some.injEq] at h
      subst h
      have := toNumber_correct env v n hw hn
      refine ⟨.num (unaryMinus n), ?_, by simp [eval, ValueSame, unaryMinus_eq, same_refl]⟩
      cases hev : eval env v <;> rw [hev] at this <;> simp_all [specUOp, unary, toNumber]
  case cpl =>
    simp only [foldUnary] at h
    split at h
    · cases hn : toNumberWithoutSideEffects v with
      | none => simp [hn] at h
      | some n =>
        simp only [hn, Option.map_some, Option.some.injEq] at h
        subst h
        have := toNumber_correct env v n hw hn
        refine ⟨.num (bitwiseNOT n), ?_, by simp [eval, ValueSame, cpl_correct, same_refl]⟩
        cases hev : eval env v <;> rw [hev] at this <;> simp_all [specUOp, unary, toNumber]
    · cases h

end EsbuildModel.Fold
