import EsbuildModel.Lemmas.ExportMatchStar
/-! `addStar` (the recursion of `addExportsForExportStar`): termination within the fuel, soundness and completeness
with respect to `Finds`. -/
namespace EsbuildModel.ExportMatch

/-- file `x` has `export * from o`, and `o` is a file of the table that is not CommonJS -/
def StarEdge (t : Table) (x o : Nat) : Prop :=
  ∃ f fo, t[x]? = some f ∧ some o ∈ f.stars ∧ t[o]? = some fo ∧ fo.kind ≠ .cjs

/-- the call `addExportsForExportStar(_, x, S)` records the export `d` of name `a` -/
inductive Finds (t : Table) (a : Name) : List Nat → Nat → ImportData → Prop
  | here {S : List Nat} {x o : Nat} {d : ImportData} :
      x ∉ S → StarEdge t x o → FoundAt t (S ++ [x]) o a d → Finds t a S x d
  | deeper {S : List Nat} {x o : Nat} {d : ImportData} :
      x ∉ S → StarEdge t x o → Finds t a (S ++ [x]) o d → Finds t a S x d

/-- what one call of the recursion guarantees for name `a` -/
def CallSpec (t : Table) (a : Name) (S : List Nat) (x : Nat) (res res' : Resolved) : Prop :=
  ExtO (Finds t a S x) (res.lookup a) (res'.lookup a) ∧ ∀ d, Finds t a S x d → RecO d.src (res'.lookup a)

theorem starsLoop_spec {t : Table} {a : Name} {S : List Nat} {x : Nat} {f : File} (hx : x ∉ S) (hf : t[x]? = some f)
    (rec : Resolved → Nat → Option Resolved)
    (hrec : ∀ r o r', rec r o = some r' → CallSpec t a (S ++ [x]) o r r') :
    ∀ (ss : List (Option Nat)) (res res' : Resolved), (∀ s ∈ ss, s ∈ f.stars) →
      starsLoop t (S ++ [x]) rec ss res = some res' →
      ExtO (Finds t a S x) (res.lookup a) (res'.lookup a) ∧
        ∀ d o, some o ∈ ss → StarEdge t x o → (FoundAt t (S ++ [x]) o a d ∨ Finds t a (S ++ [x]) o d) →
          RecO d.src (res'.lookup a) := by
  intro ss
  induction ss with
  | nil =>
    intro res res' _ h
    simp only [starsLoop] at h; cases h
    exact ⟨ExtO.rfl' _, fun d o ho => by simp at ho⟩
  | cons s ss ih =>
    intro res res' hss h
    have hss' : ∀ s' ∈ ss, s' ∈ f.stars := fun s' h' => hss s' (by simp [h'])
    cases s with
    | none =>
      simp only [starsLoop] at h
      obtain ⟨x1, c1⟩ := ih res res' hss' h
      refine ⟨x1, fun d o ho => ?_⟩
      simp at ho
      exact c1 d o ho
    | some o =>
      simp only [starsLoop] at h
      split at h
      · cases h
      · rename_i other hother
        split at h
        · rename_i hcjs
          obtain ⟨x1, c1⟩ := ih res res' hss' h
          refine ⟨x1, fun d o' ho' hedge => ?_⟩
          rcases List.mem_cons.1 ho' with ho' | ho'
          · cases ho'
            obtain ⟨_, fo, _, _, hfo, hk⟩ := hedge
            rw [hother] at hfo; cases hfo
            exact absurd hcjs hk
          · exact c1 d o' ho' hedge
        · rename_i hcjs
          have hedge : StarEdge t x o := ⟨f, other, hf, hss _ (by simp), hother, hcjs⟩
          split at h
          · cases h
          · rename_i r1 h1
            split at h
            · cases h
            · rename_i r2 h2
              obtain ⟨xa, ca⟩ := addAliases_ext (stack := S ++ [x]) hother a other.exports res r1 (fun e he => he) h1
              obtain ⟨xr, cr⟩ := hrec r1 o r2 h2
              obtain ⟨x3, c3⟩ := ih r2 res' hss' h
              have xa' : ExtO (Finds t a S x) (res.lookup a) (r1.lookup a) := xa.mono (fun d hd => .here hx hedge hd)
              have xr' : ExtO (Finds t a S x) (r1.lookup a) (r2.lookup a) := xr.mono (fun d hd => .deeper hx hedge hd)
              refine ⟨(xa'.trans xr').trans x3, ?_⟩
              intro d o' ho' hedge' hd
              rcases List.mem_cons.1 ho' with ho' | ho'
              · cases ho'
                rcases hd with hd | hd
                · obtain ⟨hsrc, hdef, hsh, fo, e, hfo, he, hea, _, _⟩ := hd
                  rw [hother] at hfo; cases hfo
                  have := ca ⟨e, he, hea⟩ hdef hsh
                  rw [hsrc]
                  exact (this.mono xr').mono x3
                · exact (cr d hd).mono x3
              · exact c3 d o' ho' hedge' hd

theorem addStar_spec {t : Table} (a : Name) :
    ∀ (fuel : Nat) (res : Resolved) (x : Nat) (S : List Nat) (res' : Resolved),
      addStar t fuel res x S = some res' → CallSpec t a S x res res' := by
  intro fuel
  induction fuel with
  | zero => intro res x S res' h; simp [addStar] at h
  | succ fuel ih =>
    intro res x S res' h
    rw [addStar] at h
    split at h
    · rename_i hc
      cases h
      have hx : x ∈ S := by simpa using hc
      refine ⟨ExtO.rfl' _, fun d hd => ?_⟩
      cases hd with
      | here h1 => exact absurd hx h1
      | deeper h1 => exact absurd hx h1
    · rename_i hc
      have hx : x ∉ S := by simpa using hc
      split at h
      · cases h
      · rename_i f hf
        obtain ⟨x1, c1⟩ := starsLoop_spec (a := a) hx hf (fun r o => addStar t fuel r o (S ++ [x]))
          (fun r o r' hr => ih r o (S ++ [x]) r' hr) f.stars res res' (fun s hs => hs) h
        refine ⟨x1, fun d hd => ?_⟩
        cases hd with
        | here _ hedge hfound =>
          obtain ⟨f', _, hf', hmem, _, _⟩ := id hedge
          rw [hf] at hf'; cases hf'
          exact c1 d _ hmem hedge (Or.inl hfound)
        | deeper _ hedge hfinds =>
          obtain ⟨f', _, hf', hmem, _, _⟩ := id hedge
          rw [hf] at hf'; cases hf'
          exact c1 d _ hmem hedge (Or.inr hfinds)

/-! ### termination -/

theorem starsLoop_some {t : Table} {stack : List Nat} (hs : ∀ p ∈ stack, p < t.length)
    (rec : Resolved → Nat → Option Resolved) (hrec : ∀ r o, o < t.length → ∃ r', rec r o = some r') :
    ∀ (ss : List (Option Nat)) (res : Resolved), (∀ o, some o ∈ ss → o < t.length) →
      ∃ res', starsLoop t stack rec ss res = some res' := by
  intro ss
  induction ss with
  | nil => intro res _; exact ⟨res, rfl⟩
  | cons s ss ih =>
    intro res hss
    have hss' : ∀ o, some o ∈ ss → o < t.length := fun o h => hss o (by simp [h])
    cases s with
    | none => simpa [starsLoop] using ih res hss'
    | some o =>
      have ho : o < t.length := hss o (by simp)
      have hget : t[o]? = some t[o] := List.getElem?_eq_getElem ho
      simp only [starsLoop, hget]
      split
      · exact ih res hss'
      · obtain ⟨r1, h1⟩ := addAliases_some (t := t) (stack := stack) o hs t[o].exports res
        obtain ⟨r2, h2⟩ := hrec r1 o ho
        obtain ⟨r3, h3⟩ := ih r2 hss'
        exact ⟨r3, by simp [h1, h2, h3]⟩

/-- every `export *` of every file names a file of the table -/
def StarsInRange (t : Table) : Prop := ∀ f ∈ t, ∀ o, some o ∈ f.stars → o < t.length

theorem addStar_some {t : Table} (hwf : StarsInRange t) :
    ∀ (fuel : Nat) (res : Resolved) (x : Nat) (S : List Nat), x < t.length → S.Nodup → (∀ p ∈ S, p < t.length) →
      t.length < fuel + S.length → ∃ res', addStar t fuel res x S = some res' := by
  intro fuel
  induction fuel with
  | zero =>
    intro res x S _ hn hs hfuel
    have := List.Nodup.length_le_of_subset (l₂ := List.range t.length) hn (fun y hy => List.mem_range.mpr (hs y hy))
    simp at this
    omega
  | succ fuel ih =>
    intro res x S hx hn hs hfuel
    rw [addStar]
    split
    · exact ⟨res, rfl⟩
    · rename_i hc
      have hxS : x ∉ S := by simpa using hc
      have hget : t[x]? = some t[x] := List.getElem?_eq_getElem hx
      simp only [hget]
      have hn1 : (S ++ [x]).Nodup := by
        rw [List.nodup_append]
        refine ⟨hn, by simp, ?_⟩
        intro p hp q hq hpq
        simp at hq; subst hq; subst hpq
        exact hxS hp
      have hs1 : ∀ p ∈ S ++ [x], p < t.length := by
        intro p hp
        rcases List.mem_append.1 hp with hp | hp
        · exact hs p hp
        · simp at hp; subst hp; exact hx
      exact starsLoop_some hs1 _ (fun r o ho => ih r o (S ++ [x]) ho hn1 hs1 (by simp; omega)) t[x].stars res
        (hwf t[x] (List.getElem_mem hx))

end EsbuildModel.ExportMatch
