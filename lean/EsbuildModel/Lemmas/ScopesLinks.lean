import EsbuildModel.Lemmas.ScopesParse
import EsbuildModel.Lemmas.ScopesLabels
/-!
Before the visit pass: every `Link` points to an existing symbol, the refs remembered from declareSymbol exist, and no
scope has a label yet.
-/
namespace EsbuildModel.Scopes

theorem LinksOld.mono {a b : Nat} {syms : Syms} (h : LinksOld a syms) (hab : a ≤ b) : LinksOld b syms :=
  fun i s t hs ht => Nat.lt_of_lt_of_le (h i s t hs ht) hab

theorem linksOld_modify {L : Nat} {syms : Syms} (h : LinksOld L syms) (i : Nat) (f : Sym → Sym)
    (hf : ∀ s x, (f s).link = some x → s.link = some x ∨ x < L) : LinksOld L (syms.modify i f) := by
  intro j s t hs ht
  by_cases hij : i = j
  · subst hij
    cases ha : syms[i]? with
    | none => rw [List.getElem?_modify] at hs; simp [ha] at hs
    | some s0 =>
      rw [getElem?_modify_self ha] at hs
      cases hs
      rcases hf s0 t ht with h1 | h1
      · exact h i s0 t ha h1
      · exact h1
  · rw [getElem?_modify_other hij] at hs
    exact h j s t hs ht

theorem linksOld_append {L : Nat} {syms : Syms} (h : LinksOld L syms) (k : SK) (n : Name) :
    LinksOld L (syms ++ [⟨k, n, none, false⟩]) :=
  (SUpd.append L syms k n).links h

theorem linksOld_setKind {L : Nat} {syms : Syms} (h : LinksOld L syms) (i : Nat) (k : SK) : LinksOld L (setKind syms i k) :=
  linksOld_modify h i _ (fun _ _ hx => Or.inl hx)

theorem linksOld_pin {L : Nat} {syms : Syms} (h : LinksOld L syms) (i : Nat) : LinksOld L (pin syms i) :=
  linksOld_modify h i _ (fun _ _ hx => Or.inl hx)

theorem linksOld_setLink {L : Nat} {syms : Syms} (h : LinksOld L syms) (i : Nat) {t : Nat} (ht : t < L) :
    LinksOld L (setLink syms i (some t)) :=
  linksOld_modify h i _ (fun _ x hx => by simp only [Option.some.injEq] at hx; subst hx; exact Or.inr ht)

theorem linksOld_pinIfWith {L : Nat} {syms : Syms} (h : LinksOld L syms) (f : Frame) (i : Nat) :
    LinksOld L (pinIfWith f syms i) := by
  unfold pinIfWith; split
  · exact linksOld_pin h i
  · exact h

/-- declareSymbol: links stay inside the table, the returned ref exists -/
theorem declareSymbol_links {cur cur' : Frame} {st st' : PSt} {k : SK} {n : Name} {r : Nat}
    (h : declareSymbol cur st k n = some (cur', st', r)) (hl : LinksOld st.syms.length st.syms)
    (hb : ∀ s, s ∈ refsOf cur.members → s < st.syms.length) :
    LinksOld st'.syms.length st'.syms ∧ r < st'.syms.length ∧ st'.declRefs = st.declRefs ∧ cur'.label = cur.label := by
  have hl1 : LinksOld (st.syms.length + 1) (st.syms ++ [⟨k, n, none, false⟩]) :=
    linksOld_append (hl.mono (Nat.le_succ _)) k n
  unfold declareSymbol at h
  simp only [newSymbol] at h
  split at h
  · cases h
    exact ⟨by simpa using hl1, by simp, rfl, rfl⟩
  · next existing hex =>
    have hex' : existing < st.syms.length := hb _ (lookup_mem_refsOf hex)
    split at h
    · cases h
    · split at h <;> cases h
      all_goals first
        | exact ⟨by simpa using hl1, by simp only [List.length_append, List.length_singleton]; omega, rfl, rfl⟩
        | exact ⟨by simpa using linksOld_setLink hl1 _ (Nat.lt_succ_self _),
            by simp only [List.length_append, List.length_singleton, length_setLink]; omega, rfl, rfl⟩
        | exact ⟨by simpa using linksOld_setKind hl1 _ _,
            by simp only [List.length_append, List.length_singleton, length_setKind]; omega, rfl, rfl⟩

/-- the part of the state of the parse pass that the label theorems need -/
structure PLinks (c : PCtx) : Prop where
  bnd : ∀ s, s ∈ c.cur.decls → s < c.st.syms.length
  links : LinksOld c.st.syms.length c.st.syms
  refs : ∀ r, r ∈ c.st.declRefs → r < c.st.syms.length
  lab : c.cur.label = none
  klab : labelsKids c.kids = []
  kbnd : KidsBelow c.st.syms.length c.kids

mutual
theorem parseItem_links : ∀ (i : Item) (c c' : PCtx), parseItem i c = some c' → PLinks c →
    PLinks c' ∧ c.st.syms.length ≤ c'.st.syms.length
  | .decl k n, c, c', h, hp => by
    simp only [parseItem] at h
    split at h
    · cases h
    · next cur st r hd =>
      cases h
      obtain ⟨h1, h2, h3, h4⟩ := declareSymbol_links hd hp.links
        (fun s hs => hp.bnd s (mem_decls.mpr (Or.inl hs)))
      obtain ⟨hlen, _, _, hg, hlb, hm, _⟩ := declareSymbol_spec hd
      refine ⟨⟨?_, h1, ?_, by rw [h4]; exact hp.lab, hp.klab,
        fun s hs => by have := hp.kbnd s hs; simp only; omega⟩, by simp only; omega⟩
      · intro s hs
        simp only
        rcases decls_of_parts hs hm hg hlb with h5 | h5
        · have := hp.bnd s h5; omega
        · omega
      · intro x hx
        simp only [List.mem_append, List.mem_singleton] at hx
        rcases hx with hx | hx
        · rw [h3] at hx; have := hp.refs x hx; simp only; omega
        · subst hx; exact h2
  | .declArgs, c, c', h, hp => by
    simp only [parseItem] at h
    split at h
    · cases h; exact ⟨hp, Nat.le_refl _⟩
    · split at h
      · cases h
      · next cur st r hd =>
        cases h
        obtain ⟨h1, h2, h3, h4⟩ := declareSymbol_links hd hp.links
          (fun s hs => hp.bnd s (mem_decls.mpr (Or.inl hs)))
        obtain ⟨hlen, _, _, hg, hlb, hm, _⟩ := declareSymbol_spec hd
        refine ⟨⟨?_, by simpa using linksOld_pin h1 r, ?_, by rw [h4]; exact hp.lab, hp.klab,
          fun s hs => by have := hp.kbnd s hs; simp only [length_pin]; omega⟩, by simp only [length_pin]; omega⟩
        · intro s hs
          simp only [length_pin]
          rcases decls_of_parts hs hm hg hlb with h5 | h5
          · have := hp.bnd s h5; omega
          · omega
        · intro x hx
          simp only at hx
          rw [h3] at hx
          have := hp.refs x hx
          simp only [length_pin]; omega
  | .rawSym n, c, c', h, hp => by
    simp only [parseItem, newSymbol] at h
    cases h
    refine ⟨⟨?_, by simpa using linksOld_append (hp.links.mono (Nat.le_succ _)) .other n, ?_, hp.lab, hp.klab,
      fun s hs => by have := hp.kbnd s hs; simp only [List.length_append, List.length_singleton]; omega⟩, by simp⟩
    · intro s hs; have := hp.bnd s hs; simp only [List.length_append, List.length_singleton]; omega
    · intro x hx
      simp only [List.mem_append, List.mem_singleton] at hx
      simp only [List.length_append, List.length_singleton]
      rcases hx with hx | hx
      · have := hp.refs x hx; omega
      · omega
  | .genSym n, c, c', h, hp => by
    simp only [parseItem, newSymbol] at h
    cases h
    refine ⟨⟨?_, by simpa using linksOld_append (hp.links.mono (Nat.le_succ _)) .other n, ?_, hp.lab, hp.klab,
      fun s hs => by have := hp.kbnd s hs; simp only [List.length_append, List.length_singleton]; omega⟩, by simp⟩
    · intro s hs
      simp only [List.length_append, List.length_singleton]
      simp only [Frame.decls, List.mem_append, List.mem_singleton] at hs
      rcases hs with (hs | hs | hs) | hs
      · have := hp.bnd s (by simp only [Frame.decls, List.mem_append]; exact Or.inl (Or.inl hs)); omega
      · have := hp.bnd s (by simp only [Frame.decls, List.mem_append]; exact Or.inl (Or.inr hs)); omega
      · omega
      · have := hp.bnd s (by simp only [Frame.decls, List.mem_append]; exact Or.inr hs); omega
    · intro x hx
      simp only [List.length_append, List.length_singleton]
      have := hp.refs x hx; omega
  | .classInner _, c, c', h, hp => by simp only [parseItem] at h; cases h; exact ⟨hp, Nat.le_refl _⟩
  | .ref _, c, c', h, hp => by simp only [parseItem] at h; cases h; exact ⟨hp, Nat.le_refl _⟩
  | .eval, c, c', h, hp => by simp only [parseItem] at h; cases h; exact ⟨hp, Nat.le_refl _⟩
  | .cut, c, c', h, hp => by simp only [parseItem] at h; cases h; exact ⟨hp, Nat.le_refl _⟩
  | .scope k us lbl body, c, c', h, hp => by
    simp only [parseItem] at h
    split at h
    · cases h
    · next child0 hpush =>
      split at h
      · cases h
      · next r hr =>
        cases h
        obtain ⟨_, hcd⟩ := pushFrame_spec hpush
        have hclab : child0.label = none := by
          unfold pushFrame at hpush
          split at hpush
          · split at hpush
            · cases hpush
            · split at hpush <;> cases hpush; rfl
          · cases hpush; rfl
        have hlab2 : (if us = true then applyUseStrict c.cur (classStrict child0) else (c.cur, classStrict child0)).2.label
            = none := by
          split
          · unfold applyUseStrict classStrict; simp only; split <;> split <;> simp [hclab]
          · unfold classStrict; simp only; split <;> simp [hclab]
        have hlab1 : (if us = true then applyUseStrict c.cur (classStrict child0) else (c.cur, classStrict child0)).1.label
            = none := by
          split
          · unfold applyUseStrict; simp only; split <;> simp [hp.lab]
          · exact hp.lab
        have hd1 : (if us = true then applyUseStrict c.cur (classStrict child0) else (c.cur, classStrict child0)).1.decls
            = c.cur.decls := by split <;> simp
        have hbnd2 : ∀ s, s ∈ (if us = true then applyUseStrict c.cur (classStrict child0)
            else (c.cur, classStrict child0)).2.decls → s < c.st.syms.length := by
          intro s hs
          have : s ∈ child0.decls := by
            split at hs
            · simpa using hs
            · simpa using hs
          exact hp.bnd s (mem_decls.mpr (Or.inl (hcd s this).1))
        obtain ⟨hr', hle⟩ := parseItems_links body _ r hr ⟨hbnd2, hp.links, hp.refs, hlab2, rfl,
          fun s hs => by simp [allKids] at hs⟩
        refine ⟨⟨?_, hr'.links, hr'.refs, hlab1, ?_, ?_⟩, hle⟩
        · intro s hs; rw [hd1] at hs; exact Nat.lt_of_lt_of_le (hp.bnd s hs) hle
        · rw [labelsKids_append]
          simp only [labelsKids, Sc.labelsL, hr'.lab, hr'.klab, hp.klab, Option.toList, List.append_nil]
        · intro s hs
          rw [allKids_append, List.mem_append, allKids_singleton] at hs
          rcases hs with hs | hs
          · exact Nat.lt_of_lt_of_le (hp.kbnd s hs) hle
          · simp only [Sc.all, List.mem_append] at hs
            rcases hs with hs | hs
            · exact hr'.bnd s hs
            · exact hr'.kbnd s hs
theorem parseItems_links : ∀ (is : List Item) (c c' : PCtx), parseItems is c = some c' → PLinks c →
    PLinks c' ∧ c.st.syms.length ≤ c'.st.syms.length
  | [], c, c', h, hp => by simp only [parseItems] at h; cases h; exact ⟨hp, Nat.le_refl _⟩
  | i :: is, c, c', h, hp => by
    simp only [parseItems] at h
    split at h
    · cases h
    · next c1 h1 =>
      obtain ⟨hp1, l1⟩ := parseItem_links i c c1 h1 hp
      obtain ⟨hp2, l2⟩ := parseItems_links is c1 c' h hp1
      exact ⟨hp2, Nat.le_trans l1 l2⟩
end

-- hoistSymbols ------------------------------------------------------------------------------------

/-- every symbol the enclosing scopes declare is below `n` -/
def AncB (n : Nat) (anc : List Frame) : Prop := ∀ f, f ∈ anc → ∀ s, s ∈ f.decls → s < n

theorem ancB_of_rel {P : Nat → Prop} {n n' : Nat} (hn : n ≤ n') (hP : ∀ s, P s → s < n') :
    ∀ {a b : List Frame}, AncRel P a b → AncB n a → AncB n' b
  | [], [], _, _ => by intro f hf; simp at hf
  | g :: gs, f :: fs, hr, hb => by
    intro f' hf' s hs
    simp only [List.mem_cons] at hf'
    rcases hf' with hf' | hf'
    · subst hf'
      rcases hr.1.2 s hs with h | h
      · exact Nat.lt_of_lt_of_le (hb g (by simp) s h) hn
      · exact hP s h
    · exact ancB_of_rel hn hP hr.2 (fun f0 hf0 => hb f0 (by simp [hf0])) f' hf' s hs
  | [], _ :: _, hr, _ => hr.elim
  | _ :: _, [], hr, _ => hr.elim

theorem hoistUp_links (name : Name) (mref orig : Nat) (sl : Bool) (L : Nat) (hm : mref < L) :
    ∀ (first : Bool) (anc : List Frame) (st : HSt) (anc' : List Frame) (st' : HSt),
    hoistUp name mref orig sl first anc st = some (anc', st') → LinksOld L st.syms → AncB L anc →
    LinksOld L st'.syms ∧ anc'.map (·.label) = anc.map (·.label)
  | _, [], _, _, _, h, _, _ => by simp [hoistUp] at h
  | first, s :: rest, st, anc', st', h, hl, hb => by
    simp only [hoistUp] at h
    have hbrest : AncB L rest := fun f hf => hb f (by simp [hf])
    have hcont : ∀ (s0 : Frame) (st0 : HSt), s0.label = s.label → LinksOld L st0.syms →
        (if s0.kind.stopsHoisting = true then some ({ s0 with members := insert name mref s0.members } :: rest, st0)
          else match hoistUp name mref orig sl false rest st0 with
            | none => none
            | some (rest', st') => some (s0 :: rest', st')) = some (anc', st') →
        LinksOld L st'.syms ∧ anc'.map (·.label) = (s :: rest).map (·.label) := by
      intro s0 st0 hlab hl0 h
      split at h
      · cases h; exact ⟨hl0, by simp [hlab]⟩
      · split at h
        · cases h
        · next rest' st1 hr =>
          cases h
          obtain ⟨h1, h2⟩ := hoistUp_links name mref orig sl L hm false rest st0 rest' st' hr hl0 hbrest
          exact ⟨h1, by simp [hlab, h2]⟩
    have hl1 : LinksOld L (if s.kind = ScK.with_ then { st with syms := pin st.syms mref } else st).syms := by
      split
      · exact linksOld_pin hl _
      · exact hl
    generalize (if s.kind = ScK.with_ then { st with syms := pin st.syms mref } else st) = st1 at h hl1
    split at h
    · exact hcont s _ rfl hl1 h
    · next ex hex =>
      have hex' : ex < L := hb s (by simp) ex (mem_decls.mpr (Or.inl (lookup_mem_refsOf hex)))
      split at h
      · split at h
        · cases h; exact ⟨hl1, rfl⟩
        · split at h
          · cases h
            refine ⟨linksOld_setLink ?_ _ hex', rfl⟩
            split
            · exact pinLinks_ind (fun a => LinksOld L a) (fun a i h => linksOld_pin h i) _ _ _ hl1
            · exact hl1
          · split at h
            · split at h
              · split at h
                · cases h; exact ⟨hl1, rfl⟩
                · split at h <;> cases h <;> exact ⟨hl1, rfl⟩
              · cases h; exact ⟨hl1, rfl⟩
            · exact hcont { s with members := insert name mref s.members } _ rfl
                (linksOld_setLink (by split; exact linksOld_pin hl1 _; exact hl1) _ hm) h
      · cases h

theorem hoistMember_links {anc anc' : List Frame} {f f' : Frame} {st st' : HSt} {mref : Nat}
    (h : hoistMember anc f st mref = some (anc', f', st')) (hm : mref < st.syms.length)
    (hl : LinksOld st.syms.length st.syms) (hb : AncB st.syms.length anc) :
    LinksOld st'.syms.length st'.syms ∧ anc'.map (·.label) = anc.map (·.label) := by
  unfold hoistMember at h
  split at h
  · next sym p rest _ =>
    split at h
    · cases h; exact ⟨hl, rfl⟩
    · split at h
      · cases h; exact ⟨hl, rfl⟩
      · split at h
        · split at h
          · cases h; exact ⟨hl, rfl⟩
          · simp only [newSymbol] at h
            split at h
            · cases h
            · next anc1 st1 hu =>
              cases h
              obtain ⟨hlen, _⟩ := hoistUp_spec _ _ _ _ _ _ _ _ _ hu
              simp only [length_pinIfWith, List.length_append, List.length_singleton] at hlen
              obtain ⟨h1, h2⟩ := hoistUp_links _ _ _ _ (st.syms.length + 1) (Nat.lt_succ_self _) _ _ _ _ _ hu
                (linksOld_pinIfWith (linksOld_append (hl.mono (Nat.le_succ _)) _ _) _ _)
                (fun f hf s hs => Nat.lt_succ_of_lt (hb f hf s hs))
              exact ⟨by rw [hlen]; exact h1, h2⟩
        · split at h
          · cases h
          · next anc1 st1 hu =>
            cases h
            obtain ⟨hlen, _⟩ := hoistUp_spec _ _ _ _ _ _ _ _ _ hu
            simp only [length_pinIfWith] at hlen
            obtain ⟨h1, h2⟩ := hoistUp_links _ _ _ _ st.syms.length hm _ _ _ _ _ hu (linksOld_pinIfWith hl _ _) hb
            exact ⟨by rw [hlen]; exact h1, h2⟩
  · cases h

theorem hoistMembers_links : ∀ (ms : List Nat) {anc anc' : List Frame} {f f' : Frame} {st st' : HSt},
    hoistMembers anc f st ms = some (anc', f', st') → (∀ m, m ∈ ms → m ∈ refsOf f.members) →
    (∀ m, m ∈ refsOf f.members → m < st.syms.length) →
    LinksOld st.syms.length st.syms → AncB st.syms.length anc →
    LinksOld st'.syms.length st'.syms ∧ anc'.map (·.label) = anc.map (·.label)
  | [], anc, anc', f, f', st, st', h, _, _, hl, _ => by
    simp only [hoistMembers] at h; cases h; exact ⟨hl, rfl⟩
  | m :: ms, anc, anc', f, f', st, st', h, hm, hfb, hl, hb => by
    simp only [hoistMembers] at h
    split at h
    · cases h
    · next a1 f1 s1 h1 =>
      have e1 := hoistMember_spec h1 (hm m (by simp))
      obtain ⟨l1, lab1⟩ := hoistMember_links h1 (hfb m (hm m (by simp))) hl hb
      have hb1 : AncB s1.syms.length a1 := ancB_of_rel e1.len (by
        rintro s (hs | hs)
        · exact Nat.lt_of_lt_of_le (hfb s hs) e1.len
        · exact hs.2) e1.anc hb
      obtain ⟨l2, lab2⟩ := hoistMembers_links ms h (fun x hx => e1.mem ▸ hm x (by simp [hx]))
        (fun x hx => Nat.lt_of_lt_of_le (hfb x (e1.mem ▸ hx)) e1.len) l1 hb1
      exact ⟨l2, lab2.trans lab1⟩

mutual
theorem hoistSc_links (esm : Bool) : ∀ (sc : Sc) (anc : List Frame) (st : HSt) (anc' : List Frame) (sc' : Sc) (st' : HSt),
    hoistSc esm anc sc st = some (anc', sc', st') → LinksOld st.syms.length st.syms → AncB st.syms.length anc →
    sc.Below st.syms.length →
    LinksOld st'.syms.length st'.syms ∧ anc'.map (·.label) = anc.map (·.label) ∧ sc'.labelsL = sc.labelsL
  | .node f kids, anc, st, anc', sc', st', h, hl, hb, hbel => by
    simp only [hoistSc] at h
    split at h
    · cases h
    · next es _ =>
      split at h
      · cases h
      · next anc1 f1 st2 hr =>
        have hfb : ∀ m, m ∈ refsOf f.members → m < st.syms.length := fun m hm =>
          hbel m (by simp only [Sc.all, List.mem_append]; exact Or.inl (mem_decls.mpr (Or.inl hm)))
        have hstep : HStep anc f st anc1 f1 st2 ∧ LinksOld st2.syms.length st2.syms ∧
            anc1.map (·.label) = anc.map (·.label) := by
          split at hr
          · cases hr; exact ⟨HStep.errs _ _ _ _, hl, rfl⟩
          · have hms : ∀ m, m ∈ sortRefs (f.members.map (·.2)) → m ∈ refsOf f.members := fun m hm => by
              have := mem_sortRefs hm; simpa [refsOf] using this
            have e := hoistMembers_spec _ hr hms
            obtain ⟨l1, lab1⟩ := hoistMembers_links _ hr hms hfb hl hb
            exact ⟨⟨e.len, e.kind, e.mem, e.lab, e.gen, e.anc⟩, l1, lab1⟩
        obtain ⟨hs, hl2, hlab1⟩ := hstep
        split at h
        · next f2 anc2 kids' st3 hk =>
          cases h
          have hb1 : AncB st2.syms.length anc1 := ancB_of_rel hs.len (by
            rintro s (h1 | h1)
            · exact Nat.lt_of_lt_of_le (hfb s h1) hs.len
            · exact h1.2) hs.anc hb
          have hf1b : ∀ s, s ∈ f1.decls → s < st2.syms.length := by
            intro s h1
            rw [mem_decls] at h1
            rcases h1 with h1 | h1 | h1
            · exact Nat.lt_of_lt_of_le (hfb s (hs.mem ▸ h1)) hs.len
            · rcases hs.gen s h1 with h2 | h2
              · exact Nat.lt_of_lt_of_le (hbel s (by simp only [Sc.all, List.mem_append]; exact Or.inl (mem_decls.mpr (Or.inr (Or.inl h2))))) hs.len
              · exact h2.2
            · exact Nat.lt_of_lt_of_le (hbel s (by simp only [Sc.all, List.mem_append]; exact Or.inl (mem_decls.mpr (Or.inr (Or.inr (hs.lab ▸ h1)))))) hs.len
          have hbk : AncB st2.syms.length (f1 :: anc1) := by
            intro f0 hf0 s h1
            simp only [List.mem_cons] at hf0
            rcases hf0 with hf0 | hf0
            · subst hf0; exact hf1b s h1
            · exact hb1 f0 hf0 s h1
          obtain ⟨l3, lab3, kl3⟩ := hoistKids_links esm kids (f1 :: anc1) st2 (f2 :: anc') kids' st' hk hl2 hbk
            (fun s h1 => Nat.lt_of_lt_of_le (hbel s (by simp only [Sc.all, List.mem_append]; exact Or.inr h1)) hs.len)
          simp only [List.map_cons, List.cons.injEq] at lab3
          refine ⟨l3, lab3.2.trans hlab1, ?_⟩
          simp only [Sc.labelsL, kl3, lab3.1, hs.lab]
        · cases h
theorem hoistKids_links (esm : Bool) : ∀ (ks : List Sc) (anc : List Frame) (st : HSt) (anc' : List Frame) (ks' : List Sc)
    (st' : HSt), hoistKids esm anc ks st = some (anc', ks', st') → LinksOld st.syms.length st.syms →
    AncB st.syms.length anc → KidsBelow st.syms.length ks →
    LinksOld st'.syms.length st'.syms ∧ anc'.map (·.label) = anc.map (·.label) ∧ labelsKids ks' = labelsKids ks
  | [], anc, st, anc', ks', st', h, hl, _, _ => by
    simp only [hoistKids] at h; cases h; exact ⟨hl, rfl, rfl⟩
  | k :: ks, anc, st, anc', ks', st', h, hl, hb, hbel => by
    simp only [hoistKids] at h
    split at h
    · cases h
    · next anc1 k' st1 h1 =>
      split at h
      · cases h
      · next anc2 ks2 st2 h2 =>
        cases h
        have hbk : k.Below st.syms.length := fun s hs => hbel s (by simp [allKids, hs])
        obtain ⟨l1, lab1, kl1⟩ := hoistSc_links esm k anc st anc1 k' st1 h1 hl hb hbk
        obtain ⟨len1, a1, _, _⟩ := hoistSc_spec esm k anc st anc1 k' st1 h1
        have hb1 : AncB st1.syms.length anc1 := ancB_of_rel len1 (by
          rintro s (h3 | h3)
          · exact Nat.lt_of_lt_of_le (hbk s h3) len1
          · exact h3.2) a1 hb
        obtain ⟨l2, lab2, kl2⟩ := hoistKids_links esm ks anc1 st1 anc' ks2 st' h2 l1 hb1
          (fun s hs => Nat.lt_of_lt_of_le (hbel s (by simp [allKids, hs])) len1)
        exact ⟨l2, lab2.trans lab1, by simp only [labelsKids, kl1, kl2]⟩
end

end EsbuildModel.Scopes
