import EsbuildModel.Lemmas.SmJoinAppend
/-!
# Helper lemmas for `Props/C07Join.lean` — part 5: the join lemma
-/
namespace EsbuildModel.SmJoin
open Vlq
open Spec.SourceMapV3 (Ev Orig Seg segsOf)

theorem comma_lead (jl K s : Nat) :
    commaOf (lastAfter jl (List.replicate K 59 ++ List.replicate s 59)) =
      commaOf (if K + s = 0 then jl else 59) := by
  rw [lastAfter_append, lastAfter_replicate, lastAfter_replicate]
  by_cases hK : K = 0 <;> by_cases hs : s = 0 <;> simp [hK, hs]

theorem shift_pick (δ : Shift) (s : Nat) (rest : List Ev) :
    (if hasNl rest then (if s = 0 then δ else δ.noCol).noCol else (if s = 0 then δ else δ.noCol)) =
      (if (decide (s ≠ 0) || hasNl rest) then δ.noCol else δ) := by
  by_cases hs : s = 0 <;> by_cases hr : hasNl rest = true <;> simp [hs, hr, Shift.noCol_noCol]

/-- **Join lemma** (chunk whose first mapping has a source): `AppendSourceMapChunk` appends to the joiner exactly
what the sequential encoder, continuing from `prevEnd` after the joiner's last byte, writes for the line breaks
asked for by the start state followed by the shifted chunk. -/
theorem asmc_src (j : Joiner) (prevEnd start : State) (hl : 0 ≤ start.genLine) (hn : start.hasName = false)
    (s : Nat) (c : Int) (o : Orig) (rest : List Ev) :
    appendSourceMapChunk j prevEnd start
        ⟨(encEvs {} 0 (List.replicate s Ev.nl ++ Ev.seg c (some o) :: rest)).bytes,
         (encEvs {} 0 (List.replicate s Ev.nl ++ Ev.seg c (some o) :: rest)).fno⟩ =
      some ⟨j.data ++ (encEvs prevEnd j.lastByte (List.replicate start.genLine.toNat Ev.nl ++
              shiftEvs (shiftOfStart start) (List.replicate s Ev.nl ++ Ev.seg c (some o) :: rest))).bytes,
            (encEvs prevEnd j.lastByte (List.replicate start.genLine.toNat Ev.nl ++
              shiftEvs (shiftOfStart start) (List.replicate s Ev.nl ++ Ev.seg c (some o) :: rest))).last⟩ ∧
    EndRel (if hasNl (List.replicate s Ev.nl ++ Ev.seg c (some o) :: rest) then (shiftOfStart start).noCol
            else shiftOfStart start) prevEnd.origName
      (encEvs {} 0 (List.replicate s Ev.nl ++ Ev.seg c (some o) :: rest)).fno.isSome
      (encEvs {} 0 (List.replicate s Ev.nl ++ Ev.seg c (some o) :: rest)).st
      (encEvs prevEnd j.lastByte (List.replicate start.genLine.toNat Ev.nl ++
              shiftEvs (shiftOfStart start) (List.replicate s Ev.nl ++ Ev.seg c (some o) :: rest))).st := by
  generalize hK : start.genLine.toNat = K
  generalize hδ : (if s = 0 then shiftOfStart start else (shiftOfStart start).noCol) = δ'
  have hδb : δ'.b = start.origName := by subst hδ; split <;> rfl
  have hδa : δ'.a = start.srcIdx := by subst hδ; split <;> rfl
  have hδdl : δ'.dl = start.origLine := by subst hδ; split <;> rfl
  have hδdc : δ'.dc = start.origCol := by subst hδ; split <;> rfl
  have hδc : δ'.c = if s = 0 then start.genCol else 0 := by subst hδ; split <;> rfl
  have hsevs : List.replicate K Ev.nl ++ shiftEvs (shiftOfStart start)
      (List.replicate s Ev.nl ++ Ev.seg c (some o) :: rest) =
      List.replicate (K + s) Ev.nl ++ shiftEvs δ' (Ev.seg c (some o) :: rest) := by
    rw [shiftEvs_nls, ← List.append_assoc, List.replicate_append_replicate, hδ]
  obtain ⟨hC1, hC2, hC3⟩ := chunk_shape s c o rest
  obtain ⟨hE1, hE3⟩ := joined_shape prevEnd j.lastByte (K + s) δ' c o rest
  obtain ⟨hT, hEnd⟩ := tail_shift c o rest δ' prevEnd.origName s (prevEnd.genLine + ((K + s : Nat) : Int))
  rw [hsevs, encEvs_last, hE1, hC1, hC2, hC3, hE3]
  have hev := fun T T' fno hrest => asmc_eval j prevEnd start hl hn s c o.src o.line o.col T T' fno hrest
  simp only [hK] at hev
  constructor
  · -- the bytes
    cases hnm : o.name with
    | some n =>
      rw [hnm] at hT
      simp only [nameBytes, Option.map_some] at hT ⊢
      rw [hev _ _ _ (fun j' => rest_named j' s c o.src o.line o.col (n - 0) _ _)]
      rw [hT, comma_lead, hδa, hδb, hδdl, hδdc, hδc]
      have e1 : n - 0 + (start.origName - prevEnd.origName) = n + start.origName - prevEnd.origName := by omega
      have e2 : ((if s = 0 then start.genCol else 0) + c - if K = 0 ∧ s = 0 then prevEnd.genCol else 0) =
          (c + (if s = 0 then start.genCol else 0) - if K + s = 0 then prevEnd.genCol else 0) := by
        by_cases h1 : K = 0 <;> by_cases h2 : s = 0 <;> simp [h1, h2] <;> omega
      have e3 : start.srcIdx + o.src = o.src + start.srcIdx := by omega
      have e4 : start.origLine + o.line = o.line + start.origLine := by omega
      have e5 : start.origCol + o.col = o.col + start.origCol := by omega
      simp only [e1, e2, e3, e4, e5, List.append_assoc, ← List.replicate_append_replicate]
    | none =>
      rw [hnm] at hT
      cases hf : (encEvs { afterFirst c o 0 with genLine := s } 65 rest).fno with
      | none =>
        rw [hf] at hT
        simp only [nameBytes, Option.map_none, List.nil_append] at hT ⊢
        rw [hev _ _ _ (fun j' => rest_plain j' s c o.src o.line o.col _ _)]
        rw [hT, comma_lead, hδa, hδdl, hδdc, hδc]
        have e2 : ((if s = 0 then start.genCol else 0) + c - if K = 0 ∧ s = 0 then prevEnd.genCol else 0) =
            (c + (if s = 0 then start.genCol else 0) - if K + s = 0 then prevEnd.genCol else 0) := by
          by_cases h1 : K = 0 <;> by_cases h2 : s = 0 <;> simp [h1, h2] <;> omega
        have e3 : start.srcIdx + o.src = o.src + start.srcIdx := by omega
        have e4 : start.origLine + o.line = o.line + start.origLine := by omega
        have e5 : start.origCol + o.col = o.col + start.origCol := by omega
        simp only [e2, e3, e4, e5, List.append_assoc, ← List.replicate_append_replicate]
      | some k =>
        rw [hf] at hT
        obtain ⟨X, n, Y, hb, hX, hb'⟩ := hT
        simp only [nameBytes, Option.map_none, Option.map_some, List.nil_append]
        rw [hb, ← hX]
        rw [hev _ _ _ (fun j' => rest_later j' s c o.src o.line o.col n _ X Y)]
        rw [hb', comma_lead, hδa, hδb, hδdl, hδdc, hδc]
        have e2 : ((if s = 0 then start.genCol else 0) + c - if K = 0 ∧ s = 0 then prevEnd.genCol else 0) =
            (c + (if s = 0 then start.genCol else 0) - if K + s = 0 then prevEnd.genCol else 0) := by
          by_cases h1 : K = 0 <;> by_cases h2 : s = 0 <;> simp [h1, h2] <;> omega
        have e3 : start.srcIdx + o.src = o.src + start.srcIdx := by omega
        have e4 : start.origLine + o.line = o.line + start.origLine := by omega
        have e5 : start.origCol + o.col = o.col + start.origCol := by omega
        simp only [e2, e3, e4, e5, List.append_assoc, ← List.replicate_append_replicate]
  · -- the end state
    rw [hasNl_nls_append]
    simp only [hasNl]
    rw [← hδ] at hEnd
    rw [shift_pick] at hEnd
    rw [← hδ]
    cases hnm : o.name with
    | some n =>
      simp only [hnm, Option.isSome_some, Bool.true_or] at hEnd ⊢
      exact hEnd
    | none =>
      simp only [hnm, Option.isSome_none, Bool.false_or, Option.isSome_map] at hEnd ⊢
      exact hEnd

end EsbuildModel.SmJoin
