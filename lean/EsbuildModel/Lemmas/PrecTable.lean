/-
Facts about the regenerated operator table (`Gen/OpTable.lean`), each decided over the finite table by kernel
evaluation. They are the only place where the proofs look inside the table: everything else uses the grammar-side
functions `BinOp.stratum`, `BinOp.assoc`, `BinOp.tok`, `UnOp.tok`. If js_ast.go changes a level, a text or an
associativity range, these stop holding and every theorem that rests on them is reported broken.
-/
import EsbuildModel.Impl.PrecPrint

namespace EsbuildModel.PrecPrint
open EsbuildModel.JsExpr

theorem binEntry_level (op : BinOp) : (binEntry op).level = op.stratum := by
  cases op <;> decide +kernel

theorem binEntry_tok (op : BinOp) : Tok.ofText (binEntry op).text = .p op.tok := by
  cases op <;> decide +kernel

theorem unEntry_level (op : UnOp) : (unEntry op).level = if op.isPostfix then 19 else 18 := by
  cases op <;> decide +kernel

theorem unEntry_tok (op : UnOp) : Tok.ofText (unEntry op).text = .p op.tok := by
  cases op <;> decide +kernel

theorem isPrefix_unEntry (op : UnOp) : isPrefix (unEntry op).code = !op.isPostfix := by
  cases op <;> decide +kernel

theorem isUnaryUpdate_unEntry (op : UnOp) : isUnaryUpdate (unEntry op).code = op.isUpdate := by
  cases op <;> decide +kernel

theorem isLeftAssoc_binEntry (op : BinOp) :
    isLeftAssoc (binEntry op).code = decide (op.assoc = .left ∧ op ≠ .comma) := by
  cases op <;> decide +kernel

theorem isRightAssoc_binEntry (op : BinOp) : isRightAssoc (binEntry op).code = decide (op.assoc = .right) := by
  cases op <;> decide +kernel

theorem code_eq_in (op : BinOp) : ((binEntry op).code == (binEntry .in_).code) = decide (op = .in_) := by
  cases op <;> decide +kernel
theorem code_eq_nullish (op : BinOp) : ((binEntry op).code == (binEntry .nullish).code) = decide (op = .nullish) := by
  cases op <;> decide +kernel
theorem code_eq_pow (op : BinOp) : ((binEntry op).code == (binEntry .pow).code) = decide (op = .pow) := by
  cases op <;> decide +kernel
theorem code_eq_or (op : BinOp) : ((binEntry op).code == (binEntry .logicalOr).code) = decide (op = .logicalOr) := by
  cases op <;> decide +kernel
theorem code_eq_and (op : BinOp) : ((binEntry op).code == (binEntry .logicalAnd).code) = decide (op = .logicalAnd) := by
  cases op <;> decide +kernel

theorem lvl_LLowest : lvl "LLowest" = 0 := by decide +kernel
theorem lvl_LComma : lvl "LComma" = 1 := by decide +kernel
theorem lvl_LYield : lvl "LYield" = 3 := by decide +kernel
theorem lvl_LConditional : lvl "LConditional" = 5 := by decide +kernel
theorem lvl_LPrefix : lvl "LPrefix" = 18 := by decide +kernel
theorem lvl_LPostfix : lvl "LPostfix" = 19 := by decide +kernel
theorem lvl_LNew : lvl "LNew" = 20 := by decide +kernel
theorem lvl_LCall : lvl "LCall" = 21 := by decide +kernel

end EsbuildModel.PrecPrint
