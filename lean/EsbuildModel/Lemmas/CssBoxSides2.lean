import EsbuildModel.Lemmas.CssBoxSides
/-
What the unit-safety tracker of a whole shorthand value says about the tokens it has seen.
-/
namespace EsbuildModel.CssBox
open EsbuildModel.Spec.BoxCascade

section
variable {V : Type} {B : Browser Tok V} {F : Family}

/-- `U` describes the tokens `l` it was fed -/
def Desc (F : Family) (U : Safety) (l : List Token) : Prop :=
  (U.status = .safe → ∀ t ∈ l, Accepted F t) ∧
  (U.status = .unsafeSingle → (∀ t ∈ l, Accepted F t ∨ UDim U.unit t) ∧ ∃ t ∈ l, UDim U.unit t)

theorem Desc.nil : Desc F {} [] := ⟨fun _ t h => (by simp at h), fun h => (by simp at h)⟩

theorem Desc.cons_acc {U : Safety} {l : List Token} (h : Desc F U l) (t : Token) (ht : Accepted F t) : Desc F U (t :: l) := by
  refine ⟨fun hs t' ht' => ?_, fun hs => ⟨fun t' ht' => ?_, ?_⟩⟩
  · rcases List.mem_cons.mp ht' with rfl | h'
    · exact ht
    · exact h.1 hs t' h'
  · rcases List.mem_cons.mp ht' with rfl | h'
    · exact Or.inl ht
    · exact (h.2 hs).1 t' h'
  · obtain ⟨w, hw, hw'⟩ := (h.2 hs).2
    exact ⟨w, List.mem_cons_of_mem _ hw, hw'⟩

theorem Desc.mixed (U : Safety) (l : List Token) (h : U.status = .unsafeMixed) : Desc F U l :=
  ⟨fun hs => (by rw [h] at hs; cases hs), fun hs => (by rw [h] at hs; cases hs)⟩

theorem Desc.inc {U : Safety} {l : List Token} (h : Desc F U l) (t : Token) (ht : TrackerAccepts F t) :
    Desc F (incSafety (famAllowAuto F) U t) (t :: l) := by
  unfold incSafety
  by_cases hn : t.kind.isNumeric = true
  · have : (!famAllowAuto F || t.kind.isNumeric) = true := by simp [hn]
    rw [if_pos this]
    unfold Safety.includeUnitOf
    cases hk : t.kind with
    | eof => simp [hk, Kind.isNumeric] at hn
    | ident => simp [hk, Kind.isNumeric] at hn
    | other => simp [hk, Kind.isNumeric] at hn
    | number =>
      dsimp only
      by_cases h0 : t.text = b "0"
      · rw [if_pos h0]; exact h.cons_acc t (Or.inl ⟨hn, Or.inl ⟨hk, h0⟩⟩)
      · rw [if_neg h0]; exact Desc.mixed _ _ rfl
    | percentage => exact h.cons_acc t (Or.inl ⟨hn, Or.inr (Or.inl hk)⟩)
    | dimension =>
      dsimp only
      by_cases hs : t.unitIsSafeLength = true
      · rw [if_pos hs]; exact h.cons_acc t (Or.inl ⟨hn, Or.inr (Or.inr ⟨hk, hs⟩)⟩)
      · rw [if_neg hs]
        have hud : UDim t.dimUnit t := ⟨hk, by simpa using hs, rfl⟩
        by_cases h1 : U.status = .safe
        · rw [if_pos h1]
          refine ⟨fun h' => (by cases h'), fun _ => ⟨fun t' ht' => ?_, t, by simp, hud⟩⟩
          rcases List.mem_cons.mp ht' with rfl | h'
          · exact Or.inr hud
          · exact Or.inl (h.1 h1 t' h')
        · rw [if_neg h1]
          by_cases h2 : U.status = .unsafeSingle ∧ U.unit = t.dimUnit
          · rw [if_pos h2]
            refine ⟨fun h' => absurd h' h1, fun hs' => ⟨fun t' ht' => ?_, t, by simp, by rw [h2.2]; exact hud⟩⟩
            rcases List.mem_cons.mp ht' with rfl | h'
            · right; rw [h2.2]; exact hud
            · exact (h.2 hs').1 t' h'
          · rw [if_neg h2]; exact Desc.mixed _ _ rfl
  · rcases ht with h' | h'
    · exact absurd h' hn
    · have : ¬((!famAllowAuto F || t.kind.isNumeric) = true) := by simp [h'.1, hn]
      rw [if_neg this]
      exact h.cons_acc t (Or.inr h')

theorem quadSafety_desc (q : Token × Token × Token × Token) (hq : ∀ s, TrackerAccepts F (pickT q s)) :
    Desc F (quadSafety (famAllowAuto F) q) [q.2.2.2, q.2.2.1, q.2.1, q.1] := by
  unfold quadSafety
  exact (((Desc.nil.inc q.1 (hq .top)).inc q.2.1 (hq .right)).inc q.2.2.1 (hq .bottom)).inc q.2.2.2 (hq .left)

theorem pickT_mem (q : Token × Token × Token × Token) (s : Side) : pickT q s ∈ [q.2.2.2, q.2.2.1, q.2.1, q.1] := by
  cases s <;> simp [pickT]

/-- consequences for the four sides -/
theorem quadSafety_spec (hB : CssFacts B F) (q : Token × Token × Token × Token) (hq : ∀ s, TrackerAccepts F (pickT q s)) :
    ((quadSafety (famAllowAuto F) q).status = .safe → ∀ s, Accepted F (pickT q s)) ∧
    ((quadSafety (famAllowAuto F) q).status = .unsafeSingle →
      (∀ s, okT B (pickT q s) = true ∨ UDim (quadSafety (famAllowAuto F) q).unit (pickT q s)) ∧
      ∃ s, UDim (quadSafety (famAllowAuto F) q).unit (pickT q s)) ∧
    ClassOK B (quadSafety (famAllowAuto F) q) (okT B q.1 && okT B q.2.1 && okT B q.2.2.1 && okT B q.2.2.2) := by
  have hd := quadSafety_desc (F := F) q hq
  generalize quadSafety (famAllowAuto F) q = U at *
  have hall : ∀ (w : Bool), (∀ s, okT B (pickT q s) = true ∨ okT B (pickT q s) = w) → (∃ s, okT B (pickT q s) = w) →
      (okT B q.1 && okT B q.2.1 && okT B q.2.2.1 && okT B q.2.2.2) = w := by
    intro w h1 h2
    have a := h1 .top; have b' := h1 .right; have c := h1 .bottom; have e := h1 .left
    simp only [pickT] at a b' c e
    cases w with
    | true => rcases a with a | a <;> rcases b' with b' | b' <;> rcases c with c | c <;> rcases e with e | e <;> simp [a, b', c, e]
    | false =>
      obtain ⟨s, hs⟩ := h2
      cases s <;> simp only [pickT] at hs <;> simp [hs]
  refine ⟨fun hs s => hd.1 hs _ (pickT_mem q s), fun hs => ⟨fun s => ?_, ?_⟩, ⟨fun hs => ?_, fun hs t2 ht2 => ?_⟩⟩
  · rcases (hd.2 hs).1 _ (pickT_mem q s) with h | h
    · exact Or.inl (hB.ok_safe _ h)
    · exact Or.inr h
  · obtain ⟨w, hw, hw'⟩ := (hd.2 hs).2
    simp only [List.mem_cons, List.not_mem_nil, or_false] at hw
    rcases hw with rfl | rfl | rfl | rfl
    · exact ⟨.left, hw'⟩
    · exact ⟨.bottom, hw'⟩
    · exact ⟨.right, hw'⟩
    · exact ⟨.top, hw'⟩
  · apply hall true
    · intro s; exact Or.inl (hB.ok_safe _ (hd.1 hs _ (pickT_mem q s)))
    · exact ⟨.top, hB.ok_safe _ (hd.1 hs _ (pickT_mem q .top))⟩
  · -- every token is accepted for sure, or has the same unit as `t2`
    have hsame : ∀ t, UDim U.unit t → okT B t = okT B t2 := fun t ht =>
      hB.ok_unit t t2 ht.1 ht2.1 ht.2.1 ht2.2.1 (by rw [ht.2.2, ht2.2.2])
    apply (hall (okT B t2) ?_ ?_).symm
    · intro s
      rcases (hd.2 hs).1 _ (pickT_mem q s) with h | h
      · exact Or.inl (hB.ok_safe _ h)
      · exact Or.inr (hsame _ h)
    · obtain ⟨w, hw, hw'⟩ := (hd.2 hs).2
      simp only [List.mem_cons, List.not_mem_nil, or_false] at hw
      rcases hw with rfl | rfl | rfl | rfl
      · exact ⟨.left, hsame _ hw'⟩
      · exact ⟨.bottom, hsame _ hw'⟩
      · exact ⟨.right, hsame _ hw'⟩
      · exact ⟨.top, hsame _ hw'⟩

end
end EsbuildModel.CssBox
