import EsbuildModel.Impl.ExportMatch
/-!
`addExportsForExportStar` seen one export name at a time.  `Finds t a S x d`: the call for file `x` with visited stack
`S` records the export `d` of name `a` — `d`'s file is reached from `x` by a path of `export *` statements that never
revisits a file of the stack (nor of the path itself) and on which no file, nor any file of `S`, exports `a` itself.
`addStar_spec`: the call records exactly these (soundness: everything it adds is one; completeness: the file of every one
ends up as the main entry or in `PotentiallyAmbiguousExportStarRefs`).
-/
namespace EsbuildModel.ExportMatch

/-! ### association lists -/

theorem lookup_append_single (res : Resolved) (k : Name) (v : ExportData) (a : Name) :
    (res ++ [(k, v)]).lookup a =
      match res.lookup a with
      | some x => some x
      | none => if a = k then some v else none := by
  induction res with
  | nil =>
    by_cases h : a = k
    · subst h; simp [List.lookup]
    · have : (a == k) = false := by simpa using h
      simp [List.lookup, this, h]
  | cons p res ih =>
    obtain ⟨k', v'⟩ := p
    simp only [List.cons_append, List.lookup]
    cases h : a == k' with
    | true => simp
    | false => simpa using ih

theorem lookup_setVal (res : Resolved) (k : Name) (v : ExportData) (a : Name) :
    (setVal k v res).lookup a = if a = k then (res.lookup a).map (fun _ => v) else res.lookup a := by
  induction res with
  | nil => simp [setVal, List.lookup]
  | cons p res ih =>
    obtain ⟨k', w⟩ := p
    simp only [setVal]
    by_cases hk : k' = k
    · subst hk
      simp only [if_true, List.lookup]
      by_cases ha : a = k'
      · subst ha; simp
      · have : (a == k') = false := by simpa using ha
        simp [this, ha]
    · simp only [hk, if_false, List.lookup]
      cases h : a == k' with
      | true =>
        have : a = k' := by simpa using h
        subst this
        simp [hk]
      | false => simpa using ih

/-! ### one name at a time -/

/-- `s'` extends `s` (the entry of one name) by exports that satisfy `F` -/
def ExtO (F : ImportData → Prop) : Option ExportData → Option ExportData → Prop
  | none, none => True
  | none, some ex' => F ⟨ex'.src, ex'.ref, ex'.loc⟩ ∧ ∀ d ∈ ex'.ambs, F d
  | some ex, some ex' => ex'.src = ex.src ∧ ex'.ref = ex.ref ∧ ex'.loc = ex.loc ∧
      ∃ new, ex'.ambs = ex.ambs ++ new ∧ ∀ d ∈ new, F d
  | some _, none => False

theorem ExtO.rfl' {F : ImportData → Prop} (s : Option ExportData) : ExtO F s s := by
  cases s with
  | none => trivial
  | some ex => exact ⟨rfl, rfl, rfl, [], by simp, by simp⟩

theorem ExtO.mono {F G : ImportData → Prop} (h : ∀ d, F d → G d) {s s' : Option ExportData} (e : ExtO F s s') :
    ExtO G s s' := by
  cases s with
  | none =>
    cases s' with
    | none => trivial
    | some ex' => exact ⟨h _ e.1, fun d hd => h d (e.2 d hd)⟩
  | some ex =>
    cases s' with
    | none => exact e
    | some ex' =>
      obtain ⟨h1, h2, h3, new, h4, h5⟩ := e
      exact ⟨h1, h2, h3, new, h4, fun d hd => h d (h5 d hd)⟩

theorem ExtO.trans {F : ImportData → Prop} {s1 s2 s3 : Option ExportData} (e1 : ExtO F s1 s2) (e2 : ExtO F s2 s3) :
    ExtO F s1 s3 := by
  cases s1 with
  | none =>
    cases s2 with
    | none => exact e2
    | some ex2 =>
      cases s3 with
      | none => exact absurd e2 id
      | some ex3 =>
        obtain ⟨h1, h2, h3, new, h4, h5⟩ := e2
        refine ⟨by rw [h1, h2, h3]; exact e1.1, ?_⟩
        intro d hd
        rw [h4] at hd
        rcases List.mem_append.1 hd with hd | hd
        · exact e1.2 d hd
        · exact h5 d hd
  | some ex1 =>
    cases s2 with
    | none => exact absurd e1 id
    | some ex2 =>
      cases s3 with
      | none => exact e2
      | some ex3 =>
        obtain ⟨a1, a2, a3, n1, a4, a5⟩ := e1
        obtain ⟨b1, b2, b3, n2, b4, b5⟩ := e2
        refine ⟨b1.trans a1, b2.trans a2, b3.trans a3, n1 ++ n2, by rw [b4, a4, List.append_assoc], ?_⟩
        intro d hd
        rcases List.mem_append.1 hd with hd | hd
        · exact a5 d hd
        · exact b5 d hd

/-- file `o` is the main entry or one of the potentially ambiguous ones -/
def RecO (o : Nat) (s : Option ExportData) : Prop := ∃ ex, s = some ex ∧ (ex.src = o ∨ ∃ d ∈ ex.ambs, d.src = o)

theorem RecO.mono {F : ImportData → Prop} {o : Nat} {s s' : Option ExportData} (r : RecO o s) (e : ExtO F s s') :
    RecO o s' := by
  obtain ⟨ex, rfl, h⟩ := r
  cases s' with
  | none => exact absurd e id
  | some ex' =>
    obtain ⟨h1, _, _, new, h4, _⟩ := e
    refine ⟨ex', rfl, ?_⟩
    rcases h with h | ⟨d, hd, h⟩
    · exact Or.inl (h1.trans h)
    · exact Or.inr ⟨d, by rw [h4]; exact List.mem_append_left _ hd, h⟩

/-- the export of name `a` found in file `o` while the stack is `stack` -/
def FoundAt (t : Table) (stack : List Nat) (o : Nat) (a : Name) (d : ImportData) : Prop :=
  d.src = o ∧ a ≠ "default" ∧ shadowed t stack a = some false ∧
    ∃ fo e, t[o]? = some fo ∧ e ∈ fo.exports ∧ e.alias = a ∧ e.ref = d.ref ∧ e.loc = d.loc

theorem addAlias_ext {t : Table} {stack : List Nat} {o : Nat} {res res' : Resolved} {e : NamedExport} {fo : File}
    (ho : t[o]? = some fo) (he : e ∈ fo.exports) (h : addAlias t stack o res e = some res') (a : Name) :
    ExtO (FoundAt t stack o a) (res.lookup a) (res'.lookup a) ∧
      (e.alias = a → a ≠ "default" → shadowed t stack a = some false → RecO o (res'.lookup a)) := by
  unfold addAlias at h
  split at h
  · rename_i hd
    cases h
    exact ⟨ExtO.rfl' _, fun h1 h2 => absurd (h1 ▸ hd) h2⟩
  · rename_i hd
    split at h
    · cases h
    · rename_i hsh
      cases h
      refine ⟨ExtO.rfl' _, fun h1 _ h3 => ?_⟩
      rw [h1, h3] at hsh; cases hsh
    · rename_i hsh
      have hfound : e.alias = a → FoundAt t stack o a ⟨o, e.ref, e.loc⟩ := by
        intro h1
        exact ⟨rfl, h1 ▸ hd, h1 ▸ hsh, fo, e, ho, he, h1, rfl, rfl⟩
      split at h
      · rename_i hl
        cases h
        rw [lookup_append_single]
        by_cases ha : a = e.alias
        · subst ha
          rw [hl]
          simp only [if_true]
          exact ⟨⟨hfound rfl, by simp⟩, fun _ _ _ => ⟨_, rfl, Or.inl rfl⟩⟩
        · cases hla : res.lookup a with
          | none => simp only [ha, if_false]; exact ⟨trivial, fun h1 => absurd h1.symm ha⟩
          | some x => exact ⟨ExtO.rfl' _, fun h1 => absurd h1.symm ha⟩
      · rename_i ex hl
        split at h
        · rename_i hne
          cases h
          rw [lookup_setVal]
          by_cases ha : a = e.alias
          · subst ha
            rw [hl]
            simp only [if_true, Option.map_some]
            refine ⟨⟨rfl, rfl, rfl, [⟨o, e.ref, e.loc⟩], rfl, ?_⟩, fun _ _ _ => ⟨_, rfl, Or.inr ⟨⟨o, e.ref, e.loc⟩, by simp, rfl⟩⟩⟩
            intro d hd
            simp at hd; subst hd
            exact hfound rfl
          · simp only [ha, if_false]
            exact ⟨ExtO.rfl' _, fun h1 => absurd h1.symm ha⟩
        · rename_i hne
          cases h
          refine ⟨ExtO.rfl' _, fun h1 _ _ => ?_⟩
          subst h1
          rw [hl]
          exact ⟨ex, rfl, Or.inl (by simpa using hne)⟩

theorem addAliases_ext {t : Table} {stack : List Nat} {o : Nat} {fo : File} (ho : t[o]? = some fo) (a : Name) :
    ∀ (es : List NamedExport) (res res' : Resolved), (∀ e ∈ es, e ∈ fo.exports) →
      addAliases t stack o res es = some res' →
      ExtO (FoundAt t stack o a) (res.lookup a) (res'.lookup a) ∧
        ((∃ e ∈ es, e.alias = a) → a ≠ "default" → shadowed t stack a = some false → RecO o (res'.lookup a)) := by
  intro es
  induction es with
  | nil =>
    intro res res' _ h
    simp only [addAliases] at h; cases h
    exact ⟨ExtO.rfl' _, fun ⟨e, he, _⟩ => by simp at he⟩
  | cons e es ih =>
    intro res res' hes h
    simp only [addAliases] at h
    split at h
    · cases h
    · rename_i r1 h1
      obtain ⟨x1, c1⟩ := addAlias_ext ho (hes e (by simp)) h1 a
      obtain ⟨x2, c2⟩ := ih r1 res' (fun e' he' => hes e' (by simp [he'])) h
      refine ⟨x1.trans x2, ?_⟩
      rintro ⟨e', he', ha⟩ hd hsh
      rcases List.mem_cons.1 he' with rfl | he'
      · exact (c1 ha hd hsh).mono x2
      · exact c2 ⟨e', he', ha⟩ hd hsh

/-- `shadowed` answers when every file of the stack is in the table -/
theorem shadowed_some {t : Table} (a : Name) : ∀ (stack : List Nat), (∀ p ∈ stack, p < t.length) →
    ∃ b, shadowed t stack a = some b := by
  intro stack
  induction stack with
  | nil => intro _; exact ⟨false, rfl⟩
  | cons p ps ih =>
    intro h
    have hlt : p < t.length := h p (by simp)
    have hp : t[p]? = some t[p] := List.getElem?_eq_getElem hlt
    simp only [shadowed, hp]
    split
    · exact ⟨true, rfl⟩
    · exact ih (fun q hq => h q (by simp [hq]))

theorem addAliases_some {t : Table} {stack : List Nat} (o : Nat) (hs : ∀ p ∈ stack, p < t.length) :
    ∀ (es : List NamedExport) (res : Resolved), ∃ res', addAliases t stack o res es = some res' := by
  intro es
  induction es with
  | nil => intro res; exact ⟨res, rfl⟩
  | cons e es ih =>
    intro res
    have h1 : ∃ r1, addAlias t stack o res e = some r1 := by
      unfold addAlias
      split
      · exact ⟨_, rfl⟩
      · obtain ⟨b, hb⟩ := shadowed_some e.alias stack hs
        rw [hb]
        cases b with
        | true => exact ⟨_, rfl⟩
        | false =>
          simp only
          split
          · exact ⟨_, rfl⟩
          · split <;> exact ⟨_, rfl⟩
    obtain ⟨r1, h1⟩ := h1
    obtain ⟨r2, h2⟩ := ih r1
    exact ⟨r2, by simp [addAliases, h1, h2]⟩

end EsbuildModel.ExportMatch
