import EsbuildModel.Lemmas.SmChunkItems
import EsbuildModel.Lemmas.OutPathsRelSpec
/-!
`generate` (model of `generateSourceMapForChunk`) taken apart; names offsets; the relative path of a source.
-/
namespace EsbuildModel.SmChunk
open SmJoin

theorem toLinkIns_mem {tbl : List (Nat × Nat)} : ∀ (rs : List ResultIn) (ins : List LinkIn),
    toLinkIns tbl rs = some ins → ∀ r ∈ rs, ∃ x ∈ ins, toLinkIn tbl r = some x := by
  intro rs
  induction rs with
  | nil => intro ins _ r hr; cases hr
  | cons r0 rs ih =>
    intro ins h r hr
    simp only [toLinkIns] at h
    split at h
    · cases h
    next x hx =>
    cases hrec : toLinkIns tbl rs with
    | none => rw [hrec] at h; cases h
    | some rest =>
      rw [hrec] at h
      simp only [Option.map_some, Option.some.injEq] at h
      subst h
      simp only [List.mem_cons] at hr
      rcases hr with rfl | hr
      · exact ⟨x, by simp, hx⟩
      · obtain ⟨y, hy, hy2⟩ := ih rest hrec r hr
        exact ⟨y, by simp [hy], hy2⟩

theorem toLinkIns_length {tbl : List (Nat × Nat)} : ∀ (rs : List ResultIn) (ins : List LinkIn),
    toLinkIns tbl rs = some ins → ins.length = rs.length := by
  intro rs
  induction rs with
  | nil => intro ins h; simp only [toLinkIns, Option.some.injEq] at h; subst h; rfl
  | cons r0 rs ih =>
    intro ins h
    simp only [toLinkIns] at h
    split at h
    · cases h
    next x hx =>
    cases hrec : toLinkIns tbl rs with
    | none => rw [hrec] at h; cases h
    | some rest =>
      rw [hrec] at h
      simp only [Option.map_some, Option.some.injEq] at h
      subst h
      simp [ih rest hrec]

/-- `generate` succeeds exactly through its three stages -/
theorem generate_eq_some {files exclude root dir results g}
    (h : generate files exclude root dir results = some g) :
    ∃ st ins, itemsLoop files exclude {} results = some st ∧ toLinkIns st.tbl results = some ins ∧
      linkJoin ins = some g.mappings ∧
      g.sources = st.items.map (fun it => writeSource dir it.source) ∧
      g.sourceRoot = (if root ≠ [] then some root else none) ∧
      g.sourcesContent = (if exclude then none else some (st.items.map (·.quoted))) ∧
      g.names = (results.map (·.quotedNames)).flatten := by
  unfold generate at h
  split at h
  · cases h
  next st hst =>
  split at h
  · cases h
  next ins hins =>
  split at h
  · cases h
  next m hm =>
  cases h
  exact ⟨st, ins, hst, hins, hm, rfl, rfl, rfl, rfl⟩

/-- the names of a result start where the names of the results before it end -/
theorem names_offset (pre : List ResultIn) (r : ResultIn) (post : List ResultIn) (n : Nat) (s : Bytes)
    (h : r.quotedNames[n]? = some s) :
    (((pre ++ r :: post).map (·.quotedNames)).flatten)[((pre.map (·.quotedNames.length)).sum) + n]? = some s := by
  have hlen : ((pre.map (·.quotedNames)).flatten).length = (pre.map (·.quotedNames.length)).sum := by
    rw [List.length_flatten, List.map_map]; rfl
  rw [List.map_append, List.flatten_append, List.getElem?_append_right (by omega), hlen,
    Nat.add_sub_cancel_left, List.map_cons, List.flatten_cons]
  have : n < r.quotedNames.length := by
    rcases Nat.lt_or_ge n r.quotedNames.length with h' | h'
    · exact h'
    · rw [List.getElem?_eq_none h'] at h; cases h
  rw [List.getElem?_append_left this]; exact h

/-! ### relative source paths -/

/-- `writeSource` on a `file://` URL of an absolute path -/
theorem writeSource_file (dir p : Bytes) (hp : p.head? = some 47) (r : OutPaths.Str)
    (hr : OutPaths.fsRel (toStr dir) (toStr p) = some r) :
    writeSource dir (fileUrlPrefix ++ p) = ofStr r := by
  have h1 : fileUrlPrefix.isPrefixOf (fileUrlPrefix ++ p) = true := by
    simp [fileUrlPrefix, List.isPrefixOf]
  have h2 : (fileUrlPrefix ++ p).drop 7 = p := by simp [fileUrlPrefix]
  unfold writeSource
  rw [h2]
  simp only [h1, hp, and_self, if_true]
  rw [hr]

theorem isAbs_toStr (p : Bytes) (hp : p.head? = some 47) : OutPaths.isAbs (toStr p) = true := by
  cases p with
  | nil => simp at hp
  | cons c rest =>
    simp only [List.head?_cons, Option.some.injEq] at hp
    subst hp
    simp [toStr, OutPaths.isAbs]

end EsbuildModel.SmChunk
