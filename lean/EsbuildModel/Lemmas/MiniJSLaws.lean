/-
Lemmas/MiniJSLaws — the algebraic laws of `&&`, `||`, `??`, `,`, `?:` and `!` under the big-step semantics
(evaluation order, short circuit and exceptions included) that esbuild's rewrites rely on.
-/
import EsbuildModel.Lemmas.MiniJS
namespace EsbuildModel.MiniJS

theorem bind_ite {α β : Type} (c : Bool) (x y : Res α × Trace) (k : α → Trace → Res β × Trace) :
    bind (if c then x else y) k = if c then bind x k else bind y k := by
  cases c <;> rfl

-- ---------------------------------------------------------------- associativity and commas

theorem assoc_and (w : World) (a b c : Expr) :
    EvalEq w (.binary .and (.binary .and a b) c) (.binary .and a (.binary .and b c)) := by
  intro tr
  simp only [eval_and, bind_assoc]
  apply bind_congr; intro va tr1
  cases hva : toBoolean va <;> simp [hva]

theorem assoc_or (w : World) (a b c : Expr) :
    EvalEq w (.binary .or (.binary .or a b) c) (.binary .or a (.binary .or b c)) := by
  intro tr
  simp only [eval_or, bind_assoc]
  apply bind_congr; intro va tr1
  cases hva : toBoolean va <;> simp [hva]

theorem assoc_nullish (w : World) (a b c : Expr) :
    EvalEq w (.binary .nullish (.binary .nullish a b) c) (.binary .nullish a (.binary .nullish b c)) := by
  intro tr
  simp only [eval_nullish, bind_assoc]
  apply bind_congr; intro va tr1
  cases hva : va.nullish <;> simp [hva]

/-- the three operators JoinWithLeftAssociativeOp is used with -/
def BinOp.isLogical : BinOp → Bool
  | .and | .or | .nullish => true
  | _ => false

theorem assoc_logical (w : World) (op : BinOp) (h : op.isLogical = true) (a b c : Expr) :
    EvalEq w (.binary op (.binary op a b) c) (.binary op a (.binary op b c)) := by
  cases op <;> simp [BinOp.isLogical] at h
  · exact assoc_and w a b c
  · exact assoc_or w a b c
  · exact assoc_nullish w a b c

/-- `(x, y) op c` is `x, (y op c)` for every binary operator -/
theorem comma_left (w : World) (op : BinOp) (x y c : Expr) :
    EvalEq w (.binary op (.binary .comma x y) c) (.binary .comma x (.binary op y c)) := by
  intro tr
  rw [eval_comma]
  simp only [eval, BinOp.short, bind_assoc]
  apply bind_congr; intro vx tr1
  simp only [applyBinary, bind_val]

-- ---------------------------------------------------------------- the conditional laws behind MangleIfExpr

theorem law_comma_test (w : World) (a b y n : Expr) :
    EvalEq w (.cond (.binary .comma a b) y n) (.binary .comma a (.cond b y n)) := by
  intro tr
  simp only [eval_cond, eval_comma, evalBool_comma, bind_assoc]

theorem law_not_test (w : World) (a y n : Expr) :
    EvalEq w (.cond (.unary .not a) y n) (.cond a n y) := by
  intro tr
  simp only [eval_cond, evalBool_not, bind_assoc, bind_val]
  apply bind_congr; intro t tr1
  cases t <;> simp

theorem law_same_branches (w : World) (a b b2 : Expr) (h : EvalEq w b b2) :
    EvalEq w (.cond a b b2) (.binary .comma a b) := by
  have h' : ∀ tr, eval w b tr = eval w b2 tr := h
  intro tr
  simp only [eval_cond, eval_comma, evalBool_eq, bind_assoc, bind_val, h']
  apply bind_congr; intro v tr1
  cases toBoolean v <;> simp

theorem law_true_false (w : World) (a : Expr) :
    EvalEq w (.cond a (.bool true) (.bool false)) (.unary .not (.unary .not a)) := by
  intro tr
  simp only [eval_cond, eval_not, evalBool_not, bind_assoc, bind_val]
  apply bind_congr; intro t tr1
  cases t <;> simp [eval]

theorem law_false_true (w : World) (a : Expr) :
    EvalEq w (.cond a (.bool false) (.bool true)) (.unary .not a) := by
  intro tr
  simp only [eval_cond, eval_not]
  apply bind_congr; intro t tr1
  cases t <;> simp [eval]

/-- "a ? b ? c : d : d" => "a && b ? c : d" -/
theorem law_R4 (w : World) (a b c d d2 : Expr) (h : EvalEq w d d2) :
    EvalEq w (.cond a (.cond b c d) d2) (.cond (.binary .and a b) c d2) := by
  have h' : ∀ tr, eval w d tr = eval w d2 tr := h
  intro tr
  simp only [eval_cond, evalBool_and, bind_assoc, h']
  apply bind_congr; intro t tr1
  cases t <;> simp

/-- "a ? b : c ? b : d" => "a || c ? b : d" -/
theorem law_R5 (w : World) (a b b2 c d : Expr) (h : EvalEq w b b2) :
    EvalEq w (.cond a b (.cond c b2 d)) (.cond (.binary .or a c) b d) := by
  have h' : ∀ tr, eval w b2 tr = eval w b tr := h.symm
  intro tr
  simp only [eval_cond, evalBool_or, bind_assoc, h']
  apply bind_congr; intro t tr1
  cases t <;> simp

/-- "a ? c : (b, c)" => "(a || b), c" -/
theorem law_R6 (w : World) (a b c c2 : Expr) (h : EvalEq w c c2) :
    EvalEq w (.cond a c (.binary .comma b c2)) (.binary .comma (.binary .or a b) c2) := by
  have h' : ∀ tr, eval w c tr = eval w c2 tr := h
  intro tr
  simp only [eval_cond, eval_comma, eval_or, evalBool_eq, bind_assoc, bind_val, h']
  apply bind_congr; intro v tr1
  cases hv : toBoolean v <;> simp

/-- "a ? (b, c) : c" => "(a && b), c" -/
theorem law_R7 (w : World) (a b c c2 : Expr) (h : EvalEq w c c2) :
    EvalEq w (.cond a (.binary .comma b c) c2) (.binary .comma (.binary .and a b) c) := by
  have h' : ∀ tr, eval w c2 tr = eval w c tr := h.symm
  intro tr
  simp only [eval_cond, eval_comma, eval_and, evalBool_eq, bind_assoc, bind_val, h']
  apply bind_congr; intro v tr1
  cases hv : toBoolean v <;> simp

/-- "a ? b || c : c" => "(a && b) || c" -/
theorem law_R8 (w : World) (a b c c2 : Expr) (h : EvalEq w c c2) :
    EvalEq w (.cond a (.binary .or b c) c2) (.binary .or (.binary .and a b) c) := by
  have h' : ∀ tr, eval w c2 tr = eval w c tr := h.symm
  intro tr
  simp only [eval_cond, eval_or, eval_and, evalBool_eq, bind_assoc, bind_val, h']
  apply bind_congr; intro va tr1
  cases hva : toBoolean va <;> simp [hva]

/-- "a ? c : b && c" => "(a || b) && c" -/
theorem law_R9 (w : World) (a b c c2 : Expr) (h : EvalEq w c c2) :
    EvalEq w (.cond a c (.binary .and b c2)) (.binary .and (.binary .or a b) c2) := by
  have h' : ∀ tr, eval w c tr = eval w c2 tr := h
  intro tr
  simp only [eval_cond, eval_or, eval_and, evalBool_eq, bind_assoc, bind_val, h']
  apply bind_congr; intro va tr1
  cases hva : toBoolean va <;> simp [hva]

-- ---------------------------------------------------------------- laws in a boolean context

/-- evaluates without any effect, never throws, and its truthiness is `t` -/
def PureBool (w : World) (e : Expr) (t : Bool) : Prop := ∀ tr, evalBool w e tr = (.val t, tr)

theorem and_pure_true (w : World) (a r : Expr) (h : PureBool w r true) : BoolEq w (.binary .and a r) a := by
  have h' : ∀ tr, evalBool w r tr = (.val true, tr) := h
  intro tr
  simp only [evalBool_and, h']
  conv => rhs; rw [← bind_pure (evalBool w a tr)]
  apply bind_congr; intro t tr1
  cases t <;> rfl

theorem or_pure_false (w : World) (a r : Expr) (h : PureBool w r false) : BoolEq w (.binary .or a r) a := by
  have h' : ∀ tr, evalBool w r tr = (.val false, tr) := h
  intro tr
  simp only [evalBool_or, h']
  conv => rhs; rw [← bind_pure (evalBool w a tr)]
  apply bind_congr; intro t tr1
  cases t <;> rfl

theorem cond_yes_true (w : World) (c y n : Expr) (h : PureBool w y true) :
    BoolEq w (.cond c y n) (.binary .or c n) := by
  have h' : ∀ tr, evalBool w y tr = (.val true, tr) := h
  intro tr
  simp only [evalBool_cond, evalBool_or, h']

theorem cond_yes_false (w : World) (c y n : Expr) (h : PureBool w y false) :
    BoolEq w (.cond c y n) (.binary .and (.unary .not c) n) := by
  have h' : ∀ tr, evalBool w y tr = (.val false, tr) := h
  intro tr
  simp only [evalBool_cond, evalBool_and, evalBool_not, bind_assoc, bind_val, h']
  apply bind_congr; intro t tr1
  cases t <;> rfl

theorem cond_no_true (w : World) (c y n : Expr) (h : PureBool w n true) :
    BoolEq w (.cond c y n) (.binary .or (.unary .not c) y) := by
  have h' : ∀ tr, evalBool w n tr = (.val true, tr) := h
  intro tr
  simp only [evalBool_cond, evalBool_or, evalBool_not, bind_assoc, bind_val, h']
  apply bind_congr; intro t tr1
  cases t <;> rfl

theorem cond_no_false (w : World) (c y n : Expr) (h : PureBool w n false) :
    BoolEq w (.cond c y n) (.binary .and c y) := by
  have h' : ∀ tr, evalBool w n tr = (.val false, tr) := h
  intro tr
  simp only [evalBool_cond, evalBool_and, h']

/-- `!!a` and `a` are the same in a boolean context -/
theorem notnot_bool (w : World) (a : Expr) : BoolEq w (.unary .not (.unary .not a)) a := by
  intro tr
  simp only [evalBool_not, bind_assoc, bind_val, Bool.not_not, bind_pure]

end EsbuildModel.MiniJS
