/-
Lemmas/MiniJSBool — the AST invariant `wf`, purity, and soundness of ToBooleanWithSideEffects.
-/
import EsbuildModel.Lemmas.MiniJSNot
namespace EsbuildModel.MiniJS

mutual
/-- AST invariant established by esbuild's parser: `WasOriginallyTypeofIdentifier` is only set on a `typeof`
whose operand is an identifier -/
def Expr.wf : Expr → Bool
  | .unary op e => (match op with
      | .typeof true => isIdent e
      | _ => true) && e.wf
  | .binary _ a b => a.wf && b.wf
  | .cond c y n => c.wf && y.wf && n.wf
  | .call f args => f.wf && args.wf
  | .dot o _ => o.wf
  | .index o k => o.wf && k.wf
  | _ => true
def Args.wf : Args → Bool
  | .nil => true
  | .cons a r => a.wf && r.wf
end

theorem typeofVal_nonempty (w : World) (v : Val) : (typeofVal w v).isEmpty = false := by
  cases v <;> simp [typeofVal, sUndefined, sObject, sBoolean, sNumber, sString, sBigint, sSymbol]
  split <;> simp [sFunction, sObject]

theorem typeofRef_nonempty (w : World) (tr : Trace) (x : Nat) : (typeofRef w tr x).isEmpty = false := by
  simp only [typeofRef]
  split
  · exact typeofVal_nonempty w _
  · simp [sUndefined]

/-- evaluates without any effect and never throws -/
def Pure (w : World) (e : Expr) : Prop := ∀ tr, ∃ v, eval w e tr = (.val v, tr)

theorem eval_typeof_val (w : World) (f : Bool) (e : Expr) (tr tr' : Trace) (v : Val)
    (h : eval w (.unary (.typeof f) e) tr = (.val v, tr')) : ∃ s, v = .str s ∧ s.isEmpty = false := by
  simp only [eval] at h
  split at h
  · simp at h; obtain ⟨rfl, -⟩ := h; exact ⟨_, rfl, typeofRef_nonempty w _ _⟩
  · rw [bind_eq_val] at h
    obtain ⟨u, tr1, -, h⟩ := h
    simp [applyUnary] at h; obtain ⟨rfl, -⟩ := h; exact ⟨_, rfl, typeofVal_nonempty w _⟩

theorem tbwse_sound (w : World) : ∀ (e : Expr), (toBooleanWithSideEffects e).ok = true →
    (∀ tr v tr', eval w e tr = (.val v, tr') → toBoolean v = (toBooleanWithSideEffects e).value) ∧
    ((toBooleanWithSideEffects e).noSE = true → e.wf = true → Pure w e)
  | .null, _ => ⟨by intro tr v tr' h; simp [eval] at h; obtain ⟨rfl, -⟩ := h; rfl, fun _ _ tr => ⟨_, rfl⟩⟩
  | .undef, _ => ⟨by intro tr v tr' h; simp [eval] at h; obtain ⟨rfl, -⟩ := h; rfl, fun _ _ tr => ⟨_, rfl⟩⟩
  | .bool b, _ => ⟨by intro tr v tr' h; simp [eval] at h; obtain ⟨rfl, -⟩ := h; rfl, fun _ _ tr => ⟨_, rfl⟩⟩
  | .num n, _ => ⟨by
      intro tr v tr' h; simp [eval] at h; obtain ⟨rfl, -⟩ := h
      simp [toBoolean, toBooleanWithSideEffects, Bool.and_comm], fun _ _ tr => ⟨_, rfl⟩⟩
  | .str s, _ => ⟨by intro tr v tr' h; simp [eval] at h; obtain ⟨rfl, -⟩ := h; rfl, fun _ _ tr => ⟨_, rfl⟩⟩
  | .unary op e, hok => by
    cases op with
    | void =>
      refine ⟨?_, by simp [toBooleanWithSideEffects]⟩
      intro tr v tr' h
      simp only [eval, typeofIdent?, bind_eq_val] at h
      obtain ⟨u, tr1, -, h⟩ := h
      simp [applyUnary] at h; obtain ⟨rfl, -⟩ := h; rfl
    | typeof f =>
      constructor
      · intro tr v tr' h
        obtain ⟨s, rfl, hs⟩ := eval_typeof_val w f e tr tr' v h
        simp [toBoolean, toBooleanWithSideEffects, hs]
      · intro hf hwf
        simp [toBooleanWithSideEffects] at hf; subst hf
        simp only [Expr.wf, Bool.and_eq_true] at hwf
        cases e <;> simp [isIdent] at hwf
        rename_i x
        intro tr
        exact ⟨.str (typeofRef w tr x), by simp only [eval, typeofIdent?]⟩
    | not =>
      simp only [toBooleanWithSideEffects] at hok ⊢
      split at hok
      · rename_i hk
        have ih := tbwse_sound w e hk
        simp only [hk, if_true]
        constructor
        · intro tr v tr' h
          rw [eval_not, evalBool_eq, bind_assoc, bind_eq_val] at h
          obtain ⟨u, tr1, hu, h⟩ := h
          simp at h; obtain ⟨rfl, -⟩ := h
          show (!toBoolean u) = _
          rw [ih.1 tr u tr1 hu]
        · intro hn hwf
          simp only [Expr.wf, Bool.true_and] at hwf
          intro tr
          obtain ⟨u, hu⟩ := ih.2 hn hwf tr
          exact ⟨_, by rw [eval_not, evalBool_eq, hu]; rfl⟩
      · simp at hok
    | neg => simp [toBooleanWithSideEffects] at hok
    | pos => simp [toBooleanWithSideEffects] at hok
    | cpl => simp [toBooleanWithSideEffects] at hok
  | .binary op l r, hok => by
    cases op
    case or =>
      simp only [toBooleanWithSideEffects] at hok ⊢
      split at hok
      · rename_i hc
        simp only [Bool.and_eq_true] at hc
        have ih := tbwse_sound w r hc.1
        simp only [hc.1, hc.2, Bool.and_self, if_true]
        refine ⟨?_, fun h => by cases h⟩
        intro tr v tr' h
        rw [eval_or, bind_eq_val] at h
        obtain ⟨va, tr1, -, h⟩ := h
        split at h
        · simp at h; obtain ⟨rfl, -⟩ := h; assumption
        · rw [ih.1 _ _ _ h, hc.2]
      · simp at hok
    case and =>
      simp only [toBooleanWithSideEffects] at hok ⊢
      split at hok
      · rename_i hc
        simp only [Bool.and_eq_true, Bool.not_eq_true'] at hc
        have ih := tbwse_sound w r hc.1
        simp only [hc.1, hc.2, Bool.not_false, Bool.and_self, if_true]
        refine ⟨?_, fun h => by cases h⟩
        intro tr v tr' h
        rw [eval_and, bind_eq_val] at h
        obtain ⟨va, tr1, -, h⟩ := h
        split at h
        · rw [ih.1 _ _ _ h, hc.2]
        · simp at h; obtain ⟨rfl, -⟩ := h; simpa using ‹¬toBoolean va = true›
      · simp at hok
    case comma =>
      simp only [toBooleanWithSideEffects] at hok ⊢
      split at hok
      · rename_i hc
        have ih := tbwse_sound w r hc
        simp only [hc, if_true]
        refine ⟨?_, fun h => by cases h⟩
        intro tr v tr' h
        rw [eval_comma, bind_eq_val] at h
        obtain ⟨va, tr1, -, h⟩ := h
        exact ih.1 _ _ _ h
      · simp at hok
    all_goals simp [toBooleanWithSideEffects] at hok
  | .ident _, hok => by simp [toBooleanWithSideEffects] at hok
  | .cond _ _ _, hok => by simp [toBooleanWithSideEffects] at hok
  | .call _ _, hok => by simp [toBooleanWithSideEffects] at hok
  | .dot _ _, hok => by simp [toBooleanWithSideEffects] at hok
  | .index _ _, hok => by simp [toBooleanWithSideEffects] at hok

end EsbuildModel.MiniJS
