import EsbuildModel.Impl.PrintKey
import EsbuildModel.Spec.PropertyKey
/-
The token view of the print calls of `Impl/PrintKey.lean`, the meaning of esbuild's AST (`js_ast.Property`) in the terms of
`Spec/PropertyKey.lean`, and the lemmas the property theorems of Props/C13PrintKey.lean are assembled from.
-/
namespace EsbuildModel.PrintKey
open EsbuildModel.Spec.PropertyKey
open EsbuildModel.IdentLex (Tables)

/-- the tokens of a fixed text the printer emits -/
def litToks (s : String) : List Tok :=
  if s = "static" ∨ s = "get" ∨ s = "set" ∨ s = "accessor" ∨ s = "async" ∨ s = "NaN" ∨ s = "Infinity" ∨ s = "function" ∨ s = "class" then [.name (sv s)]
  else if s = "async " then [.name (sv "async")]
  else if s = "0/0" ∨ s = "0 / 0" then [.num (some 0) ['0'], .p "/", .num (some 0) ['0']]
  else if s = "1/0" ∨ s = "1 / 0" then [.num (some 1) ['1'], .p "/", .num (some 0) ['0']]
  else if s = "(-" then [.p "(", .p "-"]
  else if s = ";\n" then [.p ";", .nl]
  else [.p s]

/-- the tokens a print call contributes: a name is read as an IdentifierName with the name as StringValue, a quoted
string as a StringLiteral with the units as SV, the number text as a NumericLiteral with that value (see the header of
Spec/PropertyKey.lean for the theorems that justify this reading of the rendered text); `.nl` marks a call of printNewline
(a line break unless MinifyWhitespace) -/
def pieceToks : Piece → List Tok
  | .lit s => litToks s
  | .sp | .sbi | .ind _ | .comment _ | .panic => []
  | .nl => [.nl]
  | .identU u => [.name u]
  | .identN n => if n.head? = some 35 then [.priv n] else [.name (toUTF16 n)]
  | .quote u _ => [.str u]
  | .numText iv t => [.num iv t]
  | .raw t => [.expr t]
  | .bigint t => [.bigint t]

def toks (ps : List Piece) : List Tok := ps.flatMap pieceToks

theorem toks_append (a b : List Piece) : toks (a ++ b) = toks a ++ toks b := by simp [toks]
theorem toks_cons (a : Piece) (b : List Piece) : toks (a :: b) = pieceToks a ++ toks b := by simp [toks]

/-- the Number an `ENumber` is -/
def Num.toSpec : Num → NumV
  | .nan _ => .nan
  | .inf n => .inf n
  | .fin n iv t => .fin n iv t

/-- the value of a key expression of the AST -/
def keyValue : KeyE → Option Value
  | .str u => some (.str u)
  | .num n => some (.num n.toSpec)
  | .bigint t => some (.bigint t)
  | .priv _ => none                              -- not an expression
  | .mangled name => some (.str (toUTF16 name))
  | .ident name => some (identValue (toUTF16 name))
  | .enumStr u _ => some (.str u)
  | .enumNum n _ => some (.num n.toSpec)

/-- the property key a member of the AST defines -/
def keyVal (k : KeyE) : Option KeyV :=
  match k with
  | .priv name => some (.priv name)
  | k => (keyValue k).map toPropertyKey

/-- the keys the parser produces: a private name, a mangled name, an identifier or an inlined enum only where they are legal,
private names start with `#` and mangled names do not -/
def WFKey (p : Property) : Prop :=
  match p.key with
  | .priv name => p.computed = false ∧ name.head? = some 35
  | .mangled name => name.head? ≠ some 35
  | .ident name => p.computed = true ∧ name.head? ≠ some 35
  | .enumStr _ _ => p.computed = true
  | .enumNum _ _ => p.computed = true
  | _ => True

/-- the `__proto__` shorthand whose value was renamed: printed as `["__proto__"]: value` -/
def protoBracket (T : Tables) (o : Opts) (p : Property) : Bool :=
  match (foldKey o p).1 with
  | .str u => !isComputed o p && (!p.preferQuoted && IdentLex.canPrintIdentifierUTF16 T o.asciiOnly o.noUE u) && !strShorthand o u p &&
      (p.wasShorthand && !o.noObjExt && u == str "__proto__")
  | _ => false

/-- whether the printed key is a ComputedPropertyName -/
def printedComputed (T : Tables) (o : Opts) (p : Property) : Bool := isComputed o p || protoBracket T o p

/-! ### fixed texts -/

theorem lit_NaN : litToks "NaN" = [.name (sv "NaN")] := by decide
theorem lit_Infinity : litToks "Infinity" = [.name (sv "Infinity")] := by decide
theorem lit_zz1 : litToks "0/0" = [.num (some 0) ['0'], .p "/", .num (some 0) ['0']] := by decide
theorem lit_zz2 : litToks "0 / 0" = [.num (some 0) ['0'], .p "/", .num (some 0) ['0']] := by decide
theorem lit_oz1 : litToks "1/0" = [.num (some 1) ['1'], .p "/", .num (some 0) ['0']] := by decide
theorem lit_oz2 : litToks "1 / 0" = [.num (some 1) ['1'], .p "/", .num (some 0) ['0']] := by decide
theorem lit_minus : litToks "-" = [.p "-"] := by decide
theorem lit_lbrack : litToks "[" = [.p "["] := by decide
theorem lit_rbrack : litToks "]" = [.p "]"] := by decide
theorem lit_semi : litToks ";" = [.p ";"] := by decide
theorem lit_seminl : litToks ";\n" = [.p ";", .nl] := by decide
theorem lit_comma : litToks "," = [.p ","] := by decide
theorem lit_colon : litToks ":" = [.p ":"] := by decide

/-! ### keys printed as expressions -/

theorem number_value (o : Opts) (n : Num) (rest : List Tok) :
    assignExpr (toks (numberPieces o n LComma) ++ .p "]" :: rest) = some (.num n.toSpec, .p "]" :: rest) := by
  cases n with
  | nan s =>
    cases hw : o.inWith <;> cases hm : o.minifyWhitespace <;>
      simp [numberPieces, paren, LComma, LMultiply, toks, pieceToks, hw, hm, lit_NaN, lit_zz1, lit_zz2, assignExpr,
        identValue, isZeroLit, divByZero, Num.toSpec]
  | inf neg =>
    cases neg <;> cases hw : o.inWith <;> cases hm : o.minifyWhitespace <;> cases hs : o.minifySyntax <;>
      simp [numberPieces, paren, LComma, LMultiply, LPrefix, toks, pieceToks, hw, hm, hs, lit_Infinity, lit_oz1, lit_oz2, lit_minus,
        assignExpr, identValue, isZeroLit, divByZero, Num.toSpec, neg, sv]
  | fin neg iv t =>
    cases neg <;>
      simp [numberPieces, LComma, LPrefix, toks, pieceToks, lit_minus, assignExpr, Num.toSpec]

/-- the tokens of a key printed as an expression (inside `[ ]`) are an AssignmentExpression with the key's value -/
theorem key_expr_value (o : Opts) (k : KeyE) (rest : List Tok) (v : Value) (hv : keyValue k = some v)
    (hid : ∀ name, k = .ident name → name.head? ≠ some 35) :
    assignExpr (toks (keyExprPieces o k LComma) ++ .p "]" :: rest) = some (v, .p "]" :: rest) := by
  cases k with
  | str u => simp [keyValue] at hv; subst hv; simp [keyExprPieces, toks, pieceToks, assignExpr]
  | num n => simp [keyValue] at hv; subst hv; simpa [keyExprPieces] using number_value o n rest
  | bigint t => simp [keyValue] at hv; subst hv; simp [keyExprPieces, toks, pieceToks, assignExpr]
  | priv n => simp [keyValue] at hv
  | mangled n => simp [keyValue] at hv; subst hv; simp [keyExprPieces, toks, pieceToks, assignExpr]
  | ident n =>
    simp [keyValue] at hv; subst hv
    have := hid n rfl
    simp [keyExprPieces, toks, pieceToks, assignExpr, this]
  | enumStr u c =>
    simp [keyValue] at hv; subst hv
    by_cases h : (!o.minifyWhitespace && !o.minifyIdentifiers) = true <;>
      simp [keyExprPieces, toks, pieceToks, assignExpr, h]
  | enumNum n c =>
    simp [keyValue] at hv; subst hv
    have := number_value o n rest
    by_cases h : (!o.minifyWhitespace && !o.minifyIdentifiers) = true <;>
      simpa [keyExprPieces, toks, pieceToks, h] using this
theorem keyVal_fold (o : Opts) (p : Property) : keyVal (foldKey o p).1 = keyVal p.key := by
  unfold foldKey
  by_cases h : (o.minifySyntax && p.computed) = true
  · simp only [h, if_true]
    cases hk : p.key <;> simp [keyVal, keyValue] <;> split <;> simp_all [keyVal, keyValue]
  · simp [h]

/-- the computed branch -/
theorem computed_key_tokens (o : Opts) (k : KeyE) (rest : List Tok) (v : Value) (hv : keyValue k = some v)
    (hid : ∀ name, k = .ident name → name.head? ≠ some 35) :
    propertyName (toks (.lit "[" :: (keyExprPieces o k LComma ++ [.lit "]"])) ++ rest) = some (⟨true, toPropertyKey v⟩, rest) := by
  have h := key_expr_value o k rest v hv hid
  rw [toks_cons, toks_append]
  simp only [pieceToks, lit_lbrack, List.cons_append, List.nil_append, List.append_assoc, propertyName]
  have : toks [Piece.lit "]"] ++ rest = .p "]" :: rest := by simp [toks, pieceToks, lit_rbrack]
  rw [this, h]
  rfl

theorem key_tokens_str (T : Tables) (o : Opts) (p : Property) (rest : List Tok) (u : List Nat) (hf : (foldKey o p).1 = .str u) :
    ∃ pn, propertyName (toks (keyPieces T o p).1 ++ rest) = some (pn, rest) ∧ pn.key = .str u ∧
      pn.computed = printedComputed T o p := by
  by_cases hc : isComputed o p = true
  · refine ⟨⟨true, .str u⟩, ?_, rfl, by simp [printedComputed, hc]⟩
    have := computed_key_tokens o (.str u) rest (.str u) rfl (by intro n h; cases h)
    simpa [keyPieces, hc, hf, toPropertyKey] using this
  · simp only [keyPieces, hc, hf]
    by_cases h1 : (!p.preferQuoted && IdentLex.canPrintIdentifierUTF16 T o.asciiOnly o.noUE u) = true
    · by_cases h2 : strShorthand o u p = true
      · exact ⟨⟨false, .str u⟩, by simp [h1, h2, toks, pieceToks, propertyName], rfl,
          by simp [printedComputed, protoBracket, hc, hf, h2]⟩
      · by_cases h3 : (p.wasShorthand && !o.noObjExt && u == str "__proto__") = true
        · exact ⟨⟨true, .str u⟩, by simp [h1, h2, h3, toks, pieceToks, propertyName, lit_lbrack, lit_rbrack, assignExpr, toPropertyKey], rfl,
            by simp [printedComputed, protoBracket, hc, hf, h1, h2, h3]⟩
        · exact ⟨⟨false, .str u⟩, by simp [h1, h2, h3, toks, pieceToks, propertyName], rfl,
            by simp [printedComputed, protoBracket, hc, hf, h3]⟩
    · exact ⟨⟨false, .str u⟩, by simp [h1, toks, pieceToks, propertyName], rfl,
        by simp [printedComputed, protoBracket, hc, hf, h1]⟩

theorem key_tokens_num (T : Tables) (o : Opts) (p : Property) (rest : List Tok) (n : Num) (hf : (foldKey o p).1 = .num n) :
    ∃ pn, propertyName (toks (keyPieces T o p).1 ++ rest) = some (pn, rest) ∧ pn.key = numKey n.toSpec ∧
      pn.computed = printedComputed T o p := by
  have hpb : protoBracket T o p = false := by simp [protoBracket, hf]
  by_cases hc : isComputed o p = true
  · refine ⟨⟨true, numKey n.toSpec⟩, ?_, rfl, by simp [printedComputed, hc]⟩
    have := computed_key_tokens o (.num n) rest (.num n.toSpec) rfl (by intro n h; cases h)
    simpa [keyPieces, hc, hf, toPropertyKey] using this
  · have hc' : isComputed o p = false := by simpa using hc
    have hsig : numericKeyMustBeComputed o n = false := by
      have := hc'
      simp only [isComputed, hf, Bool.or_eq_false_iff] at this
      exact this.2
    simp only [keyPieces, hc, hf]
    cases n with
    | nan s =>
      have hs : s = false ∧ o.inWith = false := by
        cases s <;> cases hw : o.inWith <;> simp_all [numericKeyMustBeComputed, Num.signbit]
      obtain ⟨hs, hw⟩ := hs
      subst hs
      exact ⟨⟨false, .str (sv "NaN")⟩, by simp [keyExprPieces, numberPieces, hw, toks, pieceToks, lit_NaN, propertyName], rfl,
        by simp [printedComputed, hpb, hc']⟩
    | inf neg =>
      have hs : neg = false ∧ o.minifySyntax = false ∧ o.inWith = false := by
        cases neg <;> cases hm : o.minifySyntax <;> cases hw : o.inWith <;> simp_all [numericKeyMustBeComputed, Num.signbit]
      obtain ⟨h1, h2, hw⟩ := hs
      subst h1
      exact ⟨⟨false, .str (sv "Infinity")⟩,
        by simp [keyExprPieces, numberPieces, paren, LLowest, LMultiply, LPrefix, hw, h2, toks, pieceToks, lit_Infinity, propertyName], rfl,
        by simp [printedComputed, hpb, hc']⟩
    | fin neg iv t =>
      have hs : neg = false := by
        cases neg <;> simp_all [numericKeyMustBeComputed, Num.signbit]
      subst hs
      exact ⟨⟨false, numKey (.fin false iv t)⟩, by simp [keyExprPieces, numberPieces, toks, pieceToks, propertyName], rfl,
        by simp [printedComputed, hpb, hc']⟩

/-- a key that `foldKey` leaves alone and that is not a number: the computed flag is the property's -/
theorem fold_other (o : Opts) (p : Property) (h : ∀ u, p.key ≠ .str u) (h2 : ∀ n, p.key ≠ .num n)
    (h3 : ∀ u c, p.key ≠ .enumStr u c) (h4 : ∀ n c, p.key ≠ .enumNum n c) :
    foldKey o p = (p.key, p.computed) := by
  unfold foldKey
  split
  · rename_i hms
    have hc : p.computed = true := by simp_all
    cases hk : p.key <;> simp_all
  · rfl

theorem isComputed_other (o : Opts) (p : Property) (h : ∀ u, p.key ≠ .str u) (h2 : ∀ n, p.key ≠ .num n)
    (h3 : ∀ u c, p.key ≠ .enumStr u c) (h4 : ∀ n c, p.key ≠ .enumNum n c) : isComputed o p = p.computed := by
  unfold isComputed
  rw [fold_other o p h h2 h3 h4]
  cases hk : p.key <;> simp_all

theorem key_tokens_other (T : Tables) (o : Opts) (p : Property) (rest : List Tok) (hwf : WFKey p)
    (h : ∀ u, p.key ≠ .str u) (h2 : ∀ n, p.key ≠ .num n) (h3 : ∀ u c, p.key ≠ .enumStr u c) (h4 : ∀ n c, p.key ≠ .enumNum n c) :
    ∃ pn, propertyName (toks (keyPieces T o p).1 ++ rest) = some (pn, rest) ∧ some pn.key = keyVal p.key ∧
      pn.computed = printedComputed T o p := by
  have hf := fold_other o p h h2 h3 h4
  have hic := isComputed_other o p h h2 h3 h4
  have hpb : protoBracket T o p = false := by
    unfold protoBracket; rw [hf]; cases hk : p.key <;> simp_all
  have hpc : printedComputed T o p = p.computed := by simp [printedComputed, hpb, hic]
  cases hk : p.key with
  | str u => exact absurd hk (h u)
  | num n => exact absurd hk (h2 n)
  | enumStr u c => exact absurd hk (h3 u c)
  | enumNum n c => exact absurd hk (h4 n c)
  | bigint t =>
    cases hc : p.computed with
    | true =>
      refine ⟨⟨true, .bigint t⟩, ?_, by simp [keyVal, keyValue, toPropertyKey], by simp [hpc, hc]⟩
      have := computed_key_tokens o (.bigint t) rest (.bigint t) rfl (by intro n h; cases h)
      simpa [keyPieces, hic, hc, hf, hk, toPropertyKey] using this
    | false =>
      exact ⟨⟨false, .bigint t⟩, by simp [keyPieces, hic, hc, hf, hk, keyExprPieces, toks, pieceToks, propertyName],
        by simp [keyVal, keyValue, toPropertyKey], by simp [hpc, hc]⟩
  | priv name =>
    simp only [WFKey, hk] at hwf
    exact ⟨⟨false, .priv name⟩, by simp [keyPieces, hic, hwf.1, hf, hk, toks, pieceToks, hwf.2, propertyName], by simp [keyVal],
      by simp [hpc, hwf.1]⟩
  | mangled name =>
    simp only [WFKey, hk] at hwf
    cases hc : p.computed with
    | true =>
      refine ⟨⟨true, .str (toUTF16 name)⟩, ?_, by simp [keyVal, keyValue, toPropertyKey], by simp [hpc, hc]⟩
      have := computed_key_tokens o (.mangled name) rest (.str (toUTF16 name)) rfl (by intro n h; cases h)
      simpa [keyPieces, hic, hc, hf, hk, toPropertyKey] using this
    | false =>
      by_cases hcp : IdentLex.canPrintIdentifier T o.asciiOnly o.noUE name = true
      · exact ⟨⟨false, .str (toUTF16 name)⟩, by simp [keyPieces, hic, hc, hf, hk, hcp, toks, pieceToks, hwf, propertyName],
          by simp [keyVal, keyValue, toPropertyKey], by simp [hpc, hc]⟩
      · exact ⟨⟨false, .str (toUTF16 name)⟩, by simp [keyPieces, hic, hc, hf, hk, hcp, toks, pieceToks, propertyName],
          by simp [keyVal, keyValue, toPropertyKey], by simp [hpc, hc]⟩
  | ident name =>
    simp only [WFKey, hk] at hwf
    refine ⟨⟨true, toPropertyKey (identValue (toUTF16 name))⟩, ?_, by simp [keyVal, keyValue], by simp [hpc, hwf.1]⟩
    have := computed_key_tokens o (.ident name) rest (identValue (toUTF16 name)) rfl (by intro n h; cases h; exact hwf.2)
    simpa [keyPieces, hic, hwf.1, hf, hk] using this

theorem fold_str (o : Opts) (p : Property) (u : List Nat) (hk : p.key = .str u) : (foldKey o p).1 = .str u := by
  unfold foldKey; split <;> simp [hk]
theorem fold_num (o : Opts) (p : Property) (n : Num) (hk : p.key = .num n) : (foldKey o p).1 = .num n := by
  unfold foldKey; split <;> simp [hk]

/-- the generic computed branch for a key that is still an expression after `foldKey` -/
theorem key_tokens_enum_plain (T : Tables) (o : Opts) (p : Property) (rest : List Tok) (v : Value)
    (hms : o.minifySyntax = false) (hc : p.computed = true) (hv : keyValue p.key = some v)
    (hid : ∀ name, p.key = .ident name → name.head? ≠ some 35) :
    propertyName (toks (keyPieces T o p).1 ++ rest) = some (⟨true, toPropertyKey v⟩, rest) ∧ printedComputed T o p = true := by
  have hf : foldKey o p = (p.key, true) := by simp [foldKey, hms, hc]
  have hic : isComputed o p = true := by simp [isComputed, hf]
  have := computed_key_tokens o p.key rest v hv hid
  exact ⟨by simpa [keyPieces, hic, hf] using this, by simp [printedComputed, hic]⟩

/-- ALL KEYS: the tokens printed for the key are a PropertyName (ClassElementName) and its key value is the key's -/
theorem key_tokens (T : Tables) (o : Opts) (p : Property) (rest : List Tok) (hwf : WFKey p) :
    ∃ pn, propertyName (toks (keyPieces T o p).1 ++ rest) = some (pn, rest) ∧ some pn.key = keyVal p.key ∧
      pn.computed = printedComputed T o p := by
  cases hk : p.key with
  | str u =>
    obtain ⟨pn, h1, h2, h3⟩ := key_tokens_str T o p rest u (fold_str o p u hk)
    exact ⟨pn, h1, by simp [h2, keyVal, keyValue, toPropertyKey], h3⟩
  | num n =>
    obtain ⟨pn, h1, h2, h3⟩ := key_tokens_num T o p rest n (fold_num o p n hk)
    exact ⟨pn, h1, by simp [h2, keyVal, keyValue, toPropertyKey], h3⟩
  | enumStr u c =>
    simp only [WFKey, hk] at hwf
    cases hms : o.minifySyntax with
    | false =>
      have := key_tokens_enum_plain T o p rest (.str u) hms hwf (by simp [hk, keyValue]) (by intro n h; rw [hk] at h; cases h)
      exact ⟨_, this.1, by simp [keyVal, keyValue], by simp [this.2]⟩
    | true =>
      have hf : (foldKey o p).1 = .str u := by simp [foldKey, hms, hwf, hk]
      obtain ⟨pn, h1, h2, h3⟩ := key_tokens_str T o p rest u hf
      exact ⟨pn, h1, by simp [h2, keyVal, keyValue, toPropertyKey], h3⟩
  | enumNum n c =>
    simp only [WFKey, hk] at hwf
    cases hms : o.minifySyntax with
    | false =>
      have := key_tokens_enum_plain T o p rest (.num n.toSpec) hms hwf (by simp [hk, keyValue]) (by intro n h; rw [hk] at h; cases h)
      exact ⟨_, this.1, by simp [keyVal, keyValue, toPropertyKey], by simp [this.2]⟩
    | true =>
      have hf : (foldKey o p).1 = .num n := by simp [foldKey, hms, hwf, hk]
      obtain ⟨pn, h1, h2, h3⟩ := key_tokens_num T o p rest n hf
      exact ⟨pn, h1, by simp [h2, keyVal, keyValue, toPropertyKey], h3⟩
  | bigint t => simpa [hk] using key_tokens_other T o p rest hwf (by simp [hk]) (by simp [hk]) (by simp [hk]) (by simp [hk])
  | priv t => simpa [hk] using key_tokens_other T o p rest hwf (by simp [hk]) (by simp [hk]) (by simp [hk]) (by simp [hk])
  | mangled t => simpa [hk] using key_tokens_other T o p rest hwf (by simp [hk]) (by simp [hk]) (by simp [hk]) (by simp [hk])
  | ident t => simpa [hk] using key_tokens_other T o p rest hwf (by simp [hk]) (by simp [hk]) (by simp [hk]) (by simp [hk])

/-! ### the three special names -/

/-- the member of the AST read as syntax: its own computed flag and its key -/
def astPName (p : Property) : PName := ⟨p.computed, (keyVal p.key).getD (.dyn [])⟩

def IsSpecial (s : List Nat) : Prop := s = protoName ∨ s = constructorName ∨ s = prototypeName

theorem special_isSpecialName {s : List Nat} (h : IsSpecial s) : isSpecialName s = true := by
  rcases h with rfl | rfl | rfl <;> decide

theorem special_ne_nan {s : List Nat} (h : IsSpecial s) : s ≠ sv "NaN" ∧ s ≠ sv "Infinity" ∧ s ≠ sv "-Infinity" := by
  rcases h with rfl | rfl | rfl <;> decide

theorem numKey_ne_special (n : NumV) {s : List Nat} (h : IsSpecial s) : numKey n ≠ .str s := by
  obtain ⟨h1, h2, h3⟩ := special_ne_nan h
  cases n with
  | nan => simp [numKey]; exact fun e => h1 e.symm
  | inf neg => cases neg <;> simp [numKey] <;> intro e <;> simp_all
  | fin neg iv t => simp [numKey]

/-- a member whose key is one of the three special names keeps its computed flag -/
theorem isComputed_special (o : Opts) (p : Property) (s : List Nat) (hs : IsSpecial s) (hwf : WFKey p)
    (hm : ∀ n, p.key = .mangled n → toUTF16 n ≠ s) (hk : keyVal p.key = some (.str s)) : isComputed o p = p.computed := by
  have hsp := special_isSpecialName hs
  obtain ⟨h1, h2, h3⟩ := special_ne_nan hs
  cases hkey : p.key with
  | str u =>
    have hu : u = s := by simpa [hkey, keyVal, keyValue, toPropertyKey] using hk
    subst hu
    unfold isComputed foldKey
    by_cases hmc : (o.minifySyntax && p.computed) = true
    · have : p.computed = true := by simp_all
      simp [hmc, hkey, hsp, this]
    · simp [hmc, hkey]
  | num n =>
    have := numKey_ne_special n.toSpec hs
    simp [hkey, keyVal, keyValue, toPropertyKey] at hk
    exact absurd hk this
  | bigint t => simp [hkey, keyVal, keyValue, toPropertyKey] at hk
  | priv t => simp [hkey, keyVal] at hk
  | mangled n =>
    have := hm n hkey
    simp [hkey, keyVal, keyValue, toPropertyKey] at hk
    exact absurd hk this
  | ident n =>
    simp only [hkey, keyVal, keyValue, Option.map_some, Option.some.injEq] at hk
    unfold identValue at hk
    split at hk
    · simp [toPropertyKey, numKey] at hk; exact absurd hk.symm h1
    · split at hk
      · simp [toPropertyKey, numKey] at hk; exact absurd hk.symm h2
      · simp [toPropertyKey] at hk
  | enumStr u c =>
    simp only [WFKey, hkey] at hwf
    have hu : u = s := by simpa [hkey, keyVal, keyValue, toPropertyKey] using hk
    subst hu
    cases hms : o.minifySyntax <;> simp [isComputed, foldKey, hms, hwf, hkey, hsp]
  | enumNum n c =>
    have := numKey_ne_special n.toSpec hs
    simp [hkey, keyVal, keyValue, toPropertyKey] at hk
    exact absurd hk this

/-! ### the semicolons of class bodies -/

/-- the tokens after a class field when another member follows start with `;` -/
theorem field_then_semicolon (T : Tables) (o : Opts) (k : Nat) (needs : Bool) (p q : Property) (rest : List Property)
    (hv : p.value = .none) (hk : p.kind ≠ .staticBlock) :
    ∃ pre post, toks (classItems T o k needs (p :: q :: rest)) = pre ++ toks (propPieces T o k p) ++ .p ";" :: post := by
  cases hm : o.minifyWhitespace with
  | false =>
    refine ⟨toks (if needs then [.lit ";"] else []), .nl :: toks (classItems T o k false (q :: rest)), ?_⟩
    simp [classItems, hk, hv, hm, toks_append, toks_cons, pieceToks, lit_seminl]
  | true =>
    refine ⟨toks (if needs then [.lit ";"] else []), toks (.ind k :: (classItems T o k true (q :: rest)).drop 2), ?_⟩
    simp [classItems, hk, hv, hm, toks_append, toks_cons, pieceToks, lit_semi]

/-- one round of the member loop: what it prints before going on with the next member -/
theorem classItems_cons_split (T : Tables) (o : Opts) (k : Nat) (needs : Bool) (m : Property) :
    ∃ head needs', ∀ tail, classItems T o k needs (m :: tail) = head ++ classItems T o k needs' tail := by
  by_cases hb : m.kind = .staticBlock
  · exact ⟨(if needs then [.lit ";"] else []) ++ .ind k :: [.lit "static", .sp, .lit "{", .nl, .ind k, .lit "}", .nl], false,
      fun tail => by simp [classItems, hb]⟩
  · by_cases hmv : m.value = .none
    · cases hm : o.minifyWhitespace with
      | false =>
        exact ⟨(if needs then [.lit ";"] else []) ++ .ind k :: (propPieces T o k m ++ [.lit ";\n"]), false,
          fun tail => by simp [classItems, hb, hmv, hm]⟩
      | true =>
        exact ⟨(if needs then [.lit ";"] else []) ++ .ind k :: propPieces T o k m, true,
          fun tail => by simp [classItems, hb, hmv, hm]⟩
    · exact ⟨(if needs then [.lit ";"] else []) ++ .ind k :: (propPieces T o k m ++ [.nl]), false,
        fun tail => by simp [classItems, hb, hmv]⟩

/-- the tokens after the LAST class field are `;` `}` or `}` -/
theorem last_field_then_brace (T : Tables) (o : Opts) (k : Nat) (ms : List Property) (p : Property)
    (hv : p.value = .none) (hk : p.kind ≠ .staticBlock) :
    ∀ needs, ∃ pre, toks (classItems T o (k + 1) needs (ms ++ [p]) ++ [.ind k, .lit "}"]) =
      pre ++ toks (propPieces T o (k + 1) p) ++ (if o.minifyWhitespace then [.p "}"] else [.p ";", .nl, .p "}"]) := by
  induction ms with
  | nil =>
    intro needs
    refine ⟨toks (if needs then [.lit ";"] else []), ?_⟩
    cases hm : o.minifyWhitespace <;>
      simp [classItems, hk, hv, hm, pieceToks, toks, litToks]
  | cons m ms ih =>
    intro needs
    obtain ⟨head, needs', hsplit⟩ := classItems_cons_split T o (k + 1) needs m
    obtain ⟨pre, h⟩ := ih needs'
    refine ⟨toks head ++ pre, ?_⟩
    rw [List.cons_append, hsplit, List.append_assoc, toks_append, h]
    simp [List.append_assoc]

end EsbuildModel.PrintKey
