import EsbuildModel.Lemmas.JsonSoundParse1
import EsbuildModel.Lemmas.JsonParseC4
/-
Soundness of the parser (either flavour), helpers.
-/
namespace EsbuildModel.Json
open EsbuildModel.Spec.Json EsbuildModel.Spec.NumLit

/-- what the parser knows of the state `L` whose token was lexed at the head of `inp` -/
def AtTok (fl : Flavor) (Rd : Rat → F64) (L : Lx) (inp : List Cp) : Prop :=
  TokFacts fl Rd inp L ∧ PosW inp ∧ (L.tok ≠ .other → L.log.Clean ∧ Suf L.rest inp ∧ (L.tok ≠ .eof → 0 < L.end_))

theorem after_tok {P : Params} {Rd : Rat → F64} (hP : ParamsOK P Rd) {fl : Flavor} {rest : List Cp} {L' : Lx} (h : After fl P rest L')
    (hne : L'.log.hasErrors = false) :
    ∃ (s : List SepItem) (inp : List Cp), chars rest = Sep.render s ++ chars inp ∧
      Sep.ok (dialectOf fl) inp.isEmpty false s = true ∧ AtTok fl Rd L' inp := by
  obtain ⟨L1, h1, rfl, h3, h4, h5⟩ := h
  obtain ⟨s, inp, k1, k2, k3, k4, k5⟩ := next_sound hP h1 h3 hne h5
  have he : (L1.end_ == 0) = false := by simp; omega
  rw [he] at k2
  refine ⟨s, inp, k1, k2, k4, k3, fun ho => ?_⟩
  obtain ⟨a1, _, a3, a4⟩ := k5 ho
  exact ⟨a1, a3, a4⟩

/-- `After` from a token state: the `Next` that consumes the token -/
theorem after_of_tok {P : Params} {Rd : Rat → F64} {fl : Flavor} {L L' : Lx} {inp : List Cp} (hat : AtTok fl Rd L inp)
    (hn : next fl P L = .ok L') (ht : L.tok ≠ .other) (hte : L.tok ≠ .eof) : After fl P L.rest L' := by
  obtain ⟨a1, a2, a3⟩ := hat.2.2 ht
  exact ⟨L, hn, rfl, a1, a3 hte, hat.2.1.suf a2⟩

theorem val_render_ne {fl : Flavor} (v : Val) (h : v.ok (dialectOf fl) = true) : v.render ≠ [] := by
  cases v with
  | num n =>
    have hj := jnum_facts fl n h
    have := lit_render_ne_nil hj.1
    simp only [Val.render, JNum.render]
    cases n.neg <;> simp [this]
  | _ => simp [Val.render, strTok]

theorem sepok_final {d : Dialect} {nl : Bool} {s : List SepItem} {b : Bool} (h : Sep.ok d b nl s = true) (hb : b = false) :
    Sep.ok d false nl s = true := by rw [← hb]; exact h

/-- a non-empty separator does not start with a digit or a dot -/
theorem sep_not_digit {d : Dialect} {fin nl : Bool} {s : List SepItem} (hok : Sep.ok d fin nl s = true)
    (hd : d.extraWs = jsExtraWs) {c : Char} {t : List Char} (h : Sep.render s = c :: t) : (c == '.' || isDigit c) = false := by
  cases s with
  | nil => cases h
  | cons it r =>
    cases it with
    | ws x =>
      simp only [Sep.render_cons, SepItem.render, List.singleton_append, List.cons_append, List.nil_append, List.cons.injEq] at h
      obtain ⟨rfl, _⟩ := h
      simp only [Sep.ok, Bool.and_eq_true, Bool.or_eq_true] at hok
      rcases hok.1 with hx | hx
      · simp only [isRfcWs, Bool.or_eq_true, beq_iff_eq] at hx
        rcases hx with ((hx | hx) | hx) | hx <;> (subst hx; decide)
      · rw [hd] at hx
        have := jsExtraWs_ge x hx
        simp only [Bool.or_eq_false_iff, beq_eq_false_iff_ne, ne_eq, isDigit, Bool.and_eq_false_iff,
          decide_eq_false_iff_not, Nat.not_le]
        constructor
        · rintro rfl; revert hx; decide
        · omega
    | line b => simp only [Sep.render_cons, SepItem.render, List.cons_append, List.cons.injEq] at h; rw [← h.1]; decide
    | block b => simp only [Sep.render_cons, SepItem.render, List.cons_append, List.cons.injEq] at h; rw [← h.1]; decide
    | htmlOpen b => simp only [Sep.render_cons, SepItem.render, List.cons_append, List.cons.injEq] at h; rw [← h.1]; decide
    | htmlClose b => simp only [Sep.render_cons, SepItem.render, List.cons_append, List.cons.injEq] at h; rw [← h.1]; decide

end EsbuildModel.Json
