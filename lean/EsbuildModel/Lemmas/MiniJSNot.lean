/-
Lemmas/MiniJSNot — JoinWithLeftAssociativeOp and Not / MaybeSimplifyNot preserve the full behaviour.
-/
import EsbuildModel.Lemmas.MiniJSLaws
import EsbuildModel.Lemmas.MiniJSTypes
namespace EsbuildModel.MiniJS

theorem EvalEq.commaRight {w : World} (l : Expr) {r r2 : Expr} (h : EvalEq w r r2) :
    EvalEq w (.binary .comma l r) (.binary .comma l r2) :=
  EvalEq.binary .comma (EvalEq.refl w l) h

theorem peelComma_equiv (w : World) (op : BinOp) (b : Expr) (k : Expr → Expr)
    (hk : ∀ x, EvalEq w (k x) (.binary op x b)) : ∀ a, EvalEq w (peelComma k a) (.binary op a b)
  | .binary op2 l r => by
    simp only [peelComma]
    split
    · rename_i h; subst h
      exact (EvalEq.commaRight l (peelComma_equiv w op b k hk r)).trans (comma_left w op l r b).symm
    · exact hk _
  | .undef => hk _
  | .null => hk _
  | .bool _ => hk _
  | .num _ => hk _
  | .str _ => hk _
  | .ident _ => hk _
  | .unary _ _ => hk _
  | .cond _ _ _ => hk _
  | .call _ _ => hk _
  | .dot _ _ => hk _
  | .index _ _ => hk _

theorem joinLoop_equiv (w : World) (op : BinOp) (hop : op.isLogical = true) :
    ∀ b a, EvalEq w (joinLoop op b a) (.binary op a b)
  | .binary op2 bl br, a => by
    simp only [joinLoop]
    split
    · rename_i h; subst h
      have h1 := joinLoop_equiv w op2 hop br (peelComma (joinLoop op2 bl) a)
      have h2 := peelComma_equiv w op2 bl (joinLoop op2 bl) (joinLoop_equiv w op2 hop bl) a
      exact h1.trans ((EvalEq.binary op2 h2 (EvalEq.refl w br)).trans (assoc_logical w op2 hop a bl br))
    · exact EvalEq.refl w _
  | .undef, a => EvalEq.refl w _
  | .null, a => EvalEq.refl w _
  | .bool _, a => EvalEq.refl w _
  | .num _, a => EvalEq.refl w _
  | .str _, a => EvalEq.refl w _
  | .ident _, a => EvalEq.refl w _
  | .unary _ _, a => EvalEq.refl w _
  | .cond _ _ _, a => EvalEq.refl w _
  | .call _ _, a => EvalEq.refl w _
  | .dot _ _, a => EvalEq.refl w _
  | .index _ _, a => EvalEq.refl w _

/-- JoinWithLeftAssociativeOp(op, a, b) behaves like `a op b` for `&&`, `||`, `??` -/
theorem join_equiv (w : World) (op : BinOp) (hop : op.isLogical = true) (a b : Expr) :
    EvalEq w (joinWithLeftAssociativeOp op a b) (.binary op a b) :=
  peelComma_equiv w op b (joinLoop op b) (joinLoop_equiv w op hop b) a

-- ---------------------------------------------------------------- Not

theorem eval_not_lit (w : World) (e : Expr) (v : Val) (h : ∀ tr, eval w e tr = (.val v, tr)) :
    EvalEq w (.unary .not e) (.bool (!toBoolean v)) := by
  intro tr
  rw [eval_not]
  simp only [evalBool_eq, h, bind_val]
  simp only [eval]

theorem eval_not_eqop (w : World) (op op2 : BinOp) (a b : Expr)
    (h : ∀ va vb tr, bind (applyBinary w op va vb tr) (applyUnary w .not) = applyBinary w op2 va vb tr)
    (hs : ∀ v, op.short v = none) (hs2 : ∀ v, op2.short v = none) :
    EvalEq w (.unary .not (.binary op a b)) (.binary op2 a b) := by
  intro tr
  simp only [eval, typeofIdent?, hs, hs2, bind_assoc]
  apply bind_congr; intro va tr1
  apply bind_congr; intro vb tr2
  exact h va vb tr2

/-- MaybeSimplifyNot: the result behaves exactly like `!e` -/
theorem maybeSimplifyNot_sound (w : World) : ∀ (e r : Expr), maybeSimplifyNot e = some r →
    EvalEq w (.unary .not e) r
  | .null, r, h => by
    simp [maybeSimplifyNot] at h; subst h
    exact eval_not_lit w .null .null (fun _ => rfl)
  | .undef, r, h => by
    simp [maybeSimplifyNot] at h; subst h
    exact eval_not_lit w .undef .undef (fun _ => rfl)
  | .bool b, r, h => by
    simp [maybeSimplifyNot] at h; subst h
    exact eval_not_lit w (.bool b) (.bool b) (fun _ => rfl)
  | .num n, r, h => by
    simp [maybeSimplifyNot] at h; subst h
    have := eval_not_lit w (.num n) (.num n) (fun _ => rfl)
    simpa [toBoolean, Bool.or_comm] using this
  | .str s, r, h => by
    simp [maybeSimplifyNot] at h; subst h
    have := eval_not_lit w (.str s) (.str s) (fun _ => rfl)
    simpa [toBoolean] using this
  | .unary op v, r, h => by
    simp only [maybeSimplifyNot] at h
    split at h
    · rename_i hc
      simp at h; subst h
      obtain ⟨rfl, hk⟩ := hc
      intro tr
      simp only [eval_not, bind_assoc, bind_val, evalBool_eq]
      rcases res_cases (eval w v tr) with ⟨u, tr1, hu⟩ | ⟨x, tr1, hu⟩
      · have := kpt_sound w v tr tr1 u hu
        rw [hk] at this
        cases u <;> simp [PType.has] at this
        simp [hu, toBoolean]
      · simp [hu]
    · simp at h
  | .binary op l r, res, h => by
    cases op <;> simp only [maybeSimplifyNot] at h <;> (try simp at h) <;> subst_vars
    case comma =>
      have ih : EvalEq w (.unary .not r) (match maybeSimplifyNot r with
          | some x => x
          | none => .unary .not r) := by
        cases hr : maybeSimplifyNot r with
        | some x => exact maybeSimplifyNot_sound w r x hr
        | none => exact EvalEq.refl w _
      refine EvalEq.trans ?_ (EvalEq.commaRight l ih)
      intro tr
      simp only [eval, typeofIdent?, BinOp.short, bind_assoc, applyBinary, bind_pure]
    case strictEq =>
      exact eval_not_eqop w _ _ l r (by intro va vb tr; simp [applyBinary, applyUnary, toBoolean]) (fun _ => rfl) (fun _ => rfl)
    case strictNe =>
      exact eval_not_eqop w _ _ l r (by intro va vb tr; simp [applyBinary, applyUnary, toBoolean]) (fun _ => rfl) (fun _ => rfl)
    case looseEq =>
      refine eval_not_eqop w _ _ l r ?_ (fun _ => rfl) (fun _ => rfl)
      intro va vb tr
      simp only [applyBinary, bind_assoc]
      apply bind_congr; intro x tr3
      simp [applyUnary, toBoolean]
    case looseNe =>
      refine eval_not_eqop w _ _ l r ?_ (fun _ => rfl) (fun _ => rfl)
      intro va vb tr
      simp only [applyBinary, bind_assoc]
      apply bind_congr; intro x tr3
      simp [applyUnary, toBoolean]
  | .ident _, r, h => by simp [maybeSimplifyNot] at h
  | .cond _ _ _, r, h => by simp [maybeSimplifyNot] at h
  | .call _ _, r, h => by simp [maybeSimplifyNot] at h
  | .dot _ _, r, h => by simp [maybeSimplifyNot] at h
  | .index _ _, r, h => by simp [maybeSimplifyNot] at h

/-- Not(e) behaves exactly like `!e` -/
theorem notExpr_equiv (w : World) (e : Expr) : EvalEq w (notExpr e) (.unary .not e) := by
  simp only [notExpr]
  cases h : maybeSimplifyNot e with
  | some x => exact (maybeSimplifyNot_sound w e x h).symm
  | none => exact EvalEq.refl w _

end EsbuildModel.MiniJS
