import EsbuildModel.Lemmas.OutPathsParse
/-
`validatePathTemplate`: the text of the parsed template is the input (with "./" in front), unless the
input ends with '['; reading the parsed template with all four values known is textual expansion.
-/
namespace EsbuildModel.OutPaths
open EsbuildModel.Spec.OutPath (expandFrom expand)

theorem parseLoop_nil (n : Nat) (h : Str) : parseLoop n h [] = [] := by
  cases n <;> rfl

theorem parseLoop_skip (n : Nat) (h cs : Str) : parseLoop n h cs = parseLoop 0 h (cs.drop n) := by
  induction n generalizing cs with
  | zero => rfl
  | succ n ih =>
    cases cs with
    | nil => simp [parseLoop_nil]
    | cons c cs => rw [List.drop_succ_cons, ← ih]; rfl

theorem expandFrom_nil (d n hs e : Str) (k : Nat) : expandFrom d n hs e k [] = [] := by
  cases k <;> rfl

theorem expandFrom_skip (d n hs e : Str) (k : Nat) (cs : Str) :
    expandFrom d n hs e k cs = expandFrom d n hs e 0 (cs.drop k) := by
  induction k generalizing cs with
  | zero => rfl
  | succ k ih =>
    cases cs with
    | nil => simp [expandFrom_nil]
    | cons c cs => rw [List.drop_succ_cons, ← ih]; rfl

theorem isPrefixOf_eq {a s : Str} (h : a.isPrefixOf s = true) : s = a ++ s.drop a.length := by
  have := List.isPrefixOf_iff_prefix.mp h
  exact (List.prefix_iff_eq_append.mp this).symm

/-- what the `switch` of the parser found -/
theorem matchPlaceholder_some {s : Str} {ph : Placeholder} {n : Nat} (h : matchPlaceholder s = some (ph, n)) :
    s = phText ph ++ s.drop n ∧ n = (phText ph).length ∧ ph ≠ .none := by
  unfold matchPlaceholder at h
  split at h
  · rename_i h1; injection h with h; injection h with e1 e2; subst e1 e2
    exact ⟨isPrefixOf_eq h1, rfl, by simp⟩
  · split at h
    · rename_i h1; injection h with h; injection h with e1 e2; subst e1 e2
      exact ⟨isPrefixOf_eq h1, rfl, by simp⟩
    · split at h
      · rename_i h1; injection h with h; injection h with e1 e2; subst e1 e2
        exact ⟨isPrefixOf_eq h1, rfl, by simp⟩
      · split at h
        · rename_i h1; injection h with h; injection h with e1 e2; subst e1 e2
          exact ⟨isPrefixOf_eq h1, rfl, by simp⟩
        · exact absurd h (by simp)

theorem parseLoop_zero_cons (h : Str) (c : Char) (cs : Str) :
    parseLoop 0 h (c :: cs) =
      if c = '[' then
        match matchPlaceholder (c :: cs) with
        | some (ph, n) => ⟨h.reverse, ph⟩ :: parseLoop (n - 1) [] cs
        | none => parseLoop 0 (c :: h) cs
      else if cs.contains '[' then parseLoop 0 (c :: h) cs
      else [⟨h.reverse ++ c :: cs, .none⟩] := rfl

/-- the template text ends with an opening bracket -/
def EndsOpen (s : Str) : Prop := s.getLast? = some '['

instance (s : Str) : Decidable (EndsOpen s) := by unfold EndsOpen; infer_instance

theorem endsOpen_cons {c : Char} {cs : Str} (h : cs ≠ []) : EndsOpen (c :: cs) ↔ EndsOpen cs := by
  unfold EndsOpen
  cases cs with
  | nil => exact absurd rfl h
  | cons d ds => simp [List.getLast?_cons_cons]

theorem endsOpen_drop {s : Str} {n : Nat} (h : s.drop n ≠ []) : EndsOpen (s.drop n) ↔ EndsOpen s := by
  unfold EndsOpen
  have hlt : n < s.length := by
    rcases Nat.lt_or_ge n s.length with h' | h'
    · exact h'
    · exact absurd (List.drop_eq_nil_of_le h') h
  rw [List.getLast?_drop]
  simp [Nat.not_le.mpr hlt]

theorem templateToString_cons (p : Part) (t : List Part) :
    templateToString (p :: t) = p.data ++ phText p.ph ++ templateToString t := by
  simp [templateToString]

/-- the parser loses nothing unless the text ends with '[' -/
theorem templateToString_parseLoop (N : Nat) : ∀ (rest h : Str), rest.length ≤ N → ¬ EndsOpen rest →
    (rest = [] → h = []) → templateToString (parseLoop 0 h rest) = h.reverse ++ rest := by
  induction N with
  | zero =>
    intro rest h hl _ hh
    have : rest = [] := List.eq_nil_of_length_eq_zero (by omega)
    subst this
    simp [parseLoop_nil, templateToString, hh rfl]
  | succ N ih =>
    intro rest h hl ho hh
    cases rest with
    | nil => simp [parseLoop_nil, templateToString, hh rfl]
    | cons c cs =>
      rw [parseLoop_zero_cons]
      simp only [List.length_cons] at hl
      by_cases hc : c = '['
      · simp only [hc, if_true]
        cases hm : matchPlaceholder ('[' :: cs) with
        | some pn =>
          obtain ⟨ph, n⟩ := pn
          obtain ⟨h1, h2, hphne⟩ := matchPlaceholder_some hm
          simp only
          rw [templateToString_cons, parseLoop_skip]
          have hn : n ≥ 1 := by
            rw [h2]
            cases ph with
            | none => exact absurd rfl hphne
            | dir => decide
            | name => decide
            | hash => decide
            | ext => decide
          have hd : cs.drop (n - 1) = ('[' :: cs).drop n := by
            obtain ⟨m, rfl⟩ : ∃ m, n = m + 1 := ⟨n - 1, by omega⟩
            simp
          rw [hd, ih _ [] (by simp only [List.length_drop, List.length_cons]; omega)]
          · simp only [List.reverse_nil, List.nil_append, List.append_assoc]
            rw [← h1]
          · intro hopen
            by_cases hnil : ('[' :: cs).drop n = []
            · simp [hnil, EndsOpen] at hopen
            · exact ho (by rw [hc]; exact (endsOpen_drop hnil).mp hopen)
          · intro _; rfl
        | none =>
          simp only
          have hcs : cs ≠ [] := by
            intro e; subst e; subst hc; exact ho (by simp [EndsOpen])
          rw [ih cs _ (by omega) (fun hopen => ho ((endsOpen_cons hcs).mpr hopen)) (fun e => absurd e hcs)]
          simp
      · simp only [hc, if_false]
        by_cases hb : cs.contains '[' = true
        · simp only [hb, if_true]
          have hcs : cs ≠ [] := by intro e; subst e; simp at hb
          rw [ih cs _ (by omega) (fun hopen => ho ((endsOpen_cons hcs).mpr hopen)) (fun e => absurd e hcs)]
          simp
        · simp only [hb]
          simp [templateToString, phText]

theorem getLast?_append_ne_nil (a : Str) {b : Str} (h : b ≠ []) : (a ++ b).getLast? = b.getLast? := by
  rw [List.getLast?_append]
  cases hb : b.getLast? with
  | none => simp [List.getLast?_eq_none_iff] at hb; exact absurd hb h
  | some c => simp

theorem getLast?_replaceBackslash (s : Str) :
    (replaceBackslash s).getLast? = s.getLast?.map (fun c => if c = '\\' then '/' else c) := by
  unfold replaceBackslash
  rw [List.getLast?_map]

/-- **template round trip**: printing the parsed template gives the template back ("./" in front, backslashes
as slashes), for every template that does not end with '[' -/
theorem templateToString_validatePathTemplate {s : Str} (hne : s ≠ []) (ho : ¬ EndsOpen s) :
    templateToString (validatePathTemplate s) = lit "./" ++ replaceBackslash s := by
  unfold validatePathTemplate
  simp only [hne, if_false]
  rw [templateToString_parseLoop _ _ [] (Nat.le_refl _)]
  · rfl
  · intro hopen
    apply ho
    unfold EndsOpen at hopen ⊢
    have hne' : replaceBackslash s ≠ [] := by
      unfold replaceBackslash; simpa using hne
    have : (lit "./" ++ replaceBackslash s).getLast? = (replaceBackslash s).getLast? := by
      rw [getLast?_append_ne_nil _ hne']
    rw [this, getLast?_replaceBackslash] at hopen
    cases hl : s.getLast? with
    | none => rw [hl] at hopen; simp at hopen
    | some c =>
      rw [hl] at hopen
      simp only [Option.map_some, Option.some.injEq] at hopen
      by_cases hb : c = '\\'
      · simp [hb] at hopen
      · simp only [hb, if_false] at hopen
        rw [hopen]
  · intro e
    simp [lit] at e

end EsbuildModel.OutPaths
