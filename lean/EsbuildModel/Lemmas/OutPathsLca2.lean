import EsbuildModel.Lemmas.OutPathsLca
/-
`lowestCommonAncestorDirectory`, part 2: the loop computes the longest common prefix of names; the fold
over all entry points.
-/
namespace EsbuildModel.OutPaths
open EsbuildModel.Spec.OutPath

theorem front_eq_render {Y : List Str} (h : Y ≠ []) : front Y = render Y := by
  cases Y with
  | nil => exact absurd rfl h
  | cons y Y => rfl

theorem front_length_cons (P x : Str) : (P ++ '/' :: x).length = P.length + 1 + x.length := by
  simp only [List.length_append, List.length_cons]; omega

theorem lcaNames_nil_right (absDir : Str) (A : List Str) (a : Nat) : lcaNames absDir A [] a = absDir.take a := by
  cases A <;> rfl

theorem lcaNames_eq (A : List Str) : ∀ (L : List Str) (P : Str), (P = [] ∨ ∃ q, P = '/' :: q) →
    lcaNames (P ++ front A) A L P.length =
      if P = [] ∧ lca2 A L = [] then (if A = [] ∨ L = [] then [] else ['/']) else P ++ front (lca2 A L) := by
  induction A with
  | nil =>
    intro L P _
    have h1 : lcaNames (P ++ front []) [] L P.length = (P ++ front []).take P.length := rfl
    have h2 : lca2 [] L = [] := rfl
    rw [h1, h2]
    have : front ([] : List Str) = [] := rfl
    simp only [this, List.append_nil, List.take_length, and_true, true_or, if_true]
    split <;> simp_all
  | cons x A ih =>
    intro L P hP
    cases L with
    | nil =>
      rw [lcaNames_nil_right]
      have h2 : lca2 (x :: A) [] = [] := rfl
      rw [h2]
      have : front ([] : List Str) = [] := rfl
      simp only [this, List.append_nil, and_true, or_true, if_true, List.take_left']
      split <;> simp_all
    | cons y L =>
      by_cases hxy : x = y
      · subst hxy
        have h1 : lcaNames (P ++ front (x :: A)) (x :: A) (x :: L) P.length =
            lcaNames (P ++ front (x :: A)) A L (P.length + 1 + x.length) := by
          simp [lcaNames]
        have h2 : lca2 (x :: A) (x :: L) = x :: lca2 A L := by simp [lca2]
        have hre : P ++ front (x :: A) = (P ++ '/' :: x) ++ front A := by
          rw [front_cons]; simp
        rw [h1, h2, hre, ← front_length_cons, ih L (P ++ '/' :: x)]
        · have hne : P ++ '/' :: x ≠ [] := by simp
          simp only [hne, false_and, if_false, List.cons_ne_nil, and_false]
          rw [front_cons]; simp
        · rcases hP with rfl | ⟨q, rfl⟩
          · exact Or.inr ⟨x, rfl⟩
          · exact Or.inr ⟨q ++ '/' :: x, rfl⟩
      · have h1 : lcaNames (P ++ front (x :: A)) (x :: A) (y :: L) P.length =
            differ (P ++ front (x :: A)) P.length := by
          simp [lcaNames, hxy]
        have h2 : lca2 (x :: A) (y :: L) = [] := by simp [lca2, hxy]
        rw [h1, h2]
        have : front ([] : List Str) = [] := rfl
        simp only [this, List.append_nil, and_true, List.cons_ne_nil, or_self, if_false]
        unfold differ
        rcases hP with rfl | ⟨q, rfl⟩
        · simp [front_cons]
        · have hany : (List.take ('/' :: q).length ('/' :: q ++ front (x :: A))).any isSlashOrBackslash = true := by
            rw [List.take_left']
            · simp [isSlashOrBackslash]
            · rfl
          simp only [hany, not_true_eq_false, and_false, if_false, List.cons_ne_nil]
          rw [List.take_left']
          rfl

theorem render_nil : render [] = ['/'] := rfl

/-- the loop of `lowestCommonAncestorDirectory` on two directories in normal form -/
theorem lcaLoop_render {A L : AbsPath} (hA : ∀ x ∈ A, ValidName x ∧ Plain x) (hL : ∀ x ∈ L, ValidName x ∧ Plain x) :
    lcaLoop (render A) (render A) (render L) 0 0 = render (lca2 A L) := by
  have hs : isSlashOrBackslash '/' = true := rfl
  cases A with
  | nil =>
    have h2 : lca2 [] L = [] := rfl
    rw [h2, render_nil, render_eq L, lcaLoop_cons_cons, hs]
    simp only [Bool.and_self, if_true]
    rw [lcaLoop_nil_left]
    split
    · rfl
    · simp [differ]
  | cons x A =>
    cases L with
    | nil =>
      have h2 : lca2 (x :: A) [] = [] := rfl
      rw [h2, render_nil]
      have : render (x :: A) = '/' :: (x ++ front A) := by
        rw [← front_eq_render (by simp), front_cons]; rfl
      rw [this, lcaLoop_cons_cons, hs]
      simp only [Bool.and_self, if_true]
      rw [lcaLoop_nil_right]
      have hx := hA x (by simp)
      obtain ⟨c, x', hcx⟩ : ∃ c x', x = c :: x' := by
        cases x with
        | nil => exact absurd rfl hx.1.1
        | cons c x' => exact ⟨c, x', rfl⟩
      have hc : isSlashOrBackslash c = false :=
        notSlash_of (fun e => hx.1.2.1 (by rw [hcx, e]; simp)) (hx.2 c (by rw [hcx]; simp))
      have : isBoundary (x ++ front A) = false := by rw [hcx]; exact hc
      rw [this]
      simp [differ]
    | cons y L =>
      rw [← front_eq_render (by simp : x :: A ≠ []), ← front_eq_render (by simp : y :: L ≠ []),
        lcaLoop_front _ _ _ _ _ (fun z hz => ⟨(hA z hz).1.2.1, (hA z hz).2⟩)
          (fun z hz => ⟨(hL z hz).1.2.1, (hL z hz).2⟩)]
      have := lcaNames_eq (x :: A) (y :: L) [] (Or.inl rfl)
      simp only [List.nil_append, List.length_nil, true_and, List.cons_ne_nil, or_self, if_false] at this
      rw [this]
      split
      · rename_i h; rw [h]; rfl
      · rename_i h; exact front_eq_render h

theorem lca2_comm (A L : AbsPath) : lca2 A L = lca2 L A := by
  induction A generalizing L with
  | nil => cases L <;> rfl
  | cons x A ih =>
    cases L with
    | nil => rfl
    | cons y L =>
      by_cases h : x = y
      · subst h; simp [lca2, ih L]
      · have h' : ¬ y = x := fun e => h e.symm
        simp [lca2, h, h']

theorem lca2_mem {A L : AbsPath} {x : Str} (h : x ∈ lca2 A L) : x ∈ A := by
  induction A generalizing L with
  | nil => cases L <;> simp [lca2] at h
  | cons a A ih =>
    cases L with
    | nil => simp [lca2] at h
    | cons y L =>
      by_cases hay : a = y
      · subst hay
        simp only [lca2, if_true] at h
        rcases List.mem_cons.mp h with rfl | h
        · simp
        · exact List.mem_cons_of_mem _ (ih h)
      · simp [lca2, hay] at h

/-- `dir` of an absolute path in normal form drops the last name -/
theorem dir_render {P : AbsPath} (hP : ∀ x ∈ P, ValidName x) : dir (render P) = render P.dropLast := by
  by_cases hne : P = []
  · subst hne; decide
  · obtain ⟨init, l, rfl⟩ : ∃ init l, P = init ++ [l] := ⟨_, _, (List.dropLast_concat_getLast hne).symm⟩
    have hl := hP l (by simp)
    have hinit : ∀ x ∈ init, ValidName x := fun x hx => hP x (by simp [hx])
    have hform : render (init ++ [l]) = front init ++ '/' :: l := by
      rw [← front_eq_render (by simp)]
      simp [front]
    rw [hform, List.dropLast_concat]
    unfold dir
    rw [upToLastSlash hl.2.1]
    have hroot : ∃ r, front init ++ ['/'] = '/' :: r := by
      cases init with
      | nil => exact ⟨[], rfl⟩
      | cons i init => exact ⟨i ++ front init ++ ['/'], by rw [front_cons]; rfl⟩
    obtain ⟨r, hr⟩ := hroot
    rw [hr, clean_rooted, ← hr]
    have : denote (front init ++ ['/']) = init := by
      have h1 := denote_append_slash (front init) []
      rw [h1]
      have h2 : denote (front init) = init := by
        by_cases hi : init = []
        · subst hi; rfl
        · rw [front_eq_render hi, denote_render hinit]
      rw [h2]
      simp [components, resolve, step]
    rw [this]

end EsbuildModel.OutPaths
