import EsbuildModel.Impl.TsPaths
import EsbuildModel.Spec.TsPaths
/-! Helper lemmas for Props/C11TsPaths.lean: Go string primitives, the exact-key loop, the pattern scan
(its result is the unique lexicographic maximum of (prefix length, suffix length) among the patterns whose
prefix and suffix fit the path without overlapping), independence of the table order, the substitution loops as "first loadable candidate". -/
namespace EsbuildModel.TsPaths
open EsbuildModel.NodeExports (Str)
open EsbuildModel.PkgExports (hasPrefix hasSuffix indexByte slice goClean goJoin)

/-! ## string primitives -/

theorem hasPrefix_iff (s p : Str) : hasPrefix s p = true ↔ p <+: s := by
  simp [hasPrefix]

theorem hasSuffix_iff (s p : Str) : hasSuffix s p = true ↔ p <:+ s := by
  simp [hasSuffix]

theorem indexByte_none (s : Str) (c : Char) : indexByte s c = none ↔ c ∉ s := by
  induction s with
  | nil => simp [indexByte]
  | cons d ds ih =>
    simp only [indexByte]
    by_cases h : d = c
    · simp [h]
    · simp [h, ih, Ne.symm h]

theorem indexByte_some (s : Str) (c : Char) (i : Nat) (h : indexByte s c = some i) :
    s = s.take i ++ c :: s.drop (i + 1) ∧ c ∉ s.take i := by
  induction s generalizing i with
  | nil => simp [indexByte] at h
  | cons d ds ih =>
    simp only [indexByte] at h
    by_cases hd : d = c
    · simp [hd] at h; subst h; simp [hd]
    · simp only [hd, if_false, Option.map_eq_some_iff] at h
      obtain ⟨j, hj, rfl⟩ := h
      obtain ⟨h1, h2⟩ := ih j hj
      refine ⟨?_, ?_⟩
      · simp only [List.take_succ_cons, List.drop_succ_cons, List.cons_append]; rw [← h1]
      · simp only [List.take_succ_cons, List.mem_cons, not_or]; exact ⟨fun e => hd e.symm, h2⟩

/-- the index found in `pre ++ '*' :: suf` when `pre` has no star -/
theorem indexByte_append (pre suf : Str) (c : Char) (h : c ∉ pre) :
    indexByte (pre ++ c :: suf) c = some pre.length := by
  induction pre with
  | nil => simp [indexByte]
  | cons d ds ih =>
    simp only [List.mem_cons, not_or] at h
    simp [indexByte, Ne.symm h.1, ih h.2]

/-- two prefixes of the same string with the same length are equal -/
theorem prefix_eq_of_length {α} {a b s : List α} (ha : a <+: s) (hb : b <+: s) (hl : a.length = b.length) : a = b := by
  obtain ⟨x, rfl⟩ := ha
  obtain ⟨y, hy⟩ := hb
  exact (List.append_inj hy.symm hl).1

theorem suffix_eq_of_length {α} {a b s : List α} (ha : a <:+ s) (hb : b <:+ s) (hl : a.length = b.length) : a = b := by
  obtain ⟨x, rfl⟩ := ha
  obtain ⟨y, hy⟩ := hb
  exact (List.append_inj' hy.symm hl).2

/-! ## the exact-key loop -/

theorem findExact_some (t : Table) (p : Str) (fbs : List Str) (h : findExact t p = some fbs) : (p, fbs) ∈ t := by
  induction t with
  | nil => simp [findExact] at h
  | cons kv rest ih =>
    obtain ⟨k, v⟩ := kv
    simp only [findExact] at h
    by_cases hk : k = p
    · simp [hk] at h; subst h; simp [hk]
    · simp only [hk, if_false] at h; exact List.mem_cons_of_mem _ (ih h)

theorem findExact_none (t : Table) (p : Str) : findExact t p = none ↔ ∀ fbs, (p, fbs) ∉ t := by
  induction t with
  | nil => simp [findExact]
  | cons kv rest ih =>
    obtain ⟨k, v⟩ := kv
    simp only [findExact]
    by_cases hk : k = p
    · subst hk; simp only [if_true]; constructor
      · intro h; cases h
      · intro h; exact absurd (List.mem_cons_self) (h v)
    · simp only [hk, if_false, ih, List.mem_cons, Prod.mk.injEq, not_or]
      constructor
      · intro h fbs; exact ⟨fun e => hk e.1.symm, h fbs⟩
      · intro h fbs; exact (h fbs).2

/-- the keys of a table (a Go map) are pairwise distinct -/
def KeysNodup (t : Table) : Prop := (t.map (·.1)).Nodup

theorem mem_unique (t : Table) (hn : KeysNodup t) (k : Str) (v1 v2 : List Str)
    (h1 : (k, v1) ∈ t) (h2 : (k, v2) ∈ t) : v1 = v2 := by
  induction t with
  | nil => cases h1
  | cons kv rest ih =>
    simp only [KeysNodup, List.map_cons, List.nodup_cons] at hn
    simp only [List.mem_cons] at h1 h2
    rcases h1 with h1 | h1 <;> rcases h2 with h2 | h2
    · rw [← h1] at h2; exact (Prod.mk.inj h2).2.symm
    · exfalso; apply hn.1; rw [← h1]; exact List.mem_map_of_mem (f := (·.1)) h2
    · exfalso; apply hn.1; rw [← h2]; exact List.mem_map_of_mem (f := (·.1)) h1
    · exact ih hn.2 h1 h2

theorem keysNodup_perm {t1 t2 : Table} (hp : t1.Perm t2) (hn : KeysNodup t1) : KeysNodup t2 :=
  (List.Perm.map (fun kv : Str × List Str => kv.1) hp).nodup_iff.mp hn

/-- the exact-key loop does not depend on the iteration order of the map -/
theorem findExact_perm {t1 t2 : Table} (hp : t1.Perm t2) (hn : KeysNodup t1) (p : Str) :
    findExact t1 p = findExact t2 p := by
  cases h1 : findExact t1 p with
  | none =>
    symm; rw [findExact_none]; intro fbs hm
    exact (findExact_none t1 p).mp h1 fbs (hp.mem_iff.mpr hm)
  | some fbs =>
    have hm := hp.mem_iff.mp (findExact_some t1 p fbs h1)
    cases h2 : findExact t2 p with
    | none => exact absurd hm ((findExact_none t2 p).mp h2 fbs)
    | some fbs' =>
      have := mem_unique t2 (keysNodup_perm hp hn) p fbs fbs' hm (findExact_some t2 p fbs' h2)
      rw [this]

/-! ## the pattern scan -/

/-- `kv` is a pattern that the Go code considers matching: `path` is long enough for prefix plus suffix,
and both fit -/
def IsCand (path : Str) (kv : Str × List Str) (pre suf : Str) : Prop :=
  ∃ i, indexByte kv.1 '*' = some i ∧ pre = kv.1.take i ∧ suf = kv.1.drop (i + 1) ∧
    pre.length + suf.length ≤ path.length ∧ hasPrefix path pre = true ∧ hasSuffix path suf = true

/-- (p1, s1) is strictly better than (p2, s2): longer prefix, or equal prefix and longer suffix -/
def Better (p1 s1 p2 s2 : Int) : Prop := p1 > p2 ∨ (p1 = p2 ∧ s1 > s2)

theorem isCand_key {path : Str} {kv : Str × List Str} {pre suf : Str} (h : IsCand path kv pre suf) :
    kv.1 = pre ++ '*' :: suf ∧ '*' ∉ pre := by
  obtain ⟨i, hi, rfl, rfl, _, _, _⟩ := h
  exact indexByte_some _ _ _ hi

/-- what the scan has established after looking at the entries `seen` -/
def ScanInv (path : Str) (seen : Table) (st : Best) : Prop :=
  (st = Best.init ∧ ∀ kv ∈ seen, ∀ pre suf, ¬ IsCand path kv pre suf) ∨
  (∃ kv ∈ seen, IsCand path kv st.pre st.suf ∧ st.fbs = kv.2 ∧ st.plen = st.pre.length ∧ st.slen = st.suf.length ∧
    ∀ kv' ∈ seen, ∀ pre' suf', IsCand path kv' pre' suf' → ¬ Better pre'.length suf'.length st.plen st.slen)

theorem scanInv_bounds {path : Str} {seen : Table} {st : Best} (h : ScanInv path seen st) :
    (st.plen = -1 ∧ st.slen = -1) ∨ (0 ≤ st.plen ∧ 0 ≤ st.slen) := by
  rcases h with ⟨rfl, _⟩ | ⟨_, _, _, _, h1, h2, _⟩
  · left; simp [Best.init]
  · right; omega

theorem scanStep_inv (path : Str) (seen : Table) (st : Best) (kv : Str × List Str)
    (h : ScanInv path seen st) : ScanInv path (seen ++ [kv]) (scanStep path st kv) := by
  have hb := scanInv_bounds h
  unfold scanStep
  cases hi : indexByte kv.1 '*' with
  | none =>
    -- not a pattern: nothing changes, and `kv` is no candidate
    have hkv : ∀ pre suf, ¬ IsCand path kv pre suf := by
      intro pre suf ⟨i, hi', _⟩; rw [hi] at hi'; cases hi'
    rcases h with ⟨rfl, hno⟩ | ⟨kv0, hm, hc, hf, hp, hs, hmax⟩
    · left; refine ⟨rfl, ?_⟩
      intro kv' hm'; rcases List.mem_append.mp hm' with hm' | hm'
      · exact hno kv' hm'
      · simp only [List.mem_singleton] at hm'; subst hm'; exact hkv
    · right; refine ⟨kv0, List.mem_append_left _ hm, hc, hf, hp, hs, ?_⟩
      intro kv' hm' pre' suf' hc'
      rcases List.mem_append.mp hm' with hm' | hm'
      · exact hmax kv' hm' pre' suf' hc'
      · simp only [List.mem_singleton] at hm'; subst hm'; exact absurd hc' (hkv pre' suf')
  | some i =>
    simp only
    -- every way of seeing `kv` as a candidate uses this `i`
    have hkv : ∀ pre' suf', IsCand path kv pre' suf' → pre' = kv.1.take i ∧ suf' = kv.1.drop (i + 1) ∧
        (kv.1.take i).length + (kv.1.drop (i + 1)).length ≤ path.length ∧
        hasPrefix path (kv.1.take i) = true ∧ hasSuffix path (kv.1.drop (i + 1)) = true := by
      intro pre' suf' ⟨j, hj, h1, h2, h0, h3, h4⟩
      rw [hi] at hj; cases hj; subst h1; subst h2; exact ⟨rfl, rfl, h0, h3, h4⟩
    split
    · -- the entry becomes the best match so far
      rename_i hcond
      simp only [Bool.and_eq_true, Bool.or_eq_true, decide_eq_true_eq] at hcond
      obtain ⟨⟨⟨hfit, hpre⟩, hsuf⟩, hbetter⟩ := hcond
      right
      refine ⟨kv, List.mem_append_right _ (List.mem_singleton.mpr rfl), ⟨i, hi, rfl, rfl, hfit, hpre, hsuf⟩, rfl, rfl, rfl, ?_⟩
      intro kv' hm' pre' suf' hc'
      rcases List.mem_append.mp hm' with hm' | hm'
      · rcases h with ⟨rfl, hno⟩ | ⟨kv0, hm, hc, hf, hp, hs, hmax⟩
        · exact absurd hc' (hno kv' hm' pre' suf')
        · have := hmax kv' hm' pre' suf' hc'
          simp only [Better] at this ⊢
          omega
      · simp only [List.mem_singleton] at hm'; subst hm'
        obtain ⟨rfl, rfl, _, _, _⟩ := hkv pre' suf' hc'
        simp only [Better]; omega
    · -- unchanged
      rename_i hcond
      have hnb : ∀ pre' suf', IsCand path kv pre' suf' → ¬ Better pre'.length suf'.length st.plen st.slen := by
        intro pre' suf' hc'
        obtain ⟨rfl, rfl, h0, h3, h4⟩ := hkv pre' suf' hc'
        intro hbt
        apply hcond
        simp only [Bool.and_eq_true, Bool.or_eq_true, decide_eq_true_eq]
        exact ⟨⟨⟨h0, h3⟩, h4⟩, hbt⟩
      rcases h with ⟨rfl, hno⟩ | ⟨kv0, hm, hc, hf, hp, hs, hmax⟩
      · left; refine ⟨rfl, ?_⟩
        intro kv' hm'; rcases List.mem_append.mp hm' with hm' | hm'
        · exact hno kv' hm'
        · simp only [List.mem_singleton] at hm'; subst hm'
          intro pre' suf' hc'
          apply hnb pre' suf' hc'
          simp only [Better, Best.init]; omega
      · right; refine ⟨kv0, List.mem_append_left _ hm, hc, hf, hp, hs, ?_⟩
        intro kv' hm' pre' suf' hc'
        rcases List.mem_append.mp hm' with hm' | hm'
        · exact hmax kv' hm' pre' suf' hc'
        · simp only [List.mem_singleton] at hm'; subst hm'; exact hnb pre' suf' hc'

theorem foldl_scanInv (path : Str) (rest seen : Table) (st : Best) (h : ScanInv path seen st) :
    ScanInv path (seen ++ rest) (rest.foldl (scanStep path) st) := by
  induction rest generalizing seen st with
  | nil => simpa using h
  | cons kv rest ih =>
    simp only [List.foldl_cons]
    have := ih (seen ++ [kv]) _ (scanStep_inv path seen st kv h)
    simpa [List.append_assoc] using this

/-- the scan returns a matching pattern that no other matching pattern beats (or the initial state if there is none) -/
theorem scan_inv (path : Str) (t : Table) : ScanInv path t (scan path t) := by
  have := foldl_scanInv path t [] Best.init (Or.inl ⟨rfl, by simp⟩)
  simpa [scan] using this

/-- two matching patterns with the same prefix length and the same suffix length are the same key -/
theorem cand_key_eq {path : Str} {kv1 kv2 : Str × List Str} {p1 s1 p2 s2 : Str}
    (h1 : IsCand path kv1 p1 s1) (h2 : IsCand path kv2 p2 s2)
    (hp : p1.length = p2.length) (hs : s1.length = s2.length) : p1 = p2 ∧ s1 = s2 ∧ kv1.1 = kv2.1 := by
  have k1 := (isCand_key h1).1
  have k2 := (isCand_key h2).1
  obtain ⟨_, _, _, _, _, a1, b1⟩ := h1
  obtain ⟨_, _, _, _, _, a2, b2⟩ := h2
  have e1 := prefix_eq_of_length ((hasPrefix_iff _ _).mp a1) ((hasPrefix_iff _ _).mp a2) hp
  have e2 := suffix_eq_of_length ((hasSuffix_iff _ _).mp b1) ((hasSuffix_iff _ _).mp b2) hs
  subst e1; subst e2
  exact ⟨rfl, rfl, by rw [k1, k2]⟩

/-- the scan does not depend on the iteration order of the map -/
theorem scan_perm {t1 t2 : Table} (hp : t1.Perm t2) (hn : KeysNodup t1) (path : Str) :
    scan path t1 = scan path t2 := by
  have i1 := scan_inv path t1
  have i2 := scan_inv path t2
  generalize scan path t1 = b1 at i1
  generalize scan path t2 = b2 at i2
  rcases i1 with ⟨rfl, hno1⟩ | ⟨kv1, hm1, hc1, hf1, hp1, hs1, hmax1⟩ <;>
    rcases i2 with ⟨rfl, hno2⟩ | ⟨kv2, hm2, hc2, hf2, hp2, hs2, hmax2⟩
  · rfl
  · exact absurd hc2 (hno1 kv2 (hp.mem_iff.mpr hm2) _ _)
  · exact absurd hc1 (hno2 kv1 (hp.mem_iff.mp hm1) _ _)
  · have n1 := hmax1 kv2 (hp.mem_iff.mpr hm2) _ _ hc2
    have n2 := hmax2 kv1 (hp.mem_iff.mp hm1) _ _ hc1
    simp only [Better] at n1 n2
    have hl : b1.pre.length = b2.pre.length := by omega
    have hl2 : b1.suf.length = b2.suf.length := by omega
    obtain ⟨e1, e2, ek⟩ := cand_key_eq hc1 hc2 hl hl2
    have hv : kv1.2 = kv2.2 := by
      have m2 : (kv1.1, kv2.2) ∈ t1 := by rw [ek]; exact hp.mem_iff.mpr hm2
      exact mem_unique t1 hn kv1.1 kv1.2 kv2.2 hm1 m2
    cases b1; cases b2
    simp only [Best.mk.injEq] at *
    refine ⟨by omega, by omega, e1, e2, ?_⟩
    rw [hf1, hf2, hv]

/-! ## the substitution loops = "first loadable location" of the specification -/

def ofOpt {α} : Option α → Outcome α
  | none => .notFound
  | some r => .found r

theorem substitute_eq (f m : Str) : replaceFirstStar f m = TsPathsSpec.substitute f m := by
  induction f with
  | nil => rfl
  | cons c cs ih => simp only [replaceFirstStar, TsPathsSpec.substitute, ih]

theorem toLower_eq (c : Char) : toLowerAscii c = TsPathsSpec.lower c := by
  simp only [toLowerAscii, TsPathsSpec.lower, Bool.and_eq_true, decide_eq_true_eq]

theorem dts_eq (s : Str) : hasDtsSuffix s = TsPathsSpec.isDeclarationFile s := by
  simp only [hasDtsSuffix, TsPathsSpec.isDeclarationFile]
  have hm : ∀ l : Str, l.map toLowerAscii = l.map TsPathsSpec.lower := fun l => List.map_congr_left (fun c _ => toLower_eq c)
  have hr : (s.map TsPathsSpec.lower).reverse.take 5 = ((s.drop (s.length - 5)).map TsPathsSpec.lower).reverse := by
    rw [List.take_reverse, List.length_map, List.map_drop]
  rw [hr, hm]
  by_cases hl : s.length ≥ 5
  · simp only [hl, decide_true, Bool.true_and]
    have : (['s', 't', '.', 'd', '.'] : Str) = (['.', 'd', '.', 't', 's'] : Str).reverse := rfl
    rw [this]
    simp only [List.reverse_inj]
  · simp only [hl, decide_false, Bool.false_and]
    symm; rw [decide_eq_false_iff_not]
    intro h
    have := congrArg List.length h
    simp at this
    omega

theorem absolutize_eq (absBase f : Str) : absolutize absBase f = TsPathsSpec.absolute fsJoin absBase f := by
  simp only [absolutize, TsPathsSpec.absolute, isAbs, hasPrefix]
  cases f with
  | nil => simp
  | cons c cs =>
    by_cases h : c = '/'
    · subst h; simp [List.isPrefixOf]
    · have h' : ¬ '/' = c := fun e => h e.symm
      simp [List.isPrefixOf, h, h']

theorem tryExact_eq {α} (load : Str → Option α) (absBase : Str) (fbs : List Str) :
    tryExact load absBase fbs =
      ofOpt (TsPathsSpec.resolve fsJoin load absBase (.exact fbs)) := by
  induction fbs with
  | nil => rfl
  | cons f rest ih =>
    simp only [tryExact, TsPathsSpec.resolve, TsPathsSpec.locations] at ih ⊢
    rw [dts_eq]
    by_cases hd : TsPathsSpec.isDeclarationFile f = true
    · simp only [hd, if_true, List.filter_cons, Bool.not_true, Bool.false_eq_true, if_false]; exact ih
    · have hd' : TsPathsSpec.isDeclarationFile f = false := by simpa using hd
      simp only [hd', Bool.false_eq_true, if_false, List.filter_cons, Bool.not_false, if_true, List.map_cons,
        TsPathsSpec.firstLoadable]
      rw [absolutize_eq]
      cases load (TsPathsSpec.absolute fsJoin absBase f) with
      | some r => rfl
      | none => exact ih

/-- `path[len(prefix) : len(path)-len(suffix)]` succeeds when prefix and suffix do not overlap, and then
splits the path -/
theorem slice_fit (path pre suf : Str) (hp : pre <+: path) (hs : suf <:+ path)
    (hl : pre.length + suf.length ≤ path.length) :
    ∃ m, slice path pre.length ((path.length : Int) - suf.length) = some m ∧ path = pre ++ m ++ suf := by
  obtain ⟨y, hy⟩ := hs
  have hylen : y.length = path.length - suf.length := by
    have := congrArg List.length hy; simp at this; omega
  have hpy : pre <+: y := by
    apply List.prefix_of_prefix_length_le hp ⟨suf, hy⟩
    omega
  obtain ⟨z, hz⟩ := hpy
  refine ⟨z, ?_, ?_⟩
  · have hcond : (0 : Int) ≤ (pre.length : Int) ∧ (pre.length : Int) ≤ (path.length : Int) - suf.length ∧
        (path.length : Int) - suf.length ≤ (path.length : Int) := by omega
    simp only [slice, hcond, and_self, if_true, Option.some.injEq]
    have h1 : ((path.length : Int) - (suf.length : Int)).toNat = y.length := by omega
    rw [h1, Int.toNat_natCast, ← hy, List.take_left', ← hz, List.drop_left']
    · rfl
    · rfl
  · rw [← hy, ← hz]

/-- … and fails (Go: panics) when they overlap -/
theorem slice_overlap (path pre suf : Str) (hl : path.length < pre.length + suf.length) :
    slice path pre.length ((path.length : Int) - suf.length) = none := by
  have : ¬ ((0 : Int) ≤ (pre.length : Int) ∧ (pre.length : Int) ≤ (path.length : Int) - suf.length ∧
      (path.length : Int) - suf.length ≤ (path.length : Int)) := by omega
  simp only [slice, this, if_false]

theorem tryPattern_eq {α} (load : Str → Option α) (absBase path pre suf m : Str) (fbs : List Str)
    (hs : slice path pre.length ((path.length : Int) - suf.length) = some m) :
    tryPattern load absBase path pre suf fbs =
      ofOpt (TsPathsSpec.resolve fsJoin load absBase (.pattern pre suf m fbs)) := by
  induction fbs with
  | nil => rfl
  | cons f rest ih =>
    simp only [tryPattern, hs, TsPathsSpec.resolve, TsPathsSpec.locations, List.map_cons] at ih ⊢
    rw [dts_eq, substitute_eq]
    by_cases hd : TsPathsSpec.isDeclarationFile (TsPathsSpec.substitute f m) = true
    · simp only [hd, if_true, List.filter_cons, Bool.not_true, Bool.false_eq_true, if_false]; exact ih
    · have hd' : TsPathsSpec.isDeclarationFile (TsPathsSpec.substitute f m) = false := by simpa using hd
      simp only [hd', Bool.false_eq_true, if_false, List.filter_cons, Bool.not_false, if_true, List.map_cons,
        TsPathsSpec.firstLoadable]
      rw [absolutize_eq]
      cases load (TsPathsSpec.absolute fsJoin absBase (TsPathsSpec.substitute f m)) with
      | some r => rfl
      | none => exact ih

theorem tryPattern_panic {α} (load : Str → Option α) (absBase path pre suf : Str) (fbs : List Str)
    (hs : slice path pre.length ((path.length : Int) - suf.length) = none) :
    tryPattern load absBase path pre suf fbs = if fbs = [] then .notFound else .panic := by
  cases fbs with
  | nil => rfl
  | cons f rest => simp [tryPattern, hs]

/-! ## what the parser guarantees about a table -/

theorem validLoop_true (s : Str) : validLoop true s = true ↔ '*' ∉ s := by
  induction s with
  | nil => simp [validLoop]
  | cons c cs ih =>
    by_cases h : c = '*'
    · subst h; simp [validLoop]
    · have h' : ¬ '*' = c := fun e => h e.symm
      simp [validLoop, h, h', ih]

/-- a valid pattern with a star at `i` has no further star -/
theorem valid_star (k : Str) (i : Nat) (hv : isValidPattern k = true) (hi : indexByte k '*' = some i) :
    '*' ∉ k.drop (i + 1) := by
  obtain ⟨hk, hpre⟩ := indexByte_some k '*' i hi
  have : ∀ (pre suf : Str), '*' ∉ pre → validLoop false (pre ++ '*' :: suf) = true → '*' ∉ suf := by
    intro pre suf hp
    induction pre with
    | nil => intro h; simpa [validLoop, validLoop_true] using h
    | cons c cs ih =>
      simp only [List.mem_cons, not_or] at hp
      have hc : ¬ c = '*' := fun e => hp.1 e.symm
      intro h
      simp only [List.cons_append, validLoop, hc, if_false] at h
      exact ih hp.2 h
  rw [hk] at hv
  exact this _ _ hpre hv

/-- keys pairwise distinct (a Go map) and every key a valid pattern (what `parsePaths` lets through) -/
def ValidTable (t : Table) : Prop := KeysNodup t ∧ ∀ kv ∈ t, isValidPattern kv.1 = true

theorem appendTo_keys (t : Table) (k v : Str) :
    (appendTo t k v).map (·.1) = if k ∈ t.map (·.1) then t.map (·.1) else t.map (·.1) ++ [k] := by
  induction t with
  | nil => simp [appendTo]
  | cons kv rest ih =>
    obtain ⟨k0, l⟩ := kv
    simp only [appendTo]
    by_cases h : k0 = k
    · subst h; simp
    · have h' : ¬ k = k0 := fun e => h e.symm
      simp only [h, if_false, List.map_cons, ih, List.mem_cons, h', false_or]
      split <;> simp

theorem appendTo_valid (t : Table) (k v : Str) (hk : isValidPattern k = true) (h : ValidTable t) :
    ValidTable (appendTo t k v) := by
  obtain ⟨hn, hv⟩ := h
  constructor
  · simp only [KeysNodup, appendTo_keys]
    split
    · exact hn
    · rename_i hnot
      exact List.nodup_append.mpr ⟨hn, by simp, by
        intro a ha b hb; simp only [List.mem_singleton] at hb; subst hb; intro e; subst e; exact hnot ha⟩
  · intro kv hm
    have : kv.1 ∈ (appendTo t k v).map (·.1) := List.mem_map_of_mem (f := (·.1)) hm
    rw [appendTo_keys] at this
    split at this
    · obtain ⟨kv', hm', he⟩ := List.mem_map.mp this; rw [← he]; exact hv kv' hm'
    · rcases List.mem_append.mp this with h1 | h1
      · obtain ⟨kv', hm', he⟩ := List.mem_map.mp h1; rw [← he]; exact hv kv' hm'
      · simp only [List.mem_singleton] at h1; rw [h1]; exact hk

theorem addItems_valid (cd key : Str) (hk : isValidPattern key = true) (items : List (Option Str)) (t : Table)
    (h : ValidTable t) : ValidTable (addItems cd key t items) := by
  induction items generalizing t with
  | nil => exact h
  | cons it rest ih =>
    cases it with
    | none => exact ih t h
    | some s =>
      simp only [addItems]
      split
      · exact ih _ (appendTo_valid t key _ hk h)
      · exact ih t h

/-- the table built by ParseTSConfigJSON has pairwise distinct keys with at most one `*` each -/
theorem parsePaths_valid (cd : Str) (raw : RawPaths) (t : Table) (h : ValidTable t) :
    ValidTable (parsePaths cd t raw) := by
  induction raw generalizing t with
  | nil => exact h
  | cons kv rest ih =>
    obtain ⟨key, value⟩ := kv
    simp only [parsePaths]
    split
    · exact ih t h
    · rename_i hk
      have hk' : isValidPattern key = true := by simpa using hk
      cases value with
      | none => exact ih t h
      | some items => exact ih _ (addItems_valid cd key hk' items t h)

theorem validTable_nil : ValidTable [] := ⟨by simp [KeysNodup], by simp⟩

/-- the no-baseUrl filter only shortens the substitution lists -/
theorem filter_valid (t : Table) (f : Str → Bool) (h : ValidTable t) :
    ValidTable (t.map fun kv => (kv.1, kv.2.filter f)) := by
  obtain ⟨hn, hv⟩ := h
  constructor
  · simpa [KeysNodup, List.map_map, Function.comp_def] using hn
  · intro kv hm
    obtain ⟨kv', hm', rfl⟩ := List.mem_map.mp hm
    exact hv kv' hm'

/-! ## candidates of the scan vs. matches of the specification -/

open EsbuildModel.TsPathsSpec (IsStar StarMatches)

/-- a star entry of the table that matches in the sense of the specification is a candidate of the scan -/
theorem isCand_of_spec {spec pre suf m : Str} {subs : List Str}
    (hs : IsStar (pre ++ '*' :: suf) pre suf) (hm : StarMatches pre suf spec m) :
    IsCand spec (pre ++ '*' :: suf, subs) pre suf := by
  refine ⟨pre.length, indexByte_append pre suf '*' hs.2.1, by simp, by simp, ?_, ?_, ?_⟩
  · rw [hm]; simp
  · rw [hasPrefix_iff]; exact ⟨m ++ suf, by rw [hm]; simp⟩
  · rw [hasSuffix_iff]; exact ⟨pre ++ m, by rw [hm]⟩

/-- a candidate of the scan, as the facts the theorems talk about -/
theorem cand_facts {spec : Str} {kv : Str × List Str} {pre suf : Str} (h : IsCand spec kv pre suf) :
    kv.1 = pre ++ '*' :: suf ∧ '*' ∉ pre ∧ pre <+: spec ∧ suf <:+ spec ∧ pre.length + suf.length ≤ spec.length := by
  obtain ⟨hk, hp⟩ := isCand_key h
  obtain ⟨_, _, _, _, hfit, a, b⟩ := h
  exact ⟨hk, hp, (hasPrefix_iff _ _).mp a, (hasSuffix_iff _ _).mp b, hfit⟩

theorem cand_of_facts {spec pre suf : Str} {subs : List Str} (hp : '*' ∉ pre) (h1 : pre <+: spec) (h2 : suf <:+ spec)
    (hfit : pre.length + suf.length ≤ spec.length) :
    IsCand spec (pre ++ '*' :: suf, subs) pre suf :=
  ⟨pre.length, indexByte_append pre suf '*' hp, by simp, by simp, hfit, (hasPrefix_iff _ _).mpr h1, (hasSuffix_iff _ _).mpr h2⟩

/-! ## no out-of-range slice -/

theorem matchTable_no_panic {α} (load : Str → Option α) (absBase : Str) (t : Table) (spec : Str) :
    matchTable load absBase t spec ≠ .panic := by
  unfold matchTable
  cases hx : findExact t spec with
  | some fbs =>
    simp only [tryExact_eq]
    cases TsPathsSpec.resolve fsJoin load absBase (.exact fbs) <;> simp [ofOpt]
  | none =>
    simp only
    by_cases hne : (scan spec t).plen = -1
    · simp [hne]
    · simp only [hne, ne_eq, not_false_eq_true, if_true]
      rcases scan_inv spec t with ⟨hinit, _⟩ | ⟨kv, hm, hc, hf, _, _, _⟩
      · rw [hinit] at hne; simp [Best.init] at hne
      · obtain ⟨_, _, hpre, hsuf, hfit⟩ := cand_facts hc
        obtain ⟨m, hsl, _⟩ := slice_fit spec _ _ hpre hsuf hfit
        rw [tryPattern_eq load absBase spec _ _ m _ hsl]
        cases TsPathsSpec.resolve fsJoin load absBase (.pattern (scan spec t).pre (scan spec t).suf m (scan spec t).fbs) <;>
          simp [ofOpt]


theorem tsconfigStage_no_panic {α} (load : Str → Option α) (cfg : Option Config) (imp : Str) (rest : Unit → Outcome α)
    (hr : rest () ≠ .panic) : tsconfigStage load cfg imp rest ≠ .panic := by
  unfold tsconfigStage
  cases cfg with
  | none => exact hr
  | some c =>
    simp only
    cases hp : c.paths with
    | none =>
      simp only
      cases c.baseUrl with
      | none => exact hr
      | some b => simp only; cases load (fsJoin b imp) <;> simp [hr]
    | some t =>
      simp only
      have := matchTable_no_panic load c.absBaseURL t imp
      cases hm : matchTable load c.absBaseURL t imp with
      | panic => exact absurd hm this
      | found r => simp
      | notFound =>
        simp only
        cases c.baseUrl with
        | none => exact hr
        | some b => simp only; cases load (fsJoin b imp) <;> simp [hr]

end EsbuildModel.TsPaths
