/-
Lemmas for the model of linker.mangleProps (Impl/MangleProps.lean): symbol-table updates, the insertion sort,
the comparator, the shuffled alphabet, the name search, the merge loop and the assignment loop.
-/
import EsbuildModel.Spec.MangleProps
import EsbuildModel.Props.C15
namespace EsbuildModel.MangleProps

-- ---------------------------------------------------------------- symbol table

theorem getSym_setSym_self {m : SymMap} {r : Ref} {s0 s : Sym} (h : getSym m r = some s0) :
    getSym (setSym m r s) r = some s := by
  unfold getSym at h ⊢
  unfold setSym
  rw [List.getElem?_modify]
  cases hrow : m[r.src]? with
  | none => simp [hrow] at h
  | some row =>
    simp only [hrow] at h
    have hlt : r.inner < row.length := by
      rcases Nat.lt_or_ge r.inner row.length with h1 | h1
      · exact h1
      · rw [List.getElem?_eq_none h1] at h; cases h
    simp [List.getElem?_set, hlt]

theorem getSym_setSym_ne {m : SymMap} {r r' : Ref} {s : Sym} (h : r ≠ r') :
    getSym (setSym m r s) r' = getSym m r' := by
  unfold getSym setSym
  rw [List.getElem?_modify]
  cases hrow : m[r'.src]? with
  | none => simp
  | some row =>
    by_cases hs : r.src = r'.src
    · have hi : r.inner ≠ r'.inner := by
        intro hi; apply h
        cases r; cases r'; simp_all
      simp [hs, List.getElem?_set, hi]
    · simp [hs]

theorem length_le_sum_of_mem {row : List Sym} : ∀ {m : SymMap}, row ∈ m → row.length ≤ (m.map List.length).sum
  | [], h => by simp at h
  | a :: m, h => by
    simp only [List.map_cons, List.sum_cons]
    rcases List.mem_cons.mp h with rfl | h
    · omega
    · have := length_le_sum_of_mem h; omega

theorem totalSyms_pos {m : SymMap} {r : Ref} {s : Sym} (h : getSym m r = some s) : 0 < totalSyms m := by
  unfold getSym at h
  cases hrow : m[r.src]? with
  | none => simp [hrow] at h
  | some row =>
    simp only [hrow] at h
    have hmem : row ∈ m := List.mem_of_getElem? hrow
    have hlen : 0 < row.length := by
      rcases Nat.lt_or_ge r.inner row.length with h1 | h1
      · omega
      · rw [List.getElem?_eq_none h1] at h; cases h
    unfold totalSyms
    have := length_le_sum_of_mem hmem
    omega

-- ---------------------------------------------------------------- association lists

theorem lookup_mapSet {α β : Type} [BEq α] [LawfulBEq α] (l : List (α × β)) (k k' : α) (v : β) :
    (mapSet l k v).lookup k' = if k' == k then some v else l.lookup k' := by
  induction l with
  | nil => simp only [mapSet, List.lookup_cons, List.lookup_nil]; cases k' == k <;> rfl
  | cons p rest ih =>
    obtain ⟨a, b⟩ := p
    simp only [mapSet]
    by_cases hk : k = a
    · subst hk
      simp only [beq_self_eq_true, if_true, List.lookup_cons]
      cases k' == k <;> rfl
    · have hka : (k == a) = false := by simpa using hk
      simp only [hka, Bool.false_eq_true, if_false, List.lookup_cons]
      by_cases h : k' = a
      · subst h
        have : (k' == k) = false := by simpa using fun e : k' = k => hk e.symm
        simp [this]
      · have : (k' == a) = false := by simpa using h
        simp only [this, ih]

theorem lookup_append_single {α β : Type} [BEq α] [LawfulBEq α] (l : List (α × β)) (k k' : α) (v : β) :
    (l ++ [(k, v)]).lookup k' = match l.lookup k' with
      | some x => some x
      | none => if k' == k then some v else none := by
  induction l with
  | nil => simp only [List.nil_append, List.lookup_cons, List.lookup_nil]; cases k' == k <;> rfl
  | cons p rest ih =>
    obtain ⟨a, b⟩ := p
    simp only [List.cons_append, List.lookup_cons]
    by_cases h : k' = a
    · simp [h]
    · have : (k' == a) = false := by simpa using h
      simp only [this, ih]

theorem lookup_some_mem {α β : Type} [BEq α] [LawfulBEq α] {l : List (α × β)} {k : α} {v : β}
    (h : l.lookup k = some v) : (k, v) ∈ l := by
  induction l with
  | nil => simp at h
  | cons p rest ih =>
    obtain ⟨a, b⟩ := p
    simp only [List.lookup_cons] at h
    by_cases hk : k = a
    · subst hk; simp at h; subst h; simp
    · have : (k == a) = false := by simpa using hk
      simp only [this] at h
      exact List.mem_cons_of_mem _ (ih h)

theorem lookup_none_iff {α β : Type} [BEq α] [LawfulBEq α] {l : List (α × β)} {k : α} :
    l.lookup k = none ↔ k ∉ l.map (·.1) := by
  induction l with
  | nil => simp
  | cons p rest ih =>
    obtain ⟨a, b⟩ := p
    simp only [List.lookup_cons, List.map_cons, List.mem_cons, not_or]
    by_cases hk : k = a
    · subst hk; simp
    · have : (k == a) = false := by simpa using hk
      simp only [this, ih]
      exact ⟨fun h => ⟨hk, h⟩, fun h => h.2⟩

theorem mem_lookup_of_nodup {α β : Type} [BEq α] [LawfulBEq α] {l : List (α × β)} {k : α} {v : β}
    (hn : (l.map (·.1)).Nodup) (h : (k, v) ∈ l) : l.lookup k = some v := by
  induction l with
  | nil => simp at h
  | cons p rest ih =>
    obtain ⟨a, b⟩ := p
    simp only [List.map_cons, List.nodup_cons] at hn
    simp only [List.lookup_cons]
    rcases List.mem_cons.mp h with heq | hmem
    · cases heq; simp
    · have hne : k ≠ a := by
        intro e; subst e
        exact hn.1 (List.mem_map_of_mem (f := (·.1)) hmem)
      have : (k == a) = false := by simpa using hne
      simp only [this]
      exact ih hn.2 hmem

-- ---------------------------------------------------------------- insertion sort

theorem insertBy_perm {α : Type} (le : α → α → Bool) (a : α) : ∀ l : List α, (insertBy le a l).Perm (a :: l)
  | [] => List.Perm.refl _
  | b :: l => by
    simp only [insertBy]
    split
    · exact List.Perm.refl _
    · exact ((insertBy_perm le a l).cons b).trans (List.Perm.swap a b l)

theorem isort_perm {α : Type} (le : α → α → Bool) : ∀ l : List α, (isort le l).Perm l
  | [] => List.Perm.refl _
  | a :: l => (insertBy_perm le a _).trans ((isort_perm le l).cons a)

theorem insertBy_sorted {α : Type} {le : α → α → Bool}
    (tr : ∀ a b c, le a b = true → le b c = true → le a c = true)
    (tot : ∀ a b, le a b = true ∨ le b a = true) (a : α) :
    ∀ l : List α, l.Pairwise (fun x y => le x y = true) → (insertBy le a l).Pairwise (fun x y => le x y = true)
  | [], _ => by simp [insertBy]
  | b :: l, h => by
    simp only [insertBy]
    have hb := List.pairwise_cons.mp h
    split
    · rename_i hab
      refine List.pairwise_cons.mpr ⟨?_, h⟩
      intro x hx
      rcases List.mem_cons.mp hx with rfl | hx
      · exact hab
      · exact tr _ _ _ hab (hb.1 x hx)
    · rename_i hab
      refine List.pairwise_cons.mpr ⟨?_, insertBy_sorted tr tot a l hb.2⟩
      intro x hx
      have hx' := (insertBy_perm le a l).mem_iff.mp hx
      rcases List.mem_cons.mp hx' with rfl | hx'
      · rcases tot x b with h1 | h1
        · exact absurd h1 hab
        · exact h1
      · exact hb.1 x hx'

theorem isort_sorted {α : Type} {le : α → α → Bool}
    (tr : ∀ a b c, le a b = true → le b c = true → le a c = true)
    (tot : ∀ a b, le a b = true ∨ le b a = true) :
    ∀ l : List α, (isort le l).Pairwise (fun x y => le x y = true)
  | [] => List.Pairwise.nil
  | a :: l => insertBy_sorted tr tot a _ (isort_sorted tr tot l)

-- ---------------------------------------------------------------- the comparator

theorem less_iff (a b : SC) : less a b = true ↔
    a.count > b.count ∨ (a.count = b.count ∧ (a.stable < b.stable ∨ (a.stable = b.stable ∧ a.ref.inner < b.ref.inner))) := by
  unfold less
  split
  · simp; omega
  · split
    · simp; omega
    · split
      · simp; omega
      · split
        · simp; omega
        · simp only [decide_eq_true_eq]; omega

theorem less_irrefl (a : SC) : less a a = false := by
  cases h : less a a with
  | false => rfl
  | true => have := (less_iff a a).mp h; omega

theorem less_trans {a b c : SC} (h1 : less a b = true) (h2 : less b c = true) : less a c = true := by
  have := (less_iff a b).mp h1
  have := (less_iff b c).mp h2
  exact (less_iff a c).mpr (by omega)

theorem less_asymm {a b : SC} (h1 : less a b = true) : less b a = false := by
  cases h : less b a with
  | false => rfl
  | true =>
    have := (less_iff a b).mp h1
    have := (less_iff b a).mp h
    omega

/-- entries whose keys (count, stable index, inner index) differ are ordered one way or the other -/
theorem less_total {a b : SC} (h : a.count ≠ b.count ∨ a.stable ≠ b.stable ∨ a.ref.inner ≠ b.ref.inner) :
    less a b = true ∨ less b a = true := by
  rw [less_iff, less_iff]; omega

theorem notLess_eq {a b : SC} (h1 : less a b = false) (h2 : less b a = false) :
    a.count = b.count ∧ a.stable = b.stable ∧ a.ref.inner = b.ref.inner := by
  have n1 : ¬ (less a b = true) := by simp [h1]
  have n2 : ¬ (less b a = true) := by simp [h2]
  rw [less_iff] at n1 n2
  omega

def leSC (x y : SC) : Bool := !less y x

theorem leSC_trans (a b c : SC) (h1 : leSC a b = true) (h2 : leSC b c = true) : leSC a c = true := by
  simp only [leSC, Bool.not_eq_true'] at *
  cases h : less c a with
  | false => rfl
  | true =>
    have n1 : ¬ (less b a = true) := by simp [h1]
    have n2 : ¬ (less c b = true) := by simp [h2]
    rw [less_iff] at n1 n2
    have := (less_iff c a).mp h
    omega

theorem leSC_total (a b : SC) : leSC a b = true ∨ leSC b a = true := by
  simp only [leSC, Bool.not_eq_true']
  cases h : less b a with
  | false => exact Or.inl rfl
  | true => exact Or.inr (less_asymm h)

theorem sortSC_perm (l : List SC) : (sortSC l).Perm l := isort_perm _ l

theorem sortSC_sorted (l : List SC) : (sortSC l).Pairwise (fun x y => leSC x y = true) :=
  isort_sorted leSC_trans leSC_total l

-- ---------------------------------------------------------------- the alphabet

theorem defaultTail_nodup : defaultTail.Nodup := by decide +kernel

theorem shuffleTail_perm (freq : List Int) : (shuffleTail freq).Perm defaultTail := by
  unfold shuffleTail
  simp only
  refine ((isort_perm _ _).map _).trans ?_
  rw [List.map_map]
  have : ((fun x : CC => x.char) ∘ fun p : Char × Nat => ({ char := p.1, count := freq.getD p.2 0, index := p.2 } : CC))
      = Prod.fst := rfl
  rw [this, List.zipIdx_map_fst]

theorem a_mem_defaultTail : 'a' ∈ defaultTail := by decide

theorem alphabetOf_ok {t : List Char} (hp : t.Perm defaultTail) :
    (alphabetOf t).head.Nodup ∧ (alphabetOf t).tail.Nodup ∧ 0 < (alphabetOf t).head.length ∧
      0 < (alphabetOf t).tail.length := by
  have htn : t.Nodup := (hp.nodup_iff).mpr defaultTail_nodup
  have ha : 'a' ∈ t := hp.mem_iff.mpr a_mem_defaultTail
  have hnd : notDigit 'a' = true := by decide
  have hah : 'a' ∈ t.filter notDigit := List.mem_filter.mpr ⟨ha, hnd⟩
  exact ⟨List.Sublist.nodup List.filter_sublist htn, htn, List.length_pos_of_mem hah, List.length_pos_of_mem ha⟩

theorem shuffle_ok (freq : List Int) :
    (shuffle freq).head.Nodup ∧ (shuffle freq).tail.Nodup ∧ 0 < (shuffle freq).head.length ∧
      0 < (shuffle freq).tail.length := by
  unfold shuffle
  exact alphabetOf_ok (shuffleTail_perm freq)

/-- the name generator of any link is injective -/
theorem nm_injective (freq : List Int) {i j : Nat} (h : Rename.name (shuffle freq) i = Rename.name (shuffle freq) j) :
    i = j :=
  let ⟨a, b, c, d⟩ := shuffle_ok freq
  Rename.name_injective _ a b c d i j h

-- ---------------------------------------------------------------- the name search

theorem nextFree_spec {R : List Name} {nm : Nat → Name} : ∀ {fuel k j : Nat}, nextFree R nm fuel k = some j →
    k ≤ j ∧ nm j ∉ R
  | 0, _, _, h => by simp [nextFree] at h
  | fuel + 1, k, j, h => by
    simp only [nextFree] at h
    split at h
    · have := nextFree_spec h; exact ⟨by omega, this.2⟩
    · rename_i hc
      cases h
      exact ⟨Nat.le_refl _, fun hm => hc (List.contains_iff_mem.mpr hm)⟩

theorem nextFree_none {R : List Name} {nm : Nat → Name} : ∀ {fuel k : Nat}, nextFree R nm fuel k = none →
    ∀ t ∈ List.range' k fuel, nm t ∈ R
  | 0, _, _, t, ht => by simp at ht
  | fuel + 1, k, h, t, ht => by
    simp only [nextFree] at h
    split at h
    · rename_i hc
      simp only [List.range'_succ, List.mem_cons] at ht
      rcases ht with rfl | ht
      · exact List.contains_iff_mem.mp hc
      · exact nextFree_none h t ht
    · cases h

/-- the skip loop of mangleProps ends within `len(reserved) + 1` rounds (pigeonhole) -/
theorem nextFree_isSome {R : List Name} {nm : Nat → Name} (inj : ∀ i j, nm i = nm j → i = j) (k : Nat) :
    ∃ j, nextFree R nm (R.length + 1) k = some j := by
  cases h : nextFree R nm (R.length + 1) k with
  | some j => exact ⟨j, rfl⟩
  | none =>
    exfalso
    have hall := nextFree_none h
    have hsub : (List.range' k (R.length + 1)).map nm ⊆ R := by
      intro x hx
      obtain ⟨t, ht, rfl⟩ := List.mem_map.mp hx
      exact hall t ht
    have hnd : ((List.range' k (R.length + 1)).map nm).Nodup := by
      apply List.Pairwise.map _ _ (List.nodup_range' (step := 1))
      intro a b hab heq
      exact hab (inj a b heq)
    have := hnd.length_le_of_subset hsub
    simp at this
    omega

/-- the search looks at membership only -/
theorem nextFree_congr {R R' : List Name} {nm : Nat → Name} (hm : ∀ x, x ∈ R ↔ x ∈ R') :
    ∀ (fuel k : Nat), nextFree R nm fuel k = nextFree R' nm fuel k
  | 0, _ => rfl
  | fuel + 1, k => by
    simp only [nextFree]
    have : R.contains (nm k) = R'.contains (nm k) := by
      rw [Bool.eq_iff_iff, List.contains_iff_mem, List.contains_iff_mem]; exact hm _
    rw [this, nextFree_congr hm fuel (k + 1)]

-- ---------------------------------------------------------------- the merge loop

/-- what the parser guarantees about the table entries (flattened in processing order): every entry has its own
symbol, the symbol carries the entry's name, is not linked and is not pinned -/
structure EntriesOK (S0 : SymMap) (es : List (Name × Ref)) : Prop where
  refsNodup : (es.map (·.2)).Nodup
  sym : ∀ e ∈ es, ∃ c, getSym S0 e.2 = some ⟨e.1, none, c, false⟩

theorem total_snoc (S0 : SymMap) (rs : List Ref) (x : Ref) (h : rs ≠ []) :
    total S0 (rs ++ [x]) = (total S0 rs + cnt S0 x) % u32 := by
  cases rs with
  | nil => exact absurd rfl h
  | cons r rs => simp [total, List.foldl_append]

theorem refsOf_snoc (n k : Name) (r : Ref) (es : List (Name × Ref)) :
    refsOf n (es ++ [(k, r)]) = refsOf n es ++ (if n == k then [r] else []) := by
  unfold refsOf
  rw [List.filter_append, List.map_append]
  congr 1
  simp only [List.filter_cons, List.filter_nil]
  cases n == k <;> rfl

theorem refsOf_nil_of_lookup_none {n : Name} : ∀ {es : List (Name × Ref)}, es.lookup n = none → refsOf n es = []
  | [], _ => rfl
  | (a, b) :: es, h => by
    simp only [List.lookup_cons] at h
    cases hk : n == a with
    | true => simp [hk] at h
    | false =>
      simp only [hk] at h
      have := refsOf_nil_of_lookup_none h
      unfold refsOf at this ⊢
      simp [List.filter_cons, hk, this]

theorem refsOf_ne_nil_of_lookup_some {n : Name} {r : Ref} : ∀ {es : List (Name × Ref)}, es.lookup n = some r →
    refsOf n es ≠ []
  | [], h => by simp at h
  | (a, b) :: es, h => by
    simp only [List.lookup_cons] at h
    cases hk : n == a with
    | true => unfold refsOf; simp [List.filter_cons, hk]
    | false =>
      simp only [hk] at h
      have := refsOf_ne_nil_of_lookup_some h
      unfold refsOf at this ⊢
      simpa [List.filter_cons, hk] using this

theorem name_eq_of_same_ref {α β : Type} {l : List (α × β)} (hn : (l.map (·.2)).Nodup) {a b : α} {r : β}
    (ha : (a, r) ∈ l) (hb : (b, r) ∈ l) : a = b := by
  induction l with
  | nil => simp at ha
  | cons p rest ih =>
    simp only [List.map_cons, List.nodup_cons] at hn
    rcases List.mem_cons.mp ha with rfl | ha' <;> rcases List.mem_cons.mp hb with hb' | hb'
    · cases hb'; rfl
    · exact absurd (List.mem_map_of_mem (f := (·.2)) hb') hn.1
    · subst hb'; exact absurd (List.mem_map_of_mem (f := (·.2)) ha') hn.1
    · exact ih hn.2 ha' hb'

theorem mergeSymbols_direct {fuel : Nat} {m : SymMap} {old new : Ref} {n1 n2 : Name} {c1 c2 : Nat} {p1 p2 : Bool}
    (hne : old ≠ new) (ho : getSym m old = some ⟨n1, none, c1, p1⟩) (hn : getSym m new = some ⟨n2, none, c2, p2⟩) :
    mergeSymbols (fuel + 1) m old new =
      some (setSym (setSym m old ⟨n1, some new, c1, p1⟩) new
        ⟨if (p1 && !p2) = true then n1 else n2, none, (c2 + c1) % u32, p2 || p1⟩, new) := by
  simp [mergeSymbols, hne, ho, hn]

/-- the state of the merge loop after the entries `done` -/
structure MInv (S0 : SymMap) (done mg : List (Name × Ref)) (sm : SymMap) : Prop where
  keys : (mg.map (·.1)).Nodup
  first : ∀ n, mg.lookup n = done.lookup n
  root : ∀ n r, done.lookup n = some r → getSym sm r = some ⟨n, none, total S0 (refsOf n done), false⟩
  linked : ∀ e ∈ done, ∃ root, done.lookup e.1 = some root ∧
    (e.2 = root ∨ ∃ c, getSym sm e.2 = some ⟨e.1, some root, c, false⟩)
  frame : ∀ r, r ∉ done.map (·.2) → getSym sm r = getSym S0 r

theorem MInv.nil (S0 : SymMap) : MInv S0 [] [] S0 :=
  ⟨List.nodup_nil, fun _ => rfl, fun _ _ h => by simp at h, fun _ h => by simp at h, fun _ _ => rfl⟩

theorem cnt_eq {S0 : SymMap} {r : Ref} {s : Sym} (h : getSym S0 r = some s) : cnt S0 r = s.count := by
  simp [cnt, h]

theorem MInv.step_new {S0 : SymMap} {done mg : List (Name × Ref)} {sm : SymMap} (inv : MInv S0 done mg sm)
    {n : Name} {r : Ref} {c : Nat} (hl : done.lookup n = none) (hr : r ∉ done.map (·.2))
    (hs : getSym S0 r = some ⟨n, none, c, false⟩) :
    MInv S0 (done ++ [(n, r)]) (mg ++ [(n, r)]) sm := by
  have hmg : mg.lookup n = none := by rw [inv.first]; exact hl
  refine ⟨?_, ?_, ?_, ?_, ?_⟩
  · rw [List.map_append, List.nodup_append]
    refine ⟨inv.keys, by simp, ?_⟩
    intro a ha b hb
    simp only [List.map_cons, List.map_nil, List.mem_singleton] at hb
    subst hb
    intro e; subst e
    exact (lookup_none_iff.mp hmg) ha
  · intro n'
    rw [lookup_append_single, lookup_append_single, inv.first]
  · intro n' r' h
    rw [lookup_append_single] at h
    rw [refsOf_snoc]
    cases hd : done.lookup n' with
    | some x =>
      simp only [hd] at h
      have h' : x = r' := by simpa using h
      subst h'
      have hne : (n' == n) = false := by
        cases hk : n' == n with
        | false => rfl
        | true =>
          have : n' = n := by simpa using hk
          subst this; rw [hl] at hd; cases hd
      simp only [hne, Bool.false_eq_true, if_false, List.append_nil]
      exact inv.root n' x hd
    | none =>
      simp only [hd] at h
      cases hk : n' == n with
      | false => simp [hk] at h
      | true =>
        simp only [hk, if_true] at h
        have h' : r = r' := by simpa using h
        subst h'
        have : n' = n := by simpa using hk
        subst this
        rw [inv.frame r hr, hs, refsOf_nil_of_lookup_none hd]
        simp [total, cnt_eq hs]
  · intro e he
    rcases List.mem_append.mp he with he | he
    · obtain ⟨root, h1, h2⟩ := inv.linked e he
      exact ⟨root, by rw [lookup_append_single, h1], h2⟩
    · simp only [List.mem_singleton] at he
      subst he
      exact ⟨r, by rw [lookup_append_single, hl]; simp, Or.inl rfl⟩
  · intro r' hr'
    apply inv.frame
    intro hm
    apply hr'
    rw [List.map_append]
    exact List.mem_append_left _ hm

theorem MInv.step_merge {S0 : SymMap} {done mg : List (Name × Ref)} {sm : SymMap} (inv : MInv S0 done mg sm)
    {n : Name} {r root : Ref} {c : Nat} (hl : done.lookup n = some root) (hr : r ∉ done.map (·.2))
    (hnd : (done.map (·.2)).Nodup) (hs : getSym S0 r = some ⟨n, none, c, false⟩) :
    MInv S0 (done ++ [(n, r)]) mg
      (setSym (setSym sm r ⟨n, some root, c, false⟩) root ⟨n, none, (total S0 (refsOf n done) + c) % u32, false⟩) := by
  have hrootmem : (n, root) ∈ done := lookup_some_mem hl
  have hrootref : root ∈ done.map (·.2) := List.mem_map_of_mem (f := (·.2)) hrootmem
  have hne : r ≠ root := fun e => hr (e ▸ hrootref)
  have hsr : getSym sm r = some ⟨n, none, c, false⟩ := by rw [inv.frame r hr]; exact hs
  have hsroot := inv.root n root hl
  refine ⟨inv.keys, ?_, ?_, ?_, ?_⟩
  · intro n'
    rw [lookup_append_single, inv.first]
    cases hd : done.lookup n' with
    | some x => rfl
    | none =>
      cases hk : n' == n with
      | false => simp [hk]
      | true =>
        have : n' = n := by simpa using hk
        subst this; rw [hl] at hd; cases hd
  · intro n' r' h
    rw [lookup_append_single] at h
    rw [refsOf_snoc]
    cases hd : done.lookup n' with
    | none =>
      simp only [hd] at h
      cases hk : n' == n with
      | false => simp [hk] at h
      | true =>
        have : n' = n := by simpa using hk
        subst this; rw [hl] at hd; cases hd
    | some x =>
      simp only [hd] at h
      have h' : x = r' := by simpa using h
      subst h'
      have hxmem : (n', x) ∈ done := lookup_some_mem hd
      have hxr : x ≠ r := fun e => hr (e ▸ List.mem_map_of_mem (f := (·.2)) hxmem)
      cases hk : n' == n with
      | true =>
        have : n' = n := by simpa using hk
        subst this
        rw [hl] at hd; cases hd
        simp only [if_true]
        rw [total_snoc _ _ _ (refsOf_ne_nil_of_lookup_some hl), cnt_eq hs]
        exact getSym_setSym_self (s0 := ⟨n', none, total S0 (refsOf n' done), false⟩)
          (by rw [getSym_setSym_ne hne]; exact hsroot)
      | false =>
        have hnn : n' ≠ n := by simpa using hk
        have hxroot : x ≠ root := fun e => hnn (name_eq_of_same_ref hnd hxmem (e ▸ hrootmem))
        simp only [Bool.false_eq_true, if_false, List.append_nil]
        rw [getSym_setSym_ne (Ne.symm hxroot), getSym_setSym_ne (Ne.symm hxr)]
        exact inv.root n' x hd
  · intro e he
    rcases List.mem_append.mp he with he | he
    · obtain ⟨root', h1, h2⟩ := inv.linked e he
      refine ⟨root', by rw [lookup_append_single, h1], ?_⟩
      rcases h2 with h2 | ⟨c', h2⟩
      · exact Or.inl h2
      · refine Or.inr ⟨c', ?_⟩
        have her : e.2 ≠ r := fun e' => hr (e' ▸ List.mem_map_of_mem (f := (·.2)) he)
        have heroot : e.2 ≠ root := by
          intro e'
          rw [e', hsroot] at h2
          cases h2
        rw [getSym_setSym_ne (Ne.symm heroot), getSym_setSym_ne (Ne.symm her)]
        exact h2
    · simp only [List.mem_singleton] at he
      subst he
      refine ⟨root, by rw [lookup_append_single, hl], Or.inr ⟨c, ?_⟩⟩
      rw [getSym_setSym_ne (Ne.symm hne)]
      exact getSym_setSym_self hsr
  · intro r' hr'
    rw [List.map_append, List.mem_append, not_or] at hr'
    have h1 : r' ≠ r := by
      intro e; apply hr'.2; simp [e]
    have h2 : r' ≠ root := fun e => hr'.1 (e ▸ hrootref)
    rw [getSym_setSym_ne (Ne.symm h2), getSym_setSym_ne (Ne.symm h1)]
    exact inv.frame r' hr'.1

theorem mergeProps_inv {S0 : SymMap} {fuel : Nat} :
    ∀ (es done mg : List (Name × Ref)) (sm : SymMap), EntriesOK S0 (done ++ es) → MInv S0 done mg sm →
      ∃ mg' sm', mergeProps (fuel + 1) es (mg, sm) = some (mg', sm') ∧ MInv S0 (done ++ es) mg' sm'
  | [], done, mg, sm, _, inv => ⟨mg, sm, rfl, by simpa using inv⟩
  | (n, r) :: rest, done, mg, sm, ok, inv => by
    have hnd := ok.refsNodup
    rw [List.map_append, List.nodup_append] at hnd
    obtain ⟨hnd1, hnd2, hdisj⟩ := hnd
    have hr : r ∉ done.map (·.2) := fun hm => hdisj r hm r (by simp) rfl
    obtain ⟨c, hs⟩ := ok.sym (n, r) (by simp)
    have e : (done ++ [(n, r)]) ++ rest = done ++ (n, r) :: rest := by simp
    have ok' : EntriesOK S0 ((done ++ [(n, r)]) ++ rest) := e ▸ ok
    simp only [mergeProps]
    rw [inv.first]
    cases hl : done.lookup n with
    | none =>
      simp only
      obtain ⟨mg', sm', h1, h2⟩ := mergeProps_inv rest (done ++ [(n, r)]) (mg ++ [(n, r)]) sm ok' (inv.step_new hl hr hs)
      exact ⟨mg', sm', h1, e ▸ h2⟩
    | some root =>
      simp only
      have hrootref : root ∈ done.map (·.2) := List.mem_map_of_mem (f := (·.2)) (lookup_some_mem hl)
      have hne : r ≠ root := fun e' => hr (e' ▸ hrootref)
      have hsr : getSym sm r = some ⟨n, none, c, false⟩ := by rw [inv.frame r hr]; exact hs
      rw [mergeSymbols_direct hne hsr (inv.root n root hl)]
      simp only [Bool.and_false, Bool.false_eq_true, if_false, Bool.or_false]
      obtain ⟨mg', sm', h1, h2⟩ := mergeProps_inv rest (done ++ [(n, r)]) mg _ ok' (inv.step_merge hl hr hnd1 hs)
      exact ⟨mg', sm', h1, e ▸ h2⟩

theorem mergeProps_append (fuel : Nat) : ∀ (l1 l2 : List (Name × Ref)) (st : List (Name × Ref) × SymMap),
    mergeProps fuel (l1 ++ l2) st = (mergeProps fuel l1 st).bind (mergeProps fuel l2)
  | [], _, _ => rfl
  | (n, r) :: l1, l2, (mg, sm) => by
    simp only [List.cons_append, mergeProps]
    cases mg.lookup n with
    | none => exact mergeProps_append fuel l1 l2 _
    | some existing =>
      simp only
      cases mergeSymbols fuel sm r existing with
      | none => rfl
      | some p => exact mergeProps_append fuel l1 l2 _

-- ---------------------------------------------------------------- the assignment loop

theorem assignLoop_cons (nm : Nat → Name) (R : List Name) (sm : SymMap) (sc : SC) (rest : List SC) (st : LoopSt) :
    assignLoop nm R sm (sc :: rest) st =
      match getSym sm sc.ref with
      | none => none
      | some sym =>
        match lookupC st.cache sym.name with
        | some .keep => assignLoop nm R sm rest st
        | some (.str s) => assignLoop nm R sm rest { st with out := mapSet st.out sc.ref s }
        | some .other => none
        | none =>
          match nextFree R nm (R.length + 1) st.next with
          | none => none
          | some k =>
            assignLoop nm R sm rest
              { next := k + 1
                cache := st.cache.map (· ++ [(sym.name, CVal.str (nm k))])
                out := mapSet st.out sc.ref (nm k) } := by
  rfl

/-- the table entry of a representative in closed form -/
def outSpec (c : Option Cache) (out : List (Ref × Name)) (news : List (Name × Nat)) (nm : Nat → Name)
    (n : Name) (r : Ref) : Option Name :=
  match lookupC c n with
  | some .keep => out.lookup r
  | some (.str s) => some s
  | some .other => none
  | none => (news.lookup n).map nm

def newEntries (nm : Nat → Name) (news : List (Name × Nat)) : Cache := news.map (fun p => (p.1, CVal.str (nm p.2)))

theorem lookupC_snoc_ne {c : Option Cache} {n n' : Name} {v : CVal} (h : n' ≠ n) :
    lookupC (c.map (· ++ [(n, v)])) n' = lookupC c n' := by
  cases c with
  | none => rfl
  | some c =>
    simp only [Option.map_some, lookupC]
    rw [lookup_append_single]
    have : (n' == n) = false := by simpa using h
    cases c.lookup n' <;> simp [this]

theorem lookupC_snoc_noOther {c : Option Cache} {n : Name} {s : Name} (h : ∀ n', lookupC c n' ≠ some .other) (n' : Name) :
    lookupC (c.map (· ++ [(n, CVal.str s)])) n' ≠ some .other := by
  cases c with
  | none => simp [lookupC]
  | some c =>
    simp only [Option.map_some, lookupC]
    rw [lookup_append_single]
    have := h n'
    simp only [lookupC] at this
    cases hc : c.lookup n' with
    | some x => simpa [hc] using this
    | none => cases n' == n <;> simp

/-- the generated names in closed form: one search per uncached property, each starting after the last hit -/
def genNews (nm : Nat → Name) (R : List Name) : List Name → Nat → List (Name × Nat)
  | [], _ => []
  | n :: ns, next =>
    match nextFree R nm (R.length + 1) next with
    | none => []
    | some k => (n, k) :: genNews nm R ns (k + 1)

theorem assignLoop_spec {nm : Nat → Name} {R : List Name} {sm : SymMap} {nameOf : Ref → Name}
    (inj : ∀ i j, nm i = nm j → i = j) :
    ∀ (l : List SC) (st : LoopSt),
      (∀ sc ∈ l, ∃ s, getSym sm sc.ref = some s ∧ s.name = nameOf sc.ref) →
      (l.map (·.ref)).Nodup → (l.map (fun sc => nameOf sc.ref)).Nodup →
      (∀ n, lookupC st.cache n ≠ some .other) →
      ∃ (st' : LoopSt) (news : List (Name × Nat)),
        assignLoop nm R sm l st = some st' ∧
        st'.cache = st.cache.map (· ++ newEntries nm news) ∧
        news.map (·.1) = (l.map (fun sc => nameOf sc.ref)).filter (fun n => (lookupC st.cache n).isNone) ∧
        (news.map (·.2)).Pairwise (· < ·) ∧
        (∀ k ∈ news.map (·.2), st.next ≤ k ∧ nm k ∉ R) ∧
        (∀ r, st'.out.lookup r =
          if r ∈ l.map (·.ref) then outSpec st.cache st.out news nm (nameOf r) r else st.out.lookup r) ∧
        news = genNews nm R ((l.map (fun sc => nameOf sc.ref)).filter (fun n => (lookupC st.cache n).isNone)) st.next
  | [], st, _, _, _, _ => ⟨st, [], rfl, by cases st.cache <;> simp [newEntries], rfl, List.Pairwise.nil,
      fun _ h => by simp at h, fun _ => by simp, rfl⟩
  | sc :: rest, st, H, hrefs, hnames, hO => by
    obtain ⟨s, hs, hsn⟩ := H sc (List.mem_cons_self)
    have Hrest : ∀ sc' ∈ rest, ∃ s, getSym sm sc'.ref = some s ∧ s.name = nameOf sc'.ref :=
      fun sc' h => H sc' (List.mem_cons_of_mem _ h)
    simp only [List.map_cons, List.nodup_cons] at hrefs hnames
    obtain ⟨hr1, hr2⟩ := hrefs
    obtain ⟨hn1, hn2⟩ := hnames
    rw [assignLoop_cons, hs]
    simp only [hsn]
    -- names in the tail differ from the head name
    have hne_of_mem : ∀ r, r ∈ rest.map (·.ref) → nameOf r ≠ nameOf sc.ref := by
      intro r hr e
      apply hn1
      obtain ⟨sc', hsc', rfl⟩ := List.mem_map.mp hr
      exact List.mem_map.mpr ⟨sc', hsc', e⟩
    cases hc : lookupC st.cache (nameOf sc.ref) with
    | some v =>
      cases v with
      | other => exact absurd hc (hO _)
      | keep =>
        simp only
        obtain ⟨st', news, h1, h2, h3, h4, h5, h6, h7⟩ := assignLoop_spec inj rest st Hrest hr2 hn2 hO
        refine ⟨st', news, h1, h2, ?_, h4, h5, ?_, ?_⟩
        · rw [List.map_cons, List.filter_cons]; simp [hc, h3]
        rotate_left
        · rw [h7, List.map_cons, List.filter_cons]; simp [hc]
        · intro r
          rw [h6 r]
          by_cases hr : r = sc.ref
          · subst hr
            simp [hr1, outSpec, hc]
          · simp [hr]
      | str t =>
        simp only
        obtain ⟨st', news, h1, h2, h3, h4, h5, h6, h7⟩ :=
          assignLoop_spec inj rest { st with out := mapSet st.out sc.ref t } Hrest hr2 hn2 hO
        refine ⟨st', news, h1, h2, ?_, h4, h5, ?_, ?_⟩
        · rw [List.map_cons, List.filter_cons]; simp [hc, h3]
        rotate_left
        · rw [h7, List.map_cons, List.filter_cons]; simp [hc]
        · intro r
          rw [h6 r]
          by_cases hr : r = sc.ref
          · subst hr
            simp [hr1, outSpec, hc, lookup_mapSet]
          · have hb : (r == sc.ref) = false := by simpa using hr
            have hmem : r ∈ (sc :: rest).map (·.ref) ↔ r ∈ rest.map (·.ref) := by simp [hr]
            simp only [hmem, outSpec, lookup_mapSet, hb, Bool.false_eq_true, if_false]
    | none =>
      simp only
      obtain ⟨k, hk⟩ := nextFree_isSome (R := R) inj st.next
      rw [hk]
      simp only
      have hsp := nextFree_spec hk
      obtain ⟨st', news', h1, h2, h3, h4, h5, h6, h7⟩ :=
        assignLoop_spec inj rest
          { next := k + 1, cache := st.cache.map (· ++ [(nameOf sc.ref, CVal.str (nm k))]),
            out := mapSet st.out sc.ref (nm k) } Hrest hr2 hn2 (lookupC_snoc_noOther hO)
      have hfilt : (rest.map (fun sc => nameOf sc.ref)).filter
            (fun n => (lookupC (st.cache.map (· ++ [(nameOf sc.ref, CVal.str (nm k))])) n).isNone) =
          (rest.map (fun sc => nameOf sc.ref)).filter (fun n => (lookupC st.cache n).isNone) := by
        apply List.filter_congr
        intro n' hn'
        have : n' ≠ nameOf sc.ref := fun e => hn1 (e ▸ hn')
        simp only [lookupC_snoc_ne this]
      simp only [hfilt] at h3 h7
      refine ⟨st', (nameOf sc.ref, k) :: news', h1, ?_, ?_, ?_, ?_, ?_, ?_⟩
      · rw [h2]
        cases st.cache <;> simp [newEntries, List.append_assoc]
      · simp only [List.map_cons, List.filter_cons, hc, Option.isNone_none, if_true, List.cons.injEq, true_and]
        exact h3
      rotate_right
      · simp only [List.map_cons, List.filter_cons, hc, Option.isNone_none, if_true, genNews, hk]
        rw [h7]
      · simp only [List.map_cons, List.pairwise_cons]
        refine ⟨fun k' hk' => ?_, h4⟩
        have := (h5 k' hk').1
        simp only at this
        omega
      · intro k' hk'
        simp only [List.map_cons, List.mem_cons] at hk'
        rcases hk' with rfl | hk'
        · exact hsp
        · have := h5 k' hk'
          simp only at this
          exact ⟨by omega, this.2⟩
      · intro r
        rw [h6 r]
        by_cases hr : r = sc.ref
        · subst hr
          simp [hr1, outSpec, hc, lookup_mapSet, List.lookup_cons]
        · have hb : (r == sc.ref) = false := by simpa using hr
          have hmem : r ∈ (sc :: rest).map (·.ref) ↔ r ∈ rest.map (·.ref) := by simp [hr]
          simp only [hmem, lookup_mapSet, hb, Bool.false_eq_true, if_false]
          by_cases hm : r ∈ rest.map (·.ref)
          · have hnn := hne_of_mem r hm
            have hbn : (nameOf r == nameOf sc.ref) = false := by simpa using hnn
            simp only [hm, if_true, outSpec, lookupC_snoc_ne hnn, lookup_mapSet, hb, Bool.false_eq_true, if_false,
              List.lookup_cons, hbn]
          · simp only [hm, if_false]

-- ---------------------------------------------------------------- the loop over the files, flattened

def reservedOf (fs : List File) : List Name := (fs.filter active).flatMap (·.reserved)
def freqOf : List File → List Int → List Int
  | [], a => a
  | f :: fs, a =>
    if active f then
      freqOf fs (match f.freq with
        | none => a
        | some o => includeFreq a o)
    else freqOf fs a

theorem stepFile_inactive {fuel : Nat} {a : Acc} {f : File} (h : active f = false) : stepFile fuel a f = some a := by
  unfold stepFile
  unfold active at h
  by_cases h0 : f.src = 0
  · simp [h0]
  · have : (f.src != 0) = true := by simpa using h0
    simp only [this, Bool.true_and] at h
    simp [h0, h]

theorem stepFile_active {fuel : Nat} {a : Acc} {f : File} (h : active f = true) :
    stepFile fuel a f = (mergeProps fuel f.mangled (a.merged, a.syms)).map (fun p =>
      { reserved := a.reserved ++ f.reserved, merged := p.1, syms := p.2,
        freq := match f.freq with
          | none => a.freq
          | some o => includeFreq a.freq o }) := by
  unfold stepFile
  unfold active at h
  simp only [Bool.and_eq_true, bne_iff_ne, ne_eq] at h
  simp only [h.1, if_false, h.2, Bool.not_true, Bool.false_eq_true]
  cases mergeProps fuel f.mangled (a.merged, a.syms) with
  | none => rfl
  | some p => rfl

theorem foldFiles_flat (fuel : Nat) : ∀ (fs : List File) (a : Acc),
    foldFiles fuel fs a = (mergeProps fuel (entriesOf fs) (a.merged, a.syms)).map (fun p =>
      { reserved := a.reserved ++ reservedOf fs, merged := p.1, syms := p.2, freq := freqOf fs a.freq })
  | [], a => by
    simp [foldFiles, entriesOf, reservedOf, freqOf, mergeProps]
  | f :: fs, a => by
    simp only [foldFiles]
    cases hact : active f with
    | false =>
      rw [stepFile_inactive hact]
      simp only
      rw [foldFiles_flat fuel fs a]
      simp [entriesOf, reservedOf, freqOf, List.filter_cons, hact]
    | true =>
      rw [stepFile_active hact]
      have he : entriesOf (f :: fs) = f.mangled ++ entriesOf fs := by
        simp [entriesOf, List.filter_cons, hact]
      have hr : reservedOf (f :: fs) = f.reserved ++ reservedOf fs := by
        simp [reservedOf, List.filter_cons, hact]
      rw [he, hr, mergeProps_append]
      cases mergeProps fuel f.mangled (a.merged, a.syms) with
      | none => rfl
      | some p =>
        simp only [Option.map_some, Option.bind_some]
        rw [foldFiles_flat fuel fs _]
        simp [freqOf, hact, List.append_assoc]

theorem mem_entriesOf {fs : List File} {e : Name × Ref} :
    e ∈ entriesOf fs ↔ ∃ f ∈ fs.filter active, e ∈ f.mangled := by
  simp [entriesOf, List.mem_flatMap]

theorem occurs_iff {I : Input} {n : Name} {r : Ref} : Occurs I n r ↔ (n, r) ∈ entriesOf I.reachable := by
  rw [mem_entriesOf]; rfl

/-- the name stored in a symbol (spec-level reading) -/
def nameAt (sm : SymMap) (r : Ref) : Name :=
  match getSym sm r with
  | some s => s.name
  | none => []

theorem nodup_snd_of_names {sm : SymMap} {l : List (Name × Ref)} (hk : (l.map (·.1)).Nodup)
    (hs : ∀ e ∈ l, nameAt sm e.2 = e.1) : (l.map (·.2)).Nodup := by
  have : (l.map (·.2)).map (nameAt sm) = l.map (·.1) := by
    rw [List.map_map]
    exact List.map_congr_left (fun e he => hs e he)
  exact List.Pairwise.of_map (nameAt sm) (fun a b hab e => hab (congrArg _ e)) (this ▸ hk)

theorem entriesOK_of_files {S0 : SymMap} : ∀ (fs : List File), (fs.map (·.src)).Nodup →
    (∀ f ∈ fs, (f.mangled.map (·.1)).Nodup) →
    (∀ f ∈ fs, ∀ e ∈ f.mangled, e.2.src = f.src ∧ ∃ c, getSym S0 e.2 = some ⟨e.1, none, c, false⟩) →
    EntriesOK S0 (fs.flatMap (·.mangled))
  | [], _, _, _ => ⟨by simp, fun e he => by simp at he⟩
  | f :: fs, hsrc, hkeys, hsym => by
    simp only [List.map_cons, List.nodup_cons] at hsrc
    have ih := entriesOK_of_files fs hsrc.2 (fun g hg => hkeys g (List.mem_cons_of_mem _ hg))
      (fun g hg => hsym g (List.mem_cons_of_mem _ hg))
    refine ⟨?_, ?_⟩
    · simp only [List.flatMap_cons, List.map_append, List.nodup_append]
      refine ⟨?_, ih.refsNodup, ?_⟩
      · apply nodup_snd_of_names (sm := S0) (hkeys f List.mem_cons_self)
        intro e he
        obtain ⟨c, hc⟩ := (hsym f List.mem_cons_self e he).2
        simp [nameAt, hc]
      · intro a ha b hb hab
        subst hab
        obtain ⟨e1, he1, rfl⟩ := List.mem_map.mp ha
        obtain ⟨e2, he2, h2⟩ := List.mem_map.mp hb
        obtain ⟨g, hg, he2g⟩ := List.mem_flatMap.mp he2
        have s1 := (hsym f List.mem_cons_self e1 he1).1
        have s2 := (hsym g (List.mem_cons_of_mem _ hg) e2 he2g).1
        apply hsrc.1
        have : g.src = f.src := by rw [← s2, ← s1, h2]
        exact List.mem_map.mpr ⟨g, hg, this⟩
    · intro e he
      simp only [List.flatMap_cons, List.mem_append] at he
      rcases he with he | he
      · exact (hsym f List.mem_cons_self e he).2
      · exact ih.sym e he

theorem WF.entriesOK {I : Input} (wf : WF I) : EntriesOK I.syms (entriesOf I.reachable) :=
  entriesOK_of_files (activeFiles I) wf.srcNodup wf.keysNodup wf.sym

theorem WF.entry_stable {I : Input} (wf : WF I) {e : Name × Ref} (he : e ∈ entriesOf I.reachable) :
    e.2.src < I.stable.length := by
  obtain ⟨f, hf, hef⟩ := mem_entriesOf.mp he
  rw [(wf.sym f hf e hef).1]
  exact wf.stable f hf

theorem mkArray_some {stable : List Nat} {sm : SymMap} : ∀ (mg : List (Name × Ref)),
    (∀ p ∈ mg, p.2.src < stable.length ∧ ∃ s, getSym sm p.2 = some s) →
    ∃ arr, mkArray stable sm mg = some arr ∧ arr.map (·.ref) = mg.map (·.2) ∧
      ∀ sc ∈ arr, stable[sc.ref.src]? = some sc.stable ∧ ∃ s, getSym sm sc.ref = some s ∧ sc.count = s.count
  | [], _ => ⟨[], rfl, rfl, fun _ h => by simp at h⟩
  | (n, r) :: rest, h => by
    obtain ⟨hlt, s, hs⟩ := h (n, r) List.mem_cons_self
    obtain ⟨arr, h1, h2, h3⟩ := mkArray_some rest (fun p hp => h p (List.mem_cons_of_mem _ hp))
    refine ⟨⟨stable[r.src], r, s.count⟩ :: arr, ?_, by simp [h2], ?_⟩
    · simp only [mkArray, mkSC]
      simp only at hlt
      rw [List.getElem?_eq_getElem hlt]
      simp only at hs
      simp [hs, h1]
    · intro sc hsc
      rcases List.mem_cons.mp hsc with rfl | hsc
      · simp only at hlt hs
        exact ⟨List.getElem?_eq_getElem hlt, s, hs, rfl⟩
      · exact h3 sc hsc

-- ---------------------------------------------------------------- the whole routine in closed form

/-- the name generator of the link -/
def nmOf (I : Input) : Nat → Name := Rename.name (shuffle (freqOf I.reachable zeroFreq))

theorem cacheReserved_eq : ∀ {c : Cache}, (∀ p ∈ c, p.2 ≠ CVal.other) → cacheReserved c = some (c.map target)
  | [], _ => rfl
  | (k, v) :: rest, h => by
    have ih := cacheReserved_eq (c := rest) (fun p hp => h p (List.mem_cons_of_mem _ hp))
    cases v with
    | keep => simp [cacheReserved, ih, target]
    | str s => simp [cacheReserved, ih, target]
    | other => exact absurd rfl (h (k, .other) List.mem_cons_self)

/-- everything the theorems need to know about a run -/
structure RunFacts (I : Input) (o : Output) (mg : List (Name × Ref)) (news : List (Name × Nat)) (R : List Name) :
    Prop where
  inv : MInv I.syms (entriesOf I.reachable) mg o.syms
  hR : ∀ x, x ∈ R ↔ x ∈ keywords ∨ (∃ p ∈ cacheList I, target p = x) ∨ x ∈ reservedOf I.reachable
  cache : o.cache = I.cache.map (· ++ newEntries (nmOf I) news)
  newsNodup : (news.map (·.1)).Nodup
  newsMem : ∀ n, n ∈ news.map (·.1) ↔ (n ∈ mg.map (·.1) ∧ lookupC I.cache n = none)
  newsInc : (news.map (·.2)).Pairwise (· < ·)
  newsFree : ∀ k ∈ news.map (·.2), nmOf I k ∉ R
  out : ∀ n root, (n, root) ∈ mg → o.mangled.lookup root = outSpec I.cache [] news (nmOf I) n root
  outOther : ∀ r, r ∉ mg.map (·.2) → o.mangled.lookup r = none

theorem MInv.mem_done {S0 : SymMap} {done mg : List (Name × Ref)} {sm : SymMap} (inv : MInv S0 done mg sm)
    {n : Name} {r : Ref} (h : (n, r) ∈ mg) : done.lookup n = some r := by
  rw [← inv.first]; exact mem_lookup_of_nodup inv.keys h

theorem MInv.nameAt_root {S0 : SymMap} {done mg : List (Name × Ref)} {sm : SymMap} (inv : MInv S0 done mg sm)
    {n : Name} {r : Ref} (h : (n, r) ∈ mg) : nameAt sm r = n := by
  simp [nameAt, inv.root n r (inv.mem_done h)]

theorem lookupC_noOther {I : Input} (wf : WF I) (n : Name) : lookupC I.cache n ≠ some .other := by
  cases hc : I.cache with
  | none => simp [lookupC]
  | some c =>
    simp only [lookupC]
    intro h
    exact wf.cacheVals c hc _ (lookup_some_mem h) rfl

/-- the reserved set of the link -/
def reservedAll (I : Input) : List Name := (keywords ++ (cacheList I).map target) ++ reservedOf I.reachable

/-- what is known about the intermediate values of a run -/
structure Mid (I : Input) (mg : List (Name × Ref)) (sm : SymMap) (arr : List SC) : Prop where
  inv : MInv I.syms (entriesOf I.reachable) mg sm
  refs : arr.map (·.ref) = mg.map (·.2)
  fields : ∀ sc ∈ arr, I.stable[sc.ref.src]? = some sc.stable ∧ ∃ s, getSym sm sc.ref = some s ∧ sc.count = s.count
  run : run I = (assignLoop (nmOf I) (reservedAll I) sm (sortSC arr) { next := 0, cache := I.cache, out := [] }).map
    (fun st => { mangled := st.out, cache := st.cache, syms := sm })

theorem run_unfold {I : Input} (wf : WF I) : ∃ mg sm arr, Mid I mg sm arr := by
  have e1 : cacheRes I.cache = some ((cacheList I).map target) := by
    cases hc : I.cache with
    | none => simp [cacheList, cacheRes, hc]
    | some c => simp [cacheList, cacheRes, hc, cacheReserved_eq (wf.cacheVals c hc)]
  obtain ⟨mg, sm, hm, inv⟩ := mergeProps_inv (fuel := 2 * totalSyms I.syms + 1) (entriesOf I.reachable) [] [] I.syms
    (by simpa using wf.entriesOK) (MInv.nil I.syms)
  simp only [List.nil_append] at inv
  have hm' : mergeProps (2 * totalSyms I.syms + 2) (entriesOf I.reachable) ([], I.syms) = some (mg, sm) := hm
  have hmem : ∀ p ∈ mg, (p.1, p.2) ∈ entriesOf I.reachable := fun p hp => lookup_some_mem (inv.mem_done hp)
  obtain ⟨arr, ha1, ha2, ha3⟩ := mkArray_some (stable := I.stable) (sm := sm) mg (fun p hp =>
    ⟨wf.entry_stable (hmem p hp), _, inv.root p.1 p.2 (inv.mem_done hp)⟩)
  refine ⟨mg, sm, arr, inv, ha2, ha3, ?_⟩
  unfold run
  simp only [e1, foldFiles_flat, hm', Option.map_some, ha1, nmOf, reservedAll, zeroFreq]
  cases assignLoop (Rename.name (shuffle (freqOf I.reachable (List.replicate 64 0))))
    (keywords ++ List.map target (cacheList I) ++ reservedOf I.reachable) sm (sortSC arr)
    { next := 0, cache := I.cache, out := [] } <;> rfl

theorem Mid.perm {I : Input} {mg sm arr} (m : Mid I mg sm arr) : ((sortSC arr).map (·.ref)).Perm (mg.map (·.2)) :=
  m.refs ▸ (sortSC_perm arr).map _

theorem Mid.snd_nodup {I : Input} {mg sm arr} (m : Mid I mg sm arr) : (mg.map (·.2)).Nodup :=
  nodup_snd_of_names (sm := sm) m.inv.keys (fun e he => m.inv.nameAt_root (n := e.1) (r := e.2) he)

theorem Mid.names_perm {I : Input} {mg sm arr} (m : Mid I mg sm arr) :
    ((sortSC arr).map (fun sc => nameAt sm sc.ref)).Perm (mg.map (·.1)) := by
  have h1 : (sortSC arr).map (fun sc => nameAt sm sc.ref) = ((sortSC arr).map (·.ref)).map (nameAt sm) := by
    rw [List.map_map]; rfl
  have h2 : mg.map (·.1) = (mg.map (·.2)).map (nameAt sm) := by
    rw [List.map_map]
    exact List.map_congr_left (fun e he => (m.inv.nameAt_root (n := e.1) (r := e.2) he).symm)
  rw [h1, h2]
  exact m.perm.map _

theorem Mid.sym_of_mem {I : Input} {mg sm arr} (m : Mid I mg sm arr) {sc : SC} (hsc : sc ∈ sortSC arr) :
    ∃ s, getSym sm sc.ref = some s ∧ s.name = nameAt sm sc.ref := by
  have : sc.ref ∈ mg.map (·.2) := m.perm.mem_iff.mp (List.mem_map_of_mem (f := (·.ref)) hsc)
  obtain ⟨p, hp, hpr⟩ := List.mem_map.mp this
  have hr := m.inv.root p.1 p.2 (m.inv.mem_done hp)
  rw [hpr] at hr
  exact ⟨_, hr, by simp [nameAt, hr]⟩

/-- the order in which the properties are processed, and the generated names as a function of it -/
structure OrderFacts (I : Input) (mg : List (Name × Ref)) (news : List (Name × Nat)) (names : List Name) : Prop where
  perm : names.Perm (mg.map (·.1))
  sorted : names.Pairwise (fun a b => totalOf I a ≥ totalOf I b)
  gen : news = genNews (nmOf I) (reservedAll I) (names.filter (fun n => (lookupC I.cache n).isNone)) 0

theorem run_facts_full {I : Input} (wf : WF I) : ∃ o mg news names, run I = some o ∧
    RunFacts I o mg news (reservedAll I) ∧ OrderFacts I mg news names := by
  obtain ⟨mg, sm, arr, m⟩ := run_unfold wf
  have inv := m.inv
  have hperm := m.perm
  have hnames := m.names_perm
  obtain ⟨st', news, hl, hc, hn1, hn2, hn3, hout, hgen⟩ :=
    assignLoop_spec (nm := nmOf I) (R := reservedAll I) (sm := sm)
      (nameOf := nameAt sm) (fun i j h => nm_injective _ h) (sortSC arr) { next := 0, cache := I.cache, out := [] }
      (fun sc hsc => m.sym_of_mem hsc)
      (hperm.nodup_iff.mpr m.snd_nodup) (hnames.nodup_iff.mpr inv.keys) (lookupC_noOther wf)
  refine ⟨{ mangled := st'.out, cache := st'.cache, syms := sm }, mg, news,
    (sortSC arr).map (fun sc => nameAt sm sc.ref), ?_, ?_, ?_⟩
  · rw [m.run, hl]; rfl
  · refine ⟨inv, ?_, hc, ?_, ?_, hn2, ?_, ?_, ?_⟩
    · intro x
      simp only [reservedAll, List.mem_append, List.mem_map, or_assoc]
    · rw [hn1]; exact List.Sublist.nodup List.filter_sublist (hnames.nodup_iff.mpr inv.keys)
    · intro n
      rw [hn1, List.mem_filter, hnames.mem_iff]
      simp only [Option.isNone_iff_eq_none]
    · intro k hk; exact (hn3 k hk).2
    · intro n root h
      have := hout root
      simp only at this
      rw [this, if_pos (hperm.mem_iff.mpr (List.mem_map_of_mem (f := (·.2)) h)), inv.nameAt_root h]
    · intro r hr
      have := hout r
      simp only at this
      rw [this, if_neg (fun h => hr (hperm.mem_iff.mp h))]
      rfl
  · refine ⟨hnames, ?_, hgen⟩
    rw [List.pairwise_map]
    refine List.Pairwise.imp_of_mem ?_ (sortSC_sorted arr)
    intro a b ha hb hab
    have hcount : ∀ sc ∈ sortSC arr, sc.count = totalOf I (nameAt sm sc.ref) := by
      intro sc hsc
      obtain ⟨_, s, hs, hcnt⟩ := m.fields sc ((sortSC_perm arr).mem_iff.mp hsc)
      have : sc.ref ∈ mg.map (·.2) := hperm.mem_iff.mp (List.mem_map_of_mem (f := (·.ref)) hsc)
      obtain ⟨p, hp, hpr⟩ := List.mem_map.mp this
      have hroot := inv.root p.1 p.2 (inv.mem_done hp)
      rw [hpr, hs] at hroot
      cases hroot
      simp [hcnt, nameAt, hs, totalOf]
    rw [← hcount a ha, ← hcount b hb]
    simp only [leSC, Bool.not_eq_true'] at hab
    have n1 : ¬ (less b a = true) := by simp [hab]
    rw [less_iff] at n1
    omega

theorem run_facts {I : Input} (wf : WF I) : ∃ o mg news R, run I = some o ∧ RunFacts I o mg news R := by
  obtain ⟨o, mg, news, _, h, F, _⟩ := run_facts_full wf
  exact ⟨o, mg, news, _, h, F⟩

-- ---------------------------------------------------------------- what the printer prints

/-- the new name of property `n` in closed form -/
def finalName (I : Input) (news : List (Name × Nat)) (n : Name) : Name :=
  match lookupC I.cache n with
  | some (.str s) => s
  | some _ => n
  | none =>
    match news.lookup n with
    | some k => nmOf I k
    | none => n

theorem mem_keys_of_lookup {α β : Type} [BEq α] [LawfulBEq α] {l : List (α × β)} {k : α} (h : k ∈ l.map (·.1)) :
    ∃ v, l.lookup k = some v := by
  cases hl : l.lookup k with
  | some v => exact ⟨v, rfl⟩
  | none => exact absurd h (lookup_none_iff.mp hl)

theorem RunFacts.mem_mg_iff {I : Input} {o mg news R} (F : RunFacts I o mg news R) {n : Name} :
    n ∈ mg.map (·.1) ↔ ∃ r, Occurs I n r := by
  constructor
  · intro h
    obtain ⟨r, hr⟩ := mem_keys_of_lookup h
    exact ⟨r, occurs_iff.mpr (lookup_some_mem (F.inv.first n ▸ hr))⟩
  · rintro ⟨r, hr⟩
    have : n ∈ (entriesOf I.reachable).map (·.1) := List.mem_map_of_mem (f := (·.1)) (occurs_iff.mp hr)
    obtain ⟨v, hv⟩ := mem_keys_of_lookup this
    exact List.mem_map_of_mem (f := (·.1)) (lookup_some_mem ((F.inv.first n).symm ▸ hv))

theorem RunFacts.printerName_occurs {I : Input} {o mg news R} (F : RunFacts I o mg news R) {n : Name} {r : Ref}
    (h : Occurs I n r) : printerName o r = some (finalName I news n) := by
  obtain ⟨root, h1, h2⟩ := F.inv.linked (n, r) (occurs_iff.mp h)
  simp only at h1 h2
  have hroot := F.inv.root n root h1
  have hmg : (n, root) ∈ mg := lookup_some_mem ((F.inv.first n).symm ▸ h1)
  have hpos := totalSyms_pos hroot
  obtain ⟨t, ht⟩ : ∃ t, totalSyms o.syms = t + 1 := ⟨totalSyms o.syms - 1, by omega⟩
  have hfollow : follow (totalSyms o.syms + 1) o.syms r = some root := by
    rw [ht]
    rcases h2 with rfl | ⟨c, h2⟩
    · simp [follow, hroot]
    · simp [follow, h2, hroot]
  unfold printerName
  rw [hfollow]
  simp only
  rw [F.out n root hmg]
  unfold outSpec finalName
  cases hc : lookupC I.cache n with
  | some v =>
    cases v with
    | keep => simp [hroot]
    | str s => simp
    | other => simp [hroot]
  | none =>
    simp only
    have : n ∈ news.map (·.1) := (F.newsMem n).mpr ⟨List.mem_map_of_mem (f := (·.1)) hmg, hc⟩
    obtain ⟨k, hk⟩ := mem_keys_of_lookup this
    simp [hk]

theorem lookupC_mem {I : Input} {n : Name} {v : CVal} (h : lookupC I.cache n = some v) : (n, v) ∈ cacheList I := by
  unfold lookupC at h
  unfold cacheList
  cases hc : I.cache with
  | none => simp [hc] at h
  | some c => simp only [hc] at h ⊢; exact lookup_some_mem h

theorem RunFacts.finalName_cases {I : Input} {o mg news R} (F : RunFacts I o mg news R) {n : Name}
    (hn : n ∈ mg.map (·.1)) :
    (∃ v, lookupC I.cache n = some v ∧ (n, v) ∈ cacheList I ∧ finalName I news n = target (n, v)) ∨
    (lookupC I.cache n = none ∧ ∃ k, (n, k) ∈ news ∧ finalName I news n = nmOf I k) := by
  cases hc : lookupC I.cache n with
  | some v =>
    refine Or.inl ⟨v, rfl, lookupC_mem hc, ?_⟩
    unfold finalName target
    rw [hc]
    cases v <;> rfl
  | none =>
    refine Or.inr ⟨rfl, ?_⟩
    obtain ⟨k, hk⟩ := mem_keys_of_lookup ((F.newsMem n).mpr ⟨hn, hc⟩)
    refine ⟨k, lookup_some_mem hk, ?_⟩
    unfold finalName
    rw [hc]
    simp [hk]

theorem RunFacts.ks_nodup {I : Input} {o mg news R} (F : RunFacts I o mg news R) : (news.map (·.2)).Nodup :=
  F.newsInc.imp (fun h => Nat.ne_of_lt h)

/-- a freshly generated name differs from the new name of every other property -/
theorem RunFacts.fresh_ne {I : Input} {o mg news R} (F : RunFacts I o mg news R) {n n' : Name} {k : Nat}
    (hk : (n, k) ∈ news) (hn' : n' ∈ mg.map (·.1)) (hne : n' ≠ n) : finalName I news n' ≠ nmOf I k := by
  have hfree := F.newsFree k (List.mem_map_of_mem (f := (·.2)) hk)
  rcases F.finalName_cases hn' with ⟨v, _, hv, he⟩ | ⟨_, k', hk', he⟩
  · rw [he]
    intro e
    exact hfree ((F.hR _).mpr (Or.inr (Or.inl ⟨_, hv, e⟩)))
  · rw [he]
    intro e
    have : k' = k := nm_injective _ e
    subst this
    exact hne (name_eq_of_same_ref F.ks_nodup hk' hk)

theorem RunFacts.finalName_ne {I : Input} {o mg news R} (F : RunFacts I o mg news R)
    (hci : CacheInj (cacheList I)) {n1 n2 : Name} (h1 : n1 ∈ mg.map (·.1)) (h2 : n2 ∈ mg.map (·.1)) (hne : n1 ≠ n2) :
    finalName I news n1 ≠ finalName I news n2 := by
  rcases F.finalName_cases h1 with ⟨v1, _, hv1, he1⟩ | ⟨_, k1, hk1, he1⟩
  · rcases F.finalName_cases h2 with ⟨v2, _, hv2, he2⟩ | ⟨_, k2, hk2, he2⟩
    · rw [he1, he2]
      exact hci _ hv1 _ hv2 hne
    · rw [he2]
      exact F.fresh_ne hk2 h1 hne
  · rw [he1]
    exact (F.fresh_ne hk1 h2 (Ne.symm hne)).symm

-- ---------------------------------------------------------------- independence of map iteration order

theorem lookup_perm_of_nodup {α β : Type} [BEq α] [LawfulBEq α] {l l' : List (α × β)} (hp : l.Perm l')
    (hn : (l.map (·.1)).Nodup) (k : α) : l.lookup k = l'.lookup k := by
  have hn' : (l'.map (·.1)).Nodup := (hp.map _).nodup_iff.mp hn
  cases h : l.lookup k with
  | some v => exact (mem_lookup_of_nodup hn' (hp.mem_iff.mp (lookup_some_mem h))).symm
  | none =>
    have : k ∉ l'.map (·.1) := fun hm => (lookup_none_iff.mp h) ((hp.map _).mem_iff.mpr hm)
    exact (lookup_none_iff.mpr this).symm

theorem refsOf_append (n : Name) (l1 l2 : List (Name × Ref)) : refsOf n (l1 ++ l2) = refsOf n l1 ++ refsOf n l2 := by
  simp [refsOf, List.filter_append]

theorem refsOf_eq_lookup {n : Name} : ∀ {l : List (Name × Ref)}, (l.map (·.1)).Nodup →
    refsOf n l = match l.lookup n with
      | some r => [r]
      | none => []
  | [], _ => rfl
  | (a, b) :: l, hn => by
    simp only [List.map_cons, List.nodup_cons] at hn
    have ih := refsOf_eq_lookup (n := n) hn.2
    simp only [List.lookup_cons]
    cases hk : n == a with
    | true =>
      have e : n = a := by simpa using hk
      subst e
      have : l.lookup n = none := lookup_none_iff.mpr hn.1
      have h0 := refsOf_nil_of_lookup_none this
      unfold refsOf at h0 ⊢
      simp [List.filter_cons, h0]
    | false =>
      unfold refsOf at ih ⊢
      simp only [List.filter_cons, hk, Bool.false_eq_true, if_false]
      exact ih

theorem active_congr {f g : File} (h : FileEquiv f g) : active f = active g := by
  unfold active; rw [h.src, h.isJS]

theorem entries_congr : ∀ {fs gs : List File}, FilesEquiv fs gs →
    (∀ f ∈ fs.filter active, (f.mangled.map (·.1)).Nodup) →
    ∀ n, (entriesOf fs).lookup n = (entriesOf gs).lookup n ∧ refsOf n (entriesOf fs) = refsOf n (entriesOf gs)
  | [], [], _, _, _ => ⟨rfl, rfl⟩
  | f :: fs, g :: gs, .cons hfg hrest, hk, n => by
    cases hact : active f with
    | false =>
      have hactg : active g = false := (active_congr hfg) ▸ hact
      have e1 : entriesOf (f :: fs) = entriesOf fs := by simp [entriesOf, List.filter_cons, hact]
      have e2 : entriesOf (g :: gs) = entriesOf gs := by simp [entriesOf, List.filter_cons, hactg]
      rw [e1, e2]
      exact entries_congr hrest (fun f' hf' => hk f' (by simp [List.filter_cons, hact, hf'])) n
    | true =>
      have hactg : active g = true := (active_congr hfg) ▸ hact
      have e1 : entriesOf (f :: fs) = f.mangled ++ entriesOf fs := by simp [entriesOf, List.filter_cons, hact]
      have e2 : entriesOf (g :: gs) = g.mangled ++ entriesOf gs := by simp [entriesOf, List.filter_cons, hactg]
      have hkf : (f.mangled.map (·.1)).Nodup := hk f (by simp [List.filter_cons, hact])
      have hkg : (g.mangled.map (·.1)).Nodup := (hfg.mangled.map _).nodup_iff.mp hkf
      have ih := entries_congr hrest (fun f' hf' => hk f' (by simp [List.filter_cons, hact, hf'])) n
      rw [e1, e2, List.lookup_append, List.lookup_append, refsOf_append, refsOf_append, ih.1, ih.2,
        refsOf_eq_lookup hkf, refsOf_eq_lookup hkg, lookup_perm_of_nodup hfg.mangled hkf n]
      exact ⟨rfl, rfl⟩

theorem reservedOf_perm : ∀ {fs gs : List File}, FilesEquiv fs gs → (reservedOf fs).Perm (reservedOf gs)
  | [], [], _ => List.Perm.refl _
  | f :: fs, g :: gs, .cons hfg hrest => by
    have ih := reservedOf_perm hrest
    cases hact : active f with
    | false =>
      have hactg : active g = false := (active_congr hfg) ▸ hact
      simpa [reservedOf, List.filter_cons, hact, hactg] using ih
    | true =>
      have hactg : active g = true := (active_congr hfg) ▸ hact
      have e1 : reservedOf (f :: fs) = f.reserved ++ reservedOf fs := by simp [reservedOf, List.filter_cons, hact]
      have e2 : reservedOf (g :: gs) = g.reserved ++ reservedOf gs := by simp [reservedOf, List.filter_cons, hactg]
      rw [e1, e2]
      exact hfg.reserved.append ih

theorem freqOf_congr : ∀ {fs gs : List File}, FilesEquiv fs gs → ∀ a, freqOf fs a = freqOf gs a
  | [], [], _, _ => rfl
  | f :: fs, g :: gs, .cons hfg hrest, a => by
    simp only [freqOf, active_congr hfg, hfg.freq]
    split
    · exact freqOf_congr hrest _
    · exact freqOf_congr hrest _

/-- what the rest of the assignment loop can see of its state -/
def proj (st : LoopSt) : Nat × List (Ref × Name) × Bool × (Name → Option CVal) :=
  (st.next, st.out, st.cache.isSome, fun k => lookupC st.cache k)

theorem lookupC_snoc (c : Option Cache) (n k : Name) (v : CVal) :
    lookupC (c.map (· ++ [(n, v)])) k = match lookupC c k with
      | some x => some x
      | none => if (c.isSome && k == n) = true then some v else none := by
  cases c with
  | none => rfl
  | some c =>
    simp only [Option.map_some, lookupC, Option.isSome_some, Bool.true_and]
    rw [lookup_append_single]
    cases List.lookup k c <;> rfl

theorem proj_snoc {st st2 : LoopSt} (h : proj st = proj st2) (r : Ref) (n x : Name) (k : Nat) :
    proj { next := k + 1, cache := st.cache.map (· ++ [(n, CVal.str x)]), out := mapSet st.out r x } =
    proj { next := k + 1, cache := st2.cache.map (· ++ [(n, CVal.str x)]), out := mapSet st2.out r x } := by
  have hout : st.out = st2.out := congrArg (·.2.1) h
  have hsome : st.cache.isSome = st2.cache.isSome := congrArg (·.2.2.1) h
  have hlook : ∀ k, lookupC st.cache k = lookupC st2.cache k := fun k => congrFun (congrArg (·.2.2.2) h) k
  unfold proj
  simp only [hout, Option.isSome_map, hsome, Prod.mk.injEq, true_and]
  funext k'
  rw [lookupC_snoc, lookupC_snoc, hlook, hsome]

theorem assignLoop_congr {nm : Nat → Name} {R R' : List Name} {sm sm' : SymMap} (hR : ∀ x, x ∈ R ↔ x ∈ R')
    (hlen : R.length = R'.length) :
    ∀ (l : List SC) (st st2 : LoopSt),
      (∀ sc ∈ l, (getSym sm sc.ref).map (·.name) = (getSym sm' sc.ref).map (·.name)) → proj st = proj st2 →
      (assignLoop nm R sm l st).map proj = (assignLoop nm R' sm' l st2).map proj
  | [], st, st2, _, h => by simp [assignLoop, h]
  | sc :: rest, st, st2, H, h => by
    have Hrest : ∀ sc' ∈ rest, (getSym sm sc'.ref).map (·.name) = (getSym sm' sc'.ref).map (·.name) :=
      fun sc' hs => H sc' (List.mem_cons_of_mem _ hs)
    have hname := H sc List.mem_cons_self
    have hnext : st.next = st2.next := congrArg (·.1) h
    have hout : st.out = st2.out := congrArg (·.2.1) h
    have hlook : ∀ k, lookupC st.cache k = lookupC st2.cache k := fun k => congrFun (congrArg (·.2.2.2) h) k
    rw [assignLoop_cons, assignLoop_cons]
    cases h1 : getSym sm sc.ref with
    | none =>
      cases h2 : getSym sm' sc.ref with
      | none => rfl
      | some s' => simp [h1, h2] at hname
    | some s =>
      cases h2 : getSym sm' sc.ref with
      | none => simp [h1, h2] at hname
      | some s' =>
        have hn : s.name = s'.name := by simpa [h1, h2] using hname
        simp only
        rw [← hn, ← hlook]
        cases hc : lookupC st.cache s.name with
        | some v =>
          cases v with
          | keep => exact assignLoop_congr hR hlen rest st st2 Hrest h
          | other => rfl
          | str t =>
            simp only
            apply assignLoop_congr hR hlen rest _ _ Hrest
            have hsome : st.cache.isSome = st2.cache.isSome := congrArg (·.2.2.1) h
            unfold proj
            simp only [hout, hnext, hsome, Prod.mk.injEq, true_and]
            funext k'
            exact hlook k'
        | none =>
          simp only
          rw [← hlen, ← hnext, ← nextFree_congr hR]
          cases nextFree R nm (R.length + 1) st.next with
          | none => rfl
          | some k =>
            simp only
            exact assignLoop_congr hR hlen rest _ _ Hrest (proj_snoc h _ _ _ _)

theorem nodup_of_keys {α β : Type} {l : List (α × β)} (h : (l.map (·.1)).Nodup) : l.Nodup :=
  List.Pairwise.of_map (·.1) (fun _ _ hab e => hab (congrArg _ e)) h

/-- the sort key of a representative, read off the input -/
def scOf (I : Input) (r : Ref) : SC :=
  ⟨(I.stable[r.src]?).getD 0, r, total I.syms (refsOf (nameAt I.syms r) (entriesOf I.reachable))⟩

theorem Mid.arr_eq {I : Input} {mg sm arr} (wf : WF I) (m : Mid I mg sm arr) : arr = (mg.map (·.2)).map (scOf I) := by
  have hall : ∀ sc ∈ arr, scOf I sc.ref = sc := by
    intro sc hsc
    obtain ⟨hst, s, hs, hcount⟩ := m.fields sc hsc
    have : sc.ref ∈ mg.map (·.2) := m.refs ▸ List.mem_map_of_mem (f := (·.ref)) hsc
    obtain ⟨p, hp, hpr⟩ := List.mem_map.mp this
    have hdone := m.inv.mem_done (n := p.1) (r := p.2) hp
    have hroot := m.inv.root p.1 p.2 hdone
    rw [hpr] at hroot
    obtain ⟨c, hc⟩ := wf.entriesOK.sym (p.1, p.2) (lookup_some_mem hdone)
    simp only [hpr] at hc
    have hname : nameAt I.syms sc.ref = p.1 := by simp [nameAt, hc]
    rw [hs] at hroot
    cases hroot
    cases sc
    simp only [scOf, SC.mk.injEq, true_and] at *
    simp [hst, hname, hcount]
  calc arr = arr.map (fun sc => scOf I sc.ref) := by
          conv => lhs; rw [← List.map_id arr]
          exact List.map_congr_left (fun sc hsc => (hall sc hsc).symm)
    _ = (arr.map (·.ref)).map (scOf I) := by rw [List.map_map]; rfl
    _ = (mg.map (·.2)).map (scOf I) := by rw [m.refs]

theorem FilesEquiv.filter_active : ∀ {fs gs : List File}, FilesEquiv fs gs →
    FilesEquiv (fs.filter active) (gs.filter active)
  | [], [], _ => .nil
  | f :: fs, g :: gs, .cons hfg hrest => by
    have ih := FilesEquiv.filter_active hrest
    cases hact : active f with
    | false =>
      have hactg : active g = false := (active_congr hfg) ▸ hact
      simpa [List.filter_cons, hact, hactg] using ih
    | true =>
      have hactg : active g = true := (active_congr hfg) ▸ hact
      simpa [List.filter_cons, hact, hactg] using FilesEquiv.cons hfg ih

theorem FilesEquiv.map_src : ∀ {fs gs : List File}, FilesEquiv fs gs → fs.map (·.src) = gs.map (·.src)
  | [], [], _ => rfl
  | f :: fs, g :: gs, .cons hfg hrest => by simp [hfg.src, FilesEquiv.map_src hrest]

theorem FilesEquiv.exists_left : ∀ {fs gs : List File}, FilesEquiv fs gs → ∀ {g : File}, g ∈ gs →
    ∃ f ∈ fs, FileEquiv f g
  | [], [], _, _, h => by simp at h
  | f :: fs, g' :: gs, .cons hfg hrest, g, h => by
    rcases List.mem_cons.mp h with rfl | h
    · exact ⟨f, List.mem_cons_self, hfg⟩
    · obtain ⟨f', hf', he⟩ := FilesEquiv.exists_left hrest h
      exact ⟨f', List.mem_cons_of_mem _ hf', he⟩

theorem WF.transfer {I J : Input} (wf : WF I) (e : MapOrderEquiv I J) : WF J := by
  have hact : FilesEquiv (activeFiles I) (activeFiles J) := e.files.filter_active
  refine ⟨?_, ?_, ?_, ?_, ?_, ?_⟩
  · rw [← hact.map_src]; exact wf.srcNodup
  · intro g hg
    obtain ⟨f, hf, hfg⟩ := hact.exists_left hg
    exact (hfg.mangled.map _).nodup_iff.mp (wf.keysNodup f hf)
  · intro g hg en hen
    obtain ⟨f, hf, hfg⟩ := hact.exists_left hg
    have := wf.sym f hf en (hfg.mangled.mem_iff.mpr hen)
    rw [← e.syms, ← hfg.src]
    exact this
  · intro g hg
    obtain ⟨f, hf, hfg⟩ := hact.exists_left hg
    rw [← e.stable, ← hfg.src]
    exact wf.stable f hf
  · intro d hd
    have hc := e.cache
    rw [hd] at hc
    cases hci : I.cache with
    | none => simp [hci, cachePerm] at hc
    | some c =>
      simp only [hci, cachePerm] at hc
      exact (hc.map _).nodup_iff.mp (wf.cacheKeys c hci)
  · intro d hd p hp
    have hc := e.cache
    rw [hd] at hc
    cases hci : I.cache with
    | none => simp [hci, cachePerm] at hc
    | some c =>
      simp only [hci, cachePerm] at hc
      exact wf.cacheVals c hci p (hc.mem_iff.mpr hp)

theorem RunFacts.printerName_table {I : Input} {o mg news R} (F : RunFacts I o mg news R) {n : Name} {r : Ref}
    (h : Occurs I n r) : ∃ root, (entriesOf I.reachable).lookup n = some root ∧
      printerName o r = some (match o.mangled.lookup root with
        | some x => x
        | none => n) := by
  obtain ⟨root, h1, h2⟩ := F.inv.linked (n, r) (occurs_iff.mp h)
  simp only at h1 h2
  have hroot := F.inv.root n root h1
  have hpos := totalSyms_pos hroot
  obtain ⟨t, ht⟩ : ∃ t, totalSyms o.syms = t + 1 := ⟨totalSyms o.syms - 1, by omega⟩
  have hfollow : follow (totalSyms o.syms + 1) o.syms r = some root := by
    rw [ht]
    rcases h2 with rfl | ⟨c, h2⟩
    · simp [follow, hroot]
    · simp [follow, h2, hroot]
  refine ⟨root, h1, ?_⟩
  unfold printerName
  rw [hfollow]
  simp only
  cases o.mangled.lookup root with
  | some x => rfl
  | none => simp [hroot]

theorem cacheList_perm {I J : Input} (e : MapOrderEquiv I J) : (cacheList I).Perm (cacheList J) := by
  have hc := e.cache
  unfold cacheList
  cases hi : I.cache <;> cases hj : J.cache <;> simp only [hi, hj, cachePerm] at hc ⊢
  · exact List.Perm.refl _
  · exact hc

theorem lookupC_perm {I J : Input} (wf : WF I) (e : MapOrderEquiv I J) (k : Name) :
    lookupC I.cache k = lookupC J.cache k ∧ I.cache.isSome = J.cache.isSome := by
  have hc := e.cache
  cases hi : I.cache <;> cases hj : J.cache <;> simp only [hi, hj, cachePerm] at hc
  · exact ⟨rfl, rfl⟩
  · exact ⟨lookup_perm_of_nodup hc (wf.cacheKeys _ hi) k, rfl⟩

theorem reservedAll_perm {I J : Input} (e : MapOrderEquiv I J) : (reservedAll I).Perm (reservedAll J) := by
  unfold reservedAll
  exact ((List.Perm.refl _).append ((cacheList_perm e).map _)).append (reservedOf_perm e.files)

/-- two links that differ only in the order in which their Go maps are traversed: same table, same cache -/
theorem run_congr {I J : Input} (wf : WF I) (hinj : StableInj I) (e : MapOrderEquiv I J) {o o' : Output}
    (h : run I = some o) (h' : run J = some o') :
    o.mangled = o'.mangled ∧ o.cache.isSome = o'.cache.isSome ∧ ∀ k, lookupC o.cache k = lookupC o'.cache k := by
  have wfJ := wf.transfer e
  obtain ⟨mg, sm, arr, m⟩ := run_unfold wf
  obtain ⟨mg', sm', arr', m'⟩ := run_unfold wfJ
  have hE := entries_congr e.files wf.keysNodup
  -- the merged tables are permutations of each other
  have hmgmem : ∀ p, p ∈ mg ↔ p ∈ mg' := by
    intro p
    constructor
    · intro hp
      have := m.inv.mem_done (n := p.1) (r := p.2) hp
      rw [(hE p.1).1, ← m'.inv.first] at this
      exact lookup_some_mem this
    · intro hp
      have := m'.inv.mem_done (n := p.1) (r := p.2) hp
      rw [← (hE p.1).1, ← m.inv.first] at this
      exact lookup_some_mem this
  have hmg : mg.Perm mg' := (List.perm_ext_iff_of_nodup (nodup_of_keys m.inv.keys) (nodup_of_keys m'.inv.keys)).mpr hmgmem
  -- the arrays are permutations of each other
  have hsc : scOf I = scOf J := by
    funext r
    unfold scOf
    rw [← e.stable, ← e.syms, (hE _).2]
  have harr : arr.Perm arr' := by
    rw [m.arr_eq wf, m'.arr_eq wfJ, hsc]
    exact (hmg.map _).map _
  -- hence the sorted arrays are equal
  have hsorted : sortSC arr = sortSC arr' := by
    apply List.Perm.eq_of_pairwise (le := fun a b => leSC a b = true) ?_ (sortSC_sorted arr) (sortSC_sorted arr')
    · exact ((sortSC_perm arr).trans harr).trans (sortSC_perm arr').symm
    · intro a b ha hb hab hba
      simp only [leSC, Bool.not_eq_true'] at hab hba
      obtain ⟨hcnt, hst, hin⟩ := notLess_eq hba hab
      have ha' := (m.fields a ((sortSC_perm arr).mem_iff.mp ha)).1
      have hb' := (m'.fields b ((sortSC_perm arr').mem_iff.mp hb)).1
      rw [← e.stable, ← hst] at hb'
      have hsrc : a.ref.src = b.ref.src := hinj _ _ _ ha' hb'
      cases a with
      | mk sa ra ca =>
        cases b with
        | mk sb rb cb =>
          cases ra; cases rb
          simp only at hcnt hst hin hsrc
          simp [hcnt, hst, hin, hsrc]
  -- the loop sees the same things
  have hR := reservedAll_perm e
  have hnm : nmOf I = nmOf J := by
    unfold nmOf; rw [freqOf_congr e.files]
  have hnames : ∀ sc ∈ sortSC arr, (getSym sm sc.ref).map (·.name) = (getSym sm' sc.ref).map (·.name) := by
    intro sc hsc
    have : sc.ref ∈ mg.map (·.2) := m.perm.mem_iff.mp (List.mem_map_of_mem (f := (·.ref)) hsc)
    obtain ⟨p, hp, hpr⟩ := List.mem_map.mp this
    have h1 := m.inv.root p.1 p.2 (m.inv.mem_done hp)
    have h2 := m'.inv.root p.1 p.2 (m'.inv.mem_done ((hmgmem p).mp hp))
    rw [hpr] at h1 h2
    rw [h1, h2]
    rfl
  have hproj : proj { next := 0, cache := I.cache, out := [] } = proj { next := 0, cache := J.cache, out := [] } := by
    unfold proj
    simp only [(lookupC_perm wf e []).2, Prod.mk.injEq, true_and]
    funext k
    exact (lookupC_perm wf e k).1
  have hloop := assignLoop_congr (nm := nmOf I) (sm := sm) (sm' := sm') (fun x => hR.mem_iff) hR.length_eq
    (sortSC arr) _ _ hnames hproj
  rw [m.run] at h
  rw [m'.run, ← hnm, ← hsorted] at h'
  cases h1 : assignLoop (nmOf I) (reservedAll I) sm (sortSC arr) { next := 0, cache := I.cache, out := [] } with
  | none => simp [h1] at h
  | some st =>
    cases h2 : assignLoop (nmOf I) (reservedAll J) sm' (sortSC arr) { next := 0, cache := J.cache, out := [] } with
    | none => simp [h2] at h'
    | some st2 =>
      simp only [h1, Option.map_some, Option.some.injEq] at h
      simp only [h2, Option.map_some, Option.some.injEq] at h'
      rw [h1, h2] at hloop
      simp only [Option.map_some, Option.some.injEq] at hloop
      subst h; subst h'
      exact ⟨congrArg (·.2.1) hloop, congrArg (·.2.2.1) hloop, fun k => congrFun (congrArg (·.2.2.2) hloop) k⟩

theorem FilesEquiv.exists_right : ∀ {fs gs : List File}, FilesEquiv fs gs → ∀ {f : File}, f ∈ fs →
    ∃ g ∈ gs, FileEquiv f g
  | [], [], _, _, h => by simp at h
  | f' :: fs, g :: gs, .cons hfg hrest, f, h => by
    rcases List.mem_cons.mp h with rfl | h
    · exact ⟨g, List.mem_cons_self, hfg⟩
    · obtain ⟨g', hg', he⟩ := FilesEquiv.exists_right hrest h
      exact ⟨g', List.mem_cons_of_mem _ hg', he⟩

theorem occurs_transfer {I J : Input} (e : MapOrderEquiv I J) {n : Name} {r : Ref} (h : Occurs I n r) : Occurs J n r := by
  obtain ⟨f, hf, hm⟩ := h
  obtain ⟨g, hg, hfg⟩ := (e.files.filter_active).exists_right hf
  exact ⟨g, hg, hfg.mangled.mem_iff.mp hm⟩

-- ---------------------------------------------------------------- a decidable form of WF (for examples)

def symOK (S : SymMap) (src : Nat) (e : Name × Ref) : Bool :=
  e.2.src == src && match getSym S e.2 with
    | some s => s.name == e.1 && s.link == none && !s.pinned
    | none => false

def wfB (I : Input) : Bool :=
  decide ((activeFiles I).map (·.src)).Nodup &&
  (activeFiles I).all (fun f => decide (f.mangled.map (·.1)).Nodup && f.mangled.all (symOK I.syms f.src) &&
    decide (f.src < I.stable.length)) &&
  match I.cache with
  | none => true
  | some c => decide (c.map (·.1)).Nodup && c.all (fun p => p.2 != CVal.other)

theorem WF_of_wfB {I : Input} (h : wfB I = true) : WF I := by
  unfold wfB at h
  simp only [Bool.and_eq_true, decide_eq_true_eq, List.all_eq_true] at h
  obtain ⟨⟨h1, h2⟩, h3⟩ := h
  refine ⟨h1, fun f hf => (h2 f hf).1.1, ?_, fun f hf => (h2 f hf).2, ?_, ?_⟩
  · intro f hf e he
    have := (h2 f hf).1.2 e he
    unfold symOK at this
    simp only [Bool.and_eq_true, beq_iff_eq] at this
    refine ⟨this.1, ?_⟩
    cases hs : getSym I.syms e.2 with
    | none => simp [hs] at this
    | some s =>
      simp only [hs, Bool.and_eq_true, beq_iff_eq, Bool.not_eq_true'] at this
      obtain ⟨_, ⟨hn, hl⟩, hp⟩ := this
      refine ⟨s.count, ?_⟩
      cases s
      simp_all
  · intro c hc
    simp only [hc, Bool.and_eq_true, decide_eq_true_eq] at h3
    exact h3.1
  · intro c hc p hp
    simp only [hc, Bool.and_eq_true, decide_eq_true_eq, List.all_eq_true, bne_iff_ne, ne_eq] at h3
    exact h3.2 p hp

-- ---------------------------------------------------------------- independence of file order (no ties)

theorem foldl_mod_sum (f : Ref → Nat) : ∀ (rs : List Ref) (a : Nat), rs ≠ [] →
    rs.foldl (fun acc x => (acc + f x) % u32) a = (a + (rs.map f).sum) % u32
  | [], _, h => absurd rfl h
  | [x], a, _ => by simp
  | x :: y :: rs, a, _ => by
    rw [List.foldl_cons, foldl_mod_sum f (y :: rs) _ (by simp)]
    simp only [List.map_cons, List.sum_cons]
    unfold u32
    omega

theorem sum_perm {l l' : List Nat} (h : l.Perm l') : l.sum = l'.sum := by
  induction h with
  | nil => rfl
  | cons _ _ ih => simp [ih]
  | swap a b l => simp only [List.sum_cons]; omega
  | trans _ _ ih1 ih2 => exact ih1.trans ih2

theorem total_perm (S0 : SymMap) {rs rs' : List Ref} (h : rs.Perm rs') : total S0 rs = total S0 rs' := by
  cases rs with
  | nil => rw [List.Perm.nil_eq h]
  | cons r rs =>
    cases rs' with
    | nil => exact absurd h.symm.nil_eq (by simp)
    | cons r' rs' =>
      cases rs with
      | nil =>
        have hl := h.length_eq
        cases rs' with
        | nil =>
          have := h.mem_iff (a := r)
          simp only [List.mem_singleton, true_iff] at this
          rw [this]
        | cons _ _ => simp at hl
      | cons x rs =>
        cases rs' with
        | nil => have := h.length_eq; simp at this
        | cons x' rs' =>
          simp only [total]
          rw [foldl_mod_sum (cnt S0) (x :: rs) _ (by simp), foldl_mod_sum (cnt S0) (x' :: rs') _ (by simp)]
          have := sum_perm (h.map (cnt S0))
          simp only [List.map_cons, List.sum_cons] at this ⊢
          rw [this]

theorem entriesOf_perm {fs gs : List File} (h : fs.Perm gs) : (entriesOf fs).Perm (entriesOf gs) :=
  List.Perm.flatMap_right _ (h.filter _)

theorem reservedOf_perm' {fs gs : List File} (h : fs.Perm gs) : (reservedOf fs).Perm (reservedOf gs) :=
  List.Perm.flatMap_right _ (h.filter _)

theorem getD_includeFreq (a b : List Int) {i : Nat} (h : i < 64) :
    (includeFreq a b).getD i 0 = wrap32 (a.getD i 0 + b.getD i 0) := by
  simp [includeFreq, List.getD_eq_getElem?_getD, List.getElem?_map, List.getElem?_range, h]

theorem includeFreq_comm (a x y : List Int) : includeFreq (includeFreq a x) y = includeFreq (includeFreq a y) x := by
  unfold includeFreq
  apply List.map_congr_left
  intro i hi
  have hi' : i < 64 := List.mem_range.mp hi
  have h1 := getD_includeFreq a x hi'
  have h2 := getD_includeFreq a y hi'
  unfold includeFreq at h1 h2
  rw [h1, h2]
  unfold wrap32
  omega

theorem freqOf_perm {fs gs : List File} (h : fs.Perm gs) : ∀ a, freqOf fs a = freqOf gs a := by
  induction h with
  | nil => intro a; rfl
  | cons f _ ih => intro a; simp only [freqOf]; split <;> exact ih _
  | swap f g l =>
    intro a
    simp only [freqOf]
    cases active f <;> cases active g <;> simp only [if_true, if_false, Bool.false_eq_true]
    cases f.freq <;> cases g.freq <;> simp only
    rw [includeFreq_comm]
  | trans _ _ ih1 ih2 => intro a; exact (ih1 a).trans (ih2 a)

theorem genNews_congr {nm : Nat → Name} {R R' : List Name} (hm : ∀ x, x ∈ R ↔ x ∈ R') (hl : R.length = R'.length) :
    ∀ (names : List Name) (next : Nat), genNews nm R names next = genNews nm R' names next
  | [], _ => rfl
  | n :: ns, next => by
    simp only [genNews]
    rw [← hl, ← nextFree_congr hm]
    cases nextFree R nm (R.length + 1) next with
    | none => rfl
    | some k => simp only; rw [genNews_congr hm hl ns (k + 1)]

theorem occurs_perm {I J : Input} (e : FileOrderEquiv I J) {n : Name} {r : Ref} : Occurs I n r ↔ Occurs J n r := by
  rw [occurs_iff, occurs_iff]
  exact (entriesOf_perm e.files).mem_iff

theorem totalOf_perm {I J : Input} (e : FileOrderEquiv I J) (n : Name) : totalOf I n = totalOf J n := by
  unfold totalOf refsOf
  rw [← e.syms]
  exact total_perm _ (((entriesOf_perm e.files).filter _).map _)

/-- two links that differ only in the order of their files (and in their stable indices), no two properties with
the same merged use count: same names for all properties, same cache -/
theorem run_congr_files {I J : Input} (wfI : WF I) (wfJ : WF J) (e : FileOrderEquiv I J) (nt : NoTies I)
    {o o' : Output} (h : run I = some o) (h' : run J = some o') :
    o.cache = o'.cache ∧ ∀ n r, Occurs I n r → printerName o r = printerName o' r := by
  obtain ⟨o1, mg, news, names, h1, F, O⟩ := run_facts_full wfI
  obtain ⟨o2, mg', news', names', h2, F', O'⟩ := run_facts_full wfJ
  have e1 : o1 = o := Option.some.inj (h1.symm.trans h)
  have e2 : o2 = o' := Option.some.inj (h2.symm.trans h')
  subst e1; subst e2
  have hkeys : (mg.map (·.1)).Perm (mg'.map (·.1)) := by
    refine (List.perm_ext_iff_of_nodup F.inv.keys F'.inv.keys).mpr (fun n => ?_)
    rw [F.mem_mg_iff, F'.mem_mg_iff]
    exact ⟨fun ⟨r, hr⟩ => ⟨r, (occurs_perm e).mp hr⟩, fun ⟨r, hr⟩ => ⟨r, (occurs_perm e).mpr hr⟩⟩
  have hnames : names = names' := by
    apply List.Perm.eq_of_pairwise (le := fun a b => totalOf I a ≥ totalOf I b) ?_ O.sorted
    · exact O'.sorted.imp (fun {a b} hab => by rw [totalOf_perm e a, totalOf_perm e b]; exact hab)
    · exact (O.perm.trans hkeys).trans O'.perm.symm
    · intro a b ha hb hab hba
      apply Classical.byContradiction
      intro hne
      obtain ⟨ra, hra⟩ := F.mem_mg_iff.mp (O.perm.mem_iff.mp ha)
      obtain ⟨rb, hrb⟩ := F'.mem_mg_iff.mp (O'.perm.mem_iff.mp hb)
      exact nt a ra b rb hra ((occurs_perm e).mpr hrb) hne (Nat.le_antisymm hba hab)
  have hcl : cacheList I = cacheList J := by unfold cacheList; rw [e.cache]
  have hR : (reservedAll I).Perm (reservedAll J) := by
    unfold reservedAll
    rw [hcl]
    exact (List.Perm.refl _).append (reservedOf_perm' e.files)
  have hnm : nmOf I = nmOf J := by
    unfold nmOf; rw [freqOf_perm e.files]
  have hnews : news = news' := by
    rw [O.gen, O'.gen, hnames, e.cache, hnm]
    exact genNews_congr (fun x => hR.mem_iff) hR.length_eq _ _
  constructor
  · rw [F.cache, F'.cache, e.cache, hnm, hnews]
  · intro n r hocc
    rw [F.printerName_occurs hocc, F'.printerName_occurs ((occurs_perm e).mp hocc)]
    unfold finalName
    rw [e.cache, hnm, hnews]
