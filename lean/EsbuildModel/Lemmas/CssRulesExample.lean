/-
A concrete reading (Impl/CssRulesDenote.lean) that satisfies `Reading.Sound`, used by the non-vacuity examples of
Props/C12Rules.lean.  Elements know their own class / id names and those of their ancestors; a selector matches when
every class / id name it mentions is on the element; a nested selector `child` below the parent list `S` is read as
`:is(S) child` (descendant): some parent selector matches the ancestors, and its specificity is that of `child` plus
the GREATEST specificity of the whole parent list (Selectors 4 §17 for `:is()`, CSS Nesting 1 for `&`).
-/
import EsbuildModel.Lemmas.CssRules

namespace EsbuildModel.CssRules.Example

open EsbuildModel.Spec.RuleCascade

structure El where
  own : List String
  anc : List String

/-- what the example reading looks at in a subclass selector; `subEq` cannot tell more apart -/
inductive Fp
  | hash (n : String)
  | cls (n : String)
  | isWhere
  | pseudo (n : String) (hasArgs : Bool)
  | other
  deriving DecidableEq, Repr

def fp : Sub → Fp
  | .hash n => .hash n
  | .cls n => .cls n
  | .pseudoList k _ _ => if k == "is" || k == "where" then .isWhere else .other
  | .pseudo n h _ _ => .pseudo n h
  | _ => .other

def print (cx : Complex) : List (List Fp) := cx.map (fun c => c.subs.map fp)

theorem fp_eq_of_subEq {a b : Sub} (h : subEq a b = true) : fp a = fp b := by
  cases a <;> cases b <;> simp [subEq] at h <;> simp [fp, h]

theorem map_fp_eq_of_subsEq : ∀ (a b : List Sub), subsEq a b = true → a.map fp = b.map fp
  | [], [], _ => rfl
  | [], _ :: _, h => by simp [subsEq] at h
  | _ :: _, [], h => by simp [subsEq] at h
  | x :: xs, y :: ys, h => by
    simp only [subsEq, Bool.and_eq_true] at h
    simp [fp_eq_of_subEq h.1, map_fp_eq_of_subsEq xs ys h.2]

theorem print_eq_of_complexEq : ∀ (a b : Complex), complexEq a b = true → print a = print b
  | [], [], _ => rfl
  | [], _ :: _, h => by simp [complexEq] at h
  | _ :: _, [], h => by simp [complexEq] at h
  | x :: xs, y :: ys, h => by
    simp only [complexEq, compoundEq, Bool.and_eq_true] at h
    have := print_eq_of_complexEq xs ys h.2
    simp only [print, List.map_cons] at this ⊢
    rw [map_fp_eq_of_subsEq _ _ h.1.2, this]

def fpNames : Fp → List String
  | .hash n => [n]
  | .cls n => [n]
  | _ => []

def names (p : List (List Fp)) : List String := p.flatten.flatMap fpNames
def hasIsWhere (p : List (List Fp)) : Bool := p.flatten.contains .isWhere
def specOf (p : List (List Fp)) : Specificity :=
  ⟨(p.flatten.filter (fun f => match f with | .hash _ => true | _ => false)).length,
   (p.flatten.filter (fun f => match f with | .cls _ => true | _ => false)).length, 0⟩

/-- the user agent of the example does not know the pseudo-class `:-x-foo`, and it rejects a pseudo-class that is not
functional but comes with an (empty) argument list, such as `:hover()` -/
def unknownPseudo (p : List (List Fp)) : Bool :=
  p.flatten.any (fun f => match f with | .pseudo n hasArgs => n == "-x-foo" || hasArgs | _ => false)

def addSpec (x y : Specificity) : Specificity := ⟨x.a + y.a, x.b + y.b, x.c + y.c⟩

def selOf (c : Complex) : Selector El :=
  ⟨fun e => !hasIsWhere (print c) && (names (print c)).all (fun n => e.own.contains n), specOf (print c),
   !unknownPseudo (print c)⟩

def nestOf (S : List (Selector El)) (c : Complex) : Selector El :=
  ⟨fun e => !hasIsWhere (print c) && (names (print c)).all (fun n => e.own.contains n) &&
      S.any (fun s => s.applies ⟨e.anc, []⟩),
   addSpec (specOf (print c)) ((maxSpec (S.map (·.spec))).getD ⟨0, 0, 0⟩),
   S.all (·.understood) && !unknownPseudo (print c)⟩

/-- Env = does the media query `m` hold (every other query holds); properties and values are their texts -/
def reading : Reading El Bool String String where
  sel := selOf
  nest := nestOf
  decl := fun k v p => if k = p then some v else none
  media := fun q env => env || q != "m"
  group := fun t _ => if t.toLower == "supports" then some (fun _ => true) else none

theorem hasIsWhere_of_dead {c : Complex} (h : containsDeadSelectors c = true) : hasIsWhere (print c) = true := by
  simp only [containsDeadSelectors, List.any_eq_true] at h
  obtain ⟨cp, hcp, s, hs, hd⟩ := h
  simp only [hasIsWhere, print, List.contains_iff_mem, List.mem_flatten, List.mem_map]
  refine ⟨cp.subs.map fp, ⟨cp, hcp, rfl⟩, ?_⟩
  rw [List.mem_map]
  refine ⟨s, hs, ?_⟩
  cases s <;> simp [subIsDead] at hd
  simp [fp, hd.2]

theorem known_of_safe {c : Complex} (h : c.all compoundIsSafe = true) : unknownPseudo (print c) = false := by
  rw [Bool.eq_false_iff]
  intro hu
  simp only [unknownPseudo, print, List.any_eq_true, List.mem_flatten, List.mem_map] at hu
  obtain ⟨f, ⟨l, ⟨cp, hcp, rfl⟩, hm⟩, hf⟩ := hu
  rw [List.mem_map] at hm
  obtain ⟨s, hs, rfl⟩ := hm
  rw [List.all_eq_true] at h
  have hsafe := h cp hcp
  simp only [compoundIsSafe, Bool.and_eq_true, List.all_eq_true] at hsafe
  have := hsafe.2 s hs
  cases s with
  | pseudo n ha a e =>
    simp only [fp, Bool.or_eq_true, beq_iff_eq] at hf
    simp only [subIsSafe, Bool.and_eq_true, Bool.not_eq_true', Bool.or_eq_true, beq_iff_eq] at this
    rcases hf with hf | hf
    · subst hf; simp at this
    · rw [hf] at this; simp at this
  | pseudoList k i e => simp [subIsSafe] at this
  | hash n => simp [fp] at hf
  | cls n => simp [fp] at hf
  | attr t m => simp [fp] at hf

theorem reading_sound : reading.Sound where
  sel_eq := by
    intro c c' h
    show selOf c = selOf c'
    simp only [selOf, print_eq_of_complexEq c c' h]
  nest_eq := by
    intro S c c' h
    show nestOf S c = nestOf S c'
    simp only [nestOf, print_eq_of_complexEq c c' h]
  nest_parent := by
    intro S S' c h
    show nestOf S c = nestOf S' c
    have h1 : ∀ (f : Selector El → Bool), S.any f = S'.any f := by
      intro f
      rw [Bool.eq_iff_iff, List.any_eq_true, List.any_eq_true]
      exact ⟨fun ⟨x, hx, hf⟩ => ⟨x, (h x).mp hx, hf⟩, fun ⟨x, hx, hf⟩ => ⟨x, (h x).mpr hx, hf⟩⟩
    have h2 : S.all (·.understood) = S'.all (·.understood) := by
      rw [Bool.eq_iff_iff, List.all_eq_true, List.all_eq_true]
      exact ⟨fun hh x hx => hh x ((h x).mpr hx), fun hh x hx => hh x ((h x).mp hx)⟩
    have h3 : maxSpec (S.map (·.spec)) = maxSpec (S'.map (·.spec)) := by
      apply maxSpec_congr
      intro x
      simp only [List.mem_map]
      exact ⟨fun ⟨y, hy, e⟩ => ⟨y, (h y).mp hy, e⟩, fun ⟨y, hy, e⟩ => ⟨y, (h y).mpr hy, e⟩⟩
    simp only [nestOf, h2, h3]
    congr 1
    funext e
    rw [h1]
  group_eq := by
    intro t t' p h
    simp only [foldEq, beq_iff_eq] at h
    simp only [reading, h]
  dead_sel := by
    intro c e h
    show (selOf c).applies e = false
    simp [selOf, hasIsWhere_of_dead h]
  dead_nest := by
    intro S c e h
    show (nestOf S c).applies e = false
    simp [nestOf, hasIsWhere_of_dead h]
  safe_sel := by
    intro c h
    show (selOf c).understood = true
    simp [selOf, known_of_safe h]
  safe_nest := by
    intro S c h
    show (nestOf S c).understood = _
    simp [nestOf, known_of_safe h]

end EsbuildModel.CssRules.Example
