import EsbuildModel.Impl.Wtf8
/-!
Bit operations of `Impl/Wtf8.lean` as arithmetic (`/`, `%`, `+`), so that `omega` can reason about them.
-/
namespace EsbuildModel.Wtf8

theorem and63 (x : Nat) : x &&& 63 = x % 64 := Nat.and_two_pow_sub_one_eq_mod x 6
theorem and31 (x : Nat) : x &&& 31 = x % 32 := Nat.and_two_pow_sub_one_eq_mod x 5
theorem and15 (x : Nat) : x &&& 15 = x % 16 := Nat.and_two_pow_sub_one_eq_mod x 4
theorem and7 (x : Nat) : x &&& 7 = x % 8 := Nat.and_two_pow_sub_one_eq_mod x 3
theorem and1023 (x : Nat) : x &&& 1023 = x % 1024 := Nat.and_two_pow_sub_one_eq_mod x 10

theorem shr6 (x : Nat) : x >>> 6 = x / 64 := Nat.shiftRight_eq_div_pow x 6
theorem shr10 (x : Nat) : x >>> 10 = x / 1024 := Nat.shiftRight_eq_div_pow x 10
theorem shr12 (x : Nat) : x >>> 12 = x / 4096 := Nat.shiftRight_eq_div_pow x 12
theorem shr18 (x : Nat) : x >>> 18 = x / 262144 := Nat.shiftRight_eq_div_pow x 18

theorem shl6 (x : Nat) : x <<< 6 = x * 64 := Nat.shiftLeft_eq x 6
theorem shl10 (x : Nat) : x <<< 10 = x * 1024 := Nat.shiftLeft_eq x 10
theorem shl12 (x : Nat) : x <<< 12 = x * 4096 := Nat.shiftLeft_eq x 12
theorem shl18 (x : Nat) : x <<< 18 = x * 262144 := Nat.shiftLeft_eq x 18

/-- `hi*2^k ||| lo = hi*2^k + lo` when `lo < 2^k` -/
theorem or_add (k hi lo : Nat) (h : lo < 2 ^ k) : (hi * 2 ^ k) ||| lo = hi * 2 ^ k + lo := by
  rw [Nat.mul_comm]; exact (Nat.two_pow_add_eq_or_of_lt h hi).symm

theorem or128 (x : Nat) (h : x < 64) : 128 ||| x = 128 + x := or_add 6 2 x h
theorem or192 (x : Nat) (h : x < 64) : 192 ||| x = 192 + x := or_add 6 3 x h
theorem or224 (x : Nat) (h : x < 32) : 224 ||| x = 224 + x := or_add 5 7 x h
theorem or240 (x : Nat) (h : x < 16) : 240 ||| x = 240 + x := or_add 4 15 x h

theorem or_mul64 (a b : Nat) (h : b < 64) : (a * 64) ||| b = a * 64 + b := or_add 6 a b h
theorem or_mul1024 (a b : Nat) (h : b < 1024) : (a * 1024) ||| b = a * 1024 + b := or_add 10 a b h
theorem or_mul4096 (a b : Nat) (h : b < 4096) : (a * 4096) ||| b = a * 4096 + b := or_add 12 a b h
theorem or_mul262144 (a b : Nat) (h : b < 262144) : (a * 262144) ||| b = a * 262144 + b := or_add 18 a b h

/-- the code point of a two-byte sequence -/
theorem dec2 (a b : Nat) : ((a &&& 0x1F) <<< 6) ||| (b &&& 0x3F) = a % 32 * 64 + b % 64 := by
  rw [show (0x1F : Nat) = 31 from rfl, show (0x3F : Nat) = 63 from rfl, and31, and63, shl6, or_mul64 _ _ (by omega)]

theorem dec3 (a b c : Nat) :
    ((a &&& 0x0F) <<< 12) ||| ((b &&& 0x3F) <<< 6) ||| (c &&& 0x3F) = a % 16 * 4096 + b % 64 * 64 + c % 64 := by
  rw [show (0x0F : Nat) = 15 from rfl, show (0x3F : Nat) = 63 from rfl, and15, and63, and63, shl12, shl6,
    or_mul4096 _ _ (by omega)]
  have : a % 16 * 4096 + b % 64 * 64 = (a % 16 * 64 + b % 64) * 64 := by omega
  rw [this, or_mul64 _ _ (by omega)]

theorem dec4 (a b c d : Nat) :
    ((a &&& 0x07) <<< 18) ||| ((b &&& 0x3F) <<< 12) ||| ((c &&& 0x3F) <<< 6) ||| (d &&& 0x3F)
      = a % 8 * 262144 + b % 64 * 4096 + c % 64 * 64 + d % 64 := by
  rw [show (0x07 : Nat) = 7 from rfl, show (0x3F : Nat) = 63 from rfl, and7, and63, and63, and63, shl18, shl12, shl6,
    or_mul262144 _ _ (by omega)]
  have h1 : a % 8 * 262144 + b % 64 * 4096 = (a % 8 * 64 + b % 64) * 4096 := by omega
  rw [h1, or_mul4096 _ _ (by omega)]
  clear h1
  have h2 : (a % 8 * 64 + b % 64) * 4096 + c % 64 * 64 = ((a % 8 * 64 + b % 64) * 64 + c % 64) * 64 := by
    generalize a % 8 * 64 + b % 64 = x; omega
  rw [h2, or_mul64 _ _ (by omega)]


/-! masks that classify a byte -/
set_option maxRecDepth 8192
theorem mask_c0 : ∀ b, b < 256 → ((b &&& 0xE0 = 0xC0) ↔ (192 ≤ b ∧ b < 224)) := by decide
theorem mask_e0 : ∀ b, b < 256 → ((b &&& 0xF0 = 0xE0) ↔ (224 ≤ b ∧ b < 240)) := by decide
theorem mask_f0 : ∀ b, b < 256 → ((b &&& 0xF8 = 0xF0) ↔ (240 ≤ b ∧ b < 248)) := by decide
theorem mask_80 : ∀ b, b < 256 → ((b &&& 0xC0 = 0x80) ↔ (128 ≤ b ∧ b < 192)) := by decide

end EsbuildModel.Wtf8
