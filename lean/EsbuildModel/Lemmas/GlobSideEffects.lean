import EsbuildModel.Lemmas.GlobSpec
import EsbuildModel.Lemmas.GlobUtf8
import EsbuildModel.Lemmas.GlobSync
/-
The loop over the items of a "sideEffects" array: what ends up in the map and in the list of regexps.
-/
namespace EsbuildModel.Glob
open EsbuildModel.Spec.MiniRegex

/-- what one array item contributes -/
def Contributes (inputPath : List Nat) (item : List Nat) (se : SideEffects) : Prop :=
  ∃ pat re w, Wtf8.utf16ToString item = some pat ∧
    globstarToEscapedRegexp (absPattern inputPath pat) = .ok (re, w) ∧
    (w = true → (∃ R, compile re = .ok R ∧ R ∈ se.regexps) ∨ (compile re = .invalidUTF8 ∧ emptyRegexp ∈ se.regexps)) ∧
    (w = false → absPattern inputPath pat ∈ se.exact)

theorem parseSideEffects_spec (inputPath : List Nat) (items : List (List Nat)) :
    ∀ acc se, parseSideEffects inputPath items acc = .ok se →
      (∀ x ∈ acc.exact, x ∈ se.exact) ∧ (∀ R ∈ acc.regexps, R ∈ se.regexps) ∧
      (∀ item ∈ items, Contributes inputPath item se) := by
  induction items with
  | nil =>
    intro acc se h
    simp only [parseSideEffects] at h
    injection h with h
    subst h
    exact ⟨fun _ h => h, fun _ h => h, by simp⟩
  | cons item rest ih =>
    intro acc se h
    rw [parseSideEffects] at h
    cases hu : Wtf8.utf16ToString item with
    | none => simp [hu] at h
    | some pat =>
      simp only [hu] at h
      cases hg : globstarToEscapedRegexp (absPattern inputPath pat) with
      | panic => simp [hg] at h
      | diverge => simp [hg] at h
      | ok rw =>
        obtain ⟨re, w⟩ := rw
        simp only [hg] at h
        cases w with
        | true =>
          simp only [if_true] at h
          cases hc : compile re with
          | invalidUTF8 =>
            simp only [hc] at h
            obtain ⟨h1, h2, h3⟩ := ih _ se h
            refine ⟨h1, fun x hx => h2 x (by simp [hx]), ?_⟩
            intro it hit
            rcases List.mem_cons.mp hit with rfl | hit
            · exact ⟨pat, re, true, hu, hg, fun _ => Or.inr ⟨hc, h2 _ (by simp)⟩, fun hf => Bool.noConfusion hf⟩
            · exact h3 it hit
          | unsupported => simp [hc] at h
          | ok R =>
            simp only [hc] at h
            obtain ⟨h1, h2, h3⟩ := ih _ se h
            refine ⟨h1, fun x hx => h2 x (by simp [hx]), ?_⟩
            intro it hit
            rcases List.mem_cons.mp hit with rfl | hit
            · exact ⟨pat, re, true, hu, hg, fun _ => Or.inl ⟨R, hc, h2 R (by simp)⟩, fun hf => Bool.noConfusion hf⟩
            · exact h3 it hit
        | false =>
          simp only [Bool.false_eq_true, if_false] at h
          obtain ⟨h1, h2, h3⟩ := ih _ se h
          refine ⟨fun x hx => h1 x (by simp [hx]), h2, ?_⟩
          intro it hit
          rcases List.mem_cons.mp hit with rfl | hit
          · exact ⟨pat, re, false, hu, hg, fun hf => Bool.noConfusion hf, fun _ => h1 _ (by simp)⟩
          · exact h3 it hit

/-- the loop never panics: `UTF16ToString` is total on UTF-16 units, the translator is total, and `regexp.Compile`
either succeeds or reports invalid UTF-8 (then the empty regexp is used) -/
theorem parseSideEffects_total (inputPath : List Nat) (items : List (List Nat))
    (hu : ∀ item ∈ items, ∀ u ∈ item, u < 65536) : ∀ acc, ∃ se, parseSideEffects inputPath items acc = .ok se := by
  induction items with
  | nil => intro acc; exact ⟨acc, rfl⟩
  | cons item rest ih =>
    intro acc
    have ih' := ih (fun it hit => hu it (List.mem_cons_of_mem _ hit))
    rw [parseSideEffects, Wtf8.utf16ToString_eq item (hu item (by simp))]
    simp only [globstar_eq]
    split
    · rw [compile_tokens_any]
      generalize validUTF8 _ = v
      cases v
      · exact ih' _
      · exact ih' _
    · exact ih' _

/-- the empty regexp matches every subject -/
theorem goMatch_emptyRegexp (path : List Nat) : goMatch emptyRegexp path = true := by
  unfold goMatch
  rw [matchString_iff]
  exact ⟨[], [], runesOf path, by simp, rfl⟩

/-- a pattern without `*` and `?` is turned into tokens that are all literal -/
theorem lex_no_wild (p : List Nat) (h : hasWild p = false) :
    ∀ b, EsbuildModel.Spec.Glob.lex b 0 p = p.map Spec.Glob.Tok.lit := by
  induction p with
  | nil => intro b; rw [EsbuildModel.Spec.Glob.lex]; rfl
  | cons c p ih =>
    intro b
    have hc : (c == 42 || c == 63) = false ∧ hasWild p = false := by
      simpa [hasWild, List.any_cons, Bool.or_eq_false_iff] using h
    have h42 : c ≠ 42 := by
      intro hh; subst hh; simp at hc
    have h63 : c ≠ 63 := by
      intro hh; subst hh; simp at hc
    rw [EsbuildModel.Spec.Glob.lex]
    simp [h42, h63, Spec.Glob.tokOf, ih hc.2]

theorem codeMatch_lits (g w : List Nat) : codeMatch (g.map CTok.lit) w = true ↔ w = g := by
  induction g generalizing w with
  | nil => simp [codeMatch_nil]
  | cons c g ih =>
    rw [List.map_cons, codeMatch_lit]
    cases w with
    | nil => simp
    | cons x xs =>
      simp only [Bool.and_eq_true, beq_iff_eq, ih, List.cons.injEq]

theorem codeToks_no_wild (p : List Nat) (h : hasWild p = false) : codeToks p = p.map CTok.lit := by
  unfold codeToks Spec.Glob.tokens
  rw [lex_no_wild p h, List.map_map]
  rfl

end EsbuildModel.Glob
