import EsbuildModel.Lemmas.OutPathsInside
import EsbuildModel.Lemmas.OutPathsLca3
/-
Injectivity of the (dir, name) pair; the closed form of the output path for the default entry template.
-/
namespace EsbuildModel.OutPaths
open EsbuildModel.Spec.OutPath

theorem replicate_append_inj {u : Str} : ∀ (a b : Nat) {X Y : List Str}, u ∉ X → u ∉ Y →
    List.replicate a u ++ X = List.replicate b u ++ Y → a = b ∧ X = Y := by
  intro a
  induction a with
  | zero =>
    intro b X Y hX hY h
    cases b with
    | zero => exact ⟨rfl, by simpa using h⟩
    | succ b =>
      simp only [List.replicate_zero, List.nil_append, List.replicate_succ, List.cons_append] at h
      exact absurd (by rw [h]; simp) hX
  | succ a ih =>
    intro b X Y hX hY h
    cases b with
    | zero =>
      simp only [List.replicate_zero, List.nil_append, List.replicate_succ, List.cons_append] at h
      exact absurd (by rw [← h]; simp) hY
    | succ b =>
      simp only [List.replicate_succ, List.cons_append, List.cons.injEq, true_and] at h
      obtain ⟨h1, h2⟩ := ih b hX hY h
      exact ⟨by omega, h2⟩

theorem getLast?_append_ne_nil' {α} (a : List α) {b : List α} (h : b ≠ []) : (a ++ b).getLast? = b.getLast? := by
  rw [List.getLast?_append]
  cases hb : b.getLast? with
  | none => exact absurd (List.getLast?_eq_none_iff.mp hb) h
  | some c => simp

theorem stripCommon_snd_ne_nil {B T : List Str} (h : ¬ T <+: B) : (stripCommon B T).2 ≠ [] := by
  obtain ⟨C, h1, h2⟩ := stripCommon_eq B T
  intro e
  rw [e, List.append_nil] at h2
  have h3 : C ++ (stripCommon B T).1 = B := h1.symm
  rw [← h2] at h3
  exact h ⟨_, h3⟩

/-- two files that are not ancestors of the outbase and have no "_.._" in their paths get the same `[dir]`
only if they are in the same directory -/
theorem dirNames_injective {B T1 T2 : List Str} (hu1 : usus ∉ T1) (hu2 : usus ∉ T2)
    (hn1 : ¬ T1 <+: B) (hn2 : ¬ T2 <+: B) (hd : dirNames B T1 = dirNames B T2) :
    T1.dropLast = T2.dropLast ∧ lastName B T1 = T1.getLast?.getD [] ∧ lastName B T2 = T2.getLast?.getD [] := by
  obtain ⟨C1, hB1, hT1⟩ := stripCommon_eq B T1
  obtain ⟨C2, hB2, hT2⟩ := stripCommon_eq B T2
  have hne1 := stripCommon_snd_ne_nil hn1
  have hne2 := stripCommon_snd_ne_nil hn2
  unfold dirNames at hd
  unfold lastName
  generalize stripCommon B T1 = S1 at *
  generalize stripCommon B T2 = S2 at *
  obtain ⟨B1, T1'⟩ := S1
  obtain ⟨B2, T2'⟩ := S2
  simp only at *
  simp only [hne1, hne2, if_false] at hd
  have hx1 : usus ∉ T1'.dropLast := fun hm => hu1 (by rw [hT1]; exact List.mem_append_right _ (List.dropLast_subset _ hm))
  have hx2 : usus ∉ T2'.dropLast := fun hm => hu2 (by rw [hT2]; exact List.mem_append_right _ (List.dropLast_subset _ hm))
  obtain ⟨hlen, hdl⟩ := replicate_append_inj _ _ hx1 hx2 hd
  have hC : C1 = C2 := by
    have l1 : C1.length = C2.length := by
      have e1 := congrArg List.length hB1
      have e2 := congrArg List.length hB2
      simp only [List.length_append] at e1 e2
      omega
    have p1 : C1 = B.take C1.length := by rw [hB1]; simp
    have p2 : C2 = B.take C2.length := by rw [hB2]; simp
    rw [p1, p2, l1]
  subst hC
  refine ⟨?_, ?_, ?_⟩
  · rw [hT1, hT2, List.dropLast_append_of_ne_nil hne1, List.dropLast_append_of_ne_nil hne2, hdl]
  · rw [hT1, getLast?_append_ne_nil' _ hne1]
    cases h : T1'.getLast? with
    | none => exact absurd (List.getLast?_eq_none_iff.mp h) hne1
    | some l => rfl
  · rw [hT2, getLast?_append_ne_nil' _ hne2]
    cases h : T2'.getLast? with
    | none => exact absurd (List.getLast?_eq_none_iff.mp h) hne2
    | some l => rfl

theorem validName_name_ext {n e : Str} (hn : '/' ∉ n) (he : ValidExt e) : ValidName (n ++ e) := by
  obtain ⟨c, h1, h2⟩ := he.last
  have hne : e ≠ [] := by intro h; simp [h] at h1
  have hlast : (n ++ e).getLast? = some c := by rw [getLast?_append_ne_nil n hne, h1]
  refine ⟨by simp [hne], ?_, ?_, ?_⟩
  · intro hm
    rcases List.mem_append.mp hm with hm | hm
    · exact hn hm
    · exact he.2.2.2 hm
  · intro h; rw [h] at hlast; simp at hlast; exact h2 hlast.symm
  · intro h; rw [h] at hlast; simp at hlast; exact h2 hlast.symm

theorem resolve_skip_empty (cur : AbsPath) (rest : List Str) : resolve cur ([] :: rest) = resolve cur rest := by
  simp [resolve, step]

theorem resolve_skip_dot (cur : AbsPath) (rest : List Str) : resolve cur (['.'] :: rest) = resolve cur rest := by
  simp [resolve, step]

/-- closed form of the output path for the default entry template: outdir, then the names of `[dir]`, then
the file name with the extension -/
theorem outputPath_default {outdir : Str} (ho : isAbs outdir = true) {Y : AbsPath} (hY : ∀ y ∈ Y, ValidName y)
    {n e : Str} (hn : '/' ∉ n) (he : ValidExt e) (h : Str) :
    outputPath outdir defaultEntryTemplate (render Y) n e h = render (denote outdir ++ Y ++ [n ++ e]) := by
  unfold outputPath finalAbsPath
  rw [finalRelPath_default, join_abs ho, components_eq_splitSlash]
  have hsplit : splitSlash ('.' :: '/' :: (render Y ++ '/' :: (n ++ e))) =
      ['.'] :: (splitSlash (render Y) ++ [n ++ e]) := by
    have h1 := splitSlash_append_slash ['.'] (render Y ++ '/' :: (n ++ e))
    have h2 := splitSlash_append_slash (render Y) (n ++ e)
    have h3 : splitSlash (n ++ e) = [n ++ e] := splitSlash_noslash (validName_name_ext hn he).2.1
    simp only [List.cons_append, List.nil_append] at h1
    rw [h1, h2, h3]
    rfl
  rw [hsplit, resolve_skip_dot, resolve_append]
  have hr : resolve (denote outdir) (splitSlash (render Y)) = denote outdir ++ Y := by
    rw [render_eq, splitSlash_slash, resolve_skip_empty]
    cases Y with
    | nil => simp [joinSlash_nil, splitSlash, resolve, step]
    | cons y Y' =>
      rw [splitSlash_joinSlash (by simp) (fun z hz => (hY z hz).2.1)]
      exact resolve_validNames _ hY
  rw [hr, resolve_validNames _ (by intro x hx; simp only [List.mem_singleton] at hx; subst hx; exact validName_name_ext hn he)]

end EsbuildModel.OutPaths
