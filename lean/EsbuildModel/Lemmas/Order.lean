import EsbuildModel.Impl.Order
import EsbuildModel.Lemmas.Dfs
/-! The part-interleaved traversal of `findImportedPartsInJSOrder` projects onto the plain
mark-on-entry / post-order traversal `Dfs.visit` over the "followed import" graph. -/
namespace EsbuildModel.Order
open EsbuildModel.Dfs (Edge Reach Before)

/-- the files a file's traversal descends into, in order -/
def partTargets (inThis : Bool) (p : Part) : List Nat := (p.recs.filter (follow inThis p)).map (·.target)

def targets (file : File) : List Nat := file.parts.flatMap (partTargets file.inChunk)

/-- successor function of the followed-import graph; `none` where the Go code would index out of range -/
def succ (files : List File) (f : Nat) : Option (List Nat) :=
  match files[f]? with
  | none => none
  | some file =>
    if !file.isJS then some []
    else if file.canSplit && file.inChunk && file.parts.isEmpty then none
    else some (targets file)

/-- files that are emitted into this chunk: JavaScript and with the chunk's entry bits -/
def keep (files : List File) (f : Nat) : Bool :=
  match files[f]? with
  | some file => file.isJS && file.inChunk
  | none => false

/-- the projection: same marks, and the emitted files are the finished ones that belong to the chunk -/
def R (files : List File) (st : St) (g : Dfs.St) : Prop :=
  st.visited = g.visited ∧ st.js = g.order.filter (keep files)

def ORel (files : List File) : Option St → Option Dfs.St → Prop
  | some a, some b => R files a b
  | none, none => True
  | _, _ => False

open EsbuildModel.Dfs (visitList_append)

section
variable {files : List File} {k : Nat → St → Option St} {k' : Nat → Dfs.St → Option Dfs.St}

theorem recLoop_proj (hk : ∀ f st g, R files st g → ORel files (k f st) (k' f g))
    (inThis : Bool) (p : Part) : ∀ (rs : List Rec) (st : St) (g : Dfs.St), R files st g →
      ORel files (recLoop k inThis p rs st) (Dfs.visitList k' ((rs.filter (follow inThis p)).map (·.target)) g) := by
  intro rs
  induction rs with
  | nil => intro st g h; simpa [recLoop, Dfs.visitList, ORel] using h
  | cons r rs ih =>
    intro st g h
    unfold recLoop
    by_cases hf : follow inThis p r = true
    · simp only [hf, if_true, List.filter_cons_of_pos, List.map_cons, Dfs.visitList]
      have := hk r.target st g h
      cases h1 : k r.target st <;> cases h2 : k' r.target g <;> simp [h1, h2, ORel] at this ⊢
      exact ih _ _ this
    · simp only [hf, Bool.false_eq_true, if_false]
      rw [List.filter_cons_of_neg (by simpa using hf)]
      exact ih st g h

theorem partLoop_proj (hk : ∀ f st g, R files st g → ORel files (k f st) (k' f g))
    (f : Nat) (file : File) : ∀ (ps : List Part) (idx : Nat) (st : St) (g : Dfs.St), R files st g →
      ORel files (partLoop k f file idx ps st) (Dfs.visitList k' (ps.flatMap (partTargets file.inChunk)) g) := by
  intro ps
  induction ps with
  | nil => intro idx st g h; simpa [partLoop, Dfs.visitList, ORel] using h
  | cons p ps ih =>
    intro idx st g h
    unfold partLoop
    simp only [List.flatMap_cons, visitList_append]
    have h1 := recLoop_proj hk file.inChunk p p.recs st g h
    unfold partTargets
    cases e1 : recLoop k file.inChunk p p.recs st <;>
      cases e2 : Dfs.visitList k' ((p.recs.filter (follow file.inChunk p)).map (·.target)) g <;>
      simp [e1, e2, ORel] at h1 ⊢
    rename_i st1 g1
    apply ih
    -- the part bookkeeping does not touch `visited` / `js`
    split
    · split <;> exact h1
    · exact h1
end

theorem enter_some {file : File} {f : Nat} {st st1 : St} (h : enter file f st = some st1) :
    st1.visited = st.visited ∧ st1.js = st.js := by
  unfold enter at h
  split at h
  · split at h
    · cases h
    · cases h; split <;> exact ⟨rfl, rfl⟩
  · cases h; exact ⟨rfl, rfl⟩

theorem enter_none_iff (file : File) (f : Nat) (st : St) :
    enter file f st = none ↔ (file.canSplit && file.inChunk && file.parts.isEmpty) = true := by
  unfold enter
  cases file.canSplit <;> cases file.inChunk <;> cases file.parts <;> simp

theorem finish_proj (file : File) (f : Nat) (st : St) :
    (finish file f st).visited = st.visited ∧
    (finish file f st).js = if file.inChunk then st.js ++ [f] else st.js := by
  unfold finish
  split <;> exact ⟨rfl, rfl⟩

theorem visit_proj (files : List File) : ∀ (fuel f : Nat) (st : St) (g : Dfs.St), R files st g →
    ORel files (visit files fuel f st) (Dfs.visit (succ files) fuel f g) := by
  intro fuel
  induction fuel with
  | zero => intro f st g _; simp [visit, Dfs.visit, ORel]
  | succ fuel ih =>
    intro f st g h
    unfold visit Dfs.visit
    rw [← h.1]
    by_cases hc : st.visited.contains f = true
    · rw [if_pos hc, if_pos hc]; exact h
    · rw [if_neg hc, if_neg hc]
      cases hfile : files[f]? with
      | none => simp [succ, hfile, ORel]
      | some file =>
        have hkeep : keep files f = (file.isJS && file.inChunk) := by simp [keep, hfile]
        have hR0 : R files (mark f st) { g with visited := f :: st.visited } := ⟨rfl, h.2⟩
        by_cases hjs : file.isJS = true
        · cases hen : enter file f (mark f st) with
          | none =>
            have hn := (enter_none_iff file f (mark f st)).1 hen
            have hs : succ files f = none := by simp [succ, hfile, hjs, hn]
            simp [hjs, hs, hen, ORel]
          | some st1 =>
            have hnn : ¬ (file.canSplit && file.inChunk && file.parts.isEmpty) = true := by
              intro hn
              rw [(enter_none_iff file f (mark f st)).2 hn] at hen
              cases hen
            have hs : succ files f = some (targets file) := by simp [succ, hfile, hjs, hnn]
            have he := enter_some hen
            have hR1 : R files st1 { g with visited := f :: st.visited } :=
              ⟨he.1.trans hR0.1, he.2.trans hR0.2⟩
            have hl := partLoop_proj (files := files) (k := visit files fuel) (k' := Dfs.visit (succ files) fuel)
              ih f file file.parts 0 st1 _ hR1
            simp only [hjs, Bool.not_true, Bool.false_eq_true, if_false, hs, hen]
            show ORel files
              (match partLoop (visit files fuel) f file 0 file.parts st1 with
                | none => none
                | some st2 => some (finish file f st2))
              (match Dfs.visitList (Dfs.visit (succ files) fuel) (targets file) { g with visited := f :: st.visited } with
                | none => none
                | some st' => some { st' with order := st'.order ++ [f] })
            unfold targets
            cases e1 : partLoop (visit files fuel) f file 0 file.parts st1 <;>
              cases e2 : Dfs.visitList (Dfs.visit (succ files) fuel) (file.parts.flatMap (partTargets file.inChunk))
                { g with visited := f :: st.visited } <;>
              simp only [e1, e2, ORel] at hl ⊢
            rename_i st2 g2
            have hf := finish_proj file f st2
            refine ⟨hf.1.trans hl.1, ?_⟩
            rw [hf.2, List.filter_append, hl.2]
            cases hin : file.inChunk <;> simp [hkeep, hjs, hin]
        · have hjs' : file.isJS = false := by simpa using hjs
          have hs : succ files f = some [] := by simp [succ, hfile, hjs']
          simp only [hjs', Bool.not_false, if_true, hs, Dfs.visitList, ORel]
          refine ⟨rfl, ?_⟩
          simp [mark, List.filter_append, hkeep, hjs', h.2]

theorem rootsLoop_proj (files : List File) (fuel : Nat) : ∀ (rs : List Nat) (st : St) (g : Dfs.St), R files st g →
    ORel files (rootsLoop (visit files fuel) rs st) (Dfs.visitList (Dfs.visit (succ files) fuel) rs g) := by
  intro rs
  induction rs with
  | nil => intro st g h; simpa [rootsLoop, Dfs.visitList, ORel] using h
  | cons r rs ih =>
    intro st g h
    unfold rootsLoop Dfs.visitList
    have := visit_proj files fuel r st g h
    cases h1 : visit files fuel r st <;> cases h2 : Dfs.visit (succ files) fuel r g <;> simp [h1, h2, ORel] at this ⊢
    exact ih _ _ this

/-- the emitted file order is the post-order of the followed-import graph, restricted to the chunk's files -/
theorem run_js (files : List File) (roots : List (Nat × Nat × Nat)) :
    (run files roots).map (·.1) =
      (Dfs.run (succ files) files.length (0 :: (sortRoots roots).map (·.1))).map (·.filter (keep files)) := by
  have := rootsLoop_proj files (files.length + 1) (0 :: (sortRoots roots).map (·.1)) ⟨[], [], [], []⟩ ⟨[], []⟩
    ⟨rfl, rfl⟩
  unfold run Dfs.run
  cases h1 : rootsLoop (visit files (files.length + 1)) (0 :: (sortRoots roots).map (·.1)) ⟨[], [], [], []⟩ <;>
    cases h2 : Dfs.visitList (Dfs.visit (succ files) (files.length + 1)) (0 :: (sortRoots roots).map (·.1)) ⟨[], []⟩ <;>
    simp [h1, h2, ORel] at this ⊢
  exact this.2

/-- well-formed linker input: JS files have at least the namespace-export part, records point to files -/
def WFOrder (files : List File) : Prop :=
  ∀ file ∈ files, (file.isJS = true → file.parts ≠ []) ∧ ∀ p ∈ file.parts, ∀ r ∈ p.recs, r.target < files.length

theorem wf_succ {files : List File} (h : WFOrder files) : Dfs.WF (succ files) files.length := by
  intro i hi
  have hget : files[i]? = some files[i] := List.getElem?_eq_getElem hi
  have hm := h files[i] (List.getElem_mem hi)
  unfold succ
  rw [hget]
  simp only
  by_cases hjs : files[i].isJS = true
  · have hne := hm.1 hjs
    have hemp : files[i].parts.isEmpty = false := by
      cases hp : files[i].parts with
      | nil => exact absurd hp hne
      | cons _ _ => rfl
    simp only [hjs, Bool.not_true, Bool.false_eq_true, if_false, hemp, Bool.and_false]
    refine ⟨_, rfl, ?_⟩
    intro j hj
    simp only [targets, partTargets, List.mem_flatMap, List.mem_map, List.mem_filter] at hj
    obtain ⟨p, hp, r, ⟨hr, _⟩, rfl⟩ := hj
    exact hm.2 p hp r hr
  · simp only [hjs, Bool.not_false, if_true]
    exact ⟨[], rfl, by simp⟩

theorem Before.filter {o : List Nat} {y x : Nat} (p : Nat → Bool) (h : Before o y x) (hy : p y = true) (hx : p x = true) :
    Before (o.filter p) y x := by
  obtain ⟨l1, l2, e, hy1⟩ := h
  refine ⟨l1.filter p, l2.filter p, ?_, List.mem_filter.2 ⟨hy1, hy⟩⟩
  rw [e, List.filter_append, List.filter_cons_of_pos hx]

theorem mem_sortRoots (roots : List (Nat × Nat × Nat)) (x : Nat × Nat × Nat) : x ∈ sortRoots roots ↔ x ∈ roots := by
  have hins : ∀ (a : Nat × Nat × Nat) (l : List (Nat × Nat × Nat)), x ∈ insertRoot a l ↔ x = a ∨ x ∈ l := by
    intro a l
    induction l with
    | nil => simp [insertRoot]
    | cons y ys ih =>
      unfold insertRoot
      split
      · simp
      · simp only [List.mem_cons, ih]
        constructor
        · rintro (h | h | h) <;> simp [h]
        · rintro (h | h | h) <;> simp [h]
  induction roots with
  | nil => simp [sortRoots]
  | cons a l ih => simp [sortRoots, hins, ih]

end EsbuildModel.Order
